/-
Progress (C07) / order (C05): the data invariant `RunData` of Parser::run() — the parser never
consumes more than it has (`next ≤ avail`, needs FIFO order of the chunks on the input queue), what
it has is inside the file, for PBF the data it has ends at a blob boundary, and with an empty entity
mask the buffer stays empty.
-/
import Osmium.Lemmas.PipelineLiveIds
import Osmium.Lemmas.PipelineShapeIn

set_option linter.unusedSimpArgs false
set_option linter.unusedVariables false

namespace Osmium.Pipeline
open Osmium.Mon
variable {α : Type} [DecidableEq α]
namespace Live

section proj
variable (s : State α) (lv : List (List α)) (k : CK)
omit [DecidableEq α]

@[simp] theorem afterPop_avail : (afterPop s lv).avail = s.avail := by
  unfold afterPop; split <;> (try split) <;> rfl
@[simp] theorem afterPop_next : (afterPop s lv).next = s.next := by
  unfold afterPop; split <;> (try split) <;> rfl
@[simp] theorem afterPop_blob : (afterPop s lv).blob = s.blob := by
  unfold afterPop; split <;> (try split) <;> rfl
@[simp] theorem afterPop_cur : (afterPop s lv).cur = s.cur := by
  unfold afterPop; split <;> (try split) <;> rfl
@[simp] theorem afterPop_reads : (afterPop s lv).reads = s.reads := by
  unfold afterPop; split <;> (try split) <;> rfl
@[simp] theorem afterClose_avail : (afterClose s k).avail = s.avail := by cases k <;> rfl
@[simp] theorem afterClose_next : (afterClose s k).next = s.next := by cases k <;> rfl
@[simp] theorem afterClose_blob : (afterClose s k).blob = s.blob := by cases k <;> rfl
@[simp] theorem afterClose_cur : (afterClose s k).cur = s.cur := by cases k <;> rfl
@[simp] theorem afterClose_reads : (afterClose s k).reads = s.reads := by cases k <;> rfl

end proj

/-- normalise the projections of `afterPop` / `afterClose` (data fields too) -/
macro "ap_norm2" : tactic => `(tactic|
  simp only [afterPop_rpc, afterPop_ppc, afterPop_fut, afterPop_want, afterPop_work, afterPop_wpc, afterPop_hdr,
    afterPop_nIn, afterPop_nOut, afterPop_inputDone, afterClose_rpc, afterClose_ppc, afterClose_fut, afterClose_want,
    afterClose_work, afterClose_wpc, afterClose_hdr, afterClose_nIn, afterClose_nOut, afterClose_inputDone,
    Q.afterPop_inq, Q.afterPop_outq, Q.afterClose_inq, Q.afterClose_outq,
    afterPop_avail, afterPop_next, afterPop_blob, afterPop_cur, afterPop_reads,
    afterClose_avail, afterClose_next, afterClose_blob, afterClose_cur, afterClose_reads])

syntax "dt_close " ident : tactic
macro_rules
  | `(tactic| dt_close $ih:ident) => `(tactic|
      first
        | exact $ih
        | (ap_norm2; exact $ih)
        | (simp_all [setPc_apply, pCont, rCont]; done)
        | (simp only [setPc_apply, pCont, rCont] at *; grind))

/-! ## list facts -/

theorem nth_mono (l : List Nat) (h : l.Pairwise (· ≤ ·)) (i j : Nat) (hij : i ≤ j) (hj : j < l.length) :
    nth l i ≤ nth l j := by
  have hi : i < l.length := by omega
  simp only [nth, List.getD_eq_getElem?_getD, List.getElem?_eq_getElem hi, List.getElem?_eq_getElem hj,
    Option.getD_some]
  rcases Nat.lt_or_eq_of_le hij with h1 | h1
  · exact (List.pairwise_iff_getElem.mp h) i j hi hj h1
  · subst h1; exact Nat.le_refl _

theorem nth_mem_or_zero (l : List Nat) (i : Nat) : nth l i = 0 ∨ nth l i ∈ l := by
  by_cases hi : i < l.length
  · right
    simp only [nth, List.getD_eq_getElem?_getD, List.getElem?_eq_getElem hi, Option.getD_some]
    exact List.getElem_mem hi
  · left
    simp [nth, List.getD_eq_getElem?_getD, List.getElem?_eq_none (Nat.le_of_not_lt hi)]

/-- the PBF clause of `RunData` from "next is the previous blob boundary" and "avail is a blob boundary" -/
theorem blob_clause (l : List Nat) (hm : l.Pairwise (· ≤ ·)) (blob next avail : Nat)
    (hn : next = (if blob = 0 then 0 else nth l (blob - 1))) (hb : blob ≤ l.length)
    (ha : avail ∈ l) (hlt : next < avail) :
    blob < l.length ∧ nth l blob ≤ avail ∧ next ≤ nth l blob := by
  obtain ⟨j, hj, hje⟩ := List.getElem_of_mem ha
  have hjn : nth l j = avail := by
    simp [nth, List.getD_eq_getElem?_getD, List.getElem?_eq_getElem hj, hje]
  cases blob with
  | zero =>
    simp only [if_pos] at hn
    refine ⟨by omega, ?_, by omega⟩
    rw [← hjn]; exact nth_mono l hm 0 j (Nat.zero_le _) hj
  | succ b =>
    simp only [Nat.add_one_ne_zero, if_false, Nat.add_sub_cancel] at hn
    have hjb : ¬ j ≤ b := by
      intro hle
      have := nth_mono l hm j b hle (by omega)
      omega
    have hbj : b + 1 ≤ j := by omega
    refine ⟨by omega, ?_, ?_⟩
    · rw [← hjn]; exact nth_mono l hm (b + 1) j hbj hj
    · rw [hn]; exact nth_mono l hm b (b + 1) (by omega) (by omega)

/-! ## small invariants -/

set_option maxHeartbeats 1600000 in
/-- (4) with an empty entity mask nothing is ever committed to the buffer -/
theorem d_cur (c : Cfg α) (wf : c.WF) : ∀ s, (machine c).Reachable s → c.nothing = true → s.cur = [] := by
  apply Machine.invariant
  · simp [machine, init]
  · intro s e s' _ ih hst
    have hsel := wf.nothing_sel
    plv_cases e with hst q hq
    all_goals dt_close ih

set_option maxHeartbeats 1600000 in
/-- (3i) PBF: `next` is the end of the previous blob -/
theorem d_blob (c : Cfg α) : ∀ s, (machine c).Reachable s → c.pbf = true →
    s.next = (if s.blob = 0 then 0 else nth c.blobEnd (s.blob - 1)) ∧ s.blob ≤ c.blobEnd.length := by
  apply Machine.invariant
  · simp [machine, init]
  · intro s e s' _ ih hst
    plv_cases e with hst q hq
    all_goals dt_close ih

set_option maxHeartbeats 1600000 in
/-- (3ii) what the parser has is nothing or ends at a chunk boundary -/
theorem d_avail (c : Cfg α) : ∀ s, (machine c).Reachable s → s.avail = 0 ∨ s.avail ∈ c.chunkEnd := by
  apply Machine.invariant
  · simp [machine, init]
  · intro s e s' _ ih hst
    plv_cases e with hst q hq
    all_goals first
      | exact ih
      | (ap_norm2; exact ih)
      | exact nth_mem_or_zero _ _

/-! ## `next ≤ avail` (FIFO order of the chunks on the input queue: `ShapeIn.invP`, `ShapeIn.pget_chunk`) -/

/-- the chunk the parser is about to take extends what it has -/
theorem avail_le_chunk (c : Cfg α) (wf : c.WF) (s : State α) (hr : (machine c).Reachable s) (id i : Nat)
    (hp : s.ppc = .got id) (hf : s.fut id = some (.chunk i)) : s.avail ≤ nth c.chunkEnd i := by
  have hK := ShapeIn.invK c s hr
  obtain ⟨j, ha, hPW⟩ := (ShapeIn.invP c s hr).p_run (by rw [hp]; rfl) (hK.k_m (.inr ⟨id, hp⟩)).2
  obtain ⟨e1, e2⟩ := ShapeIn.pget_chunk c s (ShapeIn.invR c s hr) (ShapeIn.invPre c s hr) (ShapeIn.invN c s hr)
    id i hp hf j (by simpa [ShapeIn.gotW, hp] using hPW)
  subst e1
  rw [ha]
  unfold ShapeIn.availOf
  split
  · omega
  · exact nth_mono c.chunkEnd wf.chunk_mono (i - 1) i (by omega) e2

set_option maxHeartbeats 1600000 in
/-- (1) the parser never holds less input than it has consumed -/
theorem avail_mono (c : Cfg α) (wf : c.WF) : ∀ s, (machine c).Reachable s → s.next ≤ s.avail := by
  apply Machine.invariant
  · simp [machine, init]
  · intro s e s' hr ih hst
    have hch := avail_le_chunk c wf s hr
    plv_cases e with hst q hq
    all_goals first
      | exact ih
      | (ap_norm2; exact ih)
      | (simp only; omega)
      | (have := hch _ _ ‹s.ppc = _› ‹s.fut _ = _›; simp only; omega)

/-! ## RunData -/

/-- the one component of `RunData` that needs the FIFO order of the input queue (proved: `availMono`) -/
def AvailMono (c : Cfg α) : Prop := ∀ s, (machine c).Reachable s → s.next ≤ s.avail

/-- `RunData` from `next ≤ avail` -/
theorem run_data_partial (c : Cfg α) (wf : c.WF) (hmono : AvailMono c) (s : State α)
    (h : (machine c).Reachable s) : RunData c s := by
  refine ⟨hmono s h, avail_le c wf s h, ?_, d_cur c wf s h⟩
  intro hp hlt
  obtain ⟨hn, hb⟩ := d_blob c s h hp
  rcases d_avail c s h with h0 | hm
  · omega
  · rcases wf.chunk_blob hp _ hm with h0 | hm2
    · omega
    · exact blob_clause c.blobEnd wf.blob_mono s.blob s.next s.avail hn hb hm2 hlt

theorem availMono (c : Cfg α) (wf : c.WF) : AvailMono c := avail_mono c wf

/-- `Live.run_data`: the data invariant of Parser::run() holds in every reachable state of a
    well-formed configuration. -/
theorem run_data (c : Cfg α) (wf : c.WF) (s : State α) (h : (machine c).Reachable s) : RunData c s :=
  run_data_partial c wf (availMono c wf) s h

end Live
end Osmium.Pipeline
