import Osmium.Lemmas.PipelineCompleteB

set_option linter.unusedSimpArgs false
set_option linter.unusedVariables false

namespace Osmium.Pipeline
open Osmium.Mon
variable {α : Type} [DecidableEq α]
namespace Complete

set_option maxHeartbeats 1600000 in
theorem invJ (c : Cfg α) : ∀ s, (machine c).Reachable s → InvJ s := by
  apply Machine.invariant
  · constructor <;> simp [machine, init, QueueSM.init]
  · intro s e s' hr ih hst
    have hB := (invB c s hr).b_close
    obtain ⟨h1, h2, h3⟩ := ih
    pc_cases e with hst
    all_goals (refine ⟨?_, ?_, ?_⟩ <;> first
      | assumption
      | (simp_all [inClose, apCpc, apBack, acStatus, acCpc, setPc_apply]; done)
      | (simp_all [inClose, apCpc, apBack, acStatus, acCpc, setPc_apply] <;> grind)
      | skip)

end Complete
end Osmium.Pipeline
