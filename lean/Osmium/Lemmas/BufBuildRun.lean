/-
C04 built_content, part 4: the pure run of the builder calls of one sub-builder block
(`HostileLayout.subScript`) appends exactly `HostileLayout.subBytes` to the object under construction.
-/
import Osmium.Lemmas.BufBuildOps
import Osmium.Model.HostileLayout

namespace Osmium.Buf

open Osmium.Layout
open Osmium.HostileLayout (tagBytes tagsBody nodeRefBytes nodesBody memberBytes membersBody commentBytes
  commentsBodyRaw finishLast commentsBody subBytes subsBytes padTo)

theorem pRun_append (fill : UInt8) (aux : Bytes) (av : Bool) (x : PSt) (a b : List Op) :
    pRun fill aux av x (a ++ b) = (pRun fill aux av x a).bind fun x' => pRun fill aux av x' b := by
  induction a generalizing x with
  | nil => rfl
  | cons op ops ih =>
    simp only [List.cons_append, pRun]
    cases pStep fill aux av x op with
    | none => rfl
    | some x' => exact ih x'

theorem P2_congr {ty : Nat} {A : Bytes} {lty : Nat} {o o' l l' : Nat} {B B' : Bytes} (ho : o = o') (hl : l = l')
    (hB : B = B') : P2 ty o A lty l B = P2 ty o' A lty l' B' := by subst ho hl hB; rfl

theorem P1_congr {ty : Nat} {o o' : Nat} {A A' : Bytes} (ho : o = o') (hA : A = A') : P1 ty o A = P1 ty o' A' := by
  subst ho hA; rfl

/-- the stack while a list builder of kind `lk` is open inside the object builder of kind `k` -/
def st2 (A : Bytes) (lk : Kind) (pt : Option Nat) (k : Kind) : List AFrame := [(8 + A.length, lk, pt), (0, k, none)]

/-! ### tags -/

theorem ps_tag (fill : UInt8) (aux : Bytes) (av : Bool) (ty osz : Nat) (A : Bytes) (lty lsz : Nat) (B : Bytes) (k : Kind)
    (kk v : Bytes) :
    pStep fill aux av (P2 ty osz A lty lsz B, st2 A .taglist none k) (.tag kk v) =
      some (P2 ty (osz + (tagBytes (kk, v)).length) A lty (lsz + (tagBytes (kk, v)).length) (B ++ tagBytes (kk, v)),
            st2 A .taglist none k) := by
  simp only [pStep, st2, aSig, List.map_cons, List.map_nil, plan, topIs, beq_self_eq_true, ↓reduceIte, mTag]
  rw [pMicros_append, pm_append]
  simp only [Option.bind_some, pm_append, aAfter, Option.map_some]
  refine congrArg some (Prod.ext (P2_congr ?_ ?_ ?_) rfl) <;>
    simp only [tagBytes, List.length_append, List.length_cons, List.length_nil, List.append_assoc] <;> omega

theorem tagsBody_cons (kv : Bytes × Bytes) (r : List (Bytes × Bytes)) : tagsBody (kv :: r) = tagBytes kv ++ tagsBody r := by
  simp [tagsBody]

theorem pr_tags (fill : UInt8) (aux : Bytes) (av : Bool) (ty : Nat) (A : Bytes) (lty : Nat) (k : Kind)
    (kvs : List (Bytes × Bytes)) : ∀ (osz lsz : Nat) (B : Bytes),
    pRun fill aux av (P2 ty osz A lty lsz B, st2 A .taglist none k) (kvs.map fun kv => Op.tag kv.1 kv.2) =
      some (P2 ty (osz + (tagsBody kvs).length) A lty (lsz + (tagsBody kvs).length) (B ++ tagsBody kvs),
            st2 A .taglist none k) := by
  induction kvs with
  | nil => intro osz lsz B; simp [pRun, tagsBody]
  | cons kv r ih =>
    intro osz lsz B
    simp only [List.map_cons, pRun, ps_tag, ih, tagsBody_cons]
    simp [List.append_assoc, Nat.add_assoc]

/-! ### node refs -/

def nrKind (lk : Kind) : Prop := lk = .wnl ∨ lk = .outer ∨ lk = .inner

theorem ps_nodeRef (fill : UInt8) (aux : Bytes) (av : Bool) (ty osz : Nat) (A : Bytes) (lty lsz : Nat) (B : Bytes) (lk k : Kind)
    (hlk : nrKind lk) (hal : (A.length + B.length) % 8 = 0) (n : Osmium.HostileLayout.NodeRefS) :
    pStep fill aux av (P2 ty osz A lty lsz B, st2 A lk none k) (.nodeRef n.ref n.x n.y) =
      some (P2 ty (osz + 16) A lty (lsz + 16) (B ++ nodeRefBytes n), st2 A lk none k) := by
  have hp : (P2 ty osz A lty lsz B).length % 8 = 0 := by rw [P2_len]; omega
  have htop : topIs [(8 + A.length, lk), (0, k)] (fun k => k == Kind.wnl || k == Kind.outer || k == Kind.inner) =
      some (8 + A.length, lk) := by
    rcases hlk with rfl | rfl | rfl <;> rfl
  simp only [pStep, st2, aSig, List.map_cons, List.map_nil, plan, htop, hp, ne_eq, not_true_eq_false, ↓reduceIte, mNodeRef]
  rw [pm_append]
  simp only [aAfter, Option.map_some]
  refine congrArg some (Prod.ext (P2_congr ?_ ?_ rfl) rfl) <;>
    simp [leBytesInt_len]

theorem nodesBody_cons (n : Osmium.HostileLayout.NodeRefS) (r : List Osmium.HostileLayout.NodeRefS) :
    nodesBody (n :: r) = nodeRefBytes n ++ nodesBody r := by simp [nodesBody]

theorem nodeRefBytes_len (n : Osmium.HostileLayout.NodeRefS) : (nodeRefBytes n).length = 16 := by
  simp [nodeRefBytes, leBytesInt_len]

theorem pr_nodes (fill : UInt8) (aux : Bytes) (av : Bool) (ty : Nat) (A : Bytes) (lty : Nat) (lk k : Kind) (hlk : nrKind lk)
    (ns : List Osmium.HostileLayout.NodeRefS) : ∀ (osz lsz : Nat) (B : Bytes), (A.length + B.length) % 8 = 0 →
    pRun fill aux av (P2 ty osz A lty lsz B, st2 A lk none k) (ns.map fun n => Op.nodeRef n.ref n.x n.y) =
      some (P2 ty (osz + (nodesBody ns).length) A lty (lsz + (nodesBody ns).length) (B ++ nodesBody ns),
            st2 A lk none k) := by
  induction ns with
  | nil => intro osz lsz B _; simp [pRun, nodesBody]
  | cons n r ih =>
    intro osz lsz B hal
    simp only [List.map_cons, pRun, ps_nodeRef fill aux av ty osz A lty lsz B lk k hlk hal n]
    rw [ih _ _ _ (by rw [List.length_append, nodeRefBytes_len]; omega)]
    refine congrArg some (Prod.ext (P2_congr ?_ ?_ ?_) rfl) <;>
      simp only [nodesBody_cons, List.length_append, nodeRefBytes_len, List.append_assoc] <;> omega

/-! ### relation members (without full member) -/

theorem padOf_padTo (n : Nat) : padOf n = padTo n := by rw [padOf_eq]; rfl

theorem padOf_add8 (a b : Nat) (h : a % 8 = 0) : padOf (a + b) = padOf b := by
  unfold padOf
  have : (a + b) % 8 = b % 8 := by omega
  rw [this]

theorem ps_member (fill : UInt8) (aux : Bytes) (av : Bool) (ty osz : Nat) (A : Bytes) (lty lsz : Nat) (B : Bytes) (k : Kind)
    (hal : (A.length + B.length) % 8 = 0) (hl8 : lsz % 8 = 0) (m : Osmium.HostileLayout.MemberS) :
    pStep fill aux av (P2 ty osz A lty lsz B, st2 A .rml none k) (.member m.ty m.ref m.role none) =
      some (P2 ty (osz + (memberBytes fill m).length) A lty (lsz + (memberBytes fill m).length) (B ++ memberBytes fill m),
            st2 A .rml none k) := by
  have hp : (P2 ty osz A lty lsz B).length % 8 = 0 := by rw [P2_len]; omega
  simp only [pStep, st2, aSig, List.map_cons, List.map_nil, plan, topIs, beq_self_eq_true, hp, ne_eq, not_true_eq_false,
    ↓reduceIte, mMember, Option.isSome_none, Bool.false_eq_true, List.append_nil]
  -- struct, role size through the pointer, role, padding
  have e1 : ∀ (ms : List Micro) (m1 m2 : Micro), (m1 :: m2 :: []) ++ ms = [m1] ++ ([m2] ++ ms) := by intros; rfl
  rw [List.append_assoc, e1, pMicros_append]
  rw [pm_struct fill ty osz A lty lsz B _ Kind.rml k none (by simp [leBytes_len, leBytesInt_len])]
  simp only [Option.bind_some]
  rw [pMicros_append]
  have hd14 : (leBytesInt m.ref 8 ++ leBytes m.ty 2 ++ leBytes 0 2 ++ leBytes 0 2).length = 14 := by
    simp [leBytes_len, leBytesInt_len]
  rw [hd14]
  have hS : B ++ (leBytesInt m.ref 8 ++ leBytes m.ty 2 ++ leBytes 0 2 ++ leBytes 0 2 ++ List.replicate (16 - 14) fill) =
      B ++ (leBytesInt m.ref 8 ++ leBytes m.ty 2 ++ leBytes 0 2 ++ leBytes 0 2 ++ List.replicate 2 fill) ++ [] := by simp
  rw [hS, pm_deref fill ty (osz + 16) A lty (lsz + 16) B _ [] Kind.rml k false 12 (m.role.length + 1) 2
    (by simp [leBytes_len, leBytesInt_len])]
  simp only [Option.bind_some, Bool.false_eq_true, ↓reduceIte, List.append_nil]
  rw [pMicros_append, pm_append]
  simp only [Option.bind_some, pm_padSelf, aAfter, Option.map_some]
  -- the struct after the write through the pointer
  have hw : writeAt (leBytesInt m.ref 8 ++ leBytes m.ty 2 ++ leBytes 0 2 ++ leBytes 0 2 ++ List.replicate 2 fill) 12
      (leBytes (m.role.length + 1) 2) =
      leBytesInt m.ref 8 ++ leBytes m.ty 2 ++ leBytes 0 2 ++ leBytes (m.role.length + 1) 2 ++ [fill, fill] := by
    have h12 : (leBytesInt m.ref 8 ++ leBytes m.ty 2 ++ leBytes 0 2).length = 12 := by simp [leBytes_len, leBytesInt_len]
    have := writeAt_append_right (leBytesInt m.ref 8 ++ leBytes m.ty 2 ++ leBytes 0 2) (leBytes (m.role.length + 1) 2)
      (leBytes 0 2 ++ List.replicate 2 fill) 0
    rw [h12] at this
    simp only [List.append_assoc] at this ⊢
    rw [this, writeAt_append_left _ _ _ 0 (by simp [leBytes_len]), writeAt_zero_prefix _ _ (by simp [leBytes_len])]
    simp [leBytes_len]
  rw [hw]
  have hpad : padOf (lsz + 16 + (m.role ++ [0]).length) = padTo (16 + m.role.length + 1) := by
    rw [← padOf_padTo, Nat.add_assoc, padOf_add8 _ _ hl8]
    simp [Nat.add_assoc]
  rw [hpad]
  refine congrArg some (Prod.ext (P2_congr ?_ ?_ ?_) rfl) <;>
    simp only [memberBytes, List.length_append, List.length_cons, List.length_nil, leBytes_len, leBytesInt_len,
      Osmium.HostileLayout.zeros, zeros, List.length_replicate, List.append_assoc] <;> omega

theorem padTo_mod (n : Nat) : (n + padTo n) % 8 = 0 := by unfold padTo padded; omega

theorem memberBytes_len (fill : UInt8) (m : Osmium.HostileLayout.MemberS) :
    (memberBytes fill m).length = 16 + m.role.length + 1 + padTo (16 + m.role.length + 1) := by
  simp only [memberBytes, List.length_append, List.length_cons, List.length_nil, leBytes_len, leBytesInt_len,
    Osmium.HostileLayout.zeros, List.length_replicate]

theorem memberBytes_mod (fill : UInt8) (m : Osmium.HostileLayout.MemberS) : (memberBytes fill m).length % 8 = 0 := by
  rw [memberBytes_len]; exact padTo_mod _

theorem membersBody_cons (fill : UInt8) (m : Osmium.HostileLayout.MemberS) (r : List Osmium.HostileLayout.MemberS) :
    membersBody fill (m :: r) = memberBytes fill m ++ membersBody fill r := by simp [membersBody]

theorem pr_members (fill : UInt8) (aux : Bytes) (av : Bool) (ty : Nat) (A : Bytes) (lty : Nat) (k : Kind)
    (ms : List Osmium.HostileLayout.MemberS) : ∀ (osz lsz : Nat) (B : Bytes), (A.length + B.length) % 8 = 0 → lsz % 8 = 0 →
    pRun fill aux av (P2 ty osz A lty lsz B, st2 A .rml none k) (ms.map fun m => Op.member m.ty m.ref m.role none) =
      some (P2 ty (osz + (membersBody fill ms).length) A lty (lsz + (membersBody fill ms).length) (B ++ membersBody fill ms),
            st2 A .rml none k) := by
  induction ms with
  | nil => intro osz lsz B _ _; simp [pRun, membersBody]
  | cons m r ih =>
    intro osz lsz B hal hl8
    have hm := memberBytes_mod fill m
    simp only [List.map_cons, pRun, ps_member fill aux av ty osz A lty lsz B k hal hl8 m]
    rw [ih _ _ _ (by rw [List.length_append]; omega) (by omega)]
    refine congrArg some (Prod.ext (P2_congr ?_ ?_ ?_) rfl) <;>
      simp only [membersBody_cons, List.length_append, List.append_assoc] <;> omega

/-! ### discussion comments -/

/-- what `add_comment` leaves: header with text_size 0, user name, no padding, offset kept -/
def commentOpen (fill : UInt8) (c : Osmium.HostileLayout.CommentS) : Bytes :=
  leBytes c.date 4 ++ leBytes c.uid 4 ++ leBytes 0 4 ++ leBytes (c.user.length + 1) 2 ++ [fill, fill] ++ (c.user ++ [0])

theorem ps_comment (fill : UInt8) (aux : Bytes) (av : Bool) (ty osz : Nat) (A : Bytes) (lty lsz : Nat) (B : Bytes) (k : Kind)
    (hal : (A.length + B.length) % 8 = 0) (c : Osmium.HostileLayout.CommentS) :
    pStep fill aux av (P2 ty osz A lty lsz B, st2 A .disc none k) (.comment c.date c.uid c.user) =
      some (P2 ty (osz + (commentOpen fill c).length) A lty (lsz + (commentOpen fill c).length) (B ++ commentOpen fill c),
            st2 A .disc (some (8 + A.length + (8 + B.length))) k) := by
  have hp : (P2 ty osz A lty lsz B).length % 8 = 0 := by rw [P2_len]; omega
  simp only [pStep, st2, aSig, List.map_cons, List.map_nil, plan, topIs, beq_self_eq_true, hp, ne_eq, not_true_eq_false,
    ↓reduceIte, mComment]
  have e1 : ∀ (ms : List Micro) (m1 m2 : Micro), (m1 :: m2 :: []) ++ ms = [m1] ++ ([m2] ++ ms) := by intros; rfl
  rw [e1, pMicros_append]
  rw [pm_struct fill ty osz A lty lsz B _ Kind.disc k none (by simp [leBytes_len])]
  simp only [Option.bind_some]
  rw [pMicros_append]
  have hd14 : (leBytes c.date 4 ++ leBytes c.uid 4 ++ leBytes 0 4 ++ leBytes 0 2).length = 14 := by simp [leBytes_len]
  rw [hd14]
  have hS : B ++ (leBytes c.date 4 ++ leBytes c.uid 4 ++ leBytes 0 4 ++ leBytes 0 2 ++ List.replicate (16 - 14) fill) =
      B ++ (leBytes c.date 4 ++ leBytes c.uid 4 ++ leBytes 0 4 ++ leBytes 0 2 ++ List.replicate 2 fill) ++ [] := by simp
  rw [hS, pm_deref fill ty (osz + 16) A lty (lsz + 16) B _ [] Kind.disc k true 12 (c.user.length + 1) 2
    (by simp [leBytes_len])]
  simp only [Option.bind_some, ↓reduceIte, List.append_nil]
  rw [pm_append]
  simp only [aAfter, Option.map_some]
  have hw : writeAt (leBytes c.date 4 ++ leBytes c.uid 4 ++ leBytes 0 4 ++ leBytes 0 2 ++ List.replicate 2 fill) 12
      (leBytes (c.user.length + 1) 2) =
      leBytes c.date 4 ++ leBytes c.uid 4 ++ leBytes 0 4 ++ leBytes (c.user.length + 1) 2 ++ [fill, fill] := by
    have h12 : (leBytes c.date 4 ++ leBytes c.uid 4 ++ leBytes 0 4).length = 12 := by simp [leBytes_len]
    have := writeAt_append_right (leBytes c.date 4 ++ leBytes c.uid 4 ++ leBytes 0 4) (leBytes (c.user.length + 1) 2)
      (leBytes 0 2 ++ List.replicate 2 fill) 0
    rw [h12] at this
    simp only [List.append_assoc] at this ⊢
    rw [this, writeAt_append_left _ _ _ 0 (by simp [leBytes_len]), writeAt_zero_prefix _ _ (by simp [leBytes_len])]
    simp [leBytes_len]
  rw [hw]
  refine congrArg some (Prod.ext (P2_congr ?_ ?_ ?_) rfl) <;>
    simp only [commentOpen, List.length_append, List.length_cons, List.length_nil, leBytes_len, List.append_assoc] <;> omega

/-- `add_text(comment, t)` on the pending comment (`add_comment_text`, or the destructor's repair with
    `t = []`): text size through the saved offset, text, NUL, padding -/
theorem pm_commentText (fill : UInt8) (ty osz : Nat) (A : Bytes) (lty lsz : Nat) (B : Bytes) (k : Kind)
    (hl8 : lsz % 8 = 0) (c : Osmium.HostileLayout.CommentS) (t : Bytes) :
    pMicros fill (P2 ty (osz + (commentOpen fill c).length) A lty (lsz + (commentOpen fill c).length) (B ++ commentOpen fill c),
        st2 A .disc (some (8 + A.length + (8 + B.length))) k) (mCommentText [8 + A.length, 0] t) =
      some (P2 ty (osz + (commentBytes fill { c with text := some t }).length) A lty
              (lsz + (commentBytes fill { c with text := some t }).length)
              (B ++ commentBytes fill { c with text := some t }),
            st2 A .disc none k) := by
  unfold mCommentText
  rw [List.append_assoc, pMicros_append]
  have hsplit : commentOpen fill c =
      (leBytes c.date 4 ++ leBytes c.uid 4 ++ leBytes 0 4 ++ leBytes (c.user.length + 1) 2 ++ [fill, fill]) ++ (c.user ++ [0]) := rfl
  have hB : B ++ commentOpen fill c =
      B ++ (leBytes c.date 4 ++ leBytes c.uid 4 ++ leBytes 0 4 ++ leBytes (c.user.length + 1) 2 ++ [fill, fill]) ++ (c.user ++ [0]) := by
    rw [hsplit]; simp [List.append_assoc]
  simp only [st2]
  rw [hB, pm_deref fill ty _ A lty _ B _ (c.user ++ [0]) Kind.disc k false 8 (t.length + 1) 4 (by simp [leBytes_len])]
  simp only [Option.bind_some, Bool.false_eq_true, ↓reduceIte]
  rw [pMicros_append, pm_append]
  simp only [Option.bind_some, pm_padSelf]
  have hw : writeAt (leBytes c.date 4 ++ leBytes c.uid 4 ++ leBytes 0 4 ++ leBytes (c.user.length + 1) 2 ++ [fill, fill]) 8
      (leBytes (t.length + 1) 4) =
      leBytes c.date 4 ++ leBytes c.uid 4 ++ leBytes (t.length + 1) 4 ++ leBytes (c.user.length + 1) 2 ++ [fill, fill] := by
    have h8 : (leBytes c.date 4 ++ leBytes c.uid 4).length = 8 := by simp [leBytes_len]
    have := writeAt_append_right (leBytes c.date 4 ++ leBytes c.uid 4) (leBytes (t.length + 1) 4)
      (leBytes 0 4 ++ leBytes (c.user.length + 1) 2 ++ [fill, fill]) 0
    rw [h8] at this
    simp only [List.append_assoc] at this ⊢
    rw [this, writeAt_append_left _ _ _ 0 (by simp [leBytes_len]), writeAt_zero_prefix _ _ (by simp [leBytes_len])]
    simp [leBytes_len]
  rw [hw]
  have hlen : (commentOpen fill c).length = 16 + (c.user.length + 1) := by
    simp only [commentOpen, List.length_append, List.length_cons, List.length_nil, leBytes_len]
  have hpad : padOf (lsz + (commentOpen fill c).length + (t ++ [0]).length) =
      padTo (16 + (c.user.length + 1) + (t.length + 1)) := by
    rw [← padOf_padTo, hlen, Nat.add_assoc, padOf_add8 _ _ hl8]
    simp [Nat.add_assoc]
  rw [hpad]
  refine congrArg some (Prod.ext (P2_congr ?_ ?_ ?_) rfl) <;>
    simp only [commentBytes, commentOpen, List.length_append, List.length_cons, List.length_nil, leBytes_len,
      Osmium.HostileLayout.zeros, zeros, List.length_replicate, List.append_assoc] <;> omega

theorem ps_commentText (fill : UInt8) (aux : Bytes) (av : Bool) (ty osz : Nat) (A : Bytes) (lty lsz : Nat) (B : Bytes) (k : Kind)
    (hl8 : lsz % 8 = 0) (c : Osmium.HostileLayout.CommentS) (t : Bytes) :
    pStep fill aux av (P2 ty (osz + (commentOpen fill c).length) A lty (lsz + (commentOpen fill c).length) (B ++ commentOpen fill c),
        st2 A .disc (some (8 + A.length + (8 + B.length))) k) (.commentText t) =
      some (P2 ty (osz + (commentBytes fill { c with text := some t }).length) A lty
              (lsz + (commentBytes fill { c with text := some t }).length)
              (B ++ commentBytes fill { c with text := some t }),
            st2 A .disc none k) := by
  have := pm_commentText fill ty osz A lty lsz B k hl8 c t
  simp only [st2] at this
  simp only [pStep, st2, aSig, List.map_cons, List.map_nil, plan, topIs, beq_self_eq_true, ↓reduceIte, this, aAfter,
    Option.map_some]

/-! ### destructor of the list builder -/

theorem pList_base_eq (fill : UInt8) (ms : List Micro) (hms : ∀ m ∈ ms, ∀ o, m ≠ .finish o) (x : PSt) :
    pList (pBase fill) x ms = pMicros fill x ms := by
  unfold pMicros
  induction ms generalizing x with
  | nil => rfl
  | cons m r ih =>
    have hm : pBase fill x m = pMicro fill x m := by
      cases m with
      | finish o => exact absurd rfl (hms _ List.mem_cons_self o)
      | alloc n sv g => rfl
      | upd g => rfl
      | deref kp g => rfl
    simp only [pList, hm]
    cases pMicro fill x m with
    | none => rfl
    | some x' => exact ih (fun m hm => hms m (List.mem_cons_of_mem _ hm)) x'

theorem mCommentText_no_finish (o1 o2 : Nat) (t : Bytes) : ∀ m ∈ mCommentText [o1, o2] t, ∀ o, m ≠ .finish o := by
  intro m hm o
  simp only [mCommentText, mAppend, mPadding, List.cons_append, List.nil_append, List.mem_cons, List.not_mem_nil, or_false] at hm
  rcases hm with rfl | rfl | rfl <;> simp

theorem ps_close_list (fill : UInt8) (aux : Bytes) (av : Bool) (ty osz : Nat) (A : Bytes) (lty lsz : Nat) (B : Bytes) (lk k : Kind)
    (hlk : lk.isObj = false) :
    pStep fill aux av (P2 ty osz A lty lsz B, st2 A lk none k) .close =
      some (P1 ty (osz + padOf lsz) (A ++ (itemHeader lsz lty ++ B ++ zeros (padOf lsz))), [(0, k, none)]) := by
  simp only [pStep, st2, aSig, List.map_cons, List.map_nil, plan, mDtor, hlk, Bool.false_eq_true, ↓reduceIte]
  by_cases hd : lk = .disc
  · subst hd
    simp only [↓reduceIte, List.cons_append, List.nil_append]
    have : pMicros fill (P2 ty osz A lty lsz B, [(8 + A.length, Kind.disc, none), (0, k, none)])
        (Micro.finish [8 + A.length, 0] :: mPadding [8 + A.length, 0] false) =
        pMicros fill (P2 ty osz A lty lsz B, [(8 + A.length, Kind.disc, none), (0, k, none)]) (mPadding [8 + A.length, 0] false) := by
      simp only [pMicros, pList, pMicro, aPending, Bool.false_eq_true, ↓reduceIte]
    rw [this, pm_padClose]
    simp [aAfter]
  · simp only [hd, ↓reduceIte, List.nil_append, pm_padClose]
    simp [aAfter]

theorem ps_close_disc_pending (fill : UInt8) (aux : Bytes) (av : Bool) (ty osz : Nat) (A : Bytes) (lty lsz : Nat) (B : Bytes) (k : Kind)
    (hl8 : lsz % 8 = 0) (c : Osmium.HostileLayout.CommentS) :
    pStep fill aux av (P2 ty (osz + (commentOpen fill c).length) A lty (lsz + (commentOpen fill c).length) (B ++ commentOpen fill c),
        st2 A .disc (some (8 + A.length + (8 + B.length))) k) .close =
      some (P1 ty (osz + (commentBytes fill { c with text := some [] }).length +
                  padOf (lsz + (commentBytes fill { c with text := some [] }).length))
              (A ++ (itemHeader (lsz + (commentBytes fill { c with text := some [] }).length) lty ++
                (B ++ commentBytes fill { c with text := some [] }) ++
                zeros (padOf (lsz + (commentBytes fill { c with text := some [] }).length)))),
            [(0, k, none)]) := by
  have hct := pm_commentText fill ty osz A lty lsz B k hl8 c []
  simp only [st2] at hct
  simp only [pStep, st2, aSig, List.map_cons, List.map_nil, plan, mDtor, Kind.isObj, Bool.false_eq_true, ↓reduceIte,
    List.cons_append, List.nil_append]
  have hfin : pMicro fill (P2 ty (osz + (commentOpen fill c).length) A lty (lsz + (commentOpen fill c).length) (B ++ commentOpen fill c),
        [(8 + A.length, Kind.disc, some (8 + A.length + (8 + B.length))), (0, k, none)]) (Micro.finish [8 + A.length, 0]) =
      some (P2 ty (osz + (commentBytes fill { c with text := some [] }).length) A lty
              (lsz + (commentBytes fill { c with text := some [] }).length)
              (B ++ commentBytes fill { c with text := some [] }),
            [(8 + A.length, Kind.disc, none), (0, k, none)]) := by
    simp only [pMicro, aPending, ↓reduceIte]
    rw [pList_base_eq fill _ (mCommentText_no_finish _ _ _), hct]
  have hcons : ∀ (x : PSt) (m : Micro) (ms : List Micro), pMicros fill x (m :: ms) =
      (pMicro fill x m).bind fun x' => pMicros fill x' ms := by
    intro x m ms; simp only [pMicros, pList]; cases pMicro fill x m <;> rfl
  rw [hcons, hfin]
  simp only [Option.bind_some, pm_padClose]
  simp [aAfter]

end Osmium.Buf
