/-
Queue-of-futures order (C05), part A2 (queue machine only): everything enqueued or in flight was
passed to push(); single producer: handed out ++ queued ++ in flight = the push() calls in order.
-/
import Osmium.Lemmas.PipelineQ

namespace Osmium.Pipeline.Order

open Osmium.Mon Osmium.Pipeline

variable {α : Type} [DecidableEq α]

section queue
variable {β : Type} [DecidableEq β]

/-- everything enqueued or in flight was passed to push() -/
theorem q_mem_called (qc : QueueSM.Cfg) : ∀ s, (QueueSM.machine β qc).Reachable s →
    (∀ x ∈ s.pushed, x ∈ s.called) ∧ (∀ t, ∀ x ∈ QueueSM.inflight s t, x ∈ s.called) := by
  apply Machine.invariant
  · simp [QueueSM.machine, QueueSM.init, QueueSM.inflight, QueueSM.carry]
  · intro s e s' _ ih hst
    obtain ⟨ih1, ih2⟩ := ih
    qsm_cases e with hst tid t <;> refine ⟨?_, fun u => ?_⟩ <;>
      simp only [QueueSM.inflight, setPc_apply, QueueSM.take_pc, QueueSM.take_called, QueueSM.take_pushed] <;>
      (try (have ih2t := ih2 t)) <;> (try (have ih2u := ih2 u)) <;>
      simp only [QueueSM.inflight] at * <;>
      (try (by_cases hut : u = t)) <;> (try subst hut) <;> simp_all [QueueSM.carry] <;> grind

theorem q_items_called (qc : QueueSM.Cfg) (s : QueueSM.State β) (h : (QueueSM.machine β qc).Reachable s) :
    ∀ x ∈ s.items, x ∈ s.called := by
  intro x hx
  refine (q_mem_called qc s h).1 x ?_
  rw [QueueSM.inv_cons qc s h]; exact List.mem_append_right _ hx

theorem q_popped_called (qc : QueueSM.Cfg) (s : QueueSM.State β) (h : (QueueSM.machine β qc).Reachable s) :
    ∀ p ∈ s.popped, p.2 ∈ s.called := by
  intro p hp
  refine (q_mem_called qc s h).1 p.2 ?_
  rw [QueueSM.inv_cons qc s h]
  exact List.mem_append_left _ ((QueueSM.inv_popped_sublist qc s h).subset (List.mem_map.mpr ⟨p, hp, rfl⟩))

/-- single producer `p`, queue in use: handed out, then queued, then in flight = the push() calls in order -/
theorem q_prefix (qc : QueueSM.Cfg) (s : QueueSM.State β) (h : (QueueSM.machine β qc).Reachable s)
    (hu : s.inUse = true) (p : Tid) (hp : ∀ x ∈ s.called, x.1 = p) :
    s.popped.map (fun x => x.2) ++ s.items ++ QueueSM.inflight s p = s.called := by
  have h1 := (QueueSM.inv_called qc s h hu).2 p
  have h2 : QueueSM.byProd p s.called = s.called := by
    unfold QueueSM.byProd; rw [List.filter_eq_self]; intro x hx; simp [hp x hx]
  have h3 : QueueSM.byProd p s.pushed = s.pushed := by
    unfold QueueSM.byProd; rw [List.filter_eq_self]; intro x hx
    simp [hp x ((q_mem_called qc s h).1 x hx)]
  rw [← h2, h1, h3, QueueSM.inv_cons qc s h, QueueSM.inv_popped qc s h hu]

end queue

end Osmium.Pipeline.Order
