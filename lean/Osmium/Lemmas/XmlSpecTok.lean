/-
Lexical half of `xml_decode_spec` (C02), part 1: the tokenizer on the building blocks of a document
of the specification renderer `XmlSpec.render` — names, attribute lists in any order / quoting /
escape mode, start / empty-element / end tags, indentation, character data.

The main loop is described by `Steps inp rest evs`: started on `inp` with enough fuel (one unit per
remaining byte and one spare), `tokLoop` arrives at `rest`, again with enough fuel, having pushed
exactly `evs`.  (`tokenize` starts with `doc.length + 1`; every iteration eats at least one byte.)
-/
import Osmium.Lemmas.XmlSpecTokStr
import Osmium.Lemmas.XmlFmtCsDefs

namespace Osmium.XmlFmt.XmlSpec
open Osmium.Osm Osmium.TextFmt Osmium.Conv Osmium.Utf8 Osmium.XmlFmt
open Osmium.OplFmt.OplSpec (pick pickGo)

/-! ### names -/

theorem nameByte_table : ∀ n : Fin 256, isNameByte (UInt8.ofNat n.val) = true →
    isWs (UInt8.ofNat n.val) = false ∧ UInt8.ofNat n.val ≠ 0x3e ∧ UInt8.ofNat n.val ≠ 0x2f ∧ UInt8.ofNat n.val ≠ 0x3d ∧
    UInt8.ofNat n.val ≠ 0x3c ∧ UInt8.ofNat n.val ≠ 0x3f := by
  decide +kernel

theorem nameByte_facts (c : UInt8) (h : isNameByte c = true) :
    isWs c = false ∧ c ≠ 0x3e ∧ c ≠ 0x2f ∧ c ≠ 0x3d ∧ c ≠ 0x3c ∧ c ≠ 0x3f := by
  have := nameByte_table ⟨c.toNat, c.toNat_lt⟩
  simpa [h] using this

/-- a name the tokenizer reads back: non-empty, name bytes only, `nameOf` undoes `str` -/
def GoodName (n : String) : Prop := str n ≠ [] ∧ (str n).all isNameByte = true ∧ nameOf (str n) = n

theorem takeWhile_name (nm : Bytes) (hall : nm.all isNameByte = true) (c : UInt8) (r : Bytes) (hc : isNameByte c = false) :
    (nm ++ c :: r).takeWhile isNameByte = nm ∧ (nm ++ c :: r).dropWhile isNameByte = c :: r := by
  have h : ∀ a ∈ nm, isNameByte a = true := by simpa using hall
  constructor
  · rw [List.takeWhile_append_of_pos h]; simp [List.takeWhile, hc]
  · rw [List.dropWhile_append_of_pos h]; simp [List.dropWhile, hc]

theorem dropWhile_ws_stop (c : UInt8) (r : Bytes) (hc : isWs c = false) : (c :: r).dropWhile isWs = c :: r := by
  simp [List.dropWhile, hc]

/-! ### the attribute order is a selection -/

theorem mem_pickGo {α : Type} : ∀ (f : Nat) (ks : List Nat) (xs : List α) (a : α), a ∈ pickGo f ks xs → a ∈ xs := by
  intro f
  induction f with
  | zero => intro ks xs a h; simpa [pickGo] using h
  | succ f ih =>
    intro ks xs a h
    cases xs with
    | nil => simp [pickGo] at h
    | cons x xs =>
      cases ks with
      | nil => simpa [pickGo] using h
      | cons k ks =>
        simp only [pickGo] at h
        split at h
        · rename_i b hb
          rcases List.mem_cons.1 h with rfl | h'
          · exact List.mem_of_getElem? hb
          · exact List.mem_of_mem_eraseIdx (ih ks _ a h')
        · exact h

theorem mem_pick {α : Type} (ks : List Nat) (xs : List α) (a : α) (h : a ∈ pick ks xs) : a ∈ xs :=
  mem_pickGo _ ks xs a h

/-! ### one iteration of the main loop / the attribute loop -/

def openBody (f : Nat) (s : Bytes) (acc : List Ev) : Option (List Ev) :=
  if (s.takeWhile isNameByte).isEmpty then none
  else
    match tokAttrs ((s.dropWhile isNameByte).length + 1) (s.dropWhile isNameByte) with
    | some (as, sc, rest) =>
      tokLoop f rest (if sc then .stop (nameOf (s.takeWhile isNameByte)) :: .start (nameOf (s.takeWhile isNameByte)) as :: acc
          else .start (nameOf (s.takeWhile isNameByte)) as :: acc)
    | none => none

theorem tokLoop_open (f : Nat) (c : UInt8) (s : Bytes) (acc : List Ev) (h1 : c ≠ 0x3f) (h2 : c ≠ 0x2f) :
    tokLoop (f+1) (0x3c :: c :: s) acc = openBody f (c :: s) acc := by
  rw [tokLoop]
  · simp only [beq_self_eq_true, if_true]; rfl
  · intro tail h; cases h; exact h1 rfl
  · intro r h; cases h; exact h2 rfl

theorem tokLoop_close (f : Nat) (r : Bytes) (acc : List Ev) :
    tokLoop (f+1) (0x3c :: 0x2f :: r) acc =
      match (r.dropWhile isNameByte).dropWhile isWs with
      | 0x3e :: rest => tokLoop f rest (.stop (nameOf (r.takeWhile isNameByte)) :: acc)
      | _ => none := by
  rw [tokLoop]
  rfl

theorem tokLoop_pi (f : Nat) (s : Bytes) (acc : List Ev) :
    tokLoop (f+1) (0x3c :: 0x3f :: s) acc = tokLoop f (((0x3f :: s).dropWhile (· != 0x3e)).tail) acc := by
  rw [tokLoop]
  rfl

def textBody (f : Nat) (s : Bytes) (acc : List Ev) : Option (List Ev) :=
  match tokText (s.length + 1) s with
  | some (t, rest) => tokLoop f rest (if t.isEmpty then acc else .chars t :: acc)
  | none => none

theorem tokLoop_text (f : Nat) (c : UInt8) (s : Bytes) (acc : List Ev) (h : c ≠ 0x3c) :
    tokLoop (f+1) (c :: s) acc = textBody f (c :: s) acc := by
  rw [tokLoop.eq_def]
  have : (c == 0x3c) = false := by simpa using h
  simp only [this]
  rfl

theorem tokLoop_nil (f : Nat) (acc : List Ev) : tokLoop (f+1) [] acc = some acc.reverse := by
  rw [tokLoop]

theorem tokAttrs_gt (f : Nat) (rest : Bytes) : tokAttrs (f+1) (0x3e :: rest) = some ([], false, rest) := by
  rw [tokAttrs]; rfl

theorem tokAttrs_slash_gt (f : Nat) (rest : Bytes) : tokAttrs (f+1) (0x2f :: 0x3e :: rest) = some ([], true, rest) := by
  rw [tokAttrs]; rfl

def attrBody (f : Nat) (s : Bytes) : Option (List (String × Bytes) × Bool × Bytes) :=
  if (s.takeWhile isNameByte).isEmpty then none
  else
    match (s.dropWhile isNameByte).dropWhile isWs with
    | 0x3d :: r1 =>
      match r1.dropWhile isWs with
      | q :: r2 =>
        if q == 0x22 || q == 0x27 then
          match tokAttrValue q (r2.length + 1) r2 with
          | some (v, r3) => (tokAttrs f r3).map fun (as, sc, rest) => ((nameOf (s.takeWhile isNameByte), v) :: as, sc, rest)
          | none => none
        else none
      | [] => none
    | _ => none

theorem tokAttrs_name (f : Nat) (c : UInt8) (s : Bytes) (h2 : c ≠ 0x3e) (h3 : c ≠ 0x2f) (h1 : isWs c = false) :
    tokAttrs (f+1) (0x20 :: c :: s) = attrBody f (c :: s) := by
  rw [tokAttrs]
  have : List.dropWhile isWs (0x20 :: c :: s) = c :: s := by
    have : isWs 0x20 = true := by decide
    simp [List.dropWhile, h1, this]
  simp only [this]
  split
  · rename_i h; cases h; exact absurd rfl h2
  · rename_i h; cases h; exact absurd rfl h3
  · rfl

/-! ### attribute lists -/

def quoteOf (ch : Choices) (i : Nat) : UInt8 := if ch.quotes.getD i 0 % 2 = 0 then 0x22 else 0x27

theorem quoteOf_cases (ch : Choices) (i : Nat) : quoteOf ch i = 0x22 ∨ quoteOf ch i = 0x27 := by
  unfold quoteOf; split <;> simp

def eqBytes (ch : Choices) : Bytes := if ch.eqSpaces then [0x20, 0x3d, 0x20] else [0x3d]

/-- the `i`-th attribute of an element as `attrsBytes` writes it -/
def attrBytes (ch : Choices) (a : String × Bytes) (i : Nat) : Bytes :=
  0x20 :: (str a.1 ++ eqBytes ch ++ quoteOf ch i :: (esc ch (quoteOf ch i) a.2 ++ [quoteOf ch i]))

def attrsFrom (ch : Choices) (l : List (String × Bytes)) (k : Nat) : Bytes :=
  ((l.zipIdx k).map fun (a, i) => attrBytes ch a i).flatten

theorem attrsBytes_eq (ch : Choices) (as : List (String × Bytes)) :
    attrsBytes ch as = attrsFrom ch (pick ch.attrOrder as) 0 := rfl

theorem attrsFrom_nil (ch : Choices) (k : Nat) : attrsFrom ch [] k = [] := rfl

theorem attrsFrom_cons (ch : Choices) (a : String × Bytes) (l : List (String × Bytes)) (k : Nat) :
    attrsFrom ch (a :: l) k = attrBytes ch a k ++ attrsFrom ch l (k + 1) := by
  simp [attrsFrom, List.zipIdx_cons]

theorem attrsFrom_length (ch : Choices) : ∀ (l : List (String × Bytes)) (k : Nat), l.length ≤ (attrsFrom ch l k).length := by
  intro l
  induction l with
  | nil => intro k; simp
  | cons a l ih =>
    intro k
    have := ih (k + 1)
    rw [attrsFrom_cons, List.length_append, attrBytes, List.length_cons, List.length_cons]
    omega

/-- names and values the tokenizer reads back -/
def GoodAttrs (as : List (String × Bytes)) : Prop := ∀ a ∈ as, GoodName a.1 ∧ XChars a.2

theorem GoodAttrs.pick {as : List (String × Bytes)} (h : GoodAttrs as) (ks : List Nat) : GoodAttrs (pick ks as) :=
  fun a ha => h a (mem_pick ks as a ha)

theorem GoodAttrs.append {a b : List (String × Bytes)} (ha : GoodAttrs a) (hb : GoodAttrs b) : GoodAttrs (a ++ b) := by
  intro x hx; rcases List.mem_append.1 hx with h | h; exact ha x h; exact hb x h

theorem GoodAttrs.nil : GoodAttrs [] := by intro x hx; cases hx

theorem GoodAttrs.cons {a : String × Bytes} {l : List (String × Bytes)} (h1 : GoodName a.1) (h2 : XChars a.2)
    (hl : GoodAttrs l) : GoodAttrs (a :: l) := by
  intro x hx; rcases List.mem_cons.1 hx with rfl | h; exact ⟨h1, h2⟩; exact hl x h

/-- one attribute: leading space, name, `=` with or without spaces, either quote, escaped value -/
theorem tokAttrs_one (ch : Choices) (a : String × Bytes) (hn : GoodName a.1) (hv : XChars a.2) (i : Nat) (r : Bytes) (f : Nat) :
    tokAttrs (f + 1) (attrBytes ch a i ++ r) =
      (tokAttrs f r).map fun (as, sc, rest) => (a :: as, sc, rest) := by
  obtain ⟨hne, hall, hnm⟩ := hn
  obtain ⟨c, t, hct⟩ := List.exists_cons_of_ne_nil hne
  have hc : isNameByte c = true := by
    have := hall; rw [hct] at this; simp only [List.all_cons, Bool.and_eq_true] at this; exact this.1
  obtain ⟨f1, f2, f3, -, -, -⟩ := nameByte_facts c hc
  have hq := quoteOf_cases ch i
  have hval := tokAttrValue_esc ch (quoteOf ch i) hq a.2 hv r
    ((esc ch (quoteOf ch i) a.2 ++ quoteOf ch i :: r).length + 1) (by rw [List.length_append]; omega)
  have hqb : (quoteOf ch i == 0x22 || quoteOf ch i == 0x27) = true := by
    rcases hq with h | h <;> rw [h] <;> decide
  have e0 : attrBytes ch a i ++ r =
      0x20 :: (str a.1 ++ (eqBytes ch ++ quoteOf ch i :: (esc ch (quoteOf ch i) a.2 ++ quoteOf ch i :: r))) := by
    simp [attrBytes, List.append_assoc]
  rw [e0]
  have e1 : str a.1 ++ (eqBytes ch ++ quoteOf ch i :: (esc ch (quoteOf ch i) a.2 ++ quoteOf ch i :: r)) =
      c :: (t ++ (eqBytes ch ++ quoteOf ch i :: (esc ch (quoteOf ch i) a.2 ++ quoteOf ch i :: r))) := by
    rw [hct]; rfl
  rw [e1, tokAttrs_name f c _ f2 f3 f1, ← e1]
  -- the byte after the name
  cases he : ch.eqSpaces
  · have e2 : eqBytes ch = [0x3d] := by simp [eqBytes, he]
    rw [e2]
    have htd := takeWhile_name (str a.1) hall 0x3d (quoteOf ch i :: (esc ch (quoteOf ch i) a.2 ++ quoteOf ch i :: r)) (by decide)
    simp only [List.cons_append, List.nil_append] at htd ⊢
    unfold attrBody
    rw [htd.1, htd.2]
    have hne' : (str a.1).isEmpty = false := by rw [hct]; rfl
    have d1 : List.dropWhile isWs (0x3d :: quoteOf ch i :: (esc ch (quoteOf ch i) a.2 ++ quoteOf ch i :: r)) =
        0x3d :: quoteOf ch i :: (esc ch (quoteOf ch i) a.2 ++ quoteOf ch i :: r) := dropWhile_ws_stop _ _ (by decide)
    have d2 : List.dropWhile isWs (quoteOf ch i :: (esc ch (quoteOf ch i) a.2 ++ quoteOf ch i :: r)) =
        quoteOf ch i :: (esc ch (quoteOf ch i) a.2 ++ quoteOf ch i :: r) :=
      dropWhile_ws_stop _ _ (by rcases hq with h | h <;> rw [h] <;> decide)
    simp only [hne', d1, d2, hqb, hval, hnm, if_true, Bool.false_eq_true, if_false]
  · have e2 : eqBytes ch = [0x20, 0x3d, 0x20] := by simp [eqBytes, he]
    rw [e2]
    have htd := takeWhile_name (str a.1) hall 0x20 (0x3d :: 0x20 :: quoteOf ch i :: (esc ch (quoteOf ch i) a.2 ++ quoteOf ch i :: r)) (by decide)
    simp only [List.cons_append, List.nil_append] at htd ⊢
    unfold attrBody
    rw [htd.1, htd.2]
    have hne' : (str a.1).isEmpty = false := by rw [hct]; rfl
    have hws : isWs 0x20 = true := by decide
    have d1 : List.dropWhile isWs (0x20 :: 0x3d :: 0x20 :: quoteOf ch i :: (esc ch (quoteOf ch i) a.2 ++ quoteOf ch i :: r)) =
        0x3d :: 0x20 :: quoteOf ch i :: (esc ch (quoteOf ch i) a.2 ++ quoteOf ch i :: r) := by
      rw [List.dropWhile_cons_of_pos hws]; exact dropWhile_ws_stop _ _ (by decide)
    have d2 : List.dropWhile isWs (0x20 :: quoteOf ch i :: (esc ch (quoteOf ch i) a.2 ++ quoteOf ch i :: r)) =
        quoteOf ch i :: (esc ch (quoteOf ch i) a.2 ++ quoteOf ch i :: r) := by
      rw [List.dropWhile_cons_of_pos hws]
      exact dropWhile_ws_stop _ _ (by rcases hq with h | h <;> rw [h] <;> decide)
    simp only [hne', d1, d2, hqb, hval, hnm, if_true, Bool.false_eq_true, if_false]

/-- the whole attribute list up to `>` -/
theorem tokAttrs_list_gt (ch : Choices) : ∀ (l : List (String × Bytes)) (_ : GoodAttrs l) (k : Nat) (rest : Bytes) (f : Nat)
    (_ : l.length + 1 ≤ f), tokAttrs f (attrsFrom ch l k ++ 0x3e :: rest) = some (l, false, rest) := by
  intro l
  induction l with
  | nil =>
    intro _ k rest f hf
    obtain ⟨f, rfl⟩ : ∃ g, f = g + 1 := ⟨f - 1, by simp at hf; omega⟩
    exact tokAttrs_gt f rest
  | cons a l ih =>
    intro hl k rest f hf
    obtain ⟨f, rfl⟩ : ∃ g, f = g + 1 := ⟨f - 1, by omega⟩
    have ha := hl a (by simp)
    rw [attrsFrom_cons, List.append_assoc, tokAttrs_one ch a ha.1 ha.2,
      ih (fun x hx => hl x (by simp [hx])) (k + 1) rest f (by simp only [List.length_cons] at hf; omega)]
    rfl

/-- the whole attribute list up to `/>` -/
theorem tokAttrs_list_slash (ch : Choices) : ∀ (l : List (String × Bytes)) (_ : GoodAttrs l) (k : Nat) (rest : Bytes) (f : Nat)
    (_ : l.length + 1 ≤ f), tokAttrs f (attrsFrom ch l k ++ 0x2f :: 0x3e :: rest) = some (l, true, rest) := by
  intro l
  induction l with
  | nil =>
    intro _ k rest f hf
    obtain ⟨f, rfl⟩ : ∃ g, f = g + 1 := ⟨f - 1, by simp at hf; omega⟩
    exact tokAttrs_slash_gt f rest
  | cons a l ih =>
    intro hl k rest f hf
    obtain ⟨f, rfl⟩ : ∃ g, f = g + 1 := ⟨f - 1, by omega⟩
    have ha := hl a (by simp)
    rw [attrsFrom_cons, List.append_assoc, tokAttrs_one ch a ha.1 ha.2,
      ih (fun x hx => hl x (by simp [hx])) (k + 1) rest f (by simp only [List.length_cons] at hf; omega)]
    rfl

/-- what follows an element name is not a name byte -/
theorem attrsFrom_head (ch : Choices) (l : List (String × Bytes)) (k : Nat) (c : UInt8) (r : Bytes) (hc : isNameByte c = false) :
    ∃ c' r', attrsFrom ch l k ++ c :: r = c' :: r' ∧ isNameByte c' = false := by
  cases l with
  | nil => exact ⟨c, r, rfl, hc⟩
  | cons a l => exact ⟨0x20, _, by rw [attrsFrom_cons, attrBytes]; rfl, by decide⟩

end Osmium.XmlFmt.XmlSpec
