/-
PoolSM2Fair — which pool steps count for progress (C19).
-/
import Osmium.Model.PoolSM

namespace Osmium.PoolSM

/-- steps that count for progress: not a time-out of push()'s timed wait (the wait ended
    because there is space), not a spurious wake-up of a consumer (it was notified), and not a
    client reading a future (no step of the pool) -/
def Fair (c : Cfg) (s : State) : Ev → Prop
  | .q (.pushFullWaited _ n) => n < c.qc.max
  | .q (.popRewait t) => s.q.waiters.notified t = true
  | .futureGet _ _ _ => False
  | _ => True

end Osmium.PoolSM
