/-
C03 — the XML reader keeps the ChangesetDiscussionBuilder protocol: `HostileXml.monitor` never
reports a misuse, for every event sequence and every entity filter.

Invariant carried along the reader's loop (`Inv`):
  * the builder's pending flag equals the reader's `m_comment_pending`,
  * the context stack has the shape the `switch` of start_element enforces (`shape`): `text` sits
    in `comment`, `comment` in `discussion`, `discussion` in `changeset`, nothing else sits in them,
  * inside `discussion` / `comment` / `text` the discussion builder exists,
  * a comment is pending only inside `comment` / `text`, and always inside `text`.
Core-only.
-/
import Osmium.Model.HostileXml

namespace Osmium.HostileXml

open Osmium.XmlFmt Osmium.Osm Osmium.TextFmt

def inDisc (c : Option Ctx) : Bool := c == some .discussion || c == some .comment || c == some .text

/-- may context `c` sit directly inside `p`? -/
def okBelow : Ctx → Option Ctx → Bool
  | .text, p => p == some .comment
  | .comment, p => p == some .discussion
  | .discussion, p => p == some .changeset
  | _, p => !inDisc p

def shape : List Ctx → Bool
  | [] => true
  | c :: r => okBelow c r.head? && shape r

structure Inv (types : Osmium.OplFmt.Types) (st : RSt) (p : Proto) : Prop where
  pend : p.pending = st.commentPending
  shp : shape st.stack = true
  pres : types.changeset = true → inDisc st.stack.head? = true → p.present = true
  pendTop : st.commentPending = true → (st.stack.head? = some .comment ∨ st.stack.head? = some .text)
  textPend : types.changeset = true → st.stack.head? = some .text → st.commentPending = true
  noCs : types.changeset = false → st.commentPending = false

theorem inv_init (types : Osmium.OplFmt.Types) : Inv types {} {} :=
  ⟨rfl, rfl, fun _ h => by simp [inDisc] at h, fun h => by simp at h, fun _ h => by simp at h, fun _ => rfl⟩

/-! ### what one reader step does to the stack and to `m_comment_pending` -/

theorem bindE_ok_iff {ε α β : Type} (x : Except ε α) (f : α → Except ε β) (b : β) :
    bindE x f = .ok b ↔ ∃ a, x = .ok a ∧ f a = .ok b := by
  cases x with
  | ok a => simp [bindE]
  | error e => simp [bindE]

theorem markDone_stack (st : RSt) : (markDone st).stack = st.stack ∧ (markDone st).commentPending = st.commentPending := by
  unfold markDone; split <;> simp

theorem withCur_fields (st : RSt) (f : Cur → Except XErr Cur) (st' : RSt) (h : withCur st f = .ok st') :
    st'.stack = st.stack ∧ st'.commentPending = st.commentPending := by
  unfold withCur at h
  split at h
  · rw [bindE_ok_iff] at h
    obtain ⟨c', _, h⟩ := h
    injection h with h; subst h; simp
  · injection h with h; subst h; simp

theorem topAttrs_fields : ∀ (as : List (String × Bytes)) (st st' : RSt), topAttrs as st = .ok st' →
    st'.stack = st.stack ∧ st'.commentPending = st.commentPending
  | [], st, st', h => by simp [topAttrs] at h; subst h; simp
  | (n, v) :: as, st, st', h => by
    unfold topAttrs at h
    split at h
    · split at h
      · have := topAttrs_fields as _ _ h; simpa using this
      · cases h
    · split at h
      · have := topAttrs_fields as _ _ h; simpa using this
      · exact topAttrs_fields as _ _ h

/-- a start event pushes exactly one context `c` that may sit in the old top -/
def Pushed (types : Osmium.OplFmt.Types) (st : RSt) (name : String) (st' : RSt) : Prop :=
  ∃ c : Ctx, st'.stack = c :: st.stack ∧ okBelow c st.stack.head? = true ∧
    -- inside <changeset>: <discussion> or <tag>
    (st.stack.head? = some .changeset → (name = "discussion" ∧ c = .discussion) ∨ (name = "tag" ∧ c = .tag)) ∧
    (st.stack.head? = some .discussion → name = "comment" ∧ c = .comment) ∧
    (st.stack.head? = some .comment → name = "text" ∧ c = .text ∧ (types.changeset = true → st.commentPending = true)) ∧
    st.stack.head? ≠ some .text ∧
    -- outside the discussion contexts nothing of them is pushed
    (inDisc st.stack.head? = false → st.stack.head? ≠ some .changeset → c ≠ .text ∧ c ≠ .comment ∧ c ≠ .discussion) ∧
    st'.commentPending =
      (if types.changeset && st.stack.head? == some .discussion then true else st.commentPending)

theorem dataLevel_pushed (types : Osmium.OplFmt.Types) (st : RSt) (parent : Ctx) (name : String)
    (attrs : List (String × Bytes)) (inChange : Bool) (st' : RSt) (rest : List Ctx)
    (hs : st.stack = parent :: rest) (hp : inDisc (some parent) = false) (hpc : parent ≠ .changeset)
    (h : dataLevel types st parent name attrs inChange = .ok st') :
    ∃ c, st'.stack = c :: st.stack ∧ okBelow c (some parent) = true ∧ st'.commentPending = st.commentPending ∧
      c ≠ .text ∧ c ≠ .comment ∧ c ≠ .discussion := by
  have hok : ∀ c : Ctx, c ≠ .text → c ≠ .comment → c ≠ .discussion → okBelow c (some parent) = true := by
    intro c h1 h2 h3
    cases c <;> simp_all [okBelow]
  have key : ∀ (c : Ctx) (s : RSt), c ≠ .text → c ≠ .comment → c ≠ .discussion →
      s.stack = c :: st.stack → s.commentPending = st.commentPending →
      ∃ c, s.stack = c :: st.stack ∧ okBelow c (some parent) = true ∧ s.commentPending = st.commentPending ∧
        c ≠ .text ∧ c ≠ .comment ∧ c ≠ .discussion :=
    fun c s h1 h2 h3 h4 h5 => ⟨c, h4, hok c h1 h2 h3, h5, h1, h2, h3⟩
  have hmd : ∀ c : Ctx, (markDone (push st c)).stack = c :: st.stack ∧
      (markDone (push st c)).commentPending = st.commentPending := by
    intro c
    have := markDone_stack (push st c)
    simpa [push] using this
  unfold dataLevel at h
  split at h
  · -- node
    split at h
    · rw [bindE_ok_iff] at h
      obtain ⟨o, _, h⟩ := h
      injection h with h; subst h
      exact key .node _ (by decide) (by decide) (by decide) (hmd .node).1 (hmd .node).2
    · injection h with h; subst h
      exact key .node _ (by decide) (by decide) (by decide) (hmd .node).1 (hmd .node).2
  · split at h
    · split at h
      · rw [bindE_ok_iff] at h
        obtain ⟨o, _, h⟩ := h
        injection h with h; subst h
        exact key .way _ (by decide) (by decide) (by decide) (hmd .way).1 (hmd .way).2
      · injection h with h; subst h
        exact key .way _ (by decide) (by decide) (by decide) (hmd .way).1 (hmd .way).2
    · split at h
      · split at h
        · rw [bindE_ok_iff] at h
          obtain ⟨o, _, h⟩ := h
          injection h with h; subst h
          exact key .relation _ (by decide) (by decide) (by decide) (hmd .relation).1 (hmd .relation).2
        · injection h with h; subst h
          exact key .relation _ (by decide) (by decide) (by decide) (hmd .relation).1 (hmd .relation).2
      · split at h
        · cases h
        · split at h
          · split at h
            · rw [bindE_ok_iff] at h
              obtain ⟨o, _, h⟩ := h
              injection h with h; subst h
              exact key .changeset _ (by decide) (by decide) (by decide) (hmd .changeset).1 (hmd .changeset).2
            · injection h with h; subst h
              exact key .changeset _ (by decide) (by decide) (by decide) (hmd .changeset).1 (hmd .changeset).2
          · split at h
            · split at h
              · cases h
              · injection h with h; subst h
                exact key .createSection _ (by decide) (by decide) (by decide) (hmd .createSection).1 (hmd .createSection).2
            · split at h
              · split at h
                · cases h
                · injection h with h; subst h
                  exact key .modifySection _ (by decide) (by decide) (by decide) (hmd .modifySection).1 (hmd .modifySection).2
              · split at h
                · split at h
                  · cases h
                  · injection h with h; subst h
                    exact key .deleteSection _ (by decide) (by decide) (by decide) (hmd .deleteSection).1 (hmd .deleteSection).2
                · split at h
                  · rw [bindE_ok_iff] at h
                    obtain ⟨b, _, h⟩ := h
                    injection h with h; subst h
                    exact key .bounds _ (by decide) (by decide) (by decide) (by simp [push]) (by simp [push])
                  · injection h with h; subst h
                    exact key .other _ (by decide) (by decide) (by decide) (by simp [push]) (by simp [push])

theorem pushed_simple (types : Osmium.OplFmt.Types) (st : RSt) (name : String) (st' : RSt) (c : Ctx)
    (h1 : st'.stack = c :: st.stack) (h2 : st'.commentPending = st.commentPending)
    (hnd : inDisc st.stack.head? = false) (hnc : st.stack.head? ≠ some .changeset)
    (hc : c ≠ .text ∧ c ≠ .comment ∧ c ≠ .discussion) : Pushed types st name st' := by
  have hok : okBelow c st.stack.head? = true := by
    obtain ⟨c1, c2, c3⟩ := hc
    cases c <;> simp_all [okBelow]
  have e1 : st.stack.head? ≠ some .discussion := by intro e; rw [e] at hnd; simp [inDisc] at hnd
  have e2 : st.stack.head? ≠ some .comment := by intro e; rw [e] at hnd; simp [inDisc] at hnd
  have e3 : st.stack.head? ≠ some .text := by intro e; rw [e] at hnd; simp [inDisc] at hnd
  refine ⟨c, h1, hok, fun e => absurd e hnc, fun e => absurd e e1, fun e => absurd e e2, e3, fun _ _ => hc, ?_⟩
  rw [h2]
  have : (st.stack.head? == some Ctx.discussion) = false := by simpa using e1
  simp [this]

/-- the stack and pending facts of `withCur (push st c) f = .ok st'` / `.ok (push st c) = .ok st'` -/
theorem push_withCur (st : RSt) (c : Ctx) (f : Cur → Except XErr Cur) (st' : RSt)
    (h : withCur (push st c) f = .ok st') : st'.stack = c :: st.stack ∧ st'.commentPending = st.commentPending := by
  have := withCur_fields _ _ _ h
  simpa [push] using this

theorem push_ok (st : RSt) (c : Ctx) (st' : RSt) (h : (Except.ok (push st c) : Except XErr RSt) = .ok st') :
    st'.stack = c :: st.stack ∧ st'.commentPending = st.commentPending := by
  injection h with h; subst h; simp [push]

theorem startElement_pushed (types : Osmium.OplFmt.Types) (st : RSt) (name : String)
    (attrs : List (String × Bytes)) (st' : RSt) (h : startElement types st name attrs = .ok st') :
    Pushed types st name st' := by
  unfold startElement at h
  split at h
  · -- empty stack: the root element
    rename_i hs
    rw [bindE_ok_iff] at h
    obtain ⟨st1, h1, h⟩ := h
    rw [bindE_ok_iff] at h
    obtain ⟨st2, h2, h⟩ := h
    have hta := topAttrs_fields _ _ _ h2
    have h12 : ∃ c, st1.stack = c :: st.stack ∧ st1.commentPending = st.commentPending ∧
        c ≠ .text ∧ c ≠ .comment ∧ c ≠ .discussion := by
      split at h1
      · injection h1 with h1; subst h1; exact ⟨.osm, by simp [push], by simp [push], by decide, by decide, by decide⟩
      · split at h1
        · injection h1 with h1; subst h1; exact ⟨.osmChange, by simp [push], by simp [push], by decide, by decide, by decide⟩
        · cases h1
    obtain ⟨c, hc1, hc2, hc3⟩ := h12
    split at h
    · cases h
    · injection h with h; subst h
      exact pushed_simple types st name _ c (hta.1.trans hc1) (hta.2.trans hc2) (by rw [hs]; rfl) (by rw [hs]; simp) hc3
  · rename_i top rest hs
    have hhead : st.stack.head? = some top := by rw [hs]; rfl
    cases top with
    | osm =>
      obtain ⟨c, a1, _, a3, a4⟩ := dataLevel_pushed types st .osm name attrs false st' rest hs rfl (by decide) h
      exact pushed_simple types st name st' c a1 a3 (by rw [hhead]; rfl) (by rw [hhead]; simp) a4
    | osmChange =>
      obtain ⟨c, a1, _, a3, a4⟩ := dataLevel_pushed types st .osmChange name attrs false st' rest hs rfl (by decide) h
      exact pushed_simple types st name st' c a1 a3 (by rw [hhead]; rfl) (by rw [hhead]; simp) a4
    | createSection =>
      obtain ⟨c, a1, _, a3, a4⟩ := dataLevel_pushed types st .createSection name attrs true st' rest hs rfl (by decide) h
      exact pushed_simple types st name st' c a1 a3 (by rw [hhead]; rfl) (by rw [hhead]; simp) a4
    | modifySection =>
      obtain ⟨c, a1, _, a3, a4⟩ := dataLevel_pushed types st .modifySection name attrs true st' rest hs rfl (by decide) h
      exact pushed_simple types st name st' c a1 a3 (by rw [hhead]; rfl) (by rw [hhead]; simp) a4
    | deleteSection =>
      obtain ⟨c, a1, _, a3, a4⟩ := dataLevel_pushed types st .deleteSection name attrs true st' rest hs rfl (by decide) h
      exact pushed_simple types st name st' c a1 a3 (by rw [hhead]; rfl) (by rw [hhead]; simp) a4
    | node =>
      simp only at h
      split at h
      · have hf : st'.stack = .tag :: st.stack ∧ st'.commentPending = st.commentPending := by
          split at h
          · exact push_withCur _ _ _ _ h
          · exact push_ok _ _ _ h
        exact pushed_simple types st name st' .tag hf.1 hf.2 (by rw [hhead]; rfl) (by rw [hhead]; simp)
          ⟨by decide, by decide, by decide⟩
      · cases h
    | way =>
      simp only at h
      split at h
      · have hf : st'.stack = .nd :: st.stack ∧ st'.commentPending = st.commentPending := by
          split at h
          · exact push_withCur _ _ _ _ h
          · exact push_ok _ _ _ h
        exact pushed_simple types st name st' .nd hf.1 hf.2 (by rw [hhead]; rfl) (by rw [hhead]; simp)
          ⟨by decide, by decide, by decide⟩
      · split at h
        · have hf : st'.stack = .tag :: st.stack ∧ st'.commentPending = st.commentPending := by
            split at h
            · exact push_withCur _ _ _ _ h
            · exact push_ok _ _ _ h
          exact pushed_simple types st name st' .tag hf.1 hf.2 (by rw [hhead]; rfl) (by rw [hhead]; simp)
            ⟨by decide, by decide, by decide⟩
        · split at h
          · have hf := push_ok _ _ _ h
            exact pushed_simple types st name st' .objBbox hf.1 hf.2 (by rw [hhead]; rfl) (by rw [hhead]; simp)
              ⟨by decide, by decide, by decide⟩
          · cases h
    | relation =>
      simp only at h
      split at h
      · have hf : st'.stack = .member :: st.stack ∧ st'.commentPending = st.commentPending := by
          split at h
          · exact push_withCur _ _ _ _ h
          · exact push_ok _ _ _ h
        exact pushed_simple types st name st' .member hf.1 hf.2 (by rw [hhead]; rfl) (by rw [hhead]; simp)
          ⟨by decide, by decide, by decide⟩
      · split at h
        · have hf : st'.stack = .tag :: st.stack ∧ st'.commentPending = st.commentPending := by
            split at h
            · exact push_withCur _ _ _ _ h
            · exact push_ok _ _ _ h
          exact pushed_simple types st name st' .tag hf.1 hf.2 (by rw [hhead]; rfl) (by rw [hhead]; simp)
            ⟨by decide, by decide, by decide⟩
        · split at h
          · have hf := push_ok _ _ _ h
            exact pushed_simple types st name st' .objBbox hf.1 hf.2 (by rw [hhead]; rfl) (by rw [hhead]; simp)
              ⟨by decide, by decide, by decide⟩
          · cases h
    | tag => cases h
    | nd => cases h
    | member => cases h
    | text => cases h
    | bounds => cases h
    | objBbox => cases h
    | other => cases h
    | changeset =>
      simp only at h
      have hnd : (st.stack.head? == some Ctx.discussion) = false := by rw [hhead]; rfl
      split at h
      · rename_i hn
        have hf : st'.stack = .discussion :: st.stack ∧ st'.commentPending = st.commentPending := by
          split at h
          · exact push_withCur _ _ _ _ h
          · exact push_ok _ _ _ h
        refine ⟨.discussion, hf.1, by rw [hhead]; rfl, fun _ => Or.inl ⟨hn, rfl⟩, ?_, ?_, ?_, ?_, ?_⟩
        · intro e; rw [hhead] at e; cases e
        · intro e; rw [hhead] at e; cases e
        · rw [hhead]; simp
        · intro _ e; exact absurd hhead e
        · rw [hf.2, hnd]; simp
      · split at h
        · rename_i hn
          have hf : st'.stack = .tag :: st.stack ∧ st'.commentPending = st.commentPending := by
            split at h
            · exact push_withCur _ _ _ _ h
            · exact push_ok _ _ _ h
          refine ⟨.tag, hf.1, by rw [hhead]; rfl, fun _ => Or.inr ⟨hn, rfl⟩, ?_, ?_, ?_, ?_, ?_⟩
          · intro e; rw [hhead] at e; cases e
          · intro e; rw [hhead] at e; cases e
          · rw [hhead]; simp
          · intro _ e; exact absurd hhead e
          · rw [hf.2, hnd]; simp
        · cases h
    | discussion =>
      simp only at h
      split at h
      · rename_i hn
        have hd : (st.stack.head? == some Ctx.discussion) = true := by rw [hhead]; rfl
        have hf : st'.stack = .comment :: st.stack ∧
            st'.commentPending = (if types.changeset then true else st.commentPending) := by
          split at h
          · rename_i ht
            rw [bindE_ok_iff] at h
            obtain ⟨s1, hw, h⟩ := h
            have := push_withCur _ _ _ _ hw
            injection h with h; subst h
            simp [this.1, ht]
          · rename_i ht
            have := push_ok _ _ _ h
            simp [this.1, this.2, ht]
        refine ⟨.comment, hf.1, by rw [hhead]; rfl, ?_, fun _ => ⟨hn, rfl⟩, ?_, ?_, ?_, ?_⟩
        · intro e; rw [hhead] at e; cases e
        · intro e; rw [hhead] at e; cases e
        · rw [hhead]; simp
        · intro e; rw [hhead] at e; simp [inDisc] at e
        · rw [hf.2, hd]; cases types.changeset <;> simp
      · cases h
    | comment =>
      simp only at h
      split at h
      · rename_i hn
        split at h
        · cases h
        · rename_i hcond
          have hf := push_ok _ _ _ h
          have hnd : (st.stack.head? == some Ctx.discussion) = false := by rw [hhead]; rfl
          refine ⟨.text, hf.1, by rw [hhead]; rfl, ?_, ?_, fun _ => ⟨hn, rfl, ?_⟩, ?_, ?_, ?_⟩
          · intro e; rw [hhead] at e; cases e
          · intro e; rw [hhead] at e; cases e
          · intro ht
            cases hp : st.commentPending
            · simp [ht, hp] at hcond
            · rfl
          · rw [hhead]; simp
          · intro e; rw [hhead] at e; simp [inDisc] at e
          · rw [hf.2, hnd]; simp
      · cases h

/-! ### end events -/

theorem commit_fields (st : RSt) : (commit st).commentPending = st.commentPending := by
  unfold commit; split <;> rfl

/-- an end event pops the top context; `m_comment_pending` is cleared by `</text>` and by a
    `</comment>` that had no text -/
theorem endElement_popped (types : Osmium.OplFmt.Types) (st st' : RSt) (h : endElement types st = .ok st') :
    ∃ top rest, st.stack = top :: rest ∧ st'.stack = rest ∧
      st'.commentPending =
        (if top = .comment then (if types.changeset && st.commentPending then false else st.commentPending)
         else if top = .text then (if types.changeset then false else st.commentPending)
         else st.commentPending) := by
  unfold endElement at h
  split at h
  · cases h
  · rename_i top rest hs
    refine ⟨top, rest, hs, ?_, ?_⟩
    · injection h with h; subst h; rfl
    · injection h with h; subst h
      cases top <;> simp only [reduceCtorEq, if_false, if_true] <;>
        first
          | rfl
          | exact (markDone_stack st).2
          | (split <;> first | exact commit_fields st | rfl)
          | (split <;> rfl)
          | (split <;> (try split) <;> rfl)

theorem shape_tail {c : Ctx} {r : List Ctx} (h : shape (c :: r) = true) : okBelow c r.head? = true ∧ shape r = true := by
  simpa [shape] using h

/-! ### the invariant is kept by every step the reader accepts -/

/-- no comment pending -/
theorem inv_idle (types : Osmium.OplFmt.Types) (st' : RSt) (p' : Proto)
    (hp : p'.pending = false) (hc : st'.commentPending = false) (hsh : shape st'.stack = true)
    (hpres : types.changeset = true → inDisc st'.stack.head? = true → p'.present = true)
    (hnt : types.changeset = true → st'.stack.head? ≠ some .text) : Inv types st' p' where
  pend := by rw [hp, hc]
  shp := hsh
  pres := hpres
  pendTop := fun a => by rw [hc] at a; cases a
  textPend := fun a b => absurd b (hnt a)
  noCs := fun _ => hc

/-- a comment is pending (only with the changeset filter bit, inside <comment> / <text>) -/
theorem inv_pending (types : Osmium.OplFmt.Types) (st' : RSt) (p' : Proto) (htc : types.changeset = true)
    (hp : p'.pending = true) (hc : st'.commentPending = true) (hsh : shape st'.stack = true)
    (hpres : p'.present = true)
    (htop : st'.stack.head? = some .comment ∨ st'.stack.head? = some .text) : Inv types st' p' where
  pend := by rw [hp, hc]
  shp := hsh
  pres := fun _ _ => hpres
  pendTop := fun _ => htop
  textPend := fun _ _ => hc
  noCs := fun a => by rw [htc] at a; cases a

theorem not_pending_of_top (st : RSt) (top : Ctx)
    (hpt : st.commentPending = true → some top = some Ctx.comment ∨ some top = some Ctx.text)
    (h1 : top ≠ .comment) (h2 : top ≠ .text) : st.commentPending = false := by
  cases hsp : st.commentPending with
  | false => rfl
  | true =>
    rcases hpt hsp with a | a
    · injection a with a; exact absurd a h1
    · injection a with a; exact absurd a h2

theorem step_inv (types : Osmium.OplFmt.Types) (st : RSt) (p : Proto) (e : Ev) (st' : RSt)
    (hi : Inv types st p) (hs : stepEv types st e = .ok st') :
    ∃ p', protoStep types st p e = .ok p' ∧ Inv types st' p' := by
  obtain ⟨hpend, hshp, hpres, hpt, htp, hno⟩ := hi
  cases e with
  | chars t =>
    have hst : st'.stack = st.stack ∧ st'.commentPending = st.commentPending := by
      simp only [stepEv] at hs
      injection hs with hs; subst hs
      unfold characters; split <;> simp
    refine ⟨p, rfl, ?_⟩
    exact { pend := hpend.trans hst.2.symm, shp := hst.1 ▸ hshp, pres := fun a b => hpres a (hst.1 ▸ b),
            pendTop := fun a => hst.1 ▸ hpt (hst.2 ▸ a), textPend := fun a b => hst.2 ▸ htp a (hst.1 ▸ b),
            noCs := fun a => hst.2 ▸ hno a }
  | stop n =>
    simp only [stepEv] at hs
    obtain ⟨top, rest, hstk, hstk', hcp⟩ := endElement_popped types st st' hs
    rw [hstk] at hshp hpres hpt htp
    obtain ⟨hob, hshr⟩ := shape_tail hshp
    simp only [List.head?_cons] at hpres hpt htp
    have hsh' : shape st'.stack = true := hstk' ▸ hshr
    cases htc : types.changeset with
    | false =>
      have hcf := hno htc
      have hcp' : st'.commentPending = false := by
        rw [hcp, hcf, htc]; simp
      refine ⟨p, by simp [protoStep, htc], ?_⟩
      exact inv_idle types st' p (hpend.trans hcf) hcp' hsh' (fun a => by rw [htc] at a; cases a)
        (fun a => by rw [htc] at a; cases a)
    | true =>
      simp only [htc, Bool.true_and, if_true] at hcp
      by_cases h1 : top = .text
      · subst h1
        have hpp : p.present = true := hpres htc rfl
        have hpd : p.pending = true := hpend.trans (htp htc rfl)
        have hrest : rest.head? = some .comment := by simpa [okBelow] using hob
        have hcp' : st'.commentPending = false := by simpa using hcp
        refine ⟨{ p with pending := false }, by simp [protoStep, htc, hstk, addCommentText, hpp, hpd], ?_⟩
        exact inv_idle types st' _ rfl hcp' hsh' (fun _ _ => hpp) (fun _ b => by rw [hstk', hrest] at b; cases b)
      · by_cases h2 : top = .comment
        · subst h2
          have hpp : p.present = true := hpres htc rfl
          have hrest : rest.head? = some .discussion := by simpa [okBelow] using hob
          have hcp' : st'.commentPending = false := by
            rw [hcp]; simp
          cases hsp : st.commentPending with
          | true =>
            have hpd : p.pending = true := hpend.trans hsp
            refine ⟨{ p with pending := false }, by simp [protoStep, htc, hstk, hsp, addCommentText, hpp, hpd], ?_⟩
            exact inv_idle types st' _ rfl hcp' hsh' (fun _ _ => hpp) (fun _ b => by rw [hstk', hrest] at b; cases b)
          | false =>
            refine ⟨p, by simp [protoStep, htc, hstk, hsp], ?_⟩
            exact inv_idle types st' p (hpend.trans hsp) hcp' hsh' (fun _ _ => hpp)
              (fun _ b => by rw [hstk', hrest] at b; cases b)
        · -- every other context: nothing is pending, nothing of the discussion is below
          have hsp : st.commentPending = false := not_pending_of_top st top hpt h2 h1
          have hcp' : st'.commentPending = false := by
            rw [hcp, if_neg h2, if_neg h1, hsp]
          by_cases h3 : top = .discussion
          · subst h3
            have hpp : p.present = true := hpres htc rfl
            have hrest : rest.head? = some .changeset := by simpa [okBelow] using hob
            refine ⟨p, by simp [protoStep, htc, hstk], ?_⟩
            exact inv_idle types st' p (hpend.trans hsp) hcp' hsh' (fun _ _ => hpp)
              (fun _ b => by rw [hstk', hrest] at b; cases b)
          · have hnd : inDisc rest.head? = false := by
              cases top <;> simp_all [okBelow]
            have hnt : rest.head? ≠ some .text := by
              intro a; rw [a] at hnd; simp [inDisc] at hnd
            have hproto : ∃ p', protoStep types st p (.stop n) = .ok p' ∧ p'.pending = false := by
              have hpd : p.pending = false := hpend.trans hsp
              cases top <;> simp_all [protoStep]
            obtain ⟨p', hp1, hp2⟩ := hproto
            refine ⟨p', hp1, ?_⟩
            exact inv_idle types st' p' hp2 hcp' hsh' (fun _ b => by rw [hstk', hnd] at b; cases b)
              (fun _ => hstk' ▸ hnt)
  | start name attrs =>
    simp only [stepEv] at hs
    obtain ⟨c, hstk', hok, hinCs, hinD, hinC, hnt, hother, hcp⟩ := startElement_pushed types st name attrs st' hs
    have hsh' : shape st'.stack = true := by rw [hstk']; simp [shape, hok, hshp]
    have hhead' : st'.stack.head? = some c := by rw [hstk']; rfl
    cases htc : types.changeset with
    | false =>
      have hcf := hno htc
      have hcp' : st'.commentPending = false := by rw [hcp, htc, hcf]; simp
      refine ⟨p, by simp [protoStep, htc], ?_⟩
      exact inv_idle types st' p (hpend.trans hcf) hcp' hsh' (fun a => by rw [htc] at a; cases a)
        (fun a => by rw [htc] at a; cases a)
    | true =>
      simp only [htc, Bool.true_and] at hcp
      cases hstk : st.stack with
      | nil =>
        rw [hstk] at hcp hother hpt
        have hsp : st.commentPending = false := by
          cases hsp : st.commentPending with
          | false => rfl
          | true => rcases hpt hsp with a | a <;> cases a
        have hc := hother rfl (by simp)
        have hcp' : st'.commentPending = false := by rw [hcp]; simpa using hsp
        have hnd' : inDisc st'.stack.head? = false := by
          rw [hhead']
          obtain ⟨c1, c2, c3⟩ := hc
          cases c <;> simp_all [inDisc]
        refine ⟨p, by simp [protoStep, htc, hstk], ?_⟩
        exact inv_idle types st' p (hpend.trans hsp) hcp' hsh' (fun _ b => by rw [hnd'] at b; cases b)
          (fun _ b => by rw [hhead'] at b; injection b with b; exact hc.1 b)
      | cons top rest =>
        rw [hstk] at hcp hother hpt hinCs hinD hinC hnt hpres htp
        simp only [List.head?_cons] at hcp hother hpt hinCs hinD hinC hnt hpres htp
        by_cases h1 : top = .changeset
        · subst h1
          have hsp : st.commentPending = false := not_pending_of_top st _ hpt (by decide) (by decide)
          have hcp' : st'.commentPending = false := by rw [hcp]; simpa using hsp
          rcases hinCs rfl with ⟨hn, hc⟩ | ⟨hn, hc⟩
          · subst hc
            refine ⟨{ p with present := true }, by simp [protoStep, htc, hstk, hn], ?_⟩
            exact inv_idle types st' _ (hpend.trans hsp) hcp' hsh' (fun _ _ => rfl)
              (fun _ b => by rw [hhead'] at b; cases b)
          · subst hc
            refine ⟨{}, by simp [protoStep, htc, hstk, hn], ?_⟩
            exact inv_idle types st' _ rfl hcp' hsh' (fun _ b => by rw [hhead'] at b; simp [inDisc] at b)
              (fun _ b => by rw [hhead'] at b; cases b)
        · by_cases h2 : top = .discussion
          · subst h2
            obtain ⟨hn, hc⟩ := hinD rfl
            subst hc
            have hsp : st.commentPending = false := not_pending_of_top st _ hpt (by decide) (by decide)
            have hpp : p.present = true := hpres htc rfl
            have hpd : p.pending = false := hpend.trans hsp
            have hcp' : st'.commentPending = true := by rw [hcp]; simp
            refine ⟨{ p with pending := true }, by simp [protoStep, htc, hstk, hn, addComment, hpp, hpd], ?_⟩
            exact inv_pending types st' _ htc rfl hcp' hsh' hpp (Or.inl hhead')
          · by_cases h3 : top = .comment
            · subst h3
              obtain ⟨hn, hc, hp⟩ := hinC rfl
              subst hc
              have hsp : st.commentPending = true := hp htc
              have hpp : p.present = true := hpres htc rfl
              have hcp' : st'.commentPending = true := by rw [hcp]; simpa using hsp
              refine ⟨p, by simp [protoStep, htc, hstk], ?_⟩
              exact inv_pending types st' p htc (hpend.trans hsp) hcp' hsh' hpp (Or.inr hhead')
            · have h4 : top ≠ .text := fun a => hnt (by rw [a])
              have hnd : inDisc (some top) = false := by
                cases top <;> simp_all [inDisc]
              have hc := hother hnd (by intro a; injection a with a; exact h1 a)
              have hsp : st.commentPending = false := not_pending_of_top st top hpt h3 h4
              have hcp' : st'.commentPending = false := by
                rw [hcp]
                have : (some top == some Ctx.discussion) = false := by simpa using h2
                simp [this, hsp]
              have hnd' : inDisc st'.stack.head? = false := by
                rw [hhead']
                obtain ⟨c1, c2, c3⟩ := hc
                cases c <;> simp_all [inDisc]
              have hproto : ∃ p', protoStep types st p (.start name attrs) = .ok p' ∧ p'.pending = false := by
                have hpd : p.pending = false := hpend.trans hsp
                cases top <;> simp_all [protoStep] <;> (split <;> simp_all)
              obtain ⟨p', hp1, hp2⟩ := hproto
              refine ⟨p', hp1, ?_⟩
              exact inv_idle types st' p' hp2 hcp' hsh' (fun _ b => by rw [hnd'] at b; cases b)
                (fun _ b => by rw [hhead'] at b; injection b with b; exact hc.1 b)

/-- MAIN: the reader never misuses the discussion builder -/
theorem monitorGo_none (types : Osmium.OplFmt.Types) : ∀ (evs : List Ev) (st : RSt) (p : Proto),
    Inv types st p → monitorGo types evs st p = none
  | [], _, _, _ => rfl
  | e :: es, st, p, hi => by
    unfold monitorGo
    cases hs : stepEv types st e with
    | error x => rfl
    | ok st' =>
      obtain ⟨p', hp, hi'⟩ := step_inv types st p e st' hi hs
      simp only [hp]
      exact monitorGo_none types es st' p' hi'

theorem monitor_none (types : Osmium.OplFmt.Types) (evs : List Ev) : monitor types evs = none :=
  monitorGo_none types evs {} {} (inv_init types)

end Osmium.HostileXml
