/-
C03 helper for Lemmas/HostileOpl.lean: the cursor a leaf parser of the OPL reader returns is a SUFFIX of the
cursor it was given (it only moves forward inside the list), hence NUL-free when its input is.

  digitsLoop, skipDigits, intPart, fracPart, expPart, finishCoord, parseCoord   (coordinates)
  oplDigits, oplParseInt                                                         (integers)
  parseEscaped, parseStringLoop, parseString                                     (strings)
  oplParseTimestampV                                                             (`*s += 20`)
  OplFmt.pInt / pU32 / pId / pStr / pTs / pCoord / pVisible / pChar
-/
import Osmium.Model.HostileOpl
import Osmium.Lemmas.HostileText

namespace Osmium.HostileOpl
open Osmium.Conv Osmium.HostileText Osmium.OplFmt Osmium.TextFmt

theorem noNul_of_suffix {r s : Bytes} (h : r <:+ s) (hn : NoNul s) : NoNul r :=
  fun b hb => hn b (h.subset hb)

theorem noNul_nil : NoNul [] := fun b hb => by cases hb

theorem noNul_tail {s : Bytes} (hn : NoNul s) : NoNul s.tail :=
  noNul_of_suffix (List.tail_suffix s) hn

/-! ### coordinates -/

theorem digitsLoop_suffix (n acc : Nat) (s : Bytes) : (digitsLoop n acc s).2.2 <:+ s := by
  induction n generalizing acc s with
  | zero => simp [digitsLoop]
  | succ n ih =>
    cases s with
    | nil => simp [digitsLoop]
    | cons c s =>
      simp only [digitsLoop]
      split
      · exact (ih _ _).trans (List.suffix_cons c s)
      · exact List.suffix_refl _

theorem skipDigits_suffix (n : Nat) (s : Bytes) : (skipDigits n s).2 <:+ s := by
  induction n generalizing s with
  | zero => simp [skipDigits]
  | succ n ih =>
    cases s with
    | nil => simp [skipDigits]
    | cons c s =>
      simp only [skipDigits]
      split
      · exact (ih _).trans (List.suffix_cons c s)
      · exact List.suffix_refl _

theorem intPart_suffix {s : Bytes} {r : Nat} {s' : Bytes} (h : intPart s = some (r, s')) : s' <:+ s := by
  unfold intPart at h
  split at h
  · cases s with
    | nil => cases h
    | cons c t =>
      simp only at h
      split at h
      · have hs := digitsLoop_suffix 10 (digitVal c) t
        generalize digitsLoop 10 (digitVal c) t = x at h hs
        rcases x with ⟨r', md, s''⟩
        simp only at h hs
        split at h
        · cases h
        · cases h; exact hs.trans (List.suffix_cons c t)
      · cases h
  · split at h
    · cases h; exact List.suffix_refl _
    · cases h

theorem fracPart_suffix {r : Nat} {s : Bytes} {q : Nat × Nat × List UInt8 × List UInt8}
    (h : fracPart r s = some q) : q.2.2.2 <:+ s := by
  unfold fracPart at h
  split at h
  · dsimp only at h
    have h1 := digitsLoop_suffix 8 r s.tail
    generalize digitsLoop 8 r s.tail = x at h h1
    rcases x with ⟨r', sc, s2⟩
    have h2 := skipDigits_suffix 20 s2
    generalize skipDigits 20 s2 = y at h h2
    rcases y with ⟨md, s3⟩
    simp only at h h1 h2
    split at h
    · cases h
    · cases h; exact (h2.trans h1).trans (List.tail_suffix s)
  · cases h; exact List.suffix_refl _

theorem expPart_suffix {s : Bytes} {q : Int × List UInt8} (h : expPart s = some q) : q.2 <:+ s := by
  unfold expPart at h
  split at h
  · dsimp only at h
    generalize hs2 : (if (peek s.tail == cMinus) = true then ((-1 : Int), s.tail.tail) else ((1 : Int), s.tail)) = p at h
    have hp : p.2 <:+ s := by
      split at hs2
      · subst hs2; exact (List.tail_suffix _).trans (List.tail_suffix s)
      · subst hs2; exact List.tail_suffix s
    rcases p with ⟨esign, s2⟩
    simp only at h hp
    cases s2 with
    | nil => cases h
    | cons c s3 =>
      simp only at h
      split at h
      · have hd := digitsLoop_suffix 5 (digitVal c) s3
        generalize digitsLoop 5 (digitVal c) s3 = x at h hd
        rcases x with ⟨er, md, s4⟩
        simp only at h hd
        split at h
        · cases h
        · cases h; exact (hd.trans (List.suffix_cons c s3)).trans hp
      · cases h
  · cases h; exact List.suffix_refl _

theorem finishCoord_rest {r : Int} {o : Bool} {sign : Int} {rest : Bytes} {out : CoordOut}
    (h : finishCoord r o sign rest = .ok out) : out.rest = rest := by
  unfold finishCoord at h
  simp only at h
  split at h
  · cases h
  · cases h; rfl

theorem parseCoord_suffix {v : Variant} {s : Bytes} {out : CoordOut} (h : parseCoord v s = .ok out) :
    out.rest <:+ s := by
  unfold parseCoord at h
  generalize hs1 : (if peek s == cMinus then ((-1 : Int), s.tail) else ((1 : Int), s)) = p at h
  have hp : p.2 <:+ s := by
    split at hs1
    · subst hs1; exact List.tail_suffix s
    · subst hs1; exact List.suffix_refl _
  rcases p with ⟨sign, s1⟩
  simp only at h hp
  cases hi : intPart s1 with
  | none => rw [hi] at h; cases h
  | some q1 =>
    rcases q1 with ⟨r1, s2⟩
    rw [hi] at h
    simp only at h
    have h2 := intPart_suffix hi
    cases hf : fracPart r1 s2 with
    | none => rw [hf] at h; cases h
    | some q2 =>
      have h3 := fracPart_suffix hf
      rcases q2 with ⟨r2, sc, extra, s3⟩
      rw [hf] at h
      simp only at h h3
      cases he : expPart s3 with
      | none => rw [he] at h; cases h
      | some q3 =>
        have h4 := expPart_suffix he
        rcases q3 with ⟨e, s4⟩
        rw [he] at h
        simp only at h h4
        have hall : s4 <:+ s := ((h4.trans h3).trans h2).trans hp
        split at h
        · rw [finishCoord_rest h]; exact hall
        · split at h
          · cases h
          · rw [finishCoord_rest h]; exact hall

/-! ### integers -/

theorem oplDigits_suffix {value : Int} {s : Bytes} {q : Int × List UInt8} (h : oplDigits value s = .ok q) :
    q.2 <:+ s := by
  induction s generalizing value with
  | nil => simp only [oplDigits] at h; cases h; exact List.suffix_refl _
  | cons c s ih =>
    simp only [oplDigits] at h
    split at h
    · split at h
      · cases h
      · exact (ih h).trans (List.suffix_cons c s)
    · cases h; exact List.suffix_refl _

theorem oplParseInt_suffix {tmin tmax : Int} {s : Bytes} {q : Int × List UInt8}
    (h : oplParseInt tmin tmax s = .ok q) : q.2 <:+ s := by
  unfold oplParseInt at h
  simp only at h
  have hs1 : (if (peek s == cMinus) = true then s.tail else s) <:+ s := by
    split
    · exact List.tail_suffix s
    · exact List.suffix_refl _
  generalize (if (peek s == cMinus) = true then s.tail else s) = s1 at h hs1
  split at h
  · cases h
  · cases hd : oplDigits 0 s1 with
    | error e => rw [hd] at h; cases h
    | ok p =>
      have := oplDigits_suffix hd
      rcases p with ⟨value, rest⟩
      rw [hd] at h
      simp only at h this
      split at h
      · split at h
        · cases h
        · cases h; exact this.trans hs1
      · split at h
        · cases h
        · split at h
          · cases h
          · cases h; exact this.trans hs1

/-! ### strings -/

theorem parseEscaped_suffix {n v : Nat} {s p r : Bytes} (h : Opl.parseEscaped n v s = .ok (p, r)) : r <:+ s := by
  induction n generalizing v s with
  | zero => simp [Opl.parseEscaped] at h
  | succ n ih =>
    cases s with
    | nil => simp [Opl.parseEscaped] at h
    | cons c s =>
      simp only [Opl.parseEscaped] at h
      split at h
      · cases h
      · split at h
        · cases h; exact List.suffix_cons _ _
        · cases hv : Opl.hexVal c with
          | none => rw [hv] at h; cases h
          | some d => rw [hv] at h; exact (ih h).trans (List.suffix_cons c s)

theorem parseStringLoop_suffix {f : Nat} {s : Bytes} {q : List UInt8 × List UInt8}
    (h : Opl.parseStringLoop f s = .ok q) : q.2 <:+ s := by
  induction f generalizing s q with
  | zero => simp [Opl.parseStringLoop] at h
  | succ f ih =>
    cases s with
    | nil => simp only [Opl.parseStringLoop] at h; cases h; exact List.suffix_refl _
    | cons c s =>
      simp only [Opl.parseStringLoop] at h
      split at h
      · cases h; exact List.suffix_refl _
      · split at h
        · cases he : Opl.parseEscaped 8 0 s with
          | error e => rw [he] at h; cases h
          | ok pr =>
            rcases pr with ⟨p, rest⟩
            rw [he] at h
            simp only at h
            cases hl : Opl.parseStringLoop f rest with
            | error e => rw [hl] at h; cases h
            | ok q' =>
              rcases q' with ⟨r, rest'⟩
              rw [hl] at h
              cases h
              exact ((ih hl).trans (parseEscaped_suffix he)).trans (List.suffix_cons c s)
        · cases hl : Opl.parseStringLoop f s with
          | error e => rw [hl] at h; cases h
          | ok q' =>
            rcases q' with ⟨r, rest'⟩
            rw [hl] at h
            cases h
            exact (ih hl).trans (List.suffix_cons c s)

/-! ### the OPL field parsers -/

theorem pInt_suffix {tmin tmax : Int} {s : Bytes} {q : Int × Bytes} (h : pInt tmin tmax s = .ok q) : q.2 <:+ s := by
  unfold pInt at h
  cases hi : oplParseInt tmin tmax s with
  | error e => rw [hi] at h; cases h
  | ok r => rw [hi] at h; cases h; exact oplParseInt_suffix hi

theorem pId_suffix {s : Bytes} {q : Int × Bytes} (h : pId s = .ok q) : q.2 <:+ s := pInt_suffix h

theorem pU32_suffix {s : Bytes} {q : Nat × Bytes} (h : pU32 s = .ok q) : q.2 <:+ s := by
  unfold pU32 at h
  cases hi : pInt 0 u32Max s with
  | error e => rw [hi] at h; cases h
  | ok r => rw [hi] at h; cases h; exact pInt_suffix hi

theorem pStr_suffix {s : Bytes} {q : Bytes × Bytes} (h : pStr s = .ok q) : q.2 <:+ s := by
  unfold pStr at h
  cases hi : Opl.parseString s with
  | error e => rw [hi] at h; cases h
  | ok r => rw [hi] at h; cases h; exact parseStringLoop_suffix hi

theorem pTs_suffix {s : Bytes} {q : Nat × Bytes} (h : pTs s = .ok q) : q.2 <:+ s := by
  unfold pTs at h
  cases hi : oplParseTimestampV true true s with
  | error e => rw [hi] at h; cases h
  | ok r =>
    rw [hi] at h; cases h
    unfold oplParseTimestampV at hi
    split at hi
    · cases hi; exact List.suffix_refl _
    · split at hi
      · cases hi
      · cases hi; exact List.drop_suffix 20 s

theorem pCoord_suffix {s : Bytes} {q : Int × Bytes} (h : pCoord s = .ok q) : q.2 <:+ s := by
  unfold pCoord at h
  cases hi : parseCoord .now s with
  | error e => rw [hi] at h; cases h
  | ok r => rw [hi] at h; cases h; exact parseCoord_suffix hi

theorem pVisible_suffix {s : Bytes} {q : Bool × Bytes} (h : pVisible s = .ok q) : q.2 <:+ s := by
  unfold pVisible at h
  cases s with
  | nil => cases h
  | cons c r =>
    simp only at h
    split at h
    · cases h; exact List.suffix_cons _ _
    · split at h
      · cases h; exact List.suffix_cons _ _
      · cases h

theorem pChar_suffix {c : UInt8} {s r : Bytes} (h : pChar c s = .ok r) : r <:+ s := by
  unfold pChar at h
  cases s with
  | nil => cases h
  | cons d t =>
    simp only at h
    split at h
    · cases h; exact List.suffix_cons _ _
    · cases h

end Osmium.HostileOpl
