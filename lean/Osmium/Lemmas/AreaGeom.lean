/-
C10 — geometric correctness of the DECISION of `calculate_intersection`
(include/osmium/area/detail/node_ref_segment.hpp), as transcribed in `Osmium.Model.Area`
(`Seg.intersectCase` / `Seg.intersect?`).

Specification: two closed segments `Meets` when they share a (rational) point that is not merely
an end point of both.  On well-formed (`Seg.wf`), distinct segments the code answers "defined
Location" exactly when the segments meet (`intersect_correct`); consequences: symmetry of the
decision and the range facts the sweep of `find_intersections` relies on (`intersect_ranges`).

Structure of the proof
* `collinear_decision` : purely combinatorial — the insertion sort of the four `seg_loc` records
  and the tests on the sorted array decide `p0 < q1 ∧ q0 < p1` (location order).
* rational geometry (`MeetsQ…` lemmas): Cramer's rule for non-parallel lines, no common point for
  distinct parallel lines, reduction to one parameter for segments on a common line.
* `isect_*` : evaluation of the model's branches; the final theorems glue the three parts.
-/
import Osmium.Model.Area
import Mathlib.Tactic.Linarith
import Mathlib.Tactic.Ring
import Mathlib.Tactic.FieldSimp
import Mathlib.Tactic.LinearCombination
import Mathlib.Tactic.NormNum
import Mathlib.Algebra.Order.Field.Basic
import Mathlib.Algebra.Order.Field.Rat

namespace Osmium.Area

/-- the rational point (px,py) lies on the closed segment s -/
def OnSeg (s : Seg) (px py : ℚ) : Prop :=
  ∃ t : ℚ, 0 ≤ t ∧ t ≤ 1 ∧ px = s.first.x + t * (s.second.x - s.first.x) ∧
    py = s.first.y + t * (s.second.y - s.first.y)

/-- (px,py) is one of the two end points of s -/
def IsEnd (s : Seg) (px py : ℚ) : Prop :=
  (px = s.first.x ∧ py = s.first.y) ∨ (px = s.second.x ∧ py = s.second.y)

/-- the two closed segments share a point that is not merely a common end point -/
def Meets (s t : Seg) : Prop :=
  ∃ px py : ℚ, OnSeg s px py ∧ OnSeg t px py ∧ ¬ (IsEnd s px py ∧ IsEnd t px py)

theorem meets_symm (s t : Seg) : Meets s t ↔ Meets t s := by
  constructor <;> rintro ⟨px, py, h1, h2, h3⟩ <;> exact ⟨px, py, h2, h1, fun h => h3 ⟨h.2, h.1⟩⟩

namespace AreaGeom

/-! ## location order on coordinates -/

theorem vlt_iff (a b : Vec) : a.lt b = true ↔ a.x < b.x ∨ (a.x = b.x ∧ a.y < b.y) := by
  cases a; cases b; simp [Vec.lt]; omega

theorem vlt_false_iff (a b : Vec) :
    a.lt b = false ↔ ¬ (a.x < b.x ∨ (a.x = b.x ∧ a.y < b.y)) := by
  rw [← vlt_iff]; simp

theorem vec_ext_iff (a b : Vec) : a = b ↔ a.x = b.x ∧ a.y = b.y := by
  cases a; cases b; simp

theorem vlt_asymm {a b : Vec} (h : a.lt b = true) : b.lt a = false := by
  rw [vlt_false_iff]; rw [vlt_iff] at h; omega

/-! ## the collinear branch decides `p0 < q1 ∧ q0 < p1` -/

/-- common script: evaluate the insertion sort by case distinction on the comparisons it makes,
    then decide every leaf on the integer coordinates -/
local macro "sort_cases" : tactic => `(tactic| (
  repeat' (split_ifs <;> simp only [insertLoc])
  all_goals
    simp only [beq_iff_eq, bne_iff_ne, ne_eq, not_true_eq_false, if_false,
      Nat.zero_ne_one, Nat.one_ne_zero, not_false_eq_true, if_true]
    split_ifs
  all_goals
    simp only [IsectCase.hit, Bool.true_eq, Bool.false_eq, Bool.and_eq_true,
      Bool.and_eq_false_iff, Bool.not_eq_true, vlt_iff, vlt_false_iff, vec_ext_iff] at *
    omega))

theorem collinear_decision_1 (p0 p1 q0 q1 : Vec) (hp : p0.lt p1 = true) (hq : q0.lt q1 = true)
    (h1 : q0.lt p0 = true) :
    (collinearCase p0 p1 q0 q1).hit = (p0.lt q1 && q0.lt p1) := by
  generalize hR : (p0.lt q1 && q0.lt p1) = R
  simp only [collinearCase, sortLoc, List.foldl, insertLoc, vlt_asymm hp, h1, Bool.false_eq_true,
    if_false, if_true]
  subst hR
  sort_cases

theorem collinear_decision_2 (p0 p1 q0 q1 : Vec) (hp : p0.lt p1 = true) (hq : q0.lt q1 = true)
    (hne : ¬ (p0 = q0 ∧ p1 = q1)) (h1 : q0.lt p0 = false) (h2 : q0.lt p1 = true) :
    (collinearCase p0 p1 q0 q1).hit = (p0.lt q1 && q0.lt p1) := by
  generalize hR : (p0.lt q1 && q0.lt p1) = R
  simp only [collinearCase, sortLoc, List.foldl, insertLoc, vlt_asymm hp, h1, h2,
    Bool.false_eq_true, if_false, if_true]
  subst hR
  sort_cases

theorem collinear_decision_3 (p0 p1 q0 q1 : Vec) (hp : p0.lt p1 = true) (hq : q0.lt q1 = true)
    (h1 : q0.lt p0 = false) (h2 : q0.lt p1 = false) :
    (collinearCase p0 p1 q0 q1).hit = (p0.lt q1 && q0.lt p1) := by
  generalize hR : (p0.lt q1 && q0.lt p1) = R
  simp only [collinearCase, sortLoc, List.foldl, insertLoc, vlt_asymm hp, h1, h2,
    Bool.false_eq_true, if_false]
  subst hR
  sort_cases

/-- On two well-formed, non-identical segments the sort-based test of the collinear branch
    answers "overlap" iff the later of the two first end points is strictly before the earlier
    of the two second end points (no collinearity needed: it is a fact about the total order). -/
theorem collinear_decision (p0 p1 q0 q1 : Vec) (hp : p0.lt p1 = true) (hq : q0.lt q1 = true)
    (hne : ¬ (p0 = q0 ∧ p1 = q1)) :
    (collinearCase p0 p1 q0 q1).hit = (p0.lt q1 && q0.lt p1) := by
  by_cases h1 : q0.lt p0 = true
  · exact collinear_decision_1 p0 p1 q0 q1 hp hq h1
  · rw [Bool.not_eq_true] at h1
    by_cases h2 : q0.lt p1 = true
    · exact collinear_decision_2 p0 p1 q0 q1 hp hq hne h1 h2
    · rw [Bool.not_eq_true] at h2
      exact collinear_decision_3 p0 p1 q0 q1 hp hq h1 h2

/-! ## rational geometry -/

def OnSegQ (ax ay bx by' px py : ℚ) : Prop :=
  ∃ t : ℚ, 0 ≤ t ∧ t ≤ 1 ∧ px = ax + t * (bx - ax) ∧ py = ay + t * (by' - ay)

def IsEndQ (ax ay bx by' px py : ℚ) : Prop :=
  (px = ax ∧ py = ay) ∨ (px = bx ∧ py = by')

def MeetsQ (x0 y0 x1 y1 u0 v0 u1 v1 : ℚ) : Prop :=
  ∃ px py : ℚ, OnSegQ x0 y0 x1 y1 px py ∧ OnSegQ u0 v0 u1 v1 px py ∧
    ¬ (IsEndQ x0 y0 x1 y1 px py ∧ IsEndQ u0 v0 u1 v1 px py)

/-- location order on rational coordinates -/
def LtQ (ax ay bx by' : ℚ) : Prop := ax < bx ∨ (ax = bx ∧ ay < by')

/-- a direction that is positive in location order -/
def LexPos (dx dy : ℚ) : Prop := 0 < dx ∨ (dx = 0 ∧ 0 < dy)

theorem meets_iff_meetsQ (s t : Seg) :
    Meets s t ↔ MeetsQ s.first.x s.first.y s.second.x s.second.y
      t.first.x t.first.y t.second.x t.second.y := Iff.rfl

variable {x0 y0 x1 y1 u0 v0 u1 v1 : ℚ}

/-- Cramer: the parameters of a common point -/
theorem cramer {a b : ℚ}
    (hx : x0 + a * (x1 - x0) = u0 + b * (u1 - u0))
    (hy : y0 + a * (y1 - y0) = v0 + b * (v1 - v0)) :
    a * ((x1 - x0) * (v1 - v0) - (y1 - y0) * (u1 - u0))
        = (u1 - u0) * (y0 - v0) - (v1 - v0) * (x0 - u0) ∧
    b * ((x1 - x0) * (v1 - v0) - (y1 - y0) * (u1 - u0))
        = (x1 - x0) * (y0 - v0) - (y1 - y0) * (x0 - u0) := by
  constructor
  · linear_combination (v1 - v0) * hx - (u1 - u0) * hy
  · linear_combination (y1 - y0) * hx - (x1 - x0) * hy

/-- non-parallel, no shared end point: the sign tests are exactly `Meets` -/
theorem meetsQ_nonpar {d na nb : ℚ}
    (hd : d = (x1 - x0) * (v1 - v0) - (y1 - y0) * (u1 - u0))
    (hna : na = (u1 - u0) * (y0 - v0) - (v1 - v0) * (x0 - u0))
    (hnb : nb = (x1 - x0) * (y0 - v0) - (y1 - y0) * (x0 - u0))
    (hd0 : d ≠ 0)
    (hsh : ¬ ((x0 = u0 ∧ y0 = v0) ∨ (x0 = u1 ∧ y0 = v1) ∨ (x1 = u0 ∧ y1 = v0) ∨ (x1 = u1 ∧ y1 = v1))) :
    MeetsQ x0 y0 x1 y1 u0 v0 u1 v1 ↔
      (0 < d ∧ 0 ≤ na ∧ na ≤ d ∧ 0 ≤ nb ∧ nb ≤ d) ∨ (d < 0 ∧ na ≤ 0 ∧ d ≤ na ∧ nb ≤ 0 ∧ d ≤ nb) := by
  constructor
  · rintro ⟨px, py, ⟨a, ha0, ha1, hpx, hpy⟩, ⟨b, hb0, hb1, hqx, hqy⟩, -⟩
    obtain ⟨hA, hB⟩ := cramer (hpx.symm.trans hqx) (hpy.symm.trans hqy)
    rw [← hd, ← hna] at hA
    rw [← hd, ← hnb] at hB
    rcases lt_or_gt_of_ne hd0 with h | h
    · right
      refine ⟨h, ?_, ?_, ?_, ?_⟩ <;> nlinarith
    · left
      refine ⟨h, ?_, ?_, ?_, ?_⟩ <;> nlinarith
  · intro h
    have hA : x0 + na / d * (x1 - x0) = u0 + nb / d * (u1 - u0) := by
      field_simp
      rw [hd, hna, hnb]; ring
    have hB : y0 + na / d * (y1 - y0) = v0 + nb / d * (v1 - v0) := by
      field_simp
      rw [hd, hna, hnb]; ring
    have hr : 0 ≤ na / d ∧ na / d ≤ 1 ∧ 0 ≤ nb / d ∧ nb / d ≤ 1 := by
      rcases h with ⟨h0, h1, h2, h3, h4⟩ | ⟨h0, h1, h2, h3, h4⟩
      · exact ⟨div_nonneg h1 h0.le, (div_le_one h0).2 h2, div_nonneg h3 h0.le, (div_le_one h0).2 h4⟩
      · exact ⟨div_nonneg_of_nonpos h1 h0.le, (div_le_one_of_neg h0).2 h2,
          div_nonneg_of_nonpos h3 h0.le, (div_le_one_of_neg h0).2 h4⟩
    refine ⟨x0 + na / d * (x1 - x0), y0 + na / d * (y1 - y0),
      ⟨na / d, hr.1, hr.2.1, rfl, rfl⟩, ⟨nb / d, hr.2.2.1, hr.2.2.2, hA, hB⟩, ?_⟩
    rintro ⟨(⟨e1, e2⟩ | ⟨e1, e2⟩), (⟨e3, e4⟩ | ⟨e3, e4⟩)⟩
    · exact hsh (Or.inl ⟨e1.symm.trans e3, e2.symm.trans e4⟩)
    · exact hsh (Or.inr (Or.inl ⟨e1.symm.trans e3, e2.symm.trans e4⟩))
    · exact hsh (Or.inr (Or.inr (Or.inl ⟨e1.symm.trans e3, e2.symm.trans e4⟩)))
    · exact hsh (Or.inr (Or.inr (Or.inr ⟨e1.symm.trans e3, e2.symm.trans e4⟩)))


/-- non-parallel lines through a shared end point: that point is the only common point -/
theorem not_meetsQ_shared
    (hd0 : (x1 - x0) * (v1 - v0) - (y1 - y0) * (u1 - u0) ≠ 0)
    (hsh : (x0 = u0 ∧ y0 = v0) ∨ (x0 = u1 ∧ y0 = v1) ∨ (x1 = u0 ∧ y1 = v0) ∨ (x1 = u1 ∧ y1 = v1)) :
    ¬ MeetsQ x0 y0 x1 y1 u0 v0 u1 v1 := by
  rintro ⟨px, py, ⟨a, ha0, ha1, hpx, hpy⟩, ⟨b, hb0, hb1, hqx, hqy⟩, hnot⟩
  obtain ⟨hA, hB⟩ := cramer (hpx.symm.trans hqx) (hpy.symm.trans hqy)
  apply hnot
  rcases hsh with ⟨rfl, rfl⟩ | ⟨rfl, rfl⟩ | ⟨rfl, rfl⟩ | ⟨rfl, rfl⟩
  · have a0 : a = 0 := (mul_eq_zero.1 (by linear_combination hA)).resolve_right hd0
    have b0 : b = 0 := (mul_eq_zero.1 (by linear_combination hB)).resolve_right hd0
    subst a0 b0
    exact ⟨Or.inl ⟨by rw [hpx]; ring, by rw [hpy]; ring⟩, Or.inl ⟨by rw [hqx]; ring, by rw [hqy]; ring⟩⟩
  · have a0 : a = 0 := (mul_eq_zero.1 (by linear_combination hA)).resolve_right hd0
    have b0 : b - 1 = 0 := (mul_eq_zero.1 (by linear_combination hB)).resolve_right hd0
    have b1 : b = 1 := by linarith
    subst a0 b1
    exact ⟨Or.inl ⟨by rw [hpx]; ring, by rw [hpy]; ring⟩, Or.inr ⟨by rw [hqx]; ring, by rw [hqy]; ring⟩⟩
  · have a0 : a - 1 = 0 := (mul_eq_zero.1 (by linear_combination hA)).resolve_right hd0
    have b0 : b = 0 := (mul_eq_zero.1 (by linear_combination hB)).resolve_right hd0
    have a1 : a = 1 := by linarith
    subst a1 b0
    exact ⟨Or.inr ⟨by rw [hpx]; ring, by rw [hpy]; ring⟩, Or.inl ⟨by rw [hqx]; ring, by rw [hqy]; ring⟩⟩
  · have a0 : a - 1 = 0 := (mul_eq_zero.1 (by linear_combination hA)).resolve_right hd0
    have b0 : b - 1 = 0 := (mul_eq_zero.1 (by linear_combination hB)).resolve_right hd0
    have a1 : a = 1 := by linarith
    have b1 : b = 1 := by linarith
    subst a1 b1
    exact ⟨Or.inr ⟨by rw [hpx]; ring, by rw [hpy]; ring⟩, Or.inr ⟨by rw [hqx]; ring, by rw [hqy]; ring⟩⟩

/-- distinct parallel lines have no common point -/
theorem not_meetsQ_parallel
    (hd0 : (x1 - x0) * (v1 - v0) - (y1 - y0) * (u1 - u0) = 0)
    (hc : (x1 - x0) * (v0 - y0) - (y1 - y0) * (u0 - x0) ≠ 0) :
    ¬ MeetsQ x0 y0 x1 y1 u0 v0 u1 v1 := by
  rintro ⟨px, py, ⟨a, ha0, ha1, hpx, hpy⟩, ⟨b, hb0, hb1, hqx, hqy⟩, -⟩
  have hx := hpx.symm.trans hqx
  have hy := hpy.symm.trans hqy
  apply hc
  linear_combination (y1 - y0) * hx - (x1 - x0) * hy - b * hd0


/-! ### segments on a common line -/

theorem lexPos_of_ltQ (h : LtQ x0 y0 x1 y1) : LexPos (x1 - x0) (y1 - y0) := by
  rcases h with h | ⟨h1, h2⟩
  · exact Or.inl (by linarith)
  · exact Or.inr ⟨by linarith, by linarith⟩

theorem scal_zero {dx dy c : ℚ} (hpos : LexPos dx dy) (h1 : c * dx = 0) (h2 : c * dy = 0) :
    c = 0 := by
  rcases hpos with h | ⟨_, h⟩
  · exact (mul_eq_zero.1 h1).resolve_right h.ne'
  · exact (mul_eq_zero.1 h2).resolve_right h.ne'

/-- a point on the line through (x,y) with direction (dx,dy) has a parameter -/
theorem on_line {x y dx dy u v : ℚ} (hpos : LexPos dx dy)
    (hc : dx * (v - y) - dy * (u - x) = 0) :
    ∃ k : ℚ, u = x + k * dx ∧ v = y + k * dy := by
  rcases hpos with h | ⟨h0, h⟩
  · refine ⟨(u - x) / dx, ?_, ?_⟩
    · field_simp; ring
    · field_simp; linear_combination hc
  · subst h0
    refine ⟨(v - y) / dy, ?_, ?_⟩
    · have : u - x = 0 := by
        have h' : dy * (u - x) = 0 := by linear_combination -hc
        exact (mul_eq_zero.1 h').resolve_left h.ne'
      linarith
    · field_simp; ring

/-- along a lex-positive direction the location order is the order of the parameter -/
theorem ltQ_param {x y dx dy k k' ax ay bx by' : ℚ} (hpos : LexPos dx dy)
    (hax : ax = x + k * dx) (hay : ay = y + k * dy)
    (hbx : bx = x + k' * dx) (hby : by' = y + k' * dy) :
    LtQ ax ay bx by' ↔ k < k' := by
  subst hax hay hbx hby
  unfold LtQ
  rcases hpos with h | ⟨rfl, h⟩
  · constructor
    · rintro (h1 | ⟨h1, h2⟩)
      · by_contra hk
        rw [not_lt] at hk
        nlinarith
      · have : (k - k') * dx = 0 := by linear_combination h1
        have hk : k - k' = 0 := (mul_eq_zero.1 this).resolve_right h.ne'
        have : k = k' := by linarith
        subst this
        exact absurd h2 (lt_irrefl _)
    · intro hk
      left
      nlinarith
  · constructor
    · rintro (h1 | ⟨-, h2⟩)
      · simp at h1
      · by_contra hk
        rw [not_lt] at hk
        nlinarith
    · intro hk
      right
      exact ⟨by ring, by nlinarith⟩

/-- one-dimensional core, forward: a common parameter that is not an end of both -/
theorem one_d_fwd {k0 k1 a b : ℚ} (h01 : k0 < k1) (ha0 : 0 ≤ a) (ha1 : a ≤ 1) (hb0 : 0 ≤ b)
    (hb1 : b ≤ 1) (hab : a = k0 + b * (k1 - k0))
    (hne : ¬ ((a = 0 ∨ a = 1) ∧ (b = 0 ∨ b = 1))) : 0 < k1 ∧ k0 < 1 := by
  have h1 : k0 ≤ a := by nlinarith
  have h2 : a ≤ k1 := by nlinarith
  constructor
  · rcases lt_or_eq_of_le (le_trans ha0 h2) with h | h
    · exact h
    · exfalso
      apply hne
      have a0 : a = 0 := by linarith
      refine ⟨Or.inl a0, Or.inr ?_⟩
      have : (b - 1) * (k1 - k0) = 0 := by linear_combination (-1 : ℚ) * hab + a0 + h
      have := (mul_eq_zero.1 this).resolve_right (by linarith : k1 - k0 ≠ 0)
      linarith
  · rcases lt_or_eq_of_le (le_trans h1 ha1) with h | h
    · exact h
    · exfalso
      apply hne
      have a1 : a = 1 := by linarith
      refine ⟨Or.inr a1, Or.inl ?_⟩
      have : b * (k1 - k0) = 0 := by linear_combination (-1 : ℚ) * hab + a1 - h
      exact (mul_eq_zero.1 this).resolve_right (by linarith : k1 - k0 ≠ 0)

/-- one-dimensional core, backward: a witness strictly inside the first segment -/
theorem one_d_bwd {k0 k1 : ℚ} (h01 : k0 < k1) (h0 : 0 < k1) (h1 : k0 < 1) :
    ∃ a b : ℚ, 0 < a ∧ a < 1 ∧ 0 ≤ b ∧ b ≤ 1 ∧ a = k0 + b * (k1 - k0) := by
  have key : ∀ a : ℚ, 0 < a → a < 1 → k0 ≤ a → a ≤ k1 →
      ∃ a b : ℚ, 0 < a ∧ a < 1 ∧ 0 ≤ b ∧ b ≤ 1 ∧ a = k0 + b * (k1 - k0) := by
    intro a ha0 ha1 h2 h3
    have hpos : 0 < k1 - k0 := by linarith
    refine ⟨a, (a - k0) / (k1 - k0), ha0, ha1, div_nonneg (by linarith) hpos.le,
      (div_le_one hpos).2 (by linarith), ?_⟩
    field_simp
    ring
  rcases le_total 0 k0 with hk0 | hk0 <;> rcases le_total k1 1 with hk1 | hk1
  · exact key ((k0 + k1) / 2) (by linarith) (by linarith) (by linarith) (by linarith)
  · exact key ((k0 + 1) / 2) (by linarith) (by linarith) (by linarith) (by linarith)
  · exact key (k1 / 2) (by linarith) (by linarith) (by linarith) (by linarith)
  · exact key (1 / 2) (by norm_num) (by norm_num) (by linarith) (by linarith)


/-- two well-formed segments on a common line meet iff each starts strictly before the other
    one ends -/
theorem meetsQ_collinear (hp : LtQ x0 y0 x1 y1) (hq : LtQ u0 v0 u1 v1)
    (hd0 : (x1 - x0) * (v1 - v0) - (y1 - y0) * (u1 - u0) = 0)
    (hc : (x1 - x0) * (v0 - y0) - (y1 - y0) * (u0 - x0) = 0) :
    MeetsQ x0 y0 x1 y1 u0 v0 u1 v1 ↔ (LtQ x0 y0 u1 v1 ∧ LtQ u0 v0 x1 y1) := by
  have hpos := lexPos_of_ltQ hp
  obtain ⟨k0, hu0, hv0⟩ := on_line hpos hc
  have hc1 : (x1 - x0) * (v1 - y0) - (y1 - y0) * (u1 - x0) = 0 := by
    linear_combination hc + hd0
  obtain ⟨k1, hu1, hv1⟩ := on_line hpos hc1
  have h01 : k0 < k1 := (ltQ_param hpos hu0 hv0 hu1 hv1).1 hq
  rw [ltQ_param hpos (k := 0) (by ring) (by ring) hu1 hv1,
    ltQ_param hpos (k' := 1) hu0 hv0 (by ring) (by ring)]
  constructor
  · rintro ⟨px, py, ⟨a, ha0, ha1, hpx, hpy⟩, ⟨b, hb0, hb1, hqx, hqy⟩, hnot⟩
    have hx := hpx.symm.trans hqx
    have hy := hpy.symm.trans hqy
    rw [hu0, hu1] at hx
    rw [hv0, hv1] at hy
    have hab : a - (k0 + b * (k1 - k0)) = 0 :=
      scal_zero hpos (by linear_combination hx) (by linear_combination hy)
    refine one_d_fwd h01 ha0 ha1 hb0 hb1 (by linarith) ?_
    rintro ⟨ha, hb⟩
    apply hnot
    constructor
    · rcases ha with rfl | rfl
      · exact Or.inl ⟨by rw [hpx]; ring, by rw [hpy]; ring⟩
      · exact Or.inr ⟨by rw [hpx]; ring, by rw [hpy]; ring⟩
    · rcases hb with rfl | rfl
      · exact Or.inl ⟨by rw [hqx]; ring, by rw [hqy]; ring⟩
      · exact Or.inr ⟨by rw [hqx]; ring, by rw [hqy]; ring⟩
  · rintro ⟨h0, h1⟩
    obtain ⟨a, b, ha0, ha1, hb0, hb1, hab⟩ := one_d_bwd h01 h0 h1
    refine ⟨x0 + a * (x1 - x0), y0 + a * (y1 - y0), ⟨a, ha0.le, ha1.le, rfl, rfl⟩,
      ⟨b, hb0, hb1, ?_, ?_⟩, ?_⟩
    · rw [hu0, hu1, hab]; ring
    · rw [hv0, hv1, hab]; ring
    · rintro ⟨(⟨e1, e2⟩ | ⟨e1, e2⟩), -⟩
      · have : a = 0 := scal_zero hpos (by linear_combination e1) (by linear_combination e2)
        linarith
      · have : a - 1 = 0 := scal_zero hpos (by linear_combination e1) (by linear_combination e2)
        linarith


/-! ## evaluation of the model's branches -/

def dD (s t : Seg) : Int :=
  (s.second.x - s.first.x) * (t.second.y - t.first.y) - (s.second.y - s.first.y) * (t.second.x - t.first.x)
def nA (s t : Seg) : Int :=
  (t.second.x - t.first.x) * (s.first.y - t.first.y) - (t.second.y - t.first.y) * (s.first.x - t.first.x)
def nB (s t : Seg) : Int :=
  (s.second.x - s.first.x) * (s.first.y - t.first.y) - (s.second.y - s.first.y) * (s.first.x - t.first.x)
def cC (s t : Seg) : Int :=
  (s.second.x - s.first.x) * (t.first.y - s.first.y) - (s.second.y - s.first.y) * (t.first.x - s.first.x)

def sameB (s t : Seg) : Bool :=
  (s.first == t.first && s.second == t.second) || (s.first == t.second && s.second == t.first)
def sharedB (s t : Seg) : Bool :=
  s.first == t.first || s.first == t.second || s.second == t.first || s.second == t.second
def testsB (s t : Seg) : Bool :=
  (decide (dD s t > 0) && decide (nA s t ≥ 0) && decide (nA s t ≤ dD s t) && decide (nB s t ≥ 0) && decide (nB s t ≤ dD s t)) ||
  (decide (dD s t < 0) && decide (nA s t ≤ 0) && decide (nA s t ≥ dD s t) && decide (nB s t ≤ 0) && decide (nB s t ≥ dD s t))

theorem isect_eq (s t : Seg) :
    s.intersect? t =
      if sameB s t then false
      else if dD s t != 0 then (if sharedB s t then false else testsB s t)
      else if cC s t == 0 then (collinearCase s.first s.second t.first t.second).hit
      else false := by
  change (if sameB s t = true then IsectCase.same
      else if (dD s t != 0) = true then
        (if sharedB s t = true then IsectCase.endpointTouch
         else if testsB s t = true then IsectCase.cross else IsectCase.miss)
      else if (cC s t == 0) = true then collinearCase s.first s.second t.first t.second
      else IsectCase.parallel).hit = _
  cases sameB s t <;> cases (dD s t != 0) <;> cases sharedB s t <;> cases testsB s t <;>
    cases (cC s t == 0) <;> rfl


/-! ## integer ↔ rational bridges -/

theorem ltQ_cast (a b : Vec) : a.lt b = true ↔ LtQ a.x a.y b.x b.y := by
  rw [vlt_iff]; unfold LtQ; norm_cast

theorem vec_eq_cast (a b : Vec) : a = b ↔ ((a.x : ℚ) = b.x ∧ (a.y : ℚ) = b.y) := by
  rw [vec_ext_iff]; norm_cast

theorem dD_cast (s t : Seg) : ((dD s t : ℤ) : ℚ) =
    ((s.second.x : ℚ) - s.first.x) * (t.second.y - t.first.y)
      - ((s.second.y : ℚ) - s.first.y) * (t.second.x - t.first.x) := by
  simp only [dD]; push_cast; ring

theorem nA_cast (s t : Seg) : ((nA s t : ℤ) : ℚ) =
    ((t.second.x : ℚ) - t.first.x) * (s.first.y - t.first.y)
      - ((t.second.y : ℚ) - t.first.y) * (s.first.x - t.first.x) := by
  simp only [nA]; push_cast; ring

theorem nB_cast (s t : Seg) : ((nB s t : ℤ) : ℚ) =
    ((s.second.x : ℚ) - s.first.x) * (s.first.y - t.first.y)
      - ((s.second.y : ℚ) - s.first.y) * (s.first.x - t.first.x) := by
  simp only [nB]; push_cast; ring

theorem cC_cast (s t : Seg) : ((cC s t : ℤ) : ℚ) =
    ((s.second.x : ℚ) - s.first.x) * (t.first.y - s.first.y)
      - ((s.second.y : ℚ) - s.first.y) * (t.first.x - s.first.x) := by
  simp only [cC]; push_cast; ring

theorem sameB_false (s t : Seg) (hs : s.wf = true) (ht : t.wf = true) (hne : s ≠ t) :
    sameB s t = false := by
  rw [← Bool.not_eq_true]
  intro h
  simp only [sameB, Bool.or_eq_true, Bool.and_eq_true, beq_iff_eq] at h
  rcases h with ⟨h1, h2⟩ | ⟨h1, h2⟩
  · apply hne
    cases s; cases t; simp_all
  · unfold Seg.wf at hs ht
    rw [h1, h2] at hs
    rw [vlt_asymm ht] at hs
    exact Bool.false_ne_true hs

theorem sharedB_iff (s t : Seg) : sharedB s t = true ↔
    (((s.first.x : ℚ) = t.first.x ∧ (s.first.y : ℚ) = t.first.y) ∨
     ((s.first.x : ℚ) = t.second.x ∧ (s.first.y : ℚ) = t.second.y) ∨
     ((s.second.x : ℚ) = t.first.x ∧ (s.second.y : ℚ) = t.first.y) ∨
     ((s.second.x : ℚ) = t.second.x ∧ (s.second.y : ℚ) = t.second.y)) := by
  simp only [sharedB, Bool.or_eq_true, beq_iff_eq, vec_eq_cast, or_assoc]

theorem testsB_iff (s t : Seg) : testsB s t = true ↔
    (((0 : ℚ) < dD s t ∧ (0 : ℚ) ≤ nA s t ∧ (nA s t : ℚ) ≤ dD s t ∧ (0 : ℚ) ≤ nB s t ∧
        (nB s t : ℚ) ≤ dD s t) ∨
     ((dD s t : ℚ) < 0 ∧ (nA s t : ℚ) ≤ 0 ∧ (dD s t : ℚ) ≤ nA s t ∧ (nB s t : ℚ) ≤ 0 ∧
        (dD s t : ℚ) ≤ nB s t)) := by
  simp only [testsB, Bool.or_eq_true, Bool.and_eq_true, decide_eq_true_eq, and_assoc, gt_iff_lt,
    ge_iff_le]
  norm_cast

end AreaGeom

open AreaGeom

/-- correctness of the DECISION of calculate_intersection on well-formed, distinct segments -/
theorem intersect_correct (s t : Seg) (hs : s.wf = true) (ht : t.wf = true) (hne : s ≠ t) :
    s.intersect? t = true ↔ Meets s t := by
  rw [isect_eq, sameB_false s t hs ht hne, meets_iff_meetsQ]
  simp only [Bool.false_eq_true, if_false]
  have hp := (ltQ_cast _ _).1 hs
  have hq := (ltQ_cast _ _).1 ht
  by_cases hd : dD s t = 0
  · have hdQ := dD_cast s t
    rw [hd, Int.cast_zero] at hdQ
    have hdb : (dD s t != 0) = false := by simp [hd]
    rw [hdb]
    simp only [Bool.false_eq_true, if_false]
    by_cases hc : cC s t = 0
    · have hcQ := cC_cast s t
      rw [hc, Int.cast_zero] at hcQ
      have hcb : (cC s t == 0) = true := by simp [hc]
      have hne' : ¬ (s.first = t.first ∧ s.second = t.second) := by
        rintro ⟨h1, h2⟩; apply hne; cases s; cases t; simp_all
      rw [hcb, if_pos rfl, collinear_decision _ _ _ _ hs ht hne', Bool.and_eq_true, ltQ_cast,
        ltQ_cast]
      exact (meetsQ_collinear hp hq hdQ.symm hcQ.symm).symm
    · have hcb : (cC s t == 0) = false := by simp [hc]
      rw [hcb]
      simp only [Bool.false_eq_true, if_false, false_iff]
      refine not_meetsQ_parallel hdQ.symm ?_
      rw [← cC_cast]
      exact_mod_cast hc
  · have hdb : (dD s t != 0) = true := by simp [hd]
    have hdQ : ((dD s t : ℤ) : ℚ) ≠ 0 := by exact_mod_cast hd
    rw [hdb, if_pos rfl]
    by_cases hsh : sharedB s t = true
    · rw [if_pos hsh]
      simp only [Bool.false_eq_true, false_iff]
      rw [dD_cast] at hdQ
      exact not_meetsQ_shared hdQ ((sharedB_iff s t).1 hsh)
    · rw [if_neg hsh, testsB_iff]
      exact (meetsQ_nonpar (dD_cast s t) (nA_cast s t) (nB_cast s t) hdQ
        (fun h => hsh ((sharedB_iff s t).2 h))).symm

theorem intersect_self (s : Seg) : s.intersect? s = false := by
  rw [isect_eq]
  have : sameB s s = true := by simp [sameB]
  rw [this, if_pos rfl]

theorem intersect_symm (s t : Seg) (hs : s.wf = true) (ht : t.wf = true) :
    s.intersect? t = t.intersect? s := by
  by_cases hne : s = t
  · rw [hne]
  · rw [Bool.eq_iff_iff, intersect_correct s t hs ht hne,
      intersect_correct t s ht hs (fun h => hne h.symm)]
    exact meets_symm s t

namespace AreaGeom

/-- a convex combination lies between the end values -/
theorem between {a p q r : ℚ} (ha0 : 0 ≤ a) (ha1 : a ≤ 1) (h : r = p + a * (q - p)) :
    min p q ≤ r ∧ r ≤ max p q := by
  subst h
  rcases le_total p q with hpq | hpq
  · rw [min_eq_left hpq, max_eq_right hpq]
    constructor <;> nlinarith
  · rw [min_eq_right hpq, max_eq_left hpq]
    constructor <;> nlinarith

end AreaGeom

/-- a shared point forces the x ranges and the y ranges to overlap -/
theorem meets_x_range (s t : Seg) (hs : s.wf = true) (ht : t.wf = true) (h : Meets s t) :
    t.first.x ≤ s.second.x ∧ s.first.x ≤ t.second.x := by
  obtain ⟨px, py, ⟨a, ha0, ha1, hpx, -⟩, ⟨b, hb0, hb1, hqx, -⟩, -⟩ := h
  have h1 := between ha0 ha1 hpx
  have h2 := between hb0 hb1 hqx
  have hsx : (s.first.x : ℚ) ≤ s.second.x := by
    unfold Seg.wf at hs; rw [vlt_iff] at hs
    exact_mod_cast (show s.first.x ≤ s.second.x by omega)
  have htx : (t.first.x : ℚ) ≤ t.second.x := by
    unfold Seg.wf at ht; rw [vlt_iff] at ht
    exact_mod_cast (show t.first.x ≤ t.second.x by omega)
  rw [min_eq_left hsx, max_eq_right hsx] at h1
  rw [min_eq_left htx, max_eq_right htx] at h2
  constructor
  · exact_mod_cast le_trans h2.1 h1.2
  · exact_mod_cast le_trans h1.1 h2.2

theorem meets_y_range (s t : Seg) (h : Meets s t) : s.yRangeOverlap t = true := by
  obtain ⟨px, py, ⟨a, ha0, ha1, -, hpy⟩, ⟨b, hb0, hb1, -, hqy⟩, -⟩ := h
  have h1 := between ha0 ha1 hpy
  have h2 := between hb0 hb1 hqy
  have e1 : ((min s.first.y s.second.y : ℤ) : ℚ) ≤ ((max t.first.y t.second.y : ℤ) : ℚ) := by
    push_cast; exact le_trans h1.1 h2.2
  have e2 : ((min t.first.y t.second.y : ℤ) : ℚ) ≤ ((max s.first.y s.second.y : ℤ) : ℚ) := by
    push_cast; exact le_trans h2.1 h1.2
  have e1' : min s.first.y s.second.y ≤ max t.first.y t.second.y := by exact_mod_cast e1
  have e2' : min t.first.y t.second.y ≤ max s.first.y s.second.y := by exact_mod_cast e2
  simp only [Seg.yRangeOverlap, gt_iff_lt, Bool.not_eq_true', Bool.or_eq_false_iff,
    decide_eq_false_iff_not, not_lt]
  exact ⟨e1', e2'⟩

/-- what the sweep needs: an intersection is impossible outside the x range / y range -/
theorem intersect_ranges (s t : Seg) (hs : s.wf = true) (ht : t.wf = true)
    (h : s.intersect? t = true) :
    t.first.x ≤ s.second.x ∧ s.first.x ≤ t.second.x ∧ s.yRangeOverlap t = true := by
  have hne : s ≠ t := by
    rintro rfl
    rw [intersect_self] at h
    exact Bool.false_ne_true h
  have hm := (intersect_correct s t hs ht hne).1 h
  exact ⟨(meets_x_range s t hs ht hm).1, (meets_x_range s t hs ht hm).2, meets_y_range s t hm⟩

/-! ## non-vacuity: the hypotheses are satisfiable and both answers occur -/

/-- a proper crossing -/
example : Meets ⟨⟨0, 0⟩, ⟨2, 2⟩⟩ ⟨⟨0, 2⟩, ⟨2, 0⟩⟩ :=
  (intersect_correct _ _ (by decide) (by decide) (by decide)).1 (by decide)

/-- a T junction (end point of one segment inside the other) counts as meeting -/
example : Meets ⟨⟨0, 0⟩, ⟨2, 2⟩⟩ ⟨⟨1, 1⟩, ⟨2, 0⟩⟩ :=
  (intersect_correct _ _ (by decide) (by decide) (by decide)).1 (by decide)

/-- collinear overlap -/
example : Meets ⟨⟨0, 0⟩, ⟨2, 2⟩⟩ ⟨⟨1, 1⟩, ⟨3, 3⟩⟩ :=
  (intersect_correct _ _ (by decide) (by decide) (by decide)).1 (by decide)

/-- collinear segments that only share an end point do not meet -/
example : ¬ Meets ⟨⟨0, 0⟩, ⟨2, 2⟩⟩ ⟨⟨2, 2⟩, ⟨3, 3⟩⟩ := fun h =>
  absurd ((intersect_correct _ _ (by decide) (by decide) (by decide)).2 h) (by decide)

/-- `hne` is necessary: a segment meets itself, but the code answers "undefined" -/
example : Meets ⟨⟨0, 0⟩, ⟨2, 2⟩⟩ ⟨⟨0, 0⟩, ⟨2, 2⟩⟩ ∧
    Seg.intersect? ⟨⟨0, 0⟩, ⟨2, 2⟩⟩ ⟨⟨0, 0⟩, ⟨2, 2⟩⟩ = false :=
  ⟨⟨1, 1, ⟨1 / 2, by norm_num, by norm_num, by norm_num, by norm_num⟩,
      ⟨1 / 2, by norm_num, by norm_num, by norm_num, by norm_num⟩,
      by rintro ⟨h | h, -⟩ <;> norm_num at h⟩, intersect_self _⟩

end Osmium.Area
