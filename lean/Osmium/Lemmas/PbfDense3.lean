/-
DenseNodes round trip, part 3: the whole loop and `decode_dense_nodes` on `DenseNodes::serialize`.
-/
import Osmium.Lemmas.PbfDense2
import Osmium.Lemmas.PbfBytes

namespace Osmium.Pbf

open Osmium.Wire Osmium.Osm Osmium.PbfMsg
open Osmium.StringTable (Table lookup)

/-- rows and the nodes they stand for, all inside the value domain -/
def RowsRep (o : Opts) (T : List Bytes) : List DenseRow → List (Meta × Location) → Prop
  | [], [] => True
  | r :: rs, n :: ns => RowRep o T r n.1 n.2 ∧ MetaInDomain n.1 ∧ IdOk n.1.id ∧ LocOk n.2 ∧ RowsRep o T rs ns
  | _, _ => False

theorem curOf_ids_cons (o : Opts) (pv : Prev) (r : DenseRow) (rs : List DenseRow) :
    ∃ idv ids', (curOf o pv (r :: rs)).ids = idv :: ids' := ⟨_, _, rfl⟩

/-- the loop over all remaining rows -/
theorem denseLoop_rows (o : Opts) (T : List Bytes) (h : Bool)
    (hh : h = true ∨ (o.mdVersion = false ∧ o.mdTimestamp = false ∧ o.mdChangeset = false ∧ o.mdUid = false ∧
      o.mdUser = false ∧ o.history = false)) :
    ∀ (rows : List DenseRow) (nodes : List (Meta × Location)) (pv : Prev) (acc : List Object) (fuel : Nat),
    RowsRep o T rows nodes → PrevOk pv → rows.length ≤ fuel →
    denseLoop { strings := T } h fuel (curOf o pv rows) acc =
      some (acc.reverse ++ nodes.map fun n => projNode o n.1 n.2)
  | [], [], pv, acc, fuel, _, _, _ => by
    cases fuel with
    | zero =>
      have : ∀ c, denseLoop { strings := T } h 0 c acc = some acc.reverse := fun _ => rfl
      simp [this]
    | succ f => rw [denseLoop_succ]; simp [curOf, Delta.encGo]
  | [], _ :: _, _, _, _, hr, _, _ => by simp [RowsRep] at hr
  | _ :: _, [], _, _, _, hr, _, _ => by simp [RowsRep] at hr
  | r :: rs, n :: ns, pv, acc, fuel, hr, hpv, hf => by
    obtain ⟨f, rfl⟩ : ∃ f, fuel = f + 1 := ⟨fuel - 1, by simp at hf; omega⟩
    obtain ⟨hrep, hd, hid, hl, hrest⟩ := hr
    obtain ⟨hiter, hpv'⟩ := denseIter_row o T pv r rs n.1 n.2 hrep hpv hd hid hl
    obtain ⟨idv, ids', hids⟩ := curOf_ids_cons o pv r rs
    have ih := fun acc' => denseLoop_rows o T h hh rs ns (nextPrev o pv r) acc' f hrest hpv' (by simp at hf; omega)
    rcases hh with rfl | ⟨h1, h2, h3, h4, h5, h6⟩
    · rw [denseLoop_iter _ _ _ _ idv ids' hids, hiter, Option.bind_some]
      simp only [ih]
      simp
    · cases h with
      | true =>
        rw [denseLoop_iter _ _ _ _ idv ids' hids, hiter, Option.bind_some]
        simp only [ih]
        simp
      | false =>
        rw [denseLoop_iter_noinfo _ _ _ _ idv ids' hids (by simp [curOf, h1]) (by simp [curOf, h2]) (by simp [curOf, h3])
          (by simp [curOf, h4]) (by simp [curOf, h5]) (by simp [curOf, h6]), hiter, Option.bind_some]
        simp only [ih]
        simp

/-! ### `decode_dense_nodes` on `DenseNodes::serialize` -/

/-- the DenseInfo fields for a non-empty group -/
def infoF (o : Opts) (rows : List DenseRow) : List Field :=
  (if o.mdVersion then [fBytes 1 (pack (rows.map fun r => u64 (toInt32 r.version)))] else []) ++
  (if o.mdTimestamp then [fBytes 2 (pack ((Delta.encTimestamp (rows.map fun r => (r.timestamp : Int))).map zigzag64))] else []) ++
  (if o.mdChangeset then [fBytes 3 (pack ((Delta.encChangeset (rows.map fun r => (r.changeset : Int))).map zigzag64))] else []) ++
  (if o.mdUid then [fBytes 4 (pack ((Delta.encUid (rows.map fun r => (r.uid : Int))).map zigzag32))] else []) ++
  (if o.mdUser then [fBytes 5 (pack ((Delta.encUserSid (rows.map fun r => (r.userSid : Int))).map zigzag32))] else []) ++
  (if o.history then [fBytes 6 (pack (rows.map fun r => if r.visible then 1 else 0))] else [])

theorem encDense_shape (o : Opts) (r : DenseRow) (rs : List DenseRow) (ht : r.tags ≠ []) :
    encDense o (r :: rs) =
      [fBytes 1 (pack ((Delta.encId ((r :: rs).map (·.id))).map zigzag64))] ++
      (if o.anyMeta || o.history then [fBytes 5 (encodeFields (infoF o (r :: rs)))] else []) ++
      [fBytes 8 (pack ((Delta.encCoord ((r :: rs).map (·.lat))).map zigzag64)),
       fBytes 9 (pack ((Delta.encCoord ((r :: rs).map (·.lon))).map zigzag64)),
       fBytes 10 (pack ((r :: rs).flatMap fun r => r.tags.map fun i => u64 (toInt32 i)))] := by
  have hte : ((r :: rs).flatMap fun r => r.tags.map fun i => u64 (toInt32 i)).isEmpty = false := by
    cases htg : r.tags with
    | nil => exact absurd htg ht
    | cons a b => simp [htg]
  obtain ⟨d, mv, mt, mc, mu, mus, hist, low⟩ := o
  cases mv <;> cases mt <;> cases mc <;> cases mu <;> cases mus <;> cases hist <;>
    simp [encDense, infoF, fPacked, hte, Opts.anyMeta, Delta.encId, Delta.encCoord, Delta.encTimestamp, Delta.encChangeset,
      Delta.encUid, Delta.encUserSid, Delta.enc, Delta.encGo] <;>
    (intro h; exact absurd h ht)

theorem infoF_decode (o : Opts) (rows : List DenseRow) (s : DenseAcc) :
    decodeMsg denseInfoStep s (infoF o rows) = some { s with
      versions := if o.mdVersion then pack (rows.map fun r => u64 (toInt32 r.version)) else s.versions,
      timestamps := if o.mdTimestamp then pack ((Delta.encTimestamp (rows.map fun r => (r.timestamp : Int))).map zigzag64) else s.timestamps,
      changesets := if o.mdChangeset then pack ((Delta.encChangeset (rows.map fun r => (r.changeset : Int))).map zigzag64) else s.changesets,
      uids := if o.mdUid then pack ((Delta.encUid (rows.map fun r => (r.uid : Int))).map zigzag32) else s.uids,
      userSids := if o.mdUser then pack ((Delta.encUserSid (rows.map fun r => (r.userSid : Int))).map zigzag32) else s.userSids,
      visibles := if o.history then pack (rows.map fun r => if r.visible then 1 else 0) else s.visibles } := by
  obtain ⟨d, mv, mt, mc, mu, mus, hist, low⟩ := o
  cases mv <;> cases mt <;> cases mc <;> cases mu <;> cases mus <;> cases hist <;>
    simp [infoF, decodeMsg, denseInfoStep, fBytes]

theorem infoF_wf (o : Opts) (rows : List DenseRow) (hlen : (encodeFields (infoF o rows)).length < 2 ^ 32) :
    ∀ f ∈ infoF o rows, f.WF := by
  intro f hf
  have hp : f.wt = .lengthDelimited → f.payload.length < 2 ^ 32 := fun hw =>
    Nat.lt_of_le_of_lt (ld_payload_le f _ hf hw) hlen
  simp only [infoF, List.mem_append] at hf
  rcases hf with ((((hf | hf) | hf) | hf) | hf) | hf <;>
    (split at hf <;> simp at hf; subst hf; exact wf_bytes _ _ (by decide) (by decide) (hp rfl))

theorem unpack_opt (b : Bool) (L : List Nat) (h : ∀ v ∈ L, v < 2 ^ 64) :
    unpack (if b then pack L else []) = some (if b then L else []) := by
  cases b
  · rfl
  · simpa using unpack_pack L h

theorem zz64_bound (bits : Nat) (xs : List Int) (hb : bits = 64) : ∀ v ∈ (Delta.enc bits xs).map zigzag64, v < 2 ^ 64 := by
  subst hb
  intro v hv
  obtain ⟨d, hd, rfl⟩ := List.mem_map.mp hv
  have := encGo64_range xs 0 d hd
  exact zigzag_lt d this.1 this.2

theorem zz32_bound (xs : List Int) : ∀ v ∈ (Delta.enc 32 xs).map zigzag32, v < 2 ^ 64 := by
  intro v hv
  obtain ⟨d, _, rfl⟩ := List.mem_map.mp hv
  unfold zigzag32
  have : zigzag64 d % 2 ^ 32 < 2 ^ 32 := Nat.mod_lt _ (by decide)
  simp only [Nat.reducePow] at *; omega

/-- `decode_dense_nodes` gives back the projected nodes of a non-empty DenseNodes group -/
theorem dense_fields_roundtrip (o : Opts) (T : List Bytes) (r : DenseRow) (rs : List DenseRow)
    (nodes : List (Meta × Location)) (hrep : RowsRep o T (r :: rs) nodes)
    (hlen : (encodeFields (infoF o (r :: rs))).length < 2 ^ 32) :
    decodeDense { strings := T } {} (encDense o (r :: rs)) = some (nodes.map fun n => projNode o n.1 n.2) := by
  have ht : r.tags ≠ [] := by
    cases nodes with
    | nil => simp [RowsRep] at hrep
    | cons n ns =>
      obtain ⟨kv, hkv, _⟩ := hrep.1.tags
      rw [hkv]; simp
  rw [encDense_shape o r rs ht]
  unfold decodeDense
  have hstep : decodeMsg (denseStep {}) {} ([fBytes 1 (pack ((Delta.encId ((r :: rs).map (·.id))).map zigzag64))] ++
      (if o.anyMeta || o.history then [fBytes 5 (encodeFields (infoF o (r :: rs)))] else []) ++
      [fBytes 8 (pack ((Delta.encCoord ((r :: rs).map (·.lat))).map zigzag64)),
       fBytes 9 (pack ((Delta.encCoord ((r :: rs).map (·.lon))).map zigzag64)),
       fBytes 10 (pack ((r :: rs).flatMap fun r => r.tags.map fun i => u64 (toInt32 i)))]) =
      some { hasInfo := o.anyMeta || o.history,
             ids := pack ((Delta.encId ((r :: rs).map (·.id))).map zigzag64),
             lats := pack ((Delta.encCoord ((r :: rs).map (·.lat))).map zigzag64),
             lons := pack ((Delta.encCoord ((r :: rs).map (·.lon))).map zigzag64),
             tags := pack ((r :: rs).flatMap fun r => r.tags.map fun i => u64 (toInt32 i)),
             versions := if o.mdVersion then pack ((r :: rs).map fun r => u64 (toInt32 r.version)) else [],
             timestamps := if o.mdTimestamp then pack ((Delta.encTimestamp ((r :: rs).map fun r => (r.timestamp : Int))).map zigzag64) else [],
             changesets := if o.mdChangeset then pack ((Delta.encChangeset ((r :: rs).map fun r => (r.changeset : Int))).map zigzag64) else [],
             uids := if o.mdUid then pack ((Delta.encUid ((r :: rs).map fun r => (r.uid : Int))).map zigzag32) else [],
             userSids := if o.mdUser then pack ((Delta.encUserSid ((r :: rs).map fun r => (r.userSid : Int))).map zigzag32) else [],
             visibles := if o.history then pack ((r :: rs).map fun r => if r.visible then 1 else 0) else [] } := by
    generalize (r :: rs) = rows at hlen ⊢
    by_cases hc : (o.anyMeta || o.history) = true
    · simp only [hc, ↓reduceIte]
      simp only [decodeMsg, List.cons_append, List.nil_append, List.foldlM_cons, List.foldlM_nil, denseStep, fBytes,
        readFields_encodeFields _ (infoF_wf o rows hlen), bind, Option.bind, pure]
      have := infoF_decode o rows { hasInfo := true, ids := pack ((Delta.encId (rows.map (·.id))).map zigzag64) }
      simp only [decodeMsg] at this
      simp [this, hc]
    · have hoff := projectInfo_off o { id := 0 } (by simpa using hc)
      obtain ⟨d, mv, mt, mc, mu, mus, hist, low⟩ := o
      simp only [Opts.anyMeta, Bool.or_eq_true, not_or, Bool.not_eq_true] at hc
      obtain ⟨⟨⟨⟨⟨h1, h2⟩, h3⟩, h4⟩, h5⟩, h6⟩ := hc
      subst h1 h2 h3 h4 h5 h6
      simp [decodeMsg, denseStep, fBytes, Opts.anyMeta]
  rw [hstep]
  have u1 := unpack_pack _ (zz64_bound 64 ((r :: rs).map (·.id)) rfl)
  have u2 := unpack_pack _ (zz64_bound 64 ((r :: rs).map (·.lat)) rfl)
  have u3 := unpack_pack _ (zz64_bound 64 ((r :: rs).map (·.lon)) rfl)
  have u4 : unpack (pack ((r :: rs).flatMap fun r => r.tags.map fun i => u64 (toInt32 i))) = some _ :=
    unpack_pack _ (fun v hv => by
      obtain ⟨a, _, hv'⟩ := List.mem_flatMap.mp hv
      obtain ⟨b, _, rfl⟩ := List.mem_map.mp hv'
      exact u64_lt _)
  have u5 := unpack_opt o.mdVersion ((r :: rs).map fun r => u64 (toInt32 r.version)) (fun v hv => by
      obtain ⟨b, _, rfl⟩ := List.mem_map.mp hv; exact u64_lt _)
  have u6 := unpack_opt o.mdTimestamp _ (zz64_bound 64 ((r :: rs).map fun r => (r.timestamp : Int)) rfl)
  have u7 := unpack_opt o.mdChangeset _ (zz64_bound 64 ((r :: rs).map fun r => (r.changeset : Int)) rfl)
  have u8 := unpack_opt o.mdUid _ (zz32_bound ((r :: rs).map fun r => (r.uid : Int)))
  have u9 := unpack_opt o.mdUser _ (zz32_bound ((r :: rs).map fun r => (r.userSid : Int)))
  have u10 := unpack_opt o.history ((r :: rs).map fun r => if r.visible then 1 else 0) (fun v hv => by
      obtain ⟨b, _, rfl⟩ := List.mem_map.mp hv; split <;> decide)
  simp only [Delta.encId, Delta.encCoord, Delta.encTimestamp, Delta.encChangeset, Delta.encUid, Delta.encUserSid] at *
  simp only [bind, Option.bind, pure, u1, u2, u3, u4, u5, u6, u7, u8, u9, u10]
  change denseLoop { strings := T } (o.anyMeta || o.history) _ (curOf o {} (r :: rs)) [] = _
  have hh : (o.anyMeta || o.history) = true ∨ (o.mdVersion = false ∧ o.mdTimestamp = false ∧ o.mdChangeset = false ∧
      o.mdUid = false ∧ o.mdUser = false ∧ o.history = false) := by
    obtain ⟨d, mv, mt, mc, mu, mus, hist, low⟩ := o
    cases mv <;> cases mt <;> cases mc <;> cases mu <;> cases mus <;> cases hist <;> simp [Opts.anyMeta]
  have hpv : PrevOk {} := by
    refine ⟨?_, ?_, ?_, ?_, ?_, ?_, ?_⟩ <;> (first | (unfold IdOk; simp) | simp)
  have := denseLoop_rows o T (o.anyMeta || o.history) hh (r :: rs) nodes {} []
    (((Delta.enc 64 ((r :: rs).map (·.id))).map zigzag64).length + 1) hrep hpv (by simp [Delta.enc_length])
  simpa using this

/-- bytes level: the serialized DenseNodes message parsed again -/
theorem dense_bytes_roundtrip (o : Opts) (T : List Bytes) (r : DenseRow) (rs : List DenseRow)
    (nodes : List (Meta × Location)) (hrep : RowsRep o T (r :: rs) nodes)
    (hlen : (encodeFields (encDense o (r :: rs))).length < 2 ^ 32) :
    withFields (encodeFields (encDense o (r :: rs))) (decodeDense { strings := T } {}) =
      some (nodes.map fun n => projNode o n.1 n.2) := by
  have ht : r.tags ≠ [] := by
    cases nodes with
    | nil => simp [RowsRep] at hrep
    | cons n ns =>
      obtain ⟨kv, hkv, _⟩ := hrep.1.tags
      rw [hkv]; simp
  have hpl : ∀ f ∈ encDense o (r :: rs), f.wt = .lengthDelimited → f.payload.length < 2 ^ 32 := fun f hf hw =>
    Nat.lt_of_le_of_lt (ld_payload_le f _ hf hw) hlen
  have hwf : ∀ f ∈ encDense o (r :: rs), f.WF := by
    intro f hf
    have hp := hpl f hf
    rw [encDense_shape o r rs ht] at hf
    simp only [List.mem_append, List.mem_cons, List.not_mem_nil, or_false] at hf
    rcases hf with ((rfl | hf) | (rfl | rfl | rfl))
    · exact wf_bytes _ _ (by decide) (by decide) (hp rfl)
    · split at hf <;> simp at hf
      subst hf; exact wf_bytes _ _ (by decide) (by decide) (hp rfl)
    · exact wf_bytes _ _ (by decide) (by decide) (hp rfl)
    · exact wf_bytes _ _ (by decide) (by decide) (hp rfl)
    · exact wf_bytes _ _ (by decide) (by decide) (hp rfl)
  have hinfo : (encodeFields (infoF o (r :: rs))).length < 2 ^ 32 := by
    by_cases hc : (o.anyMeta || o.history) = true
    · have hm : fBytes 5 (encodeFields (infoF o (r :: rs))) ∈ encDense o (r :: rs) := by
        rw [encDense_shape o r rs ht]; simp [hc]
      exact hpl _ hm rfl
    · have hoff := projectInfo_off o { id := 0 } (by simpa using hc)
      obtain ⟨d, mv, mt, mc, mu, mus, hist, low⟩ := o
      simp only [Opts.anyMeta, Bool.or_eq_true, not_or, Bool.not_eq_true] at hc
      obtain ⟨⟨⟨⟨⟨h1, h2⟩, h3⟩, h4⟩, h5⟩, h6⟩ := hc
      subst h1 h2 h3 h4 h5 h6
      simp [infoF, encodeFields]
  unfold withFields
  rw [readFields_encodeFields _ hwf]
  exact dense_fields_roundtrip o T r rs nodes hrep hinfo

/-! ### `DenseNodes::add_node` establishes the row representation -/

theorem addAll_pos : ∀ (ss : List Bytes) (t : Table), ∀ i ∈ (t.addAll ss).1, 0 < i
  | [], _ => by simp [Table.addAll]
  | s :: ss, t => by
    intro i hi
    simp only [Table.addAll, List.mem_cons] at hi
    rcases hi with rfl | hi
    · exact StringTable.add_pos t s
    · exact addAll_pos ss _ i hi

/-- the row `add_node` appends represents the node for every reader table extending the block's table
    (of at most 2^31 entries) after the add -/
theorem denseAdd_rep (o : Opts) (t : Table) (m : Meta) (l : Location) (T : List Bytes)
    (hT : Ext (denseAdd o t m l).2.strings T) (hsz : (denseAdd o t m l).2.size ≤ 2 ^ 31) :
    RowRep o T (denseAdd o t m l).1 m l := by
  unfold denseAdd at hT hsz ⊢
  by_cases hus : o.mdUser = true
  · simp only [hus, ↓reduceIte] at hT hsz ⊢
    have x2 := ext_addAll (t.add m.user).2 (m.tags.flatMap fun tg => [tg.key, tg.value])
    have s2 := size_addAll_le (m.tags.flatMap fun tg => [tg.key, tg.value]) (t.add m.user).2
    have k2 := StringTable.addAll_lookup (m.tags.flatMap fun tg => [tg.key, tg.value]) (t.add m.user).2
    have l2 := addAll_lt (m.tags.flatMap fun tg => [tg.key, tg.value]) (t.add m.user).2
    have p2 := addAll_pos (m.tags.flatMap fun tg => [tg.key, tg.value]) (t.add m.user).2
    have a1 := StringTable.add_lookup t m.user
    have b1 := add_lt t m.user
    refine ⟨rfl, rfl, rfl, rfl, rfl, rfl, rfl, rfl, ?_, fun _ => hT _ _ (x2 _ _ a1), ⟨_, rfl, map_get_ext hT _ _ k2, fun i hi => ⟨p2 i hi, ?_⟩⟩⟩
    · simp only [Nat.reducePow] at *; omega
    · have := l2 i hi; simp only [Nat.reducePow] at *; omega
  · simp only [hus, Bool.false_eq_true, ↓reduceIte] at hT hsz ⊢
    have k2 := StringTable.addAll_lookup (m.tags.flatMap fun tg => [tg.key, tg.value]) t
    have l2 := addAll_lt (m.tags.flatMap fun tg => [tg.key, tg.value]) t
    have p2 := addAll_pos (m.tags.flatMap fun tg => [tg.key, tg.value]) t
    refine ⟨rfl, rfl, rfl, rfl, rfl, rfl, rfl, rfl, by simp, fun h => absurd h hus, ⟨_, rfl, map_get_ext hT _ _ k2, fun i hi => ⟨p2 i hi, ?_⟩⟩⟩
    have := l2 i hi; simp only [Nat.reducePow] at *; omega

/-- a representation stays valid for every larger reader table -/
theorem RowRep.mono {o : Opts} {T T' : List Bytes} {r : DenseRow} {m : Meta} {l : Location}
    (h : RowRep o T r m l) (hx : Ext T T') : RowRep o T' r m l := by
  obtain ⟨kv, h1, h2, h3⟩ := h.tags
  exact ⟨h.id, h.version, h.timestamp, h.changeset, h.uid, h.visible, h.lat, h.lon, h.sid,
    fun hu => hx _ _ (h.user hu), ⟨kv, h1, map_get_ext hx _ _ h2, h3⟩⟩

end Osmium.Pbf
