/-
`src_tie_*` lemmas for the OPL un-escaping path (phase 4 of the translator: functions that BUILD A STRING),
`osmium::io::detail::append_codepoint_as_utf8(uint32_t, std::back_insert_iterator<std::string>)` (io/detail/string_util.hpp),
`opl_parse_escaped(const char**, std::string&)` and `opl_parse_string(const char**, std::string&)`
(io/detail/opl_parser_functions.hpp), TRANSLATED by tools/cxx2lean.py (`Src.StringUtil.append_codepoint_as_utf8`,
`Src.OplParserFunctions.opl_parse_escaped / opl_parse_string` with their loops), against the models `Utf8.encode`,
`Opl.parseEscaped`, `Opl.parseStringLoop` / `Opl.parseString` (Osmium/Model/Utf8.lean, Escape.lean) of the C14 theorems.
The byte array is `s ++ 0 :: t`; a cursor is the index `i ≤ s.length`, the model's input is `s.drop i`; the output string
is a byte list in the state of the outcome (`(cursor cell, string)`), the model returns the bytes appended.
-/
import Osmium.Model.Escape
import Osmium.Lemmas.SrcTieCoord

set_option Elab.async false
set_option linter.unusedSimpArgs false

namespace Osmium.SrcTie.Esc

open Osmium.Generated Osmium.CxxSem Osmium.Conv Osmium.Cursor Osmium.SrcTie.Coord
open Src.StringUtil Src.OplParserFunctions

/-! ### `append_codepoint_as_utf8` = `Utf8.encode` -/

/-- `split` on the next generated `if`; impossible branches are closed by linear arithmetic -/
macro "split_e" : tactic =>
  `(tactic| (split <;> (rename_i hc; (try cond_norm at hc); try (exfalso; omega))))

/-- the bit operations of the encoder on a natural number, as a natural number -/
macro "enc_bytes" : tactic =>
  `(tactic| simp only [push, byteOf_wrapS8, band, bor, shr, Int.toNat_natCast, Int.reduceToNat, byteOf_nat,
      List.append_assoc, List.cons_append, List.nil_append])

theorem src_tie_append_codepoint_as_utf8 (cp : Nat) (out : List UInt8) :
    append_codepoint_as_utf8 (cp : Int) out = .normal (out ++ Utf8.encode cp) () ∧
    append_codepoint_as_utf8_defined (cp : Int) out = true := by
  constructor
  · unfold append_codepoint_as_utf8 Utf8.encode
    by_cases h1 : cp < 0x80
    · rw [if_pos h1]
      repeat' split_e
      all_goals enc_bytes
    · rw [if_neg h1]
      by_cases h2 : cp < 0x800
      · rw [if_pos h2]
        repeat' split_e
        all_goals enc_bytes
      · rw [if_neg h2]
        by_cases h3 : cp < 0x10000
        · rw [if_pos h3]
          repeat' split_e
          all_goals enc_bytes
        · rw [if_neg h3]
          repeat' split_e
          all_goals enc_bytes
  · unfold append_codepoint_as_utf8_defined
    have e1 : shiftOk 32 6 = true := by decide
    have e2 : shiftOk 32 12 = true := by decide
    have e3 : shiftOk 32 18 = true := by decide
    simp only [e1, e2, e3, Bool.true_and, Bool.and_true, ite_self]

/-- `split` on the next generated `if`; the new hypothesis is kept in arithmetic form, impossible branches are closed -/
macro "split_n" : tactic =>
  `(tactic| (split <;> (rename_i hc; (try cond_norm at hc); try (first | (exfalso; omega) | (exfalso; exact hc trivial)))))

/-! ### `opl_parse_escaped` = `Opl.parseEscaped 8 0` -/

theorem hexVal_cases (c : UInt8) :
    (48 ≤ c.toNat ∧ c.toNat ≤ 57 ∧ Opl.hexVal c = some (c.toNat - 48)) ∨
    (97 ≤ c.toNat ∧ c.toNat ≤ 102 ∧ Opl.hexVal c = some (c.toNat - 97 + 10)) ∨
    (65 ≤ c.toNat ∧ c.toNat ≤ 70 ∧ Opl.hexVal c = some (c.toNat - 65 + 10)) ∨
    ((c.toNat < 48 ∨ 57 < c.toNat) ∧ (c.toNat < 97 ∨ 102 < c.toNat) ∧ (c.toNat < 65 ∨ 70 < c.toNat) ∧ Opl.hexVal c = none) := by
  unfold Opl.hexVal
  by_cases h1 : 0x30 ≤ c.toNat ∧ c.toNat ≤ 0x39
  · refine Or.inl ⟨h1.1, h1.2, ?_⟩; simp only [h1, and_self, if_true]
  · by_cases h2 : 0x61 ≤ c.toNat ∧ c.toNat ≤ 0x66
    · refine Or.inr (Or.inl ⟨h2.1, h2.2, ?_⟩); simp only [h1, h2, and_self, if_true, if_false]
    · by_cases h3 : 0x41 ≤ c.toNat ∧ c.toNat ≤ 0x46
      · refine Or.inr (Or.inr (Or.inl ⟨h3.1, h3.2, ?_⟩)); simp only [h1, h2, h3, and_self, if_true, if_false]
      · refine Or.inr (Or.inr (Or.inr ⟨by omega, by omega, by omega, ?_⟩)); simp only [h1, h2, h3, if_false]

theorem parseEscaped_zero (v : Nat) (l : List UInt8) : Opl.parseEscaped 0 v l = .error .tooLong := by
  simp only [Opl.parseEscaped]

theorem parseEscaped_nil (n v : Nat) : Opl.parseEscaped (n + 1) v [] = .error .eol := by
  simp only [Opl.parseEscaped]

theorem parseEscaped_cons (n v : Nat) (c : UInt8) (u : List UInt8) :
    Opl.parseEscaped (n + 1) v (c :: u) =
      if c = 0 then .error .eol
      else if c = 0x25 then .ok (if v = 0 then [0x25] else Utf8.encode v, u)
      else match Opl.hexVal c with
        | none => .error .notHex
        | some d => Opl.parseEscaped n (((v <<< 4) % 2 ^ 32) + d) u := by
  rfl

/-- a model result as what the translated loop delivers: the escape is complete (`return` inside the loop with the
    cursor cell set behind the closing '%' and the bytes appended), an error (`throw` inside the loop: cell and string
    untouched), or eight hex digits without a closing '%' (the loop ends; the function throws after it) -/
def EscFlow (s : List UInt8) (data : Int) (result : List UInt8) (i : Nat) :
    Except Opl.PErr (List UInt8 × List UInt8) → Flow (Int × Buf) (Int × Buf × Int × Int × Int) Unit → Prop
  | .ok (p, rest), fl => ∃ j, i < j ∧ j ≤ s.length ∧ rest = s.drop j ∧ fl = .exit (.normal ((j : Int), result ++ p) ())
  | .error .tooLong, fl => ∃ j v l, fl = .next (data, result, j, v, l)
  | .error .eol, fl => fl = .exit (.thrown "osmium::opl_error" (data, result))
  | .error .notHex, fl => fl = .exit (.thrown "osmium::opl_error" (data, result))

theorem EscFlow_mono (s : List UInt8) (data : Int) (result : List UInt8) (i i' : Nat) (m) (fl) (h : i ≤ i')
    (hr : EscFlow s data result i' m fl) : EscFlow s data result i m fl := by
  cases m with
  | error e => cases e <;> exact hr
  | ok p => obtain ⟨p, rest⟩ := p; obtain ⟨j, h1, h2, h3, h4⟩ := hr; exact ⟨j, by omega, h2, h3, h4⟩

theorem exit_normal_congr {α : Type} {a a' : Int} {b b' : Buf} (h1 : a = a') (h2 : b = b') :
    (Flow.exit (.normal (a, b) ()) : Flow (Int × Buf) α Unit) = .exit (.normal (a', b') ()) := by subst h1 h2; rfl

theorem push_pct (r : Buf) : push r 37 = r ++ [0x25] := rfl

/-- the accumulator after a hex digit: `value <<= 4; value += d` in `uint32_t` never wraps in the addition -/
theorem hex_acc (value : Nat) (d : Int) (dn : Nat) (hd : d = (dn : Int)) (hdn : dn < 16) :
    wrapU 32 (shl 32 (value : Int) 4 + wrapU 32 d) = (((value <<< 4) % 2 ^ 32 + dn : Nat) : Int) := by
  subst hd
  have e : (2 : Int) ^ 32 = 4294967296 := by decide
  have e' : (2 : Nat) ^ 32 = 4294967296 := by decide
  have e4 : (2 : Nat) ^ 4 = 16 := by decide
  unfold shl wrapU
  rw [e, e', Int.toNat_natCast, Nat.shiftLeft_eq]
  have : (4 : Int).toNat = 4 := rfl
  rw [this, e4]
  omega

theorem hex_acc_lt (value dn : Nat) (hdn : dn < 16) : (value <<< 4) % 2 ^ 32 + dn < 4294967296 := by
  have e' : (2 : Nat) ^ 32 = 4294967296 := by decide
  have e4 : (2 : Nat) ^ 4 = 16 := by decide
  rw [Nat.shiftLeft_eq, e', e4]; omega

macro "bool_clean" : tactic =>
  `(tactic| simp only [Bool.true_and, Bool.and_true, Bool.or_true, Bool.true_or, Bool.and_self, Bool.not_true, Bool.not_false,
      Flow.andThen_next, Flow.andThen_exit, Flow.bind_next, Flow.bind_exit])

/-- the loop `while (++length <= max_length)` of `opl_parse_escaped`: `n` = iterations left -/
theorem src_tie_opl_parse_escaped_loop_val (s t : List UInt8) (data : Int) (result : List UInt8) :
    ∀ (n i value fuel : Nat) (iI vI mI lI : Int), iI = (i : Int) → vI = (value : Int) → mI = 8 → lI = 8 - (n : Int) → n ≤ 8 →
      i ≤ s.length → n < fuel → value < 4294967296 →
      EscFlow s data result i (Opl.parseEscaped n value (s.drop i))
        (opl_parse_escaped.loop_1 fuel (s ++ 0 :: t) data result iI vI mI lI) := by
  intro n
  induction n with
  | zero =>
    intro i value fuel iI vI mI lI hiI hvI hmI hlI hn hi hf hv
    subst hiI hvI hmI hlI
    obtain ⟨f, rfl⟩ : ∃ f, fuel = f + 1 := ⟨fuel - 1, by omega⟩
    rw [parseEscaped_zero]
    unfold opl_parse_escaped.loop_1
    dsimp only
    split_ok
    exact ⟨_, _, _, rfl⟩
  | succ n ih =>
    intro i value fuel iI vI mI lI hiI hvI hmI hlI hn hi hf hv
    subst hiI hvI hmI hlI
    obtain ⟨f, rfl⟩ : ∃ f, fuel = f + 1 := ⟨fuel - 1, by omega⟩
    have hrd := rdS_cbuf s t i hi
    have hin := inB_cbuf s t i hi
    cases hd : s.drop i with
    | nil =>
      rw [hd, peek_nil] at hrd
      have hsc := sc_cases (0 : UInt8)
      simp only [zero_toNat] at hsc
      rw [parseEscaped_nil]
      unfold opl_parse_escaped.loop_1
      simp only [hrd]
      repeat' split_n
      all_goals rfl
    | cons c u =>
      obtain ⟨hlt, hu⟩ := drop_cons s i c u hd
      have hp1 := ptrOk_cbuf s t (i + 1) (by omega)
      rw [hd, peek_cons] at hrd
      have hsc := sc_cases c
      have hc0 : c = 0 ↔ c.toNat = 0 := eq_char_iff c 0
      have hc25 : c = 0x25 ↔ c.toNat = 37 := eq_char_iff c 0x25
      rw [parseEscaped_cons]
      by_cases h0 : c = 0
      · -- a NUL inside the array: "eol"
        have h0' := hc0.mp h0
        rw [if_pos h0]
        unfold opl_parse_escaped.loop_1
        simp only [hrd]
        repeat' split_n
        all_goals rfl
      · have h0' : ¬ c.toNat = 0 := fun e => h0 (hc0.mpr e)
        rw [if_neg h0]
        by_cases h25 : c = 0x25
        · -- the closing '%'
          have h25' := hc25.mp h25
          rw [if_pos h25]
          have hA := src_tie_append_codepoint_as_utf8 value result
          unfold opl_parse_escaped.loop_1
          simp only [hrd, hA.1, Flow.callVia_normal]
          repeat' split_n
          all_goals simp only [Flow.bind_next]
          all_goals exact ⟨i + 1, by omega, by omega, hu.symm, exit_normal_congr (by omega) (by first | rfl | exact push_pct result)⟩
        · have h25' : ¬ c.toNat = 37 := fun e => h25 (hc25.mpr e)
          rw [if_neg h25]
          have ih' := fun (v' : Nat) (hv' : v' < 4294967296) iI vI mI lI h1 h2 h3 h4 =>
            ih (i + 1) v' f iI vI mI lI h1 h2 h3 h4 (by omega) (by omega) (by omega) hv'
          rw [← hu]
          rcases hexVal_cases c with ⟨ha, hb, hx⟩ | ⟨ha, hb, hx⟩ | ⟨ha, hb, hx⟩ | ⟨ha, hb, hc, hx⟩
          all_goals rw [hx]
          all_goals dsimp only
          · unfold opl_parse_escaped.loop_1
            simp only [hrd]
            repeat' split_n
            all_goals simp only [Flow.bind_next]
            all_goals refine EscFlow_mono s data result i (i + 1) _ _ (by omega) (ih' ((value <<< 4) % 2 ^ 32 + (c.toNat - 48)) (hex_acc_lt value _ (by omega)) _ _ _ _ ?_ ?_ ?_ ?_)
            all_goals first | omega | exact hex_acc value _ (c.toNat - 48) (by omega) (by omega)
          · unfold opl_parse_escaped.loop_1
            simp only [hrd]
            repeat' split_n
            all_goals simp only [Flow.bind_next]
            all_goals refine EscFlow_mono s data result i (i + 1) _ _ (by omega) (ih' ((value <<< 4) % 2 ^ 32 + (c.toNat - 97 + 10)) (hex_acc_lt value _ (by omega)) _ _ _ _ ?_ ?_ ?_ ?_)
            all_goals first | omega | exact hex_acc value _ (c.toNat - 97 + 10) (by omega) (by omega)
          · unfold opl_parse_escaped.loop_1
            simp only [hrd]
            repeat' split_n
            all_goals simp only [Flow.bind_next]
            all_goals refine EscFlow_mono s data result i (i + 1) _ _ (by omega) (ih' ((value <<< 4) % 2 ^ 32 + (c.toNat - 65 + 10)) (hex_acc_lt value _ (by omega)) _ _ _ _ ?_ ?_ ?_ ?_)
            all_goals first | omega | exact hex_acc value _ (c.toNat - 65 + 10) (by omega) (by omega)
          · -- "not a hex char"
            unfold opl_parse_escaped.loop_1
            simp only [hrd]
            repeat' split_n
            all_goals simp only [Flow.bind_exit]
            all_goals rfl


/-- the loop `while (++length <= max_length)` of `opl_parse_escaped`: `n` = iterations left -/
theorem src_tie_opl_parse_escaped_loop_def (s t : List UInt8) (data : Int) (result : List UInt8) :
    ∀ (n i value fuel : Nat) (iI vI mI lI : Int), iI = (i : Int) → vI = (value : Int) → mI = 8 → lI = 8 - (n : Int) → n ≤ 8 →
      i ≤ s.length → n < fuel → value < 4294967296 →
      opl_parse_escaped.loop_1_defined fuel (s ++ 0 :: t) data result iI vI mI lI = true := by
  intro n
  induction n with
  | zero =>
    intro i value fuel iI vI mI lI hiI hvI hmI hlI hn hi hf hv
    subst hiI hvI hmI hlI
    obtain ⟨f, rfl⟩ : ∃ f, fuel = f + 1 := ⟨fuel - 1, by omega⟩
    unfold opl_parse_escaped.loop_1_defined
    dsimp only
    split_ok
    defined_split
    all_goals omega
  | succ n ih =>
    intro i value fuel iI vI mI lI hiI hvI hmI hlI hn hi hf hv
    subst hiI hvI hmI hlI
    obtain ⟨f, rfl⟩ : ∃ f, fuel = f + 1 := ⟨fuel - 1, by omega⟩
    have hrd := rdS_cbuf s t i hi
    have hin := inB_cbuf s t i hi
    cases hd : s.drop i with
    | nil =>
      rw [hd, peek_nil] at hrd
      have hsc := sc_cases (0 : UInt8)
      simp only [zero_toNat] at hsc
      unfold opl_parse_escaped.loop_1_defined
      simp only [hrd, hin]
      repeat' split_n
      all_goals bool_clean
      all_goals (try defined_split)
      all_goals omega
    | cons c u =>
      obtain ⟨hlt, hu⟩ := drop_cons s i c u hd
      have hp1 := ptrOk_cbuf s t (i + 1) (by omega)
      rw [hd, peek_cons] at hrd
      have hsc := sc_cases c
      have hc0 : c = 0 ↔ c.toNat = 0 := eq_char_iff c 0
      have hc25 : c = 0x25 ↔ c.toNat = 37 := eq_char_iff c 0x25
      by_cases h0 : c = 0
      · -- a NUL inside the array: "eol"
        have h0' := hc0.mp h0
        unfold opl_parse_escaped.loop_1_defined
        simp only [hrd, hin]
        repeat' split_n
        all_goals bool_clean
        all_goals (try defined_split)
        all_goals omega
      · have h0' : ¬ c.toNat = 0 := fun e => h0 (hc0.mpr e)
        by_cases h25 : c = 0x25
        · -- the closing '%'
          have h25' := hc25.mp h25
          have hA := src_tie_append_codepoint_as_utf8 value result
          unfold opl_parse_escaped.loop_1_defined
          simp only [hrd, hin, hA.2]
          repeat' split_n
          all_goals bool_clean
          all_goals (try defined_split)
          all_goals first | (rw [idx_succ]; exact hp1) | omega | decide
        · have h25' : ¬ c.toNat = 37 := fun e => h25 (hc25.mpr e)
          have ih' := fun (v' : Nat) (hv' : v' < 4294967296) iI vI mI lI h1 h2 h3 h4 =>
            ih (i + 1) v' f iI vI mI lI h1 h2 h3 h4 (by omega) (by omega) (by omega) hv'
          rcases hexVal_cases c with ⟨ha, hb, hx⟩ | ⟨ha, hb, hx⟩ | ⟨ha, hb, hx⟩ | ⟨ha, hb, hc, hx⟩
          · unfold opl_parse_escaped.loop_1_defined
            simp only [hrd, hin]
            repeat' split_n
            all_goals bool_clean
            all_goals (try defined_split)
            all_goals first
              | (refine (ih' ((value <<< 4) % 2 ^ 32 + (c.toNat - 48)) (hex_acc_lt value _ (by omega)) _ _ _ _ ?_ ?_ ?_ ?_) <;>
                  first | omega | exact hex_acc value _ (c.toNat - 48) (by omega) (by omega))
              | (rw [idx_succ]; exact hp1) | omega | decide
          · unfold opl_parse_escaped.loop_1_defined
            simp only [hrd, hin]
            repeat' split_n
            all_goals bool_clean
            all_goals (try defined_split)
            all_goals first
              | (refine (ih' ((value <<< 4) % 2 ^ 32 + (c.toNat - 97 + 10)) (hex_acc_lt value _ (by omega)) _ _ _ _ ?_ ?_ ?_ ?_) <;>
                  first | omega | exact hex_acc value _ (c.toNat - 97 + 10) (by omega) (by omega))
              | (rw [idx_succ]; exact hp1) | omega | decide
          · unfold opl_parse_escaped.loop_1_defined
            simp only [hrd, hin]
            repeat' split_n
            all_goals bool_clean
            all_goals (try defined_split)
            all_goals first
              | (refine (ih' ((value <<< 4) % 2 ^ 32 + (c.toNat - 65 + 10)) (hex_acc_lt value _ (by omega)) _ _ _ _ ?_ ?_ ?_ ?_) <;>
                  first | omega | exact hex_acc value _ (c.toNat - 65 + 10) (by omega) (by omega))
              | (rw [idx_succ]; exact hp1) | omega | decide
          · -- "not a hex char"
            unfold opl_parse_escaped.loop_1_defined
            simp only [hrd, hin]
            repeat' split_n
            all_goals bool_clean
            all_goals (try defined_split)
            all_goals first | omega | decide

/-- a model result as the outcome of `opl_parse_escaped(&s, result)`: cursor behind the closing '%' and the bytes
    appended, or `opl_error` with cursor cell and string untouched -/
def EscOut (s : List UInt8) (i : Nat) (result : List UInt8) :
    Except Opl.PErr (List UInt8 × List UInt8) → Outcome (Int × Buf) Unit → Prop
  | .ok (p, rest), o => ∃ j, i < j ∧ j ≤ s.length ∧ rest = s.drop j ∧ o = .normal ((j : Int), result ++ p) ()
  | .error _, o => o = .thrown "osmium::opl_error" ((i : Int), result)

theorem EscOut_of_flow (s : List UInt8) (i : Nat) (result : List UInt8) (m) (fl)
    (k : Int × Buf × Int × Int × Int → Outcome (Int × Buf) Unit)
    (h : EscFlow s (i : Int) result i m fl) (hk : ∀ d r a b c, k (d, r, a, b, c) = .thrown "osmium::opl_error" (d, r)) :
    EscOut s i result m (Flow.seq fl k) := by
  cases m with
  | ok p => obtain ⟨p, rest⟩ := p; obtain ⟨j, h1, h2, h3, h4⟩ := h; subst h4; exact ⟨j, h1, h2, h3, rfl⟩
  | error e =>
    cases e with
    | tooLong => obtain ⟨j, v, l, h4⟩ := h; subst h4; simp only [EscOut, Flow.seq_next, hk]
    | eol => simp only [EscFlow] at h; subst h; rfl
    | notHex => simp only [EscFlow] at h; subst h; rfl

/-- `opl_parse_escaped(&s, result)` on every array, start position and string: the model's `parseEscaped 8 0`; any fuel
    ≥ 9 suffices (the loop runs at most eight times) -/
theorem src_tie_opl_parse_escaped_main (s t : List UInt8) (i : Nat) (hi : i ≤ s.length) (result : List UInt8) (fuel : Nat)
    (hf : 9 ≤ fuel) :
    EscOut s i result (Opl.parseEscaped 8 0 (s.drop i)) (opl_parse_escaped fuel (s ++ 0 :: t) (i : Int) result) ∧
    opl_parse_escaped_defined fuel (s ++ 0 :: t) (i : Int) result = true := by
  constructor
  · unfold opl_parse_escaped
    exact EscOut_of_flow s i result _ _ _
      (src_tie_opl_parse_escaped_loop_val s t (i : Int) result 8 i 0 fuel _ _ _ _ rfl rfl (by decide) rfl (by omega) hi (by omega) (by omega))
      (fun _ _ _ _ _ => rfl)
  · unfold opl_parse_escaped_defined
    exact src_tie_opl_parse_escaped_loop_def s t (i : Int) result 8 i 0 fuel _ _ _ _ rfl rfl (by decide) rfl (by omega) hi (by omega) (by omega)

end Osmium.SrcTie.Esc
