/-
C11, member-handle invariant: `MembersDatabase::add`, the whole second pass, the first pass.
Core-only.
-/
import Osmium.Lemmas.RelMgrHandlesLoop
namespace Osmium.RelMgr
open Osmium.Order (Kind CheckState checkStep)

/-- `add_object` + handing the handle to every element of the range -/
def addObject (s : State) (o : Obj) : State :=
  ({ s with stash := s.stash.push (some (.obj o)) } : State).setDb o.kind
    ((s.getDb o.kind).map (fun e => if e.mid == o.id then { e with h := s.stash.size + 1 } else e))

theorem memberAdd_eq (c : Cfg) (s : State) (o : Obj) (hs : SortedById (s.getDb o.kind)) :
    memberAdd c s o =
      if ((s.getDb o.kind).filter (fun e => e.mid == o.id)).isEmpty then
        ({ s with log := .notIn o.kind o.id :: s.log } : State).possiblyFlush c
      else
        (completeLoop c (addObject s o) (((s.getDb o.kind).filter (fun e => e.mid == o.id)).map (·.rpos))).possiblyFlush c := by
  have hsplit := splitRange_sorted (s.getDb o.kind) o.id hs
  have happ := splitRange_append (s.getDb o.kind) o.id
  rw [hsplit] at happ
  simp only [] at happ
  unfold memberAdd
  rw [hsplit]
  simp only []
  split
  · rfl
  · congr 2
    unfold addObject stashAdd
    simp only []
    congr 1
    conv => rhs; rw [← happ]
    simp only [List.map_append]
    congr 1
    congr 1
    · symm
      conv => rhs; rw [← List.map_id (List.filter (fun e => decide (e.mid < o.id)) (s.getDb o.kind))]
      apply List.map_congr_left
      intro e he
      have := (List.mem_filter.mp he).2
      simp at this
      have : ¬ e.mid = o.id := by omega
      simp [this]
    · apply List.map_congr_left
      intro e he
      have := (List.mem_filter.mp he).2
      simp at this
      simp [this]
    · symm
      conv => rhs; rw [← List.map_id (List.filter (fun e => decide (o.id < e.mid)) (s.getDb o.kind))]
      apply List.map_congr_left
      intro e he
      have := (List.mem_filter.mp he).2
      simp at this
      have : ¬ e.mid = o.id := by omega
      simp [this]
/-- the run-long invariant with the member handles: `SO` = the objects of enabled types handled
    so far (newest first) -/
structure RInv (Rm : Nat → Rel) (n : Nat) (base : Base) (fixed : Bool) (SO : List Obj) (s : State) : Prop where
  inv3 : Inv3 Rm n base (SO.map okey) s
  hinv : HInv fixed SO s
  xinv : XInv s
  num : NumInv s
  looks : LooksOK Rm fixed SO s.log

/-- a relation none of whose references to an object has arrived is not completed -/
theorem not_dead_of_unseen {Rm : Nat → Rel} {n : Nat} {base : Base} {S : List (Kind × Int)} {s : State}
    (i : Inv3 Rm n base S s) (k : Kind) (x : Int × Nat) (hx : x ∈ base k) (hnew : (k, x.1) ∉ S) :
    deadB s x.2 = false := by
  have hp := i.rposlt k x hx
  have hk : 0 < pendK base S x.2 k := by
    unfold pendK
    rw [List.countP_pos_iff]
    exact ⟨x, hx, by simp [hnew]⟩
  have hpend : 0 < pending base S x.2 := by
    unfold pending
    cases k <;> omega
  have h1 := i.firedJ x.2 hp
  have h2 := i.inv2.fired x.2 hp
  rw [h1] at h2
  have : ¬ (pending base S x.2 = 0 ∧ 1 ≤ pending base [] x.2) := by omega
  rw [if_neg this] at h2
  cases hd : deadB s x.2 with
  | false => rfl
  | true => rw [hd] at h2; simp at h2

theorem addObject_fields (s : State) (o : Obj) :
    (addObject s o).stash = s.stash.push (some (.obj o)) ∧ (addObject s o).rdb = s.rdb ∧
    (addObject s o).log = s.log ∧ (addObject s o).chk = s.chk ∧
    ∀ k, (addObject s o).getDb k =
      if k = o.kind then (s.getDb o.kind).map (fun e => if e.mid == o.id then { e with h := s.stash.size + 1 } else e)
      else s.getDb k := by
  unfold addObject
  have hf := setDb_fields ({ s with stash := s.stash.push (some (.obj o)) } : State) o.kind
    ((s.getDb o.kind).map (fun e => if e.mid == o.id then { e with h := s.stash.size + 1 } else e))
  refine ⟨hf.1, hf.2.1, hf.2.2.1, hf.2.2.2.1, ?_⟩
  intro k
  rw [getDb_setDb]
  split
  · rfl
  · cases k <;> rfl

/-- an element of the database after `add_object`, in terms of the one it came from -/
theorem mem_addObject {s : State} {o : Obj} {k : Kind} {x : Elem} (hx : x ∈ (addObject s o).getDb k) :
    ∃ y ∈ s.getDb k, x.mid = y.mid ∧ x.num = y.num ∧ x.rpos = y.rpos ∧
      x.h = if k = o.kind ∧ y.mid = o.id then s.stash.size + 1 else y.h := by
  rw [(addObject_fields s o).2.2.2.2 k] at hx
  split at hx
  · rename_i hk
    subst hk
    obtain ⟨y, hy, rfl⟩ := List.mem_map.mp hx
    refine ⟨y, hy, ?_⟩
    by_cases h : y.mid = o.id <;> simp [h]
  · rename_i hk
    exact ⟨x, hx, rfl, rfl, rfl, by simp [hk]⟩

theorem mem_addObject' {s : State} {o : Obj} {k : Kind} {y : Elem} (hy : y ∈ s.getDb k) :
    ∃ x ∈ (addObject s o).getDb k, x.mid = y.mid ∧ x.num = y.num ∧ x.rpos = y.rpos ∧
      x.h = if k = o.kind ∧ y.mid = o.id then s.stash.size + 1 else y.h := by
  rw [(addObject_fields s o).2.2.2.2 k]
  split
  · rename_i hk
    subst hk
    refine ⟨_, List.mem_map.mpr ⟨y, hy, rfl⟩, ?_⟩
    by_cases h : y.mid = o.id <;> simp [h]
  · rename_i hk
    exact ⟨y, hy, rfl, rfl, rfl, by simp [hk]⟩

theorem liveRefs_addObject (s : State) (o : Obj) (k : Kind) (id : Int) :
    liveRefs ((addObject s o).getDb k) id = liveRefs (s.getDb k) id := by
  rw [(addObject_fields s o).2.2.2.2 k]
  split
  · rename_i hk
    subst hk
    unfold liveRefs
    rw [List.countP_map]
    apply List.countP_congr
    intro e _
    by_cases h : e.mid = o.id <;> simp [h]
  · rfl

theorem skel_addObject (s : State) (o : Obj) (k : Kind) : skel ((addObject s o).getDb k) = skel (s.getDb k) := by
  rw [(addObject_fields s o).2.2.2.2 k]
  split
  · rename_i hk
    subst hk
    unfold skel
    rw [List.map_map]
    apply List.map_congr_left
    intro e _
    by_cases h : e.mid = o.id <;> simp [h]
  · rfl

/-- the state before the loop in `MembersDatabase::add` -/
theorem linv_addObject {Rm : Nat → Rel} {n : Nat} {base : Base} {fixed : Bool} {SO : List Obj} {s : State}
    (i : RInv Rm n base fixed SO s) (o : Obj) (hnew : (o.kind, o.id) ∉ SO.map okey)
    (hne : ∃ e ∈ s.getDb o.kind, e.mid = o.id) :
    LInv Rm n base fixed (o :: SO) (addObject s o) := by
  obtain ⟨hstash, hrdb, hlog, _, hdb⟩ := addObject_fields s o
  have i2 := i.inv3.inv2
  have hdead : ∀ p, deadB (addObject s o) p = deadB s p := by intro p; simp [deadB, hrdb]
  -- the elements of the range of the arriving object are non-removed
  have hrange : ∀ y ∈ s.getDb o.kind, y.mid = o.id → y.num.isSome = true := by
    intro y hy hyid
    rw [i.num o.kind y hy]
    by_cases h0 : y.mid = 0
    · simp [h0]
    · have := not_dead_of_unseen i.inv3 o.kind (y.mid, y.rpos) (mem_base_of_mem i.inv3.skelEq o.kind y hy)
        (by rw [hyid]; exact hnew)
      simp at this
      simp [this]
  refine ⟨⟨⟨?_, ?_, ?_, ?_⟩, ?_, ?_, ?_⟩, ?_, ⟨?_, ?_, ?_⟩, ⟨?_, ?_⟩, ?_, ?_⟩
  · rw [hrdb]; exact i2.wf.rsize
  · rw [hstash]; simp; have := i2.wf.ssize; omega
  · intro k x hx
    obtain ⟨y, hy, _, _, _, hh⟩ := mem_addObject hx
    rw [hstash, hh]
    simp only [Array.size_push]
    have := i2.wf.ssize
    split
    · exact Or.inr ⟨by omega, by omega⟩
    · rcases i2.wf.hbound k y hy with h | ⟨h1, h2⟩
      · exact Or.inl h
      · exact Or.inr ⟨h1, by omega⟩
  · intro p hp
    rw [hrdb, hstash]
    rcases i2.wf.slot p hp with ⟨h1, h2⟩ | h
    · refine Or.inl ⟨h1, ?_⟩
      rw [Array.getElem?_push]
      have := i2.wf.ssize
      rw [if_neg (by omega)]; exact h2
    · exact Or.inr h
  · rw [hlog]; exact i2.logok
  · intro p hp; rw [hlog, hdead]; exact i2.fired p hp
  · intro p hp hd
    rw [hdead] at hd
    have := i2.deadzero p hp hd
    simpa [missingAt, hrdb] using this
  · intro k; rw [skel_addObject]; exact i.inv3.skelEq k
  · -- live
    intro k x hx hpos o' ho' hk hoi
    obtain ⟨y, hy, hmid, _, _, hh⟩ := mem_addObject hx
    rw [liveRefs_addObject, hmid] at hpos
    rw [hstash, hh]
    rcases List.mem_cons.mp ho' with rfl | ho'
    · have : k = o'.kind ∧ y.mid = o'.id := ⟨hk.symm, by rw [← hmid, hoi]⟩
      rw [if_pos this]
      exact ⟨by omega, stashGet_push_new _ _⟩
    · have hkey : (k, y.mid) ∈ SO.map okey := List.mem_map.mpr ⟨o', ho', by simp [okey, hk, hoi, hmid]⟩
      have : ¬ (k = o.kind ∧ y.mid = o.id) := by
        rintro ⟨h1, h2⟩; rw [h1, h2] at hkey; exact hnew hkey
      rw [if_neg this]
      obtain ⟨h1, h2⟩ := i.hinv.live k y hy hpos o' ho' hk (by rw [hoi, hmid])
      exact ⟨h1, stashGet_push _ _ _ _ h2⟩
  · -- fresh
    intro k x hx hnot
    obtain ⟨y, hy, hmid, _, _, hh⟩ := mem_addObject hx
    have hn1 : ¬ (k = o.kind ∧ y.mid = o.id) := by
      rintro ⟨h1, h2⟩
      apply hnot
      rw [hmid, h1, h2]
      exact List.mem_map.mpr ⟨o, List.mem_cons_self .., rfl⟩
    rw [hh, if_neg hn1]
    apply i.hinv.fresh k y hy
    intro hmem
    apply hnot
    rw [hmid]
    obtain ⟨o', ho', hk'⟩ := List.mem_map.mp hmem
    exact List.mem_map.mpr ⟨o', List.mem_cons_of_mem _ ho', hk'⟩
  · -- gone
    intro hfix k x hx hzero
    obtain ⟨y, hy, hmid, _, _, hh⟩ := mem_addObject hx
    rw [liveRefs_addObject, hmid] at hzero
    by_cases hy0 : k = o.kind ∧ y.mid = o.id
    · -- the range of the arriving object has a non-removed element
      exfalso
      obtain ⟨hk, hyid⟩ := hy0
      have hynum : y.num.isSome = true := by
        rw [i.num k y hy]
        by_cases h0 : y.mid = 0
        · simp [h0]
        · have := not_dead_of_unseen i.inv3 k (y.mid, y.rpos) (mem_base_of_mem i.inv3.skelEq k y hy)
            (by rw [hk, hyid]; exact hnew)
          simp at this
          simp [this]
      have : 0 < liveRefs (s.getDb k) y.mid := List.countP_pos_iff.mpr ⟨y, hy, by simp [hynum]⟩
      omega
    · rw [hh, if_neg hy0]
      exact i.hinv.gone hfix k y hy hzero
  · -- uniform
    intro k x hx x' hx' hmm
    obtain ⟨y, hy, hmid, _, _, hh⟩ := mem_addObject hx
    obtain ⟨y', hy', hmid', _, _, hh'⟩ := mem_addObject hx'
    have hyy : y.mid = y'.mid := by rw [← hmid, ← hmid', hmm]
    rw [hh, hh', hyy, i.xinv.uniform k y hy y' hy' hyy]
  · -- nothing leaks
    intro h' o' hg
    rw [hstash] at hg
    by_cases hh' : h' = s.stash.size + 1
    · obtain ⟨y, hy, hyid⟩ := hne
      obtain ⟨x, hx, _, hnum, _, hh⟩ := mem_addObject' (o := o) hy
      refine ⟨o.kind, x, hx, ?_, by rw [hnum]; exact hrange y hy hyid⟩
      rw [hh, if_pos ⟨rfl, hyid⟩, hh']
    · rw [stashGet_push_old _ _ _ hh'] at hg
      obtain ⟨k0, y, hy, hyh, hynum⟩ := i.xinv.noleak h' o' hg
      obtain ⟨x, hx, _, hnum, _, hh⟩ := mem_addObject' (o := o) hy
      refine ⟨k0, x, hx, ?_, by rw [hnum]; exact hynum⟩
      rw [hh, if_neg, hyh]
      rintro ⟨hk, hyid⟩
      have h0 := i.hinv.fresh k0 y hy (by rw [hk, hyid]; exact hnew)
      rw [h0] at hyh
      rw [← hyh] at hg
      simp [stashGet] at hg
  · -- removed flags
    intro k x hx
    obtain ⟨y, hy, hmid, hnum, hrp, _⟩ := mem_addObject hx
    rw [hdead, hnum, hmid, hrp]
    exact i.num k y hy
  · rw [hlog]
    exact looksOK_mono i.looks (fun o' ho' => List.mem_cons_of_mem _ ho')

theorem hinv_cons_untracked {fixed : Bool} {SO : List Obj} {s : State} (h : HInv fixed SO s) (o : Obj)
    (hun : ∀ e ∈ s.getDb o.kind, e.mid ≠ o.id) : HInv fixed (o :: SO) s := by
  refine ⟨?_, ?_, h.gone⟩
  · intro k e he hpos o' ho' hk hoi
    rcases List.mem_cons.mp ho' with rfl | ho'
    · subst hk
      exact absurd hoi.symm (hun e he)
    · exact h.live k e he hpos o' ho' hk hoi
  · intro k e he hnot
    apply h.fresh k e he
    intro hmem
    apply hnot
    obtain ⟨o', ho', hk'⟩ := List.mem_map.mp hmem
    exact List.mem_map.mpr ⟨o', List.mem_cons_of_mem _ ho', hk'⟩

/-- `MembersDatabase::add` + callbacks for an object of an enabled type that was not seen before -/
theorem rinv_memberAdd {Rm : Nat → Rel} {n : Nat} {base : Base} (cx : Ctx Rm n base) (c : Cfg) {SO : List Obj}
    {s : State} (i : RInv Rm n base c.fixed SO s) (o : Obj) (hnew : (o.kind, o.id) ∉ SO.map okey) :
    RInv Rm n base c.fixed (o :: SO) (memberAdd c s o) ∧ (memberAdd c s o).chk = s.chk := by
  obtain ⟨i3, hchk⟩ := inv3_memberAdd i.inv3 c o hnew
  suffices h : HInv c.fixed (o :: SO) (memberAdd c s o) ∧ XInv (memberAdd c s o) ∧ NumInv (memberAdd c s o) ∧
      LooksOK Rm c.fixed (o :: SO) (memberAdd c s o).log from ⟨⟨i3, h.1, h.2.1, h.2.2.1, h.2.2.2⟩, hchk⟩
  have hs := i.inv3.sorted o.kind
  rw [memberAdd_eq c s o hs]
  split
  · rename_i hempty
    have hnil : (s.getDb o.kind).filter (fun e => e.mid == o.id) = [] := by simpa using hempty
    have hun : ∀ e ∈ s.getDb o.kind, e.mid ≠ o.id := by
      intro e he hid
      have : e ∈ (s.getDb o.kind).filter (fun e => e.mid == o.id) := List.mem_filter.mpr ⟨he, by simpa using hid⟩
      rw [hnil] at this; cases this
    have w0 : WF Rm n ({ s with log := Event.notIn o.kind o.id :: s.log } : State) :=
      ⟨i.inv3.inv2.wf.rsize, i.inv3.inv2.wf.ssize,
        fun k e he => i.inv3.inv2.wf.hbound k e (by cases k <;> exact he), i.inv3.inv2.wf.slot⟩
    obtain ⟨_, g, _, st⟩ := w0.possiblyFlush c
    have fp := possiblyFlush_frame c ({ s with log := Event.notIn o.kind o.id :: s.log } : State)
    have hdb : ∀ k, (State.possiblyFlush c ({ s with log := Event.notIn o.kind o.id :: s.log } : State)).getDb k = s.getDb k := by
      intro k; rw [g k]; cases k <;> rfl
    refine ⟨hinv_congr (hinv_cons_untracked i.hinv o hun) st hdb, xinv_congr i.xinv st hdb,
      numInv_congr i.num fp.1 hdb, ?_⟩
    rw [fp.2]
    intro e he
    rcases List.mem_cons.mp he with rfl | he
    · trivial
    · exact looksOK_mono i.looks (fun o' ho' => List.mem_cons_of_mem _ ho') e he
  · rename_i hne
    have hne' : ∃ e ∈ s.getDb o.kind, e.mid = o.id := by
      cases hf : (s.getDb o.kind).filter (fun e => e.mid == o.id) with
      | nil => rw [hf] at hne; simp at hne
      | cons e0 rest =>
        have hmem : e0 ∈ (s.getDb o.kind).filter (fun e => e.mid == o.id) := by rw [hf]; exact List.mem_cons_self ..
        exact ⟨e0, (List.mem_filter.mp hmem).1, by simpa using (List.mem_filter.mp hmem).2⟩
    have i1 := linv_addObject i o hnew hne'
    obtain ⟨_, hrdb, _, _, _⟩ := addObject_fields s o
    have hps_lt : ∀ q ∈ ((s.getDb o.kind).filter (fun e => e.mid == o.id)).map (·.rpos), q < n := by
      intro q hq
      obtain ⟨e, he, rfl⟩ := List.mem_map.mp hq
      exact rpos_lt_of_skel i.inv3.skelEq i.inv3.rposlt o.kind e (List.mem_filter.mp he).1
    have hcnt : ∀ p, p < n → missingAt (addObject s o) p =
        some (pending base ((o :: SO).map okey) p +
          (((s.getDb o.kind).filter (fun e => e.mid == o.id)).map (·.rpos)).count p) := by
      intro p hp
      have h1 := i.inv3.cnt p hp
      have h2 := pending_cons base (SO.map okey) p o.kind o.id hnew
      have h3 : (((s.getDb o.kind).filter (fun e => e.mid == o.id)).map (·.rpos)).count p = refCount base o.kind o.id p := by
        rw [count_map_filter, i.inv3.skelEq]; rfl
      rw [h3]
      simp only [missingAt, hrdb] at h1 ⊢
      rw [h1, h2]; rfl
    have i2 := linv_completeLoop cx c _ i1 hps_lt hcnt
    obtain ⟨_, g, _, st⟩ := i2.inv2.wf.possiblyFlush c
    have fp := possiblyFlush_frame c
      (completeLoop c (addObject s o) (((s.getDb o.kind).filter (fun e => e.mid == o.id)).map (·.rpos)))
    refine ⟨hinv_congr i2.hinv st g, xinv_congr i2.xinv st g, numInv_congr i2.num fp.1 g, ?_⟩
    rw [fp.2]; exact i2.looks

/-! ### the whole second pass -/

theorem seenIds_eq (c : Cfg) (ops : List Op) : seenIds c ops = (seenObjs c ops).map okey := rfl

theorem rinv_runOps {Rm : Nat → Rel} {n : Nat} {base : Base} (cx : Ctx Rm n base) (c : Cfg) (ops : List Op) :
    ∀ {SO : List Obj} {s : State}, RInv Rm n base c.fixed SO s →
      Osmium.Order.checkRun s.chk (seenIds c ops) ≠ none →
      (seenIds c ops).Nodup → (∀ x ∈ seenIds c ops, x ∉ SO.map okey) →
      RInv Rm n base c.fixed ((seenObjs c ops).reverse ++ SO) (runOps c s ops) := by
  induction ops with
  | nil => intro SO s i _ _ _; simpa [runOps, seenObjs] using i
  | cons op ops ih =>
    intro SO s i hchk hnd hdisj
    cases op with
    | query k id =>
      have hs : seenObjs c (Op.query k id :: ops) = seenObjs c ops := by simp [seenObjs]
      have hs' : seenIds c (Op.query k id :: ops) = seenIds c ops := by simp [seenIds, seenObjs]
      rw [hs'] at hchk hnd hdisj
      rw [hs]
      simp only [runOps]
      have i' : RInv Rm n base c.fixed SO ({ s with log := Event.query k id (s.lookup k id) :: s.log } : State) := by
        refine ⟨?_, hinv_congr i.hinv rfl (fun k' => by cases k' <;> rfl),
          xinv_congr i.xinv rfl (fun k' => by cases k' <;> rfl),
          numInv_congr i.num rfl (fun k' => by cases k' <;> rfl), ?_⟩
        · refine inv3_congr i.inv3 rfl rfl (fun k' => by cases k' <;> rfl) (Or.inr ⟨k, id, _, rfl⟩)
            (fun p => by simp [firedCount]) ?_
          intro hl e he
          rcases List.mem_cons.mp he with rfl | he
          · trivial
          · exact hl e he
        · intro e he
          rcases List.mem_cons.mp he with rfl | he
          · intro hfix
            have hi : HInv true SO s := hfix ▸ i.hinv
            rcases lookup_not_wild hi k id (i.inv3.sorted k) with h | ⟨o, _, _, _, _, h⟩ <;> rw [h] <;> simp
          · exact i.looks e he
      exact ih i' hchk hnd hdisj
    | flush =>
      have hs : seenObjs c (Op.flush :: ops) = seenObjs c ops := by simp [seenObjs]
      have hs' : seenIds c (Op.flush :: ops) = seenIds c ops := by simp [seenIds, seenObjs]
      rw [hs'] at hchk hnd hdisj
      rw [hs]
      simp only [runOps]
      have hfl : (s.flushOutput c).stash = s.stash ∧ (s.flushOutput c).rdb = s.rdb ∧
          (∀ k, (s.flushOutput c).getDb k = s.getDb k) ∧ (s.flushOutput c).log = s.log ∧ (s.flushOutput c).chk = s.chk := by
        unfold State.flushOutput
        split
        · exact ⟨rfl, rfl, fun k => by cases k <;> rfl, rfl, rfl⟩
        · exact ⟨rfl, rfl, fun _ => rfl, rfl, rfl⟩
      have i' : RInv Rm n base c.fixed SO (s.flushOutput c) :=
        ⟨inv3_congr i.inv3 hfl.1 hfl.2.1 hfl.2.2.1 (Or.inl (by rw [hfl.2.2.2.1])) (fun p => by rw [hfl.2.2.2.1])
            (fun h => by rw [hfl.2.2.2.1]; exact h),
          hinv_congr i.hinv hfl.1 hfl.2.2.1, xinv_congr i.xinv hfl.1 hfl.2.2.1, numInv_congr i.num hfl.2.1 hfl.2.2.1,
          by rw [hfl.2.2.2.1]; exact i.looks⟩
      exact ih i' (by rw [hfl.2.2.2.2]; exact hchk) hnd hdisj
    | obj o =>
      simp only [runOps]
      by_cases hen : c.enabled o.kind = true
      · have hs : seenObjs c (Op.obj o :: ops) = o :: seenObjs c ops := by simp [seenObjs, hen]
        have hs' : seenIds c (Op.obj o :: ops) = (o.kind, o.id) :: seenIds c ops := by
          simp [seenIds, seenObjs, hen]
        rw [hs'] at hchk hnd hdisj
        rw [hs]
        obtain ⟨chk', hstep, hrest⟩ := checkRun_cons_some hchk
        have hobj : handleObj c s o = some (memberAdd c { s with chk := chk' } o) := by
          simp [handleObj, hen, hstep]
        rw [hobj]
        have i0 : RInv Rm n base c.fixed SO ({ s with chk := chk' } : State) :=
          ⟨inv3_congr i.inv3 rfl rfl (fun k' => by cases k' <;> rfl) (Or.inl rfl) (fun _ => rfl) (fun h => h),
            hinv_congr i.hinv rfl (fun k' => by cases k' <;> rfl),
            xinv_congr i.xinv rfl (fun k' => by cases k' <;> rfl),
            numInv_congr i.num rfl (fun k' => by cases k' <;> rfl), i.looks⟩
        have hnew : (o.kind, o.id) ∉ SO.map okey := hdisj _ (List.mem_cons_self ..)
        obtain ⟨i1, c1⟩ := rinv_memberAdd cx c i0 o hnew
        rw [List.nodup_cons] at hnd
        have := ih i1 (by rw [c1]; exact hrest) hnd.2 (by
          intro x hx hmem
          rcases List.mem_cons.mp hmem with rfl | hmem
          · exact hnd.1 hx
          · exact hdisj x (List.mem_cons_of_mem _ hx) hmem)
        simpa [List.reverse_cons, List.append_assoc] using this
      · have hs : seenObjs c (Op.obj o :: ops) = seenObjs c ops := by simp [seenObjs, hen]
        have hs' : seenIds c (Op.obj o :: ops) = seenIds c ops := by simp [seenIds, seenObjs, hen]
        rw [hs'] at hchk hnd hdisj
        rw [hs]
        have hobj : handleObj c s o = some s := by simp [handleObj, hen]
        rw [hobj]
        exact ih i hchk hnd hdisj

end Osmium.RelMgr
