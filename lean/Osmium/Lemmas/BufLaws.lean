/-
C04: laws of single operations proved on top of the simulation lemmas: the repaired variant never
dereferences a stale pointer; add_buffer appends the committed bytes of the other buffer.
-/
import Osmium.Lemmas.BufSim
import Osmium.Lemmas.BufPurge
namespace Osmium.Buf
open Osmium.Layout

/-- "repaired variant, and no stale dereference so far" -/
def FixOk (s : St) : Prop := s.fixF4 = true ∧ s.dead ≠ some .stale

theorem execMicro_fix (s s' : St) (m : Micro) (h : execMicro s m = .ok s') :
    s'.fixF4 = s.fixF4 ∧ s'.dead = s.dead := by
  cases m with
  | alloc n save g =>
    simp only [execMicro] at h
    split at h
    · cases h
    · injection h with h; subst h; exact ⟨rfl, rfl⟩
  | upd g => simp only [execMicro] at h; injection h with h; subst h; exact ⟨rfl, rfl⟩
  | deref keep g =>
    simp only [execMicro] at h
    split at h
    · cases h
    · split at h
      · cases h
      · split at h
        · injection h with h; subst h; exact ⟨rfl, rfl⟩
        · cases h

theorem execMicro_nostale (s : St) (m : Micro) (hf : s.fixF4 = true) : execMicro s m ≠ .error .stale := by
  cases m with
  | alloc n save g =>
    simp only [execMicro]
    split
    · rename_i e hr
      intro h; injection h with h; subst h
      unfold reserve at hr
      split at hr
      · split at hr
        · cases hr
        · cases hr
      · cases hr
    · simp
  | upd g => simp [execMicro]
  | deref keep g =>
    simp only [execMicro]
    split
    · simp
    · split
      · simp
      · split
        · simp
        · rename_i hn; simp [hf] at hn

theorem execMicros_fix (ms : List Micro) (s : St) :
    (execMicros s ms).1.fixF4 = s.fixF4 ∧ (execMicros s ms).1.dead = s.dead ∧
    (s.fixF4 = true → (execMicros s ms).2 ≠ some .stale) := by
  induction ms generalizing s with
  | nil => simp [execMicros]
  | cons m ms ih =>
    simp only [execMicros]
    cases h : execMicro s m with
    | error e =>
      refine ⟨rfl, rfl, ?_⟩
      intro hf he
      simp at he; subst he
      exact execMicro_nostale s m hf h
    | ok s' =>
      obtain ⟨f1, d1⟩ := execMicro_fix s s' m h
      obtain ⟨f2, d2, n2⟩ := ih s'
      exact ⟨f2.trans f1, d2.trans d1, fun hf => n2 (f1.trans hf)⟩

theorem unwind_fix (fuel : Nat) (s : St) :
    (unwind fuel s).1.fixF4 = s.fixF4 ∧ (unwind fuel s).1.dead = s.dead := by
  induction fuel generalizing s with
  | zero => simp [unwind]
  | succ f ih =>
    simp only [unwind]
    split
    · exact ⟨rfl, rfl⟩
    · rename_i fr rest hst
      have hx := execMicros_fix (mDtor fr.kind (offsOf s.stack)) s
      split
      · rename_i s' e he
        rw [he] at hx; exact ⟨hx.1, hx.2.1⟩
      · rename_i s' he
        rw [he] at hx
        have := ih { s' with stack := rest }
        exact ⟨this.1.trans hx.1, this.2.trans hx.2.1⟩

theorem applyAfter_fix (a : After) (s : St) : (applyAfter a s).fixF4 = s.fixF4 ∧ (applyAfter a s).dead = s.dead := by
  cases a <;> exact ⟨rfl, rfl⟩

theorem runMicros_fixOk (s : St) (ms : List Micro) (a : After) (h : FixOk s) :
    FixOk (runMicros s ms (applyAfter a)).1 := by
  obtain ⟨hf, hd⟩ := h
  have hx := execMicros_fix ms s
  simp only [runMicros]
  generalize execMicros s ms = r at hx ⊢
  obtain ⟨s', oe⟩ := r
  cases oe with
  | none =>
    have := applyAfter_fix a s'
    exact ⟨this.1.trans (hx.1.trans hf), by rw [this.2, hx.2.1]; exact hd⟩
  | some e =>
    cases e with
    | full =>
      simp only []
      have hu := unwind_fix (s'.stack.length + 1) s'
      generalize unwind (s'.stack.length + 1) s' = r at hu ⊢
      obtain ⟨s'', oe⟩ := r
      cases oe with
      | none => exact ⟨hu.1.trans (hx.1.trans hf), by rw [hu.2, hx.2.1]; exact hd⟩
      | some e => exact ⟨hu.1.trans (hx.1.trans hf), by simp⟩
    | stale => exact absurd rfl (hx.2.2 hf)
    | null => exact ⟨hx.1.trans hf, by simp⟩
    | misaligned => exact ⟨hx.1.trans hf, by simp⟩

theorem plan_die (fs : List (Nat × Kind)) (pl : Nat) (aux : Bytes) (av : Bool) (c : Bytes) (op : Op) (e : Err)
    (h : plan fs pl aux av c op = .die e) : e = .misaligned := by
  cases op <;> simp only [plan] at h <;> (repeat' split at h) <;>
    first
    | (cases h; done)
    | (injection h with h; exact h.symm)

theorem execBufOp_fix (s : St) (o : BufOp) : (execBufOp s o).1.fixF4 = s.fixF4 ∧ (execBufOp s o).1.dead = s.dead := by
  cases o <;> exact ⟨rfl, rfl⟩

theorem step_fixOk (s : St) (op : Op) (h : FixOk s) : FixOk (step s op).1 := by
  simp only [step]
  split
  · exact h
  · split
    · exact h
    · split
      · exact h
      · rename_i e hp
        have := plan_die _ _ _ _ _ _ _ hp
        subst this
        exact ⟨h.1, by simp⟩
      · exact runMicros_fixOk s _ _ h
      · have := execBufOp_fix s ‹BufOp›
        exact ⟨this.1.trans h.1, by rw [this.2]; exact h.2⟩

theorem run_fixOk (ops : List Op) (s : St) (h : FixOk s) : FixOk (run s ops) := by
  induction ops generalizing s with
  | nil => exact h
  | cons op ops ih => exact ih _ (step_fixOk s op h)


theorem writeAt_end (p d : Bytes) (f : UInt8) :
    writeAt (p ++ List.replicate d.length f) p.length d = p ++ d := by
  rw [writeAt_eq _ _ _ (by simp)]
  simp

/-- add_buffer appends exactly the committed bytes of the other buffer to the uncommitted part
    (auto-grow modes; in mode `no` it may throw buffer_is_full instead) -/
theorem addBuffer_abs (s : St) (hd : s.dead = none) (hv : s.b0.valid = true) (hv1 : s.b1.valid = true)
    (he : s.stack = []) (hm : s.b0.mode ≠ .no) (hb : s.Bounds) :
    (step s .addBuffer).1.b0.pend = s.b0.pend ++ s.b1.comm ∧ (step s .addBuffer).1.b0.done = s.b0.done ∧
    (step s .addBuffer).2.1 = .ok := by
  obtain ⟨b', hb'⟩ := reserve_ok_of_mode s.b1.comm.length s.b0 hm
  have ha := alloc_abs _ _ _ (fun p => writeAt p s.b0.pend.length s.b1.comm) (by intro p; simp) hb.1 hb'
  simp only [step, hd, hv, hv1, he, frameSig, plan, runMicros, execMicros, execMicro, hb', applyAfter,
    List.map_nil, List.isEmpty_nil, Bool.not_true, Bool.false_eq_true, or_self, ↓reduceIte]
  refine ⟨?_, ha.2.1, trivial⟩
  rw [ha.1]
  exact writeAt_end _ _ _

end Osmium.Buf
