/-
C04: laws of single operations proved on top of the simulation lemmas: the repaired variant never
dereferences a stale pointer; add_buffer appends the committed bytes of the other buffer.
-/
import Osmium.Lemmas.BufSim
import Osmium.Lemmas.BufPurge
namespace Osmium.Buf
open Osmium.Layout

/-- "repaired variant, and no stale dereference so far" -/
def FixOk (s : St) : Prop := s.fixF4 = true ∧ s.dead ≠ some .stale

theorem execBase_fix (s s' : St) (m : Micro) (h : execBase s m = .ok s') :
    s'.fixF4 = s.fixF4 ∧ s'.dead = s.dead := by
  cases m with
  | alloc n save g =>
    simp only [execBase] at h
    split at h
    · cases h
    · injection h with h; subst h; exact ⟨rfl, rfl⟩
  | upd g => simp only [execBase] at h; injection h with h; subst h; exact ⟨rfl, rfl⟩
  | deref keep g =>
    simp only [execBase] at h
    split at h
    · cases h
    · split at h
      · cases h
      · split at h
        · injection h with h; subst h; exact ⟨rfl, rfl⟩
        · cases h
  | finish offs => simp only [execBase] at h; injection h with h; subst h; exact ⟨rfl, rfl⟩

theorem execBase_nostale (s : St) (m : Micro) (hf : s.fixF4 = true) : execBase s m ≠ .error .stale := by
  cases m with
  | alloc n save g =>
    simp only [execBase]
    split
    · rename_i e hr
      intro h; injection h with h; subst h
      unfold reserve at hr
      split at hr
      · split at hr
        · cases hr
        · cases hr
      · cases hr
    · simp
  | upd g => simp [execBase]
  | deref keep g =>
    simp only [execBase]
    split
    · simp
    · split
      · simp
      · split
        · simp
        · rename_i hn; simp [hf] at hn
  | finish offs => simp [execBase]

/-- generic: the step function keeps `fixF4`/`dead` and never reports `stale` in the repaired variant -/
theorem execList_fix (ex : St → Micro → Except Err St)
    (hfix : ∀ s s' m, ex s m = .ok s' → s'.fixF4 = s.fixF4 ∧ s'.dead = s.dead)
    (hns : ∀ s m, s.fixF4 = true → ex s m ≠ .error .stale) (ms : List Micro) (s : St) :
    (execList ex s ms).1.fixF4 = s.fixF4 ∧ (execList ex s ms).1.dead = s.dead ∧
    (s.fixF4 = true → (execList ex s ms).2 ≠ some .stale) := by
  induction ms generalizing s with
  | nil => simp [execList]
  | cons m ms ih =>
    simp only [execList]
    cases h : ex s m with
    | error e =>
      refine ⟨rfl, rfl, ?_⟩
      intro hf he
      simp at he; subst he
      exact hns s m hf h
    | ok s' =>
      obtain ⟨f1, d1⟩ := hfix s s' m h
      obtain ⟨f2, d2, n2⟩ := ih s'
      exact ⟨f2.trans f1, d2.trans d1, fun hf => n2 (f1.trans hf)⟩

theorem execMicro_fix (s s' : St) (m : Micro) (h : execMicro s m = .ok s') :
    s'.fixF4 = s.fixF4 ∧ s'.dead = s.dead := by
  cases m with
  | finish offs =>
    rcases execMicro_finish s s' offs h with rfl | rfl
    · exact ⟨rfl, rfl⟩
    · have := execList_fix execBase execBase_fix execBase_nostale (mCommentText offs []) s
      exact ⟨this.1, this.2.1⟩
  | alloc n save g => simp only [execMicro] at h; exact execBase_fix s s' _ h
  | upd g => simp only [execMicro] at h; exact execBase_fix s s' _ h
  | deref keep g => simp only [execMicro] at h; exact execBase_fix s s' _ h

theorem execMicro_nostale (s : St) (m : Micro) (hf : s.fixF4 = true) : execMicro s m ≠ .error .stale := by
  cases m with
  | finish offs =>
    have hl := (execList_fix execBase execBase_fix execBase_nostale (mCommentText offs []) s).2.2 hf
    simp only [execMicro]
    split
    · split
      · simp
      · simp
      · rename_i s' e hne he
        intro h; injection h with h; subst h
        rw [he] at hl; exact hl rfl
    · simp
  | alloc n save g => simp only [execMicro]; exact execBase_nostale s _ hf
  | upd g => simp only [execMicro]; exact execBase_nostale s _ hf
  | deref keep g => simp only [execMicro]; exact execBase_nostale s _ hf

theorem execMicros_fix (ms : List Micro) (s : St) :
    (execMicros s ms).1.fixF4 = s.fixF4 ∧ (execMicros s ms).1.dead = s.dead ∧
    (s.fixF4 = true → (execMicros s ms).2 ≠ some .stale) :=
  execList_fix execMicro execMicro_fix execMicro_nostale ms s

theorem unwind_fix (fuel : Nat) (s : St) :
    (unwind fuel s).1.fixF4 = s.fixF4 ∧ (unwind fuel s).1.dead = s.dead := by
  induction fuel generalizing s with
  | zero => simp [unwind]
  | succ f ih =>
    simp only [unwind]
    split
    · exact ⟨rfl, rfl⟩
    · rename_i fr rest hst
      have hx := execMicros_fix (mDtor fr.kind (offsOf s.stack)) s
      split
      · rename_i s' e he
        rw [he] at hx; exact ⟨hx.1, hx.2.1⟩
      · rename_i s' he
        rw [he] at hx
        have := ih { s' with stack := rest }
        exact ⟨this.1.trans hx.1, this.2.trans hx.2.1⟩

theorem applyAfter_fix (a : After) (s : St) : (applyAfter a s).fixF4 = s.fixF4 ∧ (applyAfter a s).dead = s.dead := by
  cases a <;> exact ⟨rfl, rfl⟩

theorem runMicros_fixOk (s : St) (ms : List Micro) (a : After) (h : FixOk s) :
    FixOk (runMicros s ms (applyAfter a)).1 := by
  obtain ⟨hf, hd⟩ := h
  have hx := execMicros_fix ms s
  simp only [runMicros]
  generalize execMicros s ms = r at hx ⊢
  obtain ⟨s', oe⟩ := r
  cases oe with
  | none =>
    have := applyAfter_fix a s'
    exact ⟨this.1.trans (hx.1.trans hf), by rw [this.2, hx.2.1]; exact hd⟩
  | some e =>
    cases e with
    | full =>
      simp only []
      have hu := unwind_fix (s'.stack.length + 1) s'
      generalize unwind (s'.stack.length + 1) s' = r at hu ⊢
      obtain ⟨s'', oe⟩ := r
      cases oe with
      | none => exact ⟨hu.1.trans (hx.1.trans hf), by rw [hu.2, hx.2.1]; exact hd⟩
      | some e => exact ⟨hu.1.trans (hx.1.trans hf), by simp⟩
    | stale => exact absurd rfl (hx.2.2 hf)
    | null => exact ⟨hx.1.trans hf, by simp⟩
    | misaligned => exact ⟨hx.1.trans hf, by simp⟩

theorem plan_die (fs : List (Nat × Kind)) (pl : Nat) (aux : Bytes) (av : Bool) (c : Bytes) (op : Op) (e : Err)
    (h : plan fs pl aux av c op = .die e) : e = .misaligned := by
  cases op <;> simp only [plan] at h <;> (repeat' split at h) <;>
    first
    | (cases h; done)
    | (injection h with h; exact h.symm)

theorem execBufOp_fix (s : St) (o : BufOp) : (execBufOp s o).1.fixF4 = s.fixF4 ∧ (execBufOp s o).1.dead = s.dead := by
  cases o <;> exact ⟨rfl, rfl⟩

theorem step_fixOk (s : St) (op : Op) (h : FixOk s) : FixOk (step s op).1 := by
  simp only [step]
  split
  · exact h
  · split
    · exact h
    · split
      · exact h
      · rename_i e hp
        have := plan_die _ _ _ _ _ _ _ hp
        subst this
        exact ⟨h.1, by simp⟩
      · exact runMicros_fixOk s _ _ h
      · have := execBufOp_fix s ‹BufOp›
        exact ⟨this.1.trans h.1, by rw [this.2]; exact h.2⟩

theorem run_fixOk (ops : List Op) (s : St) (h : FixOk s) : FixOk (run s ops) := by
  induction ops generalizing s with
  | nil => exact h
  | cons op ops ih => exact ih _ (step_fixOk s op h)


theorem writeAt_end (p d : Bytes) (f : UInt8) :
    writeAt (p ++ List.replicate d.length f) p.length d = p ++ d := by
  rw [writeAt_eq _ _ _ (by simp)]
  simp

/-- add_buffer appends exactly the committed bytes of the other buffer to the uncommitted part
    (auto-grow modes; in mode `no` it may throw buffer_is_full instead) -/
theorem addBuffer_abs (s : St) (hd : s.dead = none) (hv : s.b0.valid = true) (hv1 : s.b1.valid = true)
    (he : s.stack = []) (hm : s.b0.mode ≠ .no) (hb : s.Bounds) :
    (step s .addBuffer).1.b0.pend = s.b0.pend ++ s.b1.comm ∧ (step s .addBuffer).1.b0.done = s.b0.done ∧
    (step s .addBuffer).2.1 = .ok := by
  obtain ⟨b', hb'⟩ := reserve_ok_of_mode s.b1.comm.length s.b0 hm
  have ha := alloc_abs _ _ _ (fun p => writeAt p s.b0.pend.length s.b1.comm) (by intro p; simp) hb.1 hb'
  simp only [step, hd, hv, hv1, he, frameSig, plan, runMicros, execMicros, execList, execMicro, execBase, hb', applyAfter,
    List.map_nil, List.isEmpty_nil, Bool.not_true, Bool.false_eq_true, or_self, ↓reduceIte]
  refine ⟨?_, ha.2.1, trivial⟩
  rw [ha.1]
  exact writeAt_end _ _ _


/-! ### alignment is preserved by the operations of the Buffer class -/

/-- both counters of a buffer are multiples of the alignment -/
def Buf.Aligned (b : Buf) : Prop := b.committed % 8 = 0 ∧ b.written % 8 = 0

theorem aligned_mk (c : Nat) (m : Mode) (f : UInt8) : (Buf.mk' c m f).Aligned := by
  simp [Buf.Aligned, Buf.mk', Buf.written]

theorem chain_mem (c : Bytes) : ∀ (hs : List Hdr) (pos : Nat), Chain c pos hs →
    ∀ h ∈ hs, h.off + h.psize ≤ c.length ∧ h.psize % 8 = 0
  | [], _, _, h, hm => by cases hm
  | x :: xs, pos, hc, h, hm => by
    obtain ⟨ho, _, hp, _, hle, _, _, hc'⟩ := hc
    rcases List.mem_cons.1 hm with rfl | hm'
    · exact ⟨by omega, by rw [hp]; exact padded_mod _⟩
    · exact chain_mem c xs _ hc' h hm'

theorem nthItem_spec (c : Bytes) (k : Nat) (h : Hdr) (hn : nthItem c k = some h) :
    h.off + h.psize ≤ c.length ∧ h.psize % 8 = 0 := by
  unfold nthItem at hn
  split at hn
  · rename_i hs hh
    have hc := headers_chain c _ _ _ hh
    exact chain_mem c hs 0 hc h (List.mem_of_getElem? hn)
  · cases hn

theorem skipNonEntity_mod (b : Bytes) (lim fuel pos : Nat) (h : pos % 8 = 0) :
    skipNonEntity b lim fuel pos % 8 = 0 := by
  induction fuel generalizing pos with
  | zero => exact h
  | succ f ih =>
    simp only [skipNonEntity]
    split
    · apply ih; have := padded_mod (u32At b pos); omega
    · exact h

theorem purgeLoop_w_mod (lim fuel : Nat) (b : Bytes) (r w : Nat) (cbs : List (Nat × Nat)) (hw : w % 8 = 0) :
    (purgeLoop lim fuel b r w cbs).2.1 % 8 = 0 := by
  induction fuel generalizing b r w cbs with
  | zero => exact hw
  | succ f ih =>
    simp only [purgeLoop]
    split
    · exact hw
    · split
      · split
        · apply ih
          simp only []
          have := padded_mod (u32At (writeAt b w (slice b r (padded (u32At b r)))) w)
          omega
        · apply ih
          simp only []
          have := padded_mod (u32At b w)
          omega
      · exact ih _ _ _ _ hw

theorem reserve_committed (n : Nat) (b b' : Buf) (h : reserve n b = .ok b') :
    b'.committed = b.committed ∨ b'.committed = 0 := by
  unfold reserve at h
  split at h
  · split at h
    · cases h
    · injection h with h; subst h
      simp only [extend, growFor, grow, growInternal]
      split <;> split <;> (try split) <;> simp
  · injection h with h; subst h; simp [extend]

/-- reserving a multiple of 8 keeps both counters aligned -/
theorem reserve_aligned (n : Nat) (b b' : Buf) (hb : b.Bounds) (ha : b.Aligned) (hn : n % 8 = 0)
    (h : reserve n b = .ok b') : b'.Aligned := by
  obtain ⟨g, hg, rfl, _⟩ := reserve_spec n b b' hb h
  have hc := reserve_committed n b _ h
  have hw := grown_written hg hb.1
  have hgc := hg.comm
  obtain ⟨a1, a2⟩ := ha
  have hb1 := hb.1
  simp only [Buf.Aligned, extend, Buf.written, List.length_append, List.length_replicate] at *
  rcases hc with hc | hc <;> omega

theorem execBufOp_aligned (s : St) (o : BufOp) (hs : s.Bounds) (h0 : s.b0.Aligned) (h1 : s.b1.Aligned) :
    (execBufOp s o).1.b0.Aligned ∧ (execBufOp s o).1.b1.Aligned := by
  obtain ⟨⟨c0, w0, _⟩, _⟩ := hs
  obtain ⟨a0, a0'⟩ := h0
  cases o <;> simp only [execBufOp]
  · exact ⟨⟨a0', a0'⟩, h1⟩
  · refine ⟨?_, h1⟩
    simp only [Buf.Aligned, Buf.written, Buf.comm, List.length_take] at *; omega
  · exact ⟨by simp [Buf.Aligned, Buf.written], h1⟩
  · exact ⟨h1, ⟨a0, a0'⟩⟩
  · exact ⟨⟨a0, a0'⟩, h1⟩
  · refine ⟨?_, h1⟩
    simp only [purgeBuf]
    split
    · exact ⟨a0, a0'⟩
    · simp only [purgeBytes]
      split
      · simp only [Buf.Aligned, Buf.written, Buf.comm, List.length_take] at *; omega
      · have hm := purgeLoop_w_mod s.b0.comm.length (s.b0.comm.length + 1) s.b0.comm
          (skipNonEntity s.b0.comm s.b0.comm.length (s.b0.comm.length + 1) 0)
          (skipNonEntity s.b0.comm s.b0.comm.length (s.b0.comm.length + 1) 0) []
          (skipNonEntity_mod _ _ _ 0 rfl)
        have hl := purgeLoop_length s.b0.comm.length (s.b0.comm.length + 1) s.b0.comm
          (skipNonEntity s.b0.comm s.b0.comm.length (s.b0.comm.length + 1) 0)
          (skipNonEntity s.b0.comm s.b0.comm.length (s.b0.comm.length + 1) 0) []
        generalize purgeLoop s.b0.comm.length (s.b0.comm.length + 1) s.b0.comm _ _ [] = r at hm hl
        obtain ⟨b', w, cbs⟩ := r
        simp only [Buf.Aligned, Buf.written, Buf.comm, List.length_take] at *
        omega
  · exact ⟨⟨a0, a0'⟩, h1⟩
  · refine ⟨?_, h1⟩
    simp only [Buf.Aligned, Buf.written, Buf.comm, Buf.pend, List.length_append, flagWord_length, List.length_take, List.length_drop] at *
    omega

/-- a single `reserve n; copy` program (add_buffer / push_back) with n a multiple of 8 -/
theorem runCopy_aligned (s : St) (d : Bytes) (a : After) (ha' : a = .nothing ∨ a = .commit) (he : s.stack = [])
    (hs : s.Bounds) (h0 : s.b0.Aligned) (hd : d.length % 8 = 0) :
    (runMicros s [.alloc (fun _ => d.length) false (fun off p => writeAt p off d)] (applyAfter a)).1.b0.Aligned ∧
    (runMicros s [.alloc (fun _ => d.length) false (fun off p => writeAt p off d)] (applyAfter a)).1.b1 = s.b1 := by
  simp only [runMicros, execMicros, execList, execMicro, execBase]
  cases hr : reserve d.length s.b0 with
  | error e =>
    cases e <;> simp [unwind, he, h0]
  | ok b' =>
    have hal := reserve_aligned _ _ _ hs.1 h0 hd hr
    obtain ⟨g, hg, hb', _⟩ := reserve_spec _ _ _ hs.1 hr
    have hcw : b'.committed ≤ b'.written := by
      subst hb'; have := hg.comm; simp only [extend, Buf.written, List.length_append] at *; omega
    have hw := onPend_written (fun p => writeAt p s.b0.pend.length d) b' (by intro p; simp) hcw
    simp only [Bool.false_eq_true, ↓reduceIte]
    rcases ha' with rfl | rfl
    · simp only [applyAfter, and_true]
      exact ⟨hal.1, by rw [hw]; exact hal.2⟩
    · simp only [applyAfter, and_true]
      simp only [Buf.Aligned, Buf.written] at hal hw ⊢
      exact ⟨by rw [hw]; exact hal.2, by rw [hw]; exact hal.2⟩

/-- operations of the Buffer class (no builder open) -/
def BufferOp : Op → Bool
  | .commit | .rollback | .clear | .addBuffer | .pushBack _ | .swap | .move | .setRm _ _ | .purge | .popNested => true
  | _ => false

/-- with no builder open, the only micro programs of the Buffer-level operations are copies of a
    multiple of 8 bytes out of the other buffer -/
theorem plan_bufferop_micros (pl : Nat) (aux : Bytes) (av : Bool) (c : Bytes) (op : Op) (ms : List Micro) (a : After)
    (hop : BufferOp op = true) (haux : aux.length % 8 = 0) (hp : plan [] pl aux av c op = .micros ms a) :
    ∃ d : Bytes, d.length % 8 = 0 ∧ ms = [.alloc (fun _ => d.length) false (fun off p => writeAt p off d)] ∧
      (a = .nothing ∨ a = .commit) := by
  cases op <;> simp only [BufferOp] at hop <;> try (exact absurd hop (by decide))
  all_goals simp only [plan, List.map_nil, List.isEmpty_nil, Bool.not_true, Bool.false_eq_true, false_or, ↓reduceIte] at hp
  all_goals (repeat' split at hp)
  all_goals first
    | (cases hp; done)
    | skip
  · injection hp with h1 h2
    exact ⟨aux, haux, h1.symm, Or.inl h2.symm⟩
  · rename_i h hn
    injection hp with h1 h2
    have hsp := nthItem_spec _ _ _ hn
    exact ⟨slice aux h.off h.psize, by rw [slice_length _ _ _ hsp.1]; exact hsp.2, h1.symm, Or.inr h2.symm⟩

theorem step_aligned_bufferop (s : St) (op : Op) (hop : BufferOp op = true) (he : s.stack = []) (hs : s.Bounds)
    (h0 : s.b0.Aligned) (h1 : s.b1.Aligned) : (step s op).1.b0.Aligned ∧ (step s op).1.b1.Aligned := by
  have hcomm1 : s.b1.comm.length % 8 = 0 := by
    have := hs.2.1; have := h1.1
    simp only [Buf.comm, Buf.written, List.length_take] at *; omega
  simp only [step]
  split
  · exact ⟨h0, h1⟩
  · split
    · exact ⟨h0, h1⟩
    · split
      · exact ⟨h0, h1⟩
      · exact ⟨h0, h1⟩
      · rename_i ms a hp
        rw [he] at hp
        obtain ⟨d, hd, rfl, ha⟩ := plan_bufferop_micros _ _ _ _ _ _ _ hop hcomm1 hp
        have := runCopy_aligned s d a ha he hs h0 hd
        exact ⟨this.1, by rw [this.2]; exact h1⟩
      · exact execBufOp_aligned s _ hs h0 h1

end Osmium.Buf
