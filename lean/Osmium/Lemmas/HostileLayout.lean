/-
C03 — lemmas: what the builders write under `Guards` is read back completely and in bounds by
every traversal of Model/Layout.lean.

Proof structure (helper files):
  HostileLayoutBase  `At b off x` (x sits in b at off), leAt/leBytes read-back, cstr
  HostileLayoutColl  decodeTags / decodeNodeRefs / decodeMembers / decodeComments over the bodies
  HostileLayoutItem  decodeItem per sub-item kind, decodeItems over `subsBytes`
  HostileLayoutObj   lengths and positions inside `build`, decodeItem of the object itself
-/
import Osmium.Model.HostileLayout
import Osmium.Lemmas.Buf
import Osmium.Lemmas.HostileLayoutObj

namespace Osmium.HostileLayout

open Osmium.Layout

/-- MAIN TARGET.  Under `Guards` the committed bytes of one object decode — with the bounds-checked
    traversals of Model/Layout.lean, i.e. every read stays inside the item — to exactly the content
    the builder calls put in: the user name, and per sub-builder block its tags / node refs /
    members with roles / comments with user and text.  (The integer fields of the fixed part are
    whatever `fixed` holds: `fields` is left existential.) -/
theorem decodeAll_build (fill : UInt8) (o : ObjS) (g : Guards fill o) :
    ∃ fields, decodeAll (build fill o) = .ok [.mk o.kind.ty false fields [o.user] (o.subs.map subTree)] := by
  have hlen := build_length fill o g.fixedLen
  have hmod := objSize_mod fill o
  have hsz : objSize fill o = o.kind.headLen o.user.length + (subsBytes fill o.subs).length := rfl
  have h8 : 8 ≤ o.kind.headLen o.user.length := by
    rw [← headBody_length o g.fixedLen]; omega
  obtain ⟨fields, hd⟩ := decodeItem_build fill o g (build fill o).length (by omega)
  refine ⟨fields, ?_⟩
  unfold decodeAll
  rw [decodeItems, if_neg (by omega), if_neg (by omega), hd]
  simp only [bind, Except.bind, Nat.zero_add]
  rw [padded_of_mod _ (by omega), decodeItems, if_pos rfl]
  rfl

/-- the built object is 8-byte aligned -/
theorem build_length_mod (fill : UInt8) (o : ObjS) (g : Guards fill o) : (build fill o).length % 8 = 0 := by
  rw [build_length fill o g.fixedLen]; exact objSize_mod fill o

end Osmium.HostileLayout
