/-
C18 — the executable IEEE-754 binary64 round-to-nearest-even function `rne53`
(Osmium/Model/Tile.lean) satisfies `RoundSpec`: monotone, odd, exact on the powers of two
2^k (k ≥ -1022), commutes with doubling on [2^-1022, ∞).
-/
import Osmium.Model.Tile
import Mathlib.Data.Rat.Floor
import Mathlib.Tactic.Linarith
import Mathlib.Tactic.Ring
import Mathlib.Tactic.Positivity
import Mathlib.Tactic.NormNum
import Mathlib.Algebra.Order.Field.Power

namespace Osmium.Tile

/-! ### powers of two -/

private theorem two_ne : (2 : Rat) ≠ 0 := by norm_num

private theorem p2_pos (e : Int) : (0 : Rat) < (2 : Rat) ^ e := zpow_pos (by norm_num) e

private theorem p2_le {m n : Int} (h : m ≤ n) : (2 : Rat) ^ m ≤ (2 : Rat) ^ n :=
  zpow_le_zpow_right₀ (by norm_num) h

private theorem p2_lt_iff {m n : Int} : (2 : Rat) ^ m < (2 : Rat) ^ n ↔ m < n :=
  zpow_lt_zpow_iff_right₀ (by norm_num)

private theorem p2_succ (e : Int) : (2 : Rat) ^ (e + 1) = 2 * (2 : Rat) ^ e := by
  rw [zpow_add_one₀ two_ne]; ring

/-- `2^52 · 2^(e-52) = 2^e` -/
private theorem p2_52 (e : Int) : (((2 : Int) ^ (52 : Nat) : Int) : Rat) * (2 : Rat) ^ (e - 52) = (2 : Rat) ^ e := by
  have h : (((2 : Int) ^ (52 : Nat) : Int) : Rat) = (2 : Rat) ^ (52 : Int) := by norm_num
  rw [h, ← zpow_add₀ two_ne]; congr 1; ring

/-- `2^53 · 2^(e-52) = 2^(e+1)` -/
private theorem p2_53 (e : Int) : (((2 : Int) ^ (53 : Nat) : Int) : Rat) * (2 : Rat) ^ (e - 52) = (2 : Rat) ^ (e + 1) := by
  have h : (((2 : Int) ^ (53 : Nat) : Int) : Rat) = (2 : Rat) ^ (53 : Int) := by norm_num
  rw [h, ← zpow_add₀ two_ne]; congr 1; ring

/-! ### ilog2 -/

theorem ilog2_spec {q : Rat} (hq : 0 < q) :
    (2 : Rat) ^ (ilog2 q) ≤ q ∧ q < (2 : Rat) ^ (ilog2 q + 1) := by
  have hnum : 0 < q.num := Rat.num_pos.mpr hq
  have hn0 : q.num.toNat ≠ 0 := by omega
  have hd0 : q.den ≠ 0 := q.den_nz
  have hnq : ((q.num.toNat : Nat) : Rat) = (q.num : Rat) := by
    have : ((q.num.toNat : Nat) : Int) = q.num := Int.toNat_of_nonneg hnum.le
    exact_mod_cast this
  have hqe : q = ((q.num.toNat : Nat) : Rat) / (q.den : Rat) := by
    rw [hnq]; exact (Rat.num_div_den q).symm
  have hdpos : (0 : Rat) < (q.den : Rat) := by exact_mod_cast Nat.pos_of_ne_zero hd0
  -- Nat.log2 bounds, cast to Rat with integer exponents
  have a1 : (2 : Rat) ^ ((q.num.toNat.log2 : Nat) : Int) ≤ ((q.num.toNat : Nat) : Rat) := by
    rw [zpow_natCast]; exact_mod_cast Nat.log2_self_le hn0
  have a2 : ((q.num.toNat : Nat) : Rat) < (2 : Rat) ^ (((q.num.toNat.log2 : Nat) : Int) + 1) := by
    have : ((q.num.toNat.log2 : Nat) : Int) + 1 = ((q.num.toNat.log2 + 1 : Nat) : Int) := by push_cast; ring
    rw [this, zpow_natCast]; exact_mod_cast (Nat.lt_log2_self (n := q.num.toNat))
  have b1 : (2 : Rat) ^ ((q.den.log2 : Nat) : Int) ≤ (q.den : Rat) := by
    rw [zpow_natCast]; exact_mod_cast Nat.log2_self_le hd0
  have b2 : (q.den : Rat) < (2 : Rat) ^ (((q.den.log2 : Nat) : Int) + 1) := by
    have : ((q.den.log2 : Nat) : Int) + 1 = ((q.den.log2 + 1 : Nat) : Int) := by push_cast; ring
    rw [this, zpow_natCast]; exact_mod_cast (Nat.lt_log2_self (n := q.den))
  unfold ilog2
  dsimp only
  generalize ((q.num.toNat.log2 : Nat) : Int) = a at a1 a2 ⊢
  generalize ((q.den.log2 : Nat) : Int) = b at b1 b2 ⊢
  -- q < 2^(a-b+1)
  have up : q < (2 : Rat) ^ (a - b + 1) := by
    have e : (2 : Rat) ^ (a - b + 1) = (2 : Rat) ^ (a + 1) / (2 : Rat) ^ b := by
      rw [← zpow_sub₀ two_ne]; congr 1; ring
    rw [e, hqe, div_lt_div_iff₀ hdpos (p2_pos b)]
    calc ((q.num.toNat : Nat) : Rat) * (2 : Rat) ^ b
        ≤ ((q.num.toNat : Nat) : Rat) * (q.den : Rat) :=
          mul_le_mul_of_nonneg_left b1 (by positivity)
      _ < (2 : Rat) ^ (a + 1) * (q.den : Rat) := mul_lt_mul_of_pos_right a2 hdpos
  -- 2^(a-b-1) < q
  have lo : (2 : Rat) ^ (a - b - 1) < q := by
    have e : (2 : Rat) ^ (a - b - 1) = (2 : Rat) ^ a / (2 : Rat) ^ (b + 1) := by
      rw [← zpow_sub₀ two_ne]; congr 1; ring
    rw [e]; conv_rhs => rw [hqe]
    rw [div_lt_div_iff₀ (p2_pos (b + 1)) hdpos]
    calc (2 : Rat) ^ a * (q.den : Rat)
        < (2 : Rat) ^ a * (2 : Rat) ^ (b + 1) := mul_lt_mul_of_pos_left b2 (p2_pos a)
      _ ≤ ((q.num.toNat : Nat) : Rat) * (2 : Rat) ^ (b + 1) :=
          mul_le_mul_of_nonneg_right a1 (p2_pos (b + 1)).le
  split
  · exact ⟨by assumption, up⟩
  · rename_i h
    refine ⟨lo.le, ?_⟩
    have : a - b - 1 + 1 = a - b := by ring
    rw [this]; exact lt_of_not_ge h

theorem ilog2_unique {q : Rat} {e : Int} (h1 : (2 : Rat) ^ e ≤ q) (h2 : q < (2 : Rat) ^ (e + 1)) :
    ilog2 q = e := by
  have hq : 0 < q := lt_of_lt_of_le (p2_pos e) h1
  obtain ⟨s1, s2⟩ := ilog2_spec hq
  have c1 : ilog2 q < e + 1 := p2_lt_iff.mp (lt_of_le_of_lt s1 h2)
  have c2 : e < ilog2 q + 1 := p2_lt_iff.mp (lt_of_le_of_lt h1 s2)
  omega

theorem ilog2_mono {a b : Rat} (ha : 0 < a) (hab : a ≤ b) : ilog2 a ≤ ilog2 b := by
  obtain ⟨s1, _⟩ := ilog2_spec ha
  obtain ⟨_, t2⟩ := ilog2_spec (lt_of_lt_of_le ha hab)
  have : ilog2 a < ilog2 b + 1 := p2_lt_iff.mp (lt_of_le_of_lt (s1.trans hab) t2)
  omega

theorem ilog2_pow2 (k : Int) : ilog2 ((2 : Rat) ^ k) = k :=
  ilog2_unique le_rfl (p2_lt_iff.mpr (by omega))

theorem ilog2_two_mul {q : Rat} (hq : 0 < q) : ilog2 (2 * q) = ilog2 q + 1 := by
  obtain ⟨s1, s2⟩ := ilog2_spec hq
  apply ilog2_unique
  · rw [p2_succ]; linarith
  · rw [p2_succ (ilog2 q + 1)]; linarith

/-! ### rhe: round half to even -/

private theorem floor_eq (t : Rat) : t.floor = ⌊t⌋ := rfl

/-- `rhe t` is `⌊t⌋` or `⌊t⌋ + 1`, with the cases spelled out. -/
private theorem rhe_cases (t : Rat) :
    (t - ⌊t⌋ < 1 / 2 ∧ rhe t = ⌊t⌋) ∨ (1 / 2 < t - ⌊t⌋ ∧ rhe t = ⌊t⌋ + 1) ∨
    (t - ⌊t⌋ = 1 / 2 ∧ rhe t = if ⌊t⌋ % 2 = 0 then ⌊t⌋ else ⌊t⌋ + 1) := by
  unfold rhe
  dsimp only
  rw [floor_eq]
  by_cases h1 : t - (⌊t⌋ : Rat) < 1 / 2
  · left; exact ⟨h1, by rw [if_pos h1]⟩
  · by_cases h2 : 1 / 2 < t - (⌊t⌋ : Rat)
    · right; left; exact ⟨h2, by rw [if_neg h1, if_pos h2]⟩
    · right; right
      refine ⟨le_antisymm (not_lt.mp h2) (not_lt.mp h1), ?_⟩
      rw [if_neg h1, if_neg h2]

theorem rhe_intCast (n : Int) : rhe (n : Rat) = n := by
  rcases rhe_cases (n : Rat) with ⟨_, h⟩ | ⟨h, _⟩ | ⟨h, _⟩
  · rw [h, Int.floor_intCast]
  · rw [Int.floor_intCast] at h; norm_num at h
  · rw [Int.floor_intCast] at h; norm_num at h

theorem floor_le_rhe (t : Rat) : ⌊t⌋ ≤ rhe t := by
  rcases rhe_cases t with ⟨_, h⟩ | ⟨_, h⟩ | ⟨_, h⟩
  · omega
  · omega
  · rw [h]; split <;> omega

theorem rhe_le_floor_add_one (t : Rat) : rhe t ≤ ⌊t⌋ + 1 := by
  rcases rhe_cases t with ⟨_, h⟩ | ⟨_, h⟩ | ⟨_, h⟩
  · omega
  · omega
  · rw [h]; split <;> omega

theorem le_rhe {n : Int} {t : Rat} (h : (n : Rat) ≤ t) : n ≤ rhe t :=
  (Int.le_floor.mpr h).trans (floor_le_rhe t)

theorem rhe_le {n : Int} {t : Rat} (h : t ≤ (n : Rat)) : rhe t ≤ n := by
  rcases eq_or_lt_of_le h with h | h
  · rw [h, rhe_intCast]
  · have : ⌊t⌋ < n := Int.floor_lt.mpr h
    have := rhe_le_floor_add_one t
    omega

theorem rhe_mono {a b : Rat} (hab : a ≤ b) : rhe a ≤ rhe b := by
  have hf : ⌊a⌋ ≤ ⌊b⌋ := Int.floor_mono hab
  rcases lt_or_eq_of_le hf with hf | hf
  · have := rhe_le_floor_add_one a
    have := floor_le_rhe b
    omega
  · rcases rhe_cases a with ⟨ha, ea⟩ | ⟨ha, ea⟩ | ⟨ha, ea⟩
    · have := floor_le_rhe b
      omega
    · rcases rhe_cases b with ⟨hb, eb⟩ | ⟨hb, eb⟩ | ⟨hb, eb⟩
      · rw [hf] at ha; linarith
      · omega
      · rw [hf] at ha; linarith
    · rcases rhe_cases b with ⟨hb, eb⟩ | ⟨hb, eb⟩ | ⟨hb, eb⟩
      · rw [hf] at ha; linarith
      · have := rhe_le_floor_add_one a
        omega
      · rw [ea, eb, hf]

/-! ### rounding on a grid `u · ℤ` -/

private theorem grid_ge {u q : Rat} (hu : 0 < u) {n : Int} (h : (n : Rat) * u ≤ q) :
    (n : Rat) * u ≤ (rhe (q / u) : Rat) * u := by
  have : n ≤ rhe (q / u) := le_rhe ((le_div_iff₀ hu).mpr h)
  exact mul_le_mul_of_nonneg_right (by exact_mod_cast this) hu.le

private theorem grid_le {u q : Rat} (hu : 0 < u) {n : Int} (h : q ≤ (n : Rat) * u) :
    (rhe (q / u) : Rat) * u ≤ (n : Rat) * u := by
  have : rhe (q / u) ≤ n := rhe_le ((div_le_iff₀ hu).mpr h)
  exact mul_le_mul_of_nonneg_right (by exact_mod_cast this) hu.le

/-! ### rnePos -/

/-- the (clamped) exponent used by `rnePos` -/
private def ex (q : Rat) : Int := max (ilog2 q) (-1022)

private theorem rnePos_eq (q : Rat) :
    rnePos q = (rhe (q / (2 : Rat) ^ (ex q - 52)) : Rat) * (2 : Rat) ^ (ex q - 52) := rfl

theorem rnePos_nonneg {q : Rat} (hq : 0 < q) : 0 ≤ rnePos q := by
  rw [rnePos_eq]
  have := grid_ge (p2_pos (ex q - 52)) (n := 0) (q := q) (by simpa using hq.le)
  simpa using this

private theorem rnePos_le_pow {q : Rat} (hq : 0 < q) : rnePos q ≤ (2 : Rat) ^ (ex q + 1) := by
  rw [rnePos_eq, ← p2_53]
  apply grid_le (p2_pos _)
  rw [p2_53]
  obtain ⟨_, s2⟩ := ilog2_spec hq
  exact s2.le.trans (p2_le (by unfold ex; omega))

private theorem pow_le_rnePos {q : Rat} (hq : 0 < q) (he : ex q = ilog2 q) :
    (2 : Rat) ^ (ex q) ≤ rnePos q := by
  rw [rnePos_eq, ← p2_52 (ex q)]
  apply grid_ge (p2_pos _)
  rw [p2_52, he]
  exact (ilog2_spec hq).1

theorem rnePos_mono {a b : Rat} (ha : 0 < a) (hab : a ≤ b) : rnePos a ≤ rnePos b := by
  have hb : 0 < b := lt_of_lt_of_le ha hab
  have hl : ilog2 a ≤ ilog2 b := ilog2_mono ha hab
  have hE : ex a ≤ ex b := by unfold ex; omega
  rcases eq_or_lt_of_le hE with hE | hE
  · rw [rnePos_eq, rnePos_eq, hE]
    have hu := p2_pos (ex b - 52)
    have : rhe (a / (2 : Rat) ^ (ex b - 52)) ≤ rhe (b / (2 : Rat) ^ (ex b - 52)) :=
      rhe_mono (div_le_div_of_nonneg_right hab hu.le)
    exact mul_le_mul_of_nonneg_right (by exact_mod_cast this) hu.le
  · have hEb : ex b = ilog2 b := by unfold ex at hE ⊢; omega
    calc rnePos a ≤ (2 : Rat) ^ (ex a + 1) := rnePos_le_pow ha
      _ ≤ (2 : Rat) ^ (ex b) := p2_le (by omega)
      _ ≤ rnePos b := pow_le_rnePos hb hEb

/-! ### rne53 -/

theorem rne53_zero : rne53 0 = 0 := by simp [rne53]

theorem rne53_pos {q : Rat} (hq : 0 < q) : rne53 q = rnePos q := by
  unfold rne53; rw [if_neg hq.ne', if_neg (not_lt.mpr hq.le)]

theorem rne53_of_neg {q : Rat} (hq : q < 0) : rne53 q = -rnePos (-q) := by
  unfold rne53; rw [if_neg hq.ne, if_pos hq]

theorem rne53_neg (a : Rat) : rne53 (-a) = -rne53 a := by
  rcases lt_trichotomy a 0 with h | h | h
  · rw [rne53_pos (neg_pos.mpr h), rne53_of_neg h, neg_neg]
  · subst h; simp [rne53_zero]
  · rw [rne53_of_neg (neg_neg_of_pos h), rne53_pos h, neg_neg]

theorem rne53_mono (a b : Rat) (hab : a ≤ b) : rne53 a ≤ rne53 b := by
  rcases lt_trichotomy a 0 with ha | ha | ha
  · rw [rne53_of_neg ha]
    have na := rnePos_nonneg (neg_pos.mpr ha)
    rcases lt_trichotomy b 0 with hb | hb | hb
    · rw [rne53_of_neg hb]
      have := rnePos_mono (neg_pos.mpr hb) (neg_le_neg hab)
      linarith
    · subst hb; rw [rne53_zero]; linarith
    · rw [rne53_pos hb]
      have := rnePos_nonneg hb
      linarith
  · subst ha
    rw [rne53_zero]
    rcases eq_or_lt_of_le hab with hb | hb
    · rw [← hb, rne53_zero]
    · rw [rne53_pos hb]; exact rnePos_nonneg hb
  · rw [rne53_pos ha, rne53_pos (lt_of_lt_of_le ha hab)]
    exact rnePos_mono ha hab

theorem rne53_pow2 (k : Int) (hk : -1022 ≤ k) : rne53 ((2 : Rat) ^ k) = (2 : Rat) ^ k := by
  rw [rne53_pos (p2_pos k), rnePos_eq]
  have he : ex ((2 : Rat) ^ k) = k := by unfold ex; rw [ilog2_pow2]; omega
  rw [he]
  have hd : (2 : Rat) ^ k / (2 : Rat) ^ (k - 52) = (((2 : Int) ^ (52 : Nat) : Int) : Rat) := by
    rw [div_eq_iff (p2_pos _).ne', p2_52]
  rw [hd, rhe_intCast, p2_52]

theorem rne53_two (a : Rat) (ha : (2 : Rat) ^ (-1022 : Int) ≤ a) : rne53 (2 * a) = 2 * rne53 a := by
  have hpos : 0 < a := lt_of_lt_of_le (p2_pos _) ha
  have h2pos : 0 < 2 * a := by linarith
  rw [rne53_pos hpos, rne53_pos h2pos, rnePos_eq, rnePos_eq]
  have hl : -1022 ≤ ilog2 a := by
    have : (-1022 : Int) < ilog2 a + 1 := p2_lt_iff.mp (lt_of_le_of_lt ha (ilog2_spec hpos).2)
    omega
  have e1 : ex a = ilog2 a := by unfold ex; omega
  have e2 : ex (2 * a) = ilog2 a + 1 := by unfold ex; rw [ilog2_two_mul hpos]; omega
  rw [e1, e2]
  have hu : (2 : Rat) ^ (ilog2 a + 1 - 52) = 2 * (2 : Rat) ^ (ilog2 a - 52) := by
    rw [← p2_succ]; congr 1; ring
  have hd : 2 * a / (2 * (2 : Rat) ^ (ilog2 a - 52)) = a / (2 : Rat) ^ (ilog2 a - 52) :=
    mul_div_mul_left _ _ two_ne
  rw [hu, hd]; ring

theorem rne53_roundSpec : RoundSpec rne53 :=
  ⟨rne53_mono, rne53_neg, rne53_pow2, rne53_two⟩

end Osmium.Tile
