/-
The whole file: header blob + data blobs of `encodeFile` read back by `decodeFile` (`PBFParser::run`).
-/
import Osmium.Lemmas.PbfFileFrame

namespace Osmium.Pbf

open Osmium.Wire Osmium.Osm Osmium.PbfMsg

theorem fBytes_ok (tag : Nat) (p : Bytes) (h0 : 0 < tag) (h1 : tag < 17) :
    (fBytes tag p).wt = .lengthDelimited ∧ 0 < (fBytes tag p).tag ∧ (fBytes tag p).tag < 17 ∧ (fBytes tag p).val = 0 :=
  ⟨rfl, h0, h1, rfl⟩

/-- every field `write_header` emits is a length-delimited field with a small tag -/
theorem encHeader_fields (o : Opts) (h : Header) (hf : List Field) (he : encHeader o h = some hf) :
    ∀ f ∈ hf, f.wt = .lengthDelimited ∧ 0 < f.tag ∧ f.tag < 17 ∧ f.val = 0 := by
  have key : ∀ (c : Bool) (g : Field), (g.wt = .lengthDelimited ∧ 0 < g.tag ∧ g.tag < 17 ∧ g.val = 0) →
      ∀ f ∈ (if c then [g] else []), f.wt = .lengthDelimited ∧ 0 < f.tag ∧ f.tag < 17 ∧ f.val = 0 := by
    intro c g hg f hf
    cases c <;> simp at hf
    subst hf; exact hg
  have hrest : ∀ f ∈ [fBytes 4 "OsmSchema-V0.6".toUTF8.toList] ++
      (if o.dense then [fBytes 4 "DenseNodes".toUTF8.toList] else []) ++
      (if o.history then [fBytes 4 "HistoricalInformation".toUTF8.toList] else []) ++
      (if o.locationsOnWays then [fBytes 5 "LocationsOnWays".toUTF8.toList] else []) ++
      [fBytes 16 h.generator], f.wt = .lengthDelimited ∧ 0 < f.tag ∧ f.tag < 17 ∧ f.val = 0 := by
    intro f hf
    simp only [List.mem_append] at hf
    rcases hf with (((hf | hf) | hf) | hf) | hf
    · simp only [List.mem_cons, List.not_mem_nil, or_false] at hf
      subst hf; exact fBytes_ok _ _ (by decide) (by decide)
    · exact key _ _ (fBytes_ok _ _ (by decide) (by decide)) f hf
    · exact key _ _ (fBytes_ok _ _ (by decide) (by decide)) f hf
    · exact key _ _ (fBytes_ok _ _ (by decide) (by decide)) f hf
    · simp only [List.mem_cons, List.not_mem_nil, or_false] at hf
      subst hf; exact fBytes_ok _ _ (by decide) (by decide)
  unfold encHeader at he
  simp only at he
  split at he
  · cases he; exact hrest
  · split at he
    · simp at he
    · cases he
      intro f hf
      rcases List.mem_append.mp hf with hf | hf
      · simp only [List.mem_cons, List.not_mem_nil, or_false] at hf
        subst hf; exact fBytes_ok _ _ (by decide) (by decide)
      · exact hrest f hf

theorem encHeader_wf (o : Opts) (h : Header) (hf : List Field) (he : encHeader o h = some hf)
    (hlen : (encodeFields hf).length < 2 ^ 32) : ∀ f ∈ hf, f.WF := by
  intro f hm
  obtain ⟨hw, h0, h1, hv⟩ := encHeader_fields o h hf he f hm
  have hp := ld_payload_le f hf hm hw
  refine ⟨h0, by simp only [Nat.reducePow]; omega, by omega, ?_⟩
  rw [hw]
  exact ⟨hv, by omega⟩

theorem foldlM_blobs (infl : Nat → Bytes → Nat → Option Bytes) : ∀ (blobs : List Bytes) (ds : List (List Object)) (acc : List Object),
    All2 (fun b d => decodeDataBlob infl {} b = some d) blobs ds →
    blobs.foldlM (fun acc b => (decodeDataBlob infl {} b).map (acc ++ ·)) acc = some (acc ++ ds.flatten)
  | _, _, acc, .nil => by simp
  | _, _, acc, .cons (a := b) (b := d) (l := bl) (m := dl) h1 h2 => by
    have ih := foldlM_blobs infl bl dl (acc ++ d) h2
    simp only [List.foldlM_cons, h1, Option.map_some, Option.bind_some, bind, ih]
    simp

theorem length_le_flatten_length : ∀ (l : List Bytes), (∀ x ∈ l, 1 ≤ x.length) → l.length ≤ l.flatten.length
  | [], _ => by simp
  | x :: l, h => by
    have := length_le_flatten_length l (fun y hy => h y (List.mem_cons_of_mem _ hy))
    have := h x (List.mem_cons_self ..)
    simp only [List.length_cons, List.flatten_cons, List.length_append]
    omega

/-- the finished blobs as (frame, Blob) pairs the parser loop can walk over -/
theorem all2_frames (infl : Nat → Bytes → Nat → Option Bytes) : ∀ (fs : List Bytes) (done : List (List Object)),
    All2 BlobDec fs done →
    ∃ frs : List (Bytes × Bytes), frs.map (·.1) = fs ∧
      (∀ fb ∈ frs, ∀ rest, nextBlob false (fb.1 ++ rest) = some (some (fb.2, rest))) ∧
      (∀ fb ∈ frs, 1 ≤ fb.1.length) ∧
      All2 (fun b d => decodeDataBlob infl {} b = some d) (frs.map (·.2)) done
  | _, _, .nil => ⟨[], rfl, fun _ h => by simp at h, fun _ h => by simp at h, .nil⟩
  | _, _, .cons (a := f) (b := d) (l := fl) (m := dl) h1 h2 => by
    obtain ⟨frs, e1, e2, e3, e4⟩ := all2_frames infl fl dl h2
    obtain ⟨msg, hfr, hdec⟩ := h1
    have hnext : ∀ rest, nextBlob false (f ++ rest) = some (some (blobOf msg, rest)) := fun rest =>
      nextBlob_frameBlob' false _ msg f rest rfl hfr
    have hd : decodeDataBlob infl {} (blobOf msg) = some d := by
      unfold decodeDataBlob
      rw [decodeBlob_blobOf infl msg (frameBlob_some _ _ _ hfr)]
      exact hdec
    have hl := frameBlob_length _ msg f hfr
    refine ⟨(f, blobOf msg) :: frs, by simp [e1], ?_, ?_, ?_⟩
    · intro fb hfb
      rcases List.mem_cons.mp hfb with rfl | hfb
      · exact hnext
      · exact e2 fb hfb
    · intro fb hfb
      rcases List.mem_cons.mp hfb with rfl | hfb
      · simp only; omega
      · exact e3 fb hfb
    · exact .cons hd e4

/-- `PBFParser::run` on the output of the writer.  `hH`: what the header fields decode to (Props/C01Pbf
    `header_roundtrip`). -/
theorem file_roundtrip (infl : Nat → Bytes → Nat → Option Bytes) (o : Opts) (h : Header) (objs : List Object) (bs : Bytes)
    (hf : List Field) (H : Header) (he : encHeader o h = some hf) (hH : decodeMsg headerStep {} hf = some H)
    (henc : encodeFile o h objs = some bs) (hd : ∀ ob ∈ objs, ObjInDomain ob) :
    decodeFile infl {} bs = some (H, objs.filterMap (project o)) := by
  have hm : PbfFraming.maxUncompressedBlobSize = 33554432 := by decide
  unfold encodeFile at henc
  simp only [he, bind, Option.bind] at henc
  cases hfb : frameBlob PbfFraming.osmHeader (encodeFields hf) with
  | none => simp [hfb] at henc
  | some hb =>
    simp only [hfb] at henc
    by_cases hfail : ((objs.foldl (WState.write o) {}).store o).failed = true
    · simp [hfail] at henc
    · simp only [hfail, Bool.false_eq_true, ↓reduceIte, Option.some.injEq] at henc
      have hfail' : ((objs.foldl (WState.write o) {}).store o).failed = false := by simpa using hfail
      obtain ⟨done, hdone, hall⟩ := writer_blobs_decode o objs hd hfail'
      obtain ⟨frs, e1, e2, e3, e4⟩ := all2_frames infl _ done hall
      have hnext := nextBlob_frameBlob' true _ (encodeFields hf) hb ((frs.map (·.1)).flatten) rfl hfb
      have hmlen := frameBlob_some _ _ _ hfb
      have hhdr : decodeHeader infl (blobOf (encodeFields hf)) = some H := by
        unfold decodeHeader
        rw [decodeBlob_blobOf infl _ (by omega)]
        simp only [bind, Option.bind]
        unfold withFields
        rw [readFields_encodeFields _ (encHeader_wf o h hf he (by simp only [Nat.reducePow]; omega))]
        exact hH
      have hblobs := dataBlobs_frames frs ((frs.map (·.1)).flatten.length + 1) [] e2 (by
        have := length_le_flatten_length (frs.map (·.1)) (fun x hx => by
          obtain ⟨fb, hfb', rfl⟩ := List.mem_map.mp hx; exact e3 fb hfb')
        simp only [List.length_map] at this
        omega)
      have hfold := foldlM_blobs infl (frs.map (·.2)) done [] e4
      subst henc
      rw [← e1]
      unfold decodeFile
      simp only [hnext, bind, Option.bind, hhdr, hblobs, List.reverse_nil, List.nil_append, hfold, hdone]
      simp

end Osmium.Pbf
