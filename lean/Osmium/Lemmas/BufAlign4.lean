/-
C04 alignment invariant, part 4: `plan` only hands out invariant-preserving programs; unwinding never
reaches std::terminate; every script operation preserves `AInv`; hence every reachable state
satisfies it.
-/
import Osmium.Lemmas.BufAlign3

namespace Osmium.Buf

open Osmium.Layout

/-! ### unwinding -/

theorem unwind_ainv (fuel : Nat) (s : St) (hA : AInv s) (hf : s.stack.length ≤ fuel) :
    (unwind fuel s).2 = none ∧ AInv (unwind fuel s).1 ∧ (unwind fuel s).1.stack = [] := by
  induction fuel generalizing s with
  | zero =>
    have : s.stack = [] := List.eq_nil_of_length_eq_zero (by omega)
    exact ⟨rfl, hA, this⟩
  | succ n ih =>
    simp only [unwind]
    split
    · rename_i hst; exact ⟨rfl, hA, hst⟩
    · rename_i f rest hst
      obtain ⟨s', hs', hA'⟩ := close_ainv s f rest hA hst
      rw [hs']
      exact ih _ hA' (by rw [hst] at hf; simp at hf ⊢; omega)

/-! ### what `plan` hands to `runMicros` -/

def PlanOK (fs : List (Nat × Kind)) (pl : Nat) : List Micro → After → Prop
  | ms, .nothing => AllAOK fs ms
  | ms, .commit => AllAOK fs ms ∧ fs = []
  | ms, .push off k => ms = mCtor k (fs.map (·.1)) ∧ off = pl ∧ pl % 8 = 0 ∧ (k.isObj = true → fs = [])
  | ms, .pop => ∃ f r, fs = f :: r ∧ ms = mDtor f.2 (fs.map (·.1))

theorem topIs_some (fs : List (Nat × Kind)) (pr : Kind → Bool) (f : Nat × Kind) (h : topIs fs pr = some f) :
    ∃ r, fs = f :: r ∧ pr f.2 = true := by
  cases fs with
  | nil => simp [topIs] at h
  | cons g r =>
    simp only [topIs] at h
    split at h
    · injection h with h; subst h; exact ⟨r, rfl, by assumption⟩
    · cases h

theorem allAOK_single {sig : List (Nat × Kind)} {m : Micro} (h : m.AOK sig) : AllAOK sig [m] := by
  intro x hx; simp only [List.mem_cons, List.not_mem_nil, or_false] at hx; subst hx; exact h

theorem objTop_of (fs : List (Nat × Kind)) (pr : Kind → Bool) (f : Nat × Kind) (h : topIs fs pr = some f)
    (hpr : ∀ k, pr k = true → k.isObj = true) : ObjTop fs := by
  obtain ⟨r, rfl, hp⟩ := topIs_some fs pr f h
  exact ⟨f, r, rfl, hpr _ hp⟩

theorem listTop_of (fs : List (Nat × Kind)) (pr : Kind → Bool) (f : Nat × Kind) (h : topIs fs pr = some f)
    (hpr : ∀ k, pr k = true → k.isObj = false) : ListTop fs := by
  obtain ⟨r, rfl, hp⟩ := topIs_some fs pr f h
  exact ⟨f, r, rfl, hpr _ hp⟩

theorem allAOK_mSetUser (sig : List (Nat × Kind)) (hs : ObjTop sig) (k : Kind) (u : Bytes) :
    AllAOK sig (mSetUser k (sig.map (·.1)) u) := by
  obtain ⟨f, r, rfl, hk⟩ := hs
  simp only [List.map_cons, mSetUser]
  apply allAOK_single
  apply aok_alloc
  apply aok_alloc_obj _ (Or.inl ⟨f, r, rfl, hk⟩)
  · split
    · exact padded_mod _
    · rfl
  · intro off p; simp only []; split <;> (try split) <;> simp

theorem isObj_of_and (k : Kind) (h : (k.isObj && k != Kind.changeset) = true) : k.isObj = true := by
  simp only [Bool.and_eq_true] at h; exact h.1

theorem plan_ok (fs : List (Nat × Kind)) (pl : Nat) (aux : Bytes) (av : Bool) (c0 : Bytes) (op : Op)
    (ms : List Micro) (a : After) (haux : aux.length % 8 = 0)
    (h : plan fs pl aux av c0 op = .micros ms a) : PlanOK fs pl ms a := by
  cases op with
  | «open» k =>
    simp only [plan] at h
    split at h
    · cases h
    · rename_i hno
      split at h
      · cases h
      · rename_i hal
        injection h with h1 h2; subst h1; subst h2
        refine ⟨rfl, rfl, by omega, ?_⟩
        intro hk
        cases fs with
        | nil => rfl
        | cons f r => exact absurd ⟨hk, by simp⟩ hno
  | setField fo w v =>
    simp only [plan] at h
    split at h
    · cases h
    · rename_i f hf
      injection h with h1 h2; subst h1; subst h2
      exact allAOK_single (aok_upd (aok_upd_obj fs (objTop_of fs _ f hf (fun _ h => h)) _ (by intro p; simp)))
  | setVersion v =>
    simp only [plan] at h
    split at h
    · cases h
    · rename_i f hf
      injection h with h1 h2; subst h1; subst h2
      exact allAOK_single (aok_upd (aok_upd_obj fs (objTop_of fs _ f hf isObj_of_and) _ (by intro p; simp)))
  | setDeleted d =>
    simp only [plan] at h
    split at h
    · cases h
    · rename_i f hf
      injection h with h1 h2; subst h1; subst h2
      exact allAOK_single (aok_upd (aok_upd_obj fs (objTop_of fs _ f hf isObj_of_and) _ (by intro p; simp)))
  | setRemoved v =>
    simp only [plan] at h
    split at h
    · cases h
    · rename_i f hf
      injection h with h1 h2; subst h1; subst h2
      exact allAOK_single (aok_upd (aok_upd_obj fs (objTop_of fs _ f hf (fun _ h => h)) _ (by intro p; simp)))
  | user u =>
    simp only [plan] at h
    split at h
    · cases h
    · rename_i f hf
      injection h with h1 h2; subst h1; subst h2
      exact allAOK_mSetUser fs (objTop_of fs _ f hf (fun _ h => h)) _ _
  | tag k v =>
    simp only [plan] at h
    split at h
    · cases h
    · rename_i f hf
      injection h with h1 h2; subst h1; subst h2
      exact allAOK_mTag fs (listTop_of fs _ f hf (fun k h => by cases k <;> simp_all [Kind.isObj])) _ _
  | nodeRef ref x y =>
    simp only [plan] at h
    split at h
    · cases h
    · rename_i f hf
      split at h
      · cases h
      · injection h with h1 h2; subst h1; subst h2
        exact allAOK_mNodeRef fs (listTop_of fs _ f hf (fun k h => by cases k <;> simp_all [Kind.isObj])) _ _ _
  | member ty ref role full =>
    simp only [plan] at h
    split at h
    · cases h
    · rename_i f hf
      split at h
      · cases h
      · split at h
        · cases h
        · injection h with h1 h2; subst h1; subst h2
          exact allAOK_mMember fs (listTop_of fs _ f hf (fun k h => by cases k <;> simp_all [Kind.isObj])) _ _ _ _
  | comment date uid user =>
    simp only [plan] at h
    split at h
    · cases h
    · rename_i f hf
      split at h
      · cases h
      · injection h with h1 h2; subst h1; subst h2
        exact allAOK_mComment fs (listTop_of fs _ f hf (fun k h => by cases k <;> simp_all [Kind.isObj])) _ _ _
  | commentText text =>
    simp only [plan] at h
    split at h
    · cases h
    · rename_i f hf
      injection h with h1 h2; subst h1; subst h2
      exact allAOK_mCommentText fs (listTop_of fs _ f hf (fun k h => by cases k <;> simp_all [Kind.isObj])) _
  | close =>
    simp only [plan] at h
    split at h
    · cases h
    · rename_i f r
      injection h with h1 h2; subst h1; subst h2
      exact ⟨f, r, rfl, rfl⟩
  | commit => simp only [plan] at h; split at h <;> cases h
  | rollback => simp only [plan] at h; split at h <;> cases h
  | clear => simp only [plan] at h; split at h <;> cases h
  | addBuffer =>
    simp only [plan] at h
    split at h
    · cases h
    · rename_i hc
      injection h with h1 h2; subst h1; subst h2
      have hfs : fs = [] := by
        cases fs with
        | nil => rfl
        | cons f r => simp at hc
      subst hfs
      exact allAOK_single (aok_alloc (aok_alloc_obj [] (Or.inr rfl) aux.length haux _ (by intro off p; simp)))
  | pushBack k =>
    simp only [plan] at h
    split at h
    · cases h
    · rename_i hc
      split at h
      · cases h
      · rename_i hd hn
        injection h with h1 h2; subst h1; subst h2
        have hfs : fs = [] := by
          cases fs with
          | nil => rfl
          | cons f r => simp at hc
        subst hfs
        have hsp := nthItem_spec _ _ _ hn
        refine ⟨allAOK_single (aok_alloc (aok_alloc_obj [] (Or.inr rfl) _ ?_ _ (by intro off p; simp))), rfl⟩
        rw [slice_length _ _ _ hsp.1]; exact hsp.2
  | swap => simp only [plan] at h; split at h <;> cases h
  | move => simp only [plan] at h; split at h <;> cases h
  | setRm k v => simp only [plan] at h; split at h <;> cases h
  | purge => simp only [plan] at h; split at h <;> cases h
  | popNested => simp only [plan] at h; cases h

/-! ### whole operations -/

theorem ainv_dead (s : St) (d : Option Err) (h : AInv s) : AInv { s with dead := d } :=
  ⟨h.bounds, h.c0, h.cap0, h.a1, h.cap1, h.pinv⟩

theorem commit_ainv (s : St) (hA : AInv s) (hst : s.stack = []) :
    AInv { s with b0 := { s.b0 with committed := s.b0.written } } := by
  obtain ⟨hb, hc0, hcap0, ha1, hcap1, hp⟩ := hA
  rw [hst] at hp
  have hlen := hp.2
  simp only [TopOK] at hlen
  have hpl := pend_length s.b0 hb.1.1
  have hw : s.b0.written % 8 = 0 := by have := hb.1.1; omega
  refine ⟨⟨⟨Nat.le_refl _, hb.1.2⟩, hb.2⟩, hw, hcap0, ha1, hcap1, ?_⟩
  simp only [hst]
  have : ({ s.b0 with committed := s.b0.written } : Buf).pend = [] := (commit_done s.b0 hb.1.1).2
  rw [this]
  exact ⟨trivial, rfl⟩

/-- the after-effect and the error handling of `runMicros`, given the invariant after the program -/
theorem runMicros_ainv (s : St) (ms : List Micro) (a : After) (hlp : AllLP ms) (hA : AInv s)
    (hok : PlanOK (frameSig s.stack) s.b0.pend.length ms a) :
    AInv (runMicros s ms (applyAfter a)).1 ∧ (runMicros s ms (applyAfter a)).2 ≠ .terminate ∧
    (s.dead ≠ some .full → (runMicros s ms (applyAfter a)).1.dead ≠ some .full) := by
  -- the invariant after the program (complete or interrupted) and after a complete program + after-effect
  have key : ((execMicros s ms).2 ≠ none → AInv (execMicros s ms).1) ∧
      ((execMicros s ms).2 = none → AInv (applyAfter a (execMicros s ms).1)) := by
    cases a with
    | nothing =>
      have := execMicros_ainv _ ms s hok hlp ⟨hA, rfl⟩
      exact ⟨fun _ => this.1, fun _ => this.1⟩
    | commit =>
      have := execMicros_ainv _ ms s hok.1 hlp ⟨hA, rfl⟩
      refine ⟨fun _ => this.1, fun _ => ?_⟩
      have hst : (execMicros s ms).1.stack = [] := by
        have h2 := this.2; rw [hok.2] at h2
        cases h : (execMicros s ms).1.stack with
        | nil => rfl
        | cons f r => rw [h] at h2; simp [frameSig] at h2
      exact commit_ainv _ this.1 hst
    | push off k =>
      obtain ⟨rfl, rfl, hal, hobj⟩ := hok
      have hobj' : k.isObj = true → s.stack = [] := by
        intro hk
        have := hobj hk
        cases h : s.stack with
        | nil => rfl
        | cons f r => rw [h] at this; simp [frameSig] at this
      rw [← offsOf_sig]
      exact ⟨fun _ => (ctor_ainv s k hA hal hobj').1, (ctor_ainv s k hA hal hobj').2⟩
    | pop =>
      obtain ⟨f, r, hfs, rfl⟩ := hok
      cases hst : s.stack with
      | nil => rw [hst] at hfs; simp [frameSig] at hfs
      | cons fr rest =>
        have hk : f.2 = fr.kind := by rw [hst] at hfs; simp [frameSig] at hfs; rw [← hfs.1]
        obtain ⟨s', hs', hA'⟩ := close_ainv s fr rest hA hst
        rw [hk, ← offsOf_sig, ← hst, hs']
        have htl : s'.stack.tail = rest := by
          have := execMicros_tail (mDtor fr.kind (offsOf s.stack)) s
          rw [hs'] at this; rw [this, hst]; rfl
        refine ⟨fun h => absurd rfl h, fun _ => ?_⟩
        simp only [applyAfter, htl]; exact hA'
  obtain ⟨k1, k2⟩ := key
  have hdead : (execMicros s ms).1.dead = s.dead := (execMicros_fix ms s).2.1
  simp only [runMicros]
  generalize execMicros s ms = r at k1 k2 hdead
  obtain ⟨s', oe⟩ := r
  cases oe with
  | none =>
    refine ⟨k2 rfl, by simp, ?_⟩
    intro hd; simp only []; rw [(applyAfter_fix a s').2, hdead]; exact hd
  | some e =>
    cases e with
    | full =>
      simp only []
      obtain ⟨u1, u2, _⟩ := unwind_ainv (s'.stack.length + 1) s' (k1 (by simp)) (by omega)
      have hud := (unwind_fix (s'.stack.length + 1) s').2
      generalize unwind (s'.stack.length + 1) s' = r at u1 u2 hud
      obtain ⟨s'', oe⟩ := r
      simp only [] at u1; subst u1
      refine ⟨u2, by simp, ?_⟩
      intro hd; simp only []; rw [hud, hdead]; exact hd
    | stale => exact ⟨ainv_dead _ _ (k1 (by simp)), by simp [Status.ofErr], by simp⟩
    | null => exact ⟨ainv_dead _ _ (k1 (by simp)), by simp [Status.ofErr], by simp⟩
    | misaligned => exact ⟨ainv_dead _ _ (k1 (by simp)), by simp [Status.ofErr], by simp⟩

theorem ainv_nil_iff (s : St) (hst : s.stack = []) :
    AInv s ↔ (s.Bounds ∧ s.b0.Aligned ∧ s.b0.cap % 8 = 0 ∧ s.b1.Aligned ∧ s.b1.cap % 8 = 0) := by
  constructor
  · rintro ⟨hb, hc0, hcap0, ha1, hcap1, hp⟩
    rw [hst] at hp
    have := hp.2; simp only [TopOK] at this
    have hpl := pend_length s.b0 hb.1.1
    exact ⟨hb, ⟨hc0, by have := hb.1.1; omega⟩, hcap0, ha1, hcap1⟩
  · rintro ⟨hb, ha0, hcap0, ha1, hcap1⟩
    refine ⟨hb, ha0.1, hcap0, ha1, hcap1, ?_⟩
    rw [hst]
    have hpl := pend_length s.b0 hb.1.1
    refine ⟨trivial, ?_⟩
    simp only [TopOK]
    have := ha0.2; have := ha0.1; have := hb.1.1; omega

theorem purgeBuf_cap (b : Buf) : (purgeBuf b).1.cap = b.cap := by
  simp only [purgeBuf]
  split
  · rfl
  · rfl

theorem execBufOp_stack (s : St) (o : BufOp) : (execBufOp s o).1.stack = s.stack := by
  cases o <;> simp only [execBufOp] <;> rfl

theorem plan_bufop_stack (fs : List (Nat × Kind)) (pl : Nat) (aux : Bytes) (av : Bool) (c : Bytes) (op : Op) (o : BufOp)
    (hp : plan fs pl aux av c op = .bufop o) : fs = [] ∨ (∃ off v, o = .setRm off v) ∨ o = .popNested := by
  cases op <;> simp only [plan] at hp <;> (repeat' split at hp) <;>
    first
    | (cases hp; done)
    | (injection hp with hp; subst hp
       first
       | (left; rename_i hc; cases fs with
          | nil => rfl
          | cons f r => simp at hc)
       | (right; left; exact ⟨_, _, rfl⟩)
       | (right; right; rfl))

theorem execBufOp_ainv (s : St) (o : BufOp) (hA : AInv s)
    (hst : s.stack = [] ∨ (∃ off v, o = .setRm off v) ∨ o = .popNested) : AInv (execBufOp s o).1 := by
  rcases hst with hst | ⟨off, v, rfl⟩ | rfl
  · obtain ⟨hb, ha0, hcap0, ha1, hcap1⟩ := (ainv_nil_iff s hst).1 hA
    rw [ainv_nil_iff _ (by rw [execBufOp_stack]; exact hst)]
    have hal := execBufOp_aligned s o hb ha0 ha1
    refine ⟨execBufOp_bounds s o hb, hal.1, ?_, hal.2, ?_⟩
    · cases o <;> simp only [execBufOp] <;> first | exact hcap0 | exact hcap1 | skip
      rw [purgeBuf_cap]; exact hcap0
    · cases o <;> simp only [execBufOp] <;> first | exact hcap1 | exact hcap0
  · obtain ⟨hb, hc0, hcap0, ha1, hcap1, hp⟩ := hA
    have hb' := execBufOp_bounds s (.setRm off v) ⟨hb.1, hb.2⟩
    refine ⟨hb', hc0, hcap0, ha1, hcap1, ?_⟩
    simp only [execBufOp]
    have : ({ s.b0 with bytes := flagWord s.b0.comm off v ++ s.b0.pend } : Buf).pend = s.b0.pend := by
      simp only [Buf.pend]
      have hl : (flagWord s.b0.comm off v).length = s.b0.committed := by
        have := hb.1.1
        simp only [flagWord_length, Buf.comm, List.length_take, Buf.written] at *; omega
      rw [← hl, List.drop_left]
    rw [this]; exact hp
  · obtain ⟨hb, hc0, hcap0, ha1, hcap1, hp⟩ := hA
    exact ⟨execBufOp_bounds s .popNested ⟨hb.1, hb.2⟩, hc0, hcap0, ha1, hcap1, hp⟩

theorem ainv_init (c0 c1 : Nat) (m0 m1 : Mode) (fill : UInt8) (fix : Bool) : AInv (St.init c0 m0 c1 m1 fill fix) := by
  rw [ainv_nil_iff _ rfl]
  exact ⟨⟨bounds_mk _ _ _, bounds_mk _ _ _⟩, aligned_mk _ _ _, calcCap_mod _, aligned_mk _ _ _, calcCap_mod _⟩

/-- one script operation preserves the alignment invariant, never answers `terminate`, and never
    enters the "destructor threw" state -/
theorem step_ainv (s : St) (op : Op) (hA : AInv s) :
    AInv (step s op).1 ∧ (s.dead ≠ some .full → (step s op).2.1 ≠ .terminate ∧ (step s op).1.dead ≠ some .full) := by
  have haux : s.b1.comm.length % 8 = 0 := by
    have := hA.bounds.2.1; have := hA.a1.1
    simp only [Buf.comm, Buf.written, List.length_take] at *; omega
  simp only [step]
  split
  · rename_i e he
    refine ⟨hA, fun hd => ⟨?_, hd⟩⟩
    cases e <;> simp_all [Status.ofErr]
  · rename_i hdead
    split
    · exact ⟨hA, fun hd => ⟨by simp, hd⟩⟩
    · split
      · exact ⟨hA, fun hd => ⟨by simp, hd⟩⟩
      · rename_i e hp
        have := plan_die _ _ _ _ _ _ _ hp
        subst this
        exact ⟨ainv_dead _ _ hA, fun _ => ⟨by simp [Status.ofErr], by simp⟩⟩
      · rename_i ms a hp
        have := runMicros_ainv s ms a (plan_LP _ _ _ _ _ _ _ _ hp) hA (plan_ok _ _ _ _ _ _ _ _ haux hp)
        exact ⟨this.1, fun hd => ⟨this.2.1, this.2.2 hd⟩⟩
      · rename_i o hp
        refine ⟨execBufOp_ainv s o hA ?_, fun hd => ⟨by simp, ?_⟩⟩
        · rcases plan_bufop_stack _ _ _ _ _ _ _ hp with h | h | h
          · left
            cases hs : s.stack with
            | nil => rfl
            | cons f r => rw [hs] at h; simp [frameSig] at h
          · exact Or.inr (Or.inl h)
          · exact Or.inr (Or.inr h)
        · rw [(execBufOp_fix s o).2]; exact hd

theorem run_ainv (ops : List Op) (s : St) (hA : AInv s) (hd : s.dead ≠ some .full) :
    AInv (run s ops) ∧ (run s ops).dead ≠ some .full := by
  induction ops generalizing s with
  | nil => exact ⟨hA, hd⟩
  | cons op ops ih =>
    have := step_ainv s op hA
    exact ih _ this.1 (this.2 hd).2

/-! ### where `misaligned` can come from -/

theorem execBase_not_misaligned (s : St) (m : Micro) : execBase s m ≠ .error .misaligned := by
  cases m with
  | alloc n save g =>
    intro h
    have := execBase_alloc_err s n save g _ h
    cases this
  | upd g => simp [execBase]
  | deref keep g =>
    simp only [execBase]
    split
    · simp
    · split
      · simp
      · split <;> simp
  | finish offs => simp [execBase]

theorem execList_not_misaligned (ex : St → Micro → Except Err St) (hex : ∀ s m, ex s m ≠ .error .misaligned)
    (ms : List Micro) (s : St) : (execList ex s ms).2 ≠ some .misaligned := by
  induction ms generalizing s with
  | nil => simp [execList]
  | cons m ms ih =>
    simp only [execList]
    cases h : ex s m with
    | error e =>
      intro he; simp at he; subst he
      exact hex s m h
    | ok s' => exact ih s'

theorem execMicro_not_misaligned (s : St) (m : Micro) : execMicro s m ≠ .error .misaligned := by
  cases m with
  | finish offs =>
    have hl := execList_not_misaligned execBase execBase_not_misaligned (mCommentText offs []) s
    simp only [execMicro]
    split
    · split
      · simp
      · simp
      · rename_i s' e hne he
        intro h; injection h with h; subst h
        rw [he] at hl; exact hl rfl
    · simp
  | alloc n save g => simp only [execMicro]; exact execBase_not_misaligned s _
  | upd g => simp only [execMicro]; exact execBase_not_misaligned s _
  | deref keep g => simp only [execMicro]; exact execBase_not_misaligned s _

/-- the outcome `misaligned` (= `assert(buffer.is_aligned())` of the Builder constructor /
    reserve_space_for) arises in exactly one way: a sub-builder or a fixed-size member is started
    while the uncommitted part is not a multiple of 8 long -/
theorem step_misaligned (s : St) (op : Op) (h : (step s op).1.dead = some .misaligned) :
    s.dead = some .misaligned ∨ s.b0.pend.length % 8 ≠ 0 := by
  simp only [step] at h
  split at h
  · left; exact h
  · rename_i hdead
    split at h
    · rw [hdead] at h; cases h
    · split at h
      · rw [hdead] at h; cases h
      · rename_i e hp
        right
        cases op <;> simp only [plan] at hp <;> (repeat' split at hp) <;>
          first
          | (cases hp; done)
          | assumption
      · rename_i ms a hp
        exfalso
        have hnm := execList_not_misaligned execMicro execMicro_not_misaligned ms s
        have hdd : (execMicros s ms).1.dead = s.dead := (execMicros_fix ms s).2.1
        simp only [runMicros] at h
        unfold execMicros at h hdd
        generalize execList execMicro s ms = r at h hnm hdd
        obtain ⟨s', oe⟩ := r
        cases oe with
        | none =>
          simp only [] at h hdd
          rw [(applyAfter_fix a s').2, hdd, hdead] at h; cases h
        | some e =>
          cases e with
          | full =>
            simp only [] at h
            have hud := (unwind_fix (s'.stack.length + 1) s').2
            generalize unwind (s'.stack.length + 1) s' = r at h hud
            obtain ⟨s'', oe⟩ := r
            cases oe with
            | none => simp only [] at h hud hdd; rw [hud, hdd, hdead] at h; cases h
            | some e => simp at h
          | stale => simp at h
          | null => simp at h
          | misaligned => exact hnm rfl
      · rename_i o hp
        rw [(execBufOp_fix s o).2, hdead] at h; cases h

end Osmium.Buf
