/-
C03 (o5m part) — what the o5m decoder hands to the builders.

For EVERY input byte string: each string of each object the o5m decoder model (`Osmium.O5m.decode`,
`decodeChunks`) emits — user name, tag keys and values, member roles — is at most
`max_osm_string_length` = 1024 bytes long and contains no NUL byte, and no emitted object is a
changeset.

NUL-freeness holds by construction: every string is what `walkPre`/`walkPost` walked over before the
first 0 byte (`while (*data++)`); the length bounds are the explicit checks of `decode_user`
(repair 0243f9d), `TagListBuilder::add_tag`, `RelationMemberListBuilder::add_role`.

Partial-correctness predicate `Post x P` = "if `x` is a value then it satisfies `P`" (the companion of
`Osmium.O5m.Safe` in Lemmas/O5mSafe.lean, which excludes oob/ub).  Core-only.
-/
import Osmium.Model.O5m
import Osmium.Model.HostilePbf

namespace Osmium.HostileO5m

open Osmium.Osm Osmium.O5m

/-- if `x` is a value, it satisfies `P` -/
def Post {α : Type} (x : Res α) (P : α → Prop) : Prop :=
  match x with
  | .ok a => P a
  | .err _ => True
  | .oob => True
  | .ub _ => True

theorem Post.bind {α β : Type} {x : Res α} {f : α → Res β} {P : α → Prop} {Q : β → Prop}
    (hx : Post x P) (hf : ∀ a, P a → Post (f a) Q) : Post (x >>= f) Q := by
  cases x with
  | ok a => exact hf a hx
  | err e => trivial
  | oob => trivial
  | ub u => trivial

theorem Post.triv {α : Type} (x : Res α) : Post x (fun _ => True) := by
  cases x <;> trivial

theorem Post.of_ok {α : Type} {x : Res α} {P : α → Prop} {a : α} (hx : Post x P) (h : x = .ok a) : P a := by
  rw [h] at hx; exact hx

/-! ### strings -/

/-- a string a builder accepts: at most `max_osm_string_length` bytes, no NUL -/
def GoodStr (s : List UInt8) : Prop := s.length ≤ 1024 ∧ HostileLayout.noNul s = true

theorem noNul_of_forall {s : List UInt8} (h : ∀ x ∈ s, x ≠ 0) : HostileLayout.noNul s = true := by
  simp only [HostileLayout.noNul, Bool.not_eq_true', List.contains_eq_mem, decide_eq_false_iff_not]
  intro h0
  exact h 0 h0 rfl

theorem forall_of_noNul {s : List UInt8} (h : HostileLayout.noNul s = true) : ∀ x ∈ s, x ≠ 0 := by
  simp only [HostileLayout.noNul, Bool.not_eq_true', List.contains_eq_mem, decide_eq_false_iff_not] at h
  intro x hx h0
  subst h0
  exact h hx

theorem goodStr_nil : GoodStr [] := ⟨by simp, by decide⟩

/-- `while (*data++)`: the string walked over has no 0 byte -/
theorem walkPost_post (e : Err) (inDs : Bool) : ∀ (l acc : List UInt8), (∀ x ∈ acc, x ≠ 0) →
    Post (walkPost e l inDs acc) (fun (s, _) => ∀ x ∈ s, x ≠ 0)
  | [], _, _ => trivial
  | b :: r, acc, ha => by
    simp only [walkPost]
    by_cases hb : b = 0
    · simp only [hb, beq_self_eq_true, ↓reduceIte]
      intro x hx
      exact ha x (List.mem_reverse.mp hx)
    · have hb' : (b == 0) = false := by simpa using hb
      simp only [hb', Bool.false_eq_true, ↓reduceIte]
      by_cases hc : (inDs && r.isEmpty) = true
      · simp only [hc, ↓reduceIte]; trivial
      · simp only [hc, Bool.false_eq_true, ↓reduceIte]
        refine walkPost_post e inDs r (b :: acc) ?_
        intro x hx
        rcases List.mem_cons.mp hx with hx | hx
        · rw [hx]; exact hb
        · exact ha x hx

/-- `do { … } while (*data++)`: the string walked over has no 0 byte -/
theorem walkPre_post (e : Err) (inDs : Bool) : ∀ (l acc : List UInt8), (∀ x ∈ acc, x ≠ 0) →
    Post (walkPre e l inDs acc) (fun (s, _) => ∀ x ∈ s, x ≠ 0)
  | [], _, _ => by
    simp only [walkPre]
    split <;> trivial
  | b :: r, acc, ha => by
    simp only [walkPre]
    by_cases hb : b = 0
    · simp only [hb, beq_self_eq_true, ↓reduceIte]
      intro x hx
      exact ha x (List.mem_reverse.mp hx)
    · have hb' : (b == 0) = false := by simpa using hb
      simp only [hb', Bool.false_eq_true, ↓reduceIte]
      refine walkPre_post e inDs r (b :: acc) ?_
      intro x hx
      rcases List.mem_cons.mp hx with hx | hx
      · rw [hx]; exact hb
      · exact ha x hx

theorem nil_no0 : ∀ x ∈ ([] : List UInt8), x ≠ 0 := by
  intro x hx; cases hx

/-! ### user -/

theorem decodeUser_post (tab : Table) (data : List UInt8) :
    Post (decodeUser tab data) (fun (x, _, _) => GoodStr x.2) := by
  unfold decodeUser
  refine Post.bind (Post.triv _) ?_
  rintro ⟨start, cur⟩ _
  refine Post.bind (Post.triv _) ?_
  rintro ⟨uid, p⟩ _
  dsimp only
  split
  · trivial
  · split
    · trivial
    · split
      · split
        · exact goodStr_nil
        · exact goodStr_nil
      · refine Post.bind (walkPre_post .noNulUser p.inDs p.rest.tail [] nil_no0) ?_
        rintro ⟨name, p2⟩ hn
        dsimp only at hn ⊢
        split
        · trivial
        · next hlen =>
          have hg : GoodStr name := ⟨by simp only [maxOsmStringLength] at hlen; omega, noNul_of_forall hn⟩
          split
          · exact hg
          · exact hg

theorem decodeInfo_post (st : St) (data : List UInt8) :
    Post (decodeInfo st data) (fun (i, _, _) => GoodStr i.user) := by
  cases data with
  | nil => trivial
  | cons b rest =>
    simp only [decodeInfo]
    split
    · exact goodStr_nil
    · refine Post.bind (Post.triv _) ?_
      rintro ⟨version, d1⟩ _
      dsimp only
      split
      · trivial
      · refine Post.bind (Post.triv _) ?_
        rintro ⟨tsd, d2⟩ _
        dsimp only
        split
        · refine Post.bind (Post.triv _) ?_
          rintro ⟨csd, d3⟩ _
          dsimp only
          split
          · refine Post.bind (decodeUser_post _ d3) ?_
            rintro ⟨⟨uid, user⟩, tab', d4⟩ ht
            exact ht
          · exact goodStr_nil
        · exact goodStr_nil

/-- `set_user(const char*)` in both build modes keeps an acceptable name (unchanged, in fact) -/
theorem setUser_post (cfg : Cfg) (u : List UInt8) (hu : GoodStr u) : Post (setUser cfg u) GoodStr := by
  unfold setUser
  split
  · split
    · trivial
    · exact hu
  · split
    · trivial
    · show GoodStr (u.take (u.length % 65536))
      have hl : u.length % 65536 = u.length := Nat.mod_eq_of_lt (by have := hu.1; omega)
      rw [hl, List.take_length]
      exact hu

/-! ### tags -/

def TagsOk (ts : List Tag) : Prop := ∀ t ∈ ts, GoodStr t.key ∧ GoodStr t.value

theorem tagsOk_nil : TagsOk [] := by
  intro t ht; cases ht

theorem TagsOk.strings {ts : List Tag} (h : TagsOk ts) : ∀ s ∈ HostilePbf.tagStrings ts, GoodStr s := by
  intro s hs
  simp only [HostilePbf.tagStrings, List.mem_flatMap, List.mem_cons, List.not_mem_nil, or_false] at hs
  obtain ⟨t, ht, hs⟩ := hs
  rcases hs with hs | hs
  · rw [hs]; exact (h t ht).1
  · rw [hs]; exact (h t ht).2

theorem decodeTagsGo_post : ∀ (fuel : Nat) (tab : Table) (data : List UInt8) (acc : List Tag), TagsOk acc →
    Post (decodeTagsGo fuel tab data acc) (fun (ts, _) => TagsOk ts)
  | 0, tab, data, acc, h => by
    simp only [decodeTagsGo]
    split
    · intro t ht; exact h t (List.mem_reverse.mp ht)
    · trivial
  | fuel + 1, tab, data, acc, h => by
    simp only [decodeTagsGo]
    split
    · intro t ht; exact h t (List.mem_reverse.mp ht)
    · refine Post.bind (Post.triv _) ?_
      rintro ⟨start, cur⟩ _
      refine Post.bind (walkPost_post .noNulKey start.inDs start.rest [] nil_no0) ?_
      rintro ⟨key, p1⟩ hk
      dsimp only at hk ⊢
      split
      · trivial
      · refine Post.bind (walkPost_post .noNulValue p1.inDs p1.rest [] nil_no0) ?_
        rintro ⟨value, p2⟩ hv
        dsimp only at hv ⊢
        split
        · trivial
        · next hkl =>
          split
          · trivial
          · next hvl =>
            refine decodeTagsGo_post fuel _ _ _ ?_
            intro t ht
            rcases List.mem_cons.mp ht with ht | ht
            · rw [ht]
              simp only [maxOsmStringLength] at hkl hvl
              exact ⟨⟨by show key.length ≤ 1024; omega, noNul_of_forall hk⟩,
                ⟨by show value.length ≤ 1024; omega, noNul_of_forall hv⟩⟩
            · exact h t ht

theorem decodeTags_post (tab : Table) (data : List UInt8) :
    Post (decodeTags tab data) (fun (ts, _) => TagsOk ts) :=
  decodeTagsGo_post _ _ _ _ tagsOk_nil

/-! ### members -/

def MembersOk (ms : List Member) : Prop := ∀ m ∈ ms, GoodStr m.role

theorem membersOk_nil : MembersOk [] := by
  intro t ht; cases ht

theorem decodeRole_post (tab : Table) (data : List UInt8) :
    Post (decodeRole tab data) (fun (x, _, _) => ∀ b ∈ x.2, b ≠ 0) := by
  unfold decodeRole
  refine Post.bind (Post.triv _) ?_
  rintro ⟨start, cur⟩ _
  dsimp only
  cases hr : start.rest with
  | nil => trivial
  | cons c r =>
    dsimp only
    split
    · trivial
    · split
      · trivial
      · refine Post.bind (walkPost_post .noNulRole start.inDs r [] nil_no0) ?_
        rintro ⟨role, p2⟩ hn
        dsimp only at hn ⊢
        split
        · exact hn
        · exact hn

theorem relMembersGo_post : ∀ (fuel stop : Nat) (st : St) (data : List UInt8) (acc : List Member), MembersOk acc →
    Post (relMembersGo fuel stop st data acc) (fun (ms, _, _) => MembersOk ms)
  | 0, stop, st, data, acc, h => by
    simp only [relMembersGo]
    split
    · trivial
    · intro t ht; exact h t (List.mem_reverse.mp ht)
  | fuel + 1, stop, st, data, acc, h => by
    simp only [relMembersGo]
    split
    · refine Post.bind (Post.triv _) ?_
      rintro ⟨deltaId, d1⟩ _
      dsimp only
      split
      · trivial
      · refine Post.bind (decodeRole_post _ d1) ?_
        rintro ⟨⟨type, role⟩, tab', d2⟩ hn
        dsimp only at hn ⊢
        split
        · trivial
        · next hl =>
          refine relMembersGo_post fuel stop _ d2 _ ?_
          intro m hm
          rcases List.mem_cons.mp hm with hm | hm
          · rw [hm]
            simp only [maxOsmStringLength] at hl
            exact ⟨by show role.length ≤ 1024; omega, noNul_of_forall hn⟩
          · exact h m hm
    · intro t ht; exact h t (List.mem_reverse.mp ht)

/-! ### objects -/

/-- every string of the object is acceptable and the object is not a changeset -/
def ObjOk (o : Object) : Prop :=
  (∀ s ∈ HostilePbf.strsOf o, s.length ≤ 1024 ∧ HostileLayout.noNul s = true) ∧
  (∀ a b c d e f g i j k l, o ≠ Object.changeset a b c d e f g i j k l)

theorem objOk_node (m : Meta) (l : Location) (hu : GoodStr m.user) (ht : TagsOk m.tags) : ObjOk (.node m l) := by
  refine ⟨?_, ?_⟩
  · intro s hs
    simp only [HostilePbf.strsOf, List.mem_cons] at hs
    rcases hs with hs | hs
    · rw [hs]; exact hu
    · exact ht.strings s hs
  · intros; intro h; cases h

theorem objOk_way (m : Meta) (ns : List NodeRef) (hu : GoodStr m.user) (ht : TagsOk m.tags) : ObjOk (.way m ns) := by
  refine ⟨?_, ?_⟩
  · intro s hs
    simp only [HostilePbf.strsOf, List.mem_cons] at hs
    rcases hs with hs | hs
    · rw [hs]; exact hu
    · exact ht.strings s hs
  · intros; intro h; cases h

theorem objOk_relation (m : Meta) (ms : List Member) (hu : GoodStr m.user) (ht : TagsOk m.tags)
    (hm : MembersOk ms) : ObjOk (.relation m ms) := by
  refine ⟨?_, ?_⟩
  · intro s hs
    simp only [HostilePbf.strsOf, List.mem_cons, List.mem_append, List.mem_map] at hs
    rcases hs with (hs | hs) | ⟨x, hx, hs⟩
    · rw [hs]; exact hu
    · exact ht.strings s hs
    · rw [← hs]; exact hm x hx
  · intros; intro h; cases h

theorem decodeNode_post (cfg : Cfg) (st : St) (data : List UInt8) :
    Post (decodeNode cfg st data) (fun (o, _) => ObjOk o) := by
  unfold decodeNode
  refine Post.bind (Post.triv _) ?_
  rintro ⟨idd, d1⟩ _
  dsimp only
  refine Post.bind (decodeInfo_post _ d1) ?_
  rintro ⟨info, st1, d2⟩ hul
  refine Post.bind (setUser_post cfg _ hul) ?_
  intro user hu
  dsimp only
  split
  · exact objOk_node _ _ hu tagsOk_nil
  · refine Post.bind (Post.triv _) ?_
    rintro ⟨lond, d3⟩ _
    refine Post.bind (Post.triv _) ?_
    rintro ⟨latd, d4⟩ _
    dsimp only
    split
    · refine Post.bind (decodeTags_post _ d4) ?_
      rintro ⟨tags, tab'⟩ ht
      exact objOk_node _ _ hu ht
    · exact objOk_node _ _ hu tagsOk_nil

theorem decodeWay_post (cfg : Cfg) (st : St) (data : List UInt8) :
    Post (decodeWay cfg st data) (fun (o, _) => ObjOk o) := by
  unfold decodeWay
  refine Post.bind (Post.triv _) ?_
  rintro ⟨idd, d1⟩ _
  dsimp only
  refine Post.bind (decodeInfo_post _ d1) ?_
  rintro ⟨info, st1, d2⟩ hul
  refine Post.bind (setUser_post cfg _ hul) ?_
  intro user hu
  dsimp only
  split
  · exact objOk_way _ _ hu tagsOk_nil
  · refine Post.bind (Post.triv _) ?_
    rintro ⟨len, d3⟩ _
    refine Post.bind (Post.triv _) ?_
    rintro ⟨refs, st2, d4⟩ _
    dsimp only
    split
    · refine Post.bind (decodeTags_post _ d4) ?_
      rintro ⟨tags, tab'⟩ ht
      exact objOk_way _ _ hu ht
    · exact objOk_way _ _ hu tagsOk_nil

theorem decodeRelation_post (cfg : Cfg) (st : St) (data : List UInt8) :
    Post (decodeRelation cfg st data) (fun (o, _) => ObjOk o) := by
  unfold decodeRelation
  refine Post.bind (Post.triv _) ?_
  rintro ⟨idd, d1⟩ _
  dsimp only
  refine Post.bind (decodeInfo_post _ d1) ?_
  rintro ⟨info, st1, d2⟩ hul
  refine Post.bind (setUser_post cfg _ hul) ?_
  intro user hu
  dsimp only
  split
  · exact objOk_relation _ _ hu tagsOk_nil membersOk_nil
  · refine Post.bind (Post.triv _) ?_
    rintro ⟨len, d3⟩ _
    refine Post.bind (P := fun (x : List Member × St × List UInt8) => MembersOk x.1) ?_ ?_
    · split
      · refine Post.bind (Post.triv _) ?_
        intro _ _
        exact relMembersGo_post _ _ _ _ _ membersOk_nil
      · exact membersOk_nil
    · rintro ⟨ms, st2, d4⟩ hm
      dsimp only at hm ⊢
      split
      · refine Post.bind (decodeTags_post _ d4) ?_
        rintro ⟨tags, tab'⟩ ht
        exact objOk_relation _ _ hu ht hm
      · exact objOk_relation _ _ hu tagsOk_nil hm

/-! ### the dataset loop -/

def AccOk (a : Acc) : Prop := ∀ o ∈ a.objs, ObjOk o

theorem AccOk.cons {a : Acc} (h : AccOk a) {o : Object} (ho : ObjOk o) (st : St) (hd : Bool) :
    AccOk { a with headerDone := hd, st := st, objs := o :: a.objs } := by
  intro x hx
  rcases List.mem_cons.mp hx with hx | hx
  · rw [hx]; exact ho
  · exact h x hx

theorem stepDataset_post (cfg : Cfg) (a : Acc) (h : AccOk a) (d : Chunks.Dataset) :
    Post (stepDataset cfg a d) AccOk := by
  cases d with
  | reset => exact h
  | other t => exact h
  | data t payload =>
    simp only [stepDataset]
    refine Post.bind (Q := AccOk) (P := AccOk) ?_ ?_
    · split
      · split
        · refine Post.bind (decodeNode_post cfg _ payload) ?_
          rintro ⟨o, st⟩ ho
          exact h.cons ho st true
        · split
          · exact h
          · refine Post.bind (decodeNode_post cfg _ payload) ?_
            rintro ⟨o, st⟩ _
            exact h
      · split
        · split
          · refine Post.bind (decodeWay_post cfg _ payload) ?_
            rintro ⟨o, st⟩ ho
            exact h.cons ho st true
          · split
            · exact h
            · refine Post.bind (decodeWay_post cfg _ payload) ?_
              rintro ⟨o, st⟩ _
              exact h
        · split
          · split
            · refine Post.bind (decodeRelation_post cfg _ payload) ?_
              rintro ⟨o, st⟩ ho
              exact h.cons ho st true
            · split
              · exact h
              · refine Post.bind (decodeRelation_post cfg _ payload) ?_
                rintro ⟨o, st⟩ _
                exact h
          · split
            · refine Post.bind (Post.triv _) ?_
              intro b _
              show AccOk _
              split <;> exact h
            · split
              · refine Post.bind (Post.triv _) ?_
                intro ts _
                show AccOk _
                split <;> exact h
              · exact h
    · intro a' ha'
      split
      · exact ha'
      · exact ha'

theorem foldDatasets_post (cfg : Cfg) : ∀ (ds : List Chunks.Dataset) (a : Acc), AccOk a →
    Post (foldDatasets cfg a ds) AccOk
  | [], a, h => h
  | d :: ds, a, h => by
    simp only [foldDatasets]
    split
    · exact h
    · refine Post.bind (stepDataset_post cfg a h d) ?_
      intro a' ha'
      exact foldDatasets_post cfg ds a' ha'

/-- every string the o5m decoder hands to a builder is at most 1024 bytes long and NUL-free, whatever
    the input chunks are; the decoder emits no changesets -/
theorem decodeChunks_objects_strings (cfg : O5m.Cfg) (cs : List O5m.Bytes) (h : O5m.FileHeader) (objs : List Object)
    (hd : O5m.decodeChunks cfg cs = .ok (h, objs)) :
    ∀ o ∈ objs,
      (∀ s ∈ HostilePbf.strsOf o, s.length ≤ 1024 ∧ HostileLayout.noNul s = true) ∧
      (∀ a b c d e f g i j k l, o ≠ Object.changeset a b c d e f g i j k l) := by
  unfold decodeChunks at hd
  dsimp only at hd
  have hf := foldDatasets_post cfg (Chunks.o5mRun cs).1
    { hdr := { multipleVersions := (cs.flatten.drop 5).head? == some 0x63 } } (by intro o ho; cases ho)
  cases hr : foldDatasets cfg { hdr := { multipleVersions := (cs.flatten.drop 5).head? == some 0x63 } } (Chunks.o5mRun cs).1 with
  | ok a =>
    rw [hr] at hd hf
    have ha : AccOk a := hf
    have hobjs : objs = a.objs.reverse := by
      dsimp only at hd
      split at hd
      · cases hd; rfl
      · split at hd
        · cases hd
        · cases hd; rfl
    intro o ho
    rw [hobjs] at ho
    exact ha o (List.mem_reverse.mp ho)
  | err e => rw [hr] at hd; cases hd
  | oob => rw [hr] at hd; cases hd
  | ub u => rw [hr] at hd; cases hd

/-- the whole file in one buffer -/
theorem decode_objects_strings (cfg : O5m.Cfg) (b : O5m.Bytes) (h : O5m.FileHeader) (objs : List Object)
    (hd : O5m.decode cfg b = .ok (h, objs)) :
    ∀ o ∈ objs,
      (∀ s ∈ HostilePbf.strsOf o, s.length ≤ 1024 ∧ HostileLayout.noNul s = true) ∧
      (∀ a b c d e f g i j k l, o ≠ Object.changeset a b c d e f g i j k l) :=
  decodeChunks_objects_strings cfg _ h objs hd

/-- non-vacuity: an o5m file (header, one relation dataset with user "u", member role "r", tag k=v,
    end marker) that decodes successfully into an object carrying all three kinds of strings -/
example :
    O5m.decode {} [0xff, 0xe0, 0x04, 0x6f, 0x35, 0x6d, 0x32, 0x12, 0x14, 0x02, 0x01, 0x02, 0x02, 0x00, 0x02, 0x00,
        0x75, 0x00, 0x05, 0x02, 0x00, 0x30, 0x72, 0x00, 0x00, 0x6b, 0x00, 0x76, 0x00, 0xfe] =
      .ok ({}, [.relation { id := 1, version := 1, timestamp := 1, changeset := 1, uid := 2, user := [0x75],
                            tags := [⟨[0x6b], [0x76]⟩] } [⟨1, 1, [0x72]⟩]]) := by
  decide +kernel

end Osmium.HostileO5m
