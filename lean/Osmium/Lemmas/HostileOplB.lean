/-
C03 helper for Lemmas/HostileOpl.lean: the pieces of the OPL cursor program (Model/HostileOpl.lean) that run on
a pointer remembered by the attribute loop commute with appending `0 :: junk` behind a NUL-free string:

  pVisible, pU32, pId, pChar            the small leaf parsers (the others: Lemmas/HostileText.lean)
  pSpaceC, skipSectionC                 `dropWhile p` with `p 0 = false`
  pTagsC                                opl_parse_tags
  pRefLocationC, pWayNodesLoopC         opl_parse_way_nodes     (pointer `e` lifted as well)
  pMembersLoopC                         opl_parse_relation_members
-/
import Osmium.Lemmas.HostileOplA

namespace Osmium.HostileOpl
open Osmium.Conv Osmium.HostileText Osmium.HostileText.Aux Osmium.OplFmt Osmium.TextFmt Osmium.Osm

@[simp] theorem onMem_ok {ε α : Type} (junk : Bytes) (a : α) (r : Bytes) :
    onMem junk (.ok (a, r) : Except ε (α × Bytes)) = .ok (a, r ++ behind junk) := rfl

@[simp] theorem onMem_error {ε α : Type} (junk : Bytes) (e : ε) :
    onMem junk (.error e : Except ε (α × Bytes)) = .error e := rfl

@[simp] theorem mapOk_ok {ε α β : Type} (g : α → β) (a : α) : mapOk g (.ok a : Except ε α) = .ok (g a) := rfl

@[simp] theorem mapOk_error {ε α β : Type} (g : α → β) (e : ε) : mapOk g (.error e : Except ε α) = .error e := rfl

/-! ### pointer comparisons do not see what is appended to both pointers -/

theorem ptrEq_mem (s e junk : Bytes) : ptrEq (s ++ behind junk) (e ++ behind junk) = ptrEq s e := by
  unfold ptrEq
  rw [List.length_append, List.length_append, Bool.eq_iff_iff, beq_iff_eq, beq_iff_eq]
  omega

theorem ptrLt_mem (s e junk : Bytes) : ptrLt (s ++ behind junk) (e ++ behind junk) = ptrLt s e := by
  simp [ptrLt, List.length_append]

/-! ### small leaf parsers -/

theorem pVisible_stops : StopsAtNul pVisible := by
  intro s junk _
  cases s with
  | nil => simp [pVisible, behind]
  | cons c r =>
    simp only [List.cons_append, pVisible]
    split
    · rfl
    · split <;> rfl

theorem pU32_stops : StopsAtNul pU32 := by
  intro s junk hn
  unfold pU32
  rw [pInt_stops 0 u32Max s junk hn]
  cases pInt 0 u32Max s with
  | error e => rfl
  | ok r => rfl

theorem pId_stops : StopsAtNul pId := pInt_stops _ _

theorem pChar_mem {c : UInt8} (hc : c ≠ 0) (s junk : Bytes) :
    pChar c (s ++ behind junk) = mapOk (· ++ behind junk) (pChar c s) := by
  cases s with
  | nil => simp [pChar, behind, Ne.symm hc]
  | cons d r =>
    simp only [List.cons_append, pChar]
    split <;> rfl

/-! ### opl_parse_space, opl_skip_section -/

theorem isSpTab_zero : isSpTab 0 = false := by decide
theorem nonEmptyB_zero : nonEmptyB 0 = false := by decide

theorem dropWhile_mem (p : UInt8 → Bool) (hp : p 0 = false) (s junk : Bytes) :
    (s ++ behind junk).dropWhile p = s.dropWhile p ++ behind junk := by
  induction s with
  | nil => simp [behind, List.dropWhile, hp]
  | cons c s ih =>
    simp only [List.cons_append, List.dropWhile_cons]
    split
    · exact ih
    · rfl

theorem pSpaceC_mem (s junk : Bytes) : pSpaceC (s ++ behind junk) = mapOk (· ++ behind junk) (pSpaceC s) := by
  unfold pSpaceC
  rw [peek_mem]
  by_cases h : isSpTab (peek s) = true
  · have hne : s ≠ [] := by
      rintro rfl; exact absurd h (by decide)
    rw [if_pos h, if_pos h, tail_mem junk hne, dropWhile_mem _ isSpTab_zero]
    rfl
  · rw [if_neg h, if_neg h]; rfl

theorem pSpaceC_suffix {s r : Bytes} (h : pSpaceC s = .ok r) : r <:+ s := by
  unfold pSpaceC at h
  split at h
  · cases h; exact (List.dropWhile_suffix _).trans (List.tail_suffix s)
  · cases h

theorem skipSectionC_mem (s junk : Bytes) : skipSectionC (s ++ behind junk) = skipSectionC s ++ behind junk :=
  dropWhile_mem _ nonEmptyB_zero s junk

theorem skipSectionC_suffix (s : Bytes) : skipSectionC s <:+ s := List.dropWhile_suffix _

/-! ### opl_parse_tags -/

theorem pTagsC_mem (junk : Bytes) : ∀ (F : Nat) (s : Bytes), NoNul s →
    pTagsC F (s ++ behind junk) = pTagsC F s := by
  intro F
  induction F with
  | zero => intro s _; rfl
  | succ F ih =>
    intro s hn
    simp only [pTagsC]
    rw [pStr_stops s junk hn]
    cases h1 : pStr s with
    | error e => rfl
    | ok p1 =>
      obtain ⟨k, s1⟩ := p1
      have hn1 : NoNul s1 := noNul_of_suffix (pStr_suffix h1) hn
      simp only [onMem_ok, bindE_ok]
      rw [pChar_mem (by decide) s1 junk]
      cases h2 : pChar 0x3d s1 with
      | error e => rfl
      | ok s2 =>
        have hn2 : NoNul s2 := noNul_of_suffix (pChar_suffix h2) hn1
        simp only [mapOk_ok, bindE_ok]
        rw [pStr_stops s2 junk hn2]
        cases h3 : pStr s2 with
        | error e => rfl
        | ok p3 =>
          obtain ⟨v, s3⟩ := p3
          have hn3 : NoNul s3 := noNul_of_suffix (pStr_suffix h3) hn2
          simp only [onMem_ok, bindE_ok]
          rw [peek_mem, pChar_mem (by decide) s3 junk]
          split
          · rfl
          · split
            · rfl
            · cases h4 : pChar 0x2c s3 with
              | error e => rfl
              | ok s4 =>
                have hn4 : NoNul s4 := noNul_of_suffix (pChar_suffix h4) hn3
                simp only [mapOk_ok, bindE_ok]
                rw [ih s4 hn4]

theorem finishTagsC_mem (junk : Bytes) (F : Nat) (tb : Option Bytes) (h : ∀ p, tb = some p → NoNul p) :
    finishTagsC F (tb.map (liftPtr junk)) = finishTagsC F tb := by
  cases tb with
  | none => rfl
  | some p => exact pTagsC_mem junk F p (h p rfl)

/-! ### opl_parse_way_nodes -/

/-- `if (s != e && …) location.set_lon_partial(&s);` -/
theorem optCoord_mem (b : Bool) (s junk : Bytes) (hn : NoNul s) :
    (if b = true then pCoord (s ++ behind junk) else .ok (Location.undefinedCoordinate, s ++ behind junk)) =
      onMem junk (if b = true then pCoord s else .ok (Location.undefinedCoordinate, s)) := by
  cases b with
  | true => simp only [if_true]; exact pCoord_stops s junk hn
  | false => rfl

theorem optCoord_suffix {b : Bool} {s : Bytes} {q : Int × Bytes}
    (h : (if b = true then pCoord s else .ok (Location.undefinedCoordinate, s)) = .ok q) : q.2 <:+ s := by
  cases b with
  | true => simp only [if_true] at h; exact pCoord_suffix h
  | false => cases h; exact List.suffix_refl _

theorem peek_ne_nil {s : Bytes} {c : UInt8} (hc : c ≠ 0) (h : (peek s == c) = true) : s ≠ [] := by
  rintro rfl
  have h0 : (0 : UInt8) = c := by simpa [peek] using h
  exact hc h0.symm

theorem pRefLocationC_mem (e s junk : Bytes) (hn : NoNul s) :
    pRefLocationC (e ++ behind junk) (s ++ behind junk) = onMem junk (pRefLocationC e s) := by
  unfold pRefLocationC
  rw [peek_mem]
  by_cases hx : (peek s == 0x78) = true
  · have hne : s ≠ [] := peek_ne_nil (c := 0x78) (by decide) hx
    have hnt : NoNul s.tail := noNul_tail hn
    rw [if_pos hx, if_pos hx]
    simp only
    rw [tail_mem junk hne, ptrEq_mem, peek_mem, optCoord_mem _ _ junk hnt]
    cases h1 : (if (!ptrEq s.tail e && peek s.tail != 0x79 && peek s.tail != 0x2c) = true then pCoord s.tail
                else .ok (Location.undefinedCoordinate, s.tail)) with
    | error er => rfl
    | ok p1 =>
      obtain ⟨x, s1⟩ := p1
      have hn1 : NoNul s1 := noNul_of_suffix (optCoord_suffix h1) hnt
      simp only [onMem_ok, bindE_ok]
      rw [peek_mem]
      by_cases hy : (peek s1 == 0x79) = true
      · have hne1 : s1 ≠ [] := peek_ne_nil (c := 0x79) (by decide) hy
        have hnt1 : NoNul s1.tail := noNul_tail hn1
        rw [if_pos hy, if_pos hy, tail_mem junk hne1, ptrEq_mem, peek_mem, optCoord_mem _ _ junk hnt1]
        cases h3 : (if (!ptrEq s1.tail e && peek s1.tail != 0x2c) = true then pCoord s1.tail
                    else .ok (Location.undefinedCoordinate, s1.tail)) with
        | error er => rfl
        | ok p3 => rfl
      · rw [if_neg hy, if_neg hy]; rfl
  · rw [if_neg hx, if_neg hx]; rfl

theorem pRefLocationC_suffix {e s : Bytes} {q : Location × Bytes} (h : pRefLocationC e s = .ok q) : q.2 <:+ s := by
  unfold pRefLocationC at h
  split at h
  · simp only at h
    cases h1 : (if (!ptrEq s.tail e && peek s.tail != 0x79 && peek s.tail != 0x2c) = true then pCoord s.tail
                else .ok (Location.undefinedCoordinate, s.tail)) with
    | error er => rw [h1] at h; cases h
    | ok p1 =>
      have hs1 := (optCoord_suffix h1).trans (List.tail_suffix s)
      rw [h1] at h
      simp only [bindE_ok] at h
      split at h
      · cases h3 : (if (!ptrEq p1.2.tail e && peek p1.2.tail != 0x2c) = true then pCoord p1.2.tail
                    else .ok (Location.undefinedCoordinate, p1.2.tail)) with
        | error er => rw [h3] at h; cases h
        | ok p3 =>
          rw [h3] at h
          simp only [bindE_ok] at h
          cases h
          exact ((optCoord_suffix h3).trans (List.tail_suffix _)).trans hs1
      · cases h; exact hs1
  · cases h; exact List.suffix_refl _

theorem pWayNodesLoopC_mem (e junk : Bytes) : ∀ (F : Nat) (s : Bytes), NoNul s →
    pWayNodesLoopC (e ++ behind junk) F (s ++ behind junk) = pWayNodesLoopC e F s := by
  intro F
  induction F with
  | zero => intro s _; rfl
  | succ F ih =>
    intro s hn
    simp only [pWayNodesLoopC]
    rw [ptrLt_mem, pChar_mem (by decide) s junk]
    split
    · rfl
    · cases h1 : pChar 0x6e s with
      | error er => rfl
      | ok s1 =>
        have hn1 : NoNul s1 := noNul_of_suffix (pChar_suffix h1) hn
        simp only [mapOk_ok, bindE_ok]
        rw [ptrEq_mem, pId_stops s1 junk hn1]
        split
        · rfl
        · cases h2 : pId s1 with
          | error er => rfl
          | ok p2 =>
            obtain ⟨ref, s2⟩ := p2
            have hn2 : NoNul s2 := noNul_of_suffix (pId_suffix h2) hn1
            simp only [onMem_ok, bindE_ok]
            rw [ptrEq_mem, pRefLocationC_mem e s2 junk hn2]
            split
            · rfl
            · cases h3 : pRefLocationC e s2 with
              | error er => rfl
              | ok p3 =>
                obtain ⟨loc, s3⟩ := p3
                have hn3 : NoNul s3 := noNul_of_suffix (pRefLocationC_suffix h3) hn2
                simp only [onMem_ok, bindE_ok]
                rw [ptrEq_mem, pChar_mem (by decide) s3 junk]
                split
                · rfl
                · cases h4 : pChar 0x2c s3 with
                  | error er => rfl
                  | ok s4 =>
                    have hn4 : NoNul s4 := noNul_of_suffix (pChar_suffix h4) hn3
                    simp only [mapOk_ok, bindE_ok]
                    rw [ih s4 hn4]

/-- the stored pointer pair in front of the NUL: the begin pointer is where a cursor starts again -/
def SecOK (sec : Option (Bytes × Bytes)) : Prop := ∀ p, sec = some p → NoNul p.1

theorem pWayNodesC_mem (junk : Bytes) (F : Nat) (sec : Option (Bytes × Bytes)) (h : SecOK sec) :
    pWayNodesC F (sec.map fun p => (liftPtr junk p.1, liftPtr junk p.2)) = pWayNodesC F sec := by
  cases sec with
  | none => rfl
  | some p =>
    obtain ⟨b, e⟩ := p
    simp only [Option.map_some, pWayNodesC, liftPtr]
    rw [ptrEq_mem, pWayNodesLoopC_mem e junk F b (h (b, e) rfl)]

/-! ### opl_parse_relation_members -/

theorem charType_peek_ne_nil {s : Bytes} (h : ¬ charType (peek s) = 0) : s ≠ [] := by
  rintro rfl
  exact h (by decide)

theorem pMembersLoopC_mem (e junk : Bytes) : ∀ (F : Nat) (s : Bytes), NoNul s →
    pMembersLoopC (e ++ behind junk) F (s ++ behind junk) = pMembersLoopC e F s := by
  intro F
  induction F with
  | zero => intro s _; rfl
  | succ F ih =>
    intro s hn
    simp only [pMembersLoopC]
    rw [ptrLt_mem, peek_mem]
    split
    · rfl
    · by_cases hc : charType (peek s) = 0
      · rw [if_pos hc, if_pos hc]
      · have hne : s ≠ [] := charType_peek_ne_nil hc
        have hn1 : NoNul s.tail := noNul_tail hn
        rw [if_neg hc, if_neg hc, tail_mem junk hne, ptrEq_mem, pId_stops s.tail junk hn1]
        split
        · rfl
        · cases h2 : pId s.tail with
          | error er => rfl
          | ok p2 =>
            obtain ⟨ref, s2⟩ := p2
            have hn2 : NoNul s2 := noNul_of_suffix (pId_suffix h2) hn1
            simp only [onMem_ok, bindE_ok]
            rw [pChar_mem (by decide) s2 junk]
            cases h3 : pChar 0x40 s2 with
            | error er => rfl
            | ok s3 =>
              have hn3 : NoNul s3 := noNul_of_suffix (pChar_suffix h3) hn2
              simp only [mapOk_ok, bindE_ok]
              rw [ptrEq_mem, pStr_stops s3 junk hn3]
              split
              · rfl
              · cases h4 : pStr s3 with
                | error er => rfl
                | ok p4 =>
                  obtain ⟨role, s4⟩ := p4
                  have hn4 : NoNul s4 := noNul_of_suffix (pStr_suffix h4) hn3
                  simp only [onMem_ok, bindE_ok]
                  rw [ptrEq_mem, pChar_mem (by decide) s4 junk]
                  split
                  · rfl
                  · split
                    · rfl
                    · cases h5 : pChar 0x2c s4 with
                      | error er => rfl
                      | ok s5 =>
                        have hn5 : NoNul s5 := noNul_of_suffix (pChar_suffix h5) hn4
                        simp only [mapOk_ok, bindE_ok]
                        rw [ih s5 hn5]

theorem pMembersC_mem (junk : Bytes) (F : Nat) (sec : Option (Bytes × Bytes)) (h : SecOK sec) :
    pMembersC F (sec.map fun p => (liftPtr junk p.1, liftPtr junk p.2)) = pMembersC F sec := by
  cases sec with
  | none => rfl
  | some p =>
    obtain ⟨b, e⟩ := p
    simp only [Option.map_some, pMembersC, liftPtr]
    rw [ptrEq_mem, pMembersLoopC_mem e junk F b (h (b, e) rfl)]

end Osmium.HostileOpl
