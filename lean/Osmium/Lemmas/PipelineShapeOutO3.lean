/-
Second half of the osmdata-queue shape invariant: `Complete.invO2` (o_last, o_fin, o_clean, o_push), by the
transfer lemmas L1/L2/L5 of PipelineShapeOutO2, one step lemma per event group (input-queue events,
osmdata-queue events, all other events).
-/
import Osmium.Lemmas.PipelineShapeOutO2

set_option linter.unusedSimpArgs false
set_option linter.unusedVariables false

namespace Osmium.Pipeline
open Osmium.Mon
variable {α : Type} [DecidableEq α]
namespace Complete
omit [DecidableEq α] in
@[simp] theorem pFin_run : pFin (.run : PPc α) ↔ False := by simp [pFin]
omit [DecidableEq α] in
@[simp] theorem pFin_popWait : pFin (.popWait : PPc α) ↔ False := by simp [pFin]
omit [DecidableEq α] in
@[simp] theorem pFin_got (id : Nat) : pFin (.got id : PPc α) ↔ False := by simp [pFin]
omit [DecidableEq α] in
@[simp] theorem pFin_push (v : Val α) (k : PK) : pFin (.push v k : PPc α) ↔ False := by simp [pFin]
omit [DecidableEq α] in
@[simp] theorem pFin_pushFut (id : Nat) (k : PK) : pFin (.pushFut id k : PPc α) ↔ False := by simp [pFin]
omit [DecidableEq α] in
@[simp] theorem pFin_caught (n : Nat) : pFin (.caught n : PPc α) ↔ False := by simp [pFin]
omit [DecidableEq α] in
@[simp] theorem pFin_done : pFin (.done : PPc α) ↔ True := by simp [pFin]

syntax "pr_tail " ident : tactic
macro_rules
  | `(tactic| pr_tail $h:ident) => `(tactic|
      (simp only [step?] at $h:ident <;> (repeat' split at $h:ident) <;>
         simp only [Option.map_eq_some_iff, Option.some.injEq, reduceCtorEq, false_and, exists_false] at $h:ident <;>
         (subst $h:ident; try simp only [cx_afterPop, cx_afterClose])))

syntax "pq_cases " ident " with " ident : tactic
macro_rules
  | `(tactic| pq_cases $e:ident with $h:ident) => `(tactic|
      ((try simp only [Machine.Step, machine] at $h:ident)
       cases $e:ident <;>
         simp only [step?] at $h:ident <;> (repeat' split at $h:ident) <;>
         simp only [Option.map_eq_some_iff, Option.some.injEq, reduceCtorEq, false_and, exists_false] at $h:ident <;>
         first
           | (obtain ⟨q, hq, $h:ident⟩ := $h:ident
              simp only [QueueSM.step?] at hq
              (repeat' split at hq) <;> simp only [Option.some.injEq, reduceCtorEq] at hq <;> subst hq <;>
              (repeat' split at $h:ident) <;> subst $h:ident)
           | (subst $h:ident; try simp only [cx_afterPop, cx_afterClose])))

set_option maxHeartbeats 1600000 in
theorem stepO2_qi (c : Cfg α) (s s' : State α) (qe : QueueSM.Ev Nat) (hr : (machine c).Reachable s) (ih : InvO2 c s)
    (hst : (machine c).Step s (.qi qe) s') : InvO2 c s' := by
    have hN := invN c s hr
    have hA := (invA c s hr).cur_ne
    obtain ⟨g1, g2, g3⟩ := invO1 c s hr
    have n1 := hN.n_oc
    have fr1 : ∀ v, ∀ y ∈ s.outq.called, setPc s.want (2 * s.nIn) v y.2 = s.want y.2 := by
      intro v y hy; have := n1 y hy
      by_cases h : y.2 = 2 * s.nIn
      · omega
      · simp [setPc_apply, h]
    have fr2 : ∀ v, ∀ y ∈ s.outq.called, setPc s.want (2 * s.nOut + 1) v y.2 = s.want y.2 := by
      intro v y hy; have := n1 y hy
      by_cases h : y.2 = 2 * s.nOut + 1
      · omega
      · simp [setPc_apply, h]
    clear n1
    pq_cases qe with hst
    all_goals (try subst_vars)
    all_goals first
      | exact L1 c s _ rfl (fun _ _ => rfl) (.inl rfl) rfl rfl rfl rfl rfl (.inl rfl) ih
      | exact L1 c s _ rfl (fr1 _) (.inl rfl) rfl rfl rfl rfl rfl (.inl rfl) ih
      | (refine L2 c s _ rfl (fun _ _ => rfl) ?_ ?_ ih <;> (simp_all; done))
      | (rcases g3 _ (.inl (by assumption)) with rfl | rfl
         · refine L2 c s _ rfl (fun _ _ => rfl) ?_ ?_ ih <;> (simp_all [pCont]; done)
         · refine L1 c s _ rfl (fun _ _ => rfl) (.inr ⟨?_, ?_⟩) rfl rfl rfl rfl rfl (.inl rfl) ih <;> (simp_all [pCont]; done))
      | (rcases g3 _ (.inr (by assumption)) with rfl | rfl
         · refine L2 c s _ rfl (fun _ _ => rfl) ?_ ?_ ih <;> (simp_all [pCont]; done)
         · refine L1 c s _ rfl (fun _ _ => rfl) (.inr ⟨?_, ?_⟩) rfl rfl rfl rfl rfl (.inl rfl) ih <;> (simp_all [pCont]; done))

set_option maxHeartbeats 1600000 in
theorem stepO2_qo (c : Cfg α) (s s' : State α) (qe : QueueSM.Ev Nat) (hr : (machine c).Reachable s) (ih : InvO2 c s)
    (hst : (machine c).Step s (.qo qe) s') : InvO2 c s' := by
    have hN := invN c s hr
    have hA := (invA c s hr).cur_ne
    obtain ⟨g1, g2, g3⟩ := invO1 c s hr
    have n1 := hN.n_oc
    have fr1 : ∀ v, ∀ y ∈ s.outq.called, setPc s.want (2 * s.nIn) v y.2 = s.want y.2 := by
      intro v y hy; have := n1 y hy
      by_cases h : y.2 = 2 * s.nIn
      · omega
      · simp [setPc_apply, h]
    have fr2 : ∀ v, ∀ y ∈ s.outq.called, setPc s.want (2 * s.nOut + 1) v y.2 = s.want y.2 := by
      intro v y hy; have := n1 y hy
      by_cases h : y.2 = 2 * s.nOut + 1
      · omega
      · simp [setPc_apply, h]
    clear n1
    pq_cases qe with hst
    all_goals (try subst_vars)
    all_goals first
      | exact L1 c s _ rfl (fun _ _ => rfl) (.inl rfl) rfl rfl rfl rfl rfl (.inl rfl) ih
      | exact L1 c s _ rfl (fun _ _ => rfl) (.inl rfl) rfl rfl rfl rfl rfl (.inr rfl) ih
      | exact L1 c s _ (QueueSM.take_called _ _) (fun _ _ => rfl) (.inl rfl) rfl rfl rfl rfl rfl (.inl (QueueSM.take_inUse _ _)) ih
      | (refine L5 c s _ _ rfl (fr2 _) ?_ ?_ ?_ ih
         · simp_all
         · intro hv; simp only [setPc_same] at hv; subst hv
           have hk := (g1 _ _ (.inl (by assumption))).2 rfl
           subst hk
           exact ⟨by simp, ih.o_push _ (by assumption)⟩
         · intro k; simp)
      | (refine L5 c s _ _ rfl (fun _ _ => rfl) ?_ ?_ ?_ ih
         · simp_all
         · intro hv; exact absurd hv (g2 _ _ (.inl (by assumption))).1
         · intro k; simp)
      | (by_cases hf : pFin s.ppc
         · refine L1 c s _ rfl (fun _ _ => rfl) (.inr ⟨hf, ?_⟩) rfl rfl rfl rfl rfl (.inl rfl) ih
           simp_all [pCont]; done
         · refine L2 c s _ rfl (fun _ _ => rfl) hf ?_ ih
           simp_all [pCont]; done)
      | skip

set_option maxHeartbeats 1600000 in
theorem stepO2_rest (c : Cfg α) (s s' : State α) (e : Ev α) (hqi : ∀ qe, e ≠ .qi qe) (hqo : ∀ qe, e ≠ .qo qe) (hr : (machine c).Reachable s) (ih : InvO2 c s)
    (hst : (machine c).Step s e s') : InvO2 c s' := by
    have hN := invN c s hr
    have hA := (invA c s hr).cur_ne
    obtain ⟨g1, g2, g3⟩ := invO1 c s hr
    have n1 := hN.n_oc
    have fr1 : ∀ v, ∀ y ∈ s.outq.called, setPc s.want (2 * s.nIn) v y.2 = s.want y.2 := by
      intro v y hy; have := n1 y hy
      by_cases h : y.2 = 2 * s.nIn
      · omega
      · simp [setPc_apply, h]
    have fr2 : ∀ v, ∀ y ∈ s.outq.called, setPc s.want (2 * s.nOut + 1) v y.2 = s.want y.2 := by
      intro v y hy; have := n1 y hy
      by_cases h : y.2 = 2 * s.nOut + 1
      · omega
      · simp [setPc_apply, h]
    clear n1
    simp only [Machine.Step, machine] at hst
    cases e with
    | qi qe => exact absurd rfl (hqi qe)
    | qo qe => exact absurd rfl (hqo qe)
    | _ =>
      pr_tail hst
      all_goals first
        | exact L1 c s _ rfl (fun _ _ => rfl) (.inl rfl) rfl rfl rfl rfl rfl (.inl rfl) ih
        | (refine L2 c s _ rfl (fun _ _ => rfl) ?_ ?_ ih <;> (simp_all; done))
        | (refine L2 c s _ rfl (fr2 _) ?_ ?_ ih <;> (simp_all; done))
        | (refine L2 c s _ rfl (fun _ _ => rfl) ?_ ?_ ih
           · simp_all
           · intro k _; right; simp only [CleanEnd]; grind)
        | (by_cases hf : pFin s.ppc
           · refine L1 c s _ rfl (fun _ _ => rfl) (.inr ⟨hf, ?_⟩) rfl rfl rfl rfl rfl (.inl rfl) ih
             simp_all; done
           · refine L2 c s _ rfl (fun _ _ => rfl) hf ?_ ih
             intro k' hk
             exact .inl (outExc_of_pushed s hN g1 _ _ _ (by assumption) (pCont_push _ _ hk)))
        | skip

theorem invO2 (c : Cfg α) : ∀ s, (machine c).Reachable s → InvO2 c s := by
  apply Machine.invariant
  · constructor <;> simp [machine, init, QueueSM.init, OutEod]
  · intro s e s' hr ih hst
    by_cases h1 : ∃ qe, e = .qi qe
    · obtain ⟨qe, rfl⟩ := h1
      exact stepO2_qi c s s' qe hr ih hst
    · by_cases h2 : ∃ qe, e = .qo qe
      · obtain ⟨qe, rfl⟩ := h2
        exact stepO2_qo c s s' qe hr ih hst
      · exact stepO2_rest c s s' e (fun qe h => h1 ⟨qe, h⟩) (fun qe h => h2 ⟨qe, h⟩) hr ih hst

end Complete
end Osmium.Pipeline
