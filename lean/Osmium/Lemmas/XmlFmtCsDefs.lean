/-
The XML value domain of changesets (with discussions) and of all four object kinds together
(definitions shared by Lemmas/XmlFmtCs*.lean and Lemmas/XmlSpec*.lean).
-/
import Osmium.Lemmas.XmlFmtFile

namespace Osmium.XmlFmt
open Osmium.Osm Osmium.TextFmt Osmium.Conv Osmium.Utf8

/-- a comment of a changeset discussion: any uint32 date, uid below 2^32−1 (`string_to_ulong`, the
    recorded finding), user and text XML strings -/
def XCommentOK (c : Comment) : Prop :=
  c.date < 4294967296 ∧ c.uid < 4294967295 ∧ xstrOK c.user = true ∧ xstrOK c.text = true

/-- changesets of the XML domain; id / counters below 2^32−1 (`string_to_ulong` rejects 2^32−1:
    finding `xml-u32-max:changeset`); anonymous changesets (uid 0) included -/
structure XCsOK (id ca cl nc ncm : Nat) (uid : Int) (user : Bytes) (bl tr : Location) (tags : List Tag)
    (cs : List Comment) : Prop where
  id : id < 4294967295
  ca : ca < 4294967296
  cl : cl < 4294967296
  nc : nc < 4294967295
  ncm : ncm < 4294967295
  uid0 : 0 ≤ uid
  uid1 : uid < 2147483648
  user : xstrOK user = true
  bl : XLocOK bl
  tr : XLocOK tr
  tags : ∀ t ∈ tags, xstrOK t.key = true ∧ xstrOK t.value = true
  cs : ∀ c ∈ cs, XCommentOK c

/-- all four object kinds of the XML domain -/
def XObjOK2 : Object → Prop
  | .changeset id ca cl nc ncm uid user bl tr tags cs => XCsOK id ca cl nc ncm uid user bl tr tags cs
  | o => XObjOK o

def isChangeset : Object → Bool
  | .changeset .. => true
  | _ => false

end Osmium.XmlFmt
