/-
Direct-fd configuration, part 2: the simulation step for queue events (see PipelineDirect.lean).
-/
import Osmium.Lemmas.PipelineDirect

set_option linter.unusedSimpArgs false
set_option linter.unusedVariables false
set_option linter.unnecessarySeqFocus false
set_option linter.unusedTactic false
set_option linter.unreachableTactic false

namespace Osmium.Pipeline

open Osmium.Mon

variable {α : Type} [DecidableEq α]

namespace Direct

set_option maxHeartbeats 6400000 in
/-- the parser's and the consumer's steps on the osmdata queue -/
theorem p_rel_o (c : Cfg α) (sd sd' s' : State α) (qe : QueueSM.Ev Nat) (q : QueueSM.State Nat)
    (f : Nat → Option (Val α)) (w : Nat → Val α) (ra : Option Nat) (hst : step? c sd (.qo qe) = some sd')
    (hst2 : step? (fed c) (emb sd q f w ra) (.qo qe) = some s') (hI : DInv sd) (hrel : Rel sd q f w) :
    Sim sd' s' := by
  obtain ⟨h1, h2, h3⟩ := hI
  obtain ⟨r1, r2, r3, r4⟩ := hrel
  cases qe <;> simp only [step?] at hst hst2 <;> (repeat' split at hst) <;>
    simp only [Option.map_eq_some_iff, reduceCtorEq, false_and, exists_false] at hst <;>
    (try (obtain ⟨q1, hq1, hst⟩ := hst)) <;>
    simp_all [emb] <;> (try (repeat' split at hst2)) <;> (try simp_all) <;> (try subst_vars) <;>
    (constructor <;> sim_field)

set_option maxHeartbeats 6400000 in
/-- the parser's steps on the input queue: only the final shutdown (`~queue_wrapper`) -/
theorem p_rel_i (c : Cfg α) (sd sd' s' : State α) (qe : QueueSM.Ev Nat) (q : QueueSM.State Nat)
    (f : Nat → Option (Val α)) (w : Nat → Val α) (ra : Option Nat) (hst : step? c sd (.qi qe) = some sd')
    (hst2 : step? (fed c) (emb sd q f w ra) (.qi qe) = some s') (hr : isR (.qi qe : Ev α) = false)
    (hI : DInv sd) (hrel : Rel sd q f w) : Sim sd' s' := by
  obtain ⟨h1, h2, h3⟩ := hI
  obtain ⟨r1, r2, r3, r4⟩ := hrel
  cases qe <;> simp only [step?] at hst hst2 <;> (repeat' split at hst) <;>
    simp_all [emb, isR, dP, QueueSM.step?] <;> (try (repeat' split at hst2)) <;> (try simp_all) <;>
    (try (repeat' split at hst)) <;> (try simp_all) <;> (try (obtain ⟨-, hst2⟩ := hst2)) <;> (try subst_vars) <;>
    (constructor <;> sim_field)

end Direct

end Osmium.Pipeline
