/-
Header block: `write_header` (exact integers since fix 4309424) against `decode_header_block` /
`decode_header_bbox`.
-/
import Osmium.Lemmas.Pbf

namespace Osmium.Pbf

open Osmium.Wire Osmium.PbfMsg Osmium.Osm

/-- a box as `joined_boxes()` can return it: undefined, or two valid corners in order -/
def BoxOK (b : Location × Location) : Prop :=
  b = boxUndefined ∨
  (Location.isValid b.1 = true ∧ Location.isValid b.2 = true ∧ b.1.x ≤ b.2.x ∧ b.1.y ≤ b.2.y)

theorem isValid_iff (l : Location) : Location.isValid l = true ↔
    (-1800000000 ≤ l.x ∧ l.x ≤ 1800000000 ∧ -900000000 ≤ l.y ∧ l.y ≤ 900000000) := by
  simp [Location.isValid, and_assoc]

theorem isSet_of_valid (l : Location) (h : Location.isValid l = true) : Location.isSet l = true := by
  rw [isValid_iff] at h
  simp only [Location.isSet, Location.undefinedCoordinate, Bool.and_eq_true, bne_iff_ne, ne_eq]
  omega

theorem boxExtend_ok (b : Location × Location) (l : Location) (hb : BoxOK b) : BoxOK (boxExtend b l) := by
  unfold boxExtend
  by_cases hv : Location.isValid l = true
  · simp only [hv, ↓reduceIte]
    rcases hb with rfl | ⟨h1, h2, h3, h4⟩
    · have : Location.isSet boxUndefined.1 = false := by decide
      simp only [this, Bool.false_eq_true, ↓reduceIte]
      right; exact ⟨hv, hv, Int.le_refl _, Int.le_refl _⟩
    · simp only [isSet_of_valid _ h1, ↓reduceIte]
      right
      simp only [isValid_iff] at *
      by_cases c1 : l.x < b.1.x <;> by_cases c2 : l.y < b.1.y <;> by_cases c3 : l.x > b.2.x <;> by_cases c4 : l.y > b.2.y <;>
        simp only [c1, c2, c3, c4, ↓reduceIte] <;> omega
  · simp only [hv, Bool.false_eq_true, ↓reduceIte]; exact hb

theorem joinedBoxes_ok (bs : List (Location × Location)) : BoxOK (joinedBoxes bs) := by
  unfold joinedBoxes
  suffices h : ∀ (acc : Location × Location), BoxOK acc →
      BoxOK (bs.foldl (fun acc b => boxExtend (boxExtend acc b.1) b.2) acc) from h _ (Or.inl rfl)
  induction bs with
  | nil => intro acc h; exact h
  | cons b bs ih => intro acc h; exact ih _ (boxExtend_ok _ _ (boxExtend_ok _ _ h))

theorem toInt32_u64_int32 (x : Int) (h1 : -(2:Int)^31 ≤ x) (h2 : x < (2:Int)^31) : toInt32 (u64 x) = x := by
  unfold toInt32 u64
  simp only [Int.reducePow, Nat.reducePow] at *
  omega

theorem zigzag64_lt (x : Int) (h1 : -(2:Int)^63 ≤ x) (h2 : x < (2:Int)^63) : zigzag64 x < 2 ^ 64 :=
  zigzag_lt x h1 h2

/-- `decode_header_bbox` on the four corners `write_header` wrote -/
theorem decodeBBox_enc (bl tr : Location) (h1 : Location.isValid bl = true) (h2 : Location.isValid tr = true)
    (hx : bl.x ≤ tr.x) (hy : bl.y ≤ tr.y) :
    decodeBBox (encodeFields [fVarint 1 (zigzag64 (bl.x * 100)), fVarint 2 (zigzag64 (tr.x * 100)),
                              fVarint 3 (zigzag64 (tr.y * 100)), fVarint 4 (zigzag64 (bl.y * 100))]) = some (bl, tr) := by
  have v1 := (isValid_iff bl).mp h1
  have v2 := (isValid_iff tr).mp h2
  have r : ∀ c : Int, -1800000000 ≤ c → c ≤ 1800000000 → zigzag64 (c * 100) < 2 ^ 64 := fun c a b =>
    zigzag64_lt _ (by simp only [Int.reducePow]; omega) (by simp only [Int.reducePow]; omega)
  have wf : ∀ f ∈ [fVarint 1 (zigzag64 (bl.x * 100)), fVarint 2 (zigzag64 (tr.x * 100)),
                    fVarint 3 (zigzag64 (tr.y * 100)), fVarint 4 (zigzag64 (bl.y * 100))], f.WF := by
    intro f hf
    simp only [List.mem_cons, List.not_mem_nil, or_false] at hf
    rcases hf with rfl | rfl | rfl | rfl <;> simp [Field.WF, fVarint] <;> apply r <;> omega
  unfold decodeBBox withFields
  rw [readFields_encodeFields _ wf]
  have t : ∀ c : Int, (c * 100).tdiv 100 = c := fun c => by
    rw [Int.mul_tdiv_cancel _ (by decide)]
  have e : ∀ c : Int, -1800000000 ≤ c → c ≤ 1800000000 → toInt32 (u64 c) = c := fun c a b =>
    toInt32_u64_int32 c (by simp only [Int.reducePow]; omega) (by simp only [Int.reducePow]; omega)
  have ne : ∀ c : Int, c ≤ 1800000000 → ((c * 100 == int64Max) = false) := fun c a => by
    simp only [int64Max, Int.reducePow, beq_eq_false_iff_ne, ne_eq]; omega
  simp only [decodeMsg, List.foldlM_cons, List.foldlM_nil, bboxStep, fVarint, unzigzag_zigzag, bind, Option.bind,
    pure]
  simp only [ne _ v1.2.1, ne _ v2.2.1, ne _ (by omega : tr.y ≤ 1800000000), ne _ (by omega : bl.y ≤ 1800000000),
    Bool.or_self, Bool.false_eq_true, ↓reduceIte, t, loc64, e _ v1.1 v1.2.1, e _ v2.1 v2.2.1,
    e bl.y (by omega) (by omega), e tr.y (by omega) (by omega)]
  have hbl : (⟨bl.x, bl.y⟩ : Location) = bl := rfl
  have htr : (⟨tr.x, tr.y⟩ : Location) = tr := rfl
  rw [hbl, htr]
  have s0 : Location.isSet boxUndefined.1 = false := by decide
  have e1 : boxExtend boxUndefined bl = (bl, bl) := by simp [boxExtend, h1, s0]
  rw [e1]
  simp only [boxExtend, h2, ↓reduceIte, isSet_of_valid _ h1]
  have a1 : ¬ tr.x < bl.x := by omega
  have a2 : ¬ tr.y < bl.y := by omega
  simp only [a1, a2, ↓reduceIte]
  congr 2
  cases tr with
  | mk x y =>
    simp only at hx hy ⊢
    congr 1 <;> split <;> omega

end Osmium.Pbf
