/-
C04: where the buffer's memory is (capacity, reallocation points, nested buffers) is not
observable — simulation between two runs of the same script that agree on the abstraction
(done, pend) of buf0.
-/
import Osmium.Lemmas.Buf

namespace Osmium.Buf

open Osmium.Layout

/-- operations that only add data (builders, commit, rollback, add_buffer, push_back, move): for
    these the grow mode `internal` is comparable with `yes` (clear/purge/set_removed/swap act on the
    current buffer only, by design not on the nested ones) -/
def GrowOp : Op → Bool
  | .clear | .swap | .setRm _ _ | .purge | .popNested => false
  | _ => true

def ptrSig (stack : List Frame) : List (Option Nat) := stack.map fun f => f.ptr.map (·.2)

structure Sim (s1 s2 : St) : Prop where
  done : s1.b0.done = s2.b0.done
  pend : s1.b0.pend = s2.b0.pend
  fill : s1.b0.fill = s2.b0.fill
  valid : s1.b0.valid = s2.b0.valid
  b1 : s1.b1 = s2.b1
  sig : frameSig s1.stack = frameSig s2.stack
  psig : ptrSig s1.stack = ptrSig s2.stack
  dead : s1.dead = s2.dead
  fix : s1.fixF4 = s2.fixF4
  m1 : s1.b0.mode ≠ .no
  m2 : s2.b0.mode ≠ .no
  bd1 : s1.Bounds
  bd2 : s2.Bounds

theorem frameSig_setTopPtr (st : List Frame) (p : Option (Nat × Nat)) : frameSig (setTopPtr st p) = frameSig st := by
  cases st <;> simp [setTopPtr, frameSig]

theorem ptrSig_setTopPtr (st : List Frame) (p : Option (Nat × Nat)) :
    ptrSig (setTopPtr st p) = match ptrSig st with | [] => [] | _ :: r => p.map (·.2) :: r := by
  cases st <;> simp [setTopPtr, ptrSig]

/-- the abstraction of buf0 after `reserve k` followed by a write `f` -/
theorem alloc_abs (k : Nat) (b b' : Buf) (f : Pend → Pend) (hf : LP f) (hb : b.Bounds) (h : reserve k b = .ok b') :
    (b'.onPend f).pend = f (b.pend ++ List.replicate k b.fill) ∧ (b'.onPend f).done = b.done ∧
    (b'.onPend f).fill = b.fill ∧ (b'.onPend f).valid = b.valid ∧ (b'.onPend f).mode = b.mode := by
  obtain ⟨g, hg, rfl, hcap⟩ := reserve_spec k b b' hb h
  have hc : (extend k g).committed ≤ (extend k g).written := by
    have := hg.comm; simp only [extend, Buf.written, List.length_append] at *; omega
  refine ⟨?_, ?_, ?_, ?_, ?_⟩
  · rw [onPend_pend _ _ hc, extend_pend _ _ hg.comm, hg.pend, hg.fill]
  · rw [onPend_done _ _ hc, extend_done _ _ hg.comm, hg.done]
  · simp [Buf.onPend, extend, hg.fill]
  · simp [Buf.onPend, extend, hg.valid]
  · simp [Buf.onPend, extend, hg.mode]

theorem execBase_sim (s1 s2 s1' s2' : St) (m : Micro) (hm : m.LP) (hs : Sim s1 s2)
    (h1 : execBase s1 m = .ok s1') (h2 : execBase s2 m = .ok s2') : Sim s1' s2' := by
  have hb1 := execBase_bounds s1 s1' m hm hs.bd1 h1
  have hb2 := execBase_bounds s2 s2' m hm hs.bd2 h2
  cases m with
  | alloc n save g =>
    simp only [execBase] at h1 h2
    split at h1
    · cases h1
    · rename_i b1' hr1
      split at h2
      · cases h2
      · rename_i b2' hr2
        injection h1 with h1; injection h2 with h2
        subst h1; subst h2
        have a1 := alloc_abs _ _ _ (g s1.b0.pend.length) (hm _) hs.bd1.1 hr1
        have a2 := alloc_abs _ _ _ (g s2.b0.pend.length) (hm _) hs.bd2.1 hr2
        refine ⟨?_, ?_, ?_, ?_, hs.b1, ?_, ?_, hs.dead, hs.fix, ?_, ?_, hb1, hb2⟩
        · simp only []; rw [a1.2.1, a2.2.1, hs.done]
        · simp only []; rw [a1.1, a2.1, hs.pend, hs.fill]
        · simp only []; rw [a1.2.2.1, a2.2.2.1, hs.fill]
        · simp only []; rw [a1.2.2.2.1, a2.2.2.2.1, hs.valid]
        · simp only []; split <;> simp only [frameSig_setTopPtr, hs.sig]
        · simp only []; split
          · rw [ptrSig_setTopPtr, ptrSig_setTopPtr, hs.psig, hs.pend]
            simp only [Option.map_some]
          · exact hs.psig
        · simp only []; rw [a1.2.2.2.2]; exact hs.m1
        · simp only []; rw [a2.2.2.2.2]; exact hs.m2
  | upd g =>
    simp only [execBase] at h1 h2
    injection h1 with h1; injection h2 with h2
    subst h1; subst h2
    refine ⟨?_, ?_, hs.fill, hs.valid, hs.b1, hs.sig, hs.psig, hs.dead, hs.fix, hs.m1, hs.m2, hb1, hb2⟩
    · simp only []; rw [onPend_done _ _ hs.bd1.1.1, onPend_done _ _ hs.bd2.1.1, hs.done]
    · simp only []; rw [onPend_pend _ _ hs.bd1.1.1, onPend_pend _ _ hs.bd2.1.1, hs.pend]
  | deref keep g =>
    simp only [execBase] at h1 h2
    have hsig := hs.sig
    have hpsig := hs.psig
    split at h1
    · cases h1
    · rename_i f1 r1 hst1
      split at h2
      · cases h2
      · rename_i f2 r2 hst2
        rw [hst1, hst2] at hpsig hsig
        simp only [ptrSig, List.map_cons, List.cons.injEq] at hpsig
        split at h1
        · cases h1
        · rename_i e1 o1 hp1
          split at h2
          · cases h2
          · rename_i e2 o2 hp2
            rw [hp1, hp2] at hpsig
            simp only [Option.map_some, Option.some.injEq] at hpsig
            obtain ⟨ho, hr⟩ := hpsig
            subst ho
            split at h1
            · split at h2
              · injection h1 with h1; injection h2 with h2
                subst h1; subst h2
                refine ⟨?_, ?_, hs.fill, hs.valid, hs.b1, ?_, ?_, hs.dead, hs.fix, hs.m1, hs.m2, hb1, hb2⟩
                · simp only []; rw [onPend_done _ _ hs.bd1.1.1, onPend_done _ _ hs.bd2.1.1, hs.done]
                · simp only []; rw [onPend_pend _ _ hs.bd1.1.1, onPend_pend _ _ hs.bd2.1.1, hs.pend]
                · simp only []; split <;> simp only [frameSig_setTopPtr, hst1, hst2, hsig]
                · simp only []; split
                  · simp only [hst1, hst2, ptrSig, List.map_cons, hp1, hp2, Option.map_some, hr]
                  · rw [ptrSig_setTopPtr, ptrSig_setTopPtr]
                    simp only [hst1, hst2, ptrSig, List.map_cons, Option.map_none]
                    exact congrArg _ hr
              · cases h2
            · cases h1
  | finish offs =>
    simp only [execBase] at h1 h2
    injection h1 with h1; injection h2 with h2
    subst h1; subst h2
    exact hs

/-- with auto-grow, a micro step never fails with buffer_is_full -/
theorem execBase_not_full (s : St) (m : Micro) (hmode : s.b0.mode ≠ .no) : execBase s m ≠ .error .full := by
  cases m with
  | alloc n save g =>
    simp only [execBase]
    obtain ⟨b', hb'⟩ := reserve_ok_of_mode (n s.b0.pend) s.b0 hmode
    rw [hb']; simp
  | upd g => simp [execBase]
  | deref keep g =>
    simp only [execBase]
    split
    · simp
    · split
      · simp
      · split <;> simp
  | finish offs => simp [execBase]

/-- both runs of a micro program succeed ⇒ the results are similar; a failure is never
    buffer_is_full.  Generic in the step function. -/
theorem execList_sim (ex : St → Micro → Except Err St)
    (hsim : ∀ s1 s2 s1' s2' m, m.LP → Sim s1 s2 → ex s1 m = .ok s1' → ex s2 m = .ok s2' → Sim s1' s2')
    (hnf : ∀ s m, s.b0.mode ≠ .no → ex s m ≠ .error .full)
    (ms : List Micro) (s1 s2 : St) (hm : AllLP ms) (hs : Sim s1 s2) :
    ((execList ex s1 ms).2 = none → (execList ex s2 ms).2 = none → Sim (execList ex s1 ms).1 (execList ex s2 ms).1) ∧
    (execList ex s1 ms).2 ≠ some .full ∧ (execList ex s2 ms).2 ≠ some .full := by
  induction ms generalizing s1 s2 with
  | nil => exact ⟨fun _ _ => hs, by simp [execList], by simp [execList]⟩
  | cons m ms ih =>
    have hm' : AllLP ms := fun x hx => hm x (List.mem_cons_of_mem _ hx)
    have hml : m.LP := hm m List.mem_cons_self
    have nf1 := hnf s1 m hs.m1
    have nf2 := hnf s2 m hs.m2
    have self1 : Sim s1 s1 := ⟨rfl, rfl, rfl, rfl, rfl, rfl, rfl, rfl, rfl, hs.m1, hs.m1, hs.bd1, hs.bd1⟩
    have self2 : Sim s2 s2 := ⟨rfl, rfl, rfl, rfl, rfl, rfl, rfl, rfl, rfl, hs.m2, hs.m2, hs.bd2, hs.bd2⟩
    simp only [execList]
    cases h1 : ex s1 m with
    | error e1 =>
      cases h2 : ex s2 m with
      | error e2 =>
        refine ⟨by simp, ?_, ?_⟩
        · intro h; simp at h; rw [h1, h] at nf1; exact nf1 rfl
        · intro h; simp at h; rw [h2, h] at nf2; exact nf2 rfl
      | ok s2' =>
        refine ⟨by simp, ?_, ?_⟩
        · intro h; simp at h; rw [h1, h] at nf1; exact nf1 rfl
        · simp only []
          exact (ih s2' s2' hm' (hsim s2 s2 s2' s2' m hml self2 h2 h2)).2.1
    | ok s1' =>
      cases h2 : ex s2 m with
      | error e2 =>
        refine ⟨by simp, ?_, ?_⟩
        · simp only []
          exact (ih s1' s1' hm' (hsim s1 s1 s1' s1' m hml self1 h1 h1)).2.1
        · intro h; simp at h; rw [h2, h] at nf2; exact nf2 rfl
      | ok s2' =>
        simp only []
        exact ih s1' s2' hm' (hsim s1 s2 s1' s2' m hml hs h1 h2)

theorem pendingTop_sim (s1 s2 : St) (hs : Sim s1 s2) : pendingTop s1 = pendingTop s2 := by
  have h := hs.psig
  unfold pendingTop
  cases h1 : s1.stack with
  | nil => cases h2 : s2.stack with
    | nil => rfl
    | cons f r => rw [h1, h2] at h; simp [ptrSig] at h
  | cons f1 r1 => cases h2 : s2.stack with
    | nil => rw [h1, h2] at h; simp [ptrSig] at h
    | cons f2 r2 =>
      rw [h1, h2] at h
      simp only [ptrSig, List.map_cons, List.cons.injEq] at h
      have := congrArg Option.isSome h.1
      simpa using this

theorem execMicro_not_full (s : St) (m : Micro) (hmode : s.b0.mode ≠ .no) : execMicro s m ≠ .error .full := by
  cases m with
  | finish offs =>
    simp only [execMicro]
    split
    · split
      · simp
      · simp
      · rename_i s' e hne he
        intro h; injection h with h; subst h
        exact hne rfl
    · simp
  | alloc n save g => simp only [execMicro]; exact execBase_not_full s _ hmode
  | upd g => simp only [execMicro]; exact execBase_not_full s _ hmode
  | deref keep g => simp only [execMicro]; exact execBase_not_full s _ hmode

theorem execMicro_sim (s1 s2 s1' s2' : St) (m : Micro) (hm : m.LP) (hs : Sim s1 s2)
    (h1 : execMicro s1 m = .ok s1') (h2 : execMicro s2 m = .ok s2') : Sim s1' s2' := by
  cases m with
  | finish offs =>
    have hl := execList_sim execBase execBase_sim execBase_not_full (mCommentText offs []) s1 s2
      (allLP_mCommentText _ _) hs
    have hp := pendingTop_sim s1 s2 hs
    simp only [execMicro, ← hs.fix, ← hp] at h1 h2
    cases hc : (s1.fixF4 && pendingTop s1) with
    | true =>
      simp only [hc, ↓reduceIte] at h1 h2
      generalize execList execBase s1 (mCommentText offs []) = r1 at *
      generalize execList execBase s2 (mCommentText offs []) = r2 at *
      obtain ⟨t1, e1⟩ := r1
      obtain ⟨t2, e2⟩ := r2
      obtain ⟨hsim, nf1, nf2⟩ := hl
      cases e1 with
      | some e1 =>
        cases e1 with
        | full => exact absurd rfl nf1
        | stale => simp at h1
        | null => simp at h1
        | misaligned => simp at h1
      | none =>
        cases e2 with
        | some e2 =>
          cases e2 with
          | full => exact absurd rfl nf2
          | stale => simp at h2
          | null => simp at h2
          | misaligned => simp at h2
        | none =>
          simp only [Except.ok.injEq] at h1 h2
          subst h1; subst h2
          exact hsim rfl rfl
    | false =>
      simp only [hc, Bool.false_eq_true, ↓reduceIte, Except.ok.injEq] at h1 h2
      subst h1; subst h2
      exact hs
  | alloc n save g => simp only [execMicro] at h1 h2; exact execBase_sim s1 s2 s1' s2' _ hm hs h1 h2
  | upd g => simp only [execMicro] at h1 h2; exact execBase_sim s1 s2 s1' s2' _ hm hs h1 h2
  | deref keep g => simp only [execMicro] at h1 h2; exact execBase_sim s1 s2 s1' s2' _ hm hs h1 h2

theorem execMicros_sim (ms : List Micro) (s1 s2 : St) (hm : AllLP ms) (hs : Sim s1 s2) :
    ((execMicros s1 ms).2 = none → (execMicros s2 ms).2 = none → Sim (execMicros s1 ms).1 (execMicros s2 ms).1) ∧
    (execMicros s1 ms).2 ≠ some .full ∧ (execMicros s2 ms).2 ≠ some .full :=
  execList_sim execMicro execMicro_sim execMicro_not_full ms s1 s2 hm hs

theorem sim_refl (s : St) (hm : s.b0.mode ≠ .no) (hb : s.Bounds) : Sim s s :=
  ⟨rfl, rfl, rfl, rfl, rfl, rfl, rfl, rfl, rfl, hm, hm, hb, hb⟩

theorem commit_done (b : Buf) (h : b.committed ≤ b.written) :
    ({ b with committed := b.written } : Buf).done = b.done ++ b.pend ∧
    ({ b with committed := b.written } : Buf).pend = [] := by
  simp only [Buf.done, Buf.comm, Buf.pend, Buf.written, List.take_length, List.drop_length, and_true]
  rw [List.append_assoc, List.take_append_drop]

theorem applyAfter_sim (a : After) (s1 s2 : St) (hs : Sim s1 s2) : Sim (applyAfter a s1) (applyAfter a s2) := by
  have b1 := applyAfter_bounds a s1 hs.bd1
  have b2 := applyAfter_bounds a s2 hs.bd2
  cases a with
  | nothing => exact hs
  | push off k =>
    exact ⟨hs.done, hs.pend, hs.fill, hs.valid, hs.b1, by simp [applyAfter, frameSig] at *; exact hs.sig,
      by simp [applyAfter, ptrSig] at *; exact hs.psig, hs.dead, hs.fix, hs.m1, hs.m2, b1, b2⟩
  | pop =>
    refine ⟨hs.done, hs.pend, hs.fill, hs.valid, hs.b1, ?_, ?_, hs.dead, hs.fix, hs.m1, hs.m2, b1, b2⟩
    · have := congrArg List.tail hs.sig; simpa [applyAfter, frameSig, List.map_tail] using this
    · have := congrArg List.tail hs.psig; simpa [applyAfter, ptrSig, List.map_tail] using this
  | commit =>
    have c1 := commit_done s1.b0 hs.bd1.1.1
    have c2 := commit_done s2.b0 hs.bd2.1.1
    refine ⟨?_, ?_, hs.fill, hs.valid, hs.b1, hs.sig, hs.psig, hs.dead, hs.fix, hs.m1, hs.m2, b1, b2⟩
    · simp only [applyAfter]; rw [c1.1, c2.1, hs.done, hs.pend]
    · simp only [applyAfter]; rw [c1.2, c2.2]

theorem runMicros_sim (s1 s2 : St) (ms : List Micro) (a : After) (hm : AllLP ms) (hs : Sim s1 s2)
    (hd : s1.dead = none)
    (d1 : (runMicros s1 ms (applyAfter a)).1.dead = none) (d2 : (runMicros s2 ms (applyAfter a)).1.dead = none) :
    Sim (runMicros s1 ms (applyAfter a)).1 (runMicros s2 ms (applyAfter a)).1 ∧
    (runMicros s1 ms (applyAfter a)).2 = (runMicros s2 ms (applyAfter a)).2 := by
  obtain ⟨hsim, nf1, nf2⟩ := execMicros_sim ms s1 s2 hm hs
  simp only [runMicros] at *
  generalize execMicros s1 ms = r1 at *
  generalize execMicros s2 ms = r2 at *
  obtain ⟨t1, e1⟩ := r1
  obtain ⟨t2, e2⟩ := r2
  cases e1 with
  | some e1 =>
    cases e1 with
    | full => exact absurd rfl nf1
    | stale => simp at d1
    | null => simp at d1
    | misaligned => simp at d1
  | none =>
    cases e2 with
    | some e2 =>
      cases e2 with
      | full => exact absurd rfl nf2
      | stale => simp at d2
      | null => simp at d2
      | misaligned => simp at d2
    | none =>
      have hsim' : Sim t1 t2 := by simpa using hsim
      exact ⟨applyAfter_sim a t1 t2 hsim', by simp⟩

theorem plan_comm0_irrel (fs : List (Nat × Kind)) (pl : Nat) (aux : Bytes) (av : Bool) (c c' : Bytes) (op : Op)
    (h : GrowOp op = true) : plan fs pl aux av c op = plan fs pl aux av c' op := by
  cases op <;> first | rfl | simp [GrowOp] at h

theorem plan_bufop_grow (fs : List (Nat × Kind)) (pl : Nat) (aux : Bytes) (av : Bool) (c : Bytes) (op : Op) (o : BufOp)
    (h : GrowOp op = true) (hp : plan fs pl aux av c op = .bufop o) : o = .commit ∨ o = .rollback ∨ o = .move := by
  cases op <;> simp only [plan] at hp <;> (repeat' split at hp) <;>
    first
    | (cases hp; done)
    | (simp [GrowOp] at h; done)
    | (injection hp with hp; subst hp; simp)

theorem rollback_abs (b : Buf) :
    ({ b with bytes := b.comm } : Buf).done = b.done ∧ ({ b with bytes := b.comm } : Buf).pend = [] := by
  simp only [Buf.done, Buf.comm, Buf.pend, List.take_take, Nat.min_self, true_and]
  simp [List.drop_take]

theorem execBufOp_sim (s1 s2 : St) (o : BufOp) (ho : o = .commit ∨ o = .rollback ∨ o = .move) (hs : Sim s1 s2) :
    Sim (execBufOp s1 o).1 (execBufOp s2 o).1 := by
  have b1 := execBufOp_bounds s1 o hs.bd1
  have b2 := execBufOp_bounds s2 o hs.bd2
  rcases ho with rfl | rfl | rfl
  · have c1 := commit_done s1.b0 hs.bd1.1.1
    have c2 := commit_done s2.b0 hs.bd2.1.1
    refine ⟨?_, ?_, hs.fill, hs.valid, hs.b1, hs.sig, hs.psig, hs.dead, hs.fix, hs.m1, hs.m2, b1, b2⟩
    · simp only [execBufOp]; rw [c1.1, c2.1, hs.done, hs.pend]
    · simp only [execBufOp]; rw [c1.2, c2.2]
  · have c1 := rollback_abs s1.b0
    have c2 := rollback_abs s2.b0
    refine ⟨?_, ?_, hs.fill, hs.valid, hs.b1, hs.sig, hs.psig, hs.dead, hs.fix, hs.m1, hs.m2, b1, b2⟩
    · simp only [execBufOp]; rw [c1.1, c2.1, hs.done]
    · simp only [execBufOp]; rw [c1.2, c2.2]
  · exact hs

/-- one script operation on two similar states: similar results and the same status, unless one of
    the runs hits an undefined-behaviour outcome -/
theorem step_sim (s1 s2 : St) (op : Op) (hg : GrowOp op = true) (hs : Sim s1 s2)
    (d1 : (step s1 op).1.dead = none) (d2 : (step s2 op).1.dead = none) :
    Sim (step s1 op).1 (step s2 op).1 ∧ (step s1 op).2.1 = (step s2 op).2.1 := by
  have hplan : plan (frameSig s1.stack) s1.b0.pend.length s1.b1.comm s1.b1.valid s1.b0.comm op =
      plan (frameSig s2.stack) s2.b0.pend.length s2.b1.comm s2.b1.valid s2.b0.comm op := by
    rw [hs.sig, hs.pend, hs.b1, plan_comm0_irrel _ _ _ _ s1.b0.comm s2.b0.comm op hg]
  simp only [step] at *
  rw [← hs.dead, ← hs.valid, ← hplan] at *
  cases hdead : s1.dead with
  | some e => simp only [hdead] at d1 ⊢; exact ⟨hs, by simp⟩
  | none =>
    simp only [hdead] at d1 d2 ⊢
    cases hv : s1.b0.valid with
    | false => simp only [hv] at d1 d2 ⊢; exact ⟨hs, by simp⟩
    | true =>
      simp only [hv] at d1 d2 ⊢
      cases hp : plan (frameSig s1.stack) s1.b0.pend.length s1.b1.comm s1.b1.valid s1.b0.comm op with
      | bad => exact ⟨hs, by simp⟩
      | die e => simp only [hp] at d1; simp at d1
      | micros ms a =>
        simp only [hp] at d1 d2 ⊢
        have := runMicros_sim s1 s2 ms a (plan_LP _ _ _ _ _ _ _ _ hp) hs hdead d1 d2
        exact ⟨this.1, this.2⟩
      | bufop o =>
        simp only [hp] at d1 d2 ⊢
        exact ⟨execBufOp_sim s1 s2 o (plan_bufop_grow _ _ _ _ _ _ _ hg hp) hs, by simp⟩

theorem step_dead_sticky (s : St) (op : Op) (h : (step s op).1.dead = none) : s.dead = none := by
  cases hd : s.dead with
  | none => rfl
  | some e => simp [step, hd] at h

theorem run_dead_sticky (ops : List Op) (s : St) (h : (run s ops).dead = none) : s.dead = none := by
  induction ops generalizing s with
  | nil => exact h
  | cons op ops ih => exact step_dead_sticky s op (ih _ h)

theorem run_sim (ops : List Op) (s1 s2 : St) (hg : ∀ op ∈ ops, GrowOp op = true) (hs : Sim s1 s2)
    (d1 : (run s1 ops).dead = none) (d2 : (run s2 ops).dead = none) : Sim (run s1 ops) (run s2 ops) := by
  induction ops generalizing s1 s2 with
  | nil => exact hs
  | cons op ops ih =>
    simp only [run] at *
    have e1 := run_dead_sticky ops _ d1
    have e2 := run_dead_sticky ops _ d2
    exact ih _ _ (fun o ho => hg o (List.mem_cons_of_mem _ ho))
      (step_sim s1 s2 op (hg op List.mem_cons_self) hs e1 e2).1 d1 d2

end Osmium.Buf
