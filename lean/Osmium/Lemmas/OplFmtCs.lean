/-
OPL changesets: the attribute loop of `opl_parse_changeset` on what `OPLOutputBlock::changeset`
writes (helper lemmas for Props/C01Text.lean).
-/
import Osmium.Lemmas.OplFmtObj

namespace Osmium.OplFmt
open Osmium.Osm Osmium.TextFmt Osmium.Conv Osmium.Utf8
open Osmium.Conv.IntLemmas (NoDigitHead)

/-- the coordinate text `write_location` emits after the attribute letter -/
def coordBody (l : Location) (c : Int) : Bytes := if isUndefined l then [] else formatCoord c

theorem wLocation_eq (l : Location) (cx cy : UInt8) :
    wLocation l cx cy = 0x20 :: cx :: (coordBody l l.x ++ 0x20 :: cy :: coordBody l l.y) := by
  unfold wLocation coordBody
  split <;> simp

def LocOK (l : Location) : Prop := l = Location.undefined ∨ valid l = true

/-- one coordinate attribute of a changeset, empty or not -/
theorem coord_field (l : Location) (hl : LocOK l) (c : Int) (hc : c = l.x ∨ c = l.y) (rest : Bytes) (hr : Sep rest) :
    (nonEmptyB (peek (coordBody l c ++ rest)) = false ∧ coordBody l c = [] ∧ c = Location.undefinedCoordinate) ∨
    (nonEmptyB (peek (coordBody l c ++ rest)) = true ∧ pCoord (coordBody l c ++ rest) = .ok (c, rest)) := by
  rcases hl with hu | hv
  · left
    have hiu : isUndefined l = true := by rw [hu]; decide
    refine ⟨by simp [coordBody, hiu, hr.notNonEmpty], by simp [coordBody, hiu], ?_⟩
    rcases hc with h | h <;> rw [h, hu] <;> rfl
  · right
    obtain ⟨hx1, hx2, hy1, hy2, _, hnu⟩ := valid_range hv
    have hc1 : int32Min ≤ c ∧ c ≤ int32Max := by rcases hc with h | h <;> rw [h] <;> constructor <;> assumption
    obtain ⟨hne, hn⟩ := formatCoord_shape c hc1.1 hc1.2
    simp only [coordBody, hnu, Bool.false_eq_true, if_false]
    exact ⟨peek_append_ne hne (AllNE_of_num hn), formatCoord_pCoord c hc1.1 hc1.2 rest hr.terminates⟩

theorem csField_k (st : CsSt) (hst : st.numChanges = none) (v : Nat) (out rest : Bytes)
    (hp : pU32 (out ++ rest) = .ok (v, rest)) :
    csField st 0x6b (out ++ rest) = .ok ({ st with numChanges := some v }, rest) := by
  simp [csField, hst, hp]

theorem csField_s (st : CsSt) (hst : st.createdAt = none) (v : Nat) (out rest : Bytes)
    (hp : pTs (out ++ rest) = .ok (v, rest)) :
    csField st 0x73 (out ++ rest) = .ok ({ st with createdAt := some v }, rest) := by
  simp [csField, hst, hp]

theorem csField_e (st : CsSt) (hst : st.closedAt = none) (v : Nat) (out rest : Bytes)
    (hp : pTs (out ++ rest) = .ok (v, rest)) :
    csField st 0x65 (out ++ rest) = .ok ({ st with closedAt := some v }, rest) := by
  simp [csField, hst, hp]

theorem csField_d (st : CsSt) (hst : st.numComments = none) (v : Nat) (out rest : Bytes)
    (hp : pU32 (out ++ rest) = .ok (v, rest)) :
    csField st 0x64 (out ++ rest) = .ok ({ st with numComments := some v }, rest) := by
  simp [csField, hst, hp]

theorem csField_i (st : CsSt) (hst : st.uid = none) (v : Nat) (out rest : Bytes)
    (hp : pU32 (out ++ rest) = .ok (v, rest)) :
    csField st 0x69 (out ++ rest) = .ok ({ st with uid := some v }, rest) := by
  simp [csField, hst, hp]

theorem csField_u (st : CsSt) (hst : st.user = none) (v : Bytes) (out rest : Bytes)
    (hp : pStr (out ++ rest) = .ok (v, rest)) :
    csField st 0x75 (out ++ rest) = .ok ({ st with user := some v }, rest) := by
  simp [csField, hst, hp]

theorem csField_x (st : CsSt) (hst : st.hasMinX = false) (hd : st.blx = Location.undefinedCoordinate) (l : Location)
    (hl : LocOK l) (rest : Bytes) (hr : Sep rest) :
    csField st 0x78 (coordBody l l.x ++ rest) = .ok ({ st with hasMinX := true, blx := l.x }, rest) := by
  rcases coord_field l hl l.x (Or.inl rfl) rest hr with ⟨h1, h2, h3⟩ | ⟨h1, h2⟩
  · simp only [csField, h1, h2, List.nil_append] at *
    simp [hst, h1, h3, ← hd]
  · simp [csField, hst, h1, h2]

theorem csField_y (st : CsSt) (hst : st.hasMinY = false) (hd : st.bly = Location.undefinedCoordinate) (l : Location)
    (hl : LocOK l) (rest : Bytes) (hr : Sep rest) :
    csField st 0x79 (coordBody l l.y ++ rest) = .ok ({ st with hasMinY := true, bly := l.y }, rest) := by
  rcases coord_field l hl l.y (Or.inr rfl) rest hr with ⟨h1, h2, h3⟩ | ⟨h1, h2⟩
  · simp only [csField, h1, h2, List.nil_append] at *
    simp [hst, h1, h3, ← hd]
  · simp [csField, hst, h1, h2]

theorem csField_X (st : CsSt) (hst : st.hasMaxX = false) (hd : st.trx = Location.undefinedCoordinate) (l : Location)
    (hl : LocOK l) (rest : Bytes) (hr : Sep rest) :
    csField st 0x58 (coordBody l l.x ++ rest) = .ok ({ st with hasMaxX := true, trx := l.x }, rest) := by
  rcases coord_field l hl l.x (Or.inl rfl) rest hr with ⟨h1, h2, h3⟩ | ⟨h1, h2⟩
  · simp only [csField, h1, h2, List.nil_append] at *
    simp [hst, h1, h3, ← hd]
  · simp [csField, hst, h1, h2]

theorem csField_Y (st : CsSt) (hst : st.hasMaxY = false) (hd : st.try_ = Location.undefinedCoordinate) (l : Location)
    (hl : LocOK l) (rest : Bytes) (hr : Sep rest) :
    csField st 0x59 (coordBody l l.y ++ rest) = .ok ({ st with hasMaxY := true, try_ := l.y }, rest) := by
  rcases coord_field l hl l.y (Or.inr rfl) rest hr with ⟨h1, h2, h3⟩ | ⟨h1, h2⟩
  · simp only [csField, h1, h2, List.nil_append] at *
    simp [hst, h1, h3, ← hd]
  · simp [csField, hst, h1, h2]

theorem csField_T_empty (st : CsSt) (hst : st.hasTags = false) (rest : Bytes) (hr : Sep rest) :
    csField st 0x54 rest = .ok ({ st with hasTags := true }, rest) := by
  simp [csField, hst, hr.notNonEmpty]

theorem csField_T (st : CsSt) (hst : st.hasTags = false) (sec rest : Bytes) (hne : sec ≠ []) (hs : AllNE sec)
    (hr : Sep rest) :
    csField st 0x54 (sec ++ rest) = .ok ({ st with hasTags := true, tagsBegin := some (sec ++ rest) }, rest) := by
  simp [csField, hst, peek_append_ne hne hs, skipSection_append hs hr]

/-- a changeset of the domain -/
structure CsOK (id ca cl nc ncm : Nat) (uid : Int) (user : Bytes) (bl tr : Location) (tags : List Tag) : Prop where
  id : id ≤ 4294967295
  ca : ca < 4294967296
  cl : cl < 4294967296
  nc : nc ≤ 4294967295
  ncm : ncm ≤ 4294967295
  uid0 : 0 ≤ uid
  uid1 : uid < 2147483648
  user : strOK 0x110000 user = true
  bl : LocOK bl
  tr : LocOK tr
  tags : ∀ t ∈ tags, TagOK t

theorem parseLine_changeset (s : Bytes) : parseLine {} (0x63 :: s) = bindE (pChangeset s) fun o => .ok (some o) := by
  simp [parseLine]

theorem changeset_roundtrip (o : Opts) (id ca cl nc ncm : Nat) (uid : Int) (user : Bytes) (bl tr : Location)
    (tags : List Tag) (cs : List Comment) (h : CsOK id ca cl nc ncm uid user bl tr tags) :
    ∃ line, writeObject o (.changeset id ca cl nc ncm uid user bl tr tags cs) = .ok (line ++ [0x0a]) ∧
      parseLine {} line = .ok (some (project o (.changeset id ca cl nc ncm uid user bl tr tags cs))) := by
  obtain ⟨bid, hbid, _, _, pid⟩ := wInt_pU32 id h.id
  obtain ⟨bnc, hbnc, _, _, pnc⟩ := wInt_pU32 nc h.nc
  obtain ⟨bncm, hbncm, _, _, pncm⟩ := wInt_pU32 ncm h.ncm
  have huid : ((uid.toNat : Nat) : Int) = uid := by have := h.uid0; omega
  obtain ⟨buid, hbuid, _, _, puid⟩ := wInt_pU32 uid.toNat (by have := h.uid1; omega)
  rw [huid] at hbuid
  obtain ⟨bu, hbu, _, pu⟩ := wStr_pStr user h.user
  obtain ⟨xs, hxs, hne, hnn, hlen, hpt⟩ := tags_spec tags h.tags
  -- the line, right-nested
  let tb : Bytes := 0x20 :: 0x54 :: joinSep 0x2c xs
  let rY : Bytes := 0x20 :: 0x59 :: (coordBody tr tr.y ++ tb)
  let rX : Bytes := 0x20 :: 0x58 :: (coordBody tr tr.x ++ rY)
  let ry : Bytes := 0x20 :: 0x79 :: (coordBody bl bl.y ++ rX)
  let rx : Bytes := 0x20 :: 0x78 :: (coordBody bl bl.x ++ ry)
  let ru : Bytes := 0x20 :: 0x75 :: (bu ++ rx)
  let ri : Bytes := 0x20 :: 0x69 :: (buid ++ ru)
  let rd : Bytes := 0x20 :: 0x64 :: (bncm ++ ri)
  let re : Bytes := 0x20 :: 0x65 :: (toIso cl ++ rd)
  let rs : Bytes := 0x20 :: 0x73 :: (toIso ca ++ re)
  let rk : Bytes := 0x20 :: 0x6b :: (bnc ++ rs)
  refine ⟨0x63 :: (bid ++ rk), by
    simp [writeObject, hbid, hbnc, hbncm, hbuid, hbu, wTags, hxs, wLocation_eq, rk, rs, re, rd, ri, ru, rx, ry, rX, rY, tb], ?_⟩
  have sep : ∀ (c : UInt8) (t : Bytes), Sep (0x20 :: c :: t) := fun c t => Or.inr ⟨_, rfl⟩
  -- states
  let c1 : CsSt := { numChanges := some nc }
  let c2 : CsSt := { c1 with createdAt := some ca }
  let c3 : CsSt := { c2 with closedAt := some cl }
  let c4 : CsSt := { c3 with numComments := some ncm }
  let c5 : CsSt := { c4 with uid := some uid.toNat }
  let c6 : CsSt := { c5 with user := some user }
  let c7 : CsSt := { c6 with hasMinX := true, blx := bl.x }
  let c8 : CsSt := { c7 with hasMinY := true, bly := bl.y }
  let c9 : CsSt := { c8 with hasMaxX := true, trx := tr.x }
  let c10 : CsSt := { c9 with hasMaxY := true, try_ := tr.y }
  let tbg : Option Bytes := if tags = [] then none else some (joinSep 0x2c xs ++ [])
  let c11 : CsSt := { c10 with hasTags := true, tagsBegin := tbg }
  have hT : attrLoop csField 2 c10 tb = .ok c11 := by
    by_cases ht0 : tags = []
    · have hx0 : xs = [] := by subst ht0; simp only [mapE] at hxs; cases hxs; rfl
      have := loop_field csField 0x54 (by decide) [] [] c10 c11
        (by simpa [c11, tbg, ht0] using csField_T_empty c10 rfl [] (Or.inl rfl)) 1 c11 (attrLoop_nil _ 0 _)
      simpa [tb, hx0, joinSep] using this
    · have := loop_field csField 0x54 (by decide) (joinSep 0x2c xs) [] c10 c11
        (by simpa [c11, tbg, ht0] using csField_T c10 rfl _ [] (hnn ht0) hne (Or.inl rfl)) 1 c11 (attrLoop_nil _ 0 _)
      simpa [tb] using this
  have hY := loop_field csField 0x59 (by decide) (coordBody tr tr.y) tb c9 c10
    (csField_Y c9 rfl rfl tr h.tr tb (sep _ _)) 2 c11 hT
  have hX := loop_field csField 0x58 (by decide) (coordBody tr tr.x) rY c8 c9
    (csField_X c8 rfl rfl tr h.tr rY (sep _ _)) 3 c11 (by simpa [rY] using hY)
  have hy := loop_field csField 0x79 (by decide) (coordBody bl bl.y) rX c7 c8
    (csField_y c7 rfl rfl bl h.bl rX (sep _ _)) 4 c11 (by simpa [rX] using hX)
  have hx := loop_field csField 0x78 (by decide) (coordBody bl bl.x) ry c6 c7
    (csField_x c6 rfl rfl bl h.bl ry (sep _ _)) 5 c11 (by simpa [ry] using hy)
  have hu := loop_field csField 0x75 (by decide) bu rx c5 c6
    (csField_u c5 rfl user bu rx (pu rx (sep _ _).atStop)) 6 c11 (by simpa [rx] using hx)
  have hi := loop_field csField 0x69 (by decide) buid ru c4 c5
    (csField_i c4 rfl uid.toNat buid ru (puid ru (sep _ _).noDigit)) 7 c11 (by simpa [ru] using hu)
  have hd := loop_field csField 0x64 (by decide) bncm ri c3 c4
    (csField_d c3 rfl ncm bncm ri (pncm ri (sep _ _).noDigit)) 8 c11 (by simpa [ri] using hi)
  have he := loop_field csField 0x65 (by decide) (toIso cl) rd c2 c3
    (csField_e c2 rfl cl (toIso cl) rd (toIso_pTs cl h.cl rd (sep _ _))) 9 c11 (by simpa [rd] using hd)
  have hs := loop_field csField 0x73 (by decide) (toIso ca) re c1 c2
    (csField_s c1 rfl ca (toIso ca) re (toIso_pTs ca h.ca re (sep _ _))) 10 c11 (by simpa [re] using he)
  have hk := loop_field csField 0x6b (by decide) bnc rs {} c1
    (csField_k {} rfl nc bnc rs (pnc rs (sep _ _).noDigit)) 11 c11 (by simpa [rs] using hs)
  have hall : attrLoop csField 12 {} rk = .ok c11 := by simpa [rk] using hk
  rw [parseLine_changeset, pChangeset, pid rk (sep _ _).noDigit]
  simp only [bindE_ok]
  rw [loopFuel_ge _ 12 (by decide) _ _ _ hall]
  have hft : finishTags c11.tagsBegin = .ok tags := by
    show finishTags tbg = .ok tags
    by_cases ht0 : tags = []
    · simp [tbg, ht0, finishTags]
    · simp only [tbg, ht0, if_false, finishTags]
      exact hpt [] (Or.inl rfl) _ (by simp only [List.length_append]; omega) ht0
  have hsu : setUserCheck (c11.user.getD []) = .ok () := by
    have hl := strOK_len h.user
    show setUserCheck user = .ok ()
    unfold setUserCheck; simp [maxString]; omega
  simp only [bindE_ok, hsu, hft, project]
  have e1 : bl = ⟨bl.x, bl.y⟩ := rfl
  have e2 : tr = ⟨tr.x, tr.y⟩ := rfl
  simp [c11, c10, c9, c8, c7, c6, c5, c4, c3, c2, c1, huid]

end Osmium.OplFmt
