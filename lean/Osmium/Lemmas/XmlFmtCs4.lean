/-
XML round trip of changesets with discussions, part 4: the whole `<changeset>` element over the
writer's markup pieces (helper lemmas for Props/C01Text.lean).
-/
import Osmium.Lemmas.XmlFmtCs3

namespace Osmium.XmlFmt
open Osmium.Osm Osmium.TextFmt Osmium.Conv Osmium.Utf8

/-- the attribute list of `changeset()` as the writer computes it -/
def csAttrsW (id ca cl nc ncm : Nat) (uid : Int) (user : Bytes) (bl tr : Location) : Except WErr (List (String × Bytes)) :=
  bindE (intAttr "id" id) fun aid =>
  bindE (if uid != 0 then bindE (intAttr "uid" uid) fun a => .ok [("user", Xml.escape user), a] else .ok []) fun au =>
  bindE (intAttr "num_changes" nc) fun anc =>
  bindE (intAttr "comments_count" ncm) fun acc =>
  (Except.ok ([aid] ++ (if ca != 0 then [("created_at", toIso ca)] else []) ++
    (if cl != 0 then [("closed_at", toIso cl), ("open", bFalse)] else [("open", bTrue)]) ++ au ++
    (if !isUndefined bl || !isUndefined tr then latLon "min_lat" "min_lon" bl ++ latLon "max_lat" "max_lon" tr else []) ++
    [anc, acc]) : Except WErr (List (String × Bytes)))

theorem objectPieces_cs (o : Opts) (id ca cl nc ncm : Nat) (uid : Int) (user : Bytes) (bl tr : Location) (tags : List Tag)
    (cs : List Comment) :
    objectPieces o (.changeset id ca cl nc ncm uid user bl tr tags cs) =
      bindE (csAttrsW id ca cl nc ncm uid user bl tr) fun as =>
        if tags.isEmpty && cs.isEmpty then .ok [sp 1, .elem "changeset" as true, nl]
        else
          bindE (if cs.isEmpty then .ok [] else discussionPieces cs) fun ds =>
          .ok ([sp 1, .elem "changeset" as false, nl] ++ tagPieces 0 tags ++ ds ++ [sp 1, .close "changeset", nl]) := by
  simp only [objectPieces, csAttrsW]
  cases intAttr "id" (id : Int) with
  | error e => rfl
  | ok aid =>
    simp only [bindE_ok]
    cases (if (uid != 0) = true then bindE (intAttr "uid" uid) fun a =>
        (Except.ok [("user", Xml.escape user), a] : Except WErr (List (String × Bytes))) else Except.ok []) with
    | error e => rfl
    | ok au =>
      simp only [bindE_ok]
      cases intAttr "num_changes" (nc : Int) with
      | error e => rfl
      | ok anc =>
        simp only [bindE_ok]
        cases intAttr "comments_count" (ncm : Int) with
        | error e => rfl
        | ok acc => rfl

theorem firstTags_disc (pre : List Sub) (ts : List Tag) (cs : List Comment) (hpre : pre = [] ∨ pre = [.tags ts])
    (hft : firstTags pre = ts) :
    firstTags (pre ++ [.discussion cs]) = ts ∧ firstDiscussion (pre ++ [.discussion cs]) = cs ∧
      firstDiscussion pre = [] ∧ ∀ x, pre.getLast? ≠ some (.discussion x) := by
  rcases hpre with rfl | rfl
  · simp only [firstTags] at hft
    subst hft
    simp [firstTags, firstDiscussion]
  · simp [firstTags, firstDiscussion]

theorem changeset_rt (o : Opts) (id ca cl nc ncm : Nat) (uid : Int) (user : Bytes) (bl tr : Location) (tags : List Tag)
    (cs : List Comment) (h : XCsOK id ca cl nc ncm uid user bl tr tags cs) (st : RSt) (p : Ctx) (hp : TopParent p)
    (rest : List Ctx) (hs : st.stack = p :: rest) (hc : st.cur = none) (hct : st.commentText = [])
    (hcp : st.commentPending = false) :
    ∃ ps, objectPieces o (.changeset id ca cl nc ncm uid user bl tr tags cs) = .ok ps ∧
      runPieces ps st = .ok { markDone st with out := project o (.changeset id ca cl nc ncm uid user bl tr tags cs) :: st.out } := by
  obtain ⟨as, as', hw, hdec, hinit⟩ := cs_attrs_spec id ca cl nc ncm uid user bl tr tags cs h
  have hw' : csAttrsW id ca cl nc ncm uid user bl tr = .ok as := hw
  have hnt0 : NoText st := by unfold NoText; rw [hs]; rcases hp with rfl | rfl <;> simp
  let ob : Object := .changeset id ca cl nc ncm (if uid != 0 then uid else 0) (if uid != 0 then user else []) bl tr [] []
  have hstart : startElement {} st "changeset" as' = .ok { markDone (push st .changeset) with cur := some { obj := ob } } := by
    rw [start_changeset st p hp rest hs, hinit]; rfl
  let st1 : RSt := { markDone (push st .changeset) with cur := some { obj := ob } }
  have hs1 : st1.stack = Ctx.changeset :: p :: rest := by
    simp only [st1]
    cases hh : st.headerOut <;> simp [markDone, push, hh, hs]
  have hct1 : ∀ c : Cur, ({ st1 with cur := some c } : RSt).commentText = [] := by
    intro c
    simp only [st1]
    cases hh : st.headerOut <;> simp [markDone, push, hh, hct]
  have hcp1 : ∀ c : Cur, ({ st1 with cur := some c } : RSt).commentPending = false := by
    intro c
    simp only [st1]
    cases hh : st.headerOut <;> simp [markDone, push, hh, hcp]
  have hend : ∀ c : Cur, endElement {} ({ st1 with cur := some c } : RSt) =
      .ok { markDone st with out := assemble c :: st.out } := by
    intro c
    rw [end_changeset ({ st1 with cur := some c } : RSt) p rest hs1 c rfl]
    exact congrArg Except.ok (object_done st _ .changeset _ rest hs hc c (assemble c) rfl)
  have hntF : ∀ ob' : Object, NoText ({ markDone st with out := ob' :: st.out } : RSt) := by
    intro ob'
    unfold NoText
    have : ({ markDone st with out := ob' :: st.out } : RSt).stack = p :: rest := by
      cases hh : st.headerOut <;> simp [markDone, hh, hs]
    rw [this]; rcases hp with rfl | rfl <;> simp
  have hnt1 : ∀ c : Cur, NoText ({ st1 with cur := some c } : RSt) := by
    intro c; unfold NoText; rw [hs1]; simp
  rw [objectPieces_cs, hw', bindE_ok]
  by_cases hempty : (tags.isEmpty && cs.isEmpty) = true
  · have ht : tags = [] ∧ cs = [] := by simpa using hempty
    refine ⟨[sp 1, .elem "changeset" as true, nl], by rw [if_pos hempty], ?_⟩
    rw [sp, runPieces_ws _ _ _ hnt0, runPieces_elem _ _ _ _ _ _ hdec, hstart]
    simp only [bindE_ok, if_true]
    have h1 := hend { obj := ob }
    have e1 : ({ st1 with cur := some { obj := ob } } : RSt) = st1 := rfl
    rw [e1] at h1
    rw [h1]
    simp only [bindE_ok, nl]
    rw [runPieces_ws _ _ _ (hntF _), runPieces]
    have : assemble { obj := ob } = project o (.changeset id ca cl nc ncm uid user bl tr tags cs) := by
      rw [ht.1, ht.2]; rfl
    rw [this]
  · have hempty' : (tags.isEmpty && cs.isEmpty) = false := by simpa using hempty
    obtain ⟨pre, lo, hcol, hpre, hft⟩ := tags_collected ob tags
    obtain ⟨ft1, ft2, ft3, ft4⟩ := firstTags_disc pre tags cs hpre hft
    have hE : ∀ c : Cur, assemble c = project o (.changeset id ca cl nc ncm uid user bl tr tags cs) →
        ∀ tail : List Piece, tail = [] →
        runPieces (sp 1 :: .close "changeset" :: nl :: tail) ({ st1 with cur := some c } : RSt) =
          .ok { markDone st with out := project o (.changeset id ca cl nc ncm uid user bl tr tags cs) :: st.out } := by
      intro c hc' tail htail
      subst htail
      rw [sp, runPieces_ws _ _ _ (hnt1 _), runPieces_close, hend c, hc']
      simp only [bindE_ok, nl]
      rw [runPieces_ws _ _ _ (hntF _), runPieces]
    by_cases hcs : cs.isEmpty = true
    · have hcs0 : cs = [] := by simpa using hcs
      refine ⟨[sp 1, .elem "changeset" as false, nl] ++ tagPieces 0 tags ++ [] ++ [sp 1, .close "changeset", nl],
        by rw [if_neg hempty, if_pos hcs, bindE_ok], ?_⟩
      simp only [List.cons_append, List.nil_append, List.append_assoc, List.append_nil]
      rw [sp, runPieces_ws _ _ _ hnt0, runPieces_elem _ _ _ _ _ _ hdec, hstart]
      simp only [bindE_ok, Bool.false_eq_true, if_false, nl]
      rw [runPieces_ws _ _ _ (hnt1 _)]
      rw [tags_run 0 tags h.tags _ .changeset (Or.inr (Or.inr (Or.inr rfl))) (p :: rest) st1 _ hs1 rfl, hcol]
      refine hE _ ?_ [] rfl
      rw [assemble_changeset _ _ _ _ _ _ _ _ _ _ _ _ tags [] rfl hft ft3, hcs0]
      rfl
    · obtain ⟨ds, hds, hdrun⟩ := discussion_run (p :: rest) cs h.cs
      refine ⟨[sp 1, .elem "changeset" as false, nl] ++ tagPieces 0 tags ++ ds ++ [sp 1, .close "changeset", nl],
        by rw [if_neg hempty, if_neg hcs, hds, bindE_ok], ?_⟩
      simp only [List.cons_append, List.nil_append, List.append_assoc]
      rw [sp, runPieces_ws _ _ _ hnt0, runPieces_elem _ _ _ _ _ _ hdec, hstart]
      simp only [bindE_ok, Bool.false_eq_true, if_false, nl]
      rw [runPieces_ws _ _ _ (hnt1 _)]
      rw [tags_run 0 tags h.tags _ .changeset (Or.inr (Or.inr (Or.inr rfl))) (p :: rest) st1 _ hs1 rfl, hcol]
      rw [hdrun ({ st1 with cur := some { obj := ob, subs := pre, lastOpen := lo } } : RSt) _ _ hs1 rfl (hct1 _) (hcp1 _) ft4]
      refine hE _ ?_ [] rfl
      rw [assemble_changeset _ _ _ _ _ _ _ _ _ _ _ _ tags cs rfl ft1 ft2]
      rfl

end Osmium.XmlFmt
