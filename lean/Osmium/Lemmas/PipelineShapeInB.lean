/-
Input side of the shape invariants, part B: the id invariant `invN` (even ids on the input queue,
freshness, `fut id = some v → v = want id` for input futures, every push() on inq is by tR).
-/
import Osmium.Lemmas.PipelineShapeInA

set_option linter.unusedSimpArgs false
set_option linter.unusedVariables false

namespace Osmium.Pipeline.ShapeIn

open Osmium.Mon Osmium.Pipeline

variable {α : Type} [DecidableEq α]

structure InvN (s : State α) : Prop where
  n_rpc : ∀ id v k, s.rpc = .pushing id v k ∨ s.rpc = .pushed id v k → id % 2 = 0 ∧ id < 2 * s.nIn ∧ s.want id = v
  n_pid : ∀ id, pId s.ppc = some id → id % 2 = 1
  n_fut : ∀ id v, s.fut id = some v → id % 2 = 0 → v = s.want id ∧ id < 2 * s.nIn
  n_work : ∀ id, id ∈ s.work → id % 2 = 1
  n_wpc : ∀ w id, s.wpc w = some id → id % 2 = 1
  n_ic : ∀ y ∈ s.inq.called, y.2 % 2 = 0 ∧ y.2 < 2 * s.nIn ∧ y.1 = tR

set_option maxHeartbeats 3200000 in
theorem invN (c : Cfg α) : ∀ s, (machine c).Reachable s → InvN s := by
  apply Machine.invariant
  · constructor <;> simp [machine, init, QueueSM.init, pId]
  · intro s e s' hr ih hst
    obtain ⟨h1, h2, h3, h4, h5, h6⟩ := ih
    si_cases e with hst
    all_goals (refine ⟨?_, ?_, ?_, ?_, ?_, ?_⟩ <;> first
      | assumption
      | (simp only [QueueSM.take_called]; assumption)
      | (simp only [setPc_apply, QueueSM.take_called, pCont, rCont, pId]; grind)
      | (simp_all [setPc_apply, pCont, rCont, pId] <;> grind)
      | skip)

end Osmium.Pipeline.ShapeIn
