/-
C07, o5m and XML part — "if the input ends early the failure is reported".

The o5m reader (`Osmium.Chunks.o5mRun`, transcribed from io/detail/o5m_input_format.hpp
`decode_header` + `decode_data`) is run on every PREFIX of a well-formed o5m file
`hdr7 ++ encStream ds`:

* fewer than 7 bytes                          → `headerTooShort`;
* the cut lies strictly inside a dataset      → `premature` (after the complete datasets before it);
* the cut lies on a dataset boundary          → NO error: the datasets before the cut are returned
  and the reader takes the input for a complete file (it does not look for the 0xfe end marker).

So a truncation is reported iff it does not fall on a dataset boundary (`o5m_truncation_reported`,
`o5m_no_error_iff_boundary`).  The theorems are stated for the flat specification `flatO5mRun`
(= `C06.specO5mRun`); `o5m_chunking'` ties it to the chunked reader for every chunking.

XML: `xml_final_call` — expat is called with every chunk and `last = false` and then exactly once
with the empty string and `last = true` (the call in which expat checks that the document is complete).
-/
import Osmium.Lemmas.ChunksO5m
import Osmium.Lemmas.Wire

namespace Osmium.O5mTrunc

open Osmium.Wire Osmium.Chunks

/-! ### a cut-off varint is `endOfBuffer` -/

/-- every proper prefix of an encoded varint consists of continuation bytes only -/
theorem decodeVarintGo_take : ∀ (fuel v i idx acc k : Nat), v < 128 ^ k → idx + k ≤ 10 →
    i < (encodeVarintGo fuel v).length →
    decodeVarintGo ((encodeVarintGo fuel v).take i) idx acc = .error .endOfBuffer
  | 0, v, i, idx, acc, k, _, _, hi => by
    simp only [encodeVarintGo, List.length_cons, List.length_nil] at hi
    have : i = 0 := by omega
    subst this
    simp [decodeVarintGo]
  | fuel + 1, v, i, idx, acc, k, hv, hk, hi => by
    by_cases h128 : v < 128
    · simp only [encodeVarintGo, h128, ↓reduceIte, List.length_cons, List.length_nil] at hi
      have : i = 0 := by omega
      subst this
      simp [decodeVarintGo]
    · simp only [encodeVarintGo, h128, ↓reduceIte, List.length_cons] at hi ⊢
      cases i with
      | zero => simp [decodeVarintGo]
      | succ i' =>
        have hb : (UInt8.ofNat (v % 128 + 128)).toNat = v % 128 + 128 := uint8_ofNat_toNat _ (by omega)
        obtain ⟨k', rfl⟩ : ∃ k', k = k' + 1 := by
          cases k with
          | zero => simp at hv; omega
          | succ k' => exact ⟨k', rfl⟩
        have hv' : v / 128 < 128 ^ k' := by
          rw [Nat.div_lt_iff_lt_mul (by omega)]
          rw [Nat.pow_succ] at hv
          exact hv
        have hk1 : 1 ≤ k' := by
          cases k' with
          | zero => simp at hv'; omega
          | succ _ => omega
        simp only [List.take_succ_cons, decodeVarintGo, hb]
        rw [if_neg (by omega), if_neg (by omega)]
        exact decodeVarintGo_take fuel (v / 128) i' (idx + 1) _ k' hv' (by omega) (by omega)

/-- a varint cut off before its last byte: the reader runs out of input -/
theorem decodeVarint_take (n i : Nat) (hi : i < (encodeVarint n).length) :
    decodeVarint ((encodeVarint n).take i) = .error .endOfBuffer := by
  have h64 : n % 2 ^ 64 < 128 ^ 10 := by
    have : (2 : Nat) ^ 64 < 128 ^ 10 := by decide
    have := Nat.mod_lt n (show 0 < 2 ^ 64 by decide)
    omega
  exact decodeVarintGo_take 10 (n % 2 ^ 64) i 0 0 10 h64 (by omega) hi

/-! ### the encoded dataset stream -/

/-- the byte encoding of one element of the dataset stream -/
def encDataset : Dataset → Bytes
  | .reset => [0xff]
  | .other t => [t]
  | .data t payload => t :: (encodeVarint payload.length ++ payload)

/-- well-formed: `other t` has 0xef < t ≠ 0xff, `data t _` has t ≤ 0xef and a payload shorter
    than 2^32 bytes (so that its length is a varint the reader accepts) -/
def DatasetOk : Dataset → Prop
  | .reset => True
  | .other t => 0xef < t.toNat ∧ t.toNat ≠ 0xff
  | .data t payload => t.toNat ≤ 0xef ∧ payload.length < 2 ^ 32

instance : DecidablePred DatasetOk := fun d => by
  cases d <;> unfold DatasetOk <;> infer_instance

def encStream (ds : List Dataset) : Bytes := (ds.map encDataset).flatten

/-- byte offset (in `encStream ds`) of the boundary after the first `j` datasets -/
def dsBoundary (ds : List Dataset) (j : Nat) : Nat := (encStream (ds.take j)).length

/-- the 7 header bytes `ff e0 04 'o' '5' 'm' '2'` -/
def hdr7 : Bytes := o5mMagic ++ [0x6d, 0x32]

theorem encStream_nil : encStream [] = [] := rfl

theorem encStream_cons (d : Dataset) (ds : List Dataset) :
    encStream (d :: ds) = encDataset d ++ encStream ds := by
  simp [encStream]

theorem encStream_append (a b : List Dataset) : encStream (a ++ b) = encStream a ++ encStream b := by
  simp [encStream]

theorem encDataset_pos (d : Dataset) : 0 < (encDataset d).length := by
  cases d <;> simp [encDataset]

theorem length_le_encStream : ∀ (ds : List Dataset), ds.length ≤ (encStream ds).length
  | [] => by simp [encStream]
  | d :: ds => by
    have := encDataset_pos d
    have := length_le_encStream ds
    simp only [encStream_cons, List.length_cons, List.length_append]
    omega

theorem dsBoundary_zero (ds : List Dataset) : dsBoundary ds 0 = 0 := by simp [dsBoundary, encStream]

theorem dsBoundary_cons_succ (d : Dataset) (ds : List Dataset) (j : Nat) :
    dsBoundary (d :: ds) (j + 1) = (encDataset d).length + dsBoundary ds j := by
  simp [dsBoundary, encStream_cons]

theorem dsBoundary_length (ds : List Dataset) : dsBoundary ds ds.length = (encStream ds).length := by
  simp [dsBoundary]

theorem le_dsBoundary (ds : List Dataset) (j : Nat) (hj : j ≤ ds.length) : j ≤ dsBoundary ds j := by
  have := length_le_encStream (ds.take j)
  simp only [List.length_take] at this
  unfold dsBoundary
  omega

/-- the boundaries are strictly increasing: the next boundary lies one dataset further -/
theorem dsBoundary_succ (ds : List Dataset) (j : Nat) (hj : j < ds.length) :
    dsBoundary ds (j + 1) = dsBoundary ds j + (encDataset ds[j]).length := by
  unfold dsBoundary
  rw [List.take_succ_eq_append_getElem hj, encStream_append]
  simp [encStream]

theorem dsBoundary_mono (ds : List Dataset) : ∀ (j j' : Nat), j ≤ j' → dsBoundary ds j ≤ dsBoundary ds j' := by
  intro j j' h
  obtain ⟨n, rfl⟩ : ∃ n, j' = j + n := ⟨j' - j, by omega⟩
  clear h
  induction n with
  | zero => exact Nat.le_refl _
  | succ n ih =>
    by_cases hm : j + n < ds.length
    · have := dsBoundary_succ ds (j + n) hm
      rw [← Nat.add_assoc]; omega
    · have e : dsBoundary ds (j + n + 1) = dsBoundary ds (j + n) := by
        unfold dsBoundary
        rw [List.take_of_length_le (by omega), List.take_of_length_le (by omega)]
      rw [← Nat.add_assoc]; omega

theorem dsBoundary_strictMono (ds : List Dataset) (j j' : Nat) (h : j < j') (hj : j < ds.length) :
    dsBoundary ds j < dsBoundary ds j' := by
  have h1 := dsBoundary_succ ds j hj
  have h2 := dsBoundary_mono ds (j + 1) j' h
  have := encDataset_pos ds[j]
  omega

theorem dsBoundary_le (ds : List Dataset) (j : Nat) : dsBoundary ds j ≤ (encStream ds).length := by
  by_cases hj : j ≤ ds.length
  · have := dsBoundary_mono ds j ds.length hj
    rw [dsBoundary_length] at this
    exact this
  · unfold dsBoundary
    rw [List.take_of_length_le (by omega)]
    exact Nat.le_refl _

/-! ### the reader on complete datasets -/

theorem specO5mLoop_nil (fuel : Nat) (acc : List Dataset) : specO5mLoop fuel [] acc = (acc.reverse, none) := by
  cases fuel <;> rfl

/-- one iteration of the dataset loop consumes exactly one encoded dataset -/
theorem specO5mLoop_dataset (d : Dataset) (hd : DatasetOk d) (fuel : Nat) (rest : Bytes) (acc : List Dataset) :
    specO5mLoop (fuel + 1) (encDataset d ++ rest) acc = specO5mLoop fuel rest (d :: acc) := by
  cases d with
  | reset =>
    have h : (0xff : UInt8).toNat = 255 := by decide
    simp [encDataset, specO5mLoop, h]
  | other t =>
    have ⟨h1, h2⟩ : 0xef < t.toNat ∧ t.toNat ≠ 0xff := hd
    simp only [encDataset, List.cons_append, List.nil_append, specO5mLoop]
    rw [if_pos h1]
    have : (t.toNat == 0xff) = false := by simpa using h2
    rw [this]
    rfl
  | data t p =>
    have ⟨h1, h2⟩ : t.toNat ≤ 0xef ∧ p.length < 2 ^ 32 := hd
    have hdec := decodeVarint_encodeVarint p.length (by omega) (p ++ rest)
    have ht : ¬ t.toNat > 0xef := by omega
    simp only [encDataset, List.cons_append, List.append_assoc, specO5mLoop]
    rw [if_neg ht]
    simp only [hdec]
    rw [if_neg (by simp)]
    simp

/-- the dataset loop on an encoded stream followed by anything: the datasets are read, the loop
    continues with what follows -/
theorem specO5mLoop_stream : ∀ (ds : List Dataset), (∀ d ∈ ds, DatasetOk d) →
    ∀ (fuel : Nat) (rest : Bytes) (acc : List Dataset),
    specO5mLoop (fuel + ds.length) (encStream ds ++ rest) acc = specO5mLoop fuel rest (ds.reverse ++ acc)
  | [], _, fuel, rest, acc => by simp [encStream]
  | d :: ds, hok, fuel, rest, acc => by
    have hd := hok d List.mem_cons_self
    have ih := specO5mLoop_stream ds (fun x hx => hok x (List.mem_cons_of_mem _ hx)) fuel rest (d :: acc)
    rw [encStream_cons, List.append_assoc, List.length_cons, ← Nat.add_assoc,
      specO5mLoop_dataset d hd, ih]
    simp

/-- **T1** a complete stream of well-formed datasets is read back exactly, without error. -/
theorem o5m_stream_read (ds : List Dataset) (hok : ∀ d ∈ ds, DatasetOk d) (fuel : Nat)
    (hf : (encStream ds).length < fuel) : specO5mLoop fuel (encStream ds) [] = (ds, none) := by
  have hl := length_le_encStream ds
  obtain ⟨f, rfl⟩ : ∃ f, fuel = f + ds.length := ⟨fuel - ds.length, by omega⟩
  have := specO5mLoop_stream ds hok f [] []
  rw [List.append_nil] at this
  rw [this, specO5mLoop_nil]
  simp

/-! ### where a cut can fall -/

/-- **T2** every cut position is either a dataset boundary or lies strictly inside one dataset. -/
theorem o5m_cut_cases : ∀ (ds : List Dataset) (k : Nat), k ≤ (encStream ds).length →
    (∃ j, j ≤ ds.length ∧ k = dsBoundary ds j) ∨
    (∃ j off, ∃ hj : j < ds.length, 0 < off ∧ off < (encDataset ds[j]).length ∧ k = dsBoundary ds j + off)
  | [], k, hk => by
    left
    refine ⟨0, Nat.le_refl _, ?_⟩
    simp only [encStream_nil, List.length_nil] at hk
    rw [dsBoundary_zero]; omega
  | d :: ds, k, hk => by
    rw [encStream_cons, List.length_append] at hk
    by_cases h0 : k = 0
    · left; exact ⟨0, Nat.zero_le _, by rw [dsBoundary_zero]; exact h0⟩
    · by_cases h1 : k < (encDataset d).length
      · right
        exact ⟨0, k, by simp, by omega, by simpa using h1, by rw [dsBoundary_zero]; omega⟩
      · rcases o5m_cut_cases ds (k - (encDataset d).length) (by omega) with ⟨j, hj, he⟩ | ⟨j, off, hj, ho, hl, he⟩
        · left
          exact ⟨j + 1, by simp; omega, by rw [dsBoundary_cons_succ]; omega⟩
        · right
          refine ⟨j + 1, off, by simp; omega, ho, by simpa using hl, ?_⟩
          rw [dsBoundary_cons_succ]; omega

/-! ### the prefixes of the stream -/

theorem take_boundary (ds : List Dataset) (j : Nat) :
    (encStream ds).take (dsBoundary ds j) = encStream (ds.take j) := by
  have e : encStream ds = encStream (ds.take j) ++ encStream (ds.drop j) := by
    rw [← encStream_append, List.take_append_drop]
  rw [e]
  unfold dsBoundary
  rw [List.take_append_of_le_length (Nat.le_refl _), List.take_length]

theorem take_inside (ds : List Dataset) (j off : Nat) (hj : j < ds.length) (ho : off ≤ (encDataset ds[j]).length) :
    (encStream ds).take (dsBoundary ds j + off) = encStream (ds.take j) ++ (encDataset ds[j]).take off := by
  have e : encStream ds = encStream (ds.take j) ++ (encDataset ds[j] ++ encStream (ds.drop (j + 1))) := by
    rw [← encStream_cons, ← encStream_append, ← List.drop_eq_getElem_cons hj, List.take_append_drop]
  have hb : dsBoundary ds j = (encStream (ds.take j)).length := rfl
  rw [e, hb, List.take_append, List.take_of_length_le (by omega), Nat.add_sub_cancel_left,
    List.take_append_of_le_length ho]

/-- **T3** a cut on a dataset boundary is NOT reported: the datasets before the cut are returned
    and the loop ends normally (the reader does not look for the 0xfe end marker). -/
theorem o5m_cut_boundary (ds : List Dataset) (hok : ∀ d ∈ ds, DatasetOk d) (j : Nat) (fuel : Nat)
    (hf : dsBoundary ds j < fuel) :
    specO5mLoop fuel ((encStream ds).take (dsBoundary ds j)) [] = (ds.take j, none) := by
  rw [take_boundary]
  exact o5m_stream_read (ds.take j) (fun d hd => hok d (List.mem_of_mem_take hd)) fuel hf

/-- a dataset cut off strictly inside: `premature` -/
theorem specO5mLoop_partial (d : Dataset) (hd : DatasetOk d) (off : Nat) (h0 : 0 < off)
    (h1 : off < (encDataset d).length) (fuel : Nat) (acc : List Dataset) :
    specO5mLoop (fuel + 1) ((encDataset d).take off) acc = (acc.reverse, some .premature) := by
  cases d with
  | reset => simp [encDataset] at h1; omega
  | other t => simp [encDataset] at h1; omega
  | data t p =>
    have ⟨ht1, hp⟩ : t.toNat ≤ 0xef ∧ p.length < 2 ^ 32 := hd
    have ht : ¬ t.toNat > 0xef := by omega
    obtain ⟨m, rfl⟩ : ∃ m, off = m + 1 := ⟨off - 1, by omega⟩
    simp only [encDataset, List.length_cons, List.length_append] at h1
    simp only [encDataset, List.take_succ_cons, specO5mLoop]
    rw [if_neg ht]
    by_cases hm : m < (encodeVarint p.length).length
    · rw [List.take_append_of_le_length (by omega), decodeVarint_take _ _ hm]
    · rw [List.take_append, List.take_of_length_le (by omega),
        decodeVarint_encodeVarint _ (by omega)]
      simp only
      rw [if_pos (by simp only [List.length_take]; omega)]

/-- **T4** a cut strictly inside dataset `j` IS reported: the datasets before it, then `premature`. -/
theorem o5m_cut_inside (ds : List Dataset) (hok : ∀ d ∈ ds, DatasetOk d) (j off : Nat) (hj : j < ds.length)
    (h0 : 0 < off) (h1 : off < (encDataset ds[j]).length) (fuel : Nat)
    (hf : dsBoundary ds j + off < fuel) :
    specO5mLoop fuel ((encStream ds).take (dsBoundary ds j + off)) [] = (ds.take j, some .premature) := by
  rw [take_inside ds j off hj (by omega)]
  have hb := le_dsBoundary ds j (by omega)
  obtain ⟨f, rfl⟩ : ∃ f, fuel = (f + 1) + (ds.take j).length := ⟨fuel - j - 1, by
    rw [List.length_take]; omega⟩
  rw [specO5mLoop_stream (ds.take j) (fun d hd => hok d (List.mem_of_mem_take hd)),
    specO5mLoop_partial ds[j] (hok _ (List.getElem_mem hj)) off h0 h1]
  simp

/-! ### the whole file: header + datasets, cut anywhere -/

/-- header check + dataset loop on a plain byte stream (= `C06.specO5mRun`) -/
def flatO5mRun (r : Bytes) : List Dataset × Option O5mErr :=
  if r.length < 7 then ([], some .headerTooShort)
  else if r.take 5 != o5mMagic then ([], some .wrongMagic)
  else if (r.drop 5).head? != some 0x6d && (r.drop 5).head? != some 0x63 then ([], some .wrongMagic)
  else if (r.drop 6).head? != some 0x32 then ([], some .wrongMagic)
  else specO5mLoop (r.length + 1) (r.drop 7) []

theorem flatO5mRun_short (r : Bytes) (h : r.length < 7) : flatO5mRun r = ([], some .headerTooShort) := by
  unfold flatO5mRun
  rw [if_pos h]

theorem flatO5mRun_hdr (x : Bytes) : flatO5mRun (hdr7 ++ x) = specO5mLoop (x.length + 8) x [] := by
  have hl : ¬ (hdr7 ++ x).length < 7 := by simp [hdr7, o5mMagic]
  have h5 : ((hdr7 ++ x).take 5 != o5mMagic) = false := by simp [hdr7, o5mMagic]
  have h6 : (((hdr7 ++ x).drop 5).head? != some 0x6d && ((hdr7 ++ x).drop 5).head? != some 0x63) = false := by
    simp [hdr7, o5mMagic]
  have h7 : (((hdr7 ++ x).drop 6).head? != some 0x32) = false := by simp [hdr7, o5mMagic]
  have hd : (hdr7 ++ x).drop 7 = x := by simp [hdr7, o5mMagic]
  have hlen : (hdr7 ++ x).length + 1 = x.length + 8 := by simp [hdr7, o5mMagic]
  unfold flatO5mRun
  rw [if_neg hl, h5, h6, h7, hd, hlen]
  simp

theorem hdr7_length : hdr7.length = 7 := rfl

/-- **T5** An o5m file (header + well-formed datasets) cut after `k` bytes, any `k`:
    * `k < 7`: `headerTooShort`;
    * `k = 7 + (boundary after j datasets)`: the first `j` datasets, NO error;
    * otherwise (`k` strictly inside dataset `j`): the first `j` datasets, then `premature`. -/
theorem o5m_truncation_reported (ds : List Dataset) (hok : ∀ d ∈ ds, DatasetOk d) (k : Nat)
    (hk : k ≤ (hdr7 ++ encStream ds).length) :
    (k < 7 ∧ flatO5mRun ((hdr7 ++ encStream ds).take k) = ([], some .headerTooShort)) ∨
    (∃ j, j ≤ ds.length ∧ k = 7 + dsBoundary ds j ∧
      flatO5mRun ((hdr7 ++ encStream ds).take k) = (ds.take j, none)) ∨
    (∃ j off, ∃ hj : j < ds.length, 0 < off ∧ off < (encDataset ds[j]).length ∧
      k = 7 + dsBoundary ds j + off ∧
      flatO5mRun ((hdr7 ++ encStream ds).take k) = (ds.take j, some .premature)) := by
  rw [List.length_append, hdr7_length] at hk
  by_cases h7 : k < 7
  · left
    refine ⟨h7, flatO5mRun_short _ ?_⟩
    rw [List.length_take, List.length_append, hdr7_length]; omega
  · right
    have et : (hdr7 ++ encStream ds).take k = hdr7 ++ (encStream ds).take (k - 7) := by
      rw [List.take_append, hdr7_length, List.take_of_length_le (by rw [hdr7_length]; omega)]
    rw [et, flatO5mRun_hdr]
    rcases o5m_cut_cases ds (k - 7) (by omega) with ⟨j, hj, he⟩ | ⟨j, off, hj, ho, hl, he⟩
    · left
      refine ⟨j, hj, by omega, ?_⟩
      rw [he]
      exact o5m_cut_boundary ds hok j _ (by rw [List.length_take]; omega)
    · right
      refine ⟨j, off, hj, ho, hl, by omega, ?_⟩
      rw [he]
      exact o5m_cut_inside ds hok j off hj ho hl _ (by rw [List.length_take]; omega)

/-- Corollary: if the reader reports no error on the cut file then the header was complete, the
    cut is a dataset boundary, and exactly the datasets before the cut are returned. -/
theorem o5m_no_error_boundary (ds : List Dataset) (hok : ∀ d ∈ ds, DatasetOk d) (k : Nat)
    (hk : k ≤ (hdr7 ++ encStream ds).length)
    (hne : (flatO5mRun ((hdr7 ++ encStream ds).take k)).2 = none) :
    7 ≤ k ∧ ∃ j, j ≤ ds.length ∧ k = 7 + dsBoundary ds j ∧
      flatO5mRun ((hdr7 ++ encStream ds).take k) = (ds.take j, none) := by
  rcases o5m_truncation_reported ds hok k hk with ⟨_, h⟩ | ⟨j, hj, he, h⟩ | ⟨j, off, hj, _, _, _, h⟩
  · rw [h] at hne; simp at hne
  · exact ⟨by omega, j, hj, he, h⟩
  · rw [h] at hne; simp at hne

/-- Corollary (the other direction): a cut after the header that is not on a dataset boundary is
    reported as `premature`. -/
theorem o5m_cut_off_boundary_reported (ds : List Dataset) (hok : ∀ d ∈ ds, DatasetOk d) (k : Nat)
    (hk : k ≤ (hdr7 ++ encStream ds).length) (h7 : 7 ≤ k)
    (hnb : ∀ j, j ≤ ds.length → k ≠ 7 + dsBoundary ds j) :
    (flatO5mRun ((hdr7 ++ encStream ds).take k)).2 = some .premature := by
  rcases o5m_truncation_reported ds hok k hk with ⟨h, _⟩ | ⟨j, hj, he, _⟩ | ⟨j, off, hj, _, _, _, h⟩
  · omega
  · exact absurd he (hnb j hj)
  · rw [h]

/-- no error ⇔ the cut is (after the header and) on a dataset boundary -/
theorem o5m_no_error_iff_boundary (ds : List Dataset) (hok : ∀ d ∈ ds, DatasetOk d) (k : Nat)
    (hk : k ≤ (hdr7 ++ encStream ds).length) :
    (flatO5mRun ((hdr7 ++ encStream ds).take k)).2 = none ↔ ∃ j, j ≤ ds.length ∧ k = 7 + dsBoundary ds j := by
  constructor
  · intro h
    obtain ⟨_, j, hj, he, _⟩ := o5m_no_error_boundary ds hok k hk h
    exact ⟨j, hj, he⟩
  · rintro ⟨j, hj, he⟩
    rcases o5m_truncation_reported ds hok k hk with ⟨h, _⟩ | ⟨_, _, _, h⟩ | ⟨j', off, hj', ho, hl, he', _⟩
    · omega
    · rw [h]
    · -- strictly between two consecutive boundaries: not a boundary
      exfalso
      have hs := dsBoundary_succ ds j' hj'
      by_cases hjj : j ≤ j'
      · have := dsBoundary_mono ds j j' hjj; omega
      · have := dsBoundary_mono ds (j' + 1) j (by omega); omega

/-! ### tie to the chunked reader -/

/-- **T6** the chunked reader (window + `ensure_bytes_available`, after the repair of F6) computes
    `flatO5mRun` of the concatenated chunks, for every chunking into non-empty chunks. -/
theorem o5m_chunking' (cs : List Bytes) (hne : ∀ c ∈ cs, c ≠ []) : o5mRun cs = flatO5mRun cs.flatten := by
  let o : O5mIn := { consumed := 0, window := [], src := { chunks := cs } }
  have ho : o.remaining = cs.flatten := by simp [o, O5mIn.remaining, Src.pending]
  have e := ensure_o5m_spec o 7 hne
  generalize hr : o.ensure 7 = r at e
  obtain ⟨ok, o1⟩ := r
  simp only at e
  obtain ⟨hrem, hne1, hok, hwin, _⟩ := e
  rw [ho] at hrem hok
  have hrun : o5mRun cs = (if !ok then ([], some O5mErr.headerTooShort)
      else if o1.window.take 5 != o5mMagic then ([], some .wrongMagic)
      else if (o1.window.drop 5).head? != some 0x6d && (o1.window.drop 5).head? != some 0x63 then ([], some .wrongMagic)
      else if (o1.window.drop 6).head? != some 0x32 then ([], some .wrongMagic)
      else o5mLoop (cs.flatten.length + 1) (o1.advance 7) []) := by
    simp only [o5mRun]
    rw [show ({ consumed := 0, window := [], src := { chunks := cs } } : O5mIn) = o from rfl, hr]
  rw [hrun]
  cases hk : ok with
  | false =>
    rw [hk] at hok
    have := of_decide_eq_false hok.symm
    have hlt : cs.flatten.length < 7 := by omega
    simp only [flatO5mRun, hlt, ↓reduceIte, Bool.not_false]
  | true =>
    rw [hk] at hok hwin
    have hge := of_decide_eq_true hok.symm
    have hw := hwin rfl
    have hnl : ¬ cs.flatten.length < 7 := by omega
    have hsplit : cs.flatten = o1.window ++ o1.src.pending := by rw [← hrem]; rfl
    have t5 : cs.flatten.take 5 = o1.window.take 5 := by
      rw [hsplit, List.take_append_of_le_length (by omega)]
    have d5 : (cs.flatten.drop 5).head? = (o1.window.drop 5).head? := by
      rw [hsplit, List.drop_append_of_le_length (by omega)]
      cases h : o1.window.drop 5 with
      | nil => have := congrArg List.length h; simp at this; omega
      | cons a as => simp
    have d6 : (cs.flatten.drop 6).head? = (o1.window.drop 6).head? := by
      rw [hsplit, List.drop_append_of_le_length (by omega)]
      cases h : o1.window.drop 6 with
      | nil => have := congrArg List.length h; simp at this; omega
      | cons a as => simp
    have a7 := advance_remaining o1 7 hw
    have hloop := o5mLoop_spec (cs.flatten.length + 1) (o1.advance 7) [] (by rw [a7.2]; exact hne1)
    rw [a7.1, hrem] at hloop
    simp only [flatO5mRun, hnl, ↓reduceIte, t5, d5, d6, Bool.not_true, Bool.false_eq_true, hloop]

/-- T5 for the real (chunked) reader: whatever the chunking of the cut file, a cut that is not on a
    dataset boundary is reported. -/
theorem o5m_truncation_reported_chunked (ds : List Dataset) (hok : ∀ d ∈ ds, DatasetOk d) (k : Nat)
    (hk : k ≤ (hdr7 ++ encStream ds).length) (cs : List Bytes) (hne : ∀ c ∈ cs, c ≠ [])
    (hcs : cs.flatten = (hdr7 ++ encStream ds).take k) :
    (k < 7 ∧ o5mRun cs = ([], some .headerTooShort)) ∨
    (∃ j, j ≤ ds.length ∧ k = 7 + dsBoundary ds j ∧ o5mRun cs = (ds.take j, none)) ∨
    (∃ j off, ∃ hj : j < ds.length, 0 < off ∧ off < (encDataset ds[j]).length ∧
      k = 7 + dsBoundary ds j + off ∧ o5mRun cs = (ds.take j, some .premature)) := by
  rw [o5m_chunking' cs hne, hcs]
  exact o5m_truncation_reported ds hok k hk

/-! ### XML: the final call -/

theorem xmlFeedGo_spec' : ∀ (cs : List Bytes) (fuel : Nat) (acc : List (Bytes × Bool)), (∀ c ∈ cs, c ≠ []) →
    cs.length + 2 ≤ fuel →
    xmlFeedGo fuel { chunks := cs, done := false } acc = acc.reverse ++ cs.map (fun c => (c, false)) ++ [([], true)]
  | [], fuel, acc, _, hf => by
    obtain ⟨f, rfl⟩ : ∃ f, fuel = f + 2 := ⟨fuel - 2, by simp at hf; omega⟩
    simp [xmlFeedGo, Src.getInput]
  | c :: cs, fuel, acc, hne, hf => by
    obtain ⟨f, rfl⟩ : ∃ f, fuel = f + 1 := ⟨fuel - 1, by simp at hf; omega⟩
    have hc : c ≠ [] := hne c (List.mem_cons_self)
    have hce : c.isEmpty = false := by cases c <;> simp_all
    have ih := xmlFeedGo_spec' cs f ((c, false) :: acc) (fun x hx => hne x (List.mem_cons_of_mem _ hx))
      (by simp at hf; omega)
    simp [xmlFeedGo, Src.getInput, hce, ih]

/-- **T7** `XMLParser::run` calls the parser with every chunk and `last = false`, in order, and then
    EXACTLY ONCE with the empty string and `last = true` — the call in which expat checks that the
    document is complete (a truncated document fails there with "no element found" / "unclosed token"). -/
theorem xml_final_call (cs : List Bytes) (hne : ∀ c ∈ cs, c ≠ []) :
    xmlFeed cs = cs.map (fun c => (c, false)) ++ [([], true)] := by
  simpa [xmlFeed] using xmlFeedGo_spec' cs (cs.length + 2) [] hne (Nat.le_refl _)

/-- exactly one call has `last = true`, and it is the last call -/
theorem xml_final_call_once (cs : List Bytes) (hne : ∀ c ∈ cs, c ≠ []) :
    ((xmlFeed cs).filter (fun p => p.2)).length = 1 ∧ (xmlFeed cs).getLast? = some ([], true) := by
  rw [xml_final_call cs hne]
  constructor
  · rw [List.filter_append, List.filter_eq_nil_iff.mpr (by simp)]
    simp
  · simp

/-! ### non-vacuity -/

/-- a reset, two data datasets, the 0xfe end marker: `ff | 10 03 01 02 03 | 12 01 09 | fe` -/
def exDs : List Dataset := [.reset, .data 0x10 [1, 2, 3], .data 0x12 [9], .other 0xfe]

example : ∀ d ∈ exDs, DatasetOk d := by decide
example : encStream exDs = [0xff, 0x10, 0x03, 1, 2, 3, 0x12, 0x01, 9, 0xfe] := by decide
example : (List.range 5).map (dsBoundary exDs) = [0, 1, 6, 9, 10] := by decide
-- T1
example : specO5mLoop 11 (encStream exDs) [] = (exDs, none) := by decide
-- T3 at every boundary
example : ∀ j ∈ List.range 5,
    specO5mLoop 11 ((encStream exDs).take (dsBoundary exDs j)) [] = (exDs.take j, none) := by decide
-- T4 inside the two data datasets
example : ∀ off ∈ [1, 2, 3, 4],
    specO5mLoop 11 ((encStream exDs).take (dsBoundary exDs 1 + off)) [] = (exDs.take 1, some .premature) := by
  decide
example : ∀ off ∈ [1, 2],
    specO5mLoop 11 ((encStream exDs).take (dsBoundary exDs 2 + off)) [] = (exDs.take 2, some .premature) := by
  decide
-- T5: every cut of the 17-byte file
example : (List.range 18).map (fun k => (flatO5mRun ((hdr7 ++ encStream exDs).take k)).2) =
    [some .headerTooShort, some .headerTooShort, some .headerTooShort, some .headerTooShort,
     some .headerTooShort, some .headerTooShort, some .headerTooShort,
     none, none, some .premature, some .premature, some .premature, some .premature, none,
     some .premature, some .premature, none, none] := by decide
-- the chunked reader on a cut file, one byte per chunk
example : o5mRun (((hdr7 ++ encStream exDs).take 12).map (fun b => [b])) = (exDs.take 1, some .premature) := by
  decide

end Osmium.O5mTrunc
