/-
Queue-of-futures order (C05), part C: invariant C and the popped-prefix invariant.
-/
import Osmium.Lemmas.PipelineOrderA
import Osmium.Lemmas.PipelineOrderA2

namespace Osmium.Pipeline.Order

open Osmium.Mon Osmium.Pipeline

variable {α : Type} [DecidableEq α]

structure InvC (s : State α) : Prop where
  sd : s.outq.pc tC = .sdEntered → (∃ k, s.cpc = .closeSdRun k) ∨ s.cpc = .eodSdRun ∨ s.cpc = .dtorSdRun
  inUse : s.cpc = .readWaitPop → s.outq.inUse = true

set_option maxHeartbeats 1600000 in
theorem invC (c : Cfg α) : ∀ s, (machine c).Reachable s → InvC s := by
  apply Machine.invariant
  · constructor <;> simp [machine, init, QueueSM.init]
  · intro s e s' hr ih hst
    obtain ⟨h1, h2⟩ := ih
    po_cases e with hst q hq
    all_goals (try (have hqs := q_sdEntered hq tC; have hqu := q_inUse hq))
    all_goals constructor
    all_goals first
      | assumption
      | (simp only [afterPop_cpc, Q.afterPop_outq, afterClose_cpc, Q.afterClose_outq, QueueSM.Ev.tid] at *; grind)

set_option maxHeartbeats 1600000 in
/-- what the consumer got out of the osmdata queue is a prefix of the push() calls -/
theorem popped_prefix (c : Cfg α) (hA : ∀ s, (machine c).Reachable s → ∀ x ∈ s.outq.called, x.1 = tP) :
    ∀ s, (machine c).Reachable s → s.outq.popped.map (fun p => p.2) <+: s.outq.called := by
  apply Machine.invariant
  · simp [machine, init, QueueSM.init]
  · intro s e s' hr ih hst
    have hu := (invC c s hr).inUse
    have hpre := q_prefix c.outqC s.outq (Q.reachable_outq c s hr)
    have hA := hA s hr
    po_cases e with hst q hq
    all_goals (try (have hqc := q_called hq; have hqp := q_popped hq; have hqh := q_pop_head hq
                    simp only [evCalled, evPopped] at hqc hqp hqh))
    all_goals first
      | assumption
      | (simp only [Q.afterPop_outq, Q.afterClose_outq]; assumption)
      | (simp only [hqc, hqp, List.append_nil, Option.toList_none, List.map_nil]
         first | exact ih | exact ih.trans (List.prefix_append _ _))
      | (simp only [hqc, hqp, List.append_nil, Option.toList_some, List.map_cons, List.map_nil, List.map_append,
           forall_eq, List.mem_singleton] at hqh ⊢
         have h1 := hpre (hu (by simp_all)) tP hA
         obtain ⟨tl, htl⟩ := List.head?_eq_some_iff.mp hqh
         rw [htl] at h1
         rw [← h1]
         simp)

end Osmium.Pipeline.Order
