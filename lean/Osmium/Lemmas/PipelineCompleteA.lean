import Osmium.Lemmas.PipelineCompleteBase

set_option linter.unusedSimpArgs false
set_option linter.unusedVariables false

namespace Osmium.Pipeline
open Osmium.Mon
variable {α : Type} [DecidableEq α]
namespace Complete

set_option maxHeartbeats 1600000 in
theorem invA (c : Cfg α) : ∀ s, (machine c).Reachable s → InvA s := by
  apply Machine.invariant
  · constructor <;> simp [machine, init, okVal, pVal, rHeld]
  · intro s e s' _ ih hst
    obtain ⟨h1, h2, h3, h4, h5, h6⟩ := ih
    pc_cases e with hst
    all_goals (refine ⟨?_, ?_, ?_, ?_, ?_, ?_⟩ <;> first
      | assumption
      | (simp_all [pVal, rHeld, okVal, setPc_apply, pCont, rCont]; done)
      | (intro id; simp only [setPc_apply]; split <;> simp_all [okVal]; done)
      | (intro id v; simp only [setPc_apply]; split <;> simp_all [okVal, pVal, rHeld]; done)
      | (simp_all [pVal, rHeld, okVal, setPc_apply, pCont, rCont] <;> grind [wf_snoc, okVal])
      | (simp_all [pVal, okVal, wfLevels]; done))

end Complete
end Osmium.Pipeline
