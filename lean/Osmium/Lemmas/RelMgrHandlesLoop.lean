/-
C11, member-handle invariant: `handle_complete_relation` and the loop in `MembersDatabase::add`.
Core-only.
-/
import Osmium.Lemmas.RelMgrHandlesRemove

namespace Osmium.RelMgr

open Osmium.Order (Kind CheckState checkStep)

theorem numInv_congr' {s t : State} (h : NumInv s) (h2 : ∀ p, deadB t p = deadB s p)
    (h3 : ∀ k, t.getDb k = s.getDb k) : NumInv t := by
  intro k e he
  rw [h3] at he
  rw [h2]; exact h k e he

/-- a lookup in a range that still has a non-removed element returns the arrived object -/
theorem lookup_found {fixed : Bool} {SO : List Obj} {s : State} (hi : HInv fixed SO s) (k : Kind) (id : Int)
    (hs : SortedById (s.getDb k)) (hid : id ≠ 0) (hpos : 0 < liveRefs (s.getDb k) id)
    (o : Obj) (ho : o ∈ SO) (hk : o.kind = k) (hoi : o.id = id) : s.lookup k id = .found o := by
  unfold State.lookup
  rw [if_neg hid, dbLookup_sorted _ _ _ hs]
  cases hf : (s.getDb k).filter (fun e => e.mid == id) with
  | nil =>
    exfalso
    obtain ⟨e, he, hpe⟩ := List.countP_pos_iff.mp hpos
    simp only [Bool.and_eq_true, beq_iff_eq] at hpe
    have : e ∈ (s.getDb k).filter (fun e => e.mid == id) := List.mem_filter.mpr ⟨he, by simpa using hpe.1⟩
    rw [hf] at this; cases this
  | cons e0 rest =>
    have hmem : e0 ∈ (s.getDb k).filter (fun e => e.mid == id) := by rw [hf]; exact List.mem_cons_self ..
    obtain ⟨h1, h2⟩ := List.mem_filter.mp hmem
    have h2' : e0.mid = id := by simpa using h2
    obtain ⟨h3, h4⟩ := hi.live k e0 h1 (by rw [h2']; exact hpos) o ho hk (by rw [h2']; exact hoi)
    simp [h3, h4]

/-- a lookup never computes a pointer from a released entry (repaired `remove()`) -/
theorem lookup_not_wild {SO : List Obj} {s : State} (hi : HInv true SO s) (k : Kind) (id : Int)
    (hs : SortedById (s.getDb k)) :
    s.lookup k id = .absent ∨ ∃ o ∈ SO, o.kind = k ∧ o.id = id ∧ 0 < liveRefs (s.getDb k) id ∧ s.lookup k id = .found o := by
  by_cases hid : id = 0
  · left; simp [State.lookup, hid]
  · by_cases hpos : 0 < liveRefs (s.getDb k) id
    · by_cases hkey : (k, id) ∈ SO.map okey
      · obtain ⟨o, ho, hk, hoi⟩ := exists_obj_of_key hkey
        exact Or.inr ⟨o, ho, hk, hoi, hpos, lookup_found hi k id hs hid hpos o ho hk hoi⟩
      · left
        unfold State.lookup
        rw [if_neg hid, dbLookup_sorted _ _ _ hs]
        cases hf : (s.getDb k).filter (fun e => e.mid == id) with
        | nil => rfl
        | cons e0 rest =>
          have hmem : e0 ∈ (s.getDb k).filter (fun e => e.mid == id) := by rw [hf]; exact List.mem_cons_self ..
          obtain ⟨h1, h2⟩ := List.mem_filter.mp hmem
          have h2' : e0.mid = id := by simpa using h2
          have := hi.fresh k e0 h1 (by rw [h2']; exact hkey)
          simp [this]
    · left
      unfold State.lookup
      rw [if_neg hid, dbLookup_sorted _ _ _ hs]
      cases hf : (s.getDb k).filter (fun e => e.mid == id) with
      | nil => rfl
      | cons e0 rest =>
        have hmem : e0 ∈ (s.getDb k).filter (fun e => e.mid == id) := by rw [hf]; exact List.mem_cons_self ..
        obtain ⟨h1, h2⟩ := List.mem_filter.mp hmem
        have h2' : e0.mid = id := by simpa using h2
        have := hi.gone rfl k e0 h1 (by rw [h2']; omega)
        simp [this]

theorem arrived_of_pending_zero (base : Base) (SO : List Obj) (q : Nat)
    (h : pending base (SO.map okey) q = 0) : Arrived base SO q := by
  intro k x hx hxq
  have hk : pendK base (SO.map okey) q k = 0 := by
    unfold pending at h
    cases k <;> omega
  unfold pendK at hk
  rw [List.countP_eq_zero] at hk
  have := hk x hx
  simpa [hxq] using this

/-- elements of a live relation, by skeleton -/
theorem count_mine_live {s : State} (hn : NumInv s) (q : Nat) (hq : deadB s q = false) (k : Kind) (id : Int) :
    (s.getDb k).countP (fun e => e.mid == id && e.rpos == q && e.num.isSome) =
      (skel (s.getDb k)).countP (fun x => x.1 == id && x.2 == q) := by
  unfold skel
  rw [List.countP_map]
  apply List.countP_congr
  intro e he
  have := hn k e he
  by_cases h1 : e.rpos = q
  · rw [h1, hq] at this
    simp [h1, this]
  · simp [h1]

theorem handleComplete_eq {Rm : Nat → Rel} {n : Nat} {s : State} (w : WF Rm n s) (c : Cfg) (q m : Nat)
    (hlive : s.rdb[q]? = some ⟨q + 1, m⟩) :
    handleComplete c s q =
      relRemove (removeMembers c (Rm q).id ((announce c s q (Rm q)).possiblyFlush c) (Rm q).members) q := by
  unfold handleComplete; rw [w.relAt q m hlive]

/-- `handle_complete_relation` for a relation all of whose wanted members have arrived -/
theorem linv_handleComplete {Rm : Nat → Rel} {n : Nat} {base : Base} (cx : Ctx Rm n base) (c : Cfg) {SO : List Obj}
    {s : State} (i : LInv Rm n base c.fixed SO s) (q : Nat) (hq : q < n)
    (hlive : s.rdb[q]? = some ⟨q + 1, 0⟩) (harr : Arrived base SO q) :
    LInv Rm n base c.fixed SO (handleComplete c s q) := by
  obtain ⟨i2, gsk, _, hother, hdead, _⟩ := inv2_handleComplete i.inv2 c q hq hlive
  have heq := handleComplete_eq i.inv2.wf c q 0 hlive
  have hqlive : deadB s q = false := by simp [deadB, hlive]
  -- the state `remove_members` starts in
  obtain ⟨w1, g1, _⟩ := i.inv2.wf.announce c q (Rm q)
  obtain ⟨w2, g2, _, st2⟩ := w1.possiblyFlush c
  have fp := possiblyFlush_frame c (announce c s q (Rm q))
  generalize hs2 : (announce c s q (Rm q)).possiblyFlush c = s2 at *
  have hdb2 : ∀ k, s2.getDb k = s.getDb k := fun k => (g2 k).trans (g1 k)
  have hst2 : s2.stash = s.stash := st2
  have hrdb2 : s2.rdb = s.rdb := fp.1
  have hlog2 : s2.log = Event.complete q (Rm q).id (Rm q).content
      (((Rm q).members.filter fun m => m.ref ≠ 0).map fun m => (m, s.lookup m.kind m.ref)) :: s.log := fp.2
  have hi2 : HInv c.fixed SO s2 := hinv_congr i.hinv hst2 hdb2
  have hx2 : XInv s2 := xinv_congr i.xinv hst2 hdb2
  have hsk2 : ∀ k, skel (s2.getDb k) = base k := fun k => by rw [hdb2]; exact i.skelEq k
  have hdead2 : ∀ p, deadB s2 p = deadB s p := by intro p; simp [deadB, hrdb2]
  have r2 : RemInv q (Rm q).members s2 := by
    refine ⟨?_, ?_, ?_⟩
    · intro k e he _
      rw [hdb2] at he; rw [hdead2]; exact i.num k e he
    · intro k e he h0
      rw [hdb2] at he
      rw [i.num k e he]; simp [h0]
    · intro k id hid
      rw [hdb2, count_mine_live i.num q hqlive, i.skelEq, cx.members q hq k id hid]
      rfl
  have hlive2 : ∃ mq, s2.rdb[q]? = some ⟨q + 1, mq⟩ := ⟨0, by rw [hrdb2]; exact hlive⟩
  obtain ⟨hi3, r3, hx3⟩ := rem_removeMembers cx c q hq harr (Rm q).members w2 hsk2 hlive2 hi2 hx2 r2
  obtain ⟨w3, g3, _⟩ := WF.removeMembers c (Rm q).id (Rm q).members w2
  have fr := removeMembers_frame c (Rm q).id (Rm q).members s2
  generalize hs3 : removeMembers c (Rm q).id s2 (Rm q).members = s3 at *
  have hlive3 : s3.rdb[q]? = some ⟨q + 1, 0⟩ := by rw [fr.1, hrdb2]; exact hlive
  have heq4 : relRemove s3 q =
      { s3 with stash := stashRemove s3.stash (q + 1), rdb := s3.rdb.setIfInBounds q { h := 0, missing := 0 } } := by
    unfold relRemove; rw [hlive3]
  have hslot3 : s3.stash[q]? = some (some (.rel (Rm q))) := by
    rcases w3.slot q hq with ⟨_, h⟩ | ⟨m0, h0⟩
    · exact h
    · rw [h0] at hlive3; simp at hlive3
  have hget3 : stashGet s3.stash (q + 1) = some (.rel (Rm q)) := by simp [stashGet, hslot3]
  have hsk : ∀ k, skel ((handleComplete c s q).getDb k) = base k := fun k => (gsk k).trans (i.skelEq k)
  have hdb4 : ∀ k, (handleComplete c s q).getDb k = s3.getDb k := by
    intro k; rw [heq, heq4]; cases k <;> rfl
  have hst4 : (handleComplete c s q).stash = stashRemove s3.stash (q + 1) := by rw [heq, heq4]
  refine ⟨i2, hsk, ?_, ?_, ?_, ?_⟩
  · -- handles
    refine ⟨?_, ?_, ?_⟩
    · intro k e he hpos o ho hk hoi
      rw [hdb4] at he hpos
      rw [hst4]
      obtain ⟨h1, h2⟩ := hi3.live k e he hpos o ho hk hoi
      refine ⟨h1, ?_⟩
      rw [stashGet_stashRemove, if_neg]
      · exact h2
      · intro hh; rw [hh, hget3] at h2; simp at h2
    · intro k e he; rw [hdb4] at he; exact hi3.fresh k e he
    · intro hf k e he; rw [hdb4] at he ⊢; exact hi3.gone hf k e he
  · -- uniform handles, nothing leaks
    refine ⟨?_, ?_⟩
    · intro k e he e' he'; rw [hdb4] at he he'; exact hx3.uniform k e he e' he'
    · intro h' o hg
      rw [hst4, stashGet_stashRemove] at hg
      split at hg
      · cases hg
      · obtain ⟨k, e, he, h2⟩ := hx3.noleak h' o hg
        exact ⟨k, e, by rw [hdb4]; exact he, h2⟩
  · -- removed flags
    intro k e he
    rw [hdb4] at he
    by_cases hrp : e.rpos = q
    · have hd : deadB (handleComplete c s q) e.rpos = true := by rw [hrp]; simp [deadB, hdead]
      rw [hd]
      by_cases h0 : e.mid = 0
      · rw [r3.zero k e he h0]; simp [h0]
      · have := r3.mine k e.mid h0
        simp only [List.countP_nil] at this
        rw [List.countP_eq_zero] at this
        have := this e he
        simp only [hrp, beq_self_eq_true, Bool.true_and] at this
        simp [h0, this]
    · have hd : deadB (handleComplete c s q) e.rpos = deadB s3 e.rpos := by
        unfold deadB
        rw [hother e.rpos hrp, fr.1, hrdb2]
      rw [hd]; exact r3.other k e he hrp
  · -- the lookups of the callback
    have hlog4 : (handleComplete c s q).log = s2.log := by rw [heq, relRemove_log, fr.2]
    rw [hlog4, hlog2]
    intro ev hev
    rcases List.mem_cons.mp hev with rfl | hev
    · refine ⟨by simp [List.map_map, Function.comp_def], ?_⟩
      intro ml hml
      obtain ⟨m, hm, rfl⟩ := List.mem_map.mp hml
      obtain ⟨hmm, hmr⟩ := List.mem_filter.mp hm
      have hmr' : m.ref ≠ 0 := by simpa using hmr
      -- an element of `q` tracks this member
      have hcnt : 0 < (Rm q).members.countP (fun m' => m'.kind == m.kind && m'.ref == m.ref) :=
        List.countP_pos_iff.mpr ⟨m, hmm, by simp⟩
      rw [cx.members q hq m.kind m.ref hmr'] at hcnt
      unfold refCount at hcnt
      obtain ⟨x, hx, hpx⟩ := List.countP_pos_iff.mp hcnt
      simp only [Bool.and_eq_true, beq_iff_eq] at hpx
      rw [← i.skelEq m.kind] at hx
      obtain ⟨e, he, rfl⟩ := List.mem_map.mp hx
      simp only at hpx
      have henum : e.num.isSome = true := by
        rw [i.num m.kind e he, hpx.2, hqlive]; simp
      have hkey := harr m.kind _ (mem_base_of_mem i.skelEq m.kind e he) hpx.2
      rw [hpx.1] at hkey
      obtain ⟨o, ho, hok, hoi⟩ := exists_obj_of_key hkey
      have hpos : 0 < liveRefs (s.getDb m.kind) m.ref :=
        List.countP_pos_iff.mpr ⟨e, he, by simp [hpx.1, henum]⟩
      exact ⟨o, ho, hok, hoi,
        lookup_found i.hinv m.kind m.ref (sorted_of_skel i.skelEq cx.sorted0 m.kind) hmr' hpos o ho hok hoi⟩
    · exact i.looks ev hev

/-- one iteration of the loop in `MembersDatabase::add` -/
theorem linv_completeStep {Rm : Nat → Rel} {n : Nat} {base : Base} (cx : Ctx Rm n base) (c : Cfg) {SO : List Obj}
    {s : State} (i : LInv Rm n base c.fixed SO s) (q m : Nat) (hq : q < n)
    (hm : missingAt s q = some (m + 1)) (harr : m = 0 → Arrived base SO q) :
    LInv Rm n base c.fixed SO (completeStep c s q) := by
  have hlive := live_of_missing i.inv2 q m hq hm
  have hsz : q < s.rdb.size := by rw [i.inv2.wf.rsize]; exact hq
  have i1 : LInv Rm n base c.fixed SO ({ s with rdb := s.rdb.setIfInBounds q ⟨q + 1, m⟩ } : State) := by
    refine ⟨inv2_setMissing i.inv2 q (m + 1) m hq hlive, ?_, ?_, ?_, ?_, i.looks⟩
    · intro k; rw [← i.skelEq k]; cases k <;> rfl
    · exact hinv_congr i.hinv rfl (fun k => by cases k <;> rfl)
    · exact xinv_congr i.xinv rfl (fun k => by cases k <;> rfl)
    · apply numInv_congr' i.num
      · intro p
        simp only [deadB, Array.getElem?_setIfInBounds]
        by_cases hp : q = p
        · subst hp; rw [hlive]; simp [hsz]
        · simp [hp]
      · intro k; cases k <;> rfl
  unfold completeStep
  rw [hlive]
  simp only [Nat.add_one_ne_zero, if_false, Nat.add_sub_cancel]
  split
  · rename_i hm0
    subst hm0
    have hl1 : ({ s with rdb := s.rdb.setIfInBounds q ⟨q + 1, 0⟩ } : State).rdb[q]? = some ⟨q + 1, 0⟩ := by
      simp [hsz]
    exact linv_handleComplete cx c i1 q hq hl1 (harr rfl)
  · exact i1

/-- the whole loop over the range of an arriving object; the counters are
    (outstanding references not counting this object) + (references still to come in the loop) -/
theorem linv_completeLoop {Rm : Nat → Rel} {n : Nat} {base : Base} (cx : Ctx Rm n base) (c : Cfg) {SO : List Obj}
    (ps : List Nat) :
    ∀ {s : State}, LInv Rm n base c.fixed SO s → (∀ q ∈ ps, q < n) →
      (∀ p, p < n → missingAt s p = some (pending base (SO.map okey) p + ps.count p)) →
      LInv Rm n base c.fixed SO (completeLoop c s ps) := by
  induction ps with
  | nil => intro s i _ _; exact i
  | cons q ps ih =>
    intro s i hlt hcnt
    simp only [completeLoop]
    have hq : q < n := hlt q (List.mem_cons_self ..)
    have hmq := hcnt q hq
    have hc1 : (q :: ps).count q = ps.count q + 1 := by simp
    rw [hc1, ← Nat.add_assoc] at hmq
    have i1 := linv_completeStep cx c i q _ hq hmq
      (fun h0 => arrived_of_pending_zero base SO q (by omega))
    have hf := completeStep_frame c s q
    apply ih i1 (fun q' hq' => hlt q' (List.mem_cons_of_mem _ hq'))
    intro p hp
    by_cases hpq : p = q
    · subst hpq
      rcases Nat.eq_zero_or_pos (pending base (SO.map okey) p + ps.count p) with h0 | hpos
      · rw [h0] at hmq ⊢
        exact (hf.2.2 hmq).1
      · obtain ⟨m'', hm''⟩ : ∃ m'', pending base (SO.map okey) p + ps.count p = m'' + 1 := ⟨_, (Nat.succ_pred_eq_of_pos hpos).symm⟩
        rw [hm''] at hmq ⊢
        exact (hf.2.1 m'' hmq).1
    · rw [(hf.1 p hpq).1, hcnt p hp]
      have : (q :: ps).count p = ps.count p := by
        simp [List.count_cons]; omega
      rw [this]

end Osmium.RelMgr
