/-
C02, PBF: the decoder on the output of the SPECIFICATION encoder (Model/PbfSpec.lean).  This file: what a legal
choice vector and a representable data set are, and the generic step "a message arranged by an arbitrary rank
with unknown extra fields decodes like its canonical field list".
-/
import Osmium.Lemmas.PbfFile
import Osmium.Model.PbfSpec

namespace Osmium.Pbf

open Osmium.Wire Osmium.Osm Osmium.PbfMsg
open Osmium.PbfSpec (Choices)

/-! ### the spec encoder's helpers are the writer model's -/

theorem spec_fBytes : PbfSpec.fBytes = fBytes := rfl
theorem spec_fVarint : PbfSpec.fVarint = fVarint := rfl
theorem spec_u64 : PbfSpec.u64 = u64 := rfl
theorem spec_be32 : PbfSpec.be32 = be32 := rfl
theorem spec_zigzag32 : PbfSpec.zigzag32 = zigzag32 := rfl
theorem spec_fSInt (tag : Nat) (x : Int) : PbfSpec.fSInt tag x = fVarint tag (zigzag64 x) := rfl
theorem spec_fInt (tag : Nat) (x : Int) : PbfSpec.fInt tag x = fVarint tag (u64 x) := rfl

/-! ### known fields of the remaining `switch`es -/

def blobKnown (f : Field) : Bool :=
  (f.wt == .lengthDelimited && (f.tag == 1 || f.tag == 3 || f.tag == 4 || f.tag == 6 || f.tag == 7)) || (f.wt == .varint && f.tag == 2)

/-- tags `decode_header_block` of the real code has a `case` for (the model's `headerStep` handles 1, 4, 16) -/
def headerKnown (f : Field) : Bool :=
  (f.wt == .lengthDelimited && (f.tag == 1 || f.tag == 4 || f.tag == 5 || f.tag == 16 || f.tag == 17 || f.tag == 34)) ||
  (f.wt == .varint && (f.tag == 32 || f.tag == 33))

def blockKnown (f : Field) : Bool := blockMetaKnown f || (f.wt == .lengthDelimited && f.tag == 2)

def stKnown (f : Field) : Bool := f.wt == .lengthDelimited && f.tag == 1

def groupKnown (f : Field) : Bool := f.wt == .lengthDelimited && (f.tag == 1 || f.tag == 2 || f.tag == 3 || f.tag == 4)

def denseKnown (f : Field) : Bool :=
  f.wt == .lengthDelimited && (f.tag == 1 || f.tag == 5 || f.tag == 8 || f.tag == 9 || f.tag == 10)

def blobHeaderKnown (f : Field) : Bool :=
  (f.wt == .lengthDelimited && (f.tag == 1 || f.tag == 2)) || (f.wt == .varint && f.tag == 3)

/-- the fields a message of kind `k` (`PbfSpec.kBlobHeader` …) gives a meaning to -/
def knownOf (k : Nat) (f : Field) : Bool :=
  match k with
  | 0 => blobHeaderKnown f
  | 1 => blobKnown f
  | 2 => headerKnown f
  | 3 => bboxKnown f
  | 4 => blockKnown f
  | 5 => stKnown f
  | 6 => groupKnown f
  | 7 => nodeKnown f
  | 8 => wayKnown f
  | 9 => wayKnown f
  | 10 => infoKnown f
  | 11 => denseKnown f
  | 12 => denseInfoKnown f
  | _ => false

/-! ### legal choice vectors -/

/-- a choice vector the format allows: positive int32 granularities, offsets of at most 2^61 nanodegrees, string
    table padding within the string limit, extra fields that are well-formed and unknown to the message kind they
    are added to -/
structure ChoicesOk (ch : Choices) : Prop where
  gran : 0 < ch.granularity ∧ ch.granularity < (2:Int) ^ 31
  dgran : 0 < ch.dateGranularity ∧ ch.dateGranularity < (2:Int) ^ 31
  latOff : -(2:Int) ^ 61 ≤ ch.latOffset ∧ ch.latOffset ≤ (2:Int) ^ 61
  lonOff : -(2:Int) ^ 61 ≤ ch.lonOffset ∧ ch.lonOffset ≤ (2:Int) ^ 61
  pad : ∀ s ∈ ch.tablePrefix, StrOk s
  extrasWF : ∀ k, ∀ e ∈ ch.extras k, e.WF
  extrasUnknown : ∀ k, ∀ e ∈ ch.extras k, knownOf k e = false

/-- the block parameters the decoder has after the metadata pass -/
def specParams (ch : Choices) (table : List Bytes) : Params :=
  { strings := table, granularity := ch.granularity, latOffset := ch.latOffset, lonOffset := ch.lonOffset,
    dateFactor := ch.dateGranularity }

/-! ### representable data -/

/-- a coordinate (1e-7 degrees) is expressible with granularity `g` and offset `off` (nanodegrees) -/
def CoordRep (g off c7 : Int) : Prop := g ∣ (100 * c7 - off)

def LocRep (ch : Choices) (l : Location) : Prop :=
  LocOk l ∧ CoordRep ch.granularity ch.lonOffset l.x ∧ CoordRep ch.granularity ch.latOffset l.y

/-- a timestamp (seconds) is expressible with the date granularity (milliseconds) -/
def StampRep (ch : Choices) (ts : Nat) : Prop := ch.dateGranularity ∣ 1000 * (ts : Int)

/-- DELTA coded sint64 arrays: every difference fits an int64 -/
def DeltaRep : Int → List Int → Prop
  | _, [] => True
  | prev, x :: xs => IdOk (x - prev) ∧ DeltaRep x xs

def MetaRep (ch : Choices) (m : Meta) : Prop :=
  MetaInDomain m ∧ IdOk m.id ∧ StampRep ch m.timestamp ∧ MetaStrOk m

/-- one object is expressible under the choices: value domain of C01, coordinates and timestamps on the chosen
    grids, delta chains within sint64; an invisible node has no location (the format drops it); a way carries
    locations for all of its nodes or for none.  Changesets are not part of PBF. -/
def ObjRep (ch : Choices) : Object → Prop
  | .node m l => MetaRep ch m ∧ LocOk l ∧ (if m.visible then LocRep ch l else l = Location.undefined)
  | .way m ns => MetaRep ch m ∧ (∀ n ∈ ns, IdOk n.ref ∧ LocOk n.location) ∧ DeltaRep 0 (ns.map (·.ref)) ∧
      ((∃ n ∈ ns, n.location ≠ Location.undefined) → ∀ n ∈ ns, LocRep ch n.location)
  | .relation m ms => MetaRep ch m ∧ RelInDomain ms ∧ DeltaRep 0 (ms.map (·.ref)) ∧ ∀ x ∈ ms, StrOk x.role
  | .changeset .. => False

/-- string `s` is referenced through a valid index ≥ 1 of the block's table -/
def TableOk (table : List Bytes) (s : Bytes) : Prop :=
  0 < PbfSpec.idx table s ∧ PbfSpec.idx table s < 2 ^ 31 ∧ table[PbfSpec.idx table s]? = some s

/-- what `decode_info` leaves for an object whose metadata is `m` -/
def infoOf (m : Meta) : InfoAcc :=
  { version := m.version, timestamp := m.timestamp, changeset := m.changeset, uid := m.uid, visible := m.visible }

/-! ### arranged messages -/

theorem mem_arrange (ch : Choices) (k : Nat) (fs : List Field) (f : Field) :
    f ∈ PbfSpec.arrange ch k fs ↔ f ∈ fs ∨ f ∈ ch.extras k := by
  unfold PbfSpec.arrange
  rw [mem_sortByRank, List.mem_append]

theorem length_insertByRank (rank : Nat × WireType → Nat) (f : Field) : ∀ (l : List Field),
    (insertByRank rank f l).length = l.length + 1
  | [] => rfl
  | g :: l => by
    unfold insertByRank
    split
    · rfl
    · simp [length_insertByRank rank f l]

theorem length_sortByRank (rank : Nat × WireType → Nat) : ∀ (fs : List Field), (sortByRank rank fs).length = fs.length
  | [] => rfl
  | f :: fs => by simp [sortByRank, length_insertByRank, length_sortByRank rank fs]

theorem length_arrange (ch : Choices) (k : Nat) (fs : List Field) :
    (PbfSpec.arrange ch k fs).length = fs.length + (ch.extras k).length := by
  simp [PbfSpec.arrange, length_sortByRank]

/-- parsing an arranged message gives the arranged field list -/
theorem readFields_msg (ch : Choices) (k : Nat) (fs : List Field) (hw : ∀ f ∈ fs, f.WF) (he : ∀ e ∈ ch.extras k, e.WF) :
    readFields (PbfSpec.msg ch k fs) = .ok (PbfSpec.arrange ch k fs) := by
  unfold PbfSpec.msg
  apply readFields_encodeFields
  intro f hf
  rcases (mem_arrange ch k fs f).mp hf with h | h
  · exact hw f h
  · exact he f h

/-- a length-delimited field of a message is no longer than the message -/
theorem payload_le_msg (ch : Choices) (k : Nat) (fs : List Field) (f : Field) (hf : f ∈ fs) (hw : f.wt = .lengthDelimited) :
    f.payload.length ≤ (PbfSpec.msg ch k fs).length :=
  ld_payload_le f _ ((mem_arrange ch k fs f).mpr (Or.inl hf)) hw

theorem decodeMsg_append_skip {σ : Type} (step : σ → Field → Option σ) (known : Field → Bool)
    (hs : ∀ s f, known f = false → step s f = some s) (s : σ) (fs extras : List Field)
    (he : ∀ e ∈ extras, known e = false) : decodeMsg step s (fs ++ extras) = decodeMsg step s fs := by
  rw [← decodeMsg_filter_known step known hs (fs ++ extras), ← decodeMsg_filter_known step known hs fs]
  have : extras.filter known = [] := by
    rw [List.filter_eq_nil_iff]; intro a ha; simp [he a ha]
  rw [List.filter_append, this, List.append_nil]

/-- when all fields with a meaning have ONE key, everything commutes (the others are skipped) -/
theorem commutesOn_single {σ : Type} (step : σ → Field → Option σ) (known : Field → Bool)
    (hs : ∀ s f, known f = false → step s f = some s) (k0 : Nat × WireType) :
    CommutesOn step (fun f => key f = k0 ∨ known f = false) := by
  intro s f g hf hg hk
  have skip : ∀ (a b : Field), known a = false →
      (step s a).bind (fun s' => step s' b) = (step s b).bind (fun s' => step s' a) := by
    intro a b ha
    rw [hs s a ha, Option.bind_some]
    cases h : step s b with
    | none => rfl
    | some s' => simp [hs s' a ha]
  rcases hf with hf | hf
  · rcases hg with hg | hg
    · exact absurd (hf.trans hg.symm) hk
    · exact (skip g f hg).symm
  · exact skip f g hf

theorem CommutesOn.mono {σ : Type} {step : σ → Field → Option σ} {P Q : Field → Prop} (hc : CommutesOn step P)
    (h : ∀ f, Q f → P f) : CommutesOn step Q :=
  fun s f g hf hg hk => hc s f g (h f hf) (h g hg) hk

/-- the decoder loop over an arranged message = the loop over its canonical field list: the order does not
    matter (`hc`) and the extras are skipped (`hs`, `he`) -/
theorem decodeMsg_arrange {σ : Type} (step : σ → Field → Option σ) (known : Field → Bool)
    (hs : ∀ s f, known f = false → step s f = some s) (P : Field → Prop) (hc : CommutesOn step P)
    (ch : Choices) (k : Nat) (fs : List Field) (s : σ) (hP : ∀ f ∈ fs, P f) (hPe : ∀ e ∈ ch.extras k, P e)
    (he : ∀ e ∈ ch.extras k, known e = false) :
    decodeMsg step s (PbfSpec.arrange ch k fs) = decodeMsg step s fs := by
  unfold PbfSpec.arrange
  rw [decodeMsg_sortByRank step P hc _ s _ (fun f hf => by
    rcases List.mem_append.mp hf with h | h
    · exact hP f h
    · exact hPe f h)]
  exact decodeMsg_append_skip step known hs s fs _ he

/-- the common case: steps for different keys commute on ALL fields -/
theorem decodeMsg_arrange' {σ : Type} (step : σ → Field → Option σ) (known : Field → Bool)
    (hs : ∀ s f, known f = false → step s f = some s) (hc : CommutesOn step (fun _ => True))
    (ch : Choices) (k : Nat) (fs : List Field) (s : σ) (he : ∀ e ∈ ch.extras k, known e = false) :
    decodeMsg step s (PbfSpec.arrange ch k fs) = decodeMsg step s fs :=
  decodeMsg_arrange step known hs _ hc ch k fs s (fun _ _ => trivial) (fun _ _ => trivial) he

/-! ### grids -/

theorem delta_length : ∀ (xs : List Int) (p : Int), (PbfSpec.delta p xs).length = xs.length
  | [], _ => rfl
  | x :: xs, p => by simp [PbfSpec.delta, delta_length xs x]

end Osmium.Pbf
