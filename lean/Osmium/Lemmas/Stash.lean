/-
Helper lemmas and specification machine for the item-stash part of C15.
-/
import Osmium.Model.Stash

namespace Osmium.Stash

/-! ### the mathematical model: handle ↦ content -/

/-- entry `h-1` describes handle `h` (handles issued since the last `clear`, in order):
    `some payload` = live, `none` = removed -/
abbrev Spec := List (Option (List UInt8))

def specStep (t : Spec) : Op → Spec × Out
  | .add p => (t ++ [some p], .handle (t.length + 1))
  | .get h =>
    if h = 0 then (t, .ub) else
    match t[h - 1]? with
    | some (some p) => (t, .item (8 + p.length) false p)
    | _ => (t, .ub)
  | .remove h =>
    if h = 0 then (t, .ub) else
    match t[h - 1]? with
    | some (some _) => (t.set (h - 1) none, .unit)
    | _ => (t, .ub)
  | .gc => (t, .unit)
  | .clear => ([], .unit)
  | .size => (t, .nat (t.filter Option.isSome).length)

def specRun : Spec → List Op → Spec × List Out
  | t, [] => (t, [])
  | t, op :: ops =>
    let (t1, o) := specStep t op
    let (t2, os) := specRun t1 ops
    (t2, o :: os)

/-- sum of the padded sizes of the non-removed items -/
def liveBytes : List Item → Nat
  | [] => 0
  | i :: r => (if i.removed then 0 else i.psize) + liveBytes r

/-! ### helper definitions and lemmas -/

def mk (p : List UInt8) : Item := { size := 8 + p.length, removed := false, payload := p }

def liveOffs : Nat → List Item → List (Nat × Item)
  | _, [] => []
  | b, i :: r => if i.removed then liveOffs (b + i.psize) r else (b, i) :: liveOffs (b + i.psize) r

inductive Match : List Nat → Spec → List (Nat × Item) → Prop
  | nil : Match [] [] []
  | dead {idx t L} : Match idx t L → Match (REMOVED :: idx) (none :: t) L
  | live {idx t L} (x : Nat) (p : List UInt8) : Match idx t L → Match (x :: idx) (some p :: t) ((x, mk p) :: L)

theorem padded_mod (n : Nat) : padded n % 8 = 0 := by unfold padded; omega
theorem padded_pos {n : Nat} (h : 0 < n) : 0 < padded n := by unfold padded; omega
theorem psize_mod (i : Item) : i.psize % 8 = 0 := padded_mod _
theorem REMOVED_mod : REMOVED % 8 = 7 := by simp [REMOVED]
theorem mk_psize_pos (p : List UInt8) : 0 < (mk p).psize := by
  unfold Item.psize mk; apply padded_pos; simp only; omega

theorem liveOffs_mem {items : List Item} : ∀ {b x : Nat} {it : Item},
    (∀ i ∈ items, 0 < i.psize) → (x, it) ∈ liveOffs b items →
    b ≤ x ∧ x < b + sizeSum items ∧ itemAt items (x - b) = some it ∧ x % 8 = b % 8 := by
  induction items with
  | nil => intro b x it _ h; simp [liveOffs] at h
  | cons i r ih =>
    intro b x it hp h
    have hi : 0 < i.psize := hp i (by simp)
    have hr : ∀ j ∈ r, 0 < j.psize := fun j hj => hp j (by simp [hj])
    have hm := psize_mod i
    have hrec : (x, it) ∈ liveOffs (b + i.psize) r →
        b ≤ x ∧ x < b + sizeSum (i :: r) ∧ itemAt (i :: r) (x - b) = some it ∧ x % 8 = b % 8 := by
      intro h
      obtain ⟨h1, h2, h3, h4⟩ := ih hr h
      refine ⟨by omega, by simp [sizeSum]; omega, ?_, by omega⟩
      have e : x - b - i.psize = x - (b + i.psize) := by omega
      have e1 : ¬ (x - b = 0) := by omega
      have e2 : ¬ (x - b < i.psize) := by omega
      simp [itemAt, e, h3, e1, e2]
    unfold liveOffs at h
    split at h
    · exact hrec h
    · rcases List.mem_cons.1 h with h | h
      · cases h
        refine ⟨by omega, by simp [sizeSum]; omega, by simp [itemAt], rfl⟩
      · exact hrec h

theorem liveOffs_append (a : List Item) : ∀ (b : Nat) (c : List Item),
    liveOffs b (a ++ c) = liveOffs b a ++ liveOffs (b + sizeSum a) c := by
  induction a with
  | nil => intro b c; simp [liveOffs, sizeSum]
  | cons i r ih =>
    intro b c
    simp only [List.cons_append, liveOffs, sizeSum, ih, Nat.add_assoc]
    split <;> simp

theorem liveOffs_markRemoved {items : List Item} : ∀ {b x : Nat} {it : Item} {L1 L2 : List (Nat × Item)},
    (∀ i ∈ items, 0 < i.psize) → liveOffs b items = L1 ++ (x, it) :: L2 →
    liveOffs b (markRemoved items (x - b)) = L1 ++ L2 := by
  induction items with
  | nil => intro b x it L1 L2 _ h; simp [liveOffs] at h
  | cons i r ih =>
    intro b x it L1 L2 hp h
    have hi : 0 < i.psize := hp i (by simp)
    have hr : ∀ j ∈ r, 0 < j.psize := fun j hj => hp j (by simp [hj])
    have hrec : ∀ L1', liveOffs (b + i.psize) r = L1' ++ (x, it) :: L2 →
        markRemoved (i :: r) (x - b) = i :: markRemoved r (x - (b + i.psize)) := by
      intro L1' h'
      have hm : (x, it) ∈ liveOffs (b + i.psize) r := by rw [h']; simp
      have := (liveOffs_mem hr hm).1
      have e : x - b - i.psize = x - (b + i.psize) := by omega
      have e1 : ¬ (x - b = 0) := by omega
      have e2 : ¬ (x - b < i.psize) := by omega
      simp [markRemoved, e, e1, e2]
    by_cases hrm : i.removed = true
    · simp only [liveOffs, hrm, if_true] at h
      rw [hrec L1 h]
      simp only [liveOffs, hrm, if_true]
      exact ih hr h
    · simp only [liveOffs, hrm] at h
      cases L1 with
      | nil =>
        simp at h
        obtain ⟨⟨rfl, rfl⟩, h⟩ := h
        simpa [markRemoved, liveOffs, Item.psize] using h
      | cons e L1' =>
        simp at h
        obtain ⟨rfl, h⟩ := h
        rw [hrec L1' h]
        simp only [liveOffs, hrm]
        simp [ih hr h]

theorem sizeSum_append (a c : List Item) : sizeSum (a ++ c) = sizeSum a + sizeSum c := by
  induction a with
  | nil => simp [sizeSum]
  | cons i r ih => simp [sizeSum, ih, Nat.add_assoc]

theorem sizeSum_markRemoved (items : List Item) : ∀ (off : Nat),
    sizeSum (markRemoved items off) = sizeSum items := by
  induction items with
  | nil => intro off; rfl
  | cons i r ih =>
    intro off
    unfold markRemoved
    split
    · simp [sizeSum, Item.psize]
    · split <;> simp [sizeSum, ih]

theorem markRemoved_pos {items : List Item} : ∀ {off : Nat},
    (∀ i ∈ items, 0 < i.psize) → ∀ j ∈ markRemoved items off, 0 < j.psize := by
  induction items with
  | nil => intro off _ j hj; simp [markRemoved] at hj
  | cons i r ih =>
    intro off hp j hj
    have hi : 0 < i.psize := hp i (by simp)
    have hr : ∀ j ∈ r, 0 < j.psize := fun j hj => hp j (by simp [hj])
    unfold markRemoved at hj
    split at hj
    · rcases List.mem_cons.1 hj with rfl | hj
      · exact hi
      · exact hr j hj
    · split at hj
      · exact hp j hj
      · rcases List.mem_cons.1 hj with rfl | hj
        · exact hi
        · exact ih hr j hj


/-! ### Match lemmas -/

theorem Match.length_eq {idx t L} (h : Match idx t L) : idx.length = t.length := by
  induction h <;> simp [*]

theorem Match.append {a ta La b tb Lb} (h1 : Match a ta La) (h2 : Match b tb Lb) :
    Match (a ++ b) (ta ++ tb) (La ++ Lb) := by
  induction h1 with
  | nil => simpa using h2
  | dead _ ih => exact Match.dead ih
  | live x p _ ih => exact Match.live x p ih

theorem Match.get_none {idx t L} (h : Match idx t L) : ∀ {k : Nat}, t[k]? = some none →
    idx[k]? = some REMOVED := by
  induction h with
  | nil => intro k hk; simp at hk
  | dead _ ih => intro k hk; cases k with
    | zero => simp
    | succ k => simp at hk ⊢; exact ih hk
  | live x p _ ih => intro k hk; cases k with
    | zero => simp at hk
    | succ k => simp at hk ⊢; exact ih hk

theorem Match.set {idx t L} (h : Match idx t L) : ∀ {k : Nat} {p : List UInt8}, t[k]? = some (some p) →
    ∃ x L1 L2, idx[k]? = some x ∧ L = L1 ++ (x, mk p) :: L2 ∧
      Match (idx.set k REMOVED) (t.set k none) (L1 ++ L2) := by
  induction h with
  | nil => intro k p hk; simp at hk
  | dead _ ih => intro k p hk; cases k with
    | zero => simp at hk
    | succ k =>
      simp at hk
      obtain ⟨x, L1, L2, h1, h2, h3⟩ := ih hk
      exact ⟨x, L1, L2, by simpa using h1, h2, by simpa using Match.dead h3⟩
  | live x p' hm ih => intro k p hk; cases k with
    | zero =>
      simp at hk; subst hk
      exact ⟨x, [], _, by simp, rfl, by simpa using Match.dead hm⟩
    | succ k =>
      simp at hk
      obtain ⟨y, L1, L2, h1, h2, h3⟩ := ih hk
      exact ⟨y, (x, mk p') :: L1, L2, by simpa using h1, by simp [h2], by simpa using Match.live x p' h3⟩

theorem Match.split {idx t M} (h : Match idx t M) : ∀ {U L : List (Nat × Item)} {e : Nat × Item},
    M = U ++ e :: L →
    ∃ B1 B2 t1 t2 p, idx = B1 ++ e.1 :: B2 ∧ t = t1 ++ some p :: t2 ∧ e.2 = mk p ∧
      Match B1 t1 U ∧ Match B2 t2 L := by
  induction h with
  | nil => intro U L e h; simp at h
  | dead _ ih =>
    intro U L e h
    obtain ⟨B1, B2, t1, t2, p, h1, h2, h3, h4, h5⟩ := ih h
    exact ⟨REMOVED :: B1, B2, none :: t1, t2, p, by simp [h1], by simp [h2], h3, Match.dead h4, h5⟩
  | live x p hm ih =>
    intro U L e h
    cases U with
    | nil =>
      simp at h
      obtain ⟨rfl, rfl⟩ := h
      exact ⟨[], _, [], _, p, by simp, by simp, rfl, Match.nil, hm⟩
    | cons u U' =>
      simp at h
      obtain ⟨rfl, h⟩ := h
      obtain ⟨B1, B2, t1, t2, q, h1, h2, h3, h4, h5⟩ := ih h
      exact ⟨x :: B1, B2, some p :: t1, t2, q, by simp [h1], by simp [h2], h3, Match.live x p h4, h5⟩

theorem Match.mem_idx {B t U} (h : Match B t U) : ∀ {y : Nat}, y ∈ B →
    y = REMOVED ∨ ∃ it, (y, it) ∈ U := by
  induction h with
  | nil => intro y hy; simp at hy
  | dead _ ih =>
    intro y hy
    rcases List.mem_cons.1 hy with rfl | hy
    · exact Or.inl rfl
    · exact ih hy
  | live x p _ ih =>
    intro y hy
    rcases List.mem_cons.1 hy with rfl | hy
    · exact Or.inr ⟨mk p, by simp⟩
    · rcases ih hy with h | ⟨it, h⟩
      · exact Or.inl h
      · exact Or.inr ⟨it, by simp [h]⟩

/-! ### the GC loop -/

theorem movingInBuffer_spec (old new : Nat) (B1 : List Nat) : ∀ (d B2 : List Nat), old ∉ B1 →
    movingInBuffer old new d (B1 ++ old :: B2) = some ⟨new :: (B1.reverse ++ d), B2⟩ := by
  induction B1 with
  | nil => intro d B2 _; simp [movingInBuffer]
  | cons x B1 ih =>
    intro d B2 h
    simp at h
    have hx : x ≠ old := fun e => h.1 e.symm
    simp [movingInBuffer, hx, ih (x :: d) B2 h.2]

theorem purge_spec (r : List Item) : ∀ (rd wr : Nat) (d rest : List Nat) (t : Spec)
    (U : List (Nat × Item)),
    (∀ i ∈ r, 0 < i.psize) → rd % 8 = 0 → (∀ e ∈ U, e.1 < rd) →
    Match rest t (U ++ liveOffs rd r) →
    ∃ hp rest', purge r rd wr ⟨d, rest⟩ = some (r.filter (fun i => !i.removed), hp) ∧
      hp.doneRev.reverse ++ hp.rest = d.reverse ++ rest' ∧
      Match rest' t (U ++ liveOffs wr (r.filter (fun i => !i.removed))) := by
  induction r with
  | nil =>
    intro rd wr d rest t U _ _ _ hm
    exact ⟨⟨d, rest⟩, rest, by simp [purge], rfl, by simpa [liveOffs] using hm⟩
  | cons i r ih =>
    intro rd wr d rest t U hp hrd hU hm
    have hi : 0 < i.psize := hp i (by simp)
    have hr : ∀ j ∈ r, 0 < j.psize := fun j hj => hp j (by simp [hj])
    have hmod := psize_mod i
    by_cases hrm : i.removed = true
    · simp only [liveOffs, hrm, if_true] at hm
      obtain ⟨hp', rest', h1, h2, h3⟩ := ih (rd + i.psize) wr d rest t U hr (by omega)
        (fun e he => by have := hU e he; omega) hm
      refine ⟨hp', rest', ?_, h2, ?_⟩
      · simp [purge, hrm, h1]
      · simpa [hrm] using h3
    · have hrm' : i.removed = false := by simpa using hrm
      simp only [liveOffs, hrm'] at hm
      by_cases hw : rd = wr
      · subst hw
        have hm' : Match rest t ((U ++ [(rd, i)]) ++ liveOffs (rd + i.psize) r) := by
          simpa using hm
        obtain ⟨hp', rest', h1, h2, h3⟩ := ih (rd + i.psize) (rd + i.psize) d rest t
          (U ++ [(rd, i)]) hr (by omega)
          (fun e he => by
            rcases List.mem_append.1 he with he | he
            · have := hU e he; omega
            · simp at he; subst he; simp; omega) hm'
        refine ⟨hp', rest', ?_, h2, ?_⟩
        · simp [purge, hrm', h1]
        · simpa [hrm', liveOffs] using h3
      · obtain ⟨B1, B2, t1, t2, p, e1, e2, e3, m1, m2⟩ := hm.split rfl
        simp only at e1 e3
        have hnot : rd ∉ B1 := by
          intro hin
          rcases m1.mem_idx hin with h | ⟨it, h⟩
          · have := REMOVED_mod; omega
          · have := hU _ h; simp at this
        have hmv := movingInBuffer_spec rd wr B1 d B2 hnot
        obtain ⟨hp', rest2, h1, h2, h3⟩ := ih (rd + i.psize) (wr + i.psize)
          (wr :: (B1.reverse ++ d)) B2 t2 [] hr (by omega) (by simp) (by simpa using m2)
        refine ⟨hp', B1 ++ wr :: rest2, ?_, ?_, ?_⟩
        · simp [purge, hrm', hw, e1, hmv, h1]
        · simp [h2]
        · subst e2
          have := Match.append m1 (Match.live wr p (by simpa using h3))
          subst e3
          have hq : (mk p).removed = false := rfl
          simpa [hq, liveOffs] using this

/-! ### the invariant -/

/-- `Inv s t`: the stash state `s` represents the handle map `t`.
    * `m`: walking `s.index` and `t` in parallel, an entry of a removed handle (`none`) is
      `REMOVED`, and the entries of the live handles (`some p`), in handle order, are exactly the
      byte offsets of the non-removed buffer items, in buffer order, the item being
      `{ size := 8 + p.length, removed := false, payload := p }`;
    * `pos`: every buffer item (removed or not) has a positive padded size;
    * `cnt`: `countItems` is the number of live handles;
    * `wr`: `written` (= `m_written` = `m_committed`) is the total padded size of the items. -/
structure Inv (s : State) (t : Spec) : Prop where
  m : Match s.index t (liveOffs 0 s.items)
  pos : ∀ i ∈ s.items, 0 < i.psize
  cnt : s.countItems = (t.filter Option.isSome).length
  wr : s.written = sizeSum s.items

theorem inv_init (ibs : Nat) : Inv (init ibs) [] :=
  ⟨Match.nil, by simp [init], by simp [init], by simp [init, sizeSum]⟩

theorem inv_clear (s : State) : Inv (clear s) [] :=
  ⟨Match.nil, by simp [clear], by simp [clear], by simp [clear, sizeSum]⟩

/-- the value a handle resolves to according to the spec -/
def specGet (t : Spec) (h : Nat) : Option Item :=
  if h = 0 then none else
  match t[h - 1]? with
  | some (some p) => some (mk p)
  | _ => none

theorem itemOffset_live {s t} (hi : Inv s t) {h : Nat} {p : List UInt8} (h0 : h ≠ 0)
    (ht : t[h - 1]? = some (some p)) :
    ∃ x L1 L2, itemOffset s h = some x ∧ itemAt s.items x = some (mk p) ∧
      liveOffs 0 s.items = L1 ++ (x, mk p) :: L2 ∧
      Match (s.index.set (h - 1) REMOVED) (t.set (h - 1) none) (L1 ++ L2) := by
  obtain ⟨x, L1, L2, h1, h2, h3⟩ := hi.m.set ht
  have hmem : (x, mk p) ∈ liveOffs 0 s.items := by rw [h2]; simp
  obtain ⟨_, g2, g3, g4⟩ := liveOffs_mem hi.pos hmem
  have hne : x ≠ REMOVED := by have := REMOVED_mod; omega
  refine ⟨x, L1, L2, ?_, by simpa using g3, h2, h3⟩
  have : x < committed s := by simpa [committed, hi.wr] using g2
  simp [itemOffset, h0, h1, hne, this]

theorem itemOffset_dead {s t} (hi : Inv s t) {h : Nat}
    (ht : h = 0 ∨ t[h - 1]? = none ∨ t[h - 1]? = some none) : itemOffset s h = none := by
  rcases ht with h0 | ht | ht
  · simp [itemOffset, h0]
  · have : s.index[h - 1]? = none := by
      have hl := hi.m.length_eq
      simp at ht ⊢; omega
    simp [itemOffset, this]
  · simp [itemOffset, hi.m.get_none ht]

theorem getItem_eq {s t} (hi : Inv s t) (h : Nat) : getItem s h = specGet t h := by
  unfold specGet
  by_cases h0 : h = 0
  · subst h0; simp [getItem, itemOffset_dead hi (Or.inl rfl)]
  · simp only [h0, if_false]
    cases ht : t[h - 1]? with
    | none => simp [getItem, itemOffset_dead hi (Or.inr (Or.inl ht))]
    | some o =>
      cases o with
      | none => simp [getItem, itemOffset_dead hi (Or.inr (Or.inr ht))]
      | some p =>
        obtain ⟨x, _, _, h1, h2, _⟩ := itemOffset_live hi h0 ht
        simp [getItem, h1, h2]

/-! ### garbage collection -/

/-- the state after `garbage_collect()`, with new index `idx'` -/
def gcState (s : State) (idx' : List Nat) : State :=
  { s with countRemoved := 0, items := s.items.filter (fun i => !i.removed),
           written := sizeSum (s.items.filter (fun i => !i.removed)), index := idx' }

theorem gc_spec {s t} (hi : Inv s t) :
    ∃ idx', garbageCollect s = some (gcState s idx') ∧ Inv (gcState s idx') t := by
  obtain ⟨hp, rest', h1, h2, h3⟩ := purge_spec s.items 0 0 [] s.index t [] hi.pos rfl
    (by simp) (by simpa using hi.m)
  refine ⟨hp.doneRev.reverse ++ hp.rest, ?_, ?_, ?_, hi.cnt, rfl⟩
  · simp [garbageCollect, h1, gcState]
  · simp at h2; simp only [gcState, h2]; simpa using h3
  · intro i hmem
    exact hi.pos i (List.mem_filter.1 hmem).1

theorem sizeSum_filter (items : List Item) :
    sizeSum (items.filter (fun i => !i.removed)) = liveBytes items := by
  induction items with
  | nil => rfl
  | cons i r ih =>
    by_cases h : i.removed = true <;> simp [List.filter, h, sizeSum, liveBytes, ih]

/-! ### one step, histories -/

theorem count_set_none : ∀ {t : Spec} {k : Nat} {p : List UInt8}, t[k]? = some (some p) →
    ((t.set k none).filter Option.isSome).length + 1 = (t.filter Option.isSome).length := by
  intro t
  induction t with
  | nil => intro k p h; simp at h
  | cons a t ih =>
    intro k p h
    cases k with
    | zero => simp at h; subst h; simp
    | succ k =>
      simp at h
      have := ih h
      cases a <;> simp [List.filter] <;> omega

theorem add_inv {s t} (hi : Inv s t) (p : List UInt8) :
    Inv { s with
      countItems := s.countItems + 1
      capacity := growFor s.capacity (committed s) (mk p).psize
      items := s.items ++ [mk p]
      written := committed s + (mk p).psize
      index := s.index ++ [committed s] } (t ++ [some p]) := by
  refine ⟨?_, ?_, ?_, ?_⟩
  · have h1 : Match [committed s] [some p] [(committed s, mk p)] := Match.live _ _ Match.nil
    have := Match.append hi.m h1
    have hq : (mk p).removed = false := rfl
    simpa [liveOffs_append, liveOffs, committed, hi.wr, hq] using this
  · intro i hmem
    rcases List.mem_append.1 hmem with h | h
    · exact hi.pos i h
    · simp at h; subst h; exact mk_psize_pos p
  · simp [hi.cnt]
  · simp [committed, hi.wr, sizeSum_append, sizeSum]

theorem step_inv {s t} (hi : Inv s t) (op : Op) :
    Inv (step s op).1 (specStep t op).1 ∧ (step s op).2 = (specStep t op).2 := by
  cases op with
  | add p =>
    by_cases hg : shouldGc s = true
    · obtain ⟨idx', g1, g2⟩ := gc_spec hi
      have ha := add_inv g2 p
      have hl := g2.m.length_eq
      simp only [step, addItem, hg, if_true, g1, specStep]
      exact ⟨ha, by simp at hl ⊢; exact hl⟩
    · have ha := add_inv hi p
      have hl := hi.m.length_eq
      simp only [step, addItem, hg, specStep]
      exact ⟨ha, by simp [hl]⟩
  | get h =>
    have := getItem_eq hi h
    simp only [step, specStep, this, specGet]
    by_cases h0 : h = 0
    · simp [h0, hi]
    · simp only [h0, if_false]
      cases ht : t[h - 1]? with
      | none => simp [hi]
      | some o => cases o <;> simp [hi, mk]
  | remove h =>
    simp only [step, specStep]
    by_cases h0 : h = 0
    · subst h0; simp [removeItem, itemOffset_dead hi (Or.inl rfl), hi]
    · simp only [h0, if_false]
      cases ht : t[h - 1]? with
      | none => simp [removeItem, itemOffset_dead hi (Or.inr (Or.inl ht)), hi]
      | some o =>
        cases o with
        | none => simp [removeItem, itemOffset_dead hi (Or.inr (Or.inr ht)), hi]
        | some p =>
          obtain ⟨x, L1, L2, h1, h2, h3, h4⟩ := itemOffset_live hi h0 ht
          have hq : (mk p).removed = false := rfl
          simp only [removeItem, h1, h2, hq]
          refine ⟨⟨?_, ?_, ?_, ?_⟩, rfl⟩
          · have := liveOffs_markRemoved (b := 0) hi.pos h3
            simp only [Nat.sub_zero] at this
            simpa [this] using h4
          · exact markRemoved_pos hi.pos
          · have := count_set_none ht
            have := hi.cnt
            show s.countItems - 1 = _
            omega
          · simpa [sizeSum_markRemoved] using hi.wr
  | gc =>
    obtain ⟨idx', g1, g2⟩ := gc_spec hi
    simp only [step, g1, specStep]
    exact ⟨g2, trivial⟩
  | clear => exact ⟨inv_clear s, rfl⟩
  | size => exact ⟨hi, by simp [step, specStep, hi.cnt]⟩

theorem run_inv (ops : List Op) : ∀ {s t}, Inv s t →
    Inv (run s ops).1 (specRun t ops).1 ∧ (run s ops).2 = (specRun t ops).2 := by
  induction ops with
  | nil => intro s t hi; exact ⟨hi, rfl⟩
  | cons op ops ih =>
    intro s t hi
    obtain ⟨h1, h2⟩ := step_inv hi op
    obtain ⟨h3, h4⟩ := ih h1
    simp only [run, specRun]
    exact ⟨h3, by simp [h2, h4]⟩

/-- every reachable state satisfies the invariant w.r.t. the spec state of the same history -/
theorem reachable_inv (ibs : Nat) (ops : List Op) :
    Inv (run (init ibs) ops).1 (specRun [] ops).1 :=
  (run_inv ops (inv_init ibs)).1

/-! ### the targets -/

/-- every history (adds, gets, removals, explicit and automatic garbage collections, clears)
    produces exactly the outputs of the handle ↦ content map: handles stay valid, resolve to
    unchanged content, removed/unknown handles are the only precondition violations -/
theorem refines (ibs : Nat) (ops : List Op) :
    (run (init ibs) ops).2 = (specRun [] ops).2 :=
  (run_inv ops (inv_init ibs)).2

/-- garbage collection of any reachable state succeeds and every handle resolves to the same
    item before and after -/
theorem gc_preserves (ibs : Nat) (ops : List Op) :
    ∃ s', garbageCollect (run (init ibs) ops).1 = some s' ∧
      ∀ h, getItem s' h = getItem (run (init ibs) ops).1 h := by
  have hi := reachable_inv ibs ops
  obtain ⟨idx', g1, g2⟩ := gc_spec hi
  exact ⟨_, g1, fun h => by rw [getItem_eq g2, getItem_eq hi]⟩

/-- after garbage collection of any reachable state no removed item is left and the committed
    size is exactly the space of the live items -/
theorem gc_reclaims (ibs : Nat) (ops : List Op) (s' : State)
    (h : garbageCollect (run (init ibs) ops).1 = some s') :
    committed s' = liveBytes (run (init ibs) ops).1.items ∧
    (∀ i ∈ s'.items, i.removed = false) ∧ s'.countRemoved = 0 := by
  have hi := reachable_inv ibs ops
  obtain ⟨idx', g1, _⟩ := gc_spec hi
  rw [g1] at h
  cases h
  refine ⟨by simp [committed, gcState, sizeSum_filter], ?_, rfl⟩
  intro i hmem
  simpa using (List.mem_filter.1 hmem).2

end Osmium.Stash
