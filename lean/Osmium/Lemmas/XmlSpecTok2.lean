/-
Lexical half of `xml_decode_spec` (C02), part 2: the main loop over tags, indentation, character
data (`Steps`), and the element level: `XmlSpec.element` ↦ `XmlSpec.elEvs`.
-/
import Osmium.Lemmas.XmlSpecTok

namespace Osmium.XmlFmt.XmlSpec
open Osmium.Osm Osmium.TextFmt Osmium.Conv Osmium.Utf8 Osmium.XmlFmt
open Osmium.OplFmt.OplSpec (pick pickGo)

/-- started on `inp` with at least `inp.length + 1` fuel, the main loop reaches `rest` with at least
    `rest.length + 1` fuel and has pushed the events `evs` -/
def Steps (inp rest : Bytes) (evs : List Ev) : Prop :=
  ∀ acc f, inp.length + 1 ≤ f → ∃ f', rest.length + 1 ≤ f' ∧ tokLoop f inp acc = tokLoop f' rest (evs.reverse ++ acc)

theorem Steps.refl (s : Bytes) : Steps s s [] := fun _ f hf => ⟨f, hf, rfl⟩

theorem Steps.trans {a b c : Bytes} {e1 e2 : List Ev} (h1 : Steps a b e1) (h2 : Steps b c e2) : Steps a c (e1 ++ e2) := by
  intro acc f hf
  obtain ⟨f1, hf1, e⟩ := h1 acc f hf
  obtain ⟨f2, hf2, e'⟩ := h2 (e1.reverse ++ acc) f1 hf1
  exact ⟨f2, hf2, by rw [e, e', List.reverse_append, List.append_assoc]⟩

theorem Steps.cast {a a' b : Bytes} {e e' : List Ev} (h : Steps a b e) (ha : a' = a) (he : e' = e) : Steps a' b e' := by
  subst ha he; exact h

/-- a complete run: `Steps` to the empty input -/
theorem Steps.run {inp : Bytes} {evs : List Ev} (h : Steps inp [] evs) (f : Nat) (hf : inp.length + 1 ≤ f) :
    tokLoop f inp [] = some evs := by
  obtain ⟨f', hf', e⟩ := h [] f hf
  obtain ⟨g, rfl⟩ : ∃ g, f' = g + 1 := ⟨f' - 1, by simp at hf'; omega⟩
  rw [e, tokLoop_nil]; simp

/-! ### tags -/

theorem open_aux (nm : Bytes) (hne : nm ≠ []) (hall : nm.all isNameByte = true) (r : Bytes)
    (hr : ∃ c' r', r = c' :: r' ∧ isNameByte c' = false) (f : Nat) (acc : List Ev) :
    tokLoop (f + 1) (0x3c :: (nm ++ r)) acc =
      match tokAttrs (r.length + 1) r with
      | some (as, sc, rest) =>
        tokLoop f rest (if sc then .stop (nameOf nm) :: .start (nameOf nm) as :: acc else .start (nameOf nm) as :: acc)
      | none => none := by
  obtain ⟨c, t, hct⟩ := List.exists_cons_of_ne_nil hne
  have hc : isNameByte c = true := by
    have := hall; rw [hct] at this; simp only [List.all_cons, Bool.and_eq_true] at this; exact this.1
  obtain ⟨-, -, f3, -, -, f6⟩ := nameByte_facts c hc
  obtain ⟨c', r', rfl, hc'⟩ := hr
  have htd := takeWhile_name nm hall c' r' hc'
  have e1 : nm ++ c' :: r' = c :: (t ++ c' :: r') := by rw [hct]; rfl
  rw [e1, tokLoop_open f c _ acc f6 f3, ← e1]
  unfold openBody
  rw [htd.1, htd.2]
  have hne' : nm.isEmpty = false := by rw [hct]; rfl
  simp only [hne', Bool.false_eq_true, if_false]
  rfl

theorem steps_open (ch : Choices) (name : String) (as : List (String × Bytes)) (rest : Bytes)
    (hn : GoodName name) (has : GoodAttrs as) :
    Steps (0x3c :: (str name ++ (attrsBytes ch as ++ 0x3e :: rest))) rest [Ev.start name (pick ch.attrOrder as)] := by
  intro acc f hf
  obtain ⟨g, rfl⟩ : ∃ g, f = g + 1 := ⟨f - 1, by omega⟩
  obtain ⟨hne, hall, hnm⟩ := hn
  rw [attrsBytes_eq] at hf ⊢
  refine ⟨g, ?_, ?_⟩
  · simp only [List.length_cons, List.length_append] at hf ⊢; omega
  · rw [open_aux (str name) hne hall _ (attrsFrom_head ch _ 0 0x3e rest (by decide)) g acc,
      tokAttrs_list_gt ch _ (has.pick _) 0 rest _
        (by have := attrsFrom_length ch (pick ch.attrOrder as) 0; rw [List.length_append]; omega), hnm]
    rfl

theorem steps_selfclose (ch : Choices) (name : String) (as : List (String × Bytes)) (rest : Bytes)
    (hn : GoodName name) (has : GoodAttrs as) :
    Steps (0x3c :: (str name ++ (attrsBytes ch as ++ 0x2f :: 0x3e :: rest))) rest
      [Ev.start name (pick ch.attrOrder as), Ev.stop name] := by
  intro acc f hf
  obtain ⟨g, rfl⟩ : ∃ g, f = g + 1 := ⟨f - 1, by omega⟩
  obtain ⟨hne, hall, hnm⟩ := hn
  rw [attrsBytes_eq] at hf ⊢
  refine ⟨g, ?_, ?_⟩
  · simp only [List.length_cons, List.length_append] at hf ⊢; omega
  · rw [open_aux (str name) hne hall _ (attrsFrom_head ch _ 0 0x2f (0x3e :: rest) (by decide)) g acc,
      tokAttrs_list_slash ch _ (has.pick _) 0 rest _
        (by have := attrsFrom_length ch (pick ch.attrOrder as) 0; rw [List.length_append]; omega), hnm]
    rfl

theorem steps_close (name : String) (rest : Bytes) (hn : GoodName name) :
    Steps (0x3c :: 0x2f :: (str name ++ 0x3e :: rest)) rest [Ev.stop name] := by
  intro acc f hf
  obtain ⟨g, rfl⟩ : ∃ g, f = g + 1 := ⟨f - 1, by omega⟩
  obtain ⟨hne, hall, hnm⟩ := hn
  refine ⟨g, ?_, ?_⟩
  · simp only [List.length_cons, List.length_append] at hf ⊢; omega
  · have htd := takeWhile_name (str name) hall 0x3e rest (by decide)
    rw [tokLoop_close, htd.1, htd.2, dropWhile_ws_stop _ _ (by decide), hnm]
    rfl

/-! ### white space between elements -/

theorem tokText_lt (f : Nat) (r : Bytes) : tokText (f + 1) (0x3c :: r) = some ([], 0x3c :: r) := by
  rw [tokText]; rfl

theorem tokText_rep (c : UInt8) (hc : c = 0x20 ∨ c = 0x09) : ∀ (n : Nat) (r : Bytes) (f : Nat), n + 1 ≤ f →
    tokText f (List.replicate n c ++ 0x3c :: r) = some (List.replicate n c, 0x3c :: r) := by
  intro n
  induction n with
  | zero =>
    intro r f hf
    obtain ⟨g, rfl⟩ : ∃ g, f = g + 1 := ⟨f - 1, by omega⟩
    exact tokText_lt g r
  | succ n ih =>
    intro r f hf
    obtain ⟨g, rfl⟩ : ∃ g, f = g + 1 := ⟨f - 1, by omega⟩
    rw [List.replicate_succ, List.cons_append, tokText]
    rcases hc with rfl | rfl
    · rw [ih r g (by omega)]; rfl
    · rw [ih r g (by omega)]; rfl

theorem steps_indent (ch : Choices) (level : Nat) (r : Bytes) :
    Steps (indent ch level ++ 0x3c :: r) (0x3c :: r) (wsOf ch level) := by
  unfold indent wsOf
  by_cases h0 : ch.wsMode = 0
  · simp only [h0, if_true]
    intro acc f hf
    obtain ⟨g, rfl⟩ : ∃ g, f = g + 1 := ⟨f - 1, by omega⟩
    refine ⟨g, ?_, ?_⟩
    · simp only [List.length_cons, List.length_append] at hf ⊢; omega
    · rw [List.cons_append, tokLoop_text _ _ _ _ (by decide)]
      unfold textBody
      rw [tokText, tokText_rep 0x20 (Or.inl rfl) _ _ _ (by simp only [List.length_append, List.length_cons, List.length_replicate]; omega)]
      rfl
  · by_cases h1 : ch.wsMode = 1
    · simp only [h1, if_true]
      exact Steps.refl _
    · simp only [h0, h1, if_false]
      intro acc f hf
      obtain ⟨g, rfl⟩ : ∃ g, f = g + 1 := ⟨f - 1, by omega⟩
      refine ⟨g, ?_, ?_⟩
      · simp only [List.length_cons, List.length_append] at hf ⊢; omega
      · rw [List.cons_append, List.cons_append, tokLoop_text _ _ _ _ (by decide)]
        unfold textBody
        rw [tokText]
        simp only [List.head?_cons, List.tail_cons]
        rw [tokText_rep 0x09 (Or.inr rfl) _ _ _ (by simp only [List.length_append, List.length_cons, List.length_replicate]; omega)]
        rfl

/-! ### character data -/

theorem esc_nil_of (ch : Choices) (t : Bytes) (ht : XChars t) (h : esc ch 0 t = []) : t = [] := by
  have := tokText_esc ch t ht [] 2 (by rw [h]; simp)
  rw [h, List.nil_append, tokText_lt] at this
  simp only [Option.some.injEq, Prod.mk.injEq, and_true] at this
  exact this.symm

theorem esc_nil (ch : Choices) (q : UInt8) : esc ch q [] = [] := by
  unfold esc
  split
  · rfl
  · split
    · rfl
    · rfl

theorem steps_text (ch : Choices) (t : Bytes) (ht : XChars t) (r : Bytes) :
    Steps (esc ch 0 t ++ 0x3c :: r) (0x3c :: r) (if t.isEmpty then [] else [Ev.chars t]) := by
  cases he : esc ch 0 t with
  | nil =>
    have := esc_nil_of ch t ht he
    subst this
    exact Steps.refl _
  | cons c s =>
    have hne : t ≠ [] := by
      rintro rfl; rw [esc_nil] at he; cases he
    have hc : c ≠ 0x3c := esc_no_lt ch 0 t ht c (by rw [he]; simp)
    intro acc f hf
    obtain ⟨g, rfl⟩ : ∃ g, f = g + 1 := ⟨f - 1, by omega⟩
    refine ⟨g, ?_, ?_⟩
    · simp only [List.length_cons, List.length_append] at hf ⊢; omega
    · rw [List.cons_append, tokLoop_text _ _ _ _ hc]
      unfold textBody
      have := tokText_esc ch t ht r ((c :: (s ++ 0x3c :: r)).length + 1)
        (by rw [he]; simp only [List.length_cons, List.length_append]; omega)
      rw [he, List.cons_append] at this
      rw [this]
      have : t.isEmpty = false := by cases t with | nil => exact absurd rfl hne | cons _ _ => rfl
      simp only [this, Bool.false_eq_true, if_false]
      rfl

/-! ### elements -/

/-- `child`, followed by anything, is consumed and reported as `cev` -/
def ElSteps (child : Bytes) (cev : List Ev) : Prop := ∀ r, Steps (child ++ r) r cev

theorem flatten_steps {children : List Bytes} {cevs : List (List Ev)} (h : List.Forall₂ ElSteps children cevs) :
    ElSteps children.flatten cevs.flatten := by
  induction h with
  | nil => intro r; exact Steps.refl _
  | cons h1 _ ih =>
    intro r
    refine ((h1 _).trans (ih r)).cast ?_ ?_
    · simp [List.append_assoc]
    · simp

/-- an element without its leading indentation -/
def elementCore (ch : Choices) (level : Nat) (name : String) (as : List (String × Bytes)) (children : List Bytes) : Bytes :=
  0x3c :: (str name ++ attrsBytes ch as) ++
  (if children.isEmpty then (if ch.expandEmpty then 0x3e :: 0x3c :: 0x2f :: (str name ++ [0x3e]) else [0x2f, 0x3e])
   else 0x3e :: children.flatten ++ indent ch level ++ 0x3c :: 0x2f :: (str name ++ [0x3e]))

theorem element_eq (ch : Choices) (level : Nat) (name : String) (as : List (String × Bytes)) (children : List Bytes) :
    element ch level name as children = indent ch level ++ elementCore ch level name as children := by
  simp [element, elementCore, List.append_assoc]

/-- the events of an element without those of its leading indentation -/
def coreEvs (ch : Choices) (wsE : Nat → List Ev) (level : Nat) (name : String) (as : List (String × Bytes))
    (children : List (List Ev)) : List Ev :=
  Ev.start name (pick ch.attrOrder as) ::
    ((if children.isEmpty then [] else children.flatten ++ wsE level) ++ [Ev.stop name])

theorem elEvs_eq (ch : Choices) (wsE : Nat → List Ev) (level : Nat) (name : String) (as : List (String × Bytes))
    (children : List (List Ev)) : elEvs ch wsE level name as children = wsE level ++ coreEvs ch wsE level name as children := rfl

theorem elementCore_steps (ch : Choices) (level : Nat) (name : String) (as : List (String × Bytes))
    (children : List Bytes) (cevs : List (List Ev)) (hn : GoodName name) (has : GoodAttrs as)
    (hc : List.Forall₂ ElSteps children cevs) :
    ElSteps (elementCore ch level name as children) (coreEvs ch (wsOf ch) level name as cevs) := by
  intro r
  unfold elementCore coreEvs
  cases hc with
  | nil =>
    simp only [List.isEmpty_nil, if_true]
    cases ch.expandEmpty
    · refine (steps_selfclose ch name as r hn has).cast ?_ ?_
      · simp [List.append_assoc]
      · simp
    · refine ((steps_open ch name as _ hn has).trans (steps_close name r hn)).cast ?_ ?_
      · simp [List.append_assoc]
      · simp
  | @cons c ce cs ces h1 h2 =>
    have hfl := flatten_steps (List.Forall₂.cons h1 h2)
    simp only [List.isEmpty_cons, Bool.false_eq_true, if_false]
    refine ((steps_open ch name as _ hn has).trans
      ((hfl _).trans ((steps_indent ch level _).trans (steps_close name r hn)))).cast ?_ ?_
    · simp [List.append_assoc]
    · simp

theorem elementCore_head (ch : Choices) (level : Nat) (name : String) (as : List (String × Bytes)) (children : List Bytes) :
    ∃ t, elementCore ch level name as children = 0x3c :: t := ⟨_, rfl⟩

theorem element_steps (ch : Choices) (level : Nat) (name : String) (as : List (String × Bytes))
    (children : List Bytes) (cevs : List (List Ev)) (hn : GoodName name) (has : GoodAttrs as)
    (hc : List.Forall₂ ElSteps children cevs) :
    ElSteps (element ch level name as children) (elEvs ch (wsOf ch) level name as cevs) := by
  intro r
  obtain ⟨t, ht⟩ := elementCore_head ch level name as children
  have h1 := elementCore_steps ch level name as children cevs hn has hc r
  have h2 := steps_indent ch level (t ++ r)
  rw [element_eq, elEvs_eq, List.append_assoc]
  rw [ht] at h1 ⊢
  exact h2.trans h1

end Osmium.XmlFmt.XmlSpec
