/-
PoolSM2Rank — progress of the destructor phase of osmium::thread::Pool as a ranking function
(C19).  From `dtorStart` on, every FAIR step of ANY thread strictly decreases the natural
number `rank c s`; hence every run of fair steps after `dtorStart` is finite (its length is
bounded by the rank of its first state).
-/
import Osmium.Lemmas.PoolSM2Base
import Osmium.Lemmas.PoolSM2Fair

namespace Osmium.Mon.CondVar

/-- a waiter that leaves the wait set takes no notification of another waiter with it -/
theorem numNotified_remove_le (cv : CondVar) (t : Tid) : (cv.remove t).numNotified ≤ cv.numNotified := by
  simp only [numNotified, remove]
  exact List.Sublist.countP_le List.filter_sublist

/-- a NOTIFIED waiter that leaves the wait set consumes its notification -/
theorem numNotified_remove_notified (cv : CondVar) (t : Tid) (h : (t, true) ∈ cv) :
    (cv.remove t).numNotified + 1 ≤ cv.numNotified := by
  induction cv with
  | nil => simp at h
  | cons a cv ih =>
    have hle := numNotified_remove_le cv t
    unfold numNotified remove at *
    rcases List.mem_cons.mp h with h | h
    · subst h
      rw [List.filter_cons_of_neg (by simp), List.countP_cons]
      simp only [if_true]
      omega
    · have := ih h
      rw [List.filter_cons, List.countP_cons]
      split
      · rw [List.countP_cons]; omega
      · split <;> omega

theorem mark_eq_self (cv : CondVar) (w : Tid) (h : w ∉ cv.keys) : cv.mark w = cv := by
  induction cv with
  | nil => rfl
  | cons a cv ih =>
    simp only [keys, List.map_cons, List.mem_cons, not_or] at h
    rw [mark_cons, ih h.2, if_neg (fun e => h.1 e.symm)]

/-- `notify_one` notifies at most one waiter -/
theorem numNotified_mark_le (cv : CondVar) (w : Tid) (h : cv.keys.Nodup) :
    (cv.mark w).numNotified ≤ cv.numNotified + 1 := by
  induction cv with
  | nil => simp [numNotified, mark]
  | cons a cv ih =>
    simp only [keys, List.map_cons, List.nodup_cons] at h
    have ih := ih h.2
    by_cases hb : a.1 = w
    · have : w ∉ keys cv := by rw [← hb]; exact h.1
      rw [mark_cons, mark_eq_self cv w this]
      unfold numNotified
      rw [List.countP_cons, List.countP_cons]
      simp only [hb, if_true]
      split <;> omega
    · rw [mark_cons]
      unfold numNotified at *
      rw [List.countP_cons, List.countP_cons]
      simp only [hb, if_false]
      omega

theorem numNotified_notifyOne_le (cv : CondVar) (c : Option Tid) (h : cv.keys.Nodup) :
    (cv.notifyOne c).numNotified ≤ cv.numNotified + 1 := by
  cases c with
  | none => simp [notifyOne]
  | some w => exact numNotified_mark_le cv w h

end Osmium.Mon.CondVar

namespace Osmium.PoolSM

open Osmium.Mon

/-! ## the components of the rank -/

/-- destructor part: `K = 11` per stop task still to be handed to push(), then one per join -/
def dr (N : Nat) : DPc → Nat → Nat
  | .notStarted, _ => 0
  | .pushing k, _ => 11 * (N - k) + N + 2
  | .joining, j => N - j + 1
  | .done, _ => 0

/-- the push() in progress of the destructor thread (`len` = current size of the queue) -/
def pr (max len : Nat) : QueueSM.Pc Task → Nat
  | .pushEntered _ => 10
  | .pushPolling _ => if max ≤ len then 9 else 7
  | .pushMustWait _ => 8
  | .pushReady _ => 6
  | _ => 0

/-- one worker: its place in `worker_thread()` and whether it is inside `wait()` -/
def wr (a : WPc) (p : QueueSM.Pc Task) : Nat :=
  match a with
  | .loop => if p = .popWaiting then 3 else 4
  | .got (some (.job _ _)) => 6
  | .got (some .stop) => 2
  | .got none => 5
  | .running _ _ => 5
  | .stopping => 1
  | .exited => 0

def wSum (wl : List Tid) (wpc : Tid → WPc) (pc : Tid → QueueSM.Pc Task) : Nat :=
  (wl.map fun w => wr (wpc w) (pc w)).sum

/-- The ranking function of the destructor phase: destructor progress + the push() of the
    destructor thread + 4 per queued element (a pop pays for the round trip of the worker) +
    pending notifications (consumed by `popRewait`) + the sum of the worker ranks. -/
def rank (c : Cfg) (s : State) : Nat :=
  dr c.workers.length s.dtor s.joined.length
    + pr c.qc.max s.q.items.length (s.q.pc s.dtorTid)
    + 4 * s.q.items.length
    + s.q.waiters.numNotified
    + wSum c.workers s.wpc s.q.pc

/-! ## the sum over the workers -/

theorem wSum_congr (wl : List Tid) (wpc wpc' : Tid → WPc) (pc pc' : Tid → QueueSM.Pc Task)
    (h : ∀ u ∈ wl, wr (wpc' u) (pc' u) = wr (wpc u) (pc u)) : wSum wl wpc' pc' = wSum wl wpc pc := by
  unfold wSum
  congr 1
  exact List.map_congr_left h

/-- changing the state of ONE worker changes the sum by exactly the difference -/
theorem wSum_update (wl : List Tid) (hnd : wl.Nodup) (t : Tid) (ht : t ∈ wl)
    (wpc wpc' : Tid → WPc) (pc pc' : Tid → QueueSM.Pc Task)
    (h : ∀ u ∈ wl, u ≠ t → wr (wpc' u) (pc' u) = wr (wpc u) (pc u)) :
    wSum wl wpc' pc' + wr (wpc t) (pc t) = wSum wl wpc pc + wr (wpc' t) (pc' t) := by
  induction wl with
  | nil => simp at ht
  | cons a wl ih =>
    rw [List.nodup_cons] at hnd
    unfold wSum at *
    simp only [List.map_cons, List.sum_cons]
    by_cases hat : a = t
    · subst hat
      have : (wl.map fun w => wr (wpc' w) (pc' w)) = wl.map fun w => wr (wpc w) (pc w) :=
        List.map_congr_left fun u hu =>
          h u (List.mem_cons_of_mem _ hu) (fun e => hnd.1 (e ▸ hu))
      rw [this]; omega
    · have hmem : t ∈ wl := by
        rcases List.mem_cons.mp ht with e | e
        · exact absurd e.symm hat
        · exact e
      have := ih hnd.2 hmem (fun u hu => h u (List.mem_cons_of_mem _ hu))
      have ha := h a (List.mem_cons_self ..) hat
      omega

theorem pr_mono (max len len' : Nat) (p : QueueSM.Pc Task) (h : len' ≤ len) :
    pr max len' p ≤ pr max len p := by
  unfold pr
  split <;> try omega
  split <;> split <;> omega

/-! ## invariants of the destructor phase -/

/-- after `dtorStart` only the destructor thread can be inside push() -/
theorem inv_onlyDtorPushes (c : Cfg) (s : State) (h : (machine c).Reachable s)
    (hd : s.dtor ≠ .notStarted) (t : Tid) (ht : t ≠ s.dtorTid) : QueueSM.inflight s.q t = [] := by
  rw [List.eq_nil_iff_forall_not_mem]
  intro x hx
  have hs := inv_noJobInflight c s h hd t x hx
  have hc := QueueSM.inflight_mem_called c.qc s.q (reachable_q c s h) (inv_inUse c s h) hx
  have := (inv_stops_called c s h).2.2 x hc hs
  have h1 := QueueSM.inflight_fst hx
  rw [this] at h1
  exact ht h1.symm

theorem pusher_is_dtor (c : Cfg) (s : State) (h : (machine c).Reachable s)
    (hd : s.dtor ≠ .notStarted) (t : Tid) (hp : QueueSM.carry t (s.q.pc t) ≠ []) : t = s.dtorTid := by
  by_contra hne
  exact hp (inv_onlyDtorPushes c s h hd t hne)

/-- the joiner joins every worker at most once -/
theorem inv_joined_sub (c : Cfg) : ∀ s, (machine c).Reachable s →
    s.joined.Nodup ∧ ∀ w ∈ s.joined, w ∈ c.workers := by
  apply Machine.invariant
  · simp [machine, init]
  · intro s e s' _ ih hst
    psm_cases e with hst <;> psm_frame ih
    simp_all

theorem joined_length_lt (c : Cfg) (s : State) (h : (machine c).Reachable s) (w : Tid)
    (hw : w ∈ c.workers) (hj : w ∉ s.joined) : s.joined.length < c.workers.length := by
  obtain ⟨h1, h2⟩ := inv_joined_sub c s h
  have : (w :: s.joined).length ≤ c.workers.length :=
    List.Nodup.length_le_of_subset (List.nodup_cons.mpr ⟨hj, h1⟩) (fun u hu => by
      rcases List.mem_cons.mp hu with e | e
      · exact e ▸ hw
      · exact h2 u e)
  simp only [List.length_cons] at this
  omega

/-! ## arithmetic of the components -/

theorem wr_not_waiting (a : WPc) (p p' : QueueSM.Pc Task) (h : p ≠ .popWaiting) (h' : p' ≠ .popWaiting) :
    wr a p' = wr a p := by
  unfold wr; split <;> simp [h, h']

theorem wr_le (a : WPc) (p : QueueSM.Pc Task) : wr a p ≤ 6 := by
  unfold wr; split <;> (try split) <;> omega

theorem wr_loop_le (p : QueueSM.Pc Task) : wr .loop p ≤ 4 := by
  simp only [wr]; split <;> omega

theorem wr_loop_idle : wr .loop (.idle : QueueSM.Pc Task) = 4 := rfl
theorem wr_loop_waiting : wr .loop (.popWaiting : QueueSM.Pc Task) = 3 := rfl

theorem wr_afterGot (r : Option Task) (p : QueueSM.Pc Task) : wr (afterGot r) p < wr (.got r) p := by
  rcases r with _ | (_ | _)
  · have := wr_loop_le p; simp only [afterGot]; simp only [wr] at this ⊢; omega
  · simp [afterGot, wr]
  · simp [afterGot, wr]

/-- a push() step of thread `t` leaves the worker sum alone -/
theorem wSum_setPc_push (wl : List Tid) (wpc : Tid → WPc) (pc : Tid → QueueSM.Pc Task) (t : Tid)
    (p : QueueSM.Pc Task) (h : pc t ≠ .popWaiting) (h' : p ≠ .popWaiting) :
    wSum wl wpc (setPc pc t p) = wSum wl wpc pc := by
  apply wSum_congr
  intro u _
  rw [setPc_apply]
  split
  · next e => subst e; exact wr_not_waiting _ _ _ h h'
  · rfl

/-- a consumer step of thread `t` does not change the push() rank of the destructor thread -/
theorem pr_setPc_le (max len : Nat) (pc : Tid → QueueSM.Pc Task) (t d : Tid) (p : QueueSM.Pc Task)
    (h : pr max len p = 0) : pr max len (setPc pc t p d) ≤ pr max len (pc d) := by
  rw [setPc_apply]
  split
  · omega
  · exact Nat.le_refl _

section worker
variable (wl : List Tid) (hnd : wl.Nodup) (t : Tid) (ht : t ∈ wl) (wpc : Tid → WPc)
  (pc : Tid → QueueSM.Pc Task) (a : WPc) (p : QueueSM.Pc Task)
include hnd ht

theorem wSum_worker : wSum wl (setPc wpc t a) (setPc pc t p) + wr (wpc t) (pc t) = wSum wl wpc pc + wr a p := by
  have := wSum_update wl hnd t ht wpc (setPc wpc t a) pc (setPc pc t p)
    (fun u _ hne => by rw [setPc_other _ _ _ _ hne, setPc_other _ _ _ _ hne])
  simpa using this

theorem wSum_worker_wpc : wSum wl (setPc wpc t a) pc + wr (wpc t) (pc t) = wSum wl wpc pc + wr a (pc t) := by
  have := wSum_update wl hnd t ht wpc (setPc wpc t a) pc pc
    (fun u _ hne => by rw [setPc_other _ _ _ _ hne])
  simpa using this

theorem wSum_worker_pc : wSum wl wpc (setPc pc t p) + wr (wpc t) (pc t) = wSum wl wpc pc + wr (wpc t) p := by
  have := wSum_update wl hnd t ht wpc wpc pc (setPc pc t p)
    (fun u _ hne => by rw [setPc_other _ _ _ _ hne])
  simpa using this

end worker

theorem dtor_rank_decreases (c : Cfg) (hnd : c.workers.Nodup) (s s' : State) (e : Ev)
    (h : (machine c).Reachable s) (hd : s.dtor ≠ .notStarted)
    (hst : (machine c).Step s e s') (hf : Fair c s e) : rank c s' < rank c s := by
  have hu := inv_inUse c s h
  have hq := reachable_q c s h
  have hpd := pusher_is_dtor c s h hd
  have hwn := (QueueSM.inv_waiters c.qc s.q hq).2
  have hwpc := inv_wpc c s h
  psm_cases e with hst
  all_goals simp only [rank, QueueSM.take_items, QueueSM.take_pc, QueueSM.take_waiters, List.length_tail,
    List.length_append, List.length_cons, List.length_nil, CondVar.numNotified_wait]
  -- pushEnter job (2)
  · exact absurd ‹_ ∧ _ ∧ _›.2.1 hd
  · exact absurd ‹_ ∧ _ ∧ _›.2.1 hd
  -- pushEnter stop (2)
  · rename_i t _ k hk hg hpc _
    obtain ⟨rfl, hg⟩ := hg
    rw [wSum_setPc_push _ _ _ _ _ (by simp [hpc]) (by simp)]
    simp only [setPc_same, pr, dr, hpc, hk]
    omega
  · rename_i t _ k hk hg hpc _
    obtain ⟨rfl, hg⟩ := hg
    rw [wSum_setPc_push _ _ _ _ _ (by simp [hpc]) (by simp)]
    simp only [setPc_same, pr, dr, hpc, hk]
    omega
  -- pushTest (3), pushSize (2), pushFullWaited, pushLocked: the thread is the destructor thread
  iterate 7
    · have hpc := ‹s.q.pc _ = _›
      have ht := hpd _ (by rw [hpc]; simp)
      subst ht
      have hno := CondVar.numNotified_notifyOne_le s.q.waiters
      simp only [Fair] at hf
      first
        | (simp_all; done)
        | (rw [wSum_setPc_push _ _ _ _ _ (by rw [hpc]; simp) (by simp)]
           simp only [setPc_same, pr, hpc]
           first
             | omega
             | (split <;> omega)
             | (have := hno ‹Option Tid› hwn; omega))
  -- popNow
  · rename_i t n r hw hg
    have hne : s.q.items ≠ [] := by
      have := hg.2.2.1; simp only [QueueSM.pred, hu] at this; simpa using this
    have hL := List.length_pos_iff.mpr hne
    have h1 := wSum_worker_wpc c.workers hnd t hw.1 s.wpc s.q.pc (.got (r.map (·.2)))
    rw [hw.2, hg.1, wr_loop_idle] at h1
    have h2 := wr_le (.got (r.map (·.2))) (.idle : QueueSM.Pc Task)
    have h3 := pr_mono c.qc.max s.q.items.length (s.q.items.length - 1) (s.q.pc s.dtorTid) (by omega)
    omega
  -- popBlock
  · rename_i t hw hg
    have h1 := wSum_worker_pc c.workers hnd t hw.1 s.wpc s.q.pc .popWaiting
    rw [hw.2, hg.1, wr_loop_idle, wr_loop_waiting] at h1
    have h3 := pr_setPc_le c.qc.max s.q.items.length s.q.pc t s.dtorTid .popWaiting rfl
    omega
  -- popWake
  · rename_i t n r hw hg
    have hne : s.q.items ≠ [] := by
      have := hg.2.2.2.1; simp only [QueueSM.pred, hu] at this; simpa using this
    have hL := List.length_pos_iff.mpr hne
    have h1 := wSum_worker c.workers hnd t hw.1 s.wpc s.q.pc (.got (r.map (·.2))) .idle
    rw [hw.2, hg.1, wr_loop_waiting] at h1
    have h2 := wr_le (.got (r.map (·.2))) (.idle : QueueSM.Pc Task)
    have h3 := pr_setPc_le c.qc.max (s.q.items.length - 1) s.q.pc t s.dtorTid .idle rfl
    have h4 := pr_mono c.qc.max s.q.items.length (s.q.items.length - 1) (s.q.pc s.dtorTid) (by omega)
    have h5 := CondVar.numNotified_remove_le s.q.waiters t
    omega
  -- popRewait: fair = the waiter was notified
  · rename_i t hw hg
    simp only [Fair] at hf
    have := CondVar.numNotified_remove_notified s.q.waiters t ((CondVar.notified_iff _ _).mp hf)
    omega
  -- workerGot
  · rename_i w b _ r hpc _
    have hw : w ∈ c.workers := by
      by_contra hn; rw [hwpc w hn] at hpc; exact absurd hpc (by simp)
    have h1 := wSum_worker_wpc c.workers hnd w hw s.wpc s.q.pc (afterGot r)
    have h2 := wr_afterGot r (s.q.pc w)
    rw [hpc] at h1
    omega
  -- taskRun
  · rename_i w id _ id' out hpc _
    have hw : w ∈ c.workers := by
      by_contra hn; rw [hwpc w hn] at hpc; exact absurd hpc (by simp)
    have h1 := wSum_worker_wpc c.workers hnd w hw s.wpc s.q.pc .loop
    have h2 := wr_loop_le (s.q.pc w)
    rw [hpc] at h1
    simp only [wr] at h1 h2
    omega
  -- workerExit
  · rename_i w hpc
    have hw : w ∈ c.workers := by
      by_contra hn; rw [hwpc w hn] at hpc; exact absurd hpc (by simp)
    have h1 := wSum_worker_wpc c.workers hnd w hw s.wpc s.q.pc .exited
    rw [hpc] at h1
    simp only [wr] at h1
    omega
  -- dtorStart
  · exact absurd ‹_ ∧ _ ∧ _›.1 hd
  -- dtorPushed
  · rename_i d hg
    simp only [hg.1, dr]
    omega
  -- dtorJoin
  · rename_i d w hg
    have := joined_length_lt c s h w hg.2.2.1 hg.2.2.2.2
    simp only [hg.1, dr]
    omega
  -- dtorDone
  · rename_i d hg
    simp only [hg.1, dr]
    omega
  -- futureGet is not a step of the pool
  · exact hf.elim

/-! ## consequence: runs of fair steps after `dtorStart` are finite -/

/-- the destructor phase is never left -/
theorem dtor_started_step (c : Cfg) (s s' : State) (e : Ev) (hd : s.dtor ≠ .notStarted)
    (hst : (machine c).Step s e s') : s'.dtor ≠ .notStarted := by
  psm_cases e with hst <;> simp_all

/-- `FairRun c s es s'`: the events `es` are consecutive fair steps of the pool from `s` to `s'` -/
inductive FairRun (c : Cfg) : State → List Ev → State → Prop
  | nil (s : State) : FairRun c s [] s
  | cons {s s' s'' : State} {e : Ev} {es : List Ev} :
      (machine c).Step s e s' → Fair c s e → FairRun c s' es s'' → FairRun c s (e :: es) s''

theorem FairRun.reachable {c : Cfg} {s s' : State} {es : List Ev} (hr : FairRun c s es s')
    (h : (machine c).Reachable s) : (machine c).Reachable s' := by
  induction hr with
  | nil => exact h
  | cons hst _ _ ih => exact ih (.step h hst)

theorem FairRun.dtor_started {c : Cfg} {s s' : State} {es : List Ev} (hr : FairRun c s es s')
    (hd : s.dtor ≠ .notStarted) : s'.dtor ≠ .notStarted := by
  induction hr with
  | nil => exact hd
  | cons hst _ _ ih => exact ih (dtor_started_step c _ _ _ hd hst)

/-- Every run of fair steps (of any threads, in any interleaving) that starts in a reachable
    state of the destructor phase pays one unit of `rank` per step … -/
theorem fair_run_rank (c : Cfg) (hnd : c.workers.Nodup) (s s' : State) (es : List Ev)
    (h : (machine c).Reachable s) (hd : s.dtor ≠ .notStarted) (hr : FairRun c s es s') :
    es.length + rank c s' ≤ rank c s := by
  induction hr with
  | nil => simp
  | cons hst hf _ ih =>
    have h1 := dtor_rank_decreases c hnd _ _ _ h hd hst hf
    have h2 := ih (.step h hst) (dtor_started_step c _ _ _ hd hst)
    simp only [List.length_cons]
    omega

/-- … so it has at most `rank c s` steps: after `dtorStart` the pool cannot run forever unless
    push() keeps timing out on a full queue or consumers keep waking up spuriously. -/
theorem fair_run_length_le (c : Cfg) (hnd : c.workers.Nodup) (s s' : State) (es : List Ev)
    (h : (machine c).Reachable s) (hd : s.dtor ≠ .notStarted) (hr : FairRun c s es s') :
    es.length ≤ rank c s := by
  have := fair_run_rank c hnd s s' es h hd hr
  omega

end Osmium.PoolSM
