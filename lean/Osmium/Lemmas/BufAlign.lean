/-
C04: the alignment invariant (buf_inv, second half).

`add_padding` pads by the size FIELD of the builder's item, so `written` stays a multiple of 8 only
if every open list builder's size field is congruent (mod 8) to the number of bytes actually written
since the item's start.  `AInv` states this for all open frames together with the alignment of the
counters and capacities; this file shows that every primitive step of the builders preserves it —
whether or not the step list ends in buffer_is_full.
-/
import Osmium.Lemmas.BufBytes

namespace Osmium.Buf

open Osmium.Layout

/-- invariant of the open builders `st` (top first) over the uncommitted bytes `p`; `ub` bounds the
    item offsets from above (the next frame's offset, `p.length` for the top):
    * item offsets are multiples of 8, descend by at least 8, headers lie inside `p`,
    * the object builder, if any, is the bottom frame,
    * for every LIST builder: size field ≡ bytes written since the item start (mod 8),
    * a saved pointer (m_comment / member) points behind the item header. -/
def FramesOK (p : Pend) : Nat → List Frame → Prop
  | _, [] => True
  | ub, f :: rest =>
    f.off % 8 = 0 ∧ f.off + 8 ≤ ub ∧
    (f.kind.isObj = true → rest = []) ∧
    (f.kind.isObj = false → u32At p f.off % 8 = (p.length - f.off) % 8) ∧
    (∀ e o, f.ptr = some (e, o) → f.off + 8 ≤ o) ∧
    FramesOK p f.off rest

/-- no builder open, or an object builder on top (all its sub-builders closed): `written` is aligned -/
def TopOK (st : List Frame) (len : Nat) : Prop :=
  match st with
  | [] => len % 8 = 0
  | f :: _ => f.kind.isObj = true → len % 8 = 0

def PInv (st : List Frame) (p : Pend) : Prop := FramesOK p p.length st ∧ TopOK st p.length

structure AInv (s : St) : Prop where
  bounds : s.Bounds
  c0 : s.b0.committed % 8 = 0
  cap0 : s.b0.cap % 8 = 0
  a1 : s.b1.Aligned
  cap1 : s.b1.cap % 8 = 0
  pinv : PInv s.stack s.b0.pend

theorem framesOK_desc (p : Pend) (ub : Nat) (st : List Frame) (h : FramesOK p ub st) : Desc ub (offsOf st) := by
  induction st generalizing ub with
  | nil => trivial
  | cons f rest ih => exact ⟨h.2.1, ih _ h.2.2.2.2.2⟩

theorem framesOK_mono (p : Pend) (ub ub' : Nat) (st : List Frame) (h : FramesOK p ub st) (hle : ub ≤ ub') :
    FramesOK p ub' st := by
  cases st with
  | nil => trivial
  | cons f rest => exact ⟨h.1, Nat.le_trans h.2.1 hle, h.2.2.1, h.2.2.2.1, h.2.2.2.2.1, h.2.2.2.2.2⟩

theorem framesOK_mem (p : Pend) (ub : Nat) (st : List Frame) (h : FramesOK p ub st) :
    ∀ f ∈ st, f.off + 8 ≤ ub := by
  induction st generalizing ub with
  | nil => intro f hf; cases hf
  | cons g rest ih =>
    intro f hf
    rcases List.mem_cons.1 hf with rfl | hf'
    · exact h.2.1
    · have := ih _ h.2.2.2.2.2 f hf'; have := h.2.1; omega

/-- the bytes changed so that the length grew by `k` and every list frame's size field grew by `k`
    (mod 8): the frame invariant carries over -/
theorem framesOK_of_cong (st : List Frame) (p q : Pend) (ub k : Nat) (hlen : q.length = p.length + k)
    (hle : ub ≤ p.length)
    (hu : ∀ f ∈ st, f.kind.isObj = false → u32At q f.off % 8 = (u32At p f.off + k) % 8)
    (h : FramesOK p ub st) : FramesOK q ub st := by
  induction st generalizing ub with
  | nil => trivial
  | cons f rest ih =>
    obtain ⟨h1, h2, h3, h4, h5, h6⟩ := h
    refine ⟨h1, h2, h3, ?_, h5, ih _ (by omega) (fun g hg => hu g (List.mem_cons_of_mem _ hg)) h6⟩
    intro hk
    rw [hu f List.mem_cons_self hk, hlen]
    have := h4 hk
    omega

theorem framesOK_setTopPtr (p : Pend) (ub : Nat) (st : List Frame) (ptr : Option (Nat × Nat))
    (hp : ∀ f rest e o, st = f :: rest → ptr = some (e, o) → f.off + 8 ≤ o) (h : FramesOK p ub st) :
    FramesOK p ub (setTopPtr st ptr) := by
  cases st with
  | nil => trivial
  | cons f rest =>
    obtain ⟨h1, h2, h3, h4, h5, h6⟩ := h
    exact ⟨h1, h2, h3, h4, fun e o he => hp f rest e o rfl he, h6⟩

theorem topOK_setTopPtr (st : List Frame) (ptr : Option (Nat × Nat)) (len : Nat) (h : TopOK st len) :
    TopOK (setTopPtr st ptr) len := by
  cases st <;> exact h

theorem offsOf_setTopPtr (st : List Frame) (ptr : Option (Nat × Nat)) : offsOf (setTopPtr st ptr) = offsOf st := by
  cases st <;> simp [setTopPtr, offsOf]

theorem offsOf_sig (st : List Frame) : offsOf st = (frameSig st).map (·.1) := by
  simp [offsOf, frameSig]

/-! ### per-micro invariance, relative to the signature (offsets, kinds) of the open builders -/

def BaseAOK (sig : List (Nat × Kind)) : Micro → Prop
  | .alloc n save g => ∀ (st : List Frame) (p : Pend) (x : UInt8) (ep : Nat), frameSig st = sig → PInv st p →
      PInv (if save then setTopPtr st (some (ep, p.length)) else st) (g p.length (p ++ List.replicate (n p) x))
  | .upd g => ∀ (st : List Frame) (p : Pend), frameSig st = sig → PInv st p → PInv st (g p)
  | .deref keep g => ∀ (st : List Frame) (p : Pend) (e o : Nat), frameSig st = sig →
      (∃ f rest, st = f :: rest ∧ f.ptr = some (e, o)) → PInv st p →
      PInv (if keep then st else setTopPtr st none) (g o p)
  | .finish _ => True

def Micro.AOK (sig : List (Nat × Kind)) : Micro → Prop
  | .finish offs => ∀ m ∈ mCommentText offs [], BaseAOK sig m
  | m => BaseAOK sig m

theorem reserve_cap_mod (n : Nat) (b b' : Buf) (hc : b.cap % 8 = 0) (h : reserve n b = .ok b') : b'.cap % 8 = 0 := by
  unfold reserve at h
  split at h
  · split at h
    · cases h
    · injection h with h; subst h
      simp only [extend, growFor, grow, growInternal]
      split <;> split <;> (try split) <;> simp [calcCap_mod, hc]
  · injection h with h; subst h; simpa [extend] using hc

/-- the state invariant together with "the builder stack still has signature `sig`" -/
def AInvSig (sig : List (Nat × Kind)) (s : St) : Prop := AInv s ∧ frameSig s.stack = sig

theorem execBase_ainv (sig : List (Nat × Kind)) (s s' : St) (m : Micro) (hq : BaseAOK sig m ∧ m.LP)
    (hs : AInvSig sig s) (h : execBase s m = .ok s') : AInvSig sig s' := by
  obtain ⟨ha, hsig⟩ := hs
  obtain ⟨hq, hlp⟩ := hq
  have hb' : s'.Bounds := execBase_bounds s s' m hlp ha.bounds h
  cases m with
  | alloc n save g =>
    simp only [execBase] at h
    split at h
    · cases h
    · rename_i b' hr
      injection h with h
      subst h
      have ab := alloc_abs _ _ _ (g s.b0.pend.length) (hlp _) ha.bounds.1 hr
      have hcm := reserve_committed _ _ _ hr
      have hcap := reserve_cap_mod _ _ _ ha.cap0 hr
      have hp := hq s.stack s.b0.pend s.b0.fill ((b'.onPend (g s.b0.pend.length)).epoch) hsig ha.pinv
      refine ⟨⟨hb', ?_, ?_, ha.a1, ha.cap1, ?_⟩, ?_⟩
      · simp only [Buf.onPend]; rcases hcm with hc | hc <;> rw [hc]; exact ha.c0
      · simpa [Buf.onPend] using hcap
      · simp only []; rw [ab.1]; exact hp
      · simp only []; split
        · rw [frameSig_setTopPtr]; exact hsig
        · exact hsig
  | upd g =>
    simp only [execBase] at h
    injection h with h; subst h
    refine ⟨⟨hb', ha.c0, ha.cap0, ha.a1, ha.cap1, ?_⟩, hsig⟩
    simp only []
    rw [onPend_pend _ _ ha.bounds.1.1]
    exact hq s.stack s.b0.pend hsig ha.pinv
  | deref keep g =>
    simp only [execBase] at h
    split at h
    · cases h
    · rename_i f rest hst
      split at h
      · cases h
      · rename_i e o hp
        split at h
        · injection h with h; subst h
          have hpi := hq s.stack s.b0.pend e o hsig ⟨f, rest, hst, hp⟩ ha.pinv
          refine ⟨⟨hb', ha.c0, ha.cap0, ha.a1, ha.cap1, ?_⟩, ?_⟩
          · simp only []; rw [onPend_pend _ _ ha.bounds.1.1]; exact hpi
          · simp only []; split
            · exact hsig
            · rw [frameSig_setTopPtr]; exact hsig
        · cases h
  | finish offs =>
    simp only [execBase] at h; injection h with h; subst h; exact ⟨ha, hsig⟩

theorem execMicro_ainv (sig : List (Nat × Kind)) (s s' : St) (m : Micro) (hq : m.AOK sig ∧ m.LP)
    (hs : AInvSig sig s) (h : execMicro s m = .ok s') : AInvSig sig s' := by
  cases m with
  | finish offs =>
    rcases execMicro_finish s s' offs h with rfl | rfl
    · exact hs
    · exact execList_inv execBase (AInvSig sig) (fun m => BaseAOK sig m ∧ m.LP)
        (fun s s' m hq hp h => execBase_ainv sig s s' m hq hp h) _ s
        (fun m hm => ⟨hq.1 m hm, allLP_mCommentText _ _ m hm⟩) hs
  | alloc n save g => simp only [execMicro] at h; exact execBase_ainv sig s s' (.alloc n save g) ⟨hq.1, hq.2⟩ hs h
  | upd g => simp only [execMicro] at h; exact execBase_ainv sig s s' (.upd g) ⟨hq.1, hq.2⟩ hs h
  | deref keep g => simp only [execMicro] at h; exact execBase_ainv sig s s' (.deref keep g) ⟨hq.1, hq.2⟩ hs h

def AllAOK (sig : List (Nat × Kind)) (ms : List Micro) : Prop := ∀ m ∈ ms, m.AOK sig

/-- a micro program whose steps are all invariant-preserving leaves the invariant intact, also when
    it stops early with an error -/
theorem execMicros_ainv (sig : List (Nat × Kind)) (ms : List Micro) (s : St) (hq : AllAOK sig ms) (hlp : AllLP ms)
    (hs : AInvSig sig s) : AInvSig sig (execMicros s ms).1 :=
  execList_inv execMicro (AInvSig sig) (fun m => m.AOK sig ∧ m.LP)
    (fun s s' m hq hp h => execMicro_ainv sig s s' m hq hp h) ms s (fun m hm => ⟨hq m hm, hlp m hm⟩) hs

end Osmium.Buf
