import Osmium.Lemmas.PipelineCompleteN1
import Osmium.Lemmas.PipelineCompleteN2

set_option linter.unusedSimpArgs false
set_option linter.unusedVariables false

namespace Osmium.Pipeline
open Osmium.Mon
variable {α : Type} [DecidableEq α]
namespace Complete

set_option maxHeartbeats 1600000 in
theorem invN4 (c : Cfg α) : ∀ s, (machine c).Reachable s → InvN4 s := by
  apply Machine.invariant
  · constructor <;> simp [machine, init, QueueSM.init]
  · intro s e s' hr ih hst
    have hr1 := (invN1 c s hr).n_rpc
    have hp1 := (invN2 c s hr).n_ppc
    have hw1 := (invN2 c s hr).n_wpc
    obtain ⟨h1⟩ := ih
    pc_cases e with hst
    all_goals (refine ⟨?_⟩ <;> first
      | assumption
      | (simp_all [setPc_apply, pCont, rCont]; done)
      | (simp only [setPc_apply, QueueSM.take_called, pCont, rCont]; grind)
      | skip)

end Complete
end Osmium.Pipeline
