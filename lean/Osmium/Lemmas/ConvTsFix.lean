/-
Lemmas for C13, timestamp part, proposed fixes: the repaired variants `parseTimestampV` /
`timestampOfStringV` (leap-year check, 32-bit range check) coincide with the current code when the
fixes are off, keep the round trip `parse (toIsoAll t) = t` for every 32-bit timestamp, accept
exactly the real calendar dates (leap fix) and never truncate (range fix).

All statements about `parseTimestamp` / `parseTimestampV` are first proved over an opaque string
and then instantiated by `rw` (see the note in ConvTs.lean).
-/
import Osmium.Lemmas.ConvTs

namespace Osmium.Conv

/-! ### generic glue over an opaque string -/

theorem isLeapYear_eq_isLeap (y : Nat) : isLeapYear y = isLeap y := rfl

/-- `parseTimestampV` in terms of the projections of `tsDateFields` -/
theorem parseTimestampV_eq (leapFix : Bool) (s : List UInt8) :
    parseTimestampV leapFix s =
      match parseTimestamp s with
      | .error e => .error e
      | .ok r =>
        if leapFix && (tsDateFields s).2.1 == 2 && (tsDateFields s).2.2 == 29 &&
            !isLeapYear (tsDateFields s).1 then .error .invalidArgument else .ok r := by
  unfold parseTimestampV
  generalize parseTimestamp s = p
  generalize tsDateFields s = f
  rcases f with ⟨y, mo, d⟩
  cases p <;> rfl

theorem parseTimestampV_of_parse (leapFix : Bool) (s : List UInt8) (r : Int × List UInt8)
    (h : parseTimestamp s = .ok r) :
    parseTimestampV leapFix s =
      if leapFix && (tsDateFields s).2.1 == 2 && (tsDateFields s).2.2 == 29 &&
          !isLeapYear (tsDateFields s).1 then .error .invalidArgument else .ok r := by
  rw [parseTimestampV_eq, h]

theorem parseTimestampV_of_error (leapFix : Bool) (s : List UInt8) (e : Err)
    (h : parseTimestamp s = .error e) : parseTimestampV leapFix s = .error e := by
  rw [parseTimestampV_eq, h]

theorem parseTimestampV_false (s : List UInt8) : parseTimestampV false s = parseTimestamp s := by
  rw [parseTimestampV_eq]
  generalize parseTimestamp s = p
  cases p <;> simp

theorem timestampOfStringV_false (s : List UInt8) :
    timestampOfStringV false false s = timestampOfString s := by
  unfold timestampOfStringV timestampOfString
  rw [parseTimestampV_false]
  generalize parseTimestamp s = p
  rcases p with e | ⟨t, r⟩ <;> simp

theorem timestampOfStringV_of_parse (leapFix rangeFix : Bool) (s r : List UInt8) (t : Int)
    (h : parseTimestampV leapFix s = .ok (t, r)) :
    timestampOfStringV leapFix rangeFix s =
      if rangeFix && (t < 0 || t > 4294967295) then .error .invalidArgument else .ok (toU32 t) := by
  unfold timestampOfStringV
  rw [h]

theorem toU32_of_range (t : Int) (h0 : 0 ≤ t) (h1 : t ≤ 4294967295) : toU32 t = t.toNat := by
  unfold toU32
  rw [Int.emod_eq_of_lt h0 (by omega)]

/-! ### the date fields of a rendered timestamp -/

theorem tsDateFields_fmt (y mo d : Nat) (hy : y ≤ 9999) (hmo : mo ≤ 99) (hd : d ≤ 99)
    (tail : List UInt8) :
    tsDateFields (fmt4 y ++ [cMinus] ++ fmt2 mo ++ [cMinus] ++ fmt2 d ++ tail) = (y, mo, d) := by
  have e4 : digitVal (digitChar (y / 1000)) * 1000 + digitVal (digitChar (y / 100 % 10)) * 100 +
      digitVal (digitChar (y / 10 % 10)) * 10 + digitVal (digitChar (y % 10)) = y := by
    simp only [digitVal_digitChar]; omega
  have e2 : ∀ v, v ≤ 99 → digitVal (digitChar (v / 10)) * 10 + digitVal (digitChar (v % 10)) = v := by
    intro v hv; simp only [digitVal_digitChar]; omega
  cases tail <;>
    simp only [fmt4, fmt2, List.cons_append, List.nil_append, List.append_nil, tsDateFields, e4,
      e2 _ hmo, e2 _ hd]

theorem tsDateFields_fmt_full (y mo d h mi s : Nat) (hy : y ≤ 9999) (hmo : mo ≤ 99) (hd : d ≤ 99)
    (rest : List UInt8) :
    tsDateFields (fmt4 y ++ [cMinus] ++ fmt2 mo ++ [cMinus] ++ fmt2 d ++ [cT] ++ fmt2 h ++
        [cColon] ++ fmt2 mi ++ [cColon] ++ fmt2 s ++ [cZ] ++ rest) = (y, mo, d) := by
  have := tsDateFields_fmt y mo d hy hmo hd
    ([cT] ++ fmt2 h ++ [cColon] ++ fmt2 mi ++ [cColon] ++ fmt2 s ++ [cZ] ++ rest)
  simpa only [List.append_assoc] using this

theorem tsDateFields_toIsoAll (t : Nat) (ht : t < 4294967296) (rest : List UInt8) :
    tsDateFields (toIsoAll t ++ rest) = civilFromDays (t / 86400) := by
  have hz : t / 86400 ≤ 49710 := by omega
  have hf := civilFromDays_fields _ hz
  rcases hc : civilFromDays (t / 86400) with ⟨y, m, d⟩
  rw [hc] at hf
  simp only [] at hf
  obtain ⟨hy1, hy2, hm1, hm2, hd1, hd2⟩ := hf
  have hd3 := monLengths_le (m - 1)
  have hg : gmtime t = (y, m, d, t % 86400 / 3600, t % 86400 % 3600 / 60, t % 86400 % 60) := by
    simp only [gmtime, hc]
  rw [toIsoAll_eq, hg]
  simp only []
  exact tsDateFields_fmt_full y m d _ _ _ (by omega) (by omega) (by omega) rest

/-! ### February 29 -/

/-- the leap-year check never fires on a real calendar date -/
theorem leapCheck_false_of_real (y m d : Nat) (h : d ≤ daysInMonth y m) :
    (m == 2 && d == 29 && !isLeapYear y) = false := by
  rw [isLeapYear_eq_isLeap]
  by_cases hm : m = 2
  · subst hm
    by_cases hd : d = 29
    · subst hd
      cases hl : isLeap y
      · simp [daysInMonth, hl] at h
      · simp
    · simp [hd]
  · simp [hm]

/-- `mon_lengths` plus the leap-year check is the real month length -/
theorem monLengths_leapCheck_iff (y mo d : Nat) (hm1 : 1 ≤ mo) (hm : mo ≤ 12) :
    (d ≤ monLengths.getD (mo - 1) 0 ∧ (mo == 2 && d == 29 && !isLeapYear y) = false)
      ↔ d ≤ daysInMonth y mo := by
  rw [isLeapYear_eq_isLeap]
  have hc : mo = 1 ∨ mo = 2 ∨ mo = 3 ∨ mo = 4 ∨ mo = 5 ∨ mo = 6 ∨ mo = 7 ∨ mo = 8 ∨ mo = 9 ∨
      mo = 10 ∨ mo = 11 ∨ mo = 12 := by omega
  rcases hc with h | h | h | h | h | h | h | h | h | h | h | h <;> subst h
  case inr.inl =>
    cases hl : isLeap y <;> simp [daysInMonth, monLengths, hl] <;> omega
  all_goals simp [daysInMonth, monLengths]

/-! ### the round trip survives both fixes -/

theorem ts_roundtrip_fixed (leapFix rangeFix : Bool) (t : Nat) (ht : t < 4294967296)
    (rest : List UInt8) :
    parseTimestampV leapFix (toIsoAll t ++ rest) = .ok ((t : Int), rest) ∧
      timestampOfStringV leapFix rangeFix (toIsoAll t ++ rest) = .ok t := by
  have hp : parseTimestampV leapFix (toIsoAll t ++ rest) = .ok ((t : Int), rest) := by
    rw [parseTimestampV_of_parse leapFix _ _ (ts_roundtrip t ht rest),
      tsDateFields_toIsoAll t ht rest]
    have hreal := civilFromDays_real (t / 86400)
    rcases hc : civilFromDays (t / 86400) with ⟨y, m, d⟩
    rw [hc] at hreal
    simp only [] at hreal
    have hl := leapCheck_false_of_real y m d hreal.2.2.2
    simp only [Bool.and_assoc] at hl ⊢
    rw [hl]
    simp
  refine ⟨hp, ?_⟩
  rw [timestampOfStringV_of_parse leapFix rangeFix _ _ _ hp, toU32_of_lt t ht]
  have h1 : ¬ ((t : Int) < 0) := by omega
  have h2 : ¬ ((t : Int) > 4294967295) := by omega
  simp [h1, h2]

/-! ### the repaired parser accepts exactly the real calendar dates -/

theorem ts_parse_fixed_valid_fields (y mo d h mi s : Nat) (hy : y ≤ 9999) (hmo : mo ≤ 99)
    (hd : d ≤ 99) (hh : h ≤ 99) (hmi : mi ≤ 99) (hs : s ≤ 99) (rest : List UInt8) :
    parseTimestampV true (fmt4 y ++ [cMinus] ++ fmt2 mo ++ [cMinus] ++ fmt2 d ++ [cT] ++ fmt2 h ++
        [cColon] ++ fmt2 mi ++ [cColon] ++ fmt2 s ++ [cZ] ++ rest)
      = if 1900 ≤ y ∧ 1 ≤ mo ∧ mo ≤ 12 ∧ 1 ≤ d ∧ d ≤ daysInMonth y mo ∧ h ≤ 23 ∧
            mi ≤ 59 ∧ s ≤ 60 then .ok (timegm y mo d h mi s, rest)
        else .error .invalidArgument := by
  rw [parseTimestampV_eq, ts_parse_valid_fields y mo d h mi s hy hmo hd hh hmi hs rest,
    tsDateFields_fmt_full y mo d h mi s hy hmo hd rest]
  simp only []
  by_cases hm : 1 ≤ mo ∧ mo ≤ 12
  · have hiff := monLengths_leapCheck_iff y mo d hm.1 hm.2
    by_cases hc : 1900 ≤ y ∧ 1 ≤ mo ∧ mo ≤ 12 ∧ 1 ≤ d ∧ d ≤ monLengths.getD (mo - 1) 0 ∧ h ≤ 23 ∧
        mi ≤ 59 ∧ s ≤ 60
    · rw [if_pos hc]
      simp only [Bool.true_and]
      cases hl : (mo == 2 && d == 29 && !isLeapYear y)
      · have hdm := hiff.1 ⟨hc.2.2.2.2.1, hl⟩
        have hR : 1900 ≤ y ∧ 1 ≤ mo ∧ mo ≤ 12 ∧ 1 ≤ d ∧ d ≤ daysInMonth y mo ∧ h ≤ 23 ∧
            mi ≤ 59 ∧ s ≤ 60 := ⟨hc.1, hc.2.1, hc.2.2.1, hc.2.2.2.1, hdm, hc.2.2.2.2.2⟩
        simp [hR]
      · have hdm : ¬ d ≤ daysInMonth y mo := fun hdm => by
          have := (hiff.2 hdm).2
          rw [hl] at this
          exact Bool.noConfusion this
        have hR : ¬ (1900 ≤ y ∧ 1 ≤ mo ∧ mo ≤ 12 ∧ 1 ≤ d ∧ d ≤ daysInMonth y mo ∧ h ≤ 23 ∧
            mi ≤ 59 ∧ s ≤ 60) := fun hx => hdm hx.2.2.2.2.1
        simp [hR]
    · rw [if_neg hc]
      have : ¬ (1900 ≤ y ∧ 1 ≤ mo ∧ mo ≤ 12 ∧ 1 ≤ d ∧ d ≤ daysInMonth y mo ∧ h ≤ 23 ∧
          mi ≤ 59 ∧ s ≤ 60) := fun hx =>
        hc ⟨hx.1, hx.2.1, hx.2.2.1, hx.2.2.2.1, (hiff.2 hx.2.2.2.2.1).1, hx.2.2.2.2.2⟩
      rw [if_neg this]
  · rw [if_neg (fun hx => hm ⟨hx.2.1, hx.2.2.1⟩), if_neg (fun hx => hm ⟨hx.2.1, hx.2.2.1⟩)]

/-! ### with the range fix the constructor never truncates -/

theorem ts_string_fixed_range (leapFix : Bool) (s : List UInt8) (t : Int) (r : List UInt8)
    (h : parseTimestampV leapFix s = .ok (t, r)) :
    timestampOfStringV leapFix true s =
      if 0 ≤ t ∧ t ≤ 4294967295 then .ok t.toNat else .error .invalidArgument := by
  rw [timestampOfStringV_of_parse leapFix true s r t h]
  by_cases hr : 0 ≤ t ∧ t ≤ 4294967295
  · rw [if_pos hr, toU32_of_range t hr.1 hr.2]
    have h1 : ¬ (t < 0) := by omega
    have h2 : ¬ (t > 4294967295) := by omega
    simp [h1, h2]
  · rw [if_neg hr]
    have : t < 0 ∨ t > 4294967295 := by omega
    rcases this with h1 | h1 <;> simp [h1]

end Osmium.Conv
