/-
The writer invariant behind the unconditional block / file round trip: the items (rows) of the block under
construction are the serialized messages (dense rows) of the objects added so far and decode — under every
reader table that extends the block's growing string table — to the projected objects.
This file: the domain of one object, the per-block invariant `BlockInv` and its preservation by
`Block.addItem` / the dense add.
-/
import Osmium.Lemmas.PbfBlock
import Osmium.Lemmas.PbfDense3
import Osmium.Lemmas.PbfWriter

namespace Osmium.Pbf

open Osmium.Wire Osmium.Osm Osmium.PbfMsg
open Osmium.StringTable (Table lookup)

/-! ### domain -/

/-- strings of an object fit `osmium::max_osm_string_length` (256 * 4 bytes; the builders refuse longer ones
    and `decode_stringtable` rejects them) and are C strings (no NUL byte inside: `decode_stringtable` rejects
    entries with an embedded NUL since repair da64936) — `StrOk` -/
def MetaStrOk (m : Meta) : Prop :=
  StrOk m.user ∧ ∀ tg ∈ m.tags, StrOk tg.key ∧ StrOk tg.value

/-- the domain of the property for one object (PBF): ids int64, version / uid < 2^31, uint32 timestamp and
    changeset, int32 coordinates, member types node / way / relation, strings of at most 1024 bytes.
    Changesets are not written by the PBF output format at all (`project = none`). -/
def ObjInDomain : Object → Prop
  | .node m l => MetaInDomain m ∧ IdOk m.id ∧ LocOk l ∧ MetaStrOk m
  | .way m ns => MetaInDomain m ∧ IdOk m.id ∧ WayInDomain ns ∧ MetaStrOk m
  | .relation m ms => MetaInDomain m ∧ IdOk m.id ∧ RelInDomain ms ∧ MetaStrOk m ∧ ∀ x ∈ ms, StrOk x.role
  | .changeset .. => True

/-- every string of the table is short enough for `decode_stringtable` -/
def TabOk (t : Table) : Prop := ∀ s ∈ t.added, StrOk s

theorem tabOk_add (t : Table) (s : Bytes) (ht : TabOk t) (hs : StrOk s) : TabOk (t.add s).2 := by
  unfold Table.add
  split
  · exact ht
  · intro x hx
    simp only [List.mem_append, List.mem_cons, List.not_mem_nil, or_false] at hx
    rcases hx with hx | rfl
    · exact ht x hx
    · exact hs

theorem tabOk_addAll : ∀ (ss : List Bytes) (t : Table), TabOk t → (∀ s ∈ ss, StrOk s) → TabOk (t.addAll ss).2
  | [], _, ht, _ => ht
  | s :: ss, t, ht, hs => by
    simp only [Table.addAll]
    exact tabOk_addAll ss _ (tabOk_add t s ht (hs s (List.mem_cons_self ..))) (fun x hx => hs x (List.mem_cons_of_mem _ hx))

theorem encMeta_table (o : Opts) (t : Table) (m : Meta) :
    (encMeta o t m).2 =
      if (o.anyMeta || o.history) && o.mdUser
      then (((t.addAll (m.tags.map (·.key))).2.addAll (m.tags.map (·.value))).2.add m.user).2
      else ((t.addAll (m.tags.map (·.key))).2.addAll (m.tags.map (·.value))).2 := by
  unfold encMeta
  by_cases hc : (o.anyMeta || o.history) = true <;> by_cases hu : o.mdUser = true <;> simp [hc, hu]

theorem tabOk_encMeta (o : Opts) (t : Table) (m : Meta) (ht : TabOk t) (hm : MetaStrOk m) : TabOk (encMeta o t m).2 := by
  have h2 : TabOk ((t.addAll (m.tags.map (·.key))).2.addAll (m.tags.map (·.value))).2 :=
    tabOk_addAll _ _ (tabOk_addAll _ _ ht (fun s hs => by
      obtain ⟨tg, htg, rfl⟩ := List.mem_map.mp hs; exact (hm.2 tg htg).1)) (fun s hs => by
      obtain ⟨tg, htg, rfl⟩ := List.mem_map.mp hs; exact (hm.2 tg htg).2)
  rw [encMeta_table]
  split
  · exact tabOk_add _ _ h2 hm.1
  · exact h2

theorem Ext.length_le {S T : List (List UInt8)} (h : Ext S T) : S.length ≤ T.length := by
  cases hS : S.length with
  | zero => omega
  | succ n =>
    have hn : n < S.length := by omega
    have := h n S[n] (List.getElem?_eq_getElem hn)
    have := (List.getElem?_eq_some_iff.mp this).1
    omega

theorem Ext.size_le {t t' : Table} (h : Ext t.strings t'.strings) : t.size ≤ t'.size := by
  have := h.length_le
  simpa [Table.strings, Table.size] using this

theorem ext_encMeta (o : Opts) (t : Table) (m : Meta) : Ext t.strings (encMeta o t m).2.strings := by
  obtain ⟨_, _, _, _, _, _, _, _, _, _, h⟩ := encMeta_spec o t m
  exact h

/-! ### items of a plain group -/

theorem ItemsDec.append_one (k : Nat) (p : Params) : ∀ (pls : List Bytes) (obs : List Object) (pl : Bytes) (ob : Object),
    ItemsDec k p pls obs → withFields pl (decKind k p) = some ob → ItemsDec k p (pls ++ [pl]) (obs ++ [ob])
  | [], [], _, _, _, h => ⟨h, trivial⟩
  | [], _ :: _, _, _, h, _ => by simp [ItemsDec] at h
  | _ :: _, [], _, _, h, _ => by simp [ItemsDec] at h
  | q :: pls, x :: obs, pl, ob, h, h' => ⟨h.1, ItemsDec.append_one k p pls obs pl ob h.2 h'⟩

theorem ItemsDec.length_eq (k : Nat) (p : Params) : ∀ (pls : List Bytes) (obs : List Object),
    ItemsDec k p pls obs → pls.length = obs.length
  | [], [], _ => rfl
  | [], _ :: _, h => by simp [ItemsDec] at h
  | _ :: _, [], h => by simp [ItemsDec] at h
  | _ :: pls, _ :: obs, h => by simp [ItemsDec.length_eq k p pls obs h.2]

/-! ### dense rows -/

theorem RowsRep.append_one (o : Opts) (T : List Bytes) : ∀ (rs : List DenseRow) (ns : List (Meta × Location)) (r : DenseRow)
    (n : Meta × Location), RowsRep o T rs ns → RowRep o T r n.1 n.2 → MetaInDomain n.1 → IdOk n.1.id → LocOk n.2 →
    RowsRep o T (rs ++ [r]) (ns ++ [n])
  | [], [], _, _, _, h1, h2, h3, h4 => ⟨h1, h2, h3, h4, trivial⟩
  | [], _ :: _, _, _, h, _, _, _, _ => by simp [RowsRep] at h
  | _ :: _, [], _, _, h, _, _, _, _ => by simp [RowsRep] at h
  | q :: rs, x :: ns, r, n, h, h1, h2, h3, h4 =>
    ⟨h.1, h.2.1, h.2.2.1, h.2.2.2.1, RowsRep.append_one o T rs ns r n h.2.2.2.2 h1 h2 h3 h4⟩

theorem RowsRep.length_eq (o : Opts) (T : List Bytes) : ∀ (rs : List DenseRow) (ns : List (Meta × Location)),
    RowsRep o T rs ns → rs.length = ns.length
  | [], [], _ => rfl
  | [], _ :: _, h => by simp [RowsRep] at h
  | _ :: _, [], h => by simp [RowsRep] at h
  | _ :: rs, _ :: ns, h => by simp [RowsRep.length_eq o T rs ns h.2.2.2.2]

/-! ### the block under construction -/

/-- `b` holds exactly the objects whose projections are `dec` (oldest first) -/
structure BlockInv (o : Opts) (b : Block) (dec : List Object) : Prop where
  tab : TabOk b.table
  count : b.count = dec.length
  kind : b.kind = 1 ∨ b.kind = 2 ∨ b.kind = 3 ∨ b.kind = 4
  plain : b.kind ≠ 2 → ∃ pls : List Bytes,
    b.items.reverse = pls.map (fun pl => encodeField (fBytes b.kind pl)) ∧
    ∀ T, Ext b.table.strings T → b.table.size ≤ 2 ^ 31 → (∀ pl ∈ pls, pl.length < 2 ^ 32) →
      ItemsDec b.kind { strings := T } pls dec
  dense : b.kind = 2 → ∃ nodes : List (Meta × Location),
    dec = nodes.map (fun n => projNode o n.1 n.2) ∧ b.rows.length = nodes.length ∧
    ∀ T, Ext b.table.strings T → b.table.size ≤ 2 ^ 31 → RowsRep o T b.rows.reverse nodes

theorem blockInv_fresh (o : Opts) (k : Nat) (hk : k = 1 ∨ k = 2 ∨ k = 3 ∨ k = 4) : BlockInv o { kind := k } [] :=
  ⟨fun _ h => by simp at h, rfl, hk, fun _ => ⟨[], rfl, fun _ _ _ _ => trivial⟩, fun _ => ⟨[], rfl, rfl, fun _ _ _ => trivial⟩⟩

/-- `Block.addItem` with an item that decodes to `ob` under every table extending the new one -/
theorem blockInv_addItem (o : Opts) (b : Block) (dec : List Object) (fs : List Field) (t : Table) (ob : Object)
    (hb : BlockInv o b dec) (hk : b.kind ≠ 2) (htab : TabOk t) (hext : Ext b.table.strings t.strings)
    (hitem : ∀ T, Ext t.strings T → t.size ≤ 2 ^ 31 → (encodeFields fs).length < 2 ^ 32 →
      withFields (encodeFields fs) (decKind b.kind { strings := T }) = some ob) :
    BlockInv o (b.addItem fs t) (dec ++ [ob]) := by
  obtain ⟨pls, hpls, hdec⟩ := hb.plain hk
  refine ⟨htab, by simp [Block.addItem, hb.count], hb.kind, fun _ => ⟨pls ++ [encodeFields fs], ?_, ?_⟩, fun h => absurd h hk⟩
  · simp [Block.addItem, hpls]
  · intro T hT hsz hlen
    have hsz' : b.table.size ≤ 2 ^ 31 := Nat.le_trans (Ext.size_le hext) hsz
    exact ItemsDec.append_one _ _ _ _ _ _
      (hdec T (hext.trans hT) hsz' (fun pl hp => hlen pl (List.mem_append_left _ hp)))
      (hitem T hT hsz (hlen _ (List.mem_append_right _ (List.mem_singleton.mpr rfl))))

/-- the dense add: `DenseNodes::add_node` -/
theorem blockInv_addDense (o : Opts) (b : Block) (dec : List Object) (m : Meta) (l : Location)
    (hb : BlockInv o b dec) (hk : b.kind = 2) (hd : MetaInDomain m) (hid : IdOk m.id) (hl : LocOk l) (hs : MetaStrOk m) :
    BlockInv o { b with rows := (denseAdd o b.table m l).1 :: b.rows, table := (denseAdd o b.table m l).2, count := b.count + 1 }
      (dec ++ [projNode o m l]) := by
  obtain ⟨nodes, hnodes, hlen, hrep⟩ := hb.dense hk
  have e2 : (denseAdd o b.table m l).2 =
      ((if o.mdUser then b.table.add m.user else (0, b.table)).2.addAll (m.tags.flatMap fun tg => [tg.key, tg.value])).2 := rfl
  have hext : Ext b.table.strings (denseAdd o b.table m l).2.strings := by
    rw [e2]
    refine Ext.trans ?_ (ext_addAll _ _)
    split
    · exact ext_add _ _
    · exact Ext.refl _
  have htab : TabOk (denseAdd o b.table m l).2 := by
    rw [e2]
    refine tabOk_addAll _ _ ?_ ?_
    · split
      · exact tabOk_add _ _ hb.tab hs.1
      · exact hb.tab
    · intro s hs'
      obtain ⟨tg, htg, hx⟩ := List.mem_flatMap.mp hs'
      simp only [List.mem_cons, List.not_mem_nil, or_false] at hx
      rcases hx with rfl | rfl
      · exact (hs.2 tg htg).1
      · exact (hs.2 tg htg).2
  refine ⟨htab, by simp [hb.count], hb.kind, fun h => absurd hk h, fun _ => ⟨nodes ++ [(m, l)], by simp [hnodes], by simp [hlen], ?_⟩⟩
  intro T hT hsz
  simp only [List.reverse_cons]
  exact RowsRep.append_one o T _ _ _ (m, l)
    (hrep T (hext.trans hT) (Nat.le_trans (Ext.size_le hext) hsz)) (denseAdd_rep o b.table m l T hT hsz) hd hid hl

end Osmium.Pbf
