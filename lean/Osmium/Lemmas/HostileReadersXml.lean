/-
C03 — the XML reader (Model/XmlFmt.lean over all expat event sequences): every builder state it
commits has a user name, tag keys / values, roles and comment user names of at most
`max_osm_string_length` bytes, and — when the attribute values are C strings (`cEv`) and the
character data contains no NUL — no NUL byte in any string: invariant `GInv` over the event loop.
`delivered` (the recorded builder states) are exactly the objects `XmlFmt.read` returns
(`delivered_assemble`).
-/
import Osmium.Lemmas.HostileXmlUser
import Osmium.Model.HostileReaders
import Osmium.Lemmas.HostileGuards

namespace Osmium.HostileReaders

open Osmium.XmlFmt Osmium.Osm Osmium.TextFmt Osmium.HostileLayout Osmium.HostileXml

abbrev NN (s : List UInt8) : Prop := noNul s = true

theorem NN_nil : NN [] := by decide

theorem NN_append {a b : List UInt8} (ha : NN a) (hb : NN b) : NN (a ++ b) := by
  unfold NN noNul at *
  simp only [Bool.not_eq_true', List.contains_eq_mem, decide_eq_false_iff_not, List.mem_append, not_or] at *
  exact ⟨ha, hb⟩

def AttrsNN (attrs : List (String × List UInt8)) : Prop := ∀ a ∈ attrs, NN a.2

theorem attrsNN_tail {a : String × List UInt8} {as : List (String × List UInt8)} (h : AttrsNN (a :: as)) :
    NN a.2 ∧ AttrsNN as :=
  ⟨h a (List.mem_cons_self ..), fun x hx => h x (List.mem_cons_of_mem _ hx)⟩

/-- the event carries no NUL byte -/
def EvNN : Ev → Prop
  | .start _ attrs => AttrsNN attrs
  | .chars t => NN t
  | .stop _ => True

/-! ### C strings -/

theorem cstr_NN (l : List UInt8) : NN (Chunks.cstr l) := by
  unfold NN noNul
  simp only [Bool.not_eq_true', List.contains_eq_mem, decide_eq_false_iff_not]
  induction l with
  | nil => simp [Chunks.cstr]
  | cons x xs ih =>
    unfold Chunks.cstr
    by_cases hx : (x == 0) = true
    · rw [if_pos hx]; simp
    · rw [if_neg hx]
      simp only [List.mem_cons, not_or]
      refine ⟨?_, ih⟩
      intro h0
      exact hx (by simp [← h0])

theorem cAttrs_NN (attrs : List (String × List UInt8)) : AttrsNN (cAttrs attrs) := by
  intro a ha
  unfold cAttrs at ha
  obtain ⟨b, _, rfl⟩ := List.mem_map.mp ha
  exact cstr_NN _

/-- the events as the C callbacks see them carry no NUL, provided the character data has none -/
theorem cEv_NN (evs : List Ev) (h : CharsNoNul evs) : ∀ e ∈ evs.map cEv, EvNN e := by
  intro e he
  obtain ⟨e0, he0, rfl⟩ := List.mem_map.mp he
  cases e0 with
  | start n attrs => exact cAttrs_NN attrs
  | stop n => trivial
  | chars t => exact h t he0

/-! ### the invariant -/

/-- one block of the object under construction -/
def SubOk : Sub → Prop
  | .tags ts => ∀ t ∈ ts, StrOk t.key ∧ StrOk t.value
  | .nodes _ => True
  | .members ms => ∀ m ∈ ms, StrOk m.role
  | .discussion cs => ∀ c ∈ cs, StrOk c.user ∧ NN c.text

def CurOk (c : Cur) : Prop := StrOk (objUser c.obj) ∧ ∀ s ∈ c.subs, SubOk s

structure GInv (st : RSt) : Prop where
  cur : ∀ c, st.cur = some c → CurOk c
  text : NN st.commentText

theorem ginv_init : GInv {} := ⟨(fun c h => by cases h), NN_nil⟩

/-- `out` is left alone and (under the premise `A` on the event) the invariant is kept -/
def Pres (A : Prop) (st st' : RSt) : Prop := st'.out = st.out ∧ (A → GInv st → GInv st')

theorem pres_refl (A : Prop) (st : RSt) : Pres A st st := ⟨rfl, fun _ h => h⟩

theorem pres_trans {A : Prop} {a b c : RSt} (h1 : Pres A a b) (h2 : Pres A b c) : Pres A a c :=
  ⟨h2.1.trans h1.1, fun ha hi => h2.2 ha (h1.2 ha hi)⟩

theorem pres_push (A : Prop) (st : RSt) (c : Ctx) : Pres A st (push st c) := ⟨rfl, fun _ hi => ⟨hi.cur, hi.text⟩⟩

theorem pres_markDone (A : Prop) (st : RSt) : Pres A st (markDone st) := by
  unfold markDone; split
  · exact pres_refl A st
  · exact ⟨rfl, fun _ hi => ⟨hi.cur, hi.text⟩⟩

/-! ### sub-item bookkeeping -/

theorem mem_update_last {α : Type} {P : α → Prop} {l : List α} {x' : α}
    (hl : ∀ s ∈ l, P s) (hx : P x') : ∀ s ∈ l.dropLast ++ [x'], P s := by
  intro s hs
  rcases List.mem_append.mp hs with h | h
  · exact hl s (List.dropLast_subset _ h)
  · simp only [List.mem_singleton] at h; subst h; exact hx

theorem mem_append_one {α : Type} {P : α → Prop} {l : List α} {x' : α}
    (hl : ∀ s ∈ l, P s) (hx : P x') : ∀ s ∈ l ++ [x'], P s := by
  intro s hs
  rcases List.mem_append.mp hs with h | h
  · exact hl s h
  · simp only [List.mem_singleton] at h; subst h; exact hx

theorem getLast?_mem {α : Type} {l : List α} {x : α} (h : l.getLast? = some x) : x ∈ l :=
  List.mem_of_getLast? h

theorem addTag_ok (c : Cur) (t : Tag) (hc : CurOk c) (ht : StrOk t.key ∧ StrOk t.value) : CurOk (addTag c t) := by
  unfold addTag
  split
  · rename_i ts _ hl
    refine ⟨hc.1, mem_update_last hc.2 ?_⟩
    have := hc.2 _ (getLast?_mem hl)
    intro x hx
    rcases List.mem_append.mp hx with h | h
    · exact this x h
    · simp only [List.mem_singleton] at h; subst h; exact ht
  · refine ⟨hc.1, mem_append_one hc.2 ?_⟩
    intro x hx
    simp only [List.mem_singleton] at hx; subst hx; exact ht

theorem addNode_ok (c : Cur) (n : NodeRef) (hc : CurOk c) : CurOk (addNode c n) := by
  unfold addNode
  split
  · exact ⟨hc.1, mem_update_last hc.2 trivial⟩
  · exact ⟨hc.1, mem_append_one hc.2 trivial⟩

theorem addMember_ok (c : Cur) (m : Member) (hc : CurOk c) (hm : StrOk m.role) : CurOk (addMember c m) := by
  unfold addMember
  split
  · rename_i ms _ hl
    refine ⟨hc.1, mem_update_last hc.2 ?_⟩
    have := hc.2 _ (getLast?_mem hl)
    intro x hx
    rcases List.mem_append.mp hx with h | h
    · exact this x h
    · simp only [List.mem_singleton] at h; subst h; exact hm
  · refine ⟨hc.1, mem_append_one hc.2 ?_⟩
    intro x hx
    simp only [List.mem_singleton] at hx; subst hx; exact hm

theorem openDiscussion_ok (c : Cur) (hc : CurOk c) : CurOk (openDiscussion c) := by
  unfold openDiscussion
  split
  · exact hc
  · refine ⟨hc.1, mem_append_one hc.2 ?_⟩
    intro x hx; cases hx

theorem addComment_ok (c : Cur) (x : Comment) (hc : CurOk c) (hx : StrOk x.user ∧ NN x.text) :
    CurOk (XmlFmt.addComment c x) := by
  unfold XmlFmt.addComment
  split
  · rename_i cs hl
    refine ⟨hc.1, mem_update_last hc.2 ?_⟩
    have := hc.2 _ (getLast?_mem hl)
    intro y hy
    rcases List.mem_append.mp hy with h | h
    · exact this y h
    · simp only [List.mem_singleton] at h; subst h; exact hx
  · exact hc

theorem setCommentText_ok (c : Cur) (t : List UInt8) (hc : CurOk c) (ht : NN t) : CurOk (setCommentText c t) := by
  unfold setCommentText
  split
  · rename_i cs hl
    have hcs := hc.2 _ (getLast?_mem hl)
    split
    · rename_i x hx
      refine ⟨hc.1, mem_update_last hc.2 ?_⟩
      intro y hy
      rcases List.mem_append.mp hy with h | h
      · exact hcs y (List.dropLast_subset _ h)
      · simp only [List.mem_singleton] at h; subst h
        exact ⟨(hcs x (getLast?_mem hx)).1, ht⟩
    · exact hc
  · exact hc

/-! ### attribute loops -/

theorem lastAttr_NN (name : String) : ∀ (attrs : List (String × List UInt8)) (dflt : List UInt8),
    NN dflt → AttrsNN attrs → NN (lastAttr name attrs dflt)
  | [], dflt, hd, _ => by simpa [lastAttr] using hd
  | a :: as, dflt, hd, ha => by
    unfold lastAttr
    simp only [List.foldl_cons]
    have := attrsNN_tail ha
    split
    · exact lastAttr_NN name as a.2 this.1 this.2
    · exact lastAttr_NN name as dflt hd this.2

theorem getTag_ok (c : Cur) (attrs : List (String × List UInt8)) (c' : Cur) (h : getTag c attrs = .ok c')
    (ha : AttrsNN attrs) (hc : CurOk c) : CurOk c' := by
  unfold getTag at h
  simp only at h
  split at h
  · cases h
  · rename_i hl
    injection h with h; subst h
    simp only [Bool.or_eq_true, decide_eq_true_eq, not_or, Nat.not_lt] at hl
    refine addTag_ok _ _ hc ⟨⟨?_, lastAttr_NN _ _ _ NN_nil ha⟩, ⟨?_, lastAttr_NN _ _ _ NN_nil ha⟩⟩
    · simpa [OplFmt.maxString, maxStr] using hl.1
    · simpa [OplFmt.maxString, maxStr] using hl.2

theorem memberAttrs_role : ∀ (as : List (String × List UInt8)) (t : Nat) (r : Int) (s : Bool) (role : List UInt8)
    (res : Nat × Int × Bool × List UInt8), memberAttrs as t r s role = .ok res → NN role → AttrsNN as → NN res.2.2.2
  | [], t, r, s, role, res, h, hr, _ => by simp [memberAttrs] at h; subst h; exact hr
  | (n, v) :: as, t, r, s, role, res, h, hr, ha => by
    have hta := attrsNN_tail ha
    unfold memberAttrs at h
    split at h
    · exact memberAttrs_role as _ _ _ _ res h hr hta.2
    · split at h
      · rw [HostileXml.bindE_ok_iff] at h
        obtain ⟨x, _, h⟩ := h
        exact memberAttrs_role as _ _ _ _ res h hr hta.2
      · split at h
        · exact memberAttrs_role as _ _ _ _ res h hta.1 hta.2
        · exact memberAttrs_role as _ _ _ _ res h hr hta.2

theorem commentAttrs_ok : ∀ (as : List (String × List UInt8)) (c c' : Comment), commentAttrs as c = .ok c' →
    NN c.user → AttrsNN as → NN c'.user ∧ c'.text = c.text
  | [], c, c', h, hu, _ => by simp [commentAttrs] at h; subst h; exact ⟨hu, rfl⟩
  | (n, v) :: as, c, c', h, hu, ha => by
    have hta := attrsNN_tail ha
    unfold commentAttrs at h
    split at h
    · rw [HostileXml.bindE_ok_iff] at h
      obtain ⟨x, _, h⟩ := h
      exact commentAttrs_ok as { c with date := x } c' h hu hta.2
    · split at h
      · rw [HostileXml.bindE_ok_iff] at h
        obtain ⟨x, _, h⟩ := h
        exact commentAttrs_ok as { c with uid := x } c' h hu hta.2
      · split at h
        · exact commentAttrs_ok as { c with user := v } c' h hta.1 hta.2
        · exact commentAttrs_ok as c c' h hu hta.2

theorem initObjectAttrs_userNN : ∀ (as : List (String × List UInt8)) (obj : Object) (loc : Location) (user : List UInt8)
    (r : Object × Location × List UInt8), initObjectAttrs as obj loc user = .ok r → NN user → AttrsNN as → NN r.2.2
  | [], obj, loc, user, r, h, hu, _ => by simp [initObjectAttrs] at h; subst h; exact hu
  | (n, v) :: as, obj, loc, user, r, h, hu, ha => by
    have hta := attrsNN_tail ha
    have rec1 : ∀ obj' loc', initObjectAttrs as obj' loc' user = .ok r → NN r.2.2 :=
      fun obj' loc' e => initObjectAttrs_userNN as obj' loc' user r e hu hta.2
    have recB : ∀ {α : Type} (x : Except XErr α) (g : α → Object) (l : α → Location),
        (bindE x fun a => initObjectAttrs as (g a) (l a) user) = .ok r → NN r.2.2 := by
      intro α x g l e
      rw [HostileXml.bindE_ok_iff] at e
      obtain ⟨a, _, e⟩ := e
      exact rec1 _ _ e
    unfold initObjectAttrs at h
    by_cases h1 : n = "lon"
    · rw [if_pos h1] at h; exact recB _ (fun _ => obj) _ h
    rw [if_neg h1] at h
    by_cases h2 : n = "lat"
    · rw [if_pos h2] at h; exact recB _ (fun _ => obj) _ h
    rw [if_neg h2] at h
    by_cases h3 : n = "user"
    · rw [if_pos h3] at h; exact initObjectAttrs_userNN as obj loc v r h hta.1 hta.2
    rw [if_neg h3] at h
    by_cases h4 : n = "id"
    · rw [if_pos h4] at h; exact recB _ _ (fun _ => loc) h
    rw [if_neg h4] at h
    by_cases h5 : n = "version"
    · rw [if_pos h5] at h; exact recB _ _ (fun _ => loc) h
    rw [if_neg h5] at h
    by_cases h6 : n = "changeset"
    · rw [if_pos h6] at h; exact recB _ _ (fun _ => loc) h
    rw [if_neg h6] at h
    by_cases h7 : n = "timestamp"
    · rw [if_pos h7] at h; exact recB _ _ (fun _ => loc) h
    rw [if_neg h7] at h
    by_cases h8 : n = "uid"
    · rw [if_pos h8] at h; exact recB _ _ (fun _ => loc) h
    rw [if_neg h8] at h
    by_cases h9 : n = "visible"
    · rw [if_pos h9] at h
      by_cases ht : v = bTrue
      · rw [if_pos ht] at h; exact rec1 _ _ h
      rw [if_neg ht] at h
      by_cases hf : v = bFalse
      · rw [if_pos hf] at h; exact rec1 _ _ h
      rw [if_neg hf] at h; cases h
    rw [if_neg h9] at h
    exact rec1 _ _ h

theorem initObject_userNN (empty : Object) (inDelete : Bool) (attrs : List (String × List UInt8)) (o : Object)
    (he : notCs empty = true) (h : initObject empty inDelete attrs = .ok o) (ha : AttrsNN attrs) : NN (objUser o) := by
  unfold initObject at h
  simp only at h
  rw [HostileXml.bindE_ok_iff] at h
  obtain ⟨⟨obj, loc, user⟩, hat, h⟩ := h
  have hn : notCs obj = true := by
    have := initObjectAttrs_notCs _ _ _ _ _ hat
    simp only at this
    rw [this]
    split <;> simp [mapMeta_notCs, he]
  have hu : NN user := initObjectAttrs_userNN _ _ _ _ _ hat NN_nil ha
  simp only at h
  split at h
  · cases h
  · cases obj with
    | node m l => simp only [mapMeta] at h; injection h with h; subst h; exact hu
    | way m ns => simp only [mapMeta] at h; injection h with h; subst h; exact hu
    | relation m ms => simp only [mapMeta] at h; injection h with h; subst h; exact hu
    | changeset => simp [notCs] at hn

theorem initChangesetAttrs_userNN : ∀ (as : List (String × List UInt8)) (a a' : CsAcc),
    initChangesetAttrs as a = .ok a' → NN a.user → AttrsNN as → NN a'.user
  | [], a, a', h, hu, _ => by simp [initChangesetAttrs] at h; subst h; exact hu
  | (n, v) :: as, a, a', h, hu, ha => by
    have hta := attrsNN_tail ha
    have recB : ∀ {α : Type} (x : Except XErr α) (g : α → CsAcc),
        (bindE x fun b => initChangesetAttrs as (g b)) = .ok a' → (∀ b, (g b).user = a.user) → NN a'.user := by
      intro α x g e eg
      rw [HostileXml.bindE_ok_iff] at e
      obtain ⟨b, _, e⟩ := e
      exact initChangesetAttrs_userNN as _ _ e (by rw [eg b]; exact hu) hta.2
    unfold initChangesetAttrs at h
    by_cases h1 : n = "min_lon"
    · rw [if_pos h1] at h; exact recB _ _ h (fun _ => rfl)
    rw [if_neg h1] at h
    by_cases h2 : n = "min_lat"
    · rw [if_pos h2] at h; exact recB _ _ h (fun _ => rfl)
    rw [if_neg h2] at h
    by_cases h3 : n = "max_lon"
    · rw [if_pos h3] at h; exact recB _ _ h (fun _ => rfl)
    rw [if_neg h3] at h
    by_cases h4 : n = "max_lat"
    · rw [if_pos h4] at h; exact recB _ _ h (fun _ => rfl)
    rw [if_neg h4] at h
    by_cases h5 : n = "user"
    · rw [if_pos h5] at h
      by_cases hl : v.length > OplFmt.maxString
      · rw [if_pos hl] at h; cases h
      · rw [if_neg hl] at h
        exact initChangesetAttrs_userNN as _ _ h hta.1 hta.2
    rw [if_neg h5] at h
    by_cases h6 : n = "id"
    · rw [if_pos h6] at h; exact recB _ _ h (fun _ => rfl)
    rw [if_neg h6] at h
    by_cases h7 : n = "num_changes"
    · rw [if_pos h7] at h; exact recB _ _ h (fun _ => rfl)
    rw [if_neg h7] at h
    by_cases h8 : n = "comments_count"
    · rw [if_pos h8] at h; exact recB _ _ h (fun _ => rfl)
    rw [if_neg h8] at h
    by_cases h9 : n = "created_at"
    · rw [if_pos h9] at h; exact recB _ _ h (fun _ => rfl)
    rw [if_neg h9] at h
    by_cases h10 : n = "closed_at"
    · rw [if_pos h10] at h; exact recB _ _ h (fun _ => rfl)
    rw [if_neg h10] at h
    by_cases h11 : n = "uid"
    · rw [if_pos h11] at h; exact recB _ _ h (fun _ => rfl)
    rw [if_neg h11] at h
    exact initChangesetAttrs_userNN as _ _ h hu hta.2

theorem initChangeset_userNN (attrs : List (String × List UInt8)) (o : Object) (h : initChangeset attrs = .ok o)
    (ha : AttrsNN attrs) : NN (objUser o) := by
  unfold initChangeset at h
  rw [HostileXml.bindE_ok_iff] at h
  obtain ⟨a, hat, h⟩ := h
  injection h with h; subst h
  exact initChangesetAttrs_userNN attrs {} a hat NN_nil ha

theorem curOk_fresh (o : Object) (hl : UserOk o) (hn : NN (objUser o)) : CurOk { obj := o } :=
  ⟨⟨by unfold UserOk at hl; simpa [maxStr] using hl, hn⟩, fun s hs => by cases hs⟩

/-! ### the event loop -/

theorem pres_setCur (A : Prop) (st : RSt) (o : Object) (ho : A → CurOk { obj := o }) :
    Pres A st { st with cur := some { obj := o } } :=
  ⟨rfl, fun ha hi => ⟨fun c e => by simp only [Option.some.injEq] at e; subst e; exact ho ha, hi.text⟩⟩

theorem withCur_pres (A : Prop) (st : RSt) (f : Cur → Except XErr Cur) (st' : RSt)
    (hf : ∀ c c', f c = .ok c' → A → CurOk c → CurOk c') (h : withCur st f = .ok st') : Pres A st st' := by
  unfold withCur at h
  split at h
  · rename_i c hc
    rw [HostileXml.bindE_ok_iff] at h
    obtain ⟨c', hc', h⟩ := h
    injection h with h; subst h
    exact ⟨rfl, fun ha hi => ⟨fun c'' e => by
      simp only [Option.some.injEq] at e; subst e
      exact hf c c' hc' ha (hi.cur c hc), hi.text⟩⟩
  · injection h with h; subst h; exact pres_refl A st

theorem pres_of_fields (A : Prop) {st st' : RSt} (h1 : st'.out = st.out) (h2 : st'.cur = st.cur)
    (h3 : st'.commentText = st.commentText) : Pres A st st' :=
  ⟨h1, fun _ hi => ⟨(fun c e => hi.cur c (h2 ▸ e)), h3 ▸ hi.text⟩⟩

theorem topAttrs_keep : ∀ (as : List (String × List UInt8)) (st st' : RSt), topAttrs as st = .ok st' →
    st'.out = st.out ∧ st'.cur = st.cur ∧ st'.commentText = st.commentText
  | [], st, st', h => by simp [topAttrs] at h; subst h; simp
  | (n, v) :: as, st, st', h => by
    unfold topAttrs at h
    split at h
    · split at h
      · have := topAttrs_keep as _ _ h; simpa using this
      · cases h
    · split at h
      · have := topAttrs_keep as _ _ h; simpa using this
      · exact topAttrs_keep as _ _ h

theorem topAttrs_pres (A : Prop) (as : List (String × List UInt8)) (st st' : RSt) (h : topAttrs as st = .ok st') :
    Pres A st st' :=
  pres_of_fields A (topAttrs_keep as st st' h).1 (topAttrs_keep as st st' h).2.1 (topAttrs_keep as st st' h).2.2

theorem dataLevel_pres (types : Osmium.OplFmt.Types) (st : RSt) (parent : Ctx) (name : String)
    (attrs : List (String × List UInt8)) (inChange : Bool) (st' : RSt)
    (h : dataLevel types st parent name attrs inChange = .ok st') : Pres (AttrsNN attrs) st st' := by
  have hmd : ∀ c : Ctx, Pres (AttrsNN attrs) st (markDone (push st c)) :=
    fun c => pres_trans (pres_push _ st c) (pres_markDone _ _)
  unfold dataLevel at h
  repeat' split at h
  all_goals first
    | (cases h; done)
    | (injection h with h; subst h; first | exact hmd _ | exact ⟨rfl, fun _ hi => ⟨hi.cur, hi.text⟩⟩)
    | (rw [HostileXml.bindE_ok_iff] at h
       obtain ⟨o, ho, h⟩ := h
       injection h with h; subst h
       first
         | exact pres_trans (hmd _) (pres_setCur _ _ o fun ha =>
             curOk_fresh o (initObject_userOk _ _ _ o rfl ho) (initObject_userNN _ _ _ o rfl ho ha))
         | exact pres_trans (hmd _) (pres_setCur _ _ o fun ha =>
             curOk_fresh o (initChangeset_userOk _ o ho) (initChangeset_userNN _ o ho ha))
         | exact ⟨rfl, fun _ hi => ⟨hi.cur, hi.text⟩⟩)

theorem startElement_pres (types : Osmium.OplFmt.Types) (st : RSt) (name : String)
    (attrs : List (String × List UInt8)) (st' : RSt) (h : startElement types st name attrs = .ok st') :
    Pres (AttrsNN attrs) st st' := by
  have hpush : ∀ c : Ctx, Pres (AttrsNN attrs) st (push st c) := fun c => pres_push _ st c
  have htag : ∀ (c : Ctx) (s' : RSt), (withCur (push st c) fun cu => getTag cu attrs) = .ok s' → Pres (AttrsNN attrs) st s' :=
    fun c s' e => pres_trans (hpush c) (withCur_pres _ _ _ _ (fun cu cu' e' ha hc => getTag_ok cu attrs cu' e' ha hc) e)
  unfold startElement at h
  split at h
  · rw [HostileXml.bindE_ok_iff] at h
    obtain ⟨st1, h1, h⟩ := h
    rw [HostileXml.bindE_ok_iff] at h
    obtain ⟨st2, h2, h⟩ := h
    have hi1 : Pres (AttrsNN attrs) st st1 := by
      split at h1
      · injection h1 with h1; subst h1; exact hpush _
      · split at h1
        · injection h1 with h1; subst h1; exact ⟨rfl, fun _ hi => ⟨hi.cur, hi.text⟩⟩
        · cases h1
    split at h
    · cases h
    · injection h with h; subst h; exact pres_trans hi1 (topAttrs_pres _ _ _ _ h2)
  · rename_i top rest hs
    cases top with
    | osm => exact dataLevel_pres types st _ name attrs _ st' h
    | osmChange => exact dataLevel_pres types st _ name attrs _ st' h
    | createSection => exact dataLevel_pres types st _ name attrs _ st' h
    | modifySection => exact dataLevel_pres types st _ name attrs _ st' h
    | deleteSection => exact dataLevel_pres types st _ name attrs _ st' h
    | tag => cases h
    | nd => cases h
    | member => cases h
    | text => cases h
    | bounds => cases h
    | objBbox => cases h
    | other => cases h
    | node =>
      simp only at h
      repeat' split at h
      all_goals first
        | (cases h; done)
        | (injection h with h; subst h; exact hpush _)
        | exact htag _ _ h
    | way =>
      simp only at h
      repeat' split at h
      all_goals first
        | (cases h; done)
        | (injection h with h; subst h; exact hpush _)
        | exact htag _ _ h
        | (refine pres_trans (hpush _) (withCur_pres _ _ _ _ ?_ h)
           intro c c' e _ hc
           rw [HostileXml.bindE_ok_iff] at e
           obtain ⟨nr, _, e⟩ := e
           injection e with e; subst e; exact addNode_ok _ _ hc)
    | relation =>
      simp only at h
      repeat' split at h
      all_goals first
        | (cases h; done)
        | (injection h with h; subst h; exact hpush _)
        | exact htag _ _ h
        | (refine pres_trans (hpush _) (withCur_pres _ _ _ _ ?_ h)
           intro c c' e ha hc
           rw [HostileXml.bindE_ok_iff] at e
           obtain ⟨⟨t, r, s, role⟩, hm, e⟩ := e
           have hrole := memberAttrs_role _ _ _ _ _ _ hm NN_nil ha
           simp only at e hrole
           repeat' split at e
           all_goals first
             | (cases e; done)
             | (rename_i hlen
                injection e with e; subst e
                exact addMember_ok _ _ hc ⟨by simpa [OplFmt.maxString, maxStr] using hlen, hrole⟩))
    | changeset =>
      simp only at h
      repeat' split at h
      all_goals first
        | (cases h; done)
        | (injection h with h; subst h; exact hpush _)
        | exact htag _ _ h
        | (refine pres_trans (hpush _) (withCur_pres _ _ _ _ ?_ h)
           intro c c' e _ hc
           injection e with e; subst e; exact openDiscussion_ok _ hc)
    | discussion =>
      simp only at h
      repeat' split at h
      all_goals first
        | (cases h; done)
        | (injection h with h; subst h; exact hpush _)
        | (rw [HostileXml.bindE_ok_iff] at h
           obtain ⟨s1, hw, h⟩ := h
           injection h with h; subst h
           have : Pres (AttrsNN attrs) st s1 := by
             refine pres_trans (hpush _) (withCur_pres _ _ _ _ ?_ hw)
             intro c c' e ha hc
             rw [HostileXml.bindE_ok_iff] at e
             obtain ⟨x, hx, e⟩ := e
             have hxa := commentAttrs_ok _ _ _ hx NN_nil ha
             split at e
             · cases e
             · rename_i hlen
               injection e with e; subst e
               refine addComment_ok _ _ hc ⟨⟨by simpa [OplFmt.maxString, maxStr] using hlen, hxa.1⟩, ?_⟩
               rw [hxa.2]; exact NN_nil
           exact ⟨this.1, fun ha hi => ⟨(this.2 ha hi).cur, (this.2 ha hi).text⟩⟩)
    | comment =>
      simp only at h
      repeat' split at h
      all_goals first
        | (cases h; done)
        | (injection h with h; subst h; exact hpush _)

/-- what `end_element` does to `out`: the committed builder state, assembled, is appended -/
theorem endElement_spec (types : Osmium.OplFmt.Types) (st st' : RSt) (n : String) (h : endElement types st = .ok st') :
    st'.out = (match committed types st (.stop n) with | some c => assemble c :: st.out | none => st.out) ∧
    (GInv st → GInv st') := by
  unfold endElement at h
  split at h
  · cases h
  · rename_i top rest hs
    injection h with h; subst h
    have hcommit : ∀ (b : Bool), ((if b then commit st else st).out =
        (match (if b then st.cur else none) with | some c => assemble c :: st.out | none => st.out)) ∧
        (GInv st → GInv (if b then commit st else st)) := by
      intro b
      cases b with
      | false => exact ⟨rfl, fun hi => hi⟩
      | true =>
        simp only [if_true]
        unfold commit
        cases hc : st.cur with
        | none => exact ⟨rfl, fun hi => hi⟩
        | some c => exact ⟨rfl, fun hi => ⟨(fun c' e => by cases e), hi.text⟩⟩
    have key : ∀ s : RSt, (GInv st → GInv s) → (GInv st → GInv { s with stack := rest }) :=
      fun s hs' hi => ⟨(hs' hi).cur, (hs' hi).text⟩
    simp only [committed, hs]
    cases top <;> simp only
    case node => exact ⟨(hcommit types.node).1, key _ (hcommit types.node).2⟩
    case way => exact ⟨(hcommit types.way).1, key _ (hcommit types.way).2⟩
    case relation => exact ⟨(hcommit types.relation).1, key _ (hcommit types.relation).2⟩
    case changeset => exact ⟨(hcommit types.changeset).1, key _ (hcommit types.changeset).2⟩
    case osm => exact ⟨(pres_markDone True st).1, key _ ((pres_markDone True st).2 trivial)⟩
    case osmChange => exact ⟨(pres_markDone True st).1, key _ ((pres_markDone True st).2 trivial)⟩
    case comment =>
      split
      · exact ⟨rfl, key _ fun hi => ⟨hi.cur, hi.text⟩⟩
      · exact ⟨rfl, key _ fun hi => hi⟩
    case text =>
      split
      · split
        · rename_i c hc
          exact ⟨rfl, key _ fun hi => ⟨fun c' e => by
            simp only [Option.some.injEq] at e; subst e
            exact setCommentText_ok _ _ (hi.cur c hc) hi.text, NN_nil⟩⟩
        · rename_i hc
          exact ⟨rfl, key _ fun hi => ⟨fun c' e => by simp_all, NN_nil⟩⟩
      · exact ⟨rfl, key _ fun hi => hi⟩
    all_goals first | exact ⟨rfl, key _ fun hi => hi⟩ | exact ⟨trivial, key _ fun hi => hi⟩

/-- one event: `out` grows exactly by the committed builder state; the invariant is kept when the
    event carries no NUL -/
theorem stepEv_spec (types : Osmium.OplFmt.Types) (st : RSt) (e : Ev) (st' : RSt) (h : stepEv types st e = .ok st') :
    st'.out = (match committed types st e with | some c => assemble c :: st.out | none => st.out) ∧
    (EvNN e → GInv st → GInv st') := by
  cases e with
  | start n as =>
    have := startElement_pres types st n as st' h
    exact ⟨this.1, this.2⟩
  | stop n =>
    have := endElement_spec types st st' n h
    exact ⟨this.1, fun _ => this.2⟩
  | chars t =>
    simp only [stepEv] at h
    injection h with h; subst h
    refine ⟨?_, ?_⟩
    · unfold characters; split <;> rfl
    · intro ht hi
      unfold characters; split
      · exact ⟨hi.cur, NN_append hi.text ht⟩
      · exact hi

/-- the builder state an event commits satisfies the invariant's `CurOk` -/
theorem committed_ok (types : Osmium.OplFmt.Types) (st : RSt) (e : Ev) (c : Cur) (hi : GInv st)
    (h : committed types st e = some c) : CurOk c := by
  cases e with
  | start n as => cases h
  | chars t => cases h
  | stop n =>
    simp only [committed] at h
    repeat' split at h
    all_goals first
      | (cases h; done)
      | exact hi.cur c h

theorem deliveredGo_ok (types : Osmium.OplFmt.Types) : ∀ (evs : List Ev) (st : RSt) (acc : List Cur) (r : RSt × List Cur),
    deliveredGo types evs st acc = .ok r → (∀ e ∈ evs, EvNN e) → GInv st → (∀ c ∈ acc, CurOk c) →
    ∀ c ∈ r.2, CurOk c
  | [], st, acc, r, h, _, _, hacc => by
    simp only [deliveredGo] at h; injection h with h; subst h; exact hacc
  | e :: es, st, acc, r, h, hev, hi, hacc => by
    unfold deliveredGo at h
    rw [HostileXml.bindE_ok_iff] at h
    obtain ⟨st1, h1, h⟩ := h
    have hs := stepEv_spec types st e st1 h1
    refine deliveredGo_ok types es st1 _ r h (fun x hx => hev x (List.mem_cons_of_mem _ hx))
      (hs.2 (hev e (List.mem_cons_self ..)) hi) ?_
    cases hc : committed types st e with
    | none => exact hacc
    | some c =>
      intro x hx
      rcases List.mem_cons.mp hx with rfl | hx
      · exact committed_ok types st e _ hi hc
      · exact hacc x hx

/-- `deliveredGo` IS `runEvents` (plus the recording), and the recorded states assemble to `out` -/
theorem deliveredGo_run (types : Osmium.OplFmt.Types) : ∀ (evs : List Ev) (st : RSt) (acc : List Cur),
    st.out = acc.map assemble →
    (∀ e, runEvents types evs st = .error e → deliveredGo types evs st acc = .error e) ∧
    (∀ st', runEvents types evs st = .ok st' →
      ∃ acc', deliveredGo types evs st acc = .ok (st', acc') ∧ st'.out = acc'.map assemble)
  | [], st, acc, ho => by
    refine ⟨fun e h => by simp [runEvents] at h, fun st' h => ?_⟩
    simp only [runEvents] at h; injection h with h; subst h
    exact ⟨acc, rfl, ho⟩
  | e :: es, st, acc, ho => by
    unfold runEvents deliveredGo
    cases h1 : stepEv types st e with
    | error x =>
      simp only [bindE_error]
      exact ⟨(fun e h => by cases h; rfl), fun st' h => by cases h⟩
    | ok st1 =>
      simp only [bindE_ok]
      have hs := (stepEv_spec types st e st1 h1).1
      refine deliveredGo_run types es st1 _ ?_
      cases hc : committed types st e with
      | none => rw [hc] at hs; simp only at hs ⊢; rw [hs, ho]
      | some c => rw [hc] at hs; simp only at hs ⊢; rw [hs, ho]; rfl

/-- the recorded builder states are exactly the objects `XmlFmt.read` delivers (each seen through
    the accessors: `assemble`), and `delivered` throws exactly when `read` does -/
theorem delivered_assemble (types : Osmium.OplFmt.Types) (evs : List Ev) :
    (∀ e, XmlFmt.read types evs = .error e → delivered types evs = .error e) ∧
    (∀ h objs, XmlFmt.read types evs = .ok (h, objs) →
      ∃ cs, delivered types evs = .ok cs ∧ objs = cs.map assemble) := by
  have hr := deliveredGo_run types evs {} [] rfl
  unfold XmlFmt.read delivered
  cases h1 : runEvents types evs {} with
  | error x =>
    rw [hr.1 x h1]
    simp only [bindE_error]
    exact ⟨(fun e h => by cases h; rfl), fun h objs e => by cases e⟩
  | ok st =>
    obtain ⟨acc', ha, ho⟩ := hr.2 st h1
    rw [ha]
    simp only [bindE_ok]
    refine ⟨(fun e h => by cases h), fun h objs e => ?_⟩
    injection e with e
    injection e with _ e
    refine ⟨acc'.reverse, rfl, ?_⟩
    rw [← e, (pres_markDone True st).1, ho, List.map_reverse]

/-- every builder state the XML reader commits, for ANY event sequence without NUL bytes and any
    entity filter, is `CurOk` -/
theorem delivered_ok (types : Osmium.OplFmt.Types) (evs : List Ev) (cs : List Cur)
    (h : delivered types evs = .ok cs) (hev : ∀ e ∈ evs, EvNN e) : ∀ c ∈ cs, CurOk c := by
  unfold delivered at h
  rw [HostileXml.bindE_ok_iff] at h
  obtain ⟨r, hr, h⟩ := h
  injection h with h; subst h
  intro c hc
  exact deliveredGo_ok types evs {} [] r hr hev ginv_init (fun _ hx => by cases hx) c (List.mem_reverse.mp hc)

/-! ### the builder calls of the XML reader satisfy `Guards` -/

theorem curUser_eq (c : Cur) : curUser c = objUser c.obj := by
  unfold curUser objUser; cases c.obj <;> rfl

theorem xmlSub_strOk (s : Sub) (h : SubOk s) : SubStrOk (xmlSub s) := by
  cases s with
  | tags ts =>
    simp only [xmlSub, SubStrOk, List.mem_map]
    rintro kv ⟨t, ht, rfl⟩
    exact h t ht
  | nodes ns => rfl
  | members ms =>
    simp only [xmlSub, SubStrOk, List.mem_map]
    rintro m ⟨x, hx, rfl⟩
    exact h x hx
  | discussion cs =>
    simp only [xmlSub, SubStrOk, List.mem_map]
    rintro c ⟨x, hx, rfl⟩
    exact ⟨(h x hx).1, x.text, rfl, (h x hx).2⟩

theorem xmlObjS_guards (fill : UInt8) (fixed : List UInt8) (c : Cur) (hok : CurOk c)
    (hf : fixed.length = (xmlObjS fixed c).kind.sizeT - 8)
    (hs : objSize fill (xmlObjS fixed c) < 2 ^ 32) : Guards fill (xmlObjS fixed c) := by
  refine guards_of_subs fill _ hf ?_ ?_ hs
  · show StrOk (curUser c)
    rw [curUser_eq]; exact hok.1
  · intro s hs'
    simp only [xmlObjS, List.mem_map] at hs'
    obtain ⟨x, hx, rfl⟩ := hs'
    exact xmlSub_strOk x (hok.2 x hx)

end Osmium.HostileReaders
