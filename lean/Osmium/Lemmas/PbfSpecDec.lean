/-
C02, PBF: the hypotheses of `pbf_decode_spec` (`ObjRep`, `Representable`'s clauses, `FrameFits`, field
well-formedness) are decidable — used for the non-vacuity examples of Props/C02Pbf.lean.
-/
import Osmium.Lemmas.PbfSpecFile

namespace Osmium.Pbf

open Osmium.Wire Osmium.PbfMsg Osmium.Osm

instance (f : Field) : Decidable f.WF := by
  obtain ⟨t, w, v, p⟩ := f
  cases w <;> (simp only [Field.WF]; infer_instance)

instance (x : Int) : Decidable (IdOk x) := by unfold IdOk; infer_instance
instance (l : Location) : Decidable (LocOk l) := by unfold LocOk; infer_instance
instance (g off c : Int) : Decidable (CoordRep g off c) := by unfold CoordRep; infer_instance
instance (ch : PbfSpec.Choices) (l : Location) : Decidable (LocRep ch l) := by unfold LocRep; infer_instance
instance (ch : PbfSpec.Choices) (t : Nat) : Decidable (StampRep ch t) := by unfold StampRep; infer_instance
instance (m : Meta) : Decidable (MetaStrOk m) := by unfold MetaStrOk; infer_instance
instance (ch : PbfSpec.Choices) (m : Meta) : Decidable (MetaRep ch m) := by unfold MetaRep; infer_instance
instance (ms : List Member) : Decidable (RelInDomain ms) := by unfold RelInDomain; infer_instance

def DeltaRep.dec : ∀ (p : Int) (xs : List Int), Decidable (DeltaRep p xs)
  | _, [] => isTrue trivial
  | p, x :: xs => by unfold DeltaRep; exact @instDecidableAnd _ _ _ (DeltaRep.dec x xs)

instance (p : Int) (xs : List Int) : Decidable (DeltaRep p xs) := DeltaRep.dec p xs

instance (ch : PbfSpec.Choices) (ob : Object) : Decidable (ObjRep ch ob) := by
  cases ob <;> (unfold ObjRep; infer_instance)

instance (b : Location × Location) : Decidable (BoxRep b) := by unfold BoxRep; infer_instance

instance (ch : PbfSpec.Choices) (t p : Bytes) : Decidable (FrameFits ch t p) :=
  decidable_of_iff (p.length ≤ PbfFraming.maxUncompressedBlobSize ∧ (specBlob ch p).length ≤ PbfFraming.maxUncompressedBlobSize ∧
    (specHdr ch t p).length ≤ PbfFraming.maxBlobHeaderSize) ⟨fun ⟨a, b, c⟩ => ⟨a, b, c⟩, fun h => ⟨h.1, h.2, h.3⟩⟩

end Osmium.Pbf
