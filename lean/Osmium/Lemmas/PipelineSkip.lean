/-
C05, scale dimension: `Reader::read()` skips buffers without data (reader.hpp, the `while (true)` loop
around `m_osmdata_queue_wrapper.pop()`).  In the model that loop is a cycle of the consumer's program
counter `readPop → readWaitPop → readGot id → readPop` INSIDE one API call (between the events `cRead`
and `cRet`): the consumer's part of the state is a flat record, there is no call stack in it.  This file
proves that a pass through the cycle for a buffer without data restores the consumer's part of the state
exactly, for any number of passes and any interleaving with the other threads.

What is NOT in the model: the machine stack of the thread that calls read().  "The loop is a loop (no
frame per skipped buffer)" is a fact about the C++ text that the model takes for granted by having no
stack; it is checked on the real code by the small-stack monitor of tools/props/c05.py (`scale_pass`).
-/
import Osmium.Lemmas.PipelineFaultQ

namespace Osmium.Pipeline.Skip

open Osmium.Mon Osmium.Pipeline Osmium.Pipeline.Order

variable {α : Type} [DecidableEq α]

set_option linter.unusedSimpArgs false
set_option linter.unusedVariables false

/-- the consumer is inside `m_osmdata_queue_wrapper.pop()` / holds the popped future: the three control
    points of the skipping loop of read() -/
def inPop (s : State α) : Bool :=
  match s.cpc with
  | .readPop | .readWaitPop | .readGot _ => true
  | _ => false

/-- Events that keep read() in its skipping loop: everything EXCEPT unpacking a future that holds data,
    the end marker or an exception, and finding the queue shut down (by a close() in between — none
    here — or, in `wait_and_pop`, with nothing left). -/
def skipEv : Ev α → Bool
  | .cGet (.buf lv) => lv.flatten.isEmpty
  | .cGet _ => false
  | .cInUse saw => saw
  | .qo (.popNow _ _ r) => r.isSome
  | .qo (.popWake _ _ r) => r.isSome
  | _ => true

/-- number of buffers without data that the trace unpacks -/
def emptyGets (tr : List (Ev α)) : Nat :=
  (tr.filter fun e => match e with | .cGet (.buf _) => true | _ => false).length

/-- the consumer's part of the state, as far as the caller or a later call can observe it -/
structure Same (s s' : State α) : Prop where
  delivered : s'.delivered = s.delivered
  back : s'.back = s.back
  results : s'.results = s.results
  status : s'.status = s.status
  hdrGot : s'.hdrGot = s.hdrGot

omit [DecidableEq α] in
theorem Same.refl (s : State α) : Same s s := ⟨rfl, rfl, rfl, rfl, rfl⟩

omit [DecidableEq α] in
theorem Same.trans {a b c : State α} (h1 : Same a b) (h2 : Same b c) : Same a c :=
  ⟨h2.delivered.trans h1.delivered, h2.back.trans h1.back, h2.results.trans h1.results, h2.status.trans h1.status,
   h2.hdrGot.trans h1.hdrGot⟩

omit [DecidableEq α] in
/-- a well-formed buffer without data is the plain empty buffer -/
theorem wf_noData (lv : List (List α)) (hw : wfLevels lv = true) (he : lv.flatten = []) : lv = [[]] := by
  match lv, hw with
  | [top], _ => simp at he; simp [he]
  | l :: l2 :: rest, hw =>
    simp only [wfLevels, Bool.and_eq_true, Bool.not_eq_true', List.isEmpty_eq_false_iff] at hw
    simp at he
    exact absurd he.1 hw.1

/-- Unpacking a buffer without data, in any reachable state: read() is back at the control point at which
    the pop started, and NOTHING else in the whole state has changed. -/
theorem cGet_noData (c : Cfg α) (s s' : State α) (lv : List (List α)) (h : (machine c).Reachable s)
    (hst : (machine c).Step s (.cGet (.buf lv)) s') (he : lv.flatten = []) :
    s' = { s with cpc := .readPop } := by
  obtain ⟨rfl, _, hw⟩ := Fault.cGet_buf_step c s s' lv h hst
  rw [wf_noData lv hw he]
  simp [afterPop]

/-- One step of any thread while read() is in its skipping loop, other than the four ways out of the
    loop: read() is still in the loop and the consumer's part of the state is untouched. -/
theorem skip_step (c : Cfg α) (s s' : State α) (e : Ev α) (hr : (machine c).Reachable s) (hp : inPop s = true)
    (hst : (machine c).Step s e s') (he : skipEv e = true) : inPop s' = true ∧ Same s s' := by
  by_cases hg : ∃ lv, e = .cGet (.buf lv)
  · obtain ⟨lv, rfl⟩ := hg
    have hl : lv.flatten = [] := by simpa [skipEv] using he
    rw [cGet_noData c s s' lv hr hst hl]
    exact ⟨by simp [inPop], ⟨rfl, rfl, rfl, rfl, rfl⟩⟩
  · po_cases e with hst q hq
    all_goals first
      | exact ⟨hp, ⟨rfl, rfl, rfl, rfl, rfl⟩⟩
      | (exfalso; simp_all [inPop, skipEv]; done)
      | exact ⟨by simp [inPop], ⟨rfl, rfl, rfl, rfl, rfl⟩⟩
      | (refine ⟨?_, ⟨rfl, rfl, rfl, rfl, rfl⟩⟩; simp_all [inPop]; done)

/-- `skip_step` along a whole trace -/
theorem skip_run (c : Cfg α) (tr : List (Ev α)) : ∀ (s s' : State α) (i : Nat), (machine c).Reachable s → inPop s = true →
    (machine c).run? s tr i = .ok s' → (∀ e ∈ tr, skipEv e = true) → inPop s' = true ∧ Same s s' := by
  induction tr with
  | nil =>
    intro s s' i _ hp hrun _
    simp only [Machine.run?, Except.ok.injEq] at hrun
    subst hrun
    exact ⟨hp, Same.refl s⟩
  | cons e rest ih =>
    intro s s' i hr hp hrun hev
    unfold Machine.run? at hrun
    split at hrun
    · next s1 h1 =>
      have h1' : (machine c).Step s e s1 := h1
      obtain ⟨hp1, hs1⟩ := skip_step c s s1 e hr hp h1' (hev e (by simp))
      obtain ⟨hp2, hs2⟩ := ih s1 s' (i + 1) (.step hr h1') hp1 hrun (fun e' he' => hev e' (by simp [he']))
      exact ⟨hp2, hs1.trans hs2⟩
    · simp at hrun

end Osmium.Pipeline.Skip
