/-
C04 built_content, part 6: constructor + set_user of an object builder in closed form
(= `HostileLayout.header … ++ headBody`), and the whole script of one object.
-/
import Osmium.Lemmas.BufBuildObj

namespace Osmium.Buf

open Osmium.Layout
open Osmium.HostileLayout (subBytes subsBytes padTo SubS ObjS OKind subScript headBody build objSize ctorFixed script)

/-- the fixed part splits at the user_size field: `pre`, the 2-byte field, `mid`, then `tl` bytes up to
    the end of what the constructor reserved -/
def preOf (k : Kind) : Bytes := ((objectInit k).drop 8).take (k.userSizeOff - 8)
def midOf (k : Kind) : Bytes := match k with | .changeset => zeros 6 | _ => []
def tlOf (k : Kind) : Nat := match k with | .changeset => 8 | _ => 6

theorem ctor_split (k : Kind) (hk : k.isObj = true) :
    (objectInit k).drop 8 ++ zeros 8 = preOf k ++ zeros 2 ++ midOf k ++ zeros (tlOf k) ∧
    (objectInit k).take 8 = itemHeader k.sizeT k.ty ∧ (objectInit k).length = k.sizeT ∧
    (preOf k).length = k.userSizeOff - 8 ∧ 8 ≤ k.userSizeOff ∧
    8 + (preOf k).length + 2 + (midOf k).length = k.userOff ∧ tlOf k = k.userAvail + 1 ∧
    k.sizeT + 8 = k.userOff + tlOf k ∧ k.sizeT % 8 = 0 := by
  cases k <;> first | (cases hk; done) | decide

/-- `set_user`'s extra space -/
def needOf (k : Kind) (ulen : Nat) : Nat := if ulen > k.userAvail then padded (ulen - k.userAvail) else 0

theorem writeAt_P1 (ty osz : Nat) (X Y : Bytes) (c : Nat) (d : Bytes) :
    writeAt (P1 ty osz (X ++ Y)) (8 + X.length + c) d = P1 ty osz (X ++ writeAt Y c d) := by
  unfold P1
  have := writeAt_append_right (itemHeader osz ty ++ X) d Y c
  simp only [List.length_append, itemHeader_len] at this
  simpa [List.append_assoc] using this

theorem zeros_append (a b : Nat) : zeros a ++ zeros b = zeros (a + b) := by simp [zeros, List.replicate_append_replicate]

theorem writeAt_zeros_prefix (n : Nat) (d : Bytes) (h : d.length ≤ n) : writeAt (zeros n) 0 d = d ++ zeros (n - d.length) := by
  rw [writeAt_zero_prefix d _ (by rw [zeros_len]; exact h)]
  simp [zeros]

/-- constructor and `set_user(u)` of an object builder on an empty uncommitted part -/
theorem pr_head (fill : UInt8) (aux : Bytes) (av : Bool) (k : Kind) (hk : k.isObj = true) (u : Bytes) :
    pRun fill aux av ([], []) [.open k, .user u] =
      some (P1 k.ty (k.sizeT + 8 + needOf k u.length)
              (preOf k ++ leBytes (u.length + 1) 2 ++ midOf k ++ u ++ zeros (tlOf k + needOf k u.length - u.length)),
            [(0, k, none)]) := by
  obtain ⟨hsplit, hhdr, hlen, hpre, hge, hoff, htl, hsz, hs8⟩ := ctor_split k hk
  have hinit : objectInit k = itemHeader k.sizeT k.ty ++ (objectInit k).drop 8 := by
    rw [← hhdr, List.take_append_drop]
  have hdl : ((objectInit k).drop 8).length = k.sizeT - 8 := by simp [hlen]
  -- the constructor
  have hctor : pStep fill aux av ([], []) (.open k) =
      some (P1 k.ty (k.sizeT + 8) (preOf k ++ leBytes 1 2 ++ midOf k ++ zeros (tlOf k)), [(0, k, none)]) := by
    simp only [pStep, aSig, List.map_nil, plan, hk, List.isEmpty_nil, Bool.not_true, Bool.false_eq_true, and_false,
      ↓reduceIte, List.length_nil, Nat.zero_mod, ne_eq, not_true_eq_false, mCtor, pMicros, pList, pMicro, pBase,
      List.nil_append, aAfter, Option.map_some, addSizeChain, List.foldl, Nat.zero_add]
    refine congrArg some (Prod.ext ?_ rfl)
    simp only []
    -- T{} over the reserved bytes
    have h1 : writeAt (List.replicate (k.sizeT + 8) fill) 0 (objectInit k) = objectInit k ++ List.replicate 8 fill := by
      rw [writeAt_zero_prefix _ _ (by simp [hlen])]
      simp [hlen]
    rw [h1, hinit]
    have h2 : itemHeader k.sizeT k.ty ++ List.drop 8 (objectInit k) ++ List.replicate 8 fill =
        P1 k.ty k.sizeT (List.drop 8 (objectInit k) ++ List.replicate 8 fill) := by simp [P1, List.append_assoc]
    rw [h2, addSizeAt_P1]
    -- memset of the user area
    have h3 := writeAt_P1 k.ty (k.sizeT + 8) (List.drop 8 (objectInit k)) (List.replicate 8 fill) 0 (zeros 8)
    rw [hdl] at h3
    have e3 : 8 + (k.sizeT - 8) + 0 = k.sizeT := by have := hsz; have := hoff; omega
    rw [e3] at h3
    rw [h3]
    have h4 : writeAt (List.replicate 8 fill) 0 (zeros 8) = zeros 8 := by
      rw [writeAt_zero_prefix _ _ (by simp [zeros])]; simp [zeros]
    rw [h4, hsplit]
    -- user_size = 1
    have h5 := writeAt_P1 k.ty (k.sizeT + 8) (preOf k) (zeros 2 ++ midOf k ++ zeros (tlOf k)) 0 (leBytes 1 2)
    have e5 : 8 + (preOf k).length + 0 = k.userSizeOff := by rw [hpre]; omega
    rw [e5] at h5
    simp only [setLE]
    have h6 : preOf k ++ zeros 2 ++ midOf k ++ zeros (tlOf k) = preOf k ++ (zeros 2 ++ midOf k ++ zeros (tlOf k)) := by
      simp [List.append_assoc]
    rw [h6, h5, List.append_assoc (zeros 2), writeAt_append_left _ _ _ 0 (by simp [leBytes_len, zeros]),
      writeAt_zeros_prefix 2 _ (by simp [leBytes_len])]
    simp [leBytes_len, zeros, List.append_assoc]
  simp only [pRun, hctor]
  -- set_user
  have hneed8 : needOf k u.length % 8 = 0 := by unfold needOf; split; exact padded_mod _; rfl
  have hfit : u.length ≤ tlOf k + needOf k u.length := by
    unfold needOf; rw [htl]; split
    · have := padded_ge (u.length - k.userAvail); omega
    · omega
  simp only [pStep, aSig, List.map_cons, List.map_nil, plan, topIs, hk, ↓reduceIte, mSetUser, pMicros, pList, pMicro, pBase,
    Bool.false_eq_true, aAfter, Option.map_some, Nat.zero_add]
  refine congrArg some (Prod.ext ?_ rfl)
  simp only []
  show (let p := writeAt (P1 k.ty (k.sizeT + 8) (preOf k ++ leBytes 1 2 ++ midOf k ++ zeros (tlOf k)) ++
            List.replicate (needOf k u.length) fill)
          (P1 k.ty (k.sizeT + 8) (preOf k ++ leBytes 1 2 ++ midOf k ++ zeros (tlOf k))).length (zeros (needOf k u.length))
        let p := if needOf k u.length = 0 then p else addSizeChain [0] (needOf k u.length) p
        let p := writeAt p k.userOff u
        setLE p k.userSizeOff (u.length + 1) 2) = _
  simp only []
  have g1 := writeAt_reserved_full (P1 k.ty (k.sizeT + 8) (preOf k ++ leBytes 1 2 ++ midOf k ++ zeros (tlOf k)))
    (zeros (needOf k u.length)) fill
  rw [zeros_len] at g1
  rw [g1]
  have g2 : P1 k.ty (k.sizeT + 8) (preOf k ++ leBytes 1 2 ++ midOf k ++ zeros (tlOf k)) ++ zeros (needOf k u.length) =
      P1 k.ty (k.sizeT + 8) (preOf k ++ leBytes 1 2 ++ midOf k ++ zeros (tlOf k + needOf k u.length)) := by
    simp [P1, List.append_assoc, zeros_append]
  rw [g2]
  have g3 : (if needOf k u.length = 0 then
        P1 k.ty (k.sizeT + 8) (preOf k ++ leBytes 1 2 ++ midOf k ++ zeros (tlOf k + needOf k u.length))
      else addSizeChain [0] (needOf k u.length)
        (P1 k.ty (k.sizeT + 8) (preOf k ++ leBytes 1 2 ++ midOf k ++ zeros (tlOf k + needOf k u.length)))) =
      P1 k.ty (k.sizeT + 8 + needOf k u.length) (preOf k ++ leBytes 1 2 ++ midOf k ++ zeros (tlOf k + needOf k u.length)) := by
    split
    · rename_i h0; rw [h0]
    · simp only [addSizeChain, List.foldl]; rw [addSizeAt_P1]
  rw [g3]
  -- copy the user name
  have g4 := writeAt_P1 k.ty (k.sizeT + 8 + needOf k u.length) (preOf k ++ leBytes 1 2 ++ midOf k)
    (zeros (tlOf k + needOf k u.length)) 0 u
  have e4 : 8 + (preOf k ++ leBytes 1 2 ++ midOf k).length + 0 = k.userOff := by
    simp only [List.length_append, leBytes_len]; omega
  rw [e4] at g4
  rw [g4, writeAt_zeros_prefix _ _ hfit]
  -- user_size
  have g5 := writeAt_P1 k.ty (k.sizeT + 8 + needOf k u.length) (preOf k)
    (leBytes 1 2 ++ (midOf k ++ (u ++ zeros (tlOf k + needOf k u.length - u.length)))) 0 (leBytes (u.length + 1) 2)
  have e5 : 8 + (preOf k).length + 0 = k.userSizeOff := by rw [hpre]; omega
  rw [e5] at g5
  simp only [setLE]
  have g6 : preOf k ++ leBytes 1 2 ++ midOf k ++ (u ++ zeros (tlOf k + needOf k u.length - u.length)) =
      preOf k ++ (leBytes 1 2 ++ (midOf k ++ (u ++ zeros (tlOf k + needOf k u.length - u.length)))) := by
    simp [List.append_assoc]
  rw [g6, g5, writeAt_append_left _ _ _ 0 (by simp [leBytes_len]), writeAt_zero_prefix _ _ (by simp [leBytes_len])]
  have g7 : List.drop (leBytes (u.length + 1) 2).length (leBytes 1 2) = [] := by
    rw [leBytes_len]; rfl
  rw [g7]
  simp [List.append_assoc]

/-! ### the whole object -/

theorem padded_add8 (a b : Nat) (h : a % 8 = 0) : padded (a + b) = a + padded b := by unfold padded; omega

theorem zeros_congr {n m : Nat} (h : n = m) : zeros n = Osmium.HostileLayout.zeros m := by subst h; rfl

theorem need_obj (ul s : Nat) (hs : s % 8 = 0) :
    s + 8 + (if ul > 5 then padded (ul - 5) else 0) = padded (s + 2 + ul + 1) ∧
    6 + (if ul > 5 then padded (ul - 5) else 0) - ul = padded (s + 2 + ul + 1) - (s + 2 + ul) := by
  unfold padded; split <;> omega

theorem need_cs (ul : Nat) :
    56 + 8 + (if ul > 7 then padded (ul - 7) else 0) = padded (56 + ul + 1) ∧
    8 + (if ul > 7 then padded (ul - 7) else 0) - ul = padded (56 + ul + 1) - (56 + ul) := by
  unfold padded; split <;> omega

theorem needOf_cs (ul : Nat) : needOf .changeset ul = if ul > 7 then padded (ul - 7) else 0 := rfl
theorem needOf_node (ul : Nat) : needOf .node ul = if ul > 5 then padded (ul - 5) else 0 := rfl
theorem needOf_way (ul : Nat) : needOf .way ul = if ul > 5 then padded (ul - 5) else 0 := rfl
theorem needOf_relation (ul : Nat) : needOf .relation ul = if ul > 5 then padded (ul - 5) else 0 := rfl
theorem needOf_area (ul : Nat) : needOf .area ul = if ul > 5 then padded (ul - 5) else 0 := rfl

/-- constructor + set_user leave exactly `header headLen ++ headBody` -/
theorem head_eq (o : ObjS) (hf : o.fixed = ctorFixed o.kind) :
    P1 o.kind.bufKind.ty (o.kind.bufKind.sizeT + 8 + needOf o.kind.bufKind o.user.length)
        (preOf o.kind.bufKind ++ leBytes (o.user.length + 1) 2 ++ midOf o.kind.bufKind ++ o.user ++
          zeros (tlOf o.kind.bufKind + needOf o.kind.bufKind o.user.length - o.user.length)) =
      P1 o.kind.ty (o.kind.headLen o.user.length) (headBody o) := by
  cases hk : o.kind with
  | changeset =>
    rw [hk] at hf
    have h := need_cs o.user.length
    have c1 : List.take 6 (List.drop 42 (ctorFixed .changeset)) = zeros 6 := by decide
    have c2 : preOf .changeset = List.take 40 (ctorFixed .changeset) := by decide
    simp only [headBody, hk, hf, OKind.bufKind, OKind.ty, OKind.headLen, Kind.ty, Kind.sizeT, needOf_cs, tlOf, midOf,
      sizeofChangeset, c1, c2]
    refine P1_congr h.1 ?_
    rw [zeros_congr h.2]
  | node =>
    rw [hk] at hf
    have h := need_obj o.user.length 40 rfl
    have c2 : preOf .node = List.take (40 - 8) (ctorFixed .node) := by decide
    simp only [headBody, hk, hf, OKind.bufKind, OKind.ty, OKind.headLen, OKind.sizeT, Kind.ty, Kind.sizeT, needOf_node,
      tlOf, midOf, sizeofNode, c2]
    refine P1_congr h.1 ?_
    rw [zeros_congr h.2]
    simp [List.append_assoc]
  | way =>
    rw [hk] at hf
    have h := need_obj o.user.length 32 rfl
    have c2 : preOf .way = List.take (32 - 8) (ctorFixed .way) := by decide
    simp only [headBody, hk, hf, OKind.bufKind, OKind.ty, OKind.headLen, OKind.sizeT, Kind.ty, Kind.sizeT, needOf_way,
      tlOf, midOf, sizeofObject, c2]
    refine P1_congr h.1 ?_
    rw [zeros_congr h.2]
    simp [List.append_assoc]
  | relation =>
    rw [hk] at hf
    have h := need_obj o.user.length 32 rfl
    have c2 : preOf .relation = List.take (32 - 8) (ctorFixed .relation) := by decide
    simp only [headBody, hk, hf, OKind.bufKind, OKind.ty, OKind.headLen, OKind.sizeT, Kind.ty, Kind.sizeT, needOf_relation,
      tlOf, midOf, sizeofObject, c2]
    refine P1_congr h.1 ?_
    rw [zeros_congr h.2]
    simp [List.append_assoc]
  | area =>
    rw [hk] at hf
    have h := need_obj o.user.length 32 rfl
    have c2 : preOf .area = List.take (32 - 8) (ctorFixed .area) := by decide
    simp only [headBody, hk, hf, OKind.bufKind, OKind.ty, OKind.headLen, OKind.sizeT, Kind.ty, Kind.sizeT, needOf_area,
      tlOf, midOf, sizeofObject, c2]
    refine P1_congr h.1 ?_
    rw [zeros_congr h.2]
    simp [List.append_assoc]

end Osmium.Buf
