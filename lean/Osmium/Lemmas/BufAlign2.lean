/-
C04 alignment invariant, part 2: every micro program of the builders consists of
invariant-preserving steps (`AllAOK`).
-/
import Osmium.Lemmas.BufAlign

namespace Osmium.Buf

open Osmium.Layout

/-- the top builder is a list builder -/
def ListTop (sig : List (Nat × Kind)) : Prop := ∃ f r, sig = f :: r ∧ f.2.isObj = false

/-- the top builder is an object builder (then it is the only one, by `FramesOK`) -/
def ObjTop (sig : List (Nat × Kind)) : Prop := ∃ f r, sig = f :: r ∧ f.2.isObj = true

theorem framesOK_le_top (p : Pend) (ub : Nat) (f : Frame) (rest : List Frame) (h : FramesOK p ub (f :: rest)) :
    ∀ g ∈ f :: rest, g.off ≤ f.off := by
  intro g hg
  rcases List.mem_cons.1 hg with rfl | hg'
  · exact Nat.le_refl _
  · have := framesOK_mem p f.off rest h.2.2.2.2.2 g hg'; omega

/-- `k` bytes were appended (`q`: the old bytes with anything in the new region) and every open
    builder's size grew by `k`: the invariant holds again, provided the top builder is a list builder
    or `k` is a multiple of 8 -/
theorem pinv_append_chain (st : List Frame) (p q : Pend) (k : Nat) (hlen : q.length = p.length + k)
    (hhdr : ∀ o, o + 4 ≤ p.length → u32At q o = u32At p o)
    (htop : (∃ f r, st = f :: r ∧ f.kind.isObj = false) ∨ k % 8 = 0) (h : PInv st p) :
    PInv st (addSizeChain (offsOf st) k q) := by
  obtain ⟨hf, ht⟩ := h
  have hd := framesOK_desc p p.length st hf
  refine ⟨?_, ?_⟩
  · rw [addSizeChain_length, hlen]
    apply framesOK_mono _ p.length
    · apply framesOK_of_cong st p _ p.length k (by rw [addSizeChain_length, hlen]) (Nat.le_refl _) ?_ hf
      intro f hfm _
      have hmem : f.off ∈ offsOf st := List.mem_map.2 ⟨f, hfm, rfl⟩
      rw [u32At_addSizeChain_mem (offsOf st) k q p.length hd (by omega) f.off hmem]
      rw [hhdr f.off (by have := framesOK_mem p p.length st hf f hfm; omega)]
      omega
    · omega
  · rw [addSizeChain_length, hlen]
    cases st with
    | nil =>
      simp only [TopOK] at ht ⊢
      rcases htop with ⟨f, r, h, _⟩ | hk
      · cases h
      · omega
    | cons f r =>
      simp only [TopOK] at ht ⊢
      intro ho
      rcases htop with ⟨f', r', h, hk⟩ | hk
      · injection h with h1 h2; subst h1; rw [ho] at hk; cases hk
      · have := ht ho; omega

/-- bytes changed only behind all item headers: the invariant is untouched -/
theorem pinv_same_headers (st : List Frame) (p q : Pend) (hlen : q.length = p.length)
    (hhdr : ∀ f ∈ st, u32At q f.off = u32At p f.off) (h : PInv st p) : PInv st q := by
  obtain ⟨hf, ht⟩ := h
  refine ⟨?_, by rw [hlen]; exact ht⟩
  rw [hlen]
  exact framesOK_of_cong st p q p.length 0 (by omega) (Nat.le_refl _)
    (fun f hfm _ => by rw [hhdr f hfm]; simp) hf

theorem pinv_setTopPtr_new (st : List Frame) (p q : Pend) (ep : Nat) (hp : FramesOK p p.length st) (h : PInv st q) :
    PInv (setTopPtr st (some (ep, p.length))) q := by
  refine ⟨framesOK_setTopPtr _ _ _ _ ?_ h.1, topOK_setTopPtr _ _ _ h.2⟩
  intro f rest e o hst he
  injection he with he; injection he with _ he; subst he
  subst hst
  exact hp.2.1

theorem pinv_setTopPtr_none (st : List Frame) (q : Pend) (h : PInv st q) : PInv (setTopPtr st none) q :=
  ⟨framesOK_setTopPtr _ _ _ _ (by intro _ _ _ _ _ he; cases he) h.1, topOK_setTopPtr _ _ _ h.2⟩

theorem listTop_frames (sig : List (Nat × Kind)) (st : List Frame) (hs : ListTop sig) (h : frameSig st = sig) :
    ∃ f r, st = f :: r ∧ f.kind.isObj = false := by
  obtain ⟨g, r, rfl, hk⟩ := hs
  cases st with
  | nil => simp [frameSig] at h
  | cons f rest =>
    simp only [frameSig, List.map_cons, List.cons.injEq] at h
    refine ⟨f, rest, rfl, ?_⟩
    rw [← h.1] at hk; exact hk

/-- `reserve(n)`, write something into the reserved space, `add_size(n)` on every open builder;
    optionally keep a pointer to the reserved space -/
theorem aok_alloc_chain (sig : List (Nat × Kind)) (n : Pend → Nat) (save : Bool) (g : Nat → Pend → Pend)
    (hs : ListTop sig ∨ ∀ p, n p % 8 = 0)
    (hg : ∀ (p : Pend) (x : UInt8), ∃ dd, g p.length (p ++ List.replicate (n p) x) =
      addSizeChain (sig.map (·.1)) (n p) (writeAt (p ++ List.replicate (n p) x) p.length dd)) :
    BaseAOK sig (.alloc n save g) := by
  intro st p x ep hsig hp
  obtain ⟨dd, hdd⟩ := hg p x
  rw [hdd]
  have hpi : PInv st (addSizeChain (offsOf st) (n p) (writeAt (p ++ List.replicate (n p) x) p.length dd)) := by
    apply pinv_append_chain st p _ (n p) (by simp) ?_ ?_ hp
    · intro o ho
      rw [u32At_writeAt_out _ _ _ _ (Or.inl ho), u32At_append_left _ _ _ ho]
    · rcases hs with hs | hs
      · exact Or.inl (listTop_frames sig st hs hsig)
      · exact Or.inr (hs p)
  rw [← hsig, ← offsOf_sig]
  split
  · exact pinv_setTopPtr_new st p _ ep hp.1 hpi
  · exact hpi

theorem aok_alloc {sig : List (Nat × Kind)} {n : Pend → Nat} {save : Bool} {g : Nat → Pend → Pend}
    (h : BaseAOK sig (.alloc n save g)) : Micro.AOK sig (.alloc n save g) := h
theorem aok_upd {sig : List (Nat × Kind)} {g : Pend → Pend} (h : BaseAOK sig (.upd g)) : Micro.AOK sig (.upd g) := h
theorem aok_drf {sig : List (Nat × Kind)} {keep : Bool} {g : Nat → Pend → Pend}
    (h : BaseAOK sig (.deref keep g)) : Micro.AOK sig (.deref keep g) := h

theorem allAOK_mAppend (sig : List (Nat × Kind)) (hs : ListTop sig) (d : Bytes) :
    AllAOK sig (mAppend (sig.map (·.1)) d) := by
  intro m hm
  simp only [mAppend, List.mem_cons, List.not_mem_nil, or_false] at hm
  subst hm
  exact aok_alloc_chain sig (fun _ => d.length) false
    (fun off p => addSizeChain (sig.map (·.1)) d.length (writeAt p off d)) (Or.inl hs) (fun p x => ⟨d, rfl⟩)

theorem allAOK_mPaddingSelf (sig : List (Nat × Kind)) (hs : ListTop sig) :
    AllAOK sig (mPadding (sig.map (·.1)) true) := by
  intro m hm
  obtain ⟨f, r, rfl, hk⟩ := hs
  simp only [List.map_cons, mPadding, List.mem_cons, List.not_mem_nil, or_false, ↓reduceIte] at hm
  subst hm
  apply aok_alloc
  refine aok_alloc_chain (f :: r) (fun p => padOf (u32At p f.1)) false _ (Or.inl ⟨f, r, rfl, hk⟩)
    (fun p x => ⟨zeros (padOf (u32At p f.1)), ?_⟩)
  simp

/-- a write through the saved pointer: it lies behind all item headers -/
theorem aok_deref (sig : List (Nat × Kind)) (keep : Bool) (c v n : Nat) (hc : 4 ≤ c) :
    BaseAOK sig (.deref keep (fun o p => setLE p (o + c) v n)) := by
  intro st p e o hsig ⟨f, rest, hst, hptr⟩ hp
  have hq : PInv st (setLE p (o + c) v n) := by
    apply pinv_same_headers st p _ (by simp) ?_ hp
    intro g hg
    subst hst
    have h1 := framesOK_le_top p p.length f rest hp.1 g hg
    have h2 := hp.1.2.2.2.2.1 e o hptr
    exact u32At_setLE_other p (o + c) v n g.off (Or.inl (by omega))
  split
  · exact hq
  · exact pinv_setTopPtr_none st _ hq

theorem allAOK_append {sig : List (Nat × Kind)} {a b : List Micro} (ha : AllAOK sig a) (hb : AllAOK sig b) :
    AllAOK sig (a ++ b) := by
  intro m hm
  rcases List.mem_append.1 hm with h | h
  · exact ha m h
  · exact hb m h

theorem allAOK_nil (sig : List (Nat × Kind)) : AllAOK sig [] := by intro m hm; cases hm

theorem allAOK_mTag (sig : List (Nat × Kind)) (hs : ListTop sig) (k v : Bytes) : AllAOK sig (mTag (sig.map (·.1)) k v) :=
  allAOK_append (allAOK_mAppend sig hs _) (allAOK_mAppend sig hs _)

theorem allAOK_mNodeRef (sig : List (Nat × Kind)) (hs : ListTop sig) (r x y : Int) :
    AllAOK sig (mNodeRef (sig.map (·.1)) r x y) := allAOK_mAppend sig hs _

theorem aok_struct (sig : List (Nat × Kind)) (hs : ListTop sig) (d : Bytes) :
    Micro.AOK sig (.alloc (fun _ => 16) true (fun off p => addSizeChain (sig.map (·.1)) 16 (writeAt p off d))) :=
  aok_alloc (aok_alloc_chain sig (fun _ => 16) true (fun off p => addSizeChain (sig.map (·.1)) 16 (writeAt p off d))
    (Or.inl hs) (fun p x => ⟨d, rfl⟩))

theorem allAOK_cons {sig : List (Nat × Kind)} {m : Micro} {ms : List Micro} (hm : m.AOK sig) (hms : AllAOK sig ms) :
    AllAOK sig (m :: ms) := by
  intro x hx
  rcases List.mem_cons.1 hx with rfl | h
  · exact hm
  · exact hms x h

theorem aok_deref' (sig : List (Nat × Kind)) (keep : Bool) (c v n : Nat) (hc : 4 ≤ c) :
    Micro.AOK sig (.deref keep (fun o p => setLE p (o + c) v n)) := aok_drf (aok_deref sig keep c v n hc)

theorem allAOK_mMember (sig : List (Nat × Kind)) (hs : ListTop sig) (ty : Nat) (ref : Int) (role : Bytes) (full : Option Bytes) :
    AllAOK sig (mMember (sig.map (·.1)) ty ref role full) := by
  have h5 : AllAOK sig (match full with | none => [] | some fm => mAppend (sig.map (·.1)) fm) := by
    cases full with
    | none => exact allAOK_nil sig
    | some fm => exact allAOK_mAppend sig hs _
  have h1 := aok_struct sig hs (leBytesInt ref 8 ++ leBytes ty 2 ++ leBytes (if full.isSome then 1 else 0) 2 ++ leBytes 0 2)
  have h2 := aok_deref' sig false 12 (role.length + 1) 2 (by omega)
  have h3 := allAOK_mAppend sig hs (role ++ [0])
  have h4 := allAOK_mPaddingSelf sig hs
  exact allAOK_append (allAOK_append (allAOK_append (allAOK_cons h1 (allAOK_cons h2 (allAOK_nil sig))) h3) h4) h5

theorem allAOK_mComment (sig : List (Nat × Kind)) (hs : ListTop sig) (d u : Nat) (user : Bytes) :
    AllAOK sig (mComment (sig.map (·.1)) d u user) := by
  have h1 := aok_struct sig hs (leBytes d 4 ++ leBytes u 4 ++ leBytes 0 4 ++ leBytes 0 2)
  have h2 := aok_deref' sig true 12 (user.length + 1) 2 (by omega)
  have h3 := allAOK_mAppend sig hs (user ++ [0])
  exact allAOK_append (allAOK_cons h1 (allAOK_cons h2 (allAOK_nil sig))) h3

theorem baseAOK_mCommentText (sig : List (Nat × Kind)) (hs : ListTop sig) (t : Bytes) :
    ∀ m ∈ mCommentText (sig.map (·.1)) t, BaseAOK sig m := by
  unfold mCommentText
  intro m hm
  rcases List.mem_append.1 hm with h | h
  · rcases List.mem_append.1 h with h | h
    · simp only [List.mem_cons, List.not_mem_nil, or_false] at h
      subst h
      exact aok_deref sig false 8 _ 4 (by omega)
    · have := allAOK_mAppend sig hs (t ++ [0]) m h
      simp only [mAppend, List.mem_cons, List.not_mem_nil, or_false] at h
      subst h; exact this
  · have := allAOK_mPaddingSelf sig hs m h
    obtain ⟨f, r, rfl, hk⟩ := hs
    simp only [List.map_cons, mPadding, List.mem_cons, List.not_mem_nil, or_false] at h
    subst h; exact this

theorem allAOK_mCommentText (sig : List (Nat × Kind)) (hs : ListTop sig) (t : Bytes) :
    AllAOK sig (mCommentText (sig.map (·.1)) t) := by
  intro m hm
  have hb := baseAOK_mCommentText sig hs t m hm
  cases m with
  | finish offs =>
    exfalso
    unfold mCommentText mAppend at hm
    obtain ⟨f, r, rfl, hk⟩ := hs
    simp [mPadding] at hm
  | alloc n save g => exact hb
  | upd g => exact hb
  | deref keep g => exact hb

/-- anything length-preserving is fine while an object builder is on top: it is the only open
    builder and its size field is never used for padding -/
theorem aok_upd_obj (sig : List (Nat × Kind)) (hs : ObjTop sig) (g : Pend → Pend) (hg : LP g) :
    BaseAOK sig (.upd g) := by
  intro st p hsig hp
  obtain ⟨f, r, rfl, hk⟩ := hs
  cases st with
  | nil => simp [frameSig] at hsig
  | cons fr rest =>
    simp only [frameSig, List.map_cons, List.cons.injEq] at hsig
    obtain ⟨hf, _⟩ := hsig
    have hko : fr.kind.isObj = true := by rw [← hf] at hk; exact hk
    obtain ⟨⟨h1, h2, h3, h4, h5, h6⟩, ht⟩ := hp
    have hr := h3 hko
    subst hr
    refine ⟨⟨h1, by rw [hg]; exact h2, h3, (fun h => by rw [hko] at h; cases h), h5, trivial⟩, ?_⟩
    simp only [TopOK] at ht ⊢
    rw [hg]; exact ht

theorem aok_alloc_obj (sig : List (Nat × Kind)) (hs : ObjTop sig ∨ sig = []) (k : Nat) (hk8 : k % 8 = 0)
    (g : Nat → Pend → Pend) (hg : ∀ off, LP (g off)) : BaseAOK sig (.alloc (fun _ => k) false g) := by
  intro st p x ep hsig hp
  simp only [Bool.false_eq_true, ↓reduceIte]
  rcases hs with ⟨f, r, rfl, hk⟩ | rfl
  · cases st with
    | nil => simp [frameSig] at hsig
    | cons fr rest =>
      simp only [frameSig, List.map_cons, List.cons.injEq] at hsig
      obtain ⟨hf, _⟩ := hsig
      have hko : fr.kind.isObj = true := by rw [← hf] at hk; exact hk
      obtain ⟨⟨h1, h2, h3, h4, h5, h6⟩, ht⟩ := hp
      have hr := h3 hko
      subst hr
      refine ⟨⟨h1, by rw [hg]; simp; omega, h3, (fun h => by rw [hko] at h; cases h), h5, trivial⟩, ?_⟩
      simp only [TopOK] at ht ⊢
      intro h; have := ht h
      rw [hg]; simp; omega
  · cases st with
    | nil =>
      obtain ⟨_, ht⟩ := hp
      refine ⟨trivial, ?_⟩
      simp only [TopOK] at ht ⊢
      rw [hg]; simp; omega
    | cons fr rest => simp [frameSig] at hsig

end Osmium.Buf
