/-
PoolSM2List — list facts and queue-level consequences of the QueueSM invariants used by the
global pool invariants (C19): conservation per ELEMENT as a count equation
(`count x called = count x popped + count x items + count x inflight`), keys that are unique
in `called` (job ids) are unique everywhere, and "no push() in progress" (the guard of the
destructor steps of the pool) means that no thread carries an element.
-/
import Osmium.Lemmas.QueueSM
import Mathlib.Data.List.Perm.Subperm

namespace Osmium.ListAux

variable {γ β : Type}

/-- a key that occurs once in `l.filterMap f` identifies its element of `l` -/
theorem key_unique {f : γ → Option β} {l : List γ} (h : (l.filterMap f).Nodup) {x y : γ} {k : β}
    (hx : x ∈ l) (hy : y ∈ l) (fx : f x = some k) (fy : f y = some k) : x = y := by
  induction l with
  | nil => simp at hx
  | cons a l ih =>
    have hk : ∀ z ∈ l, f z = some k → k ∈ l.filterMap f := fun z hz fz =>
      List.mem_filterMap.mpr ⟨z, hz, fz⟩
    rcases List.mem_cons.mp hx with rfl | hx' <;> rcases List.mem_cons.mp hy with rfl | hy'
    · rfl
    · rw [List.filterMap_cons_some fx, List.nodup_cons] at h
      exact absurd (hk _ hy' fy) h.1
    · rw [List.filterMap_cons_some fy, List.nodup_cons] at h
      exact absurd (hk _ hx' fx) h.1
    · refine ih ?_ hx' hy'
      cases ha : f a with
      | none => rwa [List.filterMap_cons_none ha] at h
      | some b => rw [List.filterMap_cons_some ha, List.nodup_cons] at h; exact h.2

/-- … and that element occurs once -/
theorem key_count_le_one [BEq γ] [LawfulBEq γ] {f : γ → Option β} {l : List γ} (h : (l.filterMap f).Nodup)
    {x : γ} {k : β} (fx : f x = some k) : l.count x ≤ 1 := by
  induction l with
  | nil => simp
  | cons a l ih =>
    have hk : ∀ z ∈ l, f z = some k → k ∈ l.filterMap f := fun z hz fz =>
      List.mem_filterMap.mpr ⟨z, hz, fz⟩
    by_cases hax : a = x
    · subst hax
      rw [List.filterMap_cons_some fx, List.nodup_cons] at h
      have : l.count a = 0 := List.count_eq_zero.mpr fun hm => h.1 (hk _ hm fx)
      simp [this]
    · have hl : (l.filterMap f).Nodup := by
        cases ha : f a with
        | none => rwa [List.filterMap_cons_none ha] at h
        | some b => rw [List.filterMap_cons_some ha, List.nodup_cons] at h; exact h.2
      rw [List.count_cons_of_ne hax]
      exact ih hl

theorem Subperm.filterMap' {f : γ → Option β} {l₁ l₂ : List γ} (h : l₁.Subperm l₂) :
    (l₁.filterMap f).Subperm (l₂.filterMap f) := by
  obtain ⟨l, hp, hs⟩ := h
  exact ⟨l.filterMap f, hp.filterMap f, hs.filterMap f⟩

/-- two entries with the same second component -/
theorem count_snd_ge_two [BEq γ] [LawfulBEq γ] {l : List (Nat × γ)} {w w' : Nat} {x : γ}
    (h1 : (w, x) ∈ l) (h2 : (w', x) ∈ l) (hne : w ≠ w') : 2 ≤ (l.map (·.2)).count x := by
  induction l with
  | nil => simp at h1
  | cons a l ih =>
    have hpos : ∀ v, (v, x) ∈ l → 1 ≤ (l.map (·.2)).count x := fun v hv =>
      List.count_pos_iff.mpr (List.mem_map.mpr ⟨_, hv, rfl⟩)
    rw [List.map_cons]
    rcases List.mem_cons.mp h1 with h1' | h1' <;> rcases List.mem_cons.mp h2 with h2' | h2'
    · rw [← h1'] at h2'
      exact absurd (congrArg Prod.fst h2').symm hne
    · subst h1'
      rw [List.count_cons_self]
      have := hpos _ h2'
      omega
    · subst h2'
      rw [List.count_cons_self]
      have := hpos _ h1'
      omega
    · have := ih h1' h2'
      have := List.count_le_count_cons (a := x) (b := a.2) (l := l.map (·.2))
      omega

end Osmium.ListAux

namespace Osmium.QueueSM

open Osmium.Mon

variable {α : Type} [DecidableEq α]

omit [DecidableEq α] in
theorem inflight_fst {s : State α} {t : Tid} {x : Item α} (h : x ∈ inflight s t) : x.1 = t :=
  mem_carry h

omit [DecidableEq α] in
theorem inflight_length_le_one (s : State α) (t : Tid) : (inflight s t).length ≤ 1 := by
  unfold inflight carry; split <;> simp

omit [DecidableEq α] in
theorem inflight_eq_of_mem {s : State α} {t : Tid} {x : Item α} (h : x ∈ inflight s t) :
    inflight s t = [x] := by
  unfold inflight carry at *; split at h <;> simp_all

theorem count_byProd (x : Item α) (l : List (Item α)) : (byProd x.1 l).count x = l.count x :=
  List.count_filter (by simp)

section reach

variable (c : Cfg) (s : State α) (h : (machine α c).Reachable s) (hu : s.inUse = true)
include h hu

/-- FIFO, in use: enqueued = handed out ++ still queued -/
theorem pushed_eq : s.pushed = s.popped.map (fun p => p.2) ++ s.items := by
  rw [inv_cons c s h, inv_popped c s h hu]

/-- element-wise conservation on the way in -/
theorem count_called (x : Item α) :
    s.called.count x = s.pushed.count x + (inflight s x.1).count x := by
  have := (inv_called c s h hu).2 x.1
  rw [← count_byProd x s.called, this, List.count_append, count_byProd]

/-- element-wise conservation, all the way -/
theorem count_called' (x : Item α) :
    s.called.count x = (s.popped.map (fun p => p.2)).count x + s.items.count x + (inflight s x.1).count x := by
  rw [count_called c s h hu x, pushed_eq c s h hu, List.count_append]

theorem pushed_subperm_called : s.pushed.Subperm s.called := by
  rw [List.subperm_ext_iff]
  intro x _
  have := count_called c s h hu x
  omega

theorem inflight_mem_called {t : Tid} {x : Item α} (hx : x ∈ inflight s t) : x ∈ s.called := by
  have ht := inflight_fst hx
  subst ht
  have := count_called c s h hu x
  have h1 : 0 < (inflight s x.1).count x := List.count_pos_iff.mpr hx
  exact List.count_pos_iff.mp (by omega)

theorem pushed_mem_called {x : Item α} (hx : x ∈ s.pushed) : x ∈ s.called :=
  (pushed_subperm_called c s h hu).subset hx

theorem items_mem_pushed {x : Item α} (hx : x ∈ s.items) : x ∈ s.pushed := by
  rw [pushed_eq c s h hu]; exact List.mem_append_right _ hx

theorem popped_mem_pushed {w : Tid} {x : Item α} (hx : (w, x) ∈ s.popped) : x ∈ s.pushed := by
  rw [pushed_eq c s h hu]; exact List.mem_append_left _ (List.mem_map.mpr ⟨_, hx, rfl⟩)

/-- every push() call is enqueued or in flight -/
theorem called_cases {x : Item α} (hx : x ∈ s.called) : x ∈ s.pushed ∨ x ∈ inflight s x.1 := by
  have := count_called c s h hu x
  have h1 : 0 < s.called.count x := List.count_pos_iff.mpr hx
  by_cases hp : x ∈ s.pushed
  · exact .inl hp
  · right
    have : s.pushed.count x = 0 := List.count_eq_zero.mpr hp
    exact List.count_pos_iff.mp (by omega)

/-- the guard `noPushInProgress` of the pool's destructor steps: as many enqueues as push()
    calls means no thread is inside push() -/
theorem quiescent (hq : s.called.length = s.pushed.length) (t : Tid) : inflight s t = [] := by
  have hp : s.pushed.Perm s.called :=
    (pushed_subperm_called c s h hu).perm_of_length_le (by omega)
  rw [List.eq_nil_iff_forall_not_mem]
  intro x hx
  have ht := inflight_fst hx
  subst ht
  have := count_called c s h hu x
  have h1 : 0 < (inflight s x.1).count x := List.count_pos_iff.mpr hx
  have := hp.count_eq x
  omega

end reach

section keys

variable {β : Type} (c : Cfg) (s : State α) (h : (machine α c).Reachable s) (hu : s.inUse = true)
  (f : Item α → Option β) (hk : (s.called.filterMap f).Nodup)
include h hu hk

/-- a keyed element (job) is at exactly one place with multiplicity one -/
theorem keyed_once {x : Item α} {k : β} (hx : x ∈ s.called) (fx : f x = some k) :
    (s.popped.map (fun p => p.2)).count x + s.items.count x + (inflight s x.1).count x = 1 := by
  have h1 := ListAux.key_count_le_one hk fx
  have h2 : 0 < s.called.count x := List.count_pos_iff.mpr hx
  have := count_called' c s h hu x
  omega

theorem pushed_keys_nodup : (s.pushed.filterMap f).Nodup := by
  obtain ⟨l, hp, hs⟩ := ListAux.Subperm.filterMap' (f := f) (pushed_subperm_called c s h hu)
  exact hp.nodup_iff.mp (hs.nodup hk)

end keys

end Osmium.QueueSM
