/-
`src_tie_*` lemmas for `osmium::io::detail::opl_parse_string(const char**, std::string&)` (io/detail/opl_parser_functions.hpp),
TRANSLATED by tools/cxx2lean.py (`Src.OplParserFunctions.opl_parse_string` with its loop: `while (true)` left by `break`,
`opl_parse_escaped(&s, result)` called with the LOCAL cursor and the caller's output string), against the model
`Opl.parseStringLoop` / `Opl.parseString` (Osmium/Model/Escape.lean) of the C14 theorems.  Continues Lemmas/SrcTieEsc.lean.
-/
import Osmium.Lemmas.SrcTieEsc

set_option Elab.async false
set_option linter.unusedSimpArgs false

namespace Osmium.SrcTie.Esc

open Osmium.Generated Osmium.CxxSem Osmium.Conv Osmium.Cursor Osmium.SrcTie.Coord
open Src.StringUtil Src.OplParserFunctions

/-! ### `opl_parse_string` = `Opl.parseString` -/

theorem isStop_iff (c : UInt8) :
    Opl.isStop c = true ↔ (c.toNat = 0 ∨ c.toNat = 32 ∨ c.toNat = 9 ∨ c.toNat = 44 ∨ c.toNat = 61) := by
  unfold Opl.isStop
  simp only [Bool.or_eq_true, decide_eq_true_eq, eq_char_iff]
  have e1 : (0x20 : UInt8).toNat = 32 := rfl
  have e2 : (0x09 : UInt8).toNat = 9 := rfl
  have e3 : (0x2c : UInt8).toNat = 44 := rfl
  have e4 : (0x3d : UInt8).toNat = 61 := rfl
  rw [zero_toNat, e1, e2, e3, e4]
  omega

theorem parseStringLoop_nil (f : Nat) : Opl.parseStringLoop (f + 1) [] = .ok ([], []) := rfl

/-- what `opl_parse_string` returns after an iteration that appended `p` -/
def strCont (p : List UInt8) : Except Opl.PErr (List UInt8 × List UInt8) → Except Opl.PErr (List UInt8 × List UInt8)
  | .error e => .error e
  | .ok (r, rest') => .ok (p ++ r, rest')

theorem parseStringLoop_cons (f : Nat) (c : UInt8) (u : List UInt8) :
    Opl.parseStringLoop (f + 1) (c :: u) =
      if Opl.isStop c then .ok ([], c :: u)
      else if c = 0x25 then
        match Opl.parseEscaped 8 0 u with
        | .error e => .error e
        | .ok (p, rest) => strCont p (Opl.parseStringLoop f rest)
      else strCont [c] (Opl.parseStringLoop f u) := by
  rw [Opl.parseStringLoop]
  split
  · rfl
  · split
    · cases Opl.parseEscaped 8 0 u with
      | error e => rfl
      | ok q => obtain ⟨p, rest⟩ := q; dsimp only; cases Opl.parseStringLoop f rest with
        | error e => rfl
        | ok q => rfl
    · cases Opl.parseStringLoop f u with
      | error e => rfl
      | ok q => rfl

/-- a model result as what the translated loop of `opl_parse_string` delivers: the string with the decoded bytes
    appended and the cursor at the stop character, or `opl_error` (from `opl_parse_escaped`) with the caller's cursor
    cell untouched and the string as far as it was built -/
def StrFlow (s : List UInt8) (data : Int) (result : List UInt8) (i : Nat) :
    Except Opl.PErr (List UInt8 × List UInt8) → Flow (Int × Buf) (Buf × Int) Unit → Prop
  | .ok (r, rest), fl => ∃ j, i ≤ j ∧ j ≤ s.length ∧ rest = s.drop j ∧ fl = .next (result ++ r, (j : Int))
  | .error _, fl => ∃ r', fl = .exit (.thrown "osmium::opl_error" (data, result ++ r'))

/-- the result of an iteration that appended `p` and moved on to `i'`, as the result of the whole -/
theorem StrFlow_step (s : List UInt8) (data : Int) (result p : List UInt8) (i i' : Nat) (hii : i ≤ i') (m) (fl)
    (h : StrFlow s data (result ++ p) i' m fl) : StrFlow s data result i (strCont p m) fl := by
  cases m with
  | error e => obtain ⟨r', h⟩ := h; exact ⟨p ++ r', by rw [h, List.append_assoc]⟩
  | ok q =>
    obtain ⟨r, rest'⟩ := q
    obtain ⟨j, h1, h2, h3, h4⟩ := h
    exact ⟨j, by omega, h2, h3, by rw [h4, List.append_assoc]⟩

theorem next_congr {ρ : Type} {a a' : Buf} {b b' : Int} (h1 : a = a') (h2 : b = b') :
    (Flow.next (a, b) : Flow (Int × Buf) (Buf × Int) ρ) = .next (a', b') := by subst h1 h2; rfl

/-- the loop of `opl_parse_string`: `k` bounds the characters left -/
theorem src_tie_opl_parse_string_loop_val (s t : List UInt8) (data : Int) :
    ∀ (k i fuelM fuel : Nat) (result : List UInt8) (iI : Int), iI = (i : Int) → s.length - i ≤ k → i ≤ s.length → k < fuelM →
      k + 10 ≤ fuel →
      StrFlow s data result i (Opl.parseStringLoop fuelM (s.drop i)) (opl_parse_string.loop_1 fuel (s ++ 0 :: t) data result iI) := by
  intro k
  induction k with
  | zero =>
    intro i fuelM fuel result iI hiI hk hi hfm hf
    subst hiI
    obtain ⟨f, rfl⟩ : ∃ f, fuel = f + 1 := ⟨fuel - 1, by omega⟩
    obtain ⟨fm, rfl⟩ : ∃ f, fuelM = f + 1 := ⟨fuelM - 1, by omega⟩
    have hrd := rdS_cbuf s t i hi
    have hnil : s.drop i = [] := List.drop_eq_nil_of_le (by omega)
    rw [hnil, peek_nil] at hrd
    have hsc := sc_cases (0 : UInt8)
    simp only [zero_toNat] at hsc
    rw [hnil, parseStringLoop_nil]
    unfold opl_parse_string.loop_1
    simp only [hrd]
    repeat' split_n
    all_goals exact ⟨i, Nat.le_refl _, hi, hnil.symm, next_congr (List.append_nil _).symm rfl⟩
  | succ k ih =>
    intro i fuelM fuel result iI hiI hk hi hfm hf
    subst hiI
    obtain ⟨f, rfl⟩ : ∃ f, fuel = f + 1 := ⟨fuel - 1, by omega⟩
    obtain ⟨fm, rfl⟩ : ∃ f, fuelM = f + 1 := ⟨fuelM - 1, by omega⟩
    have hrd := rdS_cbuf s t i hi
    cases hd : s.drop i with
    | nil =>
      rw [hd, peek_nil] at hrd
      have hsc := sc_cases (0 : UInt8)
      simp only [zero_toNat] at hsc
      rw [parseStringLoop_nil]
      unfold opl_parse_string.loop_1
      simp only [hrd]
      repeat' split_n
      all_goals exact ⟨i, Nat.le_refl _, hi, hd.symm, next_congr (List.append_nil _).symm rfl⟩
    | cons c u =>
      obtain ⟨hlt, hu⟩ := drop_cons s i c u hd
      rw [hd, peek_cons] at hrd
      have hsc := sc_cases c
      have hst := isStop_iff c
      have hc25 : c = 0x25 ↔ c.toNat = 37 := eq_char_iff c 0x25
      rw [parseStringLoop_cons]
      by_cases hs : Opl.isStop c = true
      · have hs' := hst.mp hs
        rw [if_pos hs]
        unfold opl_parse_string.loop_1
        simp only [hrd]
        repeat' split_n
        all_goals exact ⟨i, Nat.le_refl _, hi, hd.symm, next_congr (List.append_nil _).symm rfl⟩
      · have hs' : ¬ (c.toNat = 0 ∨ c.toNat = 32 ∨ c.toNat = 9 ∨ c.toNat = 44 ∨ c.toNat = 61) := fun e => hs (hst.mpr e)
        rw [if_neg hs]
        by_cases h25 : c = 0x25
        · -- an escape: `opl_parse_escaped(&s, result)` with the local cursor
          have h25' := hc25.mp h25
          rw [if_pos h25, ← hu]
          have hE := (src_tie_opl_parse_escaped_main s t (i + 1) (by omega) result f (by omega)).1
          cases hm : Opl.parseEscaped 8 0 (s.drop (i + 1)) with
          | error e =>
            rw [hm] at hE
            simp only [EscOut] at hE
            have hE' : ∀ a, a = ((i + 1 : Nat) : Int) → opl_parse_escaped f (s ++ 0 :: t) a result =
                .thrown "osmium::opl_error" (((i + 1 : Nat) : Int), result) := by intro a h; subst h; exact hE
            unfold opl_parse_string.loop_1
            simp only [hrd]
            repeat' split_n
            all_goals simp (disch := omega) only [hE', Flow.callVia_thrown]
            all_goals exact ⟨[], by rw [List.append_nil]⟩
          | ok q =>
            obtain ⟨p, rest⟩ := q
            rw [hm] at hE
            obtain ⟨j, hj1, hj2, hj3, hE⟩ := hE
            have hE' : ∀ a, a = ((i + 1 : Nat) : Int) → opl_parse_escaped f (s ++ 0 :: t) a result =
                .normal ((j : Int), result ++ p) () := by intro a h; subst h; exact hE
            subst hj3
            unfold opl_parse_string.loop_1
            simp only [hrd]
            repeat' split_n
            all_goals simp (disch := omega) only [hE', Flow.callVia_normal]
            all_goals exact StrFlow_step s data result p i j (by omega) _ _ (ih j fm f (result ++ p) _ rfl (by omega) hj2 (by omega) (by omega))
        · have h25' : ¬ c.toNat = 37 := fun e => h25 (hc25.mpr e)
          rw [if_neg h25, ← hu]
          unfold opl_parse_string.loop_1
          simp only [hrd, push_sc]
          repeat' split_n
          all_goals exact StrFlow_step s data result [c] i (i + 1) (by omega) _ _ (ih (i + 1) fm f (result ++ [c]) _ (by omega) (by omega) (by omega) (by omega) (by omega))

/-- … and it has no undefined behaviour: every read is at or before the NUL, every cursor inside the array -/
theorem src_tie_opl_parse_string_loop_def (s t : List UInt8) (data : Int) :
    ∀ (k i fuel : Nat) (result : List UInt8) (iI : Int), iI = (i : Int) → s.length - i ≤ k → i ≤ s.length → k + 10 ≤ fuel →
      opl_parse_string.loop_1_defined fuel (s ++ 0 :: t) data result iI = true := by
  intro k
  induction k with
  | zero =>
    intro i fuel result iI hiI hk hi hf
    subst hiI
    obtain ⟨f, rfl⟩ : ∃ f, fuel = f + 1 := ⟨fuel - 1, by omega⟩
    have hrd := rdS_cbuf s t i hi
    have hin := inB_cbuf s t i hi
    have hnil : s.drop i = [] := List.drop_eq_nil_of_le (by omega)
    rw [hnil, peek_nil] at hrd
    have hsc := sc_cases (0 : UInt8)
    simp only [zero_toNat] at hsc
    unfold opl_parse_string.loop_1_defined
    simp only [hrd, hin]
    repeat' split_n
    all_goals bool_clean
    all_goals (try defined_split)
    all_goals first | omega | decide
  | succ k ih =>
    intro i fuel result iI hiI hk hi hf
    subst hiI
    obtain ⟨f, rfl⟩ : ∃ f, fuel = f + 1 := ⟨fuel - 1, by omega⟩
    have hrd := rdS_cbuf s t i hi
    have hin := inB_cbuf s t i hi
    cases hd : s.drop i with
    | nil =>
      rw [hd, peek_nil] at hrd
      have hsc := sc_cases (0 : UInt8)
      simp only [zero_toNat] at hsc
      unfold opl_parse_string.loop_1_defined
      simp only [hrd, hin]
      repeat' split_n
      all_goals bool_clean
      all_goals (try defined_split)
      all_goals first | omega | decide
    | cons c u =>
      obtain ⟨hlt, hu⟩ := drop_cons s i c u hd
      have hp1 := ptrOk_cbuf s t (i + 1) (by omega)
      rw [hd, peek_cons] at hrd
      have hsc := sc_cases c
      obtain ⟨hE, hD⟩ := src_tie_opl_parse_escaped_main s t (i + 1) (by omega) result f (by omega)
      have hD' : ∀ a, a = ((i + 1 : Nat) : Int) → opl_parse_escaped_defined f (s ++ 0 :: t) a result = true := by
        intro a h; subst h; exact hD
      cases hm : Opl.parseEscaped 8 0 (s.drop (i + 1)) with
      | error e =>
        rw [hm] at hE
        simp only [EscOut] at hE
        have hE' : ∀ a, a = ((i + 1 : Nat) : Int) → opl_parse_escaped f (s ++ 0 :: t) a result =
            .thrown "osmium::opl_error" (((i + 1 : Nat) : Int), result) := by intro a h; subst h; exact hE
        unfold opl_parse_string.loop_1_defined
        simp only [hrd, hin, push_sc]
        repeat' split_n
        all_goals (try simp (disch := omega) only [hE', hD', Outcome.okAnd_thrown])
        all_goals bool_clean
        all_goals (try defined_split)
        all_goals first
          | exact ih (i + 1) f _ _ (by omega) (by omega) (by omega) (by omega)
          | (rw [idx_succ]; exact hp1) | omega | decide
      | ok q =>
        obtain ⟨p, rest⟩ := q
        rw [hm] at hE
        obtain ⟨j, hj1, hj2, hj3, hE⟩ := hE
        have hE' : ∀ a, a = ((i + 1 : Nat) : Int) → opl_parse_escaped f (s ++ 0 :: t) a result =
            .normal ((j : Int), result ++ p) () := by intro a h; subst h; exact hE
        unfold opl_parse_string.loop_1_defined
        simp only [hrd, hin, push_sc]
        repeat' split_n
        all_goals (try simp (disch := omega) only [hE', hD', Outcome.okAnd_normal])
        all_goals bool_clean
        all_goals (try defined_split)
        all_goals first
          | exact ih (i + 1) f _ _ (by omega) (by omega) (by omega) (by omega)
          | exact ih j f _ _ rfl (by omega) hj2 (by omega)
          | (rw [idx_succ]; exact hp1) | omega | decide

/-- a model result as the outcome of `opl_parse_string(&s, result)` -/
def StrOut (s : List UInt8) (i : Nat) (result : List UInt8) :
    Except Opl.PErr (List UInt8 × List UInt8) → Outcome (Int × Buf) Unit → Prop
  | .ok (r, rest), o => ∃ j, i ≤ j ∧ j ≤ s.length ∧ rest = s.drop j ∧ o = .normal ((j : Int), result ++ r) ()
  | .error _, o => ∃ r', o = .thrown "osmium::opl_error" ((i : Int), result ++ r')

theorem StrOut_of_flow (s : List UInt8) (i : Nat) (result : List UInt8) (m) (fl)
    (k : Buf × Int → Outcome (Int × Buf) Unit)
    (h : StrFlow s (i : Int) result i m fl) (hk : ∀ r j, k (r, j) = .normal (j, r) ()) :
    StrOut s i result m (Flow.seq fl k) := by
  cases m with
  | ok p =>
    obtain ⟨r, rest⟩ := p; obtain ⟨j, h1, h2, h3, h4⟩ := h; subst h4
    exact ⟨j, h1, h2, h3, by rw [Flow.seq_next, hk]⟩
  | error e => obtain ⟨r', h⟩ := h; subst h; exact ⟨r', rfl⟩

/-- `opl_parse_string(&s, result)` on every array, start position and string: the model's `parseString`; fuel: the
    characters left + 10 -/
theorem src_tie_opl_parse_string_main (s t : List UInt8) (i : Nat) (hi : i ≤ s.length) (result : List UInt8) (fuel : Nat)
    (hf : s.length - i + 10 ≤ fuel) :
    StrOut s i result (Opl.parseString (s.drop i)) (opl_parse_string fuel (s ++ 0 :: t) (i : Int) result) ∧
    opl_parse_string_defined fuel (s ++ 0 :: t) (i : Int) result = true := by
  constructor
  · unfold opl_parse_string Opl.parseString
    exact StrOut_of_flow s i result _ _ _
      (src_tie_opl_parse_string_loop_val s t (i : Int) (s.length - i) i _ fuel result _ rfl (Nat.le_refl _) hi (by rw [List.length_drop]; omega) hf)
      (fun _ _ => rfl)
  · unfold opl_parse_string_defined
    exact src_tie_opl_parse_string_loop_def s t (i : Int) (s.length - i) i fuel result _ rfl (Nat.le_refl _) hi hf

end Osmium.SrcTie.Esc
