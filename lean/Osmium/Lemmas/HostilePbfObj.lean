/-
C03 — helper lemmas for Lemmas/HostilePbf.lean: objects, dense nodes, groups, blocks, files.

`denseLoop` is written in `do` notation with `let mut`; Lean cannot generate its equation lemmas
(`unfold` fails).  `denseLoop_succ` restates one iteration as a chain of continuation-passing steps
(`stVersion … stUser`, `denseTail`) and holds by `rfl`.
-/
import Osmium.Lemmas.HostilePbfBase
namespace Osmium.HostilePbf
open Osmium.Osm Osmium.Pbf Osmium.PbfMsg Osmium.Wire
open Osmium.StringTable (lookup)

abbrev K2 := DenseCur → InfoAcc → Option (List Object)
abbrev K3 := DenseCur → InfoAcc → Bytes → Option (List Object)

def stVersion (K : K2) (c : DenseCur) (info : InfoAcc) : Option (List Object) :=
  match pop c.versions with
  | some (v, rest) =>
    (versionOf (toInt32 v)).bind fun ver => K { c with versions := rest } { info with version := ver }
  | _ => K c info

def stChangeset (K : K2) (c : DenseCur) (info : InfoAcc) : Option (List Object) :=
  match pop c.changesets with
  | some (v, rest) =>
    (changesetOf (wrap64 (c.dChangeset + unzigzag64 v))).bind fun cs =>
      K { c with changesets := rest, dChangeset := wrap64 (c.dChangeset + unzigzag64 v) } { info with changeset := cs }
  | _ => K c info

def stTimestamp (p : Params) (K : K2) (c : DenseCur) (info : InfoAcc) : Option (List Object) :=
  match pop c.timestamps with
  | some (v, rest) =>
    K { c with timestamps := rest, dTimestamp := wrap64 (c.dTimestamp + unzigzag64 v) }
      { info with timestamp := convTimestamp p.dateFactor (wrap64 (c.dTimestamp + unzigzag64 v)) }
  | _ => K c info

def stUid (K : K2) (c : DenseCur) (info : InfoAcc) : Option (List Object) :=
  match pop c.uids with
  | some (v, rest) =>
    K { c with uids := rest, dUid := wrap64 (c.dUid + unzigzag32 v) }
      { info with uid := uidOf (toInt32 (u64 (wrap64 (c.dUid + unzigzag32 v)))) }
  | _ => K c info

def stVisible (K : K2) (c : DenseCur) (info : InfoAcc) : Option (List Object) :=
  match pop c.visibles with
  | some (v, rest) => K { c with visibles := rest } { info with visible := toInt32 v != 0 }
  | _ => K c info

def stUser (p : Params) (K : K3) (user : Bytes) (c : DenseCur) (info : InfoAcc) : Option (List Object) :=
  match pop c.userSids with
  | some (v, rest) =>
    (lookup p.strings (wrap64 (c.dUserSid + unzigzag32 v))).bind fun u =>
      K { c with userSids := rest, dUserSid := wrap64 (c.dUserSid + unzigzag32 v) } info u
  | _ => K c info user

def tailK (p : Params) (k : DenseCur → List Object → Option (List Object)) (id : Int) (acc : List Object)
    (c : DenseCur) (info : InfoAcc) (user : Bytes) (lonv : Nat) (lons' : List Nat) (latv : Nat) (lats' : List Nat)
    (x : List Tag × List Nat) : Option (List Object) :=
  k { c with lons := lons', lats := lats', dLon := wrap64 (c.dLon + unzigzag64 lonv),
             dLat := wrap64 (c.dLat + unzigzag64 latv), tags := x.2 }
    (.node { id := id, version := info.version, visible := info.visible, timestamp := info.timestamp,
             changeset := info.changeset, uid := info.uid, user := user, tags := x.1 }
       (if info.visible then Location.mk (convCoord p.granularity p.lonOffset (wrap64 (c.dLon + unzigzag64 lonv)))
                                         (convCoord p.granularity p.latOffset (wrap64 (c.dLat + unzigzag64 latv)))
        else Location.undefined) :: acc)

def denseTail (p : Params) (k : DenseCur → List Object → Option (List Object)) (id : Int) (acc : List Object)
    (c : DenseCur) (info : InfoAcc) (user : Bytes) : Option (List Object) :=
  match c.lons, c.lats with
  | lonv :: lons', latv :: lats' =>
    if c.tags.isEmpty then (some ([], [])).bind (tailK p k id acc c info user lonv lons' latv lats')
    else (denseTags p c.tags.length c.tags).bind (tailK p k id acc c info user lonv lons' latv lats')
  | _, _ => none

theorem denseLoop_zero (p : Params) (hasInfo : Bool) (c : DenseCur) (acc : List Object) :
    denseLoop p hasInfo 0 c acc = some acc.reverse := rfl

theorem denseLoop_succ (p : Params) (hasInfo : Bool) (fuel : Nat) (c : DenseCur) (acc : List Object) :
    denseLoop p hasInfo (fuel + 1) c acc =
      match c.ids with
      | [] => some acc.reverse
      | idv :: ids' =>
        if c.lons.isEmpty || c.lats.isEmpty then none
        else if hasInfo then
          stVersion (stChangeset (stTimestamp p (stUid (stVisible (stUser p
            (denseTail p (denseLoop p hasInfo fuel) (wrap64 (c.dId + unzigzag64 idv)) acc) [])))))
            { c with ids := ids', dId := wrap64 (c.dId + unzigzag64 idv) } {}
        else denseTail p (denseLoop p hasInfo fuel) (wrap64 (c.dId + unzigzag64 idv)) acc
            { c with ids := ids', dId := wrap64 (c.dId + unzigzag64 idv) } {} [] := by
  rfl

/-! ### object-level facts -/

theorem objOk_node {m : Meta} {l : Location} (hu : LenOk m.user) (ht : TagsOk m.tags) : ObjOk (.node m l) := by
  refine ⟨?_, trivial⟩
  intro s hs
  simp only [strsOf, List.mem_cons] at hs
  rcases hs with rfl | hs
  · exact hu
  · exact ht s hs

theorem objOk_way {m : Meta} {ns : List NodeRef} (hu : LenOk m.user) (ht : TagsOk m.tags) : ObjOk (.way m ns) := by
  refine ⟨?_, trivial⟩
  intro s hs
  simp only [strsOf, List.mem_cons] at hs
  rcases hs with rfl | hs
  · exact hu
  · exact ht s hs

theorem objOk_relation {m : Meta} {ms : List Member} (hu : LenOk m.user) (ht : TagsOk m.tags)
    (hm : ∀ x ∈ ms, LenOk x.role) : ObjOk (.relation m ms) := by
  refine ⟨?_, trivial⟩
  intro s hs
  simp only [strsOf, List.mem_cons, List.mem_append, List.mem_map] at hs
  rcases hs with (rfl | hs) | ⟨x, hx, rfl⟩
  · exact hu
  · exact ht s hs
  · exact hm x hx

theorem decodeNode_ok (p : Params) (hp : TableOk p) (r : ROpts) (fs : List Field) (o : Object)
    (h : decodeNode p r fs = some o) : ObjOk o := by
  simp only [decodeNode, Option.bind_eq_bind, Option.bind_eq_some_iff, Option.pure_def] at h
  obtain ⟨s, hs, h⟩ := h
  have key : ∃ loc tags, finishTags p s = some tags ∧ Object.node (mkMeta s tags) loc = o := by
    split at h
    · split at h
      · simp at h
      · simp only [Option.bind_some, Option.bind_eq_some_iff, Option.some.injEq] at h
        obtain ⟨tags, ht, rfl⟩ := h
        exact ⟨_, _, ht, rfl⟩
    · simp only [Option.bind_some, Option.bind_eq_some_iff, Option.some.injEq] at h
      obtain ⟨tags, ht, rfl⟩ := h
      exact ⟨_, _, ht, rfl⟩
  obtain ⟨loc, tags, htags, rfl⟩ := key
  exact objOk_node
    (decodeMsg_inv (nodeStep p r) (fun s => LenOk s.user) (fun s f s' => nodeStep_ok p hp r s f s') _ _ _ lenOk_nil hs)
    (finishTags_ok p hp s tags htags)

theorem decodeWay_ok (p : Params) (hp : TableOk p) (r : ROpts) (fs : List Field) (o : Object)
    (h : decodeWay p r fs = some o) : ObjOk o := by
  simp only [decodeWay, Option.bind_eq_bind, Option.bind_eq_some_iff, Option.pure_def, Option.some.injEq] at h
  obtain ⟨s, hs, refs, _, lats, _, lons, _, tags, htags, rfl⟩ := h
  exact objOk_way
    (decodeMsg_inv (wayStep p r) (fun s => LenOk s.user) (fun s f s' => wayStep_ok p hp r s f s') _ _ _ lenOk_nil hs)
    (finishTags_ok p hp s tags htags)

theorem decodeRelation_ok (p : Params) (hp : TableOk p) (r : ROpts) (fs : List Field) (o : Object)
    (h : decodeRelation p r fs = some o) : ObjOk o := by
  simp only [decodeRelation, Option.bind_eq_bind, Option.bind_eq_some_iff, Option.pure_def, Option.some.injEq] at h
  obtain ⟨s, hs, roles, _, refs, _, types, _, ms, hms, tags, htags, rfl⟩ := h
  exact objOk_relation
    (decodeMsg_inv (relationStep p r) (fun s => LenOk s.user) (fun s f s' => relationStep_ok p hp r s f s') _ _ _ lenOk_nil hs)
    (finishTags_ok p hp s tags htags) (buildMembers_ok p hp _ _ _ _ hms)

/-! ### dense nodes -/

theorem denseTags_ok (p : Params) (hp : TableOk p) : ∀ (fuel : Nat) (ts : List Nat) (x : List Tag × List Nat),
    denseTags p fuel ts = some x → TagsOk x.1 := by
  intro fuel
  induction fuel with
  | zero => intro ts x h; simp [denseTags] at h; subst h; exact tagsOk_nil
  | succ fuel ih =>
    intro ts x h
    cases ts with
    | nil => simp [denseTags] at h; subst h; exact tagsOk_nil
    | cons k ts =>
      simp only [denseTags] at h
      split at h
      · injection h with h; subst h; exact tagsOk_nil
      · simp only [Option.bind_eq_bind, Option.bind_eq_some_iff] at h
        obtain ⟨key, hk, h⟩ := h
        split at h
        · cases h
        · simp only [Option.bind_eq_some_iff, Option.pure_def, Option.some.injEq] at h
          obtain ⟨val, hv, y, hy, rfl⟩ := h
          exact tagsOk_cons (lookup_ok hp hk) (lookup_ok hp hv) (ih _ _ hy)

/-- the continuation is reached -/
def Reach2 (K : K2) (r : List Object) : Prop := ∃ c info, K c info = some r

theorem stVersion_reach (K : K2) (c : DenseCur) (info : InfoAcc) (r : List Object)
    (h : stVersion K c info = some r) : Reach2 K r := by
  unfold stVersion at h
  split at h
  · simp only [Option.bind_eq_some_iff] at h
    obtain ⟨_, _, h⟩ := h
    exact ⟨_, _, h⟩
  · exact ⟨_, _, h⟩

theorem stChangeset_reach (K : K2) (c : DenseCur) (info : InfoAcc) (r : List Object)
    (h : stChangeset K c info = some r) : Reach2 K r := by
  unfold stChangeset at h
  split at h
  · simp only [Option.bind_eq_some_iff] at h
    obtain ⟨_, _, h⟩ := h
    exact ⟨_, _, h⟩
  · exact ⟨_, _, h⟩

theorem stTimestamp_reach (p : Params) (K : K2) (c : DenseCur) (info : InfoAcc) (r : List Object)
    (h : stTimestamp p K c info = some r) : Reach2 K r := by
  unfold stTimestamp at h
  split at h
  · exact ⟨_, _, h⟩
  · exact ⟨_, _, h⟩

theorem stUid_reach (K : K2) (c : DenseCur) (info : InfoAcc) (r : List Object)
    (h : stUid K c info = some r) : Reach2 K r := by
  unfold stUid at h
  split at h
  · exact ⟨_, _, h⟩
  · exact ⟨_, _, h⟩

theorem stVisible_reach (K : K2) (c : DenseCur) (info : InfoAcc) (r : List Object)
    (h : stVisible K c info = some r) : Reach2 K r := by
  unfold stVisible at h
  split at h
  · exact ⟨_, _, h⟩
  · exact ⟨_, _, h⟩

theorem stUser_reach (p : Params) (hp : TableOk p) (K : K3) (user : Bytes) (hu : LenOk user) (c : DenseCur)
    (info : InfoAcc) (r : List Object) (h : stUser p K user c info = some r) :
    ∃ c' info' u, LenOk u ∧ K c' info' u = some r := by
  unfold stUser at h
  split at h
  · simp only [Option.bind_eq_some_iff] at h
    obtain ⟨u, hl, h⟩ := h
    exact ⟨_, _, u, lookup_ok hp hl, h⟩
  · exact ⟨_, _, user, hu, h⟩

theorem denseTail_reach (p : Params) (hp : TableOk p) (k : DenseCur → List Object → Option (List Object)) (id : Int)
    (acc : List Object) (c : DenseCur) (info : InfoAcc) (user : Bytes) (hu : LenOk user) (r : List Object)
    (h : denseTail p k id acc c info user = some r) : ∃ c' o, ObjOk o ∧ k c' (o :: acc) = some r := by
  unfold denseTail at h
  split at h
  · split at h
    · simp only [Option.bind_some, tailK] at h
      exact ⟨_, _, objOk_node hu tagsOk_nil, h⟩
    · simp only [Option.bind_eq_some_iff, tailK] at h
      obtain ⟨x, hx, h⟩ := h
      exact ⟨_, _, objOk_node hu (denseTags_ok p hp _ _ _ hx), h⟩
  · cases h

theorem denseLoop_step (p : Params) (hp : TableOk p) (hasInfo : Bool) (fuel : Nat) (c : DenseCur)
    (acc r : List Object) (h : denseLoop p hasInfo (fuel + 1) c acc = some r) :
    r = acc.reverse ∨ ∃ c' o, ObjOk o ∧ denseLoop p hasInfo fuel c' (o :: acc) = some r := by
  rw [denseLoop_succ] at h
  split at h
  · injection h with h; exact Or.inl h.symm
  · right
    split at h
    · cases h
    · split at h
      · obtain ⟨_, _, h⟩ := stVersion_reach _ _ _ _ h
        obtain ⟨_, _, h⟩ := stChangeset_reach _ _ _ _ h
        obtain ⟨_, _, h⟩ := stTimestamp_reach _ _ _ _ _ h
        obtain ⟨_, _, h⟩ := stUid_reach _ _ _ _ h
        obtain ⟨_, _, h⟩ := stVisible_reach _ _ _ _ h
        obtain ⟨_, _, u, hu, h⟩ := stUser_reach p hp _ _ lenOk_nil _ _ _ h
        exact denseTail_reach p hp _ _ _ _ _ _ hu _ h
      · exact denseTail_reach p hp _ _ _ _ _ _ lenOk_nil _ h

theorem denseLoop_ok (p : Params) (hp : TableOk p) (hasInfo : Bool) : ∀ (fuel : Nat) (c : DenseCur)
    (acc r : List Object), (∀ o ∈ acc, ObjOk o) → denseLoop p hasInfo fuel c acc = some r → ∀ o ∈ r, ObjOk o := by
  intro fuel
  induction fuel with
  | zero =>
    intro c acc r ha h
    rw [denseLoop_zero] at h
    injection h with h; subst h
    intro o ho; exact ha o (List.mem_reverse.mp ho)
  | succ fuel ih =>
    intro c acc r ha h
    rcases denseLoop_step p hp hasInfo fuel c acc r h with rfl | ⟨c', o, ho, h'⟩
    · intro o ho; exact ha o (List.mem_reverse.mp ho)
    · refine ih c' (o :: acc) r ?_ h'
      intro x hx
      rcases List.mem_cons.mp hx with rfl | hx
      · exact ho
      · exact ha x hx

theorem decodeDense_ok (p : Params) (hp : TableOk p) (r : ROpts) (fs : List Field) (os : List Object)
    (h : decodeDense p r fs = some os) : ∀ o ∈ os, ObjOk o := by
  simp only [decodeDense, Option.bind_eq_bind, Option.bind_eq_some_iff] at h
  obtain ⟨s, _, ids, _, _, _, _, _, _, _, _, _, _, _, _, _, _, _, _, _, _, _, h⟩ := h
  exact denseLoop_ok p hp _ _ _ _ _ (by intro o ho; cases ho) h

/-! ### groups, blocks, files -/

def AllOk (os : List Object) : Prop := ∀ o ∈ os, ObjOk o

theorem allOk_append {a b : List Object} (ha : AllOk a) (hb : AllOk b) : AllOk (a ++ b) := by
  intro o ho
  rcases List.mem_append.mp ho with h | h
  · exact ha o h
  · exact hb o h

theorem allOk_single {o : Object} (h : ObjOk o) : AllOk [o] := by
  intro x hx
  simp only [List.mem_singleton] at hx
  subst hx; exact h

theorem withFields_some {α : Type} (payload : Bytes) (k : List Field → Option α) (a : α)
    (h : withFields payload k = some a) : ∃ fs, k fs = some a := by
  unfold withFields at h
  split at h
  · cases h
  · exact ⟨_, h⟩

theorem groupStep_ok (p : Params) (hp : TableOk p) (r : ROpts) (acc : List Object) (f : Field) (acc' : List Object)
    (ha : AllOk acc) (h : groupStep p r acc f = some acc') : AllOk acc' := by
  unfold groupStep at h
  split at h
  · split at h
    · simp only [Option.map_eq_some_iff] at h
      obtain ⟨o, ho, rfl⟩ := h
      obtain ⟨fs, ho⟩ := withFields_some _ _ _ ho
      exact allOk_append ha (allOk_single (decodeNode_ok p hp r fs o ho))
    · injection h with h; subst h; exact ha
  · split at h
    · simp only [Option.map_eq_some_iff] at h
      obtain ⟨os, ho, rfl⟩ := h
      obtain ⟨fs, ho⟩ := withFields_some _ _ _ ho
      exact allOk_append ha (decodeDense_ok p hp r fs os ho)
    · injection h with h; subst h; exact ha
  · split at h
    · simp only [Option.map_eq_some_iff] at h
      obtain ⟨o, ho, rfl⟩ := h
      obtain ⟨fs, ho⟩ := withFields_some _ _ _ ho
      exact allOk_append ha (allOk_single (decodeWay_ok p hp r fs o ho))
    · injection h with h; subst h; exact ha
  · split at h
    · simp only [Option.map_eq_some_iff] at h
      obtain ⟨o, ho, rfl⟩ := h
      obtain ⟨fs, ho⟩ := withFields_some _ _ _ ho
      exact allOk_append ha (allOk_single (decodeRelation_ok p hp r fs o ho))
    · injection h with h; subst h; exact ha
  · injection h with h; subst h; exact ha

theorem blockDataStep_ok (p : Params) (hp : TableOk p) (r : ROpts) (acc : List Object) (f : Field)
    (acc' : List Object) (ha : AllOk acc) (h : blockDataStep p r acc f = some acc') : AllOk acc' := by
  unfold blockDataStep at h
  split at h
  · obtain ⟨gs, h⟩ := withFields_some _ _ _ h
    exact decodeMsg_inv (groupStep p r) AllOk (fun s f s' => groupStep_ok p hp r s f s') _ _ _ ha h
  · injection h with h; subst h; exact ha

theorem decodeBlock_ok (r : ROpts) (fs : List Field) (objs : List Object)
    (h : decodeBlock r fs = some objs) : AllOk objs := by
  simp only [decodeBlock, Option.bind_eq_bind, Option.bind_eq_some_iff] at h
  obtain ⟨p, hp, h⟩ := h
  have hp := blockMeta_ok fs p hp
  exact decodeMsg_inv (blockDataStep p r) AllOk (fun s f s' => blockDataStep_ok p hp r s f s') _ _ _
    (by intro o ho; cases ho) h

theorem decodeDataBlob_ok (inflate : Nat → Bytes → Nat → Option Bytes) (r : ROpts) (blob : Bytes)
    (objs : List Object) (h : decodeDataBlob inflate r blob = some objs) : AllOk objs := by
  simp only [decodeDataBlob, Option.bind_eq_bind, Option.bind_eq_some_iff] at h
  obtain ⟨d, _, h⟩ := h
  obtain ⟨fs, h⟩ := withFields_some _ _ _ h
  exact decodeBlock_ok r fs objs h

/-- any predicate on object lists that holds for `[]`, is preserved by `++`, and holds for every decoded
    block holds for the objects of a decoded file -/
theorem decodeFile_inv (P : List Object → Prop) (hnil : P [])
    (happ : ∀ a b, P a → P b → P (a ++ b))
    (hblob : ∀ inflate r blob objs, decodeDataBlob inflate r blob = some objs → P objs)
    (inflate : Nat → Bytes → Nat → Option Bytes) (r : ROpts) (bs : Bytes) (h : Header) (objs : List Object)
    (hd : decodeFile inflate r bs = some (h, objs)) : P objs := by
  simp only [decodeFile, Option.bind_eq_bind, Option.bind_eq_some_iff] at hd
  obtain ⟨first, _, hdr, _, hd⟩ := hd
  split at hd
  · simp only [Option.pure_def, Option.some.injEq, Prod.mk.injEq] at hd
    obtain ⟨_, rfl⟩ := hd
    exact hnil
  · simp only [Option.bind_eq_some_iff, Option.pure_def, Option.some.injEq, Prod.mk.injEq] at hd
    obtain ⟨blobs, _, os, hos, _, rfl⟩ := hd
    refine foldlM_inv _ P ?_ blobs [] os hnil hos
    intro s b s' hs hstep
    simp only [Option.map_eq_some_iff] at hstep
    obtain ⟨x, hx, rfl⟩ := hstep
    exact happ _ _ hs (hblob _ _ _ _ hx)

end Osmium.HostilePbf
