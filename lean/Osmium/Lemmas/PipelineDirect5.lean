/-
Direct-fd configuration, part 5: deadlock-freedom of the direct-fd machine, transferred through the
simulation from `no_stuck_state` of the queue-fed machine (see PipelineDirect.lean).
-/
import Osmium.Lemmas.PipelineDirect4

set_option linter.unusedSimpArgs false
set_option linter.unusedVariables false
set_option linter.unnecessarySeqFocus false
set_option linter.unusedTactic false
set_option linter.unreachableTactic false

namespace Osmium.Pipeline

open Osmium.Mon

variable {α : Type} [DecidableEq α]

namespace Direct

open Live

set_option maxHeartbeats 3200000 in
/-- once the read thread has returned, every internal step that is enabled in the corresponding state of the
    queue-fed machine is enabled in the direct-fd machine -/
theorem p_en_bwd (c : Cfg α) (sd : State α) (e : Ev α) (q : QueueSM.State Nat) (f : Nat → Option (Val α))
    (w : Nat → Val α) (ra : Option Nat) (h : (step? (fed c) (emb sd q f w ra) e).isSome = true)
    (hI : DInv sd) (hrel : Rel sd q f w) (hodd : ∀ a, sd.cpc = .readGot a → a % 2 = 1)
    (hrd : sd.rpc = .done) : (step? c sd e).isSome = true := by
  obtain ⟨h1, h2, h3⟩ := hI
  obtain ⟨r1, r2, r3, r4⟩ := hrel
  cases e with
  | qi qe =>
    cases qe <;> simp only [step?] at h ⊢ <;> (repeat' split at h) <;>
      simp_all [emb, dP, QueueSM.step?, tR, tP, tC]
  | qo qe =>
    cases qe <;> simp only [step?] at h ⊢ <;> (repeat' split at h) <;> simp_all [emb]
  | _ =>
    simp only [step?] at h ⊢ <;> (repeat' split at h) <;> simp_all [emb, dP] <;> (try split) <;> simp_all

/-! ## the read thread of the direct-fd machine never blocks -/

set_option maxHeartbeats 1600000 in
theorem d_rOk (c : Cfg α) : ∀ sd, (machineD c).Reachable sd → rOk sd.rpc (sd.inq.pc tR) := by
  apply Machine.invariant
  · simp [machineD, initD, init, QueueSM.init, rOk]
  · intro s e s' _ ih hst
    have hst : (machine c).Step s e s' := hst
    plv_cases e with hst q hq
    all_goals (try q_unfold hq)
    all_goals pc_close s ih

theorem read_enabled (c : Cfg α) (s : State α) (hpc : rOk s.rpc (s.inq.pc tR)) (hr : s.rpc ≠ .done) :
    ∃ e s', e.isCall = false ∧ step? c s e = some s' := by
  have en' : ∀ ev : Ev α, ev.isCall = false → (step? c s ev).isSome = true →
      ∃ e s', e.isCall = false ∧ step? c s e = some s' := fun ev hc h => by
    obtain ⟨s', hs⟩ := Option.isSome_iff_exists.mp h
    exact ⟨ev, s', hc, hs⟩
  cases hrpc : s.rpc with
  | done => exact absurd hrpc hr
  | loop => exact en' (.rTestDone s.stop) rfl (by simp [step?, hrpc])
  | reading =>
    by_cases h1 : c.readFault = some s.reads
    · exact en' (.rRead (.exc 1)) rfl (by simp [step?, hrpc, h1])
    · by_cases h2 : s.reads < c.chunkEnd.length
      · exact en' (.rRead (.chunk s.reads)) rfl (by simp [step?, hrpc, h1, h2])
      · exact en' (.rRead .eod) rfl (by simp [step?, hrpc, h1, h2])
  | closing =>
    refine en' (.rCloseDec (!c.closeFault)) rfl ?_
    simp only [step?, hrpc]; cases c.closeFault <;> simp
  | push v k =>
    rw [hrpc] at hpc
    simp only [rOk] at hpc
    exact en' (.qi (.pushEnter tR (2 * s.nIn))) rfl (by simp [step?, hrpc, QueueSM.step?, hpc])
  | pushing id v k =>
    rw [hrpc] at hpc
    simp only [rOk] at hpc
    rcases q_push_enabled c.inqC s.inq tR id hpc with h1 | h1 | h1 | ⟨w, h1⟩
    · exact en' (.qi (.pushTest tR s.inq.inUse)) rfl (by simpa [step?, hrpc] using h1)
    · exact en' (.qi (.pushSize tR s.inq.items.length)) rfl (by simpa [step?, hrpc] using h1)
    · exact en' (.qi (.pushFullWaited tR s.inq.items.length)) rfl (by simpa [step?, hrpc] using h1)
    · exact en' (.qi (.pushLocked tR (s.inq.items.length + 1) w)) rfl (by simpa [step?, hrpc] using h1)
  | pushed id v k => exact en' .rSet rfl (by simp [step?, hrpc])

/-- `Direct.no_stuck_state`: in every reachable state of the direct-fd machine in which an API call is in
    progress some internal step is enabled.  (`(fed c).WF`: the blob boundaries are those of the file,
    a configuration that uses the pool has a worker.) -/
theorem no_stuck_state (c : Cfg α) (hd : IsDirect c) (wf : (fed c).WF) (sd : State α)
    (h : (machineD c).Reachable sd) (h1 : sd.cpc ≠ .idle) (h2 : sd.cpc ≠ .dead) :
    ∃ e sd', e.isCall = false ∧ (machineD c).Step sd e sd' := by
  by_cases hr : sd.rpc = .done
  case neg => exact read_enabled c sd (d_rOk c sd h) hr
  obtain ⟨hI, s, hreach, hs⟩ := sim c hd sd h
  obtain ⟨e, s', hc, hst⟩ := Pipeline.no_stuck_state (fed c) wf s hreach (by rw [hs.cpc]; exact h1)
    (by rw [hs.cpc]; exact h2)
  have hst : step? (fed c) s e = some s' := hst
  rw [hs.eq_emb] at hst
  have hodd : ∀ a, sd.cpc = .readGot a → a % 2 = 1 := fun a ha =>
    (Live.readGot_odd (fed c) s hreach a (by rw [hs.cpc]; exact ha)).1
  have := p_en_bwd c sd e s.inq s.fut s.want s.readsAtClose (by rw [hst]; rfl) hI hs.rel hodd hr
  obtain ⟨sd', hsd'⟩ := Option.isSome_iff_exists.mp this
  exact ⟨e, sd', hc, hsd'⟩

end Direct

end Osmium.Pipeline
