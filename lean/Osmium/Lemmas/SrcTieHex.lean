/-
`src_tie_*` lemmas for the hex-digit writers of the OPL escaping (io/detail/string_util.hpp): `append_2_hex_digits(out, value,
hex_digits)` and `append_min_4_hex_digits(out, value, hex_digits)`, TRANSLATED by tools/cxx2lean.py
(`Src.StringUtil.append_2_hex_digits / append_min_4_hex_digits` with its `for (shift = 28; shift >= 16; shift -= 4)` loop), against
the models `Opl.hex2` / `Opl.hexMin4` (`hexLead`) of the C14 theorems (Osmium/Model/Escape.lean).
`hex_digits` is a pointer into the ONE byte array of the translation: the table `lookup_hex = "0123456789abcdef"` lies at
index `h` of it (`HexTable buf h`: the sixteen bytes there are the model's `hexDigit 0 … 15`).
-/
import Osmium.Model.Escape
import Osmium.Lemmas.SrcTieEsc

set_option Elab.async false
set_option linter.unusedSimpArgs false

namespace Osmium.SrcTie.Hex

open Osmium.Generated Osmium.CxxSem Osmium.Conv Osmium.Cursor Osmium.SrcTie.Coord Osmium.SrcTie.Esc
open Src.StringUtil

/-- the sixteen bytes at index `h` of the array are the lower-case hex digits (`lookup_hex`) -/
def HexTable (buf : Buf) (h : Int) : Prop :=
  ∀ k : Nat, k < 16 → inB buf (h + (k : Int)) = true ∧ rdS buf (h + (k : Int)) = sc (Opl.hexDigit k)

theorem nib_lt (v k : Nat) : Opl.nib v k < 16 := by
  unfold Opl.nib
  exact Nat.lt_of_le_of_lt Nat.and_le_right (by decide)

/-- `(value >> k) & 0xf` as the model's `nib` -/
theorem nib_int (v k : Nat) (x : Int) (hx : x = (k : Int)) : band (shr (v : Int) x) 15 = ((Opl.nib v k : Nat) : Int) := by
  subst hx
  simp only [band, shr, Int.toNat_natCast, Int.reduceToNat, Opl.nib]

theorem nib0_int (v : Nat) : band (v : Int) 15 = ((Opl.nib v 0 : Nat) : Int) := by
  simp only [band, Int.toNat_natCast, Int.reduceToNat, Opl.nib, Nat.shiftRight_zero]

/-- appending `hex_digits[nib]` -/
theorem push_hex (buf : Buf) (h : Int) (hT : HexTable buf h) (out : Buf) (d : Nat) (hd : d < 16) (x : Int) (hx : x = (d : Int)) :
    push out (rdS buf (h + x)) = out ++ [Opl.hexDigit d] ∧ inB buf (h + x) = true := by
  subst hx
  obtain ⟨h1, h2⟩ := hT d hd
  exact ⟨by rw [h2, push_sc], h1⟩

theorem src_tie_append_2_hex_digits (buf : Buf) (h : Int) (hT : HexTable buf h) (out : Buf) (v : Nat) :
    append_2_hex_digits buf out (v : Int) h = .normal (out ++ Opl.hex2 v) () ∧
    append_2_hex_digits_defined buf out (v : Int) h = true := by
  have a1 := push_hex buf h hT out (Opl.nib v 4) (nib_lt v 4) _ (nib_int v 4 4 rfl)
  have a2 := push_hex buf h hT (out ++ [Opl.hexDigit (Opl.nib v 4)]) (Opl.nib v 0) (nib_lt v 0) _ (nib0_int v)
  constructor
  · unfold append_2_hex_digits Opl.hex2
    simp only [a1.1, a2.1, List.append_assoc, List.cons_append, List.nil_append]
  · unfold append_2_hex_digits_defined
    have e1 : shiftOk 32 4 = true := by decide
    simp only [a1.1, a1.2, a2.2, e1, Bool.and_self]

/-- `split` on the next generated `if`; hypotheses in arithmetic / Bool-atom form, impossible branches closed -/
macro "split_b" : tactic =>
  `(tactic| (split <;> (
      rename_i hc
      try cond_norm at hc
      try simp only [Bool.false_eq_true, Bool.true_eq_false, eq_self, or_false, false_or, or_true, true_or, and_false, false_and, and_true, true_and, not_true_eq_false, not_false_eq_true] at hc
      try (first | (exfalso; omega) | (exfalso; exact hc) | (exfalso; exact hc trivial)))))

/-- the shifts the loop still has to do when `shift = 12 + 4 n` -/
def shifts : Nat → List Nat
  | 0 => []
  | n + 1 => (12 + 4 * (n + 1)) :: shifts n

theorem shifts_four : shifts 4 = [28, 24, 20, 16] := rfl

theorem hexLead_cons (k : Nat) (ks : List Nat) (v : Nat) (started : Bool) :
    Opl.hexLead (k :: ks) v started =
      if Opl.nib v k ≠ 0 ∨ started = true then Opl.hexDigit (Opl.nib v k) :: Opl.hexLead ks v true else Opl.hexLead ks v false := rfl

/-- the loop `for (shift = 28; shift >= 16; shift -= 4)`: `hexLead`; `n` = iterations left -/
theorem src_tie_append_min_4_hex_digits_loop (buf : Buf) (h : Int) (hT : HexTable buf h) (v : Nat) :
    ∀ (n fuel : Nat) (out : Buf) (started : Bool) (kI : Int), kI = ((12 + 4 * n : Nat) : Int) → n ≤ 4 → n < fuel →
      (∃ st', append_min_4_hex_digits.loop_1 fuel buf out (v : Int) h started kI =
        .next (out ++ Opl.hexLead (shifts n) v started, st', 12)) ∧
      append_min_4_hex_digits.loop_1_defined fuel buf out (v : Int) h started kI = true := by
  intro n
  induction n with
  | zero =>
    intro fuel out started kI hk hn hf
    subst hk
    obtain ⟨f, rfl⟩ : ∃ f, fuel = f + 1 := ⟨fuel - 1, by omega⟩
    constructor
    · refine ⟨started, ?_⟩
      unfold append_min_4_hex_digits.loop_1
      split_n
      simp only [shifts, Opl.hexLead, List.append_nil]
      rfl
    · unfold append_min_4_hex_digits.loop_1_defined
      split_n
      rfl
  | succ n ih =>
    intro fuel out started kI hk hn hf
    subst hk
    obtain ⟨f, rfl⟩ : ∃ f, fuel = f + 1 := ⟨fuel - 1, by omega⟩
    have hnib := nib_int v (12 + 4 * (n + 1)) _ rfl
    have hlt := nib_lt v (12 + 4 * (n + 1))
    have hp := push_hex buf h hT out (Opl.nib v (12 + 4 * (n + 1))) hlt _ rfl
    have hw : wrapU 32 (((12 + 4 * (n + 1) : Nat) : Int) - 4) = ((12 + 4 * n : Nat) : Int) := by
      have e : (2 : Int) ^ 32 = 4294967296 := by decide
      unfold wrapU; rw [e]; omega
    have hso : shiftOk 32 ((12 + 4 * (n + 1) : Nat) : Int) = true := by
      simp only [shiftOk_iff]; omega
    rw [shifts, hexLead_cons]
    by_cases hc : Opl.nib v (12 + 4 * (n + 1)) ≠ 0 ∨ started = true
    · rw [if_pos hc]
      obtain ⟨⟨st', ih1⟩, ih2⟩ := ih f (out ++ [Opl.hexDigit (Opl.nib v (12 + 4 * (n + 1)))]) true _ hw (by omega) (by omega)
      have hfin : ∀ (o : Buf) (b : Bool), o = out ++ [Opl.hexDigit (Opl.nib v (12 + 4 * (n + 1)))] → b = true →
          (∃ st', append_min_4_hex_digits.loop_1 f buf o (v : Int) h b ((12 + 4 * n : Nat) : Int) =
            .next (out ++ Opl.hexDigit (Opl.nib v (12 + 4 * (n + 1))) :: Opl.hexLead (shifts n) v true, st', 12)) ∧
          append_min_4_hex_digits.loop_1_defined f buf o (v : Int) h b ((12 + 4 * n : Nat) : Int) = true := by
        intro o b ho hb; subst ho hb
        exact ⟨⟨st', by rw [← hw, ih1, List.append_assoc]; rfl⟩, by rw [← hw]; exact ih2⟩
      rcases hc with hc | hc
      · constructor
        · unfold append_min_4_hex_digits.loop_1
          simp only [hnib, hp.1, hw]
          repeat' split_b
          all_goals exact (hfin _ _ rfl rfl).1
        · unfold append_min_4_hex_digits.loop_1_defined
          simp only [hnib, hp.1, hp.2, hw, hso, Bool.true_and]
          repeat' split_b
          all_goals first | exact (hfin _ _ rfl rfl).2 | (simp only [Bool.true_and]; exact (hfin _ _ rfl rfl).2)
      · subst hc
        constructor
        · unfold append_min_4_hex_digits.loop_1
          simp only [hnib, hp.1, hw]
          repeat' split_b
          all_goals exact (hfin _ _ rfl rfl).1
        · unfold append_min_4_hex_digits.loop_1_defined
          simp only [hnib, hp.1, hp.2, hw, hso, Bool.true_and]
          repeat' split_b
          all_goals first | exact (hfin _ _ rfl rfl).2 | (simp only [Bool.true_and]; exact (hfin _ _ rfl rfl).2)
    · rw [if_neg hc]
      have hc1 : Opl.nib v (12 + 4 * (n + 1)) = 0 := by
        by_cases e : Opl.nib v (12 + 4 * (n + 1)) = 0
        · exact e
        · exact absurd (Or.inl e) hc
      have hc2 : started = false := by
        cases started with
        | false => rfl
        | true => exact absurd (Or.inr rfl) hc
      subst hc2
      obtain ⟨⟨st', ih1⟩, ih2⟩ := ih f out false _ hw (by omega) (by omega)
      constructor
      · refine ⟨st', ?_⟩
        unfold append_min_4_hex_digits.loop_1
        simp only [hnib, hw]
        repeat' split_b
        all_goals (rw [← hw, ih1])
      · unfold append_min_4_hex_digits.loop_1_defined
        simp only [hnib, hw, hso, Bool.true_and]
        repeat' split_b
        all_goals first | (rw [← hw]; exact ih2) | (simp only [Bool.true_and]; rw [← hw]; exact ih2)

/-- `append_min_4_hex_digits(out, value, lookup_hex)` appends the model's `hexMin4 value`; every table read is in bounds;
    any fuel ≥ 5 suffices (four iterations) -/
theorem src_tie_append_min_4_hex_digits (buf : Buf) (h : Int) (hT : HexTable buf h) (out : Buf) (v fuel : Nat) (hf : 5 ≤ fuel) :
    append_min_4_hex_digits fuel buf out (v : Int) h = .normal (out ++ Opl.hexMin4 v) () ∧
    append_min_4_hex_digits_defined fuel buf out (v : Int) h = true := by
  obtain ⟨⟨st', hl⟩, hd⟩ := src_tie_append_min_4_hex_digits_loop buf h hT v 4 fuel out false 28 rfl (Nat.le_refl _) (by omega)
  rw [shifts_four] at hl
  have a1 := fun o => push_hex buf h hT o (Opl.nib v 12) (nib_lt v 12) _ (nib_int v 12 12 rfl)
  have a2 := fun o => push_hex buf h hT o (Opl.nib v 8) (nib_lt v 8) _ (nib_int v 8 8 rfl)
  have a3 := fun o => push_hex buf h hT o (Opl.nib v 4) (nib_lt v 4) _ (nib_int v 4 4 rfl)
  have a4 := fun o => push_hex buf h hT o (Opl.nib v 0) (nib_lt v 0) _ (nib0_int v)
  have e1 : shiftOk 32 12 = true := by decide
  have e2 : shiftOk 32 8 = true := by decide
  have e3 : shiftOk 32 4 = true := by decide
  constructor
  · unfold append_min_4_hex_digits Opl.hexMin4
    simp only [hl, Flow.seq_next, (a1 _).1, (a2 _).1, (a3 _).1, (a4 _).1, List.append_assoc, List.cons_append, List.nil_append]
  · unfold append_min_4_hex_digits_defined
    simp only [hl, hd, Flow.andThen_next, (a1 _).1, (a1 out).2, (a2 _).1, (a2 out).2, (a3 _).1, (a3 out).2, (a4 out).2, e1, e2, e3, Bool.and_self]

end Osmium.SrcTie.Hex
