/-
Helper lemmas for C16: key-function characterisation of the comparators, generic
strict-weak-order lemma, CheckOrder invariant.
-/
import Osmium.Lemmas.Lex

namespace Osmium.Order

/-! ### lexLt on appended keys -/

theorem lexLt_append : ∀ (p q x y : List Nat), p.length = q.length →
    lexLt (p ++ x) (q ++ y) = (lexLt p q || (!(lexLt q p) && lexLt x y))
  | [], [], x, y, _ => by simp [lexLt]
  | [], _ :: _, _, _, h => by simp at h
  | _ :: _, [], _, _, h => by simp at h
  | a :: p, b :: q, x, y, h => by
    have ih := lexLt_append p q x y (by simpa using h)
    simp only [List.cons_append, lexLt, ih]
    by_cases h1 : a < b <;> by_cases h2 : b < a <;> simp [h1, h2]

/-- A strict weak ordering on the objects satisfying `S`. -/
structure StrictWeakOn {α : Type} (S : α → Prop) (lt : α → α → Bool) : Prop where
  irrefl : ∀ a, S a → lt a a = false
  asymm : ∀ a b, S a → S b → lt a b = true → lt b a = false
  trans : ∀ a b c, S a → S b → S c → lt a b = true → lt b c = true → lt a c = true
  incomp_trans : ∀ a b c, S a → S b → S c →
    lt a b = false → lt b a = false → lt b c = false → lt c b = false →
    lt a c = false ∧ lt c a = false

/-- Any comparator that is `lexLt` of a fixed-length key is a strict weak ordering. -/
theorem strictWeakOn_of_key {α : Type} (S : α → Prop) (lt : α → α → Bool) (k : α → List Nat) (n : Nat)
    (hk : ∀ a, (k a).length = n)
    (hlt : ∀ a b, S a → S b → lt a b = lexLt (k a) (k b)) : StrictWeakOn S lt where
  irrefl a ha := by rw [hlt a a ha ha, lexLt_irrefl]
  asymm a b ha hb h := by
    rw [hlt a b ha hb] at h; rw [hlt b a hb ha]
    exact lexLt_asymm _ _ (by rw [hk, hk]) h
  trans a b c ha hb hc h1 h2 := by
    rw [hlt a b ha hb] at h1; rw [hlt b c hb hc] at h2; rw [hlt a c ha hc]
    exact lexLt_trans _ _ _ (by rw [hk, hk]) (by rw [hk, hk]) h1 h2
  incomp_trans a b c ha hb hc h1 h2 h3 h4 := by
    rw [hlt a b ha hb] at h1; rw [hlt b a hb ha] at h2
    rw [hlt b c hb hc] at h3; rw [hlt c b hc hb] at h4
    have e1 := lexLt_total _ _ (by rw [hk, hk]) h1 h2
    have e2 := lexLt_total _ _ (by rw [hk, hk]) h3 h4
    rw [hlt a c ha hc, hlt c a hc ha, e1, e2, lexLt_irrefl]
    exact ⟨rfl, rfl⟩

/-- Same for a comparator that orders a first key ascending and a second key descending
    (the shape of `object_order_type_id_reverse_version`). -/
theorem strictWeakOn_of_key_rev {α : Type} (S : α → Prop) (lt : α → α → Bool)
    (k1 k2 : α → List Nat) (n1 n2 : Nat)
    (hk1 : ∀ a, (k1 a).length = n1) (hk2 : ∀ a, (k2 a).length = n2)
    (hlt : ∀ a b, S a → S b → lt a b = lexLt (k1 a ++ k2 b) (k1 b ++ k2 a)) : StrictWeakOn S lt where
  irrefl a ha := by rw [hlt a a ha ha, lexLt_irrefl]
  asymm a b ha hb h := by
    rw [hlt a b ha hb] at h; rw [hlt b a hb ha]
    exact lexLt_asymm _ _ (by simp [hk1, hk2]) h
  trans a b c ha hb hc h1 h2 := by
    rw [hlt a b ha hb, lexLt_append _ _ _ _ (by rw [hk1, hk1])] at h1
    rw [hlt b c hb hc, lexLt_append _ _ _ _ (by rw [hk1, hk1])] at h2
    rw [hlt a c ha hc, lexLt_append _ _ _ _ (by rw [hk1, hk1])]
    simp only [Bool.or_eq_true, Bool.and_eq_true, Bool.not_eq_true'] at *
    have l1 : (k1 a).length = (k1 b).length := by rw [hk1, hk1]
    have l2 : (k1 b).length = (k1 c).length := by rw [hk1, hk1]
    have m1 : (k2 c).length = (k2 b).length := by rw [hk2, hk2]
    have m2 : (k2 b).length = (k2 a).length := by rw [hk2, hk2]
    rcases h1 with h1 | ⟨h1, h1'⟩ <;> rcases h2 with h2 | ⟨h2, h2'⟩
    · left; exact lexLt_trans _ _ _ l1 l2 h1 h2
    · -- k1 a < k1 b, k1 b ≤ k1 c
      cases hcb : lexLt (k1 b) (k1 c) with
      | true => left; exact lexLt_trans _ _ _ l1 l2 h1 hcb
      | false =>
        have e := lexLt_total _ _ l2 hcb h2
        left; rw [← e]; exact h1
    · cases hab : lexLt (k1 a) (k1 b) with
      | true => left; exact lexLt_trans _ _ _ l1 l2 hab h2
      | false =>
        have e := lexLt_total _ _ l1 hab h1
        left; rw [e]; exact h2
    · cases hab : lexLt (k1 a) (k1 b) with
      | true =>
        cases hbc : lexLt (k1 b) (k1 c) with
        | true => left; exact lexLt_trans _ _ _ l1 l2 hab hbc
        | false => left; rw [← lexLt_total _ _ l2 hbc h2]; exact hab
      | false =>
        have e1 := lexLt_total _ _ l1 hab h1
        cases hbc : lexLt (k1 b) (k1 c) with
        | true => left; rw [e1]; exact hbc
        | false =>
          have e2 := lexLt_total _ _ l2 hbc h2
          right
          refine ⟨by rw [e1, ← e2]; exact lexLt_irrefl _, ?_⟩
          exact lexLt_trans _ _ _ m1 m2 h2' h1'
  incomp_trans a b c ha hb hc h1 h2 h3 h4 := by
    rw [hlt a b ha hb] at h1; rw [hlt b a hb ha] at h2
    rw [hlt b c hb hc] at h3; rw [hlt c b hc hb] at h4
    have e1 := lexLt_total _ _ (by simp [hk1, hk2]) h1 h2
    have e2 := lexLt_total _ _ (by simp [hk1, hk2]) h3 h4
    have l1 : (k1 a).length = (k1 b).length := by rw [hk1, hk1]
    have l2 : (k1 b).length = (k1 c).length := by rw [hk1, hk1]
    have ⟨a1, a2⟩ := List.append_inj e1 l1
    have ⟨b1, b2⟩ := List.append_inj e2 l2
    rw [hlt a c ha hc, hlt c a hc ha, a1, b1, b2, a2, lexLt_irrefl]
    exact ⟨rfl, rfl⟩

/-! ### keys -/

/-- (id > 0, |id|): the part of every comparator key that implements the documented id
    rule "0 first, then negative ids, then positive ids, each by absolute value". -/
def idKey (id : Int) : List Nat := [b2n (decide (id > 0)), id.natAbs]

/-- (type, id > 0, |id|) -/
def tiKey (o : Obj) : List Nat := o.type :: idKey o.id

theorem idKey_inj (a b : Int) (h : idKey a = idKey b) : a = b := by
  simp only [idKey, b2n, List.cons.injEq, and_true] at h
  obtain ⟨h1, h2⟩ := h
  by_cases ha : a > 0 <;> by_cases hb : b > 0 <;> simp [ha, hb] at h1 <;> omega

theorem idOrder_eq_key (a b : Int) : idOrder a b = lexLt (idKey a) (idKey b) := by
  unfold idOrder idKey lexLt lexLt lexLt b2n
  by_cases h1 : b = 0 <;> by_cases h2 : a = 0 <;> by_cases h3 : a < 0 <;> by_cases h4 : b < 0
    <;> by_cases h5 : a > 0 <;> by_cases h6 : b > 0
    <;> simp [h1, h2, h3, h4, h5, h6] <;> omega

end Osmium.Order

namespace Osmium.Order

/-! ### CheckOrder -/

/-- sort key of a stream element: (type, id > 0, |id|) -/
def ckey (x : Kind × Int) : List Nat := x.1.toNat :: idKey x.2

/-- "strictly before" in the documented file order -/
def ckLt (a b : Kind × Int) : Bool := lexLt (ckey a) (ckey b)

/-- adjacent elements strictly ascending -/
def ascending : List (Kind × Int) → Bool
  | [] => true
  | [_] => true
  | a :: b :: rest => ckLt a b && ascending (b :: rest)

/-- What the checker's state knows after an accepted non-empty prefix whose last element
    is `last`. -/
def Inv (s : CheckState) (last : Kind × Int) : Prop :=
  match last.1 with
  | .node => s.hasNode = true ∧ s.maxNode = last.2 ∧ s.hasWay = false ∧ s.hasRel = false
  | .way => s.hasWay = true ∧ s.maxWay = last.2 ∧ s.hasRel = false
  | .relation => s.hasRel = true ∧ s.maxRel = last.2

theorem ckLt_same_kind (k : Kind) (a b : Int) :
    ckLt (k, a) (k, b) = idOrder a b := by
  simp [ckLt, ckey, lexLt, idOrder_eq_key, idKey]

theorem idOrder_total (a b : Int) (h : a ≠ b) : idOrder a b = false → idOrder b a = true := by
  intro h1
  cases h2 : idOrder b a with
  | true => rfl
  | false =>
    rw [idOrder_eq_key] at h1 h2
    exact absurd (idKey_inj _ _ (lexLt_total _ _ (by simp [idKey]) h1 h2)) h

/-- One step from a state satisfying the invariant: accepted iff strictly ascending, and
    the invariant is re-established for the new last element. -/
theorem checkStep_inv (s : CheckState) (last : Kind × Int) (k : Kind) (id : Int) (h : Inv s last) :
    (ckLt last (k, id) = true → ∃ s', checkStep s k id = some s' ∧ Inv s' (k, id)) ∧
    (ckLt last (k, id) = false → checkStep s k id = none) := by
  obtain ⟨lk, lid⟩ := last
  cases lk <;> cases k <;> simp only [Inv] at h
  -- same kind: the id rule decides
  case node.node =>
    obtain ⟨h1, h2, h3, h4⟩ := h
    rw [ckLt_same_kind]
    constructor
    · intro hlt
      have hne : lid ≠ id := by intro e; subst e; simp [idOrder_eq_key, lexLt_irrefl] at hlt
      have hno : idOrder id lid = false := by
        rw [idOrder_eq_key] at *; exact lexLt_asymm _ _ (by simp [idKey]) hlt
      refine ⟨{ s with maxNode := id }, ?_, ?_⟩
      · simp [checkStep, h1, h2, h3, h4, hne, hno]
      · simp [Inv, h1, h3, h4]
    · intro hlt
      by_cases hne : lid = id
      · simp [checkStep, h1, h2, h3, h4, hne]
      · have := idOrder_total lid id hne hlt
        simp [checkStep, h1, h2, h3, h4, hne, this]
  case way.way =>
    obtain ⟨h1, h2, h3⟩ := h
    rw [ckLt_same_kind]
    constructor
    · intro hlt
      have hne : lid ≠ id := by intro e; subst e; simp [idOrder_eq_key, lexLt_irrefl] at hlt
      have hno : idOrder id lid = false := by
        rw [idOrder_eq_key] at *; exact lexLt_asymm _ _ (by simp [idKey]) hlt
      refine ⟨{ s with maxWay := id }, ?_, ?_⟩
      · simp [checkStep, h1, h2, h3, hne, hno]
      · simp [Inv, h1, h3]
    · intro hlt
      by_cases hne : lid = id
      · simp [checkStep, h1, h2, h3, hne]
      · have := idOrder_total lid id hne hlt
        simp [checkStep, h1, h2, h3, hne, this]
  case relation.relation =>
    obtain ⟨h1, h2⟩ := h
    rw [ckLt_same_kind]
    constructor
    · intro hlt
      have hne : lid ≠ id := by intro e; subst e; simp [idOrder_eq_key, lexLt_irrefl] at hlt
      have hno : idOrder id lid = false := by
        rw [idOrder_eq_key] at *; exact lexLt_asymm _ _ (by simp [idKey]) hlt
      refine ⟨{ s with maxRel := id }, ?_, ?_⟩
      · simp [checkStep, h1, h2, hne, hno]
      · simp [Inv, h1]
    · intro hlt
      by_cases hne : lid = id
      · simp [checkStep, h1, h2, hne]
      · have := idOrder_total lid id hne hlt
        simp [checkStep, h1, h2, hne, this]
  -- kind goes up: always accepted
  case node.way =>
    obtain ⟨h1, h2, h3, h4⟩ := h
    refine ⟨fun _ => ⟨{ s with maxWay := id, hasWay := true }, ?_, ?_⟩, ?_⟩
    · simp [checkStep, h3, h4]
    · simp [Inv, h4]
    · simp [ckLt, ckey, lexLt, Kind.toNat]
  case node.relation =>
    obtain ⟨h1, h2, h3, h4⟩ := h
    refine ⟨fun _ => ⟨{ s with maxRel := id, hasRel := true }, ?_, ?_⟩, ?_⟩
    · simp [checkStep, h4]
    · simp [Inv]
    · simp [ckLt, ckey, lexLt, Kind.toNat]
  case way.relation =>
    obtain ⟨h1, h2, h3⟩ := h
    refine ⟨fun _ => ⟨{ s with maxRel := id, hasRel := true }, ?_, ?_⟩, ?_⟩
    · simp [checkStep, h3]
    · simp [Inv]
    · simp [ckLt, ckey, lexLt, Kind.toNat]
  -- kind goes down: always rejected
  case way.node =>
    obtain ⟨h1, h2, h3⟩ := h
    refine ⟨?_, fun _ => by simp [checkStep, h1]⟩
    simp [ckLt, ckey, lexLt, Kind.toNat]
  case relation.node =>
    obtain ⟨h1, h2⟩ := h
    refine ⟨?_, fun _ => by simp [checkStep, h1]⟩
    simp [ckLt, ckey, lexLt, Kind.toNat]
  case relation.way =>
    obtain ⟨h1, h2⟩ := h
    refine ⟨?_, fun _ => by simp [checkStep, h1]⟩
    simp [ckLt, ckey, lexLt, Kind.toNat]

theorem checkRun_inv (s : CheckState) (last : Kind × Int) (xs : List (Kind × Int)) (h : Inv s last) :
    (checkRun s xs).isSome = ascending (last :: xs) := by
  induction xs generalizing s last with
  | nil => simp [checkRun, ascending]
  | cons x rest ih =>
    obtain ⟨k, id⟩ := x
    have hs := checkStep_inv s last k id h
    cases hlt : ckLt last (k, id) with
    | true =>
      obtain ⟨s', e, hinv⟩ := hs.1 hlt
      simp only [checkRun, e, ascending, hlt, Bool.true_and]
      exact ih s' (k, id) hinv
    | false =>
      simp [checkRun, hs.2 hlt, ascending, hlt]

theorem checkStep_init (k : Kind) (id : Int) :
    ∃ s', checkStep {} k id = some s' ∧ Inv s' (k, id) := by
  cases k
  · exact ⟨{ maxNode := id, hasNode := true }, by simp [checkStep], by simp [Inv]⟩
  · exact ⟨{ maxWay := id, hasWay := true }, by simp [checkStep], by simp [Inv]⟩
  · exact ⟨{ maxRel := id, hasRel := true }, by simp [checkStep], by simp [Inv]⟩

end Osmium.Order
