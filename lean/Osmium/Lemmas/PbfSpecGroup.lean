/-
C02, PBF: one PrimitiveGroup of the specification encoder (a run of objects of one kind, plain messages or one
DenseNodes message) through the inner loop of `decode_primitive_block_data`; the run / block splitting functions.
-/
import Osmium.Lemmas.PbfSpecNode
import Osmium.Lemmas.PbfSpecWay
import Osmium.Lemmas.PbfSpecRel
import Osmium.Lemmas.PbfSpecDenseLoop
import Osmium.Lemmas.PbfSpecDenseMsg

namespace Osmium.Pbf

open Osmium.Wire Osmium.Osm Osmium.PbfMsg
open Osmium.PbfSpec (Choices)

/-! ### `runs` and `cut` -/

/-- every run is non-empty and of one kind -/
def RunOk (r : List Object) : Prop := ∃ p t, r = p :: t ∧ ∀ x ∈ r, PbfSpec.kindOf x = PbfSpec.kindOf p

theorem spec_runs_flatten (n : Nat) : ∀ (os : List Object), (PbfSpec.runs n os).flatten = os
  | [] => rfl
  | o :: os => by
    have ih := spec_runs_flatten n os
    unfold PbfSpec.runs
    cases h : PbfSpec.runs n os with
    | nil => rw [h] at ih; simp at ih; simp [ih]
    | cons r rs =>
      rw [h] at ih
      cases r with
      | nil => simp at ih ⊢; exact ih
      | cons p t =>
        simp only
        split
        · simp at ih ⊢; exact ih
        · simp at ih ⊢; exact ih

theorem spec_runs_ok (n : Nat) : ∀ (os : List Object), ∀ r ∈ PbfSpec.runs n os, RunOk r
  | [], r, hr => by simp [PbfSpec.runs] at hr
  | o :: os, r, hr => by
    have ih := spec_runs_ok n os
    unfold PbfSpec.runs at hr
    cases h : PbfSpec.runs n os with
    | nil =>
      rw [h] at hr
      simp only [List.mem_cons, List.not_mem_nil, or_false] at hr
      subst hr
      exact ⟨o, [], rfl, fun x hx => by simp at hx; rw [hx]⟩
    | cons r0 rs =>
      rw [h] at hr ih
      cases r0 with
      | nil =>
        simp only [List.mem_cons] at hr
        rcases hr with rfl | hr
        · exact ⟨o, [], rfl, fun x hx => by simp at hx; rw [hx]⟩
        · exact ih r (List.mem_cons_of_mem _ hr)
      | cons p t =>
        simp only at hr
        obtain ⟨p', t', e0, hk0⟩ := ih (p :: t) (List.mem_cons_self ..)
        cases e0
        split at hr
        · rename_i hc
          simp only [Bool.and_eq_true, beq_iff_eq] at hc
          simp only [List.mem_cons] at hr
          rcases hr with rfl | hr
          · refine ⟨o, p :: t, rfl, fun x hx => ?_⟩
            rcases List.mem_cons.mp hx with rfl | hx
            · rfl
            · rw [hk0 x hx]; exact hc.1
          · exact ih r (List.mem_cons_of_mem _ hr)
        · simp only [List.mem_cons] at hr
          rcases hr with rfl | rfl | hr
          · exact ⟨o, [], rfl, fun x hx => by simp at hx; rw [hx]⟩
          · exact ⟨p, t, rfl, hk0⟩
          · exact ih r (List.mem_cons_of_mem _ hr)

theorem spec_cut_flatten : ∀ (fuel : Nat) (split : List Nat) (rest : Nat) (os : List Object), os.length < fuel →
    (PbfSpec.cut fuel split rest os).flatten = os
  | 0, _, _, _, h => by omega
  | fuel + 1, split, rest, [], _ => by cases split <;> simp [PbfSpec.cut]
  | fuel + 1, [], rest, o :: os, h => by
    have hlen : ((o :: os).drop (max rest 1)).length < fuel := by
      simp only [List.length_drop, List.length_cons] at *; omega
    simp only [PbfSpec.cut, List.flatten_cons, spec_cut_flatten fuel [] rest _ hlen, List.take_append_drop]
  | fuel + 1, n :: ns, rest, o :: os, h => by
    have hlen : ((o :: os).drop (max n 1)).length < fuel := by
      simp only [List.length_drop, List.length_cons] at *; omega
    simp only [PbfSpec.cut, List.flatten_cons, spec_cut_flatten fuel ns rest _ hlen, List.take_append_drop]

/-- the objects of a block are objects of the data set -/
theorem spec_cut_mem (fuel : Nat) (split : List Nat) (rest : Nat) (os : List Object) (hf : os.length < fuel)
    (b : List Object) (hb : b ∈ PbfSpec.cut fuel split rest os) : ∀ ob ∈ b, ob ∈ os := by
  intro ob hob
  rw [← spec_cut_flatten fuel split rest os hf]
  exact List.mem_flatten.mpr ⟨b, hb, hob⟩

theorem spec_runs_mem (n : Nat) (os : List Object) (r : List Object) (hr : r ∈ PbfSpec.runs n os) : ∀ ob ∈ r, ob ∈ os := by
  intro ob hob
  rw [← spec_runs_flatten n os]
  exact List.mem_flatten.mpr ⟨r, hr, hob⟩

/-! ### one group -/

/-- the nodes of a run (the `nodes` of `PbfSpec.groupMsg`) -/
def nodesOf (os : List Object) : List (Meta × Location) :=
  os.filterMap fun o => match o with | .node m l => some (m, l) | _ => none

theorem groupStep_unknown (p : Params) (r : ROpts) (acc : List Object) (f : Field) (h : groupKnown f = false) :
    groupStep p r acc f = some acc := by
  obtain ⟨tag, wt, val, payload⟩ := f
  unfold groupStep
  simp only [groupKnown] at h
  split <;> simp_all

/-- the plain item field of an object -/
def itemField (ch : Choices) (table : List Bytes) (hist : Bool) : Object → Option Field
  | .node m l => some (PbfSpec.fBytes 1 (PbfSpec.nodeMsg ch table hist m l))
  | .way m ns => some (PbfSpec.fBytes 3 (PbfSpec.wayMsg ch table hist m ns))
  | .relation m ms => some (PbfSpec.fBytes 4 (PbfSpec.relationMsg ch table hist m ms))
  | .changeset .. => none

/-- the canonical field list of a group -/
def groupFields (ch : Choices) (table : List Bytes) (hist : Bool) (os : List Object) : List Field :=
  if ch.dense && !(nodesOf os).isEmpty then [PbfSpec.fBytes 2 (PbfSpec.denseMsg ch table hist (nodesOf os))]
  else os.filterMap (itemField ch table hist)

theorem spec_groupMsg_eq (ch : Choices) (table : List Bytes) (hist : Bool) (os : List Object) :
    PbfSpec.groupMsg ch table hist os = PbfSpec.msg ch PbfSpec.kGroup (groupFields ch table hist os) := by
  unfold PbfSpec.groupMsg groupFields nodesOf
  congr 1

/-- one plain item through `groupStep` -/
theorem groupStep_item_spec (ch : Choices) (hch : ChoicesOk ch) (table : List Bytes) (hist : Bool) (ob : Object) (f : Field)
    (hf : itemField ch table hist ob = some f) (hrep : ObjRep ch ob) (htab : ∀ s ∈ PbfSpec.stringsOf ob, TableOk table s)
    (hlen : f.payload.length < 2 ^ 32) (acc : List Object) :
    groupStep (specParams ch table) {} acc f = some (acc ++ [ob]) := by
  cases ob with
  | node m l =>
    simp only [itemField, Option.some.injEq] at hf; subst hf
    simp [groupStep, PbfSpec.fBytes, spec_node ch hch table hist m l hrep htab (by simpa [PbfSpec.fBytes] using hlen)]
  | way m ns =>
    simp only [itemField, Option.some.injEq] at hf; subst hf
    simp [groupStep, PbfSpec.fBytes, spec_way ch hch table hist m ns hrep htab (by simpa [PbfSpec.fBytes] using hlen)]
  | relation m ms =>
    simp only [itemField, Option.some.injEq] at hf; subst hf
    simp [groupStep, PbfSpec.fBytes, spec_relation ch hch table hist m ms hrep htab (by simpa [PbfSpec.fBytes] using hlen)]
  | changeset => simp [itemField] at hf

/-- all plain items of a run, in order -/
theorem group_items_fold (ch : Choices) (hch : ChoicesOk ch) (table : List Bytes) (hist : Bool) :
    ∀ (os : List Object) (acc : List Object), (∀ ob ∈ os, ObjRep ch ob) →
    (∀ ob ∈ os, ∀ s ∈ PbfSpec.stringsOf ob, TableOk table s) →
    (∀ f ∈ os.filterMap (itemField ch table hist), f.payload.length < 2 ^ 32) →
    decodeMsg (groupStep (specParams ch table) {}) acc (os.filterMap (itemField ch table hist)) = some (acc ++ os)
  | [], acc, _, _, _ => by simp [decodeMsg]
  | ob :: os, acc, hrep, htab, hlen => by
    have hr := hrep ob (List.mem_cons_self ..)
    cases hf : itemField ch table hist ob with
    | none => cases ob <;> simp [itemField] at hf; simp [ObjRep] at hr
    | some f =>
      have hmem : f ∈ (ob :: os).filterMap (itemField ch table hist) := by
        simp only [List.filterMap_cons, hf]; exact List.mem_cons_self ..
      have h1 := groupStep_item_spec ch hch table hist ob f hf hr (htab ob (List.mem_cons_self ..)) (hlen f hmem) acc
      have ih := group_items_fold ch hch table hist os (acc ++ [ob]) (fun x hx => hrep x (List.mem_cons_of_mem _ hx))
        (fun x hx => htab x (List.mem_cons_of_mem _ hx)) (fun g hg => hlen g (by
          simp only [List.filterMap_cons, hf]; exact List.mem_cons_of_mem _ hg))
      unfold decodeMsg at ih ⊢
      simp only [List.filterMap_cons, hf, foldlM_cons', h1, Option.bind_some, ih]
      simp

theorem itemField_key (ch : Choices) (table : List Bytes) (hist : Bool) (ob : Object) (f : Field)
    (hf : itemField ch table hist ob = some f) : key f = (PbfSpec.kindOf ob, WireType.lengthDelimited) := by
  cases ob <;> simp [itemField] at hf <;> subst hf <;> rfl

theorem itemField_wf (ch : Choices) (table : List Bytes) (hist : Bool) (ob : Object) (f : Field)
    (hf : itemField ch table hist ob = some f) (hlen : f.payload.length < 2 ^ 32) : f.WF := by
  cases ob <;> simp [itemField] at hf <;> subst hf
  · exact wf_bytes 1 _ (by decide) (by decide) hlen
  · exact wf_bytes 3 _ (by decide) (by decide) hlen
  · exact wf_bytes 4 _ (by decide) (by decide) hlen

/-- a run of nodes consists of its `nodesOf` -/
theorem nodesOf_nodes : ∀ (r : List Object), (∀ x ∈ r, PbfSpec.kindOf x = 1) →
    r = (nodesOf r).map fun n => Object.node n.1 n.2
  | [], _ => rfl
  | x :: r, h => by
    have hx := h x (List.mem_cons_self ..)
    have ih := nodesOf_nodes r (fun y hy => h y (List.mem_cons_of_mem _ hy))
    cases x with
    | node m l =>
      simp only [nodesOf, List.filterMap_cons, List.map_cons] at ih ⊢
      rw [← ih]
    | way => simp [PbfSpec.kindOf] at hx
    | relation => simp [PbfSpec.kindOf] at hx
    | changeset => simp [PbfSpec.kindOf] at hx

theorem nodesOf_nil_of_kind (r : List Object) (h : ∀ x ∈ r, PbfSpec.kindOf x ≠ 1) : nodesOf r = [] := by
  induction r with
  | nil => rfl
  | cons x r ih =>
    have hx := h x (List.mem_cons_self ..)
    have := ih (fun y hy => h y (List.mem_cons_of_mem _ hy))
    cases x <;> simp_all [nodesOf, PbfSpec.kindOf]

/-- a whole group: the objects of the run come out in order, appended to what was decoded before -/
theorem spec_group (ch : Choices) (hch : ChoicesOk ch) (table : List Bytes) (hist : Bool) (r : List Object)
    (hrun : RunOk r) (hrep : ∀ ob ∈ r, ObjRep ch ob) (htab : ∀ ob ∈ r, ∀ s ∈ PbfSpec.stringsOf ob, TableOk table s)
    (hdense : ch.dense = true → DeltaRep 0 ((nodesOf r).map (·.1.id)))
    (hlen : (PbfSpec.groupMsg ch table hist r).length < 2 ^ 32) (acc : List Object) :
    withFields (PbfSpec.groupMsg ch table hist r) (fun gs => decodeMsg (groupStep (specParams ch table) {}) acc gs) =
      some (acc ++ r) := by
  obtain ⟨p0, t0, hr0, hkind⟩ := hrun
  rw [spec_groupMsg_eq] at hlen ⊢
  have hpl : ∀ f ∈ groupFields ch table hist r, f.wt = .lengthDelimited → f.payload.length < 2 ^ 32 := fun f hf hw =>
    Nat.lt_of_le_of_lt (payload_le_msg ch PbfSpec.kGroup _ f hf hw) hlen
  have hexu : ∀ e ∈ ch.extras PbfSpec.kGroup, groupKnown e = false := hch.extrasUnknown PbfSpec.kGroup
  -- the key all canonical fields share
  by_cases hd : (ch.dense && !(nodesOf r).isEmpty) = true
  · -- one DenseNodes message
    have hgf : groupFields ch table hist r = [PbfSpec.fBytes 2 (PbfSpec.denseMsg ch table hist (nodesOf r))] := by
      simp only [groupFields, hd, ↓reduceIte]
    simp only [Bool.and_eq_true, Bool.not_eq_true', List.isEmpty_eq_false_iff] at hd
    have hk1 : ∀ x ∈ r, PbfSpec.kindOf x = 1 := by
      -- some node exists, and the run is of one kind
      by_cases hp : PbfSpec.kindOf p0 = 1
      · intro y hy; rw [hkind y hy]; exact hp
      · exact absurd (nodesOf_nil_of_kind r (fun x hx h1 => hp (by rw [← hkind x hx]; exact h1))) hd.2
    have hrn := nodesOf_nodes r hk1
    have hdl : (PbfSpec.denseMsg ch table hist (nodesOf r)).length < 2 ^ 32 := by
      have := hpl (PbfSpec.fBytes 2 (PbfSpec.denseMsg ch table hist (nodesOf r))) (by rw [hgf]; exact List.mem_cons_self ..) rfl
      simpa [PbfSpec.fBytes] using this
    have hnrep : DenseRep ch (nodesOf r) := by
      refine ⟨fun n hn => hrep _ ?_, by simpa using hdense hd.1⟩
      rw [hrn]; exact List.mem_map.mpr ⟨n, hn, rfl⟩
    have hntab : ∀ n ∈ nodesOf r, ∀ s ∈ PbfSpec.stringsOf (.node n.1 n.2), TableOk table s := fun n hn =>
      htab _ (by rw [hrn]; exact List.mem_map.mpr ⟨n, hn, rfl⟩)
    have hdec : withFields (PbfSpec.denseMsg ch table hist (nodesOf r)) (decodeDense (specParams ch table) {}) =
        some ((nodesOf r).map fun n => Object.node n.1 n.2) := by
      rw [spec_decodeDense ch hch table hist (nodesOf r) (spec_denseCur_lt64 ch hch table hist _ hnrep hntab) hdl]
      exact spec_denseLoop ch hch table hist (nodesOf r) hnrep hntab _ (Nat.le_succ _)
    have hwf : ∀ f ∈ groupFields ch table hist r, f.WF := by
      intro f hf; rw [hgf] at hf
      simp only [List.mem_cons, List.not_mem_nil, or_false] at hf; subst hf
      exact wf_bytes 2 _ (by decide) (by decide) hdl
    unfold withFields
    rw [readFields_msg ch PbfSpec.kGroup _ hwf (hch.extrasWF _)]
    simp only
    rw [decodeMsg_arrange (groupStep (specParams ch table) {}) groupKnown (groupStep_unknown _ _) _
      (commutesOn_single _ groupKnown (groupStep_unknown _ _) (2, .lengthDelimited)) ch PbfSpec.kGroup _ acc
      (fun f hf => by rw [hgf] at hf; simp only [List.mem_cons, List.not_mem_nil, or_false] at hf; subst hf; exact Or.inl rfl)
      (fun e he => Or.inr (hexu e he)) hexu]
    rw [hgf]
    simp only [decodeMsg, List.foldlM_cons, List.foldlM_nil, groupStep, PbfSpec.fBytes, bind, Option.bind, pure]
    simp only [↓reduceIte, hdec, Option.map_some]
    rw [← hrn]
  · -- plain items
    have hgf : groupFields ch table hist r = r.filterMap (itemField ch table hist) := by
      simp only [groupFields, hd, Bool.false_eq_true, ↓reduceIte]
    have hkey : ∀ f ∈ groupFields ch table hist r, key f = (PbfSpec.kindOf p0, WireType.lengthDelimited) := by
      intro f hf
      rw [hgf] at hf
      obtain ⟨ob, hob, hfo⟩ := List.mem_filterMap.mp hf
      rw [itemField_key ch table hist ob f hfo, hkind ob hob]
    have hpl' : ∀ f ∈ r.filterMap (itemField ch table hist), f.payload.length < 2 ^ 32 := by
      intro f hf
      have hk := hkey f (by rw [hgf]; exact hf)
      exact hpl f (by rw [hgf]; exact hf) (by simp only [key, Prod.mk.injEq] at hk; exact hk.2)
    have hwf : ∀ f ∈ groupFields ch table hist r, f.WF := by
      intro f hf
      rw [hgf] at hf
      obtain ⟨ob, hob, hfo⟩ := List.mem_filterMap.mp hf
      exact itemField_wf ch table hist ob f hfo (hpl' f hf)
    unfold withFields
    rw [readFields_msg ch PbfSpec.kGroup _ hwf (hch.extrasWF _)]
    simp only
    rw [decodeMsg_arrange (groupStep (specParams ch table) {}) groupKnown (groupStep_unknown _ _) _
      (commutesOn_single _ groupKnown (groupStep_unknown _ _) (PbfSpec.kindOf p0, .lengthDelimited)) ch PbfSpec.kGroup _ acc
      (fun f hf => Or.inl (hkey f hf)) (fun e he => Or.inr (hexu e he)) hexu]
    rw [hgf]
    exact group_items_fold ch hch table hist r acc hrep htab hpl'

end Osmium.Pbf
