/-
PoolSMOutcome — the outcome of a task and its way into the future (C19).

* `Wrapper.call`: what a task wrapper with a given handler stores / lets escape;
  `std::packaged_task` (`catch (...)`) stores every outcome and lets nothing escape.
* `xmachine Wrapper.packagedTask c` (the pool with the wrapper explicit) IS `machine c`:
  same runs, never `terminated`.
* futures are written only by `taskRun` of their own job; a `taskRun` step moves no worker
  but the running one, which goes back to the loop; before the destructor starts no worker is
  stopping or has exited.
-/
import Osmium.Lemmas.PoolSM2Dtor

namespace Osmium.PoolSM

open Osmium.Mon

/-! ## the wrapper -/

/-- nothing escapes from a call of the wrapper iff its handler catches the thrown object (a
    returning function never lets anything escape), and then the shared state holds exactly
    the function's outcome -/
theorem Wrapper.call_escapes_none_iff (wr : Wrapper) (out : Outcome) :
    (wr.call out).escapes = none ↔ (out.isException = true → wr.catches out = true) := by
  cases out <;> simp only [Wrapper.call, Outcome.isException] <;> (try split) <;> simp_all

theorem Wrapper.call_stored (wr : Wrapper) (out : Outcome) (h : (wr.call out).escapes = none) :
    (wr.call out).stored = some out := by
  cases out <;> simp only [Wrapper.call] at h ⊢ <;> (try split at h) <;> simp_all

/-- an exception that escapes is the function's outcome, nothing is stored -/
theorem Wrapper.call_escapes_some (wr : Wrapper) (out ex : Outcome) (h : (wr.call out).escapes = some ex) :
    ex = out ∧ out.isException = true ∧ wr.catches out = false ∧ (wr.call out).stored = none := by
  cases out <;> simp only [Wrapper.call, Outcome.isException] at h ⊢ <;> (try split at h) <;> simp_all

/-- `std::packaged_task`: every outcome — value, std::exception-derived, anything else — goes
    into the shared state, nothing leaves `operator()` -/
@[simp] theorem Wrapper.packagedTask_call (out : Outcome) :
    Wrapper.packagedTask.call out = ⟨some out, none⟩ := by
  cases out <;> simp [Wrapper.call, Wrapper.packagedTask]

/-- `catch (const std::exception&)` lets exactly the other types through -/
theorem Wrapper.stdExceptionOnly_call (out : Outcome) :
    (Wrapper.stdExceptionOnly.call out).escapes = none ↔ ∀ ty p, out ≠ .otherExc ty p := by
  cases out <;> simp [Wrapper.call, Wrapper.stdExceptionOnly, Outcome.isStdException]

/-! ## the machine with the explicit wrapper -/

/-- with `std::packaged_task` the explicit-wrapper machine takes exactly the steps of `step?` -/
theorem xstep_packagedTask (c : Cfg) (s : State) (e : Ev) :
    xstep? Wrapper.packagedTask c ⟨s, none⟩ e = (step? c s e).map fun s' => ⟨s', none⟩ := by
  cases e <;> simp only [xstep?, Option.isSome_none, Bool.false_eq_true, if_false]
  -- taskRun
  simp only [step?, Wrapper.packagedTask_call]
  split
  · split <;> simp
  · simp

theorem xreachable_packagedTask (c : Cfg) (x : XState)
    (h : (xmachine Wrapper.packagedTask c).Reachable x) :
    x.terminated = none ∧ (machine c).Reachable x.base := by
  induction h with
  | init => exact ⟨rfl, .init⟩
  | step hr hst ih =>
    rename_i x1 e x2
    obtain ⟨ih1, ih2⟩ := ih
    obtain ⟨b, t⟩ := x1
    simp only at ih1 ih2
    subst ih1
    simp only [Machine.Step, xmachine, xstep_packagedTask, Option.map_eq_some_iff] at hst
    obtain ⟨s', hs', rfl⟩ := hst
    exact ⟨rfl, .step ih2 hs'⟩

theorem reachable_xpackagedTask (c : Cfg) (s : State) (h : (machine c).Reachable s) :
    (xmachine Wrapper.packagedTask c).Reachable ⟨s, none⟩ := by
  induction h with
  | init => exact .init
  | step hr hst ih =>
    rename_i s1 s2 e
    refine .step (e := e) ih ?_
    simp only [Machine.Step, xmachine, xstep_packagedTask, Option.map_eq_some_iff]
    exact ⟨_, hst, rfl⟩

/-- for ANY wrapper: the process is terminated by a `taskRun` step exactly when the job's
    function throws an object the wrapper's handler does not catch -/
theorem xstep_terminates_iff (wr : Wrapper) (c : Cfg) (x x' : XState) (w : Tid) (id : Nat)
    (h : xstep? wr c x (.taskRun w id) = some x') :
    ∃ out, x.base.wpc w = .running id out ∧
      (x'.terminated.isSome = true ↔ (out.isException = true ∧ wr.catches out = false)) ∧
      (x'.terminated = none → x'.base.future id = some out ∧ x'.base.wpc w = .loop) := by
  simp only [xstep?] at h
  split at h
  · cases h
  · split at h
    · rename_i id' out hw
      split at h
      · rename_i hid
        subst hid
        refine ⟨out, hw, ?_⟩
        split at h
        · rename_i he
          simp only [Option.some.injEq] at h
          subst h
          have h1 := (Wrapper.call_escapes_none_iff wr out).mp he
          have h2 := Wrapper.call_stored wr out he
          refine ⟨⟨fun hh => by simp at hh, fun hh => ?_⟩, fun _ => ⟨by simp [h2], by simp⟩⟩
          have := h1 hh.1
          rw [hh.2] at this
          cases this
        · rename_i ex he
          simp only [Option.some.injEq] at h
          subst h
          obtain ⟨_, h2, h3, _⟩ := Wrapper.call_escapes_some wr out ex he
          exact ⟨⟨fun _ => ⟨h2, h3⟩, fun _ => rfl⟩, fun hh => by simp at hh⟩
      · cases h
    · cases h

/-! ## futures are written by the own job only -/

/-- a step that changes the shared state of job `j`'s future is `taskRun _ j` -/
theorem future_changed_by_own_run (c : Cfg) (s s' : State) (e : Ev) (hst : (machine c).Step s e s')
    (j : Nat) (hj : s'.future j ≠ s.future j) : ∃ w, e = .taskRun w j := by
  cases e with
  | q qe =>
    exfalso; apply hj
    simp only [Machine.Step, machine] at hst
    cases qe <;> (try (rename_i x; cases x)) <;> simp only [step?] at hst <;> (repeat' split at hst) <;>
      simp only [Option.map_eq_some_iff, reduceCtorEq] at hst <;>
      (obtain ⟨a, _, rfl⟩ := hst; rfl)
  | taskRun w id =>
    simp only [Machine.Step, machine, step?] at hst
    split at hst
    · split at hst
      · rename_i hid
        subst hid
        simp only [Option.some.injEq] at hst
        subst hst
        by_cases hji : j = id
        · exact ⟨w, by rw [hji]⟩
        · exfalso; apply hj; simp [hji]
      · cases hst
    · cases hst
  | _ =>
    exfalso; apply hj
    simp only [Machine.Step, machine, step?] at hst
    repeat' split at hst
    all_goals (simp only [Option.some.injEq, reduceCtorEq] at hst)
    all_goals (try subst hst)
    all_goals rfl

/-! ## workers and task exceptions -/

/-- a `taskRun` step — whatever the job's outcome — moves only the running worker, back to the
    loop; nobody exits -/
theorem taskRun_workers (c : Cfg) (s s' : State) (w : Tid) (id : Nat)
    (hst : (machine c).Step s (.taskRun w id) s') :
    s'.wpc w = .loop ∧ (∀ u, u ≠ w → s'.wpc u = s.wpc u) ∧ s'.exitedL = s.exitedL ∧
    s'.joined = s.joined ∧ s'.dtor = s.dtor ∧ s'.q = s.q ∧ liveWorkers c s' = liveWorkers c s := by
  simp only [Machine.Step, machine, step?] at hst
  split at hst
  · rename_i id' out hw
    split at hst
    · simp only [Option.some.injEq] at hst
      subst hst
      refine ⟨by simp, fun u hu => by simp [hu], rfl, rfl, rfl, rfl, ?_⟩
      simp only [liveWorkers]
      apply List.filter_congr
      intro u _
      by_cases hu : u = w
      · subst hu; simp [hw]
      · simp [hu]
    · cases hst
  · cases hst

/-- before the destructor starts no worker is leaving: none holds a stop task, none has exited -/
theorem all_workers_live_before_dtor (c : Cfg) (s : State) (h : (machine c).Reachable s)
    (hd : s.dtor = .notStarted) (w : Tid) :
    s.wpc w ≠ .got (some .stop) ∧ s.wpc w ≠ .stopping ∧ s.wpc w ≠ .exited := by
  have key : ¬ StopHeld s.wpc w := by
    intro hs
    obtain ⟨t, ht⟩ := inv_stop_link c s h w hs
    have := no_stop_before_dtor c s h hd _ (popped_mem_called c s h ht)
    simp [isStop] at this
  exact ⟨fun e => key (.inl e), fun e => key (.inr (.inl e)), fun e => key (.inr (.inr e))⟩

theorem liveWorkers_before_dtor (c : Cfg) (s : State) (h : (machine c).Reachable s)
    (hd : s.dtor = .notStarted) : liveWorkers c s = c.workers := by
  simp only [liveWorkers, List.filter_eq_self]
  intro w _
  simpa using (all_workers_live_before_dtor c s h hd w).2.2

end Osmium.PoolSM
