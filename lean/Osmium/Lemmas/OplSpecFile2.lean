/-
File level of the OPL round trip (C01 `opl_file_roundtrip`), writer side:

* every line the OPL writer produces for an object of the domain consists of clean bytes only
  (no LF, no CR, no NUL) and is not empty (`writeObject_clean`, `writeObject_bytes`);
* (B) `opl_file_rt`: the file `writeFile` produces for a list of objects of the domain is read back
  by `parseFile` (line splitting of `OPLParser::run` + `opl_parse_line`) as the projected objects.

Byte classes used: `NumByte` ('-', '.', digits: `output_int`, coordinates, timestamps), "no
structural byte" of C14 (`Opl.structural` contains 0x00, 0x0a, 0x0d: escaped strings), and the
literal letters, spaces, commas, '=', '@' of the writer.
-/
import Osmium.Lemmas.OplFmtCs
import Osmium.Lemmas.OplSpecFile

namespace Osmium.OplFmt
open Osmium.Osm Osmium.TextFmt Osmium.Conv Osmium.Utf8 Osmium.Chunks

/-! ## `Clean` as a simp-friendly predicate -/

theorem clean_nil : Clean [] ↔ True := ⟨fun _ => trivial, fun _ => Clean.nil⟩

theorem clean_append (a b : Bytes) : Clean (a ++ b) ↔ Clean a ∧ Clean b :=
  ⟨fun h => ⟨h.of_append_left, h.of_append_right⟩, fun h => h.1.append h.2⟩

theorem cleanF_cons (c : UInt8) (a : Bytes) : Clean (c :: a) ↔ (c ≠ 0x0a ∧ c ≠ 0x0d ∧ c ≠ 0) ∧ Clean a :=
  ⟨fun h => ⟨h c (by simp), h.tail⟩, fun h => Clean.cons h.1 h.2⟩

theorem NumByte.cleanF {b : UInt8} (h : NumByte b) : b ≠ 0x0a ∧ b ≠ 0x0d ∧ b ≠ 0 := by
  rcases h with rfl | rfl | ⟨h1, h2⟩
  · decide
  · decide
  · have ne : ∀ c : UInt8, (c.toNat < 48 ∨ 57 < c.toNat) → b ≠ c := by
      intro c hc hbc; subst hbc; omega
    exact ⟨ne _ (by decide), ne _ (by decide), ne _ (by decide)⟩

theorem Clean.of_num {s : Bytes} (h : ∀ b ∈ s, NumByte b) : Clean s := fun b hb => (h b hb).cleanF

theorem Clean.of_noStructural {e : Bytes} (h : ∀ b ∈ e, b.toNat ∉ Opl.structural) : Clean e := by
  intro b hb
  have := h b hb
  simp only [Opl.structural, List.mem_cons, List.not_mem_nil, or_false, not_or] at this
  exact ⟨fun hh => this.2.2.1 (by rw [hh]; rfl), fun hh => this.2.2.2.1 (by rw [hh]; rfl),
    fun hh => this.1 (by rw [hh]; rfl)⟩

theorem digitChar_clean (d : Nat) : digitChar d ≠ 0x0a ∧ digitChar d ≠ 0x0d ∧ digitChar d ≠ 0 :=
  (digitChar_num d).cleanF

/-! ## leaf writers -/

theorem wInt_clean (v : Int) (h0 : int64Min < v) (h1 : v ≤ int64Max) : ∃ out, wInt v = .ok out ∧ Clean out := by
  obtain ⟨out, ho, _, hn, _⟩ := wInt_pId v h0 h1
  exact ⟨out, ho, Clean.of_num hn⟩

theorem wInt_clean_nat (v : Nat) (h1 : v ≤ 4294967295) : ∃ out, wInt (v : Int) = .ok out ∧ Clean out :=
  wInt_clean v (by simp only [int64Min]; omega) (by simp only [int64Max]; omega)

theorem wStr_clean (bs : Bytes) (h : strOK 0x110000 bs = true) : ∃ e, wStr bs = .ok e ∧ Clean e := by
  obtain ⟨e, he, hn, _⟩ := wStr_pStr bs h
  exact ⟨e, he, Clean.of_noStructural hn⟩

theorem toIso_cleanF (t : Nat) : Clean (toIso t) := by
  unfold toIso
  split
  · rw [toIsoAll_eq]
    simp [fmt2, fmt4, cleanF_cons, clean_nil, digitChar_clean, cMinus, cT, cColon, cZ]
  · exact Clean.nil

theorem formatCoord_clean (v : Int) (h1 : int32Min ≤ v) (h2 : v ≤ int32Max) : Clean (formatCoord v) :=
  Clean.of_num (formatCoord_shape v h1 h2).2

theorem wLocation_clean (l : Location) (hl : LocOK l) (cx cy : UInt8)
    (hx : cx ≠ 0x0a ∧ cx ≠ 0x0d ∧ cx ≠ 0) (hy : cy ≠ 0x0a ∧ cy ≠ 0x0d ∧ cy ≠ 0) : Clean (wLocation l cx cy) := by
  unfold wLocation
  rcases hl with rfl | hv
  · have : isUndefined Location.undefined = true := by decide
    rw [this, if_pos rfl]
    exact Clean.cons (by decide) (Clean.cons hx (Clean.cons (by decide) (Clean.cons hy Clean.nil)))
  · obtain ⟨hx1, hx2, hy1, hy2, _, hu⟩ := valid_range hv
    rw [hu, if_neg (by simp)]
    exact Clean.cons (by decide) (Clean.cons hx ((formatCoord_clean _ hx1 hx2).append
      (Clean.cons (by decide) (Clean.cons hy (formatCoord_clean _ hy1 hy2)))))

theorem joinSep_cleanF : ∀ (xs : List Bytes), (∀ x ∈ xs, Clean x) → Clean (joinSep 0x2c xs)
  | [], _ => Clean.nil
  | [a], h => h a (by simp)
  | a :: b :: xs, h => by
    rw [joinSep_cons2]
    exact (h a (by simp)).append (Clean.cons (by decide) (joinSep_cleanF (b :: xs) (fun x hx => h x (by simp [hx]))))

theorem mapE_clean {α : Type} (f : α → Except WErr Bytes) : ∀ (xs : List α),
    (∀ x ∈ xs, ∃ y, f x = .ok y ∧ Clean y) → ∃ ys, mapE f xs = .ok ys ∧ ∀ y ∈ ys, Clean y
  | [], _ => ⟨[], rfl, by simp⟩
  | x :: xs, h => by
    obtain ⟨y, hy, hc⟩ := h x (by simp)
    obtain ⟨ys, hys, hcs⟩ := mapE_clean f xs (fun z hz => h z (by simp [hz]))
    refine ⟨y :: ys, by simp [mapE, hy, hys], ?_⟩
    intro z hz
    rcases List.mem_cons.1 hz with rfl | hz
    · exact hc
    · exact hcs z hz

theorem wTag_clean (t : Tag) (h : TagOK t) : ∃ x, wTag t = .ok x ∧ Clean x := by
  obtain ⟨k, hk, hkc⟩ := wStr_clean t.key h.1
  obtain ⟨v, hv, hvc⟩ := wStr_clean t.value h.2
  exact ⟨k ++ 0x3d :: v, by simp [wTag, hk, hv], hkc.append (Clean.cons (by decide) hvc)⟩

theorem wTags_clean (ts : List Tag) (h : ∀ t ∈ ts, TagOK t) : ∃ b, wTags ts = .ok b ∧ Clean b := by
  obtain ⟨xs, hxs, hc⟩ := mapE_clean wTag ts (fun t ht => wTag_clean t (h t ht))
  exact ⟨0x20 :: 0x54 :: joinSep 0x2c xs, by simp [wTags, hxs],
    Clean.cons (by decide) (Clean.cons (by decide) (joinSep_cleanF xs hc))⟩

theorem wOptInt_clean (flag : Bool) (c : UInt8) (hc : c ≠ 0x0a ∧ c ≠ 0x0d ∧ c ≠ 0) (v : Int)
    (h0 : int64Min < v) (h1 : v ≤ int64Max) : ∃ b, wOptInt flag c v = .ok b ∧ Clean b := by
  obtain ⟨out, ho, hcl⟩ := wInt_clean v h0 h1
  cases flag
  · exact ⟨[], by simp [wOptInt], Clean.nil⟩
  · exact ⟨0x20 :: c :: out, by simp [wOptInt, ho], Clean.cons (by decide) (Clean.cons hc hcl)⟩

theorem wFields_clean (o : Opts) (m : Meta) (hm : MetaOK m) : ∃ b, wFields o m = .ok b ∧ Clean b := by
  have r0 : ∀ n : Nat, n ≤ 4294967295 → int64Min < (n : Int) ∧ (n : Int) ≤ int64Max := by
    intro n hn; simp only [int64Min, int64Max]; omega
  obtain ⟨fv, hfv, cfv⟩ := wOptInt_clean o.md.version 0x76 (by decide) m.version
    (r0 _ (by have := hm.ver; omega)).1 (r0 _ (by have := hm.ver; omega)).2
  obtain ⟨fc, hfc, cfc⟩ := wOptInt_clean o.md.changeset 0x63 (by decide) m.changeset (r0 _ hm.cs).1 (r0 _ hm.cs).2
  obtain ⟨fi, hfi, cfi⟩ := wOptInt_clean o.md.uid 0x69 (by decide) m.uid
    (r0 _ (by have := hm.uid; omega)).1 (r0 _ (by have := hm.uid; omega)).2
  have hu : ∃ fu, (if o.md.user then bindE (wStr m.user) fun u => .ok (0x20 :: 0x75 :: u) else .ok []) =
      (Except.ok fu : Except WErr Bytes) ∧ Clean fu := by
    obtain ⟨u, hu, cu⟩ := wStr_clean m.user hm.user
    cases o.md.user
    · exact ⟨[], by simp, Clean.nil⟩
    · exact ⟨0x20 :: 0x75 :: u, by simp [hu], Clean.cons (by decide) (Clean.cons (by decide) cu)⟩
  obtain ⟨fu, hfu, cfu⟩ := hu
  unfold wFields
  by_cases hany : o.md.any = true
  · rw [if_pos hany, hfv, bindE_ok, hfc, bindE_ok, hfi, bindE_ok, hfu, bindE_ok]
    refine ⟨_, rfl, ?_⟩
    have hts : Clean (if o.md.timestamp then 0x20 :: 0x74 :: toIso m.timestamp else []) := by
      cases o.md.timestamp
      · exact Clean.nil
      · exact Clean.cons (by decide) (Clean.cons (by decide) (toIso_cleanF _))
    have hvis : Clean [0x20, 0x64, if m.visible then 0x56 else 0x44] := by
      cases m.visible <;> decide
    exact cfv.append (hvis.append (cfc.append (hts.append (cfi.append cfu))))
  · rw [if_neg hany]
    exact ⟨[], rfl, Clean.nil⟩

theorem wMeta_clean (o : Opts) (m : Meta) (hm : MetaOK m) : ∃ b, wMeta o m = .ok b ∧ Clean b := by
  obtain ⟨id, hid, cid⟩ := wInt_clean m.id hm.id0 hm.id1
  obtain ⟨fs, hfs, cfs⟩ := wFields_clean o m hm
  obtain ⟨ts, hts, cts⟩ := wTags_clean m.tags hm.tags
  exact ⟨id ++ (fs ++ ts), by simp [wMeta, hid, hfs, hts], cid.append (cfs.append cts)⟩

theorem wPlainRef_clean (n : NodeRef) (h : RefOK n) : ∃ x, wPlainRef n = .ok x ∧ Clean x := by
  obtain ⟨r, hr, cr⟩ := wInt_clean n.ref h.1 h.2.1
  exact ⟨0x6e :: r, by simp [wPlainRef, hr], Clean.cons (by decide) cr⟩

theorem wFieldRef_clean (n : NodeRef) (h : RefOK n) : ∃ x, wFieldRef n = .ok x ∧ Clean x := by
  obtain ⟨r, hr, cr⟩ := wInt_clean n.ref h.1 h.2.1
  rcases h.2.2 with hu | hv
  · have hb : bothDefined n.location = false := by rw [hu]; decide
    exact ⟨0x6e :: r ++ [0x78, 0x79], by simp [wFieldRef, hr, hb],
      (Clean.cons (by decide) cr).append (by decide)⟩
  · obtain ⟨hx1, hx2, hy1, hy2, hb, _⟩ := valid_range hv
    exact ⟨0x6e :: r ++ 0x78 :: (formatCoord n.location.x ++ 0x79 :: formatCoord n.location.y),
      by simp [wFieldRef, hr, hb, hv],
      (Clean.cons (by decide) cr).append (Clean.cons (by decide)
        ((formatCoord_clean _ hx1 hx2).append (Clean.cons (by decide) (formatCoord_clean _ hy1 hy2))))⟩

theorem wMember_clean (m : Member) (h : MemberOK m) : ∃ x, wMember m = .ok x ∧ Clean x := by
  obtain ⟨ht, h0, h1, hs⟩ := h
  obtain ⟨r, hr, cr⟩ := wInt_clean m.ref h0 h1
  obtain ⟨e, he, ce⟩ := wStr_clean m.role hs
  have htc : typeChar m.type ≠ 0x0a ∧ typeChar m.type ≠ 0x0d ∧ typeChar m.type ≠ 0 := by
    rcases ht with h | h | h <;> rw [h] <;> decide
  exact ⟨typeChar m.type :: r ++ 0x40 :: e, by simp [wMember, hr, he],
    (Clean.cons htc cr).append (Clean.cons (by decide) ce)⟩

/-! ## objects -/

/-- the value domain of `opl_roundtrip` (exactly the hypotheses of the four per-object lemmas) -/
def ObjOK : Object → Prop
  | .node m l => MetaOK m ∧ LocOK l
  | .way m ns => MetaOK m ∧ ∀ n ∈ ns, RefOK n
  | .relation m ms => MetaOK m ∧ ∀ x ∈ ms, MemberOK x
  | .changeset id ca cl nc ncm uid user bl tr tags _ => CsOK id ca cl nc ncm uid user bl tr tags

/-- the per-object round trip (the four lemmas of OplFmtObj / OplFmtCs in one statement) -/
theorem object_roundtrip (o : Opts) (obj : Object) (h : ObjOK obj) :
    ∃ line, writeObject o obj = .ok (line ++ [0x0a]) ∧ parseLine {} line = .ok (some (project o obj)) := by
  cases obj with
  | node m l => exact node_roundtrip o m l h.1 h.2
  | way m ns => exact way_roundtrip o m ns h.1 h.2
  | relation m ms => exact relation_roundtrip o m ms h.1 h.2
  | changeset id ca cl nc ncm uid user bl tr tags cs => exact changeset_roundtrip o id ca cl nc ncm uid user bl tr tags cs h

/-- the writer's line for an object of the domain: clean bytes followed by the LF -/
theorem writeObject_clean (o : Opts) (obj : Object) (h : ObjOK obj) :
    ∃ line, writeObject o obj = .ok (line ++ [0x0a]) ∧ Clean line := by
  cases obj with
  | node m l =>
    obtain ⟨mb, hmb, cmb⟩ := wMeta_clean o m h.1
    refine ⟨0x6e :: mb ++ wLocation l 0x78 0x79, by simp [writeObject, hmb], ?_⟩
    exact (Clean.cons (by decide) cmb).append (wLocation_clean l h.2 _ _ (by decide) (by decide))
  | way m ns =>
    obtain ⟨mb, hmb, cmb⟩ := wMeta_clean o m h.1
    obtain ⟨xs, hxs, cxs⟩ := mapE_clean (if o.locationsOnWays then wFieldRef else wPlainRef) ns (by
      intro n hn
      cases o.locationsOnWays
      · exact wPlainRef_clean n (h.2 n hn)
      · exact wFieldRef_clean n (h.2 n hn))
    refine ⟨0x77 :: mb ++ 0x20 :: 0x4e :: joinSep 0x2c xs, by simp [writeObject, hmb, hxs], ?_⟩
    exact (Clean.cons (by decide) cmb).append (Clean.cons (by decide) (Clean.cons (by decide) (joinSep_cleanF xs cxs)))
  | relation m ms =>
    obtain ⟨mb, hmb, cmb⟩ := wMeta_clean o m h.1
    obtain ⟨xs, hxs, cxs⟩ := mapE_clean wMember ms (fun x hx => wMember_clean x (h.2 x hx))
    refine ⟨0x72 :: mb ++ 0x20 :: 0x4d :: joinSep 0x2c xs, by simp [writeObject, hmb, hxs], ?_⟩
    exact (Clean.cons (by decide) cmb).append (Clean.cons (by decide) (Clean.cons (by decide) (joinSep_cleanF xs cxs)))
  | changeset id ca cl nc ncm uid user bl tr tags cs =>
    have h : CsOK id ca cl nc ncm uid user bl tr tags := h
    obtain ⟨bid, hbid, cid⟩ := wInt_clean_nat id h.id
    obtain ⟨bnc, hbnc, cnc⟩ := wInt_clean_nat nc h.nc
    obtain ⟨bncm, hbncm, cncm⟩ := wInt_clean_nat ncm h.ncm
    obtain ⟨buid, hbuid, cuid⟩ := wInt_clean uid (by have := h.uid0; simp only [int64Min]; omega)
      (by have := h.uid1; simp only [int64Max]; omega)
    obtain ⟨bu, hbu, cu⟩ := wStr_clean user h.user
    obtain ⟨bt, hbt, ct⟩ := wTags_clean tags h.tags
    refine ⟨0x63 :: bid ++ 0x20 :: 0x6b :: bnc ++ 0x20 :: 0x73 :: toIso ca ++ 0x20 :: 0x65 :: toIso cl ++
         0x20 :: 0x64 :: bncm ++ 0x20 :: 0x69 :: buid ++ 0x20 :: 0x75 :: bu ++
         wLocation bl 0x78 0x79 ++ wLocation tr 0x58 0x59 ++ bt, by simp [writeObject, hbid, hbnc, hbncm, hbuid, hbu, hbt], ?_⟩
    have c1 := wLocation_clean bl h.bl 0x78 0x79 (by decide) (by decide)
    have c2 := wLocation_clean tr h.tr 0x58 0x59 (by decide) (by decide)
    have c3 := toIso_cleanF ca
    have c4 := toIso_cleanF cl
    simp only [clean_append, cleanF_cons, cid, cnc, cncm, cuid, cu, ct, c1, c2, c3, c4, and_true]
    decide

/-- the line the writer produces for an object of the domain: clean, non-empty, LF-terminated,
    and it decodes to the projected object -/
theorem object_line (o : Opts) (obj : Object) (h : ObjOK obj) :
    ∃ line, writeObject o obj = .ok (line ++ [0x0a]) ∧ Clean line ∧ line ≠ [] ∧
      parseLine {} line = .ok (some (project o obj)) := by
  obtain ⟨line, hw, hp⟩ := object_roundtrip o obj h
  obtain ⟨line', hw', hc⟩ := writeObject_clean o obj h
  rw [hw] at hw'
  have : line = line' := List.append_cancel_right (Except.ok.inj hw')
  subst this
  exact ⟨line, hw, hc, ne_nil_of_parseLine_some hp, hp⟩

/-- **bytes of a written line**: everything the writer emits for an object of the domain,
    except the final LF, is neither LF nor CR nor NUL. -/
theorem writeObject_bytes (o : Opts) (obj : Object) (out : Bytes) (hw : writeObject o obj = .ok out) (h : ObjOK obj) :
    ∀ b ∈ out.dropLast, b ≠ 0x0a ∧ b ≠ 0x0d ∧ b ≠ 0 := by
  obtain ⟨line, hw', hc⟩ := writeObject_clean o obj h
  rw [hw] at hw'
  have : out = line ++ [0x0a] := Except.ok.inj hw'
  subst this
  rw [List.dropLast_concat]; exact hc

/-! ## (B) the file -/

theorem mapE_writeObject (o : Opts) : ∀ (objs : List Object), (∀ obj ∈ objs, ObjOK obj) →
    ∃ lines, mapE (writeObject o) objs = .ok (lines.map (· ++ [0x0a])) ∧ (∀ l ∈ lines, Clean l ∧ l ≠ []) ∧
      parseLines {} lines = .ok (objs.map (project o))
  | [], _ => ⟨[], rfl, by simp, rfl⟩
  | obj :: objs, h => by
    obtain ⟨line, hw, hc, hne, hp⟩ := object_line o obj (h obj (by simp))
    obtain ⟨lines, hws, hcs, hps⟩ := mapE_writeObject o objs (fun x hx => h x (by simp [hx]))
    refine ⟨line :: lines, by simp [mapE, hw, hws], ?_, by simp [parseLines, hp, hps]⟩
    intro l hl
    rcases List.mem_cons.1 hl with rfl | hl
    · exact ⟨hc, hne⟩
    · exact hcs l hl

/-- **(B) OPL file round trip.**  For every list of objects of the domain and every option vector:
    the writer does not fail, and the reader (line splitting at LF / CR, C-string cut at NUL,
    `opl_parse_line` on every non-empty line) returns exactly the projected objects, in order. -/
theorem opl_file_rt (o : Opts) (objs : List Object) (h : ∀ obj ∈ objs, ObjOK obj) :
    ∃ bytes, writeFile o objs = .ok bytes ∧ parseFile {} bytes = .ok (objs.map (project o)) := by
  obtain ⟨lines, hw, hc, hp⟩ := mapE_writeObject o objs h
  refine ⟨(lines.map (· ++ [0x0a])).flatten, by simp [writeFile, hw], ?_⟩
  rw [parseFile_lf_lines {} lines hc, hp]

end Osmium.OplFmt
