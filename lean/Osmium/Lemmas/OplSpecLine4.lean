/-
Line level of `opl_decode_spec` (C02), part 4: `opl_parse_node/way/relation` on the lines of the
specification renderer — every attribute order, separator choice, escape style, coordinate padding,
with or without the default-valued attributes.
-/
import Osmium.Lemmas.OplSpecLine3

namespace Osmium.OplFmt
open Osmium.Osm Osmium.TextFmt Osmium.Conv Osmium.Utf8
open Osmium.Conv.IntLemmas (NoDigitHead)

/-- the common part of `opl_parse_node/way/relation`: id, attribute loop, tags, metadata; `extra` =
    the kind-specific attributes (location / node list / member list) -/
theorem pObject_spec (k : Kind) (ch : OplSpec.Choices) (m : Meta) (hm : MetaOK m)
    (extra : List (Bool × FSpec ObjSt OSlot)) (hg : ∀ p ∈ extra, (oSys k).Good p.2)
    (hnd : ((cfMeta ch m ++ extra).map (·.2.slot)).Nodup) (hlen : extra.length ≤ 8) :
    (∀ b ∈ OplSpec.int m.id ++ OplSpec.withSeps ch.seps
        ((OplSpec.pick ch.order (kept ch.omitDefaults (cfMeta ch m ++ extra))).map FSpec.bytes), CleanB b) ∧
    ∃ fin : ObjSt,
      (∀ p ∈ extra, p.2.post (oContent p.2.slot fin) ∨ (p.1 = true ∧ oContent p.2.slot fin = oContent p.2.slot {})) ∧
      pObject k (OplSpec.int m.id ++ OplSpec.withSeps ch.seps
          ((OplSpec.pick ch.order (kept ch.omitDefaults (cfMeta ch m ++ extra))).map FSpec.bytes)) =
        match k with
        | .node => .ok (.node m (if valid ⟨fin.x, fin.y⟩ then ⟨fin.x, fin.y⟩ else Location.undefined))
        | .way => bindE (match fin.sec with
                         | none => .ok []
                         | some sec => pWayNodes (sec.length + 1) sec) fun ns => .ok (.way m ns)
        | .relation => bindE (match fin.sec with
                              | none => .ok []
                              | some sec => pMembers (sec.length + 1) sec) fun ms => .ok (.relation m ms) := by
  have hgood : ∀ p ∈ cfMeta ch m ++ extra, (oSys k).Good p.2 := by
    intro p hp
    rcases List.mem_append.1 hp with h | h
    · exact cfMeta_good k ch m hm p h
    · exact hg p h
  obtain ⟨fin, hloop, hall, hclean⟩ := (oSys k).run (cfMeta ch m ++ extra) hgood hnd ch.omitDefaults ch.order ch.seps
  obtain ⟨_, hidn, hidp⟩ := int_pId m.id hm.id0 hm.id1
  refine ⟨?_, fin, fun p hp => hall p (List.mem_append_right _ hp), ?_⟩
  · intro b hb
    rcases List.mem_append.1 hb with h | h
    · exact (hidn b h).clean
    · exact hclean b h
  · have hsep := withSeps_sep ch.seps
      ((OplSpec.pick ch.order (kept ch.omitDefaults (cfMeta ch m ++ extra))).map FSpec.bytes)
    generalize OplSpec.withSeps ch.seps
      ((OplSpec.pick ch.order (kept ch.omitDefaults (cfMeta ch m ++ extra))).map FSpec.bytes) = rest at hloop hsep
    have hl7 : (cfMeta ch m).length = 7 := rfl
    have hfuel : attrLoop (objField k) (loopFuel rest) {} rest = .ok fin :=
      loopFuel_ge (objField k) ((cfMeta ch m ++ extra).length + 1)
        (by rw [List.length_append, hl7]; omega) {} rest fin hloop
    obtain ⟨htags, hmeta⟩ := meta_final ch m fin (fun p hp => hall p (List.mem_append_left _ hp))
    have hsu : setUserCheck (fin.user.getD []) = .ok () := by
      have hu : fin.user.getD [] = m.user := congrArg Meta.user hmeta
      have hl := strOK_len hm.user
      rw [hu]; unfold setUserCheck; simp [maxString]; omega
    unfold pObject
    rw [hidp rest hsep.noDigit]
    simp only [bindE_ok]
    rw [hfuel]
    simp only [bindE_ok, hsu, htags, hmeta]
    cases k <;> rfl

/-! ### nodes -/

theorem locFields_eq (ch : OplSpec.Choices) (l : Location) :
    OplSpec.locFields ch l 0x78 0x79 = [(isUndefined l, (fX ch l).bytes), (isUndefined l, (fY ch l).bytes)] := by
  unfold OplSpec.locFields
  cases h : isUndefined l <;> simp [fX, fY, FSpec.bytes, h]

theorem renderLine_node_eq (ch : OplSpec.Choices) (m : Meta) (l : Location) :
    OplSpec.renderLine ch (.node m l) = 0x6e :: (OplSpec.int m.id ++ OplSpec.withSeps ch.seps
      ((OplSpec.pick ch.order (kept ch.omitDefaults
        (cfMeta ch m ++ [(isUndefined l, fX ch l), (isUndefined l, fY ch l)]))).map FSpec.bytes)) := by
  have hF : (cfMeta ch m ++ [(isUndefined l, fX ch l), (isUndefined l, fY ch l)]).map (fun p => (p.1, p.2.bytes))
      = OplSpec.metaFields ch m ++ OplSpec.locFields ch l 0x78 0x79 := by
    rw [locFields_eq]; rfl
  rw [← kept_bytes, hF]
  rfl

theorem valid_eta (l : Location) (hl : LocOK l) :
    (if valid ⟨l.x, l.y⟩ then (⟨l.x, l.y⟩ : Location) else Location.undefined) = l := by
  rcases hl with rfl | hv
  · rfl
  · have : (⟨l.x, l.y⟩ : Location) = l := rfl
    rw [this, hv]; rfl

theorem renderLine_node (ch : OplSpec.Choices) (m : Meta) (l : Location) (hm : MetaOK m) (hl : LocOK l) :
    parseLine {} (OplSpec.renderLine ch (.node m l)) = .ok (some (.node m l)) ∧
      ∀ b ∈ OplSpec.renderLine ch (.node m l), CleanB b := by
  obtain ⟨hclean, fin, hex, hp⟩ := pObject_spec .node ch m hm [(isUndefined l, fX ch l), (isUndefined l, fY ch l)]
    (by
      intro p hp
      simp only [List.mem_cons, List.not_mem_nil, or_false] at hp
      rcases hp with rfl | rfl
      · exact good_x ch l hl
      · exact good_y ch l hl)
    (by show ([.ver, .vis, .cs, .ts, .uid, .user, .tags, .x, .y] : List OSlot).Nodup; decide)
    (by simp)
  rw [renderLine_node_eq]
  refine ⟨?_, clean_cons (by decide) hclean⟩
  rw [parseLine_node, hp]
  have hx : fin.x = l.x := by
    rcases hex (isUndefined l, fX ch l) (by simp) with h | ⟨hd, h⟩
    · exact h
    · have h : fin.x = Location.undefinedCoordinate := congrArg ObjSt.x h
      rw [h, isUndefined_eq hd]; rfl
  have hy : fin.y = l.y := by
    rcases hex (isUndefined l, fY ch l) (by simp) with h | ⟨hd, h⟩
    · exact h
    · have h : fin.y = Location.undefinedCoordinate := congrArg ObjSt.y h
      rw [h, isUndefined_eq hd]; rfl
  simp only [hx, hy, valid_eta l hl, bindE_ok]

/-! ### ways -/

theorem renderLine_way_eq (ch : OplSpec.Choices) (m : Meta) (ns : List NodeRef) :
    OplSpec.renderLine ch (.way m ns) = 0x77 :: (OplSpec.int m.id ++ OplSpec.withSeps ch.seps
      ((OplSpec.pick ch.order (kept ch.omitDefaults (cfMeta ch m ++ [(ns.isEmpty, fNodes ch ns)]))).map FSpec.bytes)) := by
  rw [← kept_bytes]
  rfl

theorem renderLine_way (ch : OplSpec.Choices) (m : Meta) (ns : List NodeRef) (hm : MetaOK m) (hns : ∀ n ∈ ns, RefOK n) :
    parseLine {} (OplSpec.renderLine ch (.way m ns)) = .ok (some (.way m ns)) ∧
      ∀ b ∈ OplSpec.renderLine ch (.way m ns), CleanB b := by
  obtain ⟨hclean, fin, hex, hp⟩ := pObject_spec .way ch m hm [(ns.isEmpty, fNodes ch ns)]
    (by
      intro p hp
      simp only [List.mem_cons, List.not_mem_nil, or_false] at hp
      subst hp
      exact good_nodes ch ns hns)
    (by show ([.ver, .vis, .cs, .ts, .uid, .user, .tags, .sec] : List OSlot).Nodup; decide)
    (by simp)
  rw [renderLine_way_eq]
  refine ⟨?_, clean_cons (by decide) hclean⟩
  rw [parseLine_way, hp]
  have hsec : (match fin.sec with
               | none => .ok []
               | some sec => pWayNodes (sec.length + 1) sec) = (Except.ok ns : Except PErr (List NodeRef)) := by
    rcases hex (ns.isEmpty, fNodes ch ns) (by simp) with h | ⟨hd, h⟩
    · have h : fin.sec = some (joinSep 0x2c (ns.map (OplSpec.refBody ch))) := h
      rw [h]
      exact (nodesBody_spec ch ns hns).2.2
    · have h : fin.sec = none := congrArg ObjSt.sec h
      have hd : ns = [] := by simpa using hd
      rw [h, hd]
  simp only [hsec, bindE_ok]

/-! ### relations -/

theorem renderLine_relation_eq (ch : OplSpec.Choices) (m : Meta) (ms : List Member) :
    OplSpec.renderLine ch (.relation m ms) = 0x72 :: (OplSpec.int m.id ++ OplSpec.withSeps ch.seps
      ((OplSpec.pick ch.order (kept ch.omitDefaults (cfMeta ch m ++ [(ms.isEmpty, fMembers ch ms)]))).map FSpec.bytes)) := by
  rw [← kept_bytes]
  rfl

theorem renderLine_relation (ch : OplSpec.Choices) (m : Meta) (ms : List Member) (hm : MetaOK m)
    (hms : ∀ x ∈ ms, MemberOK x) :
    parseLine {} (OplSpec.renderLine ch (.relation m ms)) = .ok (some (.relation m ms)) ∧
      ∀ b ∈ OplSpec.renderLine ch (.relation m ms), CleanB b := by
  obtain ⟨hclean, fin, hex, hp⟩ := pObject_spec .relation ch m hm [(ms.isEmpty, fMembers ch ms)]
    (by
      intro p hp
      simp only [List.mem_cons, List.not_mem_nil, or_false] at hp
      subst hp
      exact good_members ch ms hms)
    (by show ([.ver, .vis, .cs, .ts, .uid, .user, .tags, .sec] : List OSlot).Nodup; decide)
    (by simp)
  rw [renderLine_relation_eq]
  refine ⟨?_, clean_cons (by decide) hclean⟩
  rw [parseLine_relation, hp]
  have hsec : (match fin.sec with
               | none => .ok []
               | some sec => pMembers (sec.length + 1) sec) = (Except.ok ms : Except PErr (List Member)) := by
    rcases hex (ms.isEmpty, fMembers ch ms) (by simp) with h | ⟨hd, h⟩
    · have h : fin.sec = some (joinSep 0x2c (ms.map (memberBody ch))) := h
      rw [h]
      exact (membersBody_spec ch ms hms).2.2
    · have h : fin.sec = none := congrArg ObjSt.sec h
      have hd : ms = [] := by simpa using hd
      rw [h, hd]
  simp only [hsec, bindE_ok]

end Osmium.OplFmt
