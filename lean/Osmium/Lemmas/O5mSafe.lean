/-
Reads-in-bounds for the o5m decoder model (o5m part of C03): no cursor program ever yields
`Res.oob` (a read at/after the dataset's `end` or outside a 256-byte table slot) nor `Res.ub`
(a violated callee precondition).
Weakest-precondition style: `Safe x P` = "x is a value satisfying P, or an exception".
-/
import Osmium.Model.O5m

namespace Osmium.O5m

open Osmium.Wire Osmium.Osm

def Safe {α : Type} (x : Res α) (P : α → Prop) : Prop :=
  match x with
  | .ok a => P a
  | .err _ => True
  | .oob => False
  | .ub _ => False

@[simp] theorem Safe_ok {α : Type} (a : α) (P : α → Prop) : Safe (.ok a) P ↔ P a := Iff.rfl
@[simp] theorem Safe_pure {α : Type} (a : α) (P : α → Prop) : Safe (pure a : Res α) P ↔ P a := Iff.rfl
@[simp] theorem Safe_err {α : Type} (e : Err) (P : α → Prop) : Safe (.err e : Res α) P ↔ True := Iff.rfl
@[simp] theorem Safe_ub {α : Type} (u : Ub) (P : α → Prop) : Safe (.ub u : Res α) P ↔ False := Iff.rfl
@[simp] theorem Safe_oob {α : Type} (P : α → Prop) : Safe (.oob : Res α) P ↔ False := Iff.rfl

theorem Safe.bind {α β : Type} {x : Res α} {f : α → Res β} {P : α → Prop} {Q : β → Prop}
    (hx : Safe x P) (hf : ∀ a, P a → Safe (f a) Q) : Safe (x >>= f) Q := by
  cases x with
  | ok a => exact hf a hx
  | err e => trivial
  | oob => exact hx.elim
  | ub u => exact hx.elim

theorem Safe.mono {α : Type} {x : Res α} {P Q : α → Prop} (hx : Safe x P) (h : ∀ a, P a → Q a) : Safe x Q := by
  cases x with
  | ok a => exact h a hx
  | err e => trivial
  | oob => exact hx.elim
  | ub u => exact hx.elim

theorem Safe.ne_oob {α : Type} {x : Res α} {P : α → Prop} (hx : Safe x P) : x ≠ .oob := by
  intro h; rw [h] at hx; exact hx

theorem Safe.ne_ub {α : Type} {x : Res α} {P : α → Prop} (hx : Safe x P) (u : Ub) : x ≠ .ub u := by
  intro h; rw [h] at hx; exact hx

theorem Safe.ok_or_err {α : Type} {x : Res α} {P : α → Prop} (hx : Safe x P) :
    (∃ a, x = .ok a) ∨ (∃ e, x = .err e) := by
  cases x with
  | ok a => exact Or.inl ⟨a, rfl⟩
  | err e => exact Or.inr ⟨e, rfl⟩
  | oob => exact hx.elim
  | ub u => exact hx.elim

/-! ### primitive reads -/

theorem liftWire_safe {α : Type} (x : Except Wire.Err α) : Safe (liftWire x) (fun _ => True) := by
  cases x with
  | ok a => trivial
  | error e => cases e <;> trivial

theorem varint_safe (d : Bytes) : Safe (varint d) (fun _ => True) := liftWire_safe _

theorem zvarint_safe (d : Bytes) : Safe (zvarint d) (fun _ => True) := by
  unfold zvarint
  exact Safe.bind (varint_safe d) (fun _ _ => trivial)

/-- the list ends with at least `k` zero bytes -/
def ZeroTail (l : Bytes) (k : Nat) : Prop := ∃ pre, l = pre ++ List.replicate k 0

theorem ZeroTail.ne_nil {l : Bytes} {k : Nat} (h : ZeroTail l (k + 1)) : l ≠ [] := by
  obtain ⟨pre, rfl⟩ := h
  simp [List.replicate_succ]

theorem ZeroTail.tail {b : UInt8} {r : Bytes} {k : Nat} (h : ZeroTail (b :: r) (k + 1)) : ZeroTail r k := by
  obtain ⟨pre, hp⟩ := h
  cases pre with
  | nil =>
    simp only [List.nil_append, List.replicate_succ, List.cons.injEq] at hp
    exact ⟨[], by simp [hp.2]⟩
  | cons c pre' =>
    simp only [List.cons_append, List.cons.injEq] at hp
    exact ⟨pre' ++ [0], by rw [hp.2, List.append_assoc, List.replicate_succ]; rfl⟩

theorem ZeroTail.tail_ne {b : UInt8} {r : Bytes} {k : Nat} (h : ZeroTail (b :: r) k) (hb : b ≠ 0) : ZeroTail r k := by
  obtain ⟨pre, hp⟩ := h
  cases pre with
  | nil =>
    cases k with
    | zero => simp at hp
    | succ k =>
      simp only [List.nil_append, List.replicate_succ, List.cons.injEq] at hp
      exact (hb hp.1).elim
  | cons c pre' =>
    simp only [List.cons_append, List.cons.injEq] at hp
    exact ⟨pre', hp.2⟩

theorem ZeroTail.weaken {l : Bytes} {k : Nat} (h : ZeroTail l (k + 1)) : ZeroTail l k := by
  obtain ⟨pre, rfl⟩ := h
  exact ⟨pre ++ [0], by rw [List.append_assoc, List.replicate_succ]; rfl⟩

theorem ZeroTail.listTail {l : Bytes} {k : Nat} (h : ZeroTail l (k + 1)) : ZeroTail l.tail k := by
  cases l with
  | nil => exact (h.ne_nil rfl).elim
  | cons b r => exact h.tail

theorem padSlot_zeroTail (s : Bytes) (h : s.length ≤ maxLength) : ZeroTail (padSlot s) 4 := by
  refine ⟨s ++ List.replicate (entrySize - s.length - 4) 0, ?_⟩
  simp only [padSlot, List.append_assoc, List.replicate_append_replicate]
  congr 2
  simp only [maxLength, entrySize] at *
  omega

/-- a string pointer is usable: it points into the dataset, or into a slot with `k` zero bytes left at its end -/
def Ptr.Good (p : Ptr) (k : Nat) : Prop := p.inDs = true ∨ ZeroTail p.rest k

theorem decodeVarintGo_zeroTail : ∀ (l : Bytes) (i acc k : Nat), ZeroTail l (k + 1) →
    match decodeVarintGo l i acc with
    | .ok (_, r) => ZeroTail r k
    | .error e => e ≠ .endOfBuffer
  | [], _, _, _, h => (h.ne_nil rfl).elim
  | b :: r, i, acc, k, h => by
    simp only [decodeVarintGo]
    by_cases hb : b.toNat < 128
    · simp only [hb, ↓reduceIte]
      exact h.tail
    · simp only [hb, ↓reduceIte]
      by_cases h9 : i ≥ 9
      · simp [h9]
      · simp only [h9, ↓reduceIte]
        have hb0 : b ≠ 0 := by
          intro h0; subst h0; exact hb (by decide)
        exact decodeVarintGo_zeroTail r (i + 1) _ k (h.tail_ne hb0)

theorem ptr_varint_safe (p : Ptr) (k : Nat) (h : p.Good (k + 1)) :
    Safe p.varint (fun (_, q) => q.inDs = p.inDs ∧ q.Good k) := by
  unfold Ptr.varint O5m.varint decodeVarint
  cases hr : decodeVarintGo p.rest 0 0 with
  | ok vr =>
    obtain ⟨v, r⟩ := vr
    simp only [liftWire]
    refine ⟨rfl, ?_⟩
    rcases h with h | h
    · exact Or.inl h
    · have := decodeVarintGo_zeroTail p.rest 0 0 k h
      rw [hr] at this
      exact Or.inr this
  | error e =>
    cases e <;> trivial

theorem walkPost_safe (e : Err) (inDs : Bool) (k : Nat) : ∀ (l acc : Bytes), l ≠ [] →
    (inDs = true ∨ ZeroTail l (k + 1)) →
    Safe (walkPost e l inDs acc) (fun (_, p) => p.inDs = inDs ∧ p.Good k)
  | [], _, h, _ => (h rfl).elim
  | b :: r, acc, _, hz => by
    simp only [walkPost]
    by_cases hb : b = 0
    · simp only [hb, beq_self_eq_true, ↓reduceIte, Safe_ok, true_and]
      rcases hz with hz | hz
      · exact Or.inl hz
      · subst hb; exact Or.inr hz.tail
    · have hb' : (b == 0) = false := by simpa using hb
      simp only [hb', Bool.false_eq_true, ↓reduceIte]
      by_cases hc : (inDs && r.isEmpty) = true
      · simp [hc]
      · simp only [hc, Bool.false_eq_true, ↓reduceIte]
        have hr : r ≠ [] := by
          rcases hz with hz | hz
          · intro h0; subst h0; simp [hz] at hc
          · exact (hz.tail_ne hb).ne_nil
        refine walkPost_safe e inDs k r (b :: acc) hr ?_
        rcases hz with hz | hz
        · exact Or.inl hz
        · exact Or.inr (hz.tail_ne hb)

theorem walkPre_safe (e : Err) (inDs : Bool) (k : Nat) : ∀ (l acc : Bytes),
    (inDs = true ∨ ZeroTail l (k + 1)) →
    Safe (walkPre e l inDs acc) (fun (_, p) => p.inDs = inDs ∧ p.Good k)
  | [], _, hz => by
    simp only [walkPre]
    rcases hz with hz | hz
    · simp [hz]
    · exact (hz.ne_nil rfl).elim
  | b :: r, acc, hz => by
    simp only [walkPre]
    by_cases hb : b = 0
    · simp only [hb, beq_self_eq_true, ↓reduceIte, Safe_ok, true_and]
      rcases hz with hz | hz
      · exact Or.inl hz
      · subst hb; exact Or.inr hz.tail
    · have hb' : (b == 0) = false := by simpa using hb
      simp only [hb', Bool.false_eq_true, ↓reduceIte]
      refine walkPre_safe e inDs k r (b :: acc) ?_
      rcases hz with hz | hz
      · exact Or.inl hz
      · exact Or.inr (hz.tail_ne hb)

/-! ### the table keeps its slots within `max_length` -/

def SlotsOk (t : Table) : Prop := ∀ i, (t.slot i).length ≤ maxLength

theorem slot_set' (slots : Array Bytes) (i j : Nat) (v : Bytes) :
    ((slots.setIfInBounds i v)[j]?).getD [] = if i = j ∧ i < slots.size then v else (slots[j]?).getD [] := by
  rw [Array.getElem?_setIfInBounds]
  by_cases h : i = j
  · subst h
    by_cases h2 : i < slots.size <;> simp [h2]
  · simp [h]

theorem SlotsOk.empty (n : Nat) : SlotsOk { n := n } := by
  intro i; simp [Table.slot]

theorem SlotsOk.clear {t : Table} (h : SlotsOk t) : SlotsOk t.clear := h

theorem SlotsOk.add {t : Table} (h : SlotsOk t) (s : Bytes) : SlotsOk (t.add s) := by
  intro i
  generalize hsl : (if t.slots.size == 0 then Array.replicate t.n ([] : Bytes) else t.slots) = slots
  have hres : ∀ j : Nat, ((slots[j]?).getD []).length ≤ maxLength := by
    intro j
    rw [← hsl]
    by_cases h0 : t.slots.size = 0
    · simp only [h0, beq_self_eq_true, ↓reduceIte]
      by_cases hj : j < t.n
      · simp [hj]
      · simp [hj]
    · have : (t.slots.size == 0) = false := by simpa using h0
      simp only [this, Bool.false_eq_true, ↓reduceIte]
      exact h j
  by_cases hs : s.length ≤ maxLength
  · have hadd : t.add s = { t with slots := slots.setIfInBounds t.cur (s ++ ((slots[t.cur]?).getD []).drop s.length),
                                   cur := if t.cur + 1 == t.n then 0 else t.cur + 1 } := by
      simp only [Table.add, hs, ↓reduceIte, hsl]
    rw [hadd]
    simp only [Table.slot]
    rw [slot_set']
    by_cases hc : t.cur = i ∧ t.cur < slots.size
    · rw [if_pos hc]
      have := hres t.cur
      rw [List.length_append, List.length_drop]
      omega
    · rw [if_neg hc]
      exact hres i
  · have hadd : t.add s = { t with slots := slots } := by
      simp only [Table.add, hs, ↓reduceIte, hsl]
    rw [hadd]
    exact hres i

theorem get_safe (t : Table) (h : SlotsOk t) (index : Nat) : Safe (t.get index) (fun s => ZeroTail s 4) := by
  unfold Table.get
  split
  · trivial
  · exact padSlot_zeroTail _ (h _)

/-! ### the decoders -/

theorem decodeString_safe (tab : Table) (h : SlotsOk tab) (data : Bytes) (hd : data ≠ []) :
    Safe (decodeString tab data) (fun (p, _) => p.rest ≠ [] ∧ p.Good 4) := by
  cases data with
  | nil => exact (hd rfl).elim
  | cons b rest =>
    simp only [decodeString]
    split
    · split
      · trivial
      · next hne =>
        simp only [Safe_ok]
        exact ⟨by intro h0; simp [h0] at hne, Or.inl rfl⟩
    · refine Safe.bind (varint_safe _) ?_
      rintro ⟨index, rest'⟩ _
      refine Safe.bind (get_safe tab h index) ?_
      intro s hs
      exact ⟨(ZeroTail.ne_nil hs), Or.inr hs⟩

theorem decodeUser_safe (tab : Table) (h : SlotsOk tab) (data : Bytes) (hd : data ≠ []) :
    Safe (decodeUser tab data) (fun (x, tab', _) => x.2.length ≤ maxOsmStringLength ∧ SlotsOk tab') := by
  unfold decodeUser
  refine Safe.bind (decodeString_safe tab h data hd) ?_
  rintro ⟨start, cur⟩ ⟨_, hg⟩
  refine Safe.bind (ptr_varint_safe start 3 hg) ?_
  rintro ⟨uid, p⟩ ⟨hin, hp⟩
  dsimp only
  split
  · trivial
  · split
    · trivial
    · next hne =>
      split
      · split
        · exact ⟨by simp, h.add _⟩
        · exact ⟨by simp, h⟩
      · have hg1 : p.inDs = true ∨ ZeroTail p.rest.tail (1 + 1) := by
          rcases hp with hp | hp
          · exact Or.inl hp
          · exact Or.inr hp.listTail
        refine Safe.bind (walkPre_safe .noNulUser p.inDs 1 p.rest.tail [] hg1) ?_
        rintro ⟨name, p2⟩ _
        dsimp only
        split
        · trivial
        · next hlen =>
          have hl : name.length ≤ maxOsmStringLength := by omega
          split
          · exact ⟨hl, h.add _⟩
          · exact ⟨hl, h⟩

theorem decodeTagsGo_safe : ∀ (fuel : Nat) (tab : Table) (data : Bytes) (acc : List Tag), SlotsOk tab →
    Safe (decodeTagsGo fuel tab data acc) (fun (_, tab') => SlotsOk tab')
  | 0, tab, data, acc, h => by
    simp only [decodeTagsGo]
    split
    · exact h
    · trivial
  | fuel + 1, tab, data, acc, h => by
    simp only [decodeTagsGo]
    split
    · exact h
    · next hne =>
      have hd : data ≠ [] := by intro h0; simp [h0] at hne
      refine Safe.bind (decodeString_safe tab h data hd) ?_
      rintro ⟨start, cur⟩ ⟨hne1, hg⟩
      refine Safe.bind (walkPost_safe .noNulKey start.inDs 3 start.rest [] hne1 hg) ?_
      rintro ⟨key, p1⟩ ⟨hin1, hg1⟩
      dsimp only
      split
      · trivial
      · next hend =>
        have hne2 : p1.rest ≠ [] := by
          rcases hg1 with hg1 | hg1
          · intro h0; simp [Ptr.atEnd, hg1, h0] at hend
          · exact hg1.ne_nil
        refine Safe.bind (walkPost_safe .noNulValue p1.inDs 2 p1.rest [] hne2 hg1) ?_
        rintro ⟨value, p2⟩ _
        dsimp only
        split
        · trivial
        · split
          · trivial
          · refine decodeTagsGo_safe fuel _ _ _ ?_
            split
            · exact h.add _
            · exact h

theorem decodeTags_safe (tab : Table) (h : SlotsOk tab) (data : Bytes) :
    Safe (decodeTags tab data) (fun (_, tab') => SlotsOk tab') :=
  decodeTagsGo_safe _ _ _ _ h

theorem decodeInfo_safe (st : St) (h : SlotsOk st.tab) (data : Bytes) :
    Safe (decodeInfo st data) (fun (i, st', _) => i.user.length ≤ maxOsmStringLength ∧ SlotsOk st'.tab) := by
  cases data with
  | nil => trivial
  | cons b rest =>
    simp only [decodeInfo]
    split
    · exact ⟨by simp, h⟩
    · refine Safe.bind (varint_safe _) ?_
      rintro ⟨version, d1⟩ _
      dsimp only
      split
      · trivial
      · refine Safe.bind (zvarint_safe _) ?_
        rintro ⟨tsd, d2⟩ _
        dsimp only
        split
        · refine Safe.bind (zvarint_safe _) ?_
          rintro ⟨csd, d3⟩ _
          dsimp only
          split
          · next hne =>
            have hd : d3 ≠ [] := by intro h0; simp [h0] at hne
            refine Safe.bind (decodeUser_safe _ h d3 hd) ?_
            rintro ⟨⟨uid, user⟩, tab', d4⟩ ht
            exact ht
          · exact ⟨by simp, h⟩
        · exact ⟨by simp, h⟩

theorem setUser_safe (cfg : Cfg) (u : Bytes) (hu : u.length ≤ maxOsmStringLength) : Safe (setUser cfg u) (fun _ => True) := by
  unfold setUser
  simp only [maxOsmStringLength] at hu
  have h1 : ¬ u.length ≥ 65535 := by omega
  have h2 : ¬ (u.length % 65536 == 65535) = true := by
    rw [Nat.mod_eq_of_lt (by omega)]; simp; omega
  split
  · simp [h1]
  · simp [h2]

theorem decodeNode_safe (cfg : Cfg) (st : St) (h : SlotsOk st.tab) (data : Bytes) :
    Safe (decodeNode cfg st data) (fun (_, st') => SlotsOk st'.tab) := by
  unfold decodeNode
  refine Safe.bind (zvarint_safe _) ?_
  rintro ⟨idd, d1⟩ _
  dsimp only
  have hi := decodeInfo_safe { st with id := wrap64 (st.id + idd) } h d1
  refine Safe.bind hi ?_
  rintro ⟨info, st1, d2⟩ ⟨hul, h1⟩
  refine Safe.bind (setUser_safe cfg _ hul) ?_
  intro user _
  dsimp only
  split
  · exact h1
  · refine Safe.bind (zvarint_safe _) ?_
    rintro ⟨lond, d3⟩ _
    refine Safe.bind (zvarint_safe _) ?_
    rintro ⟨latd, d4⟩ _
    dsimp only
    split
    · refine Safe.bind (decodeTags_safe _ h1 d4) ?_
      rintro ⟨tags, tab'⟩ ht
      exact ht
    · exact h1

theorem checkRefLen_safe (e : Err) (len : Nat) (d : Bytes) : Safe (checkRefLen e len d) (fun _ => True) := by
  unfold checkRefLen
  split <;> trivial

theorem wayRefsGo_safe : ∀ (fuel stop : Nat) (wn : Int) (data : Bytes) (acc : List NodeRef),
    Safe (wayRefsGo fuel stop wn data acc) (fun _ => True)
  | 0, stop, wn, data, acc => by
    simp only [wayRefsGo]; split <;> trivial
  | fuel + 1, stop, wn, data, acc => by
    simp only [wayRefsGo]
    split
    · refine Safe.bind (zvarint_safe _) ?_
      rintro ⟨d, data'⟩ _
      exact wayRefsGo_safe fuel stop _ data' _
    · trivial

theorem decodeWay_safe (cfg : Cfg) (st : St) (h : SlotsOk st.tab) (data : Bytes) :
    Safe (decodeWay cfg st data) (fun (_, st') => SlotsOk st'.tab) := by
  unfold decodeWay
  refine Safe.bind (zvarint_safe _) ?_
  rintro ⟨idd, d1⟩ _
  dsimp only
  have hi := decodeInfo_safe { st with id := wrap64 (st.id + idd) } h d1
  refine Safe.bind hi ?_
  rintro ⟨info, st1, d2⟩ ⟨hul, h1⟩
  refine Safe.bind (setUser_safe cfg _ hul) ?_
  intro user _
  dsimp only
  split
  · exact h1
  · refine Safe.bind (varint_safe _) ?_
    rintro ⟨len, d3⟩ _
    refine Safe.bind (P := fun (x : List NodeRef × St × Bytes) => SlotsOk x.2.1.tab) ?_ ?_
    · split
      · refine Safe.bind (checkRefLen_safe _ _ _) ?_
        intro _ _
        refine Safe.bind (wayRefsGo_safe _ _ _ _ _) ?_
        rintro ⟨refs, wn, d4⟩ _
        exact h1
      · exact h1
    · rintro ⟨refs, st2, d4⟩ h2
      dsimp only at h2 ⊢
      split
      · refine Safe.bind (decodeTags_safe _ h2 d4) ?_
        rintro ⟨tags, tab'⟩ ht
        exact ht
      · exact h2

theorem decodeRole_safe (tab : Table) (h : SlotsOk tab) (data : Bytes) (hd : data ≠ []) :
    Safe (decodeRole tab data) (fun (_, tab', _) => SlotsOk tab') := by
  unfold decodeRole
  refine Safe.bind (decodeString_safe tab h data hd) ?_
  rintro ⟨start, cur⟩ ⟨hne, hg⟩
  dsimp only
  cases hr : start.rest with
  | nil => exact (hne hr).elim
  | cons c r =>
    dsimp only
    split
    · trivial
    · split
      · trivial
      · next hend =>
        have hg' : start.inDs = true ∨ ZeroTail r (2 + 1) := by
          rcases hg with hg | hg
          · exact Or.inl hg
          · rw [hr] at hg; exact Or.inr hg.tail
        have hne2 : r ≠ [] := by
          rcases hg' with hg' | hg'
          · intro h0; simp [Ptr.atEnd, hg', h0] at hend
          · exact hg'.ne_nil
        refine Safe.bind (walkPost_safe .noNulRole start.inDs 2 r [] hne2 hg') ?_
        rintro ⟨role, p2⟩ _
        dsimp only
        split
        · exact h.add _
        · exact h

theorem relMembersGo_safe : ∀ (fuel stop : Nat) (st : St) (data : Bytes) (acc : List Member), SlotsOk st.tab →
    Safe (relMembersGo fuel stop st data acc) (fun (_, st', _) => SlotsOk st'.tab)
  | 0, stop, st, data, acc, h => by
    simp only [relMembersGo]; split
    · trivial
    · exact h
  | fuel + 1, stop, st, data, acc, h => by
    simp only [relMembersGo]
    split
    · refine Safe.bind (zvarint_safe _) ?_
      rintro ⟨deltaId, d1⟩ _
      dsimp only
      split
      · trivial
      · next hne =>
        have hd : d1 ≠ [] := by intro h0; simp [h0] at hne
        refine Safe.bind (decodeRole_safe _ h d1 hd) ?_
        rintro ⟨⟨type, role⟩, tab', d2⟩ ht
        dsimp only
        split
        · trivial
        · refine relMembersGo_safe fuel stop _ d2 _ ?_
          simp only [St.setMem]
          split
          · exact ht
          · split
            · exact ht
            · exact ht
    · exact h

theorem decodeRelation_safe (cfg : Cfg) (st : St) (h : SlotsOk st.tab) (data : Bytes) :
    Safe (decodeRelation cfg st data) (fun (_, st') => SlotsOk st'.tab) := by
  unfold decodeRelation
  refine Safe.bind (zvarint_safe _) ?_
  rintro ⟨idd, d1⟩ _
  dsimp only
  have hi := decodeInfo_safe { st with id := wrap64 (st.id + idd) } h d1
  refine Safe.bind hi ?_
  rintro ⟨info, st1, d2⟩ ⟨hul, h1⟩
  refine Safe.bind (setUser_safe cfg _ hul) ?_
  intro user _
  dsimp only
  split
  · exact h1
  · refine Safe.bind (varint_safe _) ?_
    rintro ⟨len, d3⟩ _
    refine Safe.bind (P := fun (x : List Member × St × Bytes) => SlotsOk x.2.1.tab) ?_ ?_
    · split
      · refine Safe.bind (checkRefLen_safe _ _ _) ?_
        intro _ _
        exact relMembersGo_safe _ _ _ _ _ h1
      · exact h1
    · rintro ⟨ms, st2, d4⟩ h2
      dsimp only at h2 ⊢
      split
      · refine Safe.bind (decodeTags_safe _ h2 d4) ?_
        rintro ⟨tags, tab'⟩ ht
        exact ht
      · exact h2

theorem decodeBbox_safe (data : Bytes) : Safe (decodeBbox data) (fun _ => True) := by
  unfold decodeBbox
  refine Safe.bind (zvarint_safe _) ?_
  rintro ⟨a, d1⟩ _
  refine Safe.bind (zvarint_safe _) ?_
  rintro ⟨b, d2⟩ _
  refine Safe.bind (zvarint_safe _) ?_
  rintro ⟨c, d3⟩ _
  refine Safe.bind (zvarint_safe _) ?_
  rintro ⟨d, d4⟩ _
  dsimp only
  split <;> trivial

theorem decodeTimestamp_safe (data : Bytes) : Safe (decodeTimestamp data) (fun _ => True) := by
  unfold decodeTimestamp
  refine Safe.bind (zvarint_safe _) ?_
  rintro ⟨a, d1⟩ _
  trivial

theorem stepDataset_safe (cfg : Cfg) (a : Acc) (h : SlotsOk a.st.tab) (d : Chunks.Dataset) :
    Safe (stepDataset cfg a d) (fun a' => SlotsOk a'.st.tab) := by
  cases d with
  | reset => exact h
  | other t => exact h
  | data t payload =>
    simp only [stepDataset]
    refine Safe.bind (Q := fun (a' : Acc) => SlotsOk a'.st.tab) (P := fun (a' : Acc) => SlotsOk a'.st.tab) ?_ ?_
    · split
      · split
        · refine Safe.bind (decodeNode_safe cfg _ h payload) ?_
          rintro ⟨o, st⟩ hs
          exact hs
        · split
          · exact h
          · refine Safe.bind (decodeNode_safe cfg _ h payload) ?_
            rintro ⟨o, st⟩ hs
            exact hs
      · split
        · split
          · refine Safe.bind (decodeWay_safe cfg _ h payload) ?_
            rintro ⟨o, st⟩ hs
            exact hs
          · split
            · exact h
            · refine Safe.bind (decodeWay_safe cfg _ h payload) ?_
              rintro ⟨o, st⟩ hs
              exact hs
        · split
          · split
            · refine Safe.bind (decodeRelation_safe cfg _ h payload) ?_
              rintro ⟨o, st⟩ hs
              exact hs
            · split
              · exact h
              · refine Safe.bind (decodeRelation_safe cfg _ h payload) ?_
                rintro ⟨o, st⟩ hs
                exact hs
          · split
            · refine Safe.bind (decodeBbox_safe payload) ?_
              intro b _
              simp only [Safe_pure]
              split <;> exact h
            · split
              · refine Safe.bind (decodeTimestamp_safe payload) ?_
                intro ts _
                simp only [Safe_pure]
                split <;> exact h
              · exact h
    · intro a' ha'
      split
      · exact ha'
      · exact ha'

theorem foldDatasets_safe (cfg : Cfg) : ∀ (ds : List Chunks.Dataset) (a : Acc), SlotsOk a.st.tab →
    Safe (foldDatasets cfg a ds) (fun _ => True)
  | [], a, _ => trivial
  | d :: ds, a, h => by
    simp only [foldDatasets]
    split
    · trivial
    · refine Safe.bind (stepDataset_safe cfg a h d) ?_
      intro a' ha'
      exact foldDatasets_safe cfg ds a' ha'

theorem decodeChunks_safe (cfg : Cfg) (cs : List Bytes) :
    (∃ r, decodeChunks cfg cs = .ok r) ∨ (∃ e, decodeChunks cfg cs = .err e) := by
  unfold decodeChunks
  dsimp only
  have h := foldDatasets_safe cfg (Chunks.o5mRun cs).1
    { hdr := { multipleVersions := (cs.flatten.drop 5).head? == some 0x63 } } (SlotsOk.empty _)
  cases hr : foldDatasets cfg { hdr := { multipleVersions := (cs.flatten.drop 5).head? == some 0x63 } } (Chunks.o5mRun cs).1 with
  | ok a =>
    dsimp only
    split
    · exact Or.inl ⟨_, rfl⟩
    · split
      · exact Or.inr ⟨_, rfl⟩
      · exact Or.inl ⟨_, rfl⟩
  | err e => exact Or.inr ⟨e, rfl⟩
  | oob => rw [hr] at h; exact h.elim
  | ub u => rw [hr] at h; exact h.elim

theorem decodeChunks_ne_oob (cfg : Cfg) (cs : List Bytes) : decodeChunks cfg cs ≠ .oob := by
  rcases decodeChunks_safe cfg cs with ⟨r, h⟩ | ⟨e, h⟩ <;> rw [h] <;> simp

end Osmium.O5m
