/-
decode ∘ encode for the o5m specification encoder, string-table layer: simulation between the
encoder's table (`O5mSpec.EncSt.hist`: list of the eligible strings written so far, most recent
first) and the decoder's ring (`O5m.Table`), for inline strings and back-references chosen
arbitrarily, at any fill level (incl. wrap-around) and after resets.
-/
import Osmium.Lemmas.O5mTable
import Osmium.Lemmas.Wire
import Osmium.Model.O5mSpec

namespace Osmium.O5m

open Osmium.Wire Osmium.Osm

/-- the decoder's ring holds the encoder's table -/
def TabRel (t : Table) (hist : List Bytes) : Prop := TableInv t hist ∧ t.n = O5mSpec.tableSize

theorem TabRel.empty : TabRel {} [] := ⟨TableInv.empty 15000 (by decide), rfl⟩

theorem TabRel.clear {t : Table} {hist : List Bytes} (h : TabRel t hist) : TabRel t.clear [] :=
  ⟨h.1.clear, h.2⟩

theorem add_n (t : Table) (s : Bytes) : (t.add s).n = t.n := by
  simp only [Table.add]; split <;> rfl

theorem TabRel.add {t : Table} {hist : List Bytes} (h : TabRel t hist) (s : Bytes) :
    TabRel (t.add s) (if s.length ≤ O5mSpec.maxPair then s :: hist else hist) :=
  ⟨h.1.add s, by rw [add_n]; exact h.2⟩

/-! ### the encoder's choice -/

theorem occGo_mem (pair : Bytes) : ∀ (l : List Bytes) (k i : Nat), i ∈ O5mSpec.occGo pair l k →
    k ≤ i ∧ i < O5mSpec.tableSize ∧ l[i - k]? = some pair
  | [], _, _, h => by simp [O5mSpec.occGo] at h
  | x :: l, k, i, h => by
    simp only [O5mSpec.occGo] at h
    by_cases hk : k < O5mSpec.tableSize
    · simp only [hk, ↓reduceIte] at h
      by_cases hx : (x == pair) = true
      · simp only [hx, ↓reduceIte, List.mem_cons] at h
        rcases h with h | h
        · subst h
          have : x = pair := by simpa using hx
          simp [this, hk]
        · have := occGo_mem pair l (k + 1) i h
          refine ⟨by omega, this.2.1, ?_⟩
          have e : i - k = (i - (k + 1)) + 1 := by omega
          rw [e, List.getElem?_cons_succ]
          exact this.2.2
      · simp only [hx, Bool.false_eq_true, ↓reduceIte] at h
        have := occGo_mem pair l (k + 1) i h
        refine ⟨by omega, this.2.1, ?_⟩
        have e : i - k = (i - (k + 1)) + 1 := by omega
        rw [e, List.getElem?_cons_succ]
        exact this.2.2
    · simp [hk] at h

theorem occurrences_mem (pair : Bytes) (hist : List Bytes) (i : Nat) (h : i ∈ O5mSpec.occurrences pair hist) :
    i < O5mSpec.tableSize ∧ hist[i]? = some pair := by
  have := occGo_mem pair hist 0 i h
  exact ⟨this.2.1, by simpa using this.2.2⟩

theorem getD_mem_of_ne_nil (l : List Nat) (k : Nat) (h : l ≠ []) : l.getD (k % l.length) 0 ∈ l := by
  have hl : 0 < l.length := List.length_pos_iff.mpr h
  have : k % l.length < l.length := Nat.mod_lt _ hl
  rw [List.getD_eq_getElem?_getD, List.getElem?_eq_getElem this]
  simp

/-- what `emitPair` writes: either the inline form (and the table gets the string if it is
    short enough), or the number of an occurrence in the table (and nothing changes) -/
theorem emitPair_cases (s : O5mSpec.EncSt) (pair : Bytes) :
    (O5mSpec.payload (O5mSpec.emitPair true s pair).1 = 0 :: pair ∧
      (O5mSpec.emitPair true s pair).2.hist = (if pair.length ≤ O5mSpec.maxPair then pair :: s.hist else s.hist)) ∨
    (∃ i, i < O5mSpec.tableSize ∧ s.hist[i]? = some pair ∧
      O5mSpec.payload (O5mSpec.emitPair true s pair).1 = encodeVarint (i + 1) ∧
      (O5mSpec.emitPair true s pair).2.hist = s.hist) := by
  unfold O5mSpec.emitPair
  simp only [Bool.not_true, Bool.or_false]
  by_cases ho : (O5mSpec.occurrences pair s.hist).isEmpty = true
  · left; simp [ho, O5mSpec.payload]
  · simp only [ho, Bool.false_eq_true, ↓reduceIte]
    cases hu : s.useRef with
    | nil => left; simp [O5mSpec.payload]
    | cons c rest =>
      cases c with
      | zero => left; simp [O5mSpec.payload]
      | succ k =>
        right
        have hne : O5mSpec.occurrences pair s.hist ≠ [] := by
          intro h0; simp [h0] at ho
        have hm := getD_mem_of_ne_nil _ k hne
        have := occurrences_mem pair s.hist _ hm
        exact ⟨_, this.1, this.2, by simp [O5mSpec.payload], rfl⟩

/-! ### the decoder on what was written -/

theorem walkPost_cstr (e : Err) (inDs : Bool) : ∀ (s r acc : Bytes), (∀ b ∈ s, b ≠ 0) →
    walkPost e (s ++ 0 :: r) inDs acc = .ok (acc.reverse ++ s, ⟨r, inDs⟩)
  | [], r, acc, _ => by simp [walkPost]
  | b :: s, r, acc, h => by
    have hb : b ≠ 0 := h b (List.mem_cons_self)
    have hb' : (b == 0) = false := by simpa using hb
    have hs : ∀ x ∈ s, x ≠ 0 := fun x hx => h x (List.mem_cons_of_mem _ hx)
    have hne : (s ++ 0 :: r).isEmpty = false := by cases s <;> simp
    simp only [List.cons_append, walkPost, hb', Bool.false_eq_true, ↓reduceIte, hne, Bool.and_false]
    rw [walkPost_cstr e inDs s r (b :: acc) hs]
    simp

theorem decodeString_inline (tab : Table) (x : Bytes) (hx : x ≠ []) :
    decodeString tab (0 :: x) = .ok (⟨x, true⟩, x) := by
  have : x.isEmpty = false := by cases x <;> simp_all
  simp [decodeString, this]

theorem encodeVarint_head (v : Nat) (h1 : 1 ≤ v) (h2 : v < 2 ^ 64) :
    ∃ b tl, encodeVarint v = b :: tl ∧ b ≠ 0 := by
  have e : encodeVarint v = if v < 128 then [UInt8.ofNat v]
      else UInt8.ofNat (v % 128 + 128) :: encodeVarintGo 9 (v / 128) := by
    unfold encodeVarint
    rw [Nat.mod_eq_of_lt h2]
    rfl
  rw [e]
  by_cases hv : v < 128
  · refine ⟨UInt8.ofNat v, [], by rw [if_pos hv], ?_⟩
    intro h0
    have := congrArg UInt8.toNat h0
    rw [uint8_ofNat_toNat v (by omega)] at this
    have z : (0 : UInt8).toNat = 0 := rfl
    omega
  · refine ⟨UInt8.ofNat (v % 128 + 128), _, by rw [if_neg hv], ?_⟩
    intro h0
    have := congrArg UInt8.toNat h0
    rw [uint8_ofNat_toNat _ (by omega)] at this
    have z : (0 : UInt8).toNat = 0 := rfl
    omega

theorem decodeString_ref (tab : Table) (v : Nat) (rest : Bytes) (h1 : 1 ≤ v) (h2 : v < 2 ^ 64) :
    decodeString tab (encodeVarint v ++ rest) = (do let s ← tab.get v; pure (⟨s, false⟩, rest)) := by
  obtain ⟨b, tl, he, hb⟩ := encodeVarint_head v h1 h2
  have hb' : (b == 0) = false := by simpa using hb
  have hd := decodeVarint_encodeVarint v h2 rest
  rw [he] at hd ⊢
  simp only [List.cons_append, decodeString, hb', Bool.false_eq_true, ↓reduceIte, varint]
  simp only [List.cons_append] at hd
  rw [hd]
  rfl

theorem isInline_zero (x : Bytes) : isInline (0 :: x) = true := by simp [isInline]

theorem isInline_varint (v : Nat) (rest : Bytes) (h1 : 1 ≤ v) (h2 : v < 2 ^ 64) :
    isInline (encodeVarint v ++ rest) = false := by
  obtain ⟨b, tl, he, hb⟩ := encodeVarint_head v h1 h2
  rw [he]
  simp [isInline, hb]

theorem slice_append (a b : Bytes) : slice (a ++ b) b = a := by
  simp [slice]

@[simp] theorem ok_bind {α β : Type} (a : α) (f : α → Res β) : (Res.ok a >>= f) = f a := rfl
@[simp] theorem pure_bind' {α β : Type} (a : α) (f : α → Res β) : ((pure a : Res α) >>= f) = f a := rfl

/-- reference `i+1` of a ring that holds the encoder's table yields a slot starting with `hist[i]` -/
theorem TabRel.get {t : Table} {hist : List Bytes} (h : TabRel t hist) (i : Nat) (pair : Bytes)
    (hi : i < O5mSpec.tableSize) (hp : hist[i]? = some pair) :
    ∃ junk, t.get (i + 1) = .ok (padSlot (pair ++ junk)) := by
  obtain ⟨inv, hn⟩ := h
  have hne : hist ≠ [] := by intro h0; rw [h0] at hp; simp at hp
  have hsz := inv.nonempty hne
  have hpre := inv.pre i pair (by rw [hn]; exact hi) hp
  obtain ⟨junk, hj⟩ := hpre
  refine ⟨junk, ?_⟩
  unfold Table.get
  have hn0 : t.n ≠ 0 := by rw [hn]; decide
  have c1 : (t.slots.size == 0) = false := by rw [hsz]; simpa using hn0
  have c2 : (i + 1 == 0) = false := by simp
  have c3 : decide (i + 1 > t.n) = false := by
    rw [hn]; simp only [O5mSpec.tableSize] at hi ⊢; simp; omega
  simp only [c1, c2, c3, Bool.or_self, Bool.false_eq_true, ↓reduceIte, hj]

def TagOk (t : Tag) : Prop :=
  (∀ b ∈ t.key, b ≠ 0) ∧ (∀ b ∈ t.value, b ≠ 0) ∧ t.key.length ≤ maxOsmStringLength ∧ t.value.length ≤ maxOsmStringLength

theorem payload_append (a b : List O5mSpec.Field) : O5mSpec.payload (a ++ b) = O5mSpec.payload a ++ O5mSpec.payload b := by
  simp [O5mSpec.payload]

/-- One tag: whatever the producer chose (inline or any valid back-reference), one iteration of
    the decode_tags loop reads exactly this tag, leaves the cursor behind it and keeps the ring
    in step with the encoder's table. -/
theorem decodeTags_step (t : Tag) (ht : TagOk t) (s : O5mSpec.EncSt) (tab : Table) (hr : TabRel tab s.hist)
    (P : Bytes) (fuel : Nat) (acc : List Tag) :
    ∃ tab', decodeTagsGo (fuel + 1) tab (O5mSpec.payload (O5mSpec.emitPair true s (O5mSpec.tagPair t)).1 ++ P) acc
        = decodeTagsGo fuel tab' P (t :: acc) ∧
      TabRel tab' (O5mSpec.emitPair true s (O5mSpec.tagPair t)).2.hist := by
  obtain ⟨hk, hv, hkl, hvl⟩ := ht
  have hkl' : ¬ t.key.length > maxOsmStringLength := by omega
  have hvl' : ¬ t.value.length > maxOsmStringLength := by omega
  rcases emitPair_cases s (O5mSpec.tagPair t) with ⟨hp, hh⟩ | ⟨i, hi, hget, hp, hh⟩
  · -- inline
    refine ⟨tab.add (O5mSpec.tagPair t), ?_, by rw [hh]; exact hr.add _⟩
    rw [hp]
    have e1 : O5mSpec.tagPair t ++ P = t.key ++ 0 :: (t.value ++ 0 :: P) := by simp [O5mSpec.tagPair]
    have hne : O5mSpec.tagPair t ++ P ≠ [] := by rw [e1]; simp
    simp only [List.cons_append, decodeTagsGo, List.isEmpty_cons, Bool.false_eq_true, ↓reduceIte, isInline_zero,
      decodeString_inline tab _ hne, ok_bind]
    have hne2 : (t.value ++ 0 :: P).isEmpty = false := by cases t.value <;> simp
    have eta : ({ key := t.key, value := t.value } : Tag) = t := by cases t; rfl
    rw [e1, walkPost_cstr .noNulKey true t.key _ [] hk]
    simp only [ok_bind, Ptr.atEnd, hne2, Bool.and_false, Bool.false_eq_true, ↓reduceIte]
    rw [walkPost_cstr .noNulValue true t.value _ [] hv]
    simp only [ok_bind, List.reverse_nil, List.nil_append, ↓reduceIte, hkl', hvl', eta]
    rw [← e1, slice_append]
  · -- back-reference
    refine ⟨tab, ?_, by rw [hh]; exact hr⟩
    rw [hp]
    obtain ⟨junk, hg⟩ := hr.get i _ hi hget
    have h1 : 1 ≤ i + 1 := by omega
    have h2 : i + 1 < 2 ^ 64 := by simp only [O5mSpec.tableSize] at hi; omega
    obtain ⟨b, tl, he, hb⟩ := encodeVarint_head (i + 1) h1 h2
    have hne : (encodeVarint (i + 1) ++ P).isEmpty = false := by rw [he]; simp
    have e1 : padSlot (O5mSpec.tagPair t ++ junk) =
        t.key ++ 0 :: (t.value ++ 0 :: (junk ++ List.replicate (entrySize - (O5mSpec.tagPair t ++ junk).length) 0)) := by
      simp [padSlot, O5mSpec.tagPair]
    simp only [decodeTagsGo, hne, Bool.false_eq_true, ↓reduceIte, isInline_varint (i + 1) P h1 h2,
      decodeString_ref tab (i + 1) P h1 h2, hg, ok_bind, pure_bind']
    have eta : ({ key := t.key, value := t.value } : Tag) = t := by cases t; rfl
    rw [e1, walkPost_cstr .noNulKey false t.key _ [] hk]
    simp only [ok_bind, Ptr.atEnd, Bool.false_and, Bool.false_eq_true, ↓reduceIte]
    rw [walkPost_cstr .noNulValue false t.value _ [] hv]
    simp only [ok_bind, List.reverse_nil, List.nil_append, Bool.false_eq_true, ↓reduceIte, hkl', hvl', eta]

/-- decode_tags ∘ emitTags = id, for every choice vector and every table state (incl. a full,
    wrapped-around ring): the tags come back and the ring stays in step. -/
theorem decodeTags_emitTags : ∀ (tags : List Tag) (s : O5mSpec.EncSt) (tab : Table) (fuel : Nat) (acc : List Tag),
    (∀ t ∈ tags, TagOk t) → TabRel tab s.hist →
    ∃ tab', decodeTagsGo (fuel + tags.length) tab (O5mSpec.payload (O5mSpec.emitTags s tags).1) acc
        = .ok (acc.reverse ++ tags, tab') ∧ TabRel tab' (O5mSpec.emitTags s tags).2.hist
  | [], s, tab, fuel, acc, _, hr => by
    refine ⟨tab, ?_, hr⟩
    cases fuel <;> simp [O5mSpec.emitTags, O5mSpec.payload, decodeTagsGo]
  | t :: ts, s, tab, fuel, acc, hok, hr => by
    have ht := hok t (List.mem_cons_self)
    have hts : ∀ x ∈ ts, TagOk x := fun x hx => hok x (List.mem_cons_of_mem _ hx)
    obtain ⟨tab1, hstep, hr1⟩ := decodeTags_step t ht s tab hr
      (O5mSpec.payload (O5mSpec.emitTags (O5mSpec.emitPair true s (O5mSpec.tagPair t)).2 ts).1) (fuel + ts.length) acc
    obtain ⟨tab2, hrec, hr2⟩ := decodeTags_emitTags ts (O5mSpec.emitPair true s (O5mSpec.tagPair t)).2 tab1 fuel (t :: acc) hts hr1
    refine ⟨tab2, ?_, ?_⟩
    · have e : fuel + (t :: ts).length = fuel + ts.length + 1 := by simp; omega
      rw [e]
      simp only [O5mSpec.emitTags, payload_append]
      rw [hstep, hrec]
      simp
    · simpa [O5mSpec.emitTags] using hr2

/-! ### numbers and deltas -/

def InI64 (x : Int) : Prop := -9223372036854775808 ≤ x ∧ x ≤ 9223372036854775807

theorem varint_encode (v : Nat) (hv : v < 2 ^ 64) (rest : Bytes) : varint (encodeVarint v ++ rest) = .ok (v, rest) := by
  simp only [varint, decodeVarint_encodeVarint v hv rest, liftWire]

theorem zvarint_svarint (x : Int) (h : InI64 x) (rest : Bytes) : zvarint (O5mSpec.svarint x ++ rest) = .ok (x, rest) := by
  have hz : zigzag64 x < 2 ^ 64 := zigzag_lt x (by have := h.1; omega) (by have := h.2; omega)
  simp only [zvarint, O5mSpec.svarint, varint_encode _ hz rest, ok_bind, unzigzag_zigzag]
  rfl

theorem delta_inI64 (a b : Int) : InI64 (O5mSpec.delta a b) := by
  unfold O5mSpec.delta wrap64 InI64
  omega

theorem wrap_delta (prev new : Int) (h : InI64 new) : wrap64 (prev + O5mSpec.delta new prev) = new := by
  unfold O5mSpec.delta wrap64
  unfold InI64 at h
  omega

theorem toU32_delta (prev : Int) (new : Nat) (h : new < 4294967296) :
    ((toU32 (prev + O5mSpec.delta (new : Int) prev) : Nat) : Int) = (new : Int) := by
  unfold O5mSpec.delta wrap64 toU32
  omega

theorem wrap32_id (x : Int) (h1 : -2147483648 ≤ x) (h2 : x ≤ 2147483647) : wrap32 x = x := by
  unfold wrap32; omega

/-! ### (uid, user) pairs and role strings -/

theorem walkPre_cstr (e : Err) (inDs : Bool) : ∀ (s r acc : Bytes), (∀ b ∈ s, b ≠ 0) →
    walkPre e (s ++ 0 :: r) inDs acc = .ok (acc.reverse ++ s, ⟨r, inDs⟩)
  | [], r, acc, _ => by simp [walkPre]
  | b :: s, r, acc, h => by
    have hb : b ≠ 0 := h b (List.mem_cons_self)
    have hb' : (b == 0) = false := by simpa using hb
    have hs : ∀ x ∈ s, x ≠ 0 := fun x hx => h x (List.mem_cons_of_mem _ hx)
    simp only [List.cons_append, walkPre, hb', Bool.false_eq_true, ↓reduceIte]
    rw [walkPre_cstr e inDs s r (b :: acc) hs]
    simp

/-- general form of `emitPair_cases` (the anonymous pair may be barred from being referenced) -/
theorem emitPair_cases' (allow : Bool) (s : O5mSpec.EncSt) (pair : Bytes) :
    (O5mSpec.payload (O5mSpec.emitPair allow s pair).1 = 0 :: pair ∧
      (O5mSpec.emitPair allow s pair).2.hist = (if pair.length ≤ O5mSpec.maxPair then pair :: s.hist else s.hist)) ∨
    (allow = true ∧ ∃ i, i < O5mSpec.tableSize ∧ s.hist[i]? = some pair ∧
      O5mSpec.payload (O5mSpec.emitPair allow s pair).1 = encodeVarint (i + 1) ∧
      (O5mSpec.emitPair allow s pair).2.hist = s.hist) := by
  cases allow with
  | true =>
    rcases emitPair_cases s pair with h | h
    · exact Or.inl h
    · exact Or.inr ⟨rfl, h⟩
  | false =>
    left
    simp [O5mSpec.emitPair, O5mSpec.payload]

/-- the other state components are untouched by `emitPair` -/
theorem emitPair_frame (allow : Bool) (s : O5mSpec.EncSt) (pair : Bytes) :
    let s' := (O5mSpec.emitPair allow s pair).2
    s'.id = s.id ∧ s'.ts = s.ts ∧ s'.cs = s.cs ∧ s'.lon = s.lon ∧ s'.lat = s.lat ∧ s'.wayNode = s.wayNode ∧
    s'.mem0 = s.mem0 ∧ s'.mem1 = s.mem1 ∧ s'.mem2 = s.mem2 := by
  unfold O5mSpec.emitPair
  dsimp only
  split
  · simp
  · split <;> simp

theorem varint_zero (P : Bytes) : varint (0 :: P) = .ok (0, P) := by
  have := varint_encode 0 (by decide) P
  simpa [encodeVarint, encodeVarintGo] using this

/-- decode_user ∘ (write the (uid,user) pair) = id, inline or by reference (incl. the
    anonymous pair) -/
theorem decodeUser_emit (uid : Nat) (user : Bytes) (huid : uid < 4294967296) (hu : ∀ b ∈ user, b ≠ 0)
    (hul : user.length ≤ maxOsmStringLength) (h0 : uid = 0 → user = []) (allow : Bool)
    (s : O5mSpec.EncSt) (tab : Table) (hr : TabRel tab s.hist) (P : Bytes) :
    ∃ tab', decodeUser tab (O5mSpec.payload (O5mSpec.emitPair allow s (O5mSpec.userPair uid user)).1 ++ P)
        = .ok ((uid, user), tab', P) ∧
      TabRel tab' (O5mSpec.emitPair allow s (O5mSpec.userPair uid user)).2.hist := by
  have hle : ¬ uid > 4294967295 := by omega
  have hul' : ¬ user.length + 1 > maxOsmStringLength + 1 := by omega
  rcases emitPair_cases' allow s (O5mSpec.userPair uid user) with ⟨hp, hh⟩ | ⟨hal, i, hi, hget, hp, hh⟩
  · -- inline
    refine ⟨tab.add (O5mSpec.userPair uid user), ?_, by rw [hh]; exact hr.add _⟩
    rw [hp]
    by_cases hz : uid = 0
    · have hue := h0 hz
      subst hz; subst hue
      have e1 : O5mSpec.userPair 0 [] ++ P = 0 :: 0 :: P := by simp [O5mSpec.userPair]
      have hne : O5mSpec.userPair 0 [] ++ P ≠ [] := by rw [e1]; simp
      have e2 : O5mSpec.userPair 0 [] = [0, 0] := by simp [O5mSpec.userPair]
      simp only [List.cons_append, decodeUser, isInline_zero, decodeString_inline tab _ hne, ok_bind, Ptr.varint, ↓reduceIte]
      rw [e1, varint_zero]
      simp [Ptr.atEnd, e2]
      rfl
    · have huz : (uid == 0) = false := by simpa using hz
      have e1 : O5mSpec.userPair uid user ++ P = encodeVarint uid ++ (0 :: (user ++ 0 :: P)) := by
        simp [O5mSpec.userPair, huz]
      have hne : O5mSpec.userPair uid user ++ P ≠ [] := by
        obtain ⟨b, tl, he, _⟩ := encodeVarint_head uid (by omega) (by omega)
        rw [e1, he]; simp
      simp only [List.cons_append, decodeUser, isInline_zero, decodeString_inline tab _ hne, ok_bind, Ptr.varint, ↓reduceIte]
      rw [e1, varint_encode uid (by omega)]
      simp only [ok_bind, pure_bind', hle, ↓reduceIte, Ptr.atEnd, List.isEmpty_cons, Bool.and_false, Bool.false_eq_true,
        List.tail_cons, huz, Bool.false_and]
      rw [walkPre_cstr .noNulUser true user P [] hu]
      simp only [ok_bind, List.reverse_nil, List.nil_append, ↓reduceIte, hul']
      rw [← e1, slice_append]
      rfl
  · -- back-reference
    refine ⟨tab, ?_, by rw [hh]; exact hr⟩
    rw [hp]
    obtain ⟨junk, hg⟩ := hr.get i _ hi hget
    have h1 : 1 ≤ i + 1 := by omega
    have h2 : i + 1 < 2 ^ 64 := by simp only [O5mSpec.tableSize] at hi; omega
    by_cases hz : uid = 0
    · have hue := h0 hz
      subst hz; subst hue
      have e1 : padSlot (O5mSpec.userPair 0 [] ++ junk) =
          0 :: (0 :: (junk ++ List.replicate (entrySize - (O5mSpec.userPair 0 [] ++ junk).length) 0)) := by
        simp [padSlot, O5mSpec.userPair]
      simp only [decodeUser, isInline_varint (i + 1) P h1 h2, decodeString_ref tab (i + 1) P h1 h2, hg, ok_bind, pure_bind',
        Ptr.varint, Bool.false_eq_true, ↓reduceIte]
      rw [e1, varint_zero]
      simp [Ptr.atEnd]
      rfl
    · have huz : (uid == 0) = false := by simpa using hz
      have e1 : padSlot (O5mSpec.userPair uid user ++ junk) =
          encodeVarint uid ++ (0 :: (user ++ 0 :: (junk ++ List.replicate (entrySize - (O5mSpec.userPair uid user ++ junk).length) 0))) := by
        simp [padSlot, O5mSpec.userPair, huz]
      simp only [decodeUser, isInline_varint (i + 1) P h1 h2, decodeString_ref tab (i + 1) P h1 h2, hg, ok_bind, pure_bind',
        Ptr.varint, Bool.false_eq_true, ↓reduceIte]
      rw [e1, varint_encode uid (by omega)]
      simp only [ok_bind, pure_bind', hle, ↓reduceIte, Ptr.atEnd, Bool.false_and, Bool.false_eq_true, List.tail_cons, huz, Bool.and_false]
      rw [walkPre_cstr .noNulUser false user _ [] hu]
      have hul2 : ¬ maxOsmStringLength < user.length := by omega
      simp [hul2]
      rfl

/-- decode_role ∘ (write the type+role string) = id, inline or by reference -/
theorem decodeRole_emit (type : Nat) (role : Bytes) (ht : 1 ≤ type ∧ type ≤ 3) (hro : ∀ b ∈ role, b ≠ 0)
    (s : O5mSpec.EncSt) (tab : Table) (hr : TabRel tab s.hist) (P : Bytes) :
    ∃ tab', decodeRole tab (O5mSpec.payload (O5mSpec.emitPair true s (O5mSpec.rolePair type role)).1 ++ P)
        = .ok ((type, role), tab', P) ∧
      TabRel tab' (O5mSpec.emitPair true s (O5mSpec.rolePair type role)).2.hist := by
  have hc : (UInt8.ofNat (48 + type - 1)).toNat = 47 + type := by
    rw [uint8_ofNat_toNat _ (by omega)]; omega
  have hc1 : ¬ ((UInt8.ofNat (48 + type - 1)).toNat < 48 ∨ (UInt8.ofNat (48 + type - 1)).toNat > 50) := by
    rw [hc]; omega
  have hc2 : (UInt8.ofNat (48 + type - 1)).toNat - 48 + 1 = type := by rw [hc]; omega
  rcases emitPair_cases s (O5mSpec.rolePair type role) with ⟨hp, hh⟩ | ⟨i, hi, hget, hp, hh⟩
  · refine ⟨tab.add (O5mSpec.rolePair type role), ?_, by rw [hh]; exact hr.add _⟩
    rw [hp]
    have e1 : O5mSpec.rolePair type role ++ P = UInt8.ofNat (48 + type - 1) :: (role ++ 0 :: P) := by
      simp [O5mSpec.rolePair]
    have hne : O5mSpec.rolePair type role ++ P ≠ [] := by rw [e1]; simp
    have hne2 : (role ++ 0 :: P).isEmpty = false := by cases role <;> simp
    simp only [List.cons_append, decodeRole, isInline_zero, decodeString_inline tab _ hne, ok_bind]
    rw [e1]
    simp only [Bool.or_eq_true, decide_eq_true_eq, hc1, ↓reduceIte, Ptr.atEnd, hne2, Bool.and_false, Bool.false_eq_true]
    rw [walkPost_cstr .noNulRole true role P [] hro]
    simp only [ok_bind, List.reverse_nil, List.nil_append, ↓reduceIte, hc2]
    rw [← e1, slice_append]
    rfl
  · refine ⟨tab, ?_, by rw [hh]; exact hr⟩
    rw [hp]
    obtain ⟨junk, hg⟩ := hr.get i _ hi hget
    have h1 : 1 ≤ i + 1 := by omega
    have h2 : i + 1 < 2 ^ 64 := by simp only [O5mSpec.tableSize] at hi; omega
    have e1 : padSlot (O5mSpec.rolePair type role ++ junk) =
        UInt8.ofNat (48 + type - 1) :: (role ++ 0 :: (junk ++ List.replicate (entrySize - (O5mSpec.rolePair type role ++ junk).length) 0)) := by
      simp [padSlot, O5mSpec.rolePair]
    simp only [decodeRole, isInline_varint (i + 1) P h1 h2, decodeString_ref tab (i + 1) P h1 h2, hg, ok_bind, pure_bind']
    rw [e1]
    simp only [Bool.or_eq_true, decide_eq_true_eq, hc1, ↓reduceIte, Ptr.atEnd, Bool.false_and, Bool.false_eq_true]
    rw [walkPost_cstr .noNulRole false role _ [] hro]
    simp only [ok_bind, List.reverse_nil, List.nil_append, Bool.false_eq_true, ↓reduceIte, hc2]
    rfl

/-! ### state simulation -/

structure StRel (st : St) (s : O5mSpec.EncSt) : Prop where
  tab : TabRel st.tab s.hist
  id : st.id = s.id
  ts : st.ts = s.ts
  cs : st.cs = s.cs
  lon : st.lon = s.lon
  lat : st.lat = s.lat
  wayNode : st.wayNode = s.wayNode
  mem0 : st.mem0 = s.mem0
  mem1 : st.mem1 = s.mem1
  mem2 : st.mem2 = s.mem2

theorem encodeVarintGo_ne_nil (fuel v : Nat) : encodeVarintGo fuel v ≠ [] := by
  cases fuel with
  | zero => simp [encodeVarintGo]
  | succ f => simp only [encodeVarintGo]; split <;> simp

theorem svarint_length_pos (x : Int) : 0 < (O5mSpec.svarint x).length := by
  have : O5mSpec.svarint x ≠ [] := encodeVarintGo_ne_nil _ _
  exact List.length_pos_iff.mpr this

def RefOk (r : NodeRef) : Prop := InI64 r.ref ∧ r.location = Location.undefined

theorem emitRefs_frame : ∀ (refs : List NodeRef) (s : O5mSpec.EncSt),
    let s' := (O5mSpec.emitRefs s refs).2
    s'.hist = s.hist ∧ s'.id = s.id ∧ s'.ts = s.ts ∧ s'.cs = s.cs ∧ s'.lon = s.lon ∧ s'.lat = s.lat ∧
    s'.mem0 = s.mem0 ∧ s'.mem1 = s.mem1 ∧ s'.mem2 = s.mem2 ∧ s'.useRef = s.useRef
  | [], s => by simp [O5mSpec.emitRefs]
  | r :: rs, s => by
    have := emitRefs_frame rs { s with wayNode := r.ref }
    simpa [O5mSpec.emitRefs] using this

/-- the way-node loop reads back exactly the references that were written -/
theorem wayRefs_emit : ∀ (refs : List NodeRef) (s : O5mSpec.EncSt) (wn : Int) (fuel : Nat) (acc : List NodeRef) (P : Bytes),
    (∀ r ∈ refs, RefOk r) → wn = s.wayNode → (O5mSpec.payload (O5mSpec.emitRefs s refs).1).length ≤ fuel →
    wayRefsGo fuel P.length wn (O5mSpec.payload (O5mSpec.emitRefs s refs).1 ++ P) acc
      = .ok (acc.reverse ++ refs, (O5mSpec.emitRefs s refs).2.wayNode, P)
  | [], s, wn, fuel, acc, P, _, hw, _ => by
    subst hw
    cases fuel <;> simp [O5mSpec.emitRefs, O5mSpec.payload, wayRefsGo]
  | r :: rs, s, wn, fuel, acc, P, hok, hw, hf => by
    subst hw
    have hr := hok r (List.mem_cons_self)
    have hrs : ∀ x ∈ rs, RefOk x := fun x hx => hok x (List.mem_cons_of_mem _ hx)
    have hpl : O5mSpec.payload (O5mSpec.emitRefs s (r :: rs)).1 =
        O5mSpec.svarint (O5mSpec.delta r.ref s.wayNode) ++ O5mSpec.payload (O5mSpec.emitRefs { s with wayNode := r.ref } rs).1 := by
      simp [O5mSpec.emitRefs, O5mSpec.payload]
    have hpos := svarint_length_pos (O5mSpec.delta r.ref s.wayNode)
    rw [hpl] at hf ⊢
    simp only [List.length_append] at hf
    obtain ⟨f, rfl⟩ : ∃ f, fuel = f + 1 := ⟨fuel - 1, by omega⟩
    have hgt : P.length < (O5mSpec.svarint (O5mSpec.delta r.ref s.wayNode)).length +
        ((O5mSpec.payload (O5mSpec.emitRefs { s with wayNode := r.ref } rs).1).length + P.length) := by omega
    simp only [wayRefsGo, List.append_assoc, List.length_append, gt_iff_lt, hgt, ↓reduceIte,
      zvarint_svarint _ (delta_inI64 _ _), ok_bind, wrap_delta s.wayNode r.ref hr.1]
    have ih := wayRefs_emit rs { s with wayNode := r.ref } r.ref f ({ ref := r.ref } :: acc) P hrs rfl (by omega)
    rw [ih]
    have eta : ({ ref := r.ref } : NodeRef) = r := by
      cases r with
      | mk ref loc => have := hr.2; simp only at this; subst this; rfl
    simp [O5mSpec.emitRefs, eta]

def MemberOk (m : Member) : Prop :=
  (1 ≤ m.type ∧ m.type ≤ 3) ∧ InI64 m.ref ∧ (∀ b ∈ m.role, b ≠ 0) ∧ m.role.length ≤ maxOsmStringLength

theorem StRel.mem {st : St} {s : O5mSpec.EncSt} (h : StRel st s) (t : Nat) : st.mem t = s.mem t := by
  simp only [St.mem, O5mSpec.EncSt.mem, h.mem0, h.mem1, h.mem2]

theorem StRel.setMem {st : St} {s : O5mSpec.EncSt} (h : StRel st s) (t : Nat) (v : Int) :
    StRel (st.setMem t v) (s.setMem t v) := by
  obtain ⟨a, b, c, d, e, f, g, h0, h1, h2⟩ := h
  simp only [St.setMem, O5mSpec.EncSt.setMem]
  split
  · exact ⟨a, b, c, d, e, f, g, rfl, h1, h2⟩
  · split
    · exact ⟨a, b, c, d, e, f, g, h0, rfl, h2⟩
    · exact ⟨a, b, c, d, e, f, g, h0, h1, rfl⟩

/-- replacing the table of the decoder state by the one that matches the encoder's new table -/
theorem StRel.withTab {st : St} {s s' : O5mSpec.EncSt} (h : StRel st s) (tab : Table) (ht : TabRel tab s'.hist)
    (hf : s'.id = s.id ∧ s'.ts = s.ts ∧ s'.cs = s.cs ∧ s'.lon = s.lon ∧ s'.lat = s.lat ∧ s'.wayNode = s.wayNode ∧
      s'.mem0 = s.mem0 ∧ s'.mem1 = s.mem1 ∧ s'.mem2 = s.mem2) :
    StRel { st with tab := tab } s' := by
  obtain ⟨f1, f2, f3, f4, f5, f6, f7, f8, f9⟩ := hf
  exact ⟨ht, by rw [f1]; exact h.id, by rw [f2]; exact h.ts, by rw [f3]; exact h.cs, by rw [f4]; exact h.lon,
    by rw [f5]; exact h.lat, by rw [f6]; exact h.wayNode, by rw [f7]; exact h.mem0, by rw [f8]; exact h.mem1,
    by rw [f9]; exact h.mem2⟩

/-- the member loop reads back exactly the members that were written and keeps the states in step -/
theorem relMembers_emit : ∀ (ms : List Member) (s : O5mSpec.EncSt) (st : St) (fuel : Nat) (acc : List Member) (P : Bytes),
    (∀ m ∈ ms, MemberOk m) → StRel st s → (O5mSpec.payload (O5mSpec.emitMembers s ms).1).length ≤ fuel →
    ∃ st', relMembersGo fuel P.length st (O5mSpec.payload (O5mSpec.emitMembers s ms).1 ++ P) acc
        = .ok (acc.reverse ++ ms, st', P) ∧ StRel st' (O5mSpec.emitMembers s ms).2
  | [], s, st, fuel, acc, P, _, hr, _ => by
    refine ⟨st, ?_, by simpa [O5mSpec.emitMembers] using hr⟩
    cases fuel <;> simp [O5mSpec.emitMembers, O5mSpec.payload, relMembersGo]
  | m :: ms, s, st, fuel, acc, P, hok, hr, hf => by
    have hm := hok m (List.mem_cons_self)
    have hms : ∀ x ∈ ms, MemberOk x := fun x hx => hok x (List.mem_cons_of_mem _ hx)
    obtain ⟨hty, href, hro, hrl⟩ := hm
    generalize hep : O5mSpec.emitPair true s (O5mSpec.rolePair m.type m.role) = ep
    obtain ⟨fr, s1⟩ := ep
    have hpl : O5mSpec.payload (O5mSpec.emitMembers s (m :: ms)).1 =
        O5mSpec.svarint (O5mSpec.delta m.ref (s.mem m.type)) ++
          (O5mSpec.payload fr ++ O5mSpec.payload (O5mSpec.emitMembers (s1.setMem m.type m.ref) ms).1) := by
      simp [O5mSpec.emitMembers, O5mSpec.payload, hep]
    have hst : (O5mSpec.emitMembers s (m :: ms)).2 = (O5mSpec.emitMembers (s1.setMem m.type m.ref) ms).2 := by
      simp [O5mSpec.emitMembers, hep]
    have hpos := svarint_length_pos (O5mSpec.delta m.ref (s.mem m.type))
    rw [hpl] at hf ⊢
    rw [hst]
    simp only [List.length_append] at hf
    obtain ⟨f, rfl⟩ : ∃ f, fuel = f + 1 := ⟨fuel - 1, by omega⟩
    have hgt : P.length < (O5mSpec.svarint (O5mSpec.delta m.ref (s.mem m.type))).length +
        ((O5mSpec.payload fr).length + ((O5mSpec.payload (O5mSpec.emitMembers (s1.setMem m.type m.ref) ms).1).length + P.length)) := by
      omega
    obtain ⟨tab1, hdr, hr1⟩ := decodeRole_emit m.type m.role hty hro s st.tab hr.tab
      (O5mSpec.payload (O5mSpec.emitMembers (s1.setMem m.type m.ref) ms).1 ++ P)
    rw [hep] at hdr hr1
    have hfrm := emitPair_frame true s (O5mSpec.rolePair m.type m.role)
    rw [hep] at hfrm
    simp only at hfrm hdr hr1
    have hne : (O5mSpec.payload fr ++ (O5mSpec.payload (O5mSpec.emitMembers (s1.setMem m.type m.ref) ms).1 ++ P)).isEmpty = false := by
      rcases emitPair_cases s (O5mSpec.rolePair m.type m.role) with ⟨hp, _⟩ | ⟨i, hi, _, hp, _⟩
      · rw [hep] at hp; simp only at hp; rw [hp]; simp
      · rw [hep] at hp; simp only at hp; rw [hp]
        obtain ⟨b, tl, he, _⟩ := encodeVarint_head (i + 1) (by omega) (by simp only [O5mSpec.tableSize] at hi; omega)
        rw [he]; simp
    have hrl' : ¬ m.role.length > maxOsmStringLength := by omega
    have hrel1 : StRel { st with tab := tab1 } s1 := hr.withTab tab1 hr1 hfrm
    have hmem : ({ st with tab := tab1 } : St).mem m.type = s.mem m.type := by
      have : ({ st with tab := tab1 } : St).mem m.type = st.mem m.type := rfl
      rw [this, hr.mem]
    have hrel2 := hrel1.setMem m.type m.ref
    obtain ⟨st', hrec, hrel'⟩ := relMembers_emit ms (s1.setMem m.type m.ref) (({ st with tab := tab1 } : St).setMem m.type m.ref) f
      (m :: acc) P hms hrel2 (by omega)
    refine ⟨st', ?_, hrel'⟩
    simp only [relMembersGo, List.append_assoc, List.length_append, gt_iff_lt, hgt, ↓reduceIte,
      zvarint_svarint _ (delta_inI64 _ _), ok_bind, hne, Bool.false_eq_true, hdr, hrl', hmem, wrap_delta _ _ href]
    have eta : ({ type := m.type, ref := m.ref, role := m.role } : Member) = m := by cases m; rfl
    rw [eta, hrec]
    simp

/-! ### the info section -/

def MetaOk (m : Meta) : Prop :=
  InI64 m.id ∧ m.version < 2147483648 ∧ m.timestamp < 4294967296 ∧ m.changeset < 4294967296 ∧ m.uid < 4294967296 ∧
  (∀ b ∈ m.user, b ≠ 0) ∧ m.user.length ≤ maxOsmStringLength ∧ (∀ t ∈ m.tags, TagOk t) ∧
  (m.version = 0 → m.timestamp = 0) ∧ (m.timestamp = 0 → m.changeset = 0 ∧ m.uid = 0 ∧ m.user = []) ∧
  (m.uid = 0 → m.user = []) ∧ (m.visible = false → m.tags = [])

def infoOf (m : Meta) : Info :=
  { version := m.version, timestamp := m.timestamp, changeset := m.changeset, uid := m.uid, user := m.user }

theorem toU32_nat (n : Nat) (h : n < 4294967296) : toU32 (n : Int) = n := by
  unfold toU32; omega

theorem decodeInfo_emit (ch : O5mSpec.Choices) (m : Meta) (hm : MetaOk m)
    (s : O5mSpec.EncSt) (st : St) (hr : StRel st s) (last : Bool) (P : Bytes) (hl : last = true → P = []) :
    ∃ st', decodeInfo st (O5mSpec.payload (O5mSpec.emitInfo ch s m last).1 ++ P) = .ok (infoOf m, st', P) ∧
      StRel st' (O5mSpec.emitInfo ch s m last).2 := by
  obtain ⟨hid, hver, hts, hcs, huid, hunul, hulen, htags, hv0, ht0, hu0, hvis⟩ := hm
  by_cases hv : m.version = 0
  · -- no info section
    have hts0 := hv0 hv
    obtain ⟨c0, u0, n0⟩ := ht0 hts0
    refine ⟨st, ?_, by simpa [O5mSpec.emitInfo, hv] using hr⟩
    simp [O5mSpec.emitInfo, hv, O5mSpec.payload, decodeInfo, infoOf, hts0, c0, u0, n0]
  · have hvb : (m.version == 0) = false := by simpa using hv
    obtain ⟨b, tl, he, hb⟩ := encodeVarint_head m.version (by omega) (by omega)
    have hb' : (b == 0) = false := by simpa using hb
    have hvle : ¬ m.version > 4294967295 := by omega
    have hvmod : m.version % 2147483648 = m.version := Nat.mod_eq_of_lt hver
    have htsI : InI64 (m.timestamp : Int) := by unfold InI64; omega
    by_cases ht : m.timestamp = 0
    · -- version only
      obtain ⟨c0, u0, n0⟩ := ht0 ht
      have htb : (m.timestamp == 0) = true := by simpa using ht
      refine ⟨{ st with ts := 0 }, ?_, ?_⟩
      · have hpl : O5mSpec.payload (O5mSpec.emitInfo ch s m last).1 ++ P =
            encodeVarint m.version ++ (O5mSpec.svarint (O5mSpec.delta (m.timestamp : Int) s.ts) ++ P) := by
          simp [O5mSpec.emitInfo, hvb, htb, O5mSpec.payload]
        rw [hpl]
        have hcons : encodeVarint m.version ++ (O5mSpec.svarint (O5mSpec.delta (m.timestamp : Int) s.ts) ++ P) =
            b :: (tl ++ (O5mSpec.svarint (O5mSpec.delta (m.timestamp : Int) s.ts) ++ P)) := by rw [he]; rfl
        rw [hcons]
        simp only [decodeInfo, hb', Bool.false_eq_true, ↓reduceIte]
        rw [← hcons, varint_encode m.version (by omega)]
        simp only [ok_bind, hvle, ↓reduceIte, hvmod, zvarint_svarint _ (delta_inI64 _ _), hr.ts, wrap_delta _ _ htsI]
        simp [ht, infoOf, c0, u0, n0]
        rfl
      · simp only [O5mSpec.emitInfo, hvb, htb, Bool.false_eq_true, ↓reduceIte]
        exact ⟨hr.tab, hr.id, by simp [ht], hr.cs, hr.lon, hr.lat, hr.wayNode, hr.mem0, hr.mem1, hr.mem2⟩
    · have htb : (m.timestamp == 0) = false := by simpa using ht
      have htne : ((m.timestamp : Int) != 0) = true := by simp; omega
      have hcsI : toU32 (st.cs + O5mSpec.delta (m.changeset : Int) s.cs) = m.changeset := by
        have := toU32_delta s.cs m.changeset hcs
        rw [hr.cs]; omega
      by_cases hom : (m.uid == 0 && m.user.isEmpty && last && ch.omitAnonUser) = true
      · -- anonymous user left out at the end of the dataset
        have hlast : last = true := by
          simp only [Bool.and_eq_true] at hom; exact hom.1.2
        have hP := hl hlast
        have hu : m.uid = 0 := by simp only [Bool.and_eq_true, beq_iff_eq] at hom; exact hom.1.1.1
        have hn := hu0 hu
        subst hP
        refine ⟨{ st with ts := (m.timestamp : Int), cs := (m.changeset : Int) }, ?_, ?_⟩
        · have hpl : O5mSpec.payload (O5mSpec.emitInfo ch s m last).1 ++ [] =
              encodeVarint m.version ++ (O5mSpec.svarint (O5mSpec.delta (m.timestamp : Int) s.ts) ++
                (O5mSpec.svarint (O5mSpec.delta (m.changeset : Int) s.cs) ++ [])) := by
            simp [O5mSpec.emitInfo, hvb, htb, hom, O5mSpec.payload]
          rw [hpl]
          have hcons : encodeVarint m.version ++ (O5mSpec.svarint (O5mSpec.delta (m.timestamp : Int) s.ts) ++
                (O5mSpec.svarint (O5mSpec.delta (m.changeset : Int) s.cs) ++ [])) =
              b :: (tl ++ (O5mSpec.svarint (O5mSpec.delta (m.timestamp : Int) s.ts) ++
                (O5mSpec.svarint (O5mSpec.delta (m.changeset : Int) s.cs) ++ []))) := by rw [he]; rfl
          rw [hcons]
          simp only [decodeInfo, hb', Bool.false_eq_true, ↓reduceIte]
          rw [← hcons, varint_encode m.version (by omega)]
          simp only [ok_bind, hvle, ↓reduceIte, hvmod, zvarint_svarint _ (delta_inI64 _ _), hr.ts, wrap_delta _ _ htsI, htne,
            hcsI, List.isEmpty_nil, Bool.not_true, Bool.false_eq_true]
          simp [infoOf, hu, hn, toU32_nat _ hts]
          rfl
        · simp only [O5mSpec.emitInfo, hvb, htb, hom, Bool.false_eq_true, ↓reduceIte]
          exact ⟨hr.tab, hr.id, rfl, rfl, hr.lon, hr.lat, hr.wayNode, hr.mem0, hr.mem1, hr.mem2⟩
      · -- with the (uid, user) pair
        have homf : (m.uid == 0 && m.user.isEmpty && last && ch.omitAnonUser) = false := by simpa using hom
        have hstrel2 : StRel { st with ts := (m.timestamp : Int), cs := (m.changeset : Int) }
            { s with ts := (m.timestamp : Int), cs := (m.changeset : Int) } :=
          ⟨hr.tab, hr.id, rfl, rfl, hr.lon, hr.lat, hr.wayNode, hr.mem0, hr.mem1, hr.mem2⟩
        obtain ⟨tab', hdu, hrt⟩ := decodeUser_emit m.uid m.user huid hunul hulen hu0 (m.uid != 0 || ch.refAnon)
          { s with ts := (m.timestamp : Int), cs := (m.changeset : Int) } st.tab hr.tab P
        have hfrm := emitPair_frame (m.uid != 0 || ch.refAnon) { s with ts := (m.timestamp : Int), cs := (m.changeset : Int) }
          (O5mSpec.userPair m.uid m.user)
        refine ⟨{ st with ts := (m.timestamp : Int), cs := (m.changeset : Int), tab := tab' }, ?_, ?_⟩
        · have hpl : O5mSpec.payload (O5mSpec.emitInfo ch s m last).1 ++ P =
              encodeVarint m.version ++ (O5mSpec.svarint (O5mSpec.delta (m.timestamp : Int) s.ts) ++
                (O5mSpec.svarint (O5mSpec.delta (m.changeset : Int) s.cs) ++
                  (O5mSpec.payload (O5mSpec.emitPair (m.uid != 0 || ch.refAnon)
                    { s with ts := (m.timestamp : Int), cs := (m.changeset : Int) } (O5mSpec.userPair m.uid m.user)).1 ++ P))) := by
            simp [O5mSpec.emitInfo, hvb, htb, homf, O5mSpec.payload]
          rw [hpl]
          generalize hX : (O5mSpec.svarint (O5mSpec.delta (m.timestamp : Int) s.ts) ++
                (O5mSpec.svarint (O5mSpec.delta (m.changeset : Int) s.cs) ++
                  (O5mSpec.payload (O5mSpec.emitPair (m.uid != 0 || ch.refAnon)
                    { s with ts := (m.timestamp : Int), cs := (m.changeset : Int) } (O5mSpec.userPair m.uid m.user)).1 ++ P))) = X
          have hcons : encodeVarint m.version ++ X = b :: (tl ++ X) := by rw [he]; rfl
          rw [hcons]
          simp only [decodeInfo, hb', Bool.false_eq_true, ↓reduceIte]
          rw [← hcons, varint_encode m.version (by omega), ← hX]
          -- the pair is not empty
          have hne : (O5mSpec.payload (O5mSpec.emitPair (m.uid != 0 || ch.refAnon)
                    { s with ts := (m.timestamp : Int), cs := (m.changeset : Int) } (O5mSpec.userPair m.uid m.user)).1 ++ P).isEmpty = false := by
            rcases emitPair_cases' (m.uid != 0 || ch.refAnon) { s with ts := (m.timestamp : Int), cs := (m.changeset : Int) }
              (O5mSpec.userPair m.uid m.user) with ⟨hp, _⟩ | ⟨_, i, hi, _, hp, _⟩
            · rw [hp]; simp
            · rw [hp]
              obtain ⟨b2, tl2, he2, _⟩ := encodeVarint_head (i + 1) (by omega) (by simp only [O5mSpec.tableSize] at hi; omega)
              rw [he2]; simp
          simp only [ok_bind, hvle, ↓reduceIte, hvmod, zvarint_svarint _ (delta_inI64 _ _), hr.ts, wrap_delta _ _ htsI, htne,
            hcsI, hne, Bool.not_false, hdu]
          simp [infoOf, toU32_nat _ hts]
          rfl
        · simp only [O5mSpec.emitInfo, hvb, htb, homf, Bool.false_eq_true, ↓reduceIte]
          exact hstrel2.withTab tab' hrt hfrm

/-! ### objects -/

theorem emitTags_frame : ∀ (tags : List Tag) (s : O5mSpec.EncSt),
    let s' := (O5mSpec.emitTags s tags).2
    s'.id = s.id ∧ s'.ts = s.ts ∧ s'.cs = s.cs ∧ s'.lon = s.lon ∧ s'.lat = s.lat ∧ s'.wayNode = s.wayNode ∧
    s'.mem0 = s.mem0 ∧ s'.mem1 = s.mem1 ∧ s'.mem2 = s.mem2
  | [], s => by simp [O5mSpec.emitTags]
  | t :: ts, s => by
    have h1 := emitPair_frame true s (O5mSpec.tagPair t)
    have h2 := emitTags_frame ts (O5mSpec.emitPair true s (O5mSpec.tagPair t)).2
    simp only [O5mSpec.emitTags] at h1 h2 ⊢
    obtain ⟨a1, a2, a3, a4, a5, a6, a7, a8, a9⟩ := h1
    obtain ⟨b1, b2, b3, b4, b5, b6, b7, b8, b9⟩ := h2
    exact ⟨b1.trans a1, b2.trans a2, b3.trans a3, b4.trans a4, b5.trans a5, b6.trans a6, b7.trans a7, b8.trans a8, b9.trans a9⟩

theorem emitPair_payload_pos (allow : Bool) (s : O5mSpec.EncSt) (pair : Bytes) :
    0 < (O5mSpec.payload (O5mSpec.emitPair allow s pair).1).length := by
  rcases emitPair_cases' allow s pair with ⟨hp, _⟩ | ⟨_, i, hi, _, hp, _⟩
  · rw [hp]; simp
  · rw [hp]
    obtain ⟨b, tl, he, _⟩ := encodeVarint_head (i + 1) (by omega) (by simp only [O5mSpec.tableSize] at hi; omega)
    rw [he]; simp

theorem emitTags_length : ∀ (tags : List Tag) (s : O5mSpec.EncSt),
    tags.length ≤ (O5mSpec.payload (O5mSpec.emitTags s tags).1).length
  | [], s => by simp
  | t :: ts, s => by
    have h1 := emitPair_payload_pos true s (O5mSpec.tagPair t)
    have h2 := emitTags_length ts (O5mSpec.emitPair true s (O5mSpec.tagPair t)).2
    simp only [O5mSpec.emitTags, payload_append, List.length_append, List.length_cons]
    omega

/-- the tag section at the end of a dataset: `if (data != end) decode_tags(...)` -/
theorem tagsTail_emit (tags : List Tag) (htags : ∀ t ∈ tags, TagOk t) (s : O5mSpec.EncSt) (st : St) (hr : StRel st s) :
    ∃ tab', (if (!(O5mSpec.payload (O5mSpec.emitTags s tags).1).isEmpty) = true
        then decodeTags st.tab (O5mSpec.payload (O5mSpec.emitTags s tags).1) else pure ([], st.tab))
      = .ok (tags, tab') ∧ StRel { st with tab := tab' } (O5mSpec.emitTags s tags).2 := by
  have hlen := emitTags_length tags s
  obtain ⟨tab', hd, hrt⟩ := decodeTags_emitTags tags s st.tab
    ((O5mSpec.payload (O5mSpec.emitTags s tags).1).length - tags.length) [] htags hr.tab
  have e : (O5mSpec.payload (O5mSpec.emitTags s tags).1).length - tags.length + tags.length =
      (O5mSpec.payload (O5mSpec.emitTags s tags).1).length := by omega
  rw [e] at hd
  by_cases hemp : (O5mSpec.payload (O5mSpec.emitTags s tags).1).isEmpty = true
  · have h0 : (O5mSpec.payload (O5mSpec.emitTags s tags).1) = [] := by simpa using hemp
    have ht0 : tags = [] := by
      rw [h0] at hlen; simp at hlen; exact hlen
    subst ht0
    refine ⟨st.tab, by simp [hemp]; rfl, ?_⟩
    simpa [O5mSpec.emitTags] using hr
  · refine ⟨tab', ?_, hr.withTab tab' hrt (emitTags_frame tags s)⟩
    simp only [hemp, Bool.not_false, ↓reduceIte, decodeTags]
    simpa using hd

theorem setUser_ok (u : Bytes) (h : u.length ≤ maxOsmStringLength) : setUser {} u = .ok u := by
  simp only [maxOsmStringLength] at h
  have h2 : ¬ u.length = 65535 := by omega
  simp [setUser, h2, Nat.mod_eq_of_lt (show u.length < 65536 by omega)]

@[simp] theorem infoOf_user (m : Meta) : (infoOf m).user = m.user := rfl

theorem mkMeta_infoOf (m : Meta) : mkMeta m.id (infoOf m) m.user m.visible m.tags = m := by
  cases m; rfl

def InI32 (x : Int) : Prop := -2147483648 ≤ x ∧ x ≤ 2147483647

theorem inI64_of_inI32 {x : Int} (h : InI32 x) : InI64 x := by
  unfold InI32 at h; unfold InI64; omega

/-- the shape of the tag section in decode_node / decode_way / decode_relation -/
theorem tagsTail_bind {β : Type} (k : List Tag → Table → β) (tags : List Tag) (htags : ∀ t ∈ tags, TagOk t)
    (s : O5mSpec.EncSt) (st : St) (hr : StRel st s) :
    ∃ tab', (if (!(O5mSpec.payload (O5mSpec.emitTags s tags).1).isEmpty) = true
        then (do let (tg, tb) ← decodeTags st.tab (O5mSpec.payload (O5mSpec.emitTags s tags).1); pure (k tg tb))
        else (pure (k [] st.tab) : Res β))
      = .ok (k tags tab') ∧ StRel { st with tab := tab' } (O5mSpec.emitTags s tags).2 := by
  obtain ⟨tab', h, hrel⟩ := tagsTail_emit tags htags s st hr
  refine ⟨tab', ?_, hrel⟩
  by_cases hemp : (O5mSpec.payload (O5mSpec.emitTags s tags).1).isEmpty = true
  · simp only [hemp, Bool.not_true, Bool.false_eq_true, ↓reduceIte] at h ⊢
    cases h
    rfl
  · simp only [hemp, Bool.not_false, ↓reduceIte] at h ⊢
    rw [h]
    rfl

theorem isEmpty_svarint_append (x : Int) (r : Bytes) : (O5mSpec.svarint x ++ r).isEmpty = false := by
  have := svarint_length_pos x
  cases h : O5mSpec.svarint x with
  | nil => rw [h] at this; simp at this
  | cons a b => simp

theorem isEmpty_encodeVarint_append (v : Nat) (r : Bytes) : (encodeVarint v ++ r).isEmpty = false := by
  have : encodeVarint v ≠ [] := encodeVarintGo_ne_nil _ _
  cases h : encodeVarint v with
  | nil => exact (this h).elim
  | cons a b => simp

theorem emitRefs_length : ∀ (refs : List NodeRef) (s : O5mSpec.EncSt),
    refs.length ≤ (O5mSpec.payload (O5mSpec.emitRefs s refs).1).length
  | [], s => by simp
  | r :: rs, s => by
    have h1 := svarint_length_pos (O5mSpec.delta r.ref s.wayNode)
    have h2 := emitRefs_length rs { s with wayNode := r.ref }
    simp only [O5mSpec.emitRefs, O5mSpec.payload, List.map_cons, List.flatten_cons, List.length_append, List.length_cons] at h2 ⊢
    omega

theorem emitMembers_length : ∀ (ms : List Member) (s : O5mSpec.EncSt),
    ms.length ≤ (O5mSpec.payload (O5mSpec.emitMembers s ms).1).length
  | [], s => by simp
  | m :: ms, s => by
    have h1 := svarint_length_pos (O5mSpec.delta m.ref (s.mem m.type))
    have h2 := emitMembers_length ms ((O5mSpec.emitPair true s (O5mSpec.rolePair m.type m.role)).2.setMem m.type m.ref)
    simp only [O5mSpec.emitMembers, O5mSpec.payload, List.map_cons, List.flatten_cons, List.map_append, List.flatten_append,
      List.length_append, List.length_cons] at h2 ⊢
    omega

/-- the three decoders with `cfg = {}` (NDEBUG build, all entity types) on what `emitObject` wrote -/
def ObjOk : Object → Prop
  | .node m loc => MetaOk m ∧ (m.visible = true → InI32 loc.x ∧ InI32 loc.y) ∧ (m.visible = false → loc = Location.undefined)
  | .way m refs => MetaOk m ∧ (∀ r ∈ refs, RefOk r) ∧ (m.visible = false → refs = [])
  | .relation m ms => MetaOk m ∧ (∀ x ∈ ms, MemberOk x) ∧ (m.visible = false → ms = [])
  | .changeset .. => False

theorem decodeNode_emit (ch : O5mSpec.Choices) (m : Meta) (loc : Location) (hok : ObjOk (.node m loc))
    (s : O5mSpec.EncSt) (st : St) (hr : StRel st s) :
    ∃ fields st', (O5mSpec.emitObject ch s (.node m loc)).1 = .ds 0x10 fields ∧
      decodeNode {} st (O5mSpec.payload fields) = .ok (.node m loc, st') ∧
      StRel st' (O5mSpec.emitObject ch s (.node m loc)).2 := by
  obtain ⟨hm', hloc1, hloc2⟩ := hok
  have hm := hm'
  obtain ⟨hid, hver, hts, hcs, huid, hunul, hulen, htags, hv0, ht0, hu0, hvis⟩ := hm
  have hr0 : StRel { st with id := m.id } { s with id := m.id } :=
    ⟨hr.tab, rfl, hr.ts, hr.cs, hr.lon, hr.lat, hr.wayNode, hr.mem0, hr.mem1, hr.mem2⟩
  by_cases hv : m.visible = true
  · obtain ⟨hx, hy⟩ := hloc1 hv
    generalize hei : O5mSpec.emitInfo ch { s with id := m.id } m false = ei
    obtain ⟨fi, s1⟩ := ei
    generalize het : O5mSpec.emitTags { s1 with lon := loc.x, lat := loc.y } m.tags = et
    obtain ⟨ft, s2⟩ := et
    have hemit : O5mSpec.emitObject ch s (.node m loc) =
        (.ds 0x10 (⟨.num, O5mSpec.svarint (O5mSpec.delta m.id s.id)⟩ :: fi ++
          [⟨.num, O5mSpec.svarint (O5mSpec.delta loc.x s1.lon)⟩, ⟨.num, O5mSpec.svarint (O5mSpec.delta loc.y s1.lat)⟩] ++ ft), s2) := by
      simp [O5mSpec.emitObject, hv, hei, het]
    rw [hemit]
    obtain ⟨st1, hdi, hr1⟩ := decodeInfo_emit ch m hm' { s with id := m.id } { st with id := m.id } hr0 false
      (O5mSpec.svarint (O5mSpec.delta loc.x s1.lon) ++ (O5mSpec.svarint (O5mSpec.delta loc.y s1.lat) ++ O5mSpec.payload ft))
      (by intro h; cases h)
    rw [hei] at hdi hr1
    simp only at hdi hr1
    have hr2 : StRel { st1 with lon := loc.x, lat := loc.y } { s1 with lon := loc.x, lat := loc.y } :=
      ⟨hr1.tab, hr1.id, hr1.ts, hr1.cs, rfl, rfl, hr1.wayNode, hr1.mem0, hr1.mem1, hr1.mem2⟩
    obtain ⟨tab', htl, hr3⟩ := tagsTail_bind
      (fun tg tb => ((Object.node (mkMeta m.id (infoOf m) m.user true tg) ⟨wrap32 loc.x, wrap32 loc.y⟩,
        { ({ st1 with lon := loc.x, lat := loc.y } : St) with tab := tb }) : Object × St))
      m.tags htags { s1 with lon := loc.x, lat := loc.y } { st1 with lon := loc.x, lat := loc.y } hr2
    rw [het] at htl hr3
    simp only at htl hr3
    refine ⟨_, _, rfl, ?_, hr3⟩
    have hpl : O5mSpec.payload (⟨.num, O5mSpec.svarint (O5mSpec.delta m.id s.id)⟩ :: fi ++
          [⟨.num, O5mSpec.svarint (O5mSpec.delta loc.x s1.lon)⟩, ⟨.num, O5mSpec.svarint (O5mSpec.delta loc.y s1.lat)⟩] ++ ft) =
        O5mSpec.svarint (O5mSpec.delta m.id s.id) ++ (O5mSpec.payload fi ++
          (O5mSpec.svarint (O5mSpec.delta loc.x s1.lon) ++ (O5mSpec.svarint (O5mSpec.delta loc.y s1.lat) ++ O5mSpec.payload ft))) := by
      simp [O5mSpec.payload]
    rw [hpl]
    simp only [decodeNode, zvarint_svarint _ (delta_inI64 _ _), ok_bind, hr.id, wrap_delta _ _ hid, hdi, infoOf_user,
      setUser_ok m.user hulen, isEmpty_svarint_append, Bool.false_eq_true, ↓reduceIte, hr1.lon, hr1.lat,
      wrap_delta _ _ (inI64_of_inI32 hx), wrap_delta _ _ (inI64_of_inI32 hy)]
    rw [htl]
    have := mkMeta_infoOf m
    rw [hv] at this
    simp only [this, wrap32_id _ hx.1 hx.2, wrap32_id _ hy.1 hy.2]
  · have hvf : m.visible = false := by simpa using hv
    have hl := hloc2 hvf
    have htg := hvis hvf
    generalize hei : O5mSpec.emitInfo ch { s with id := m.id } m true = ei
    obtain ⟨fi, s1⟩ := ei
    have hemit : O5mSpec.emitObject ch s (.node m loc) =
        (.ds 0x10 (⟨.num, O5mSpec.svarint (O5mSpec.delta m.id s.id)⟩ :: fi), s1) := by
      simp [O5mSpec.emitObject, hvf, hei]
    rw [hemit]
    obtain ⟨st1, hdi, hr1⟩ := decodeInfo_emit ch m hm' { s with id := m.id } { st with id := m.id } hr0 true []
      (fun _ => rfl)
    rw [hei] at hdi hr1
    simp only [List.append_nil] at hdi hr1
    refine ⟨_, st1, rfl, ?_, hr1⟩
    have hpl : O5mSpec.payload (⟨.num, O5mSpec.svarint (O5mSpec.delta m.id s.id)⟩ :: fi) =
        O5mSpec.svarint (O5mSpec.delta m.id s.id) ++ O5mSpec.payload fi := by
      simp [O5mSpec.payload]
    rw [hpl]
    simp only [decodeNode, zvarint_svarint _ (delta_inI64 _ _), ok_bind, hr.id, wrap_delta _ _ hid, hdi, infoOf_user,
      setUser_ok m.user hulen, List.isEmpty_nil, ↓reduceIte]
    have := mkMeta_infoOf m
    rw [hvf, htg] at this
    rw [this, hl]
    rfl

theorem decodeWay_emit (ch : O5mSpec.Choices) (m : Meta) (refs : List NodeRef) (hok : ObjOk (.way m refs))
    (s : O5mSpec.EncSt) (st : St) (hr : StRel st s)
    (hsz : O5mSpec.tokPayloadLen (O5mSpec.emitObject ch s (.way m refs)).1 < 2 ^ 64) :
    ∃ fields st', (O5mSpec.emitObject ch s (.way m refs)).1 = .ds 0x11 fields ∧
      decodeWay {} st (O5mSpec.payload fields) = .ok (.way m refs, st') ∧
      StRel st' (O5mSpec.emitObject ch s (.way m refs)).2 := by
  obtain ⟨hm', hrefs, hdel⟩ := hok
  have hm := hm'
  obtain ⟨hid, hver, hts, hcs, huid, hunul, hulen, htags, hv0, ht0, hu0, hvis⟩ := hm
  have hr0 : StRel { st with id := m.id } { s with id := m.id } :=
    ⟨hr.tab, rfl, hr.ts, hr.cs, hr.lon, hr.lat, hr.wayNode, hr.mem0, hr.mem1, hr.mem2⟩
  by_cases hv : m.visible = true
  · generalize hei : O5mSpec.emitInfo ch { s with id := m.id } m false = ei
    obtain ⟨fi, s1⟩ := ei
    generalize her : O5mSpec.emitRefs s1 refs = er
    obtain ⟨fr, s2⟩ := er
    generalize het : O5mSpec.emitTags s2 m.tags = et
    obtain ⟨ft, s3⟩ := et
    have hemit : O5mSpec.emitObject ch s (.way m refs) =
        (.ds 0x11 (⟨.num, O5mSpec.svarint (O5mSpec.delta m.id s.id)⟩ :: fi ++
          [⟨.len, encodeVarint (O5mSpec.payload fr).length⟩] ++ fr ++ ft), s3) := by
      simp [O5mSpec.emitObject, hv, hei, her, het]
    rw [hemit] at hsz ⊢
    have hsz : (O5mSpec.payload fr).length < 2 ^ 64 := by
      simp only [O5mSpec.tokPayloadLen, O5mSpec.payload, List.map_cons, List.map_append, List.flatten_cons,
        List.flatten_append, List.length_append] at hsz ⊢
      omega
    obtain ⟨st1, hdi, hr1⟩ := decodeInfo_emit ch m hm' { s with id := m.id } { st with id := m.id } hr0 false
      (encodeVarint (O5mSpec.payload fr).length ++ (O5mSpec.payload fr ++ O5mSpec.payload ft))
      (by intro h; cases h)
    rw [hei] at hdi hr1
    simp only at hdi hr1
    -- the reference section
    have hloop := wayRefs_emit refs s1 st1.wayNode (O5mSpec.payload fr ++ O5mSpec.payload ft).length [] (O5mSpec.payload ft)
      hrefs hr1.wayNode (by rw [her]; simp)
    rw [her] at hloop
    simp only [List.reverse_nil, List.nil_append] at hloop
    have hfr := emitRefs_frame refs s1
    rw [her] at hfr
    simp only at hfr
    obtain ⟨g1, g2, g3, g4, g5, g6, g7, g8, g9, _⟩ := hfr
    have hr2 : StRel { st1 with wayNode := s2.wayNode } s2 :=
      ⟨by rw [g1]; exact hr1.tab, by rw [g2]; exact hr1.id, by rw [g3]; exact hr1.ts, by rw [g4]; exact hr1.cs,
       by rw [g5]; exact hr1.lon, by rw [g6]; exact hr1.lat, rfl, by rw [g7]; exact hr1.mem0, by rw [g8]; exact hr1.mem1,
       by rw [g9]; exact hr1.mem2⟩
    obtain ⟨tab', htl, hr3⟩ := tagsTail_bind
      (fun tg tb => ((Object.way (mkMeta m.id (infoOf m) m.user true tg) refs,
        { ({ st1 with wayNode := s2.wayNode } : St) with tab := tb }) : Object × St))
      m.tags htags s2 { st1 with wayNode := s2.wayNode } hr2
    rw [het] at htl hr3
    simp only at htl hr3
    refine ⟨_, _, rfl, ?_, hr3⟩
    have hpl : O5mSpec.payload (⟨.num, O5mSpec.svarint (O5mSpec.delta m.id s.id)⟩ :: fi ++
          [⟨.len, encodeVarint (O5mSpec.payload fr).length⟩] ++ fr ++ ft) =
        O5mSpec.svarint (O5mSpec.delta m.id s.id) ++ (O5mSpec.payload fi ++
          (encodeVarint (O5mSpec.payload fr).length ++ (O5mSpec.payload fr ++ O5mSpec.payload ft))) := by
      simp [O5mSpec.payload]
    rw [hpl]
    simp only [decodeWay, zvarint_svarint _ (delta_inI64 _ _), ok_bind, hr.id, wrap_delta _ _ hid, hdi, infoOf_user,
      setUser_ok m.user hulen, isEmpty_encodeVarint_append, Bool.false_eq_true, ↓reduceIte, varint_encode _ hsz]
    by_cases hpos : (O5mSpec.payload fr).length > 0
    · have hle : (O5mSpec.payload fr).length ≤ (O5mSpec.payload fr ++ O5mSpec.payload ft).length := by simp
      have hstop : (O5mSpec.payload fr ++ O5mSpec.payload ft).length - (O5mSpec.payload fr).length = (O5mSpec.payload ft).length := by
        simp
      simp only [hpos, ↓reduceIte, checkRefLen, hle, ok_bind, pure_bind', hstop, hloop]
      rw [htl]
      have := mkMeta_infoOf m
      rw [hv] at this
      simp only [this]
    · have h0 : O5mSpec.payload fr = [] := by
        have : (O5mSpec.payload fr).length = 0 := by omega
        exact List.length_eq_zero_iff.mp this
      have hrl := emitRefs_length refs s1
      rw [her] at hrl
      simp only [h0, List.length_nil] at hrl
      have hr0' : refs = [] := List.length_eq_zero_iff.mp (by omega)
      subst hr0'
      have hs2 : s2 = s1 := by
        have : O5mSpec.emitRefs s1 [] = ([], s1) := rfl
        rw [this] at her; cases her; rfl
      subst hs2
      have hw := hr1.wayNode
      simp only [← hw] at htl ⊢
      simp only [h0, List.length_nil, gt_iff_lt, Nat.lt_irrefl, ↓reduceIte, pure_bind', List.nil_append]
      have e : ({ st1 with wayNode := st1.wayNode } : St) = st1 := by cases st1; rfl
      rw [e] at htl
      rw [htl]
      have := mkMeta_infoOf m
      rw [hv] at this
      simp only [this]
  · have hvf : m.visible = false := by simpa using hv
    have hl := hdel hvf
    have htg := hvis hvf
    generalize hei : O5mSpec.emitInfo ch { s with id := m.id } m true = ei
    obtain ⟨fi, s1⟩ := ei
    have hemit : O5mSpec.emitObject ch s (.way m refs) =
        (.ds 0x11 (⟨.num, O5mSpec.svarint (O5mSpec.delta m.id s.id)⟩ :: fi), s1) := by
      simp [O5mSpec.emitObject, hvf, hei]
    rw [hemit]
    obtain ⟨st1, hdi, hr1⟩ := decodeInfo_emit ch m hm' { s with id := m.id } { st with id := m.id } hr0 true []
      (fun _ => rfl)
    rw [hei] at hdi hr1
    simp only [List.append_nil] at hdi hr1
    refine ⟨_, st1, rfl, ?_, hr1⟩
    have hpl : O5mSpec.payload (⟨.num, O5mSpec.svarint (O5mSpec.delta m.id s.id)⟩ :: fi) =
        O5mSpec.svarint (O5mSpec.delta m.id s.id) ++ O5mSpec.payload fi := by
      simp [O5mSpec.payload]
    rw [hpl]
    simp only [decodeWay, zvarint_svarint _ (delta_inI64 _ _), ok_bind, hr.id, wrap_delta _ _ hid, hdi, infoOf_user,
      setUser_ok m.user hulen, List.isEmpty_nil, ↓reduceIte]
    have := mkMeta_infoOf m
    rw [hvf, htg] at this
    rw [this, hl]
    rfl

theorem decodeRelation_emit (ch : O5mSpec.Choices) (m : Meta) (ms : List Member) (hok : ObjOk (.relation m ms))
    (s : O5mSpec.EncSt) (st : St) (hr : StRel st s)
    (hsz : O5mSpec.tokPayloadLen (O5mSpec.emitObject ch s (.relation m ms)).1 < 2 ^ 64) :
    ∃ fields st', (O5mSpec.emitObject ch s (.relation m ms)).1 = .ds 0x12 fields ∧
      decodeRelation {} st (O5mSpec.payload fields) = .ok (.relation m ms, st') ∧
      StRel st' (O5mSpec.emitObject ch s (.relation m ms)).2 := by
  obtain ⟨hm', hmem, hdel⟩ := hok
  have hm := hm'
  obtain ⟨hid, hver, hts, hcs, huid, hunul, hulen, htags, hv0, ht0, hu0, hvis⟩ := hm
  have hr0 : StRel { st with id := m.id } { s with id := m.id } :=
    ⟨hr.tab, rfl, hr.ts, hr.cs, hr.lon, hr.lat, hr.wayNode, hr.mem0, hr.mem1, hr.mem2⟩
  by_cases hv : m.visible = true
  · generalize hei : O5mSpec.emitInfo ch { s with id := m.id } m false = ei
    obtain ⟨fi, s1⟩ := ei
    generalize her : O5mSpec.emitMembers s1 ms = er
    obtain ⟨fr, s2⟩ := er
    generalize het : O5mSpec.emitTags s2 m.tags = et
    obtain ⟨ft, s3⟩ := et
    have hemit : O5mSpec.emitObject ch s (.relation m ms) =
        (.ds 0x12 (⟨.num, O5mSpec.svarint (O5mSpec.delta m.id s.id)⟩ :: fi ++
          [⟨.len, encodeVarint (O5mSpec.payload fr).length⟩] ++ fr ++ ft), s3) := by
      simp [O5mSpec.emitObject, hv, hei, her, het]
    rw [hemit] at hsz ⊢
    have hsz : (O5mSpec.payload fr).length < 2 ^ 64 := by
      simp only [O5mSpec.tokPayloadLen, O5mSpec.payload, List.map_cons, List.map_append, List.flatten_cons,
        List.flatten_append, List.length_append] at hsz ⊢
      omega
    obtain ⟨st1, hdi, hr1⟩ := decodeInfo_emit ch m hm' { s with id := m.id } { st with id := m.id } hr0 false
      (encodeVarint (O5mSpec.payload fr).length ++ (O5mSpec.payload fr ++ O5mSpec.payload ft))
      (by intro h; cases h)
    rw [hei] at hdi hr1
    simp only at hdi hr1
    obtain ⟨st2, hloop, hr2⟩ := relMembers_emit ms s1 st1 (O5mSpec.payload fr ++ O5mSpec.payload ft).length [] (O5mSpec.payload ft)
      hmem hr1 (by rw [her]; simp)
    rw [her] at hloop hr2
    simp only [List.reverse_nil, List.nil_append] at hloop hr2
    obtain ⟨tab', htl, hr3⟩ := tagsTail_bind
      (fun tg tb => ((Object.relation (mkMeta m.id (infoOf m) m.user true tg) ms, { st2 with tab := tb }) : Object × St))
      m.tags htags s2 st2 hr2
    rw [het] at htl hr3
    simp only at htl hr3
    refine ⟨_, _, rfl, ?_, hr3⟩
    have hpl : O5mSpec.payload (⟨.num, O5mSpec.svarint (O5mSpec.delta m.id s.id)⟩ :: fi ++
          [⟨.len, encodeVarint (O5mSpec.payload fr).length⟩] ++ fr ++ ft) =
        O5mSpec.svarint (O5mSpec.delta m.id s.id) ++ (O5mSpec.payload fi ++
          (encodeVarint (O5mSpec.payload fr).length ++ (O5mSpec.payload fr ++ O5mSpec.payload ft))) := by
      simp [O5mSpec.payload]
    rw [hpl]
    simp only [decodeRelation, zvarint_svarint _ (delta_inI64 _ _), ok_bind, hr.id, wrap_delta _ _ hid, hdi, infoOf_user,
      setUser_ok m.user hulen, isEmpty_encodeVarint_append, Bool.false_eq_true, ↓reduceIte, varint_encode _ hsz]
    by_cases hpos : (O5mSpec.payload fr).length > 0
    · have hle : (O5mSpec.payload fr).length ≤ (O5mSpec.payload fr ++ O5mSpec.payload ft).length := by simp
      have hstop : (O5mSpec.payload fr ++ O5mSpec.payload ft).length - (O5mSpec.payload fr).length = (O5mSpec.payload ft).length := by
        simp
      simp only [hpos, ↓reduceIte, checkRefLen, hle, ok_bind, pure_bind', hstop, hloop]
      rw [htl]
      have := mkMeta_infoOf m
      rw [hv] at this
      simp only [this]
    · have h0 : O5mSpec.payload fr = [] := by
        have : (O5mSpec.payload fr).length = 0 := by omega
        exact List.length_eq_zero_iff.mp this
      have hrl := emitMembers_length ms s1
      rw [her] at hrl
      simp only [h0, List.length_nil] at hrl
      have hms0 : ms = [] := List.length_eq_zero_iff.mp (by omega)
      subst hms0
      -- with no members the loop is not entered and the state is unchanged
      have hst2 : st2 = st1 := by
        rw [h0] at hloop
        cases hf : (O5mSpec.payload ft).length <;>
          simp [relMembersGo, hf] at hloop <;> exact hloop.symm
      subst hst2
      simp only [h0, List.length_nil, gt_iff_lt, Nat.lt_irrefl, ↓reduceIte, pure_bind', List.nil_append]
      rw [htl]
      have := mkMeta_infoOf m
      rw [hv] at this
      simp only [this]
  · have hvf : m.visible = false := by simpa using hv
    have hl := hdel hvf
    have htg := hvis hvf
    generalize hei : O5mSpec.emitInfo ch { s with id := m.id } m true = ei
    obtain ⟨fi, s1⟩ := ei
    have hemit : O5mSpec.emitObject ch s (.relation m ms) =
        (.ds 0x12 (⟨.num, O5mSpec.svarint (O5mSpec.delta m.id s.id)⟩ :: fi), s1) := by
      simp [O5mSpec.emitObject, hvf, hei]
    rw [hemit]
    obtain ⟨st1, hdi, hr1⟩ := decodeInfo_emit ch m hm' { s with id := m.id } { st with id := m.id } hr0 true []
      (fun _ => rfl)
    rw [hei] at hdi hr1
    simp only [List.append_nil] at hdi hr1
    refine ⟨_, st1, rfl, ?_, hr1⟩
    have hpl : O5mSpec.payload (⟨.num, O5mSpec.svarint (O5mSpec.delta m.id s.id)⟩ :: fi) =
        O5mSpec.svarint (O5mSpec.delta m.id s.id) ++ O5mSpec.payload fi := by
      simp [O5mSpec.payload]
    rw [hpl]
    simp only [decodeRelation, zvarint_svarint _ (delta_inI64 _ _), ok_bind, hr.id, wrap_delta _ _ hid, hdi, infoOf_user,
      setUser_ok m.user hulen, List.isEmpty_nil, ↓reduceIte]
    have := mkMeta_infoOf m
    rw [hvf, htg] at this
    rw [this, hl]
    rfl

end Osmium.O5m
