/-
C03 — lemmas (sub-items): decodeItem on each kind of sub-item, decodeItems over `subsBytes`.
Helper file of Osmium/Lemmas/HostileLayout.lean.
-/
import Osmium.Lemmas.HostileLayoutColl

namespace Osmium.HostileLayout

open Osmium.Layout

theorem subBytes_eq (fill : UInt8) (s : SubS) :
    subBytes fill s = leBytes (8 + (s.body fill).length) 4 ++ (leBytes s.ty 2 ++ (leBytes 0 2 ++
      (s.body fill ++ zeros (padTo (8 + (s.body fill).length))))) := by
  simp [subBytes, header]

theorem subBytes_length (fill : UInt8) (s : SubS) :
    (subBytes fill s).length = padded (8 + (s.body fill).length) := by
  rw [subBytes_eq, ← padTo_add]
  simp only [List.length_append, leBytes_length, zeros_length]
  omega

/-- header facts of a sub-item sitting at `off` -/
theorem sub_header {b : Bytes} {fill : UInt8} {s : SubS} {off : Nat} (hat : At b off (subBytes fill s))
    (hsz : 8 + (s.body fill).length < 2 ^ 32) :
    u32At b off = 8 + (s.body fill).length ∧ u16At b (off + 4) = s.ty % 65536 ∧ u16At b (off + 6) = 0 ∧
      At b (off + 8) (s.body fill) := by
  rw [subBytes_eq] at hat
  simp only [at_append, leBytes_length, Nat.add_assoc] at hat
  obtain ⟨a1, a2, a3, a4, _⟩ := hat
  exact ⟨u32At_at a1 hsz, leAt_at_leBytes a2, leAt_at_leBytes (at_cast a3 (by omega)), at_cast a4 (by omega)⟩

theorem tagsBody_length_ge (kvs : List (Bytes × Bytes)) : kvs.length ≤ (tagsBody kvs).length := by
  induction kvs with
  | nil => simp
  | cons kv r ih => rw [tagsBody_cons]; simp only [List.length_append, List.length_cons]; omega

theorem decodeItem_tags {b : Bytes} (fill : UInt8) (kvs : List (Bytes × Bytes)) (fuel off lim : Nat)
    (hat : At b off (subBytes fill (.tags kvs)))
    (hlim : off + (subBytes fill (.tags kvs)).length ≤ lim) (hb : lim ≤ b.length)
    (he : (SubS.tags kvs).extraOk = true) (hsz : 8 + ((SubS.tags kvs).body fill).length < 2 ^ 32)
    (hf : 1 ≤ fuel) :
    decodeItem b fuel off lim = .ok (subTree (.tags kvs), 8 + ((SubS.tags kvs).body fill).length) := by
  obtain ⟨f, rfl⟩ : ∃ f, fuel = f + 1 := ⟨fuel - 1, by omega⟩
  obtain ⟨e1, e2, e3, hbody⟩ := sub_header hat hsz
  rw [subBytes_length] at hlim
  simp only [SubS.body, SubS.ty] at *
  have hp := Buf.padded_ge (8 + (tagsBody kvs).length)
  have hd := decodeTags_at kvs (off + 8) (off + (8 + (tagsBody kvs).length)) (8 + (tagsBody kvs).length + 1)
    hbody (by omega) (by omega) (by
      intro kv hkv
      simp only [SubS.extraOk, List.all_eq_true, Bool.and_eq_true] at he
      exact he kv hkv) (by have := tagsBody_length_ge kvs; omega)
  rw [decodeItem]
  simp only [e1, e2, e3]
  rw [if_neg (by omega), if_neg (by omega), if_neg (by decide), if_neg (by decide), if_pos (by decide), hd]
  rfl

theorem decodeItem_nodes {b : Bytes} (fill : UInt8) (t : Nat) (ns : List NodeRefS) (fuel off lim : Nat)
    (hat : At b off (subBytes fill (.nodes t ns)))
    (hlim : off + (subBytes fill (.nodes t ns)).length ≤ lim) (hb : lim ≤ b.length)
    (he : (SubS.nodes t ns).extraOk = true) (hsz : 8 + ((SubS.nodes t ns).body fill).length < 2 ^ 32)
    (hf : 1 ≤ fuel) :
    decodeItem b fuel off lim = .ok (subTree (.nodes t ns), 8 + ((SubS.nodes t ns).body fill).length) := by
  obtain ⟨f, rfl⟩ : ∃ f, fuel = f + 1 := ⟨fuel - 1, by omega⟩
  obtain ⟨e1, e2, e3, hbody⟩ := sub_header hat hsz
  rw [subBytes_length] at hlim
  simp only [SubS.body, SubS.ty] at *
  have hp := Buf.padded_ge (8 + (nodesBody ns).length)
  have hd := decodeNodeRefs_at ns (off + 8) hbody
  have hl : (8 + (nodesBody ns).length - 8) / 16 = ns.length := by rw [nodesBody_length]; omega
  rw [decodeItem]
  simp only [e1, e3, hl, hd]
  rw [if_neg (by omega), if_neg (by omega)]
  simp only [SubS.extraOk, Bool.or_eq_true, beq_iff_eq] at he
  rcases he with (rfl | rfl) | rfl
  · rw [e2, if_neg (by decide), if_neg (by decide), if_neg (by decide), if_pos (by decide)]; rfl
  · rw [e2, if_neg (by decide), if_neg (by decide), if_neg (by decide), if_pos (by decide)]; rfl
  · rw [e2, if_neg (by decide), if_neg (by decide), if_neg (by decide), if_pos (by decide)]; rfl

theorem membersBody_length_ge (fill : UInt8) (ms : List MemberS) : ms.length ≤ (membersBody fill ms).length := by
  induction ms with
  | nil => simp
  | cons m r ih =>
    rw [membersBody_cons, List.length_append, memberBytes_length]
    have := Buf.padded_ge (16 + m.role.length + 1)
    simp only [List.length_cons]; omega

theorem decodeItem_members {b : Bytes} (fill : UInt8) (ms : List MemberS) (fuel off lim : Nat)
    (hat : At b off (subBytes fill (.members ms)))
    (hlim : off + (subBytes fill (.members ms)).length ≤ lim) (hb : lim ≤ b.length)
    (hl : (SubS.members ms).lengthsOk = true)
    (he : (SubS.members ms).extraOk = true) (hsz : 8 + ((SubS.members ms).body fill).length < 2 ^ 32)
    (hf : ((SubS.members ms).body fill).length + 2 ≤ fuel) :
    decodeItem b fuel off lim = .ok (subTree (.members ms), 8 + ((SubS.members ms).body fill).length) := by
  obtain ⟨f, rfl⟩ : ∃ f, fuel = f + 1 := ⟨fuel - 1, by omega⟩
  obtain ⟨e1, e2, e3, hbody⟩ := sub_header hat hsz
  rw [subBytes_length] at hlim
  simp only [SubS.body, SubS.ty] at *
  have hp := Buf.padded_ge (8 + (membersBody fill ms).length)
  have hd := decodeMembers_at fill ms (off + 8) (off + (8 + (membersBody fill ms).length)) f
    hbody (by omega) (by omega) (by
      intro m hm
      simp only [SubS.extraOk, SubS.lengthsOk, List.all_eq_true, decide_eq_true_eq] at he hl
      exact ⟨hl m hm, he m hm⟩) (by have := membersBody_length_ge fill ms; omega)
  rw [decodeItem]
  simp only [e1, e2, e3]
  rw [if_neg (by omega), if_neg (by omega), if_neg (by decide), if_neg (by decide), if_neg (by decide),
    if_neg (by decide), if_pos (by decide), hd]
  rfl

theorem commentBytes_length_ge (fill : UInt8) (c : CommentS) : 1 ≤ (commentBytes fill c).length := by
  simp only [commentBytes, List.length_append, leBytes_length]; omega

theorem commentsBodyRaw_length_ge (fill : UInt8) (cs : List CommentS) : cs.length ≤ (commentsBodyRaw fill cs).length := by
  induction cs with
  | nil => simp
  | cons m r ih =>
    rw [commentsBodyRaw_cons, List.length_append]
    have := commentBytes_length_ge fill m
    simp only [List.length_cons]; omega

theorem commentOk_of {c : CommentS}
    (hl : (c.user.length ≤ maxStr && (match c.text with | some t => decide (t.length + 1 < 2 ^ 32) | none => true)) = true)
    (he : (noNul c.user && (match c.text with | some t => noNul t | none => false)) = true) : CommentOk c := by
  obtain ⟨date, uid, user, text⟩ := c
  cases text with
  | none => simp at he
  | some t =>
    simp only [Bool.and_eq_true, decide_eq_true_eq] at hl he
    exact ⟨hl.1, he.1, t, rfl, he.2, hl.2⟩

/-- finishing the pending last comment does not change what a traversal reports (the empty text) -/
theorem finishLast_map_commentTree : ∀ (cs : List CommentS), (finishLast cs).map commentTree = cs.map commentTree
  | [] => rfl
  | [c] => by
    obtain ⟨date, uid, user, text⟩ := c
    cases text <;> rfl
  | c :: d :: r => by
    have ih := finishLast_map_commentTree (d :: r)
    simp only [finishLast, List.map_cons] at ih ⊢
    rw [ih]

theorem decodeItem_discussion {b : Bytes} (fill : UInt8) (cs : List CommentS) (fuel off lim : Nat)
    (hat : At b off (subBytes fill (.discussion cs)))
    (hlim : off + (subBytes fill (.discussion cs)).length ≤ lim) (hb : lim ≤ b.length)
    (hl : (SubS.discussion cs).lengthsOk = true)
    (he : (SubS.discussion cs).extraOk = true) (hsz : 8 + ((SubS.discussion cs).body fill).length < 2 ^ 32)
    (hf : 1 ≤ fuel) :
    decodeItem b fuel off lim = .ok (subTree (.discussion cs), 8 + ((SubS.discussion cs).body fill).length) := by
  obtain ⟨f, rfl⟩ : ∃ f, fuel = f + 1 := ⟨fuel - 1, by omega⟩
  obtain ⟨e1, e2, e3, hbody⟩ := sub_header hat hsz
  rw [subBytes_length] at hlim
  simp only [SubS.body, SubS.ty, commentsBody] at *
  have hp := Buf.padded_ge (8 + (commentsBodyRaw fill (finishLast cs)).length)
  have hd := decodeComments_at fill (finishLast cs) (off + 8) (off + (8 + (commentsBodyRaw fill (finishLast cs)).length))
    (8 + (commentsBodyRaw fill (finishLast cs)).length + 1)
    hbody (by omega) (by omega) (by
      intro c hc
      simp only [SubS.extraOk, SubS.lengthsOk, List.all_eq_true] at he hl
      exact commentOk_of (hl c hc) (he c hc)) (by have := commentsBodyRaw_length_ge fill (finishLast cs); omega)
  rw [finishLast_map_commentTree] at hd
  rw [decodeItem]
  simp only [e1, e2, e3]
  rw [if_neg (by omega), if_neg (by omega), if_neg (by decide), if_neg (by decide), if_neg (by decide),
    if_neg (by decide), if_neg (by decide), if_pos (by decide), hd]
  rfl

theorem decodeItem_sub {b : Bytes} (fill : UInt8) (s : SubS) (fuel off lim : Nat)
    (hat : At b off (subBytes fill s))
    (hlim : off + (subBytes fill s).length ≤ lim) (hb : lim ≤ b.length)
    (hl : s.lengthsOk = true) (he : s.extraOk = true) (hsz : 8 + (s.body fill).length < 2 ^ 32)
    (hf : (s.body fill).length + 2 ≤ fuel) :
    decodeItem b fuel off lim = .ok (subTree s, 8 + (s.body fill).length) := by
  cases s with
  | tags kvs => exact decodeItem_tags fill kvs fuel off lim hat hlim hb he hsz (by omega)
  | nodes t ns => exact decodeItem_nodes fill t ns fuel off lim hat hlim hb he hsz (by omega)
  | members ms => exact decodeItem_members fill ms fuel off lim hat hlim hb hl he hsz hf
  | discussion cs => exact decodeItem_discussion fill cs fuel off lim hat hlim hb hl he hsz (by omega)

theorem subsBytes_cons (fill : UInt8) (s : SubS) (r : List SubS) :
    subsBytes fill (s :: r) = subBytes fill s ++ subsBytes fill r := by
  simp [subsBytes]

theorem decodeItems_subs {b : Bytes} (fill : UInt8) (ss : List SubS) :
    ∀ (pos lim fuel : Nat), At b pos (subsBytes fill ss) → lim = pos + (subsBytes fill ss).length →
      lim ≤ b.length → (∀ s ∈ ss, s.lengthsOk = true ∧ s.extraOk = true) →
      (subsBytes fill ss).length < 2 ^ 32 → (subsBytes fill ss).length + 2 ≤ fuel →
      decodeItems b fuel pos lim = .ok (ss.map subTree) := by
  induction ss with
  | nil =>
    intro pos lim fuel _ he _ _ _ hf
    obtain ⟨f, rfl⟩ : ∃ f, fuel = f + 1 := ⟨fuel - 1, by omega⟩
    simp [subsBytes] at he
    simp [decodeItems, he]
  | cons s r ih =>
    intro pos lim fuel hat he hb hn hsz hf
    obtain ⟨f, rfl⟩ : ∃ f, fuel = f + 1 := ⟨fuel - 1, by omega⟩
    rw [subsBytes_cons] at hat he hsz hf
    rw [at_append] at hat
    obtain ⟨h1, hrest⟩ := hat
    rw [List.length_append] at he hsz hf
    have hlen := subBytes_length fill s
    have hp := Buf.padded_ge (8 + (s.body fill).length)
    rw [hlen] at hrest
    have hs := hn s (by simp)
    have hi := decodeItem_sub fill s f pos lim h1 (by omega) hb hs.1 hs.2 (by omega) (by omega)
    have := ih (pos + padded (8 + (s.body fill).length)) lim f hrest (by omega) hb
      (fun s' h' => hn s' (by simp [h'])) (by omega) (by omega)
    rw [decodeItems, if_neg (by omega), if_neg (by omega), hi]
    simp only [bind, Except.bind, this]
    rfl

end Osmium.HostileLayout
