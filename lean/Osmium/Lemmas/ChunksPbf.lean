/-
Lemmas for C06, PBF part: buffered exact reads over any chunking behave as reads on the
concatenated stream.
-/
import Osmium.Model.Chunks

namespace Osmium.Chunks

open Osmium.Wire

/-- the queue still delivers data: not shut down, and all pending chunks are non-empty -/
def Src.Good (s : Src) : Prop := s.done = false ∧ ∀ c ∈ s.chunks, c ≠ []

def PbfIn.stream (p : PbfIn) : Bytes := p.buf ++ p.src.chunks.flatten

theorem ensure_spec : ∀ (fuel : Nat) (p : PbfIn) (size : Nat), p.src.Good → p.src.chunks.length + 1 ≤ fuel →
    (size ≤ p.stream.length →
      ∃ p', PbfIn.ensure fuel p size = .ok p' ∧ p'.src.Good ∧ p'.stream = p.stream ∧ size ≤ p'.buf.length) ∧
    (p.stream.length < size → PbfIn.ensure fuel p size = .error .truncated)
  | 0, p, size, _, hf => by omega
  | fuel + 1, p, size, hg, hf => by
    obtain ⟨buf, src⟩ := p
    obtain ⟨chunks, done⟩ := src
    obtain ⟨hd, hne⟩ := hg
    simp only at hd hne hf
    subst hd
    by_cases hlt : buf.length < size
    · cases chunks with
      | nil =>
        simp only [PbfIn.stream, List.flatten_nil, List.append_nil]
        constructor
        · intro h; omega
        · intro _; simp [PbfIn.ensure, hlt, Src.getInput]
      | cons c cs =>
        have hc : c ≠ [] := hne c (List.mem_cons_self)
        have hce : c.isEmpty = false := by cases c <;> simp_all
        have hg' : (Src.mk cs false).Good := ⟨rfl, fun x hx => hne x (List.mem_cons_of_mem _ hx)⟩
        have ih := ensure_spec fuel ⟨buf ++ c, ⟨cs, false⟩⟩ size hg' (by simp at hf ⊢; omega)
        have hs : (PbfIn.mk (buf ++ c) ⟨cs, false⟩).stream = (PbfIn.mk buf ⟨c :: cs, false⟩).stream := by
          simp [PbfIn.stream]
        rw [hs] at ih
        have hstep : PbfIn.ensure (fuel + 1) ⟨buf, ⟨c :: cs, false⟩⟩ size =
            PbfIn.ensure fuel ⟨buf ++ c, ⟨cs, false⟩⟩ size := by
          simp [PbfIn.ensure, hlt, Src.getInput, hce]
        rw [hstep]
        exact ih
    · constructor
      · intro _
        exact ⟨⟨buf, ⟨chunks, false⟩⟩, by simp [PbfIn.ensure, hlt], ⟨rfl, hne⟩, rfl, by simp at hlt ⊢; omega⟩
      · intro h
        simp only [PbfIn.stream, List.length_append] at h
        omega

theorem readExact_ok (p : PbfIn) (size : Nat) (hg : p.src.Good) (h : size ≤ p.stream.length) :
    ∃ p', p.readExact size = .ok (p.stream.take size, p') ∧ p'.src.Good ∧ p'.stream = p.stream.drop size := by
  obtain ⟨p', he, hg', hs, hl⟩ := (ensure_spec p.fuel p size hg (by simp [PbfIn.fuel])).1 h
  refine ⟨{ p' with buf := p'.buf.drop size }, ?_, hg', ?_⟩
  · simp only [PbfIn.readExact, he]
    rw [← hs]
    simp [PbfIn.stream, List.take_append_of_le_length hl]
  · rw [← hs]
    simp [PbfIn.stream, List.drop_append_of_le_length hl]

theorem readExact_err (p : PbfIn) (size : Nat) (hg : p.src.Good) (h : p.stream.length < size) :
    p.readExact size = .error .truncated := by
  simp [PbfIn.readExact, (ensure_spec p.fuel p size hg (by simp [PbfIn.fuel])).2 h]

/-- Specification of one frame, on a plain byte stream. -/
def specFrame (maxHeader maxBlob : Nat) (blobSize : Bool → Bytes → Option Nat) (first : Bool) (r : Bytes) :
    Except PbfErr (Option (Bytes × Bytes) × Bytes) :=
  if r.length < 4 then (if r.isEmpty then .ok (none, r) else .error .truncated)
  else
    let size := be32 (r.take 4)
    let r1 := r.drop 4
    if size > maxHeader then .error .headerTooLarge
    else if size == 0 then .ok (none, r1)
    else if r1.length < size then .error .truncated
    else
      match blobSize first (r1.take size) with
      | none => .error .headerFormat
      | some bsize =>
        if bsize > maxBlob then .error .blobTooLarge
        else if (r1.drop size).length < bsize then .error .truncated
        else .ok (some (r1.take size, (r1.drop size).take bsize), (r1.drop size).drop bsize)

def specFrames (maxHeader maxBlob : Nat) (blobSize : Bool → Bytes → Option Nat) :
    Nat → Bytes → List (Bytes × Bytes) → List (Bytes × Bytes) × Option PbfErr
  | 0, _, acc => (acc.reverse, none)
  | fuel + 1, r, acc =>
    match specFrame maxHeader maxBlob blobSize acc.isEmpty r with
    | .error e => (acc.reverse, some e)
    | .ok (none, _) => (acc.reverse, none)
    | .ok (some f, r') => specFrames maxHeader maxBlob blobSize fuel r' (f :: acc)

theorem readHeaderSize_spec (maxHeader : Nat) (p : PbfIn) (hg : p.src.Good) :
    (p.stream.length < 4 →
      p.readHeaderSize maxHeader = if p.stream.isEmpty then .ok (0, p) else .error .truncated) ∧
    (4 ≤ p.stream.length →
      (be32 (p.stream.take 4) > maxHeader → p.readHeaderSize maxHeader = .error .headerTooLarge) ∧
      (¬ be32 (p.stream.take 4) > maxHeader →
        ∃ p', p.readHeaderSize maxHeader = .ok (be32 (p.stream.take 4), p') ∧ p'.src.Good ∧
          p'.stream = p.stream.drop 4)) := by
  constructor
  · intro h
    have hp : p.src.pending = p.src.chunks.flatten := by simp [Src.pending, hg.1]
    simp [PbfIn.readHeaderSize, readExact_err p 4 hg h, hp, PbfIn.stream]
  · intro h
    obtain ⟨p', he, hg', hs⟩ := readExact_ok p 4 hg h
    constructor
    · intro hgt; simp [PbfIn.readHeaderSize, he, hgt]
    · intro hgt; exact ⟨p', by simp [PbfIn.readHeaderSize, he, hgt], hg', hs⟩

theorem readFrame_spec (maxHeader maxBlob : Nat) (blobSize : Bool → Bytes → Option Nat) (first : Bool)
    (p : PbfIn) (hg : p.src.Good) :
    match p.readFrame maxHeader maxBlob blobSize first with
    | .error e => specFrame maxHeader maxBlob blobSize first p.stream = .error e
    | .ok (r, p') => specFrame maxHeader maxBlob blobSize first p.stream = .ok (r, p'.stream) ∧ p'.src.Good := by
  have hh := readHeaderSize_spec maxHeader p hg
  by_cases h4 : p.stream.length < 4
  · by_cases he : p.stream.isEmpty = true
    · simp [PbfIn.readFrame, hh.1 h4, specFrame, h4, hg, he]
    · simp [PbfIn.readFrame, hh.1 h4, specFrame, h4, he]
  · have h4' : 4 ≤ p.stream.length := by omega
    by_cases hgt : be32 (p.stream.take 4) > maxHeader
    · simp [PbfIn.readFrame, (hh.2 h4').1 hgt, specFrame, h4, hgt]
    · obtain ⟨p1, e1, g1, s1⟩ := (hh.2 h4').2 hgt
      by_cases hz : be32 (p.stream.take 4) = 0
      · simp [PbfIn.readFrame, e1, specFrame, h4, hgt, hz, g1, s1]
      · generalize hn : be32 (p.stream.take 4) = n at *
        by_cases hl : p1.stream.length < n
        · have hre := readExact_err p1 n g1 hl
          rw [s1] at hl
          have hl' : p.stream.length - 4 < n := by simpa using hl
          simp [PbfIn.readFrame, e1, hz, hre, specFrame, h4, hgt, hl', hn]
        · obtain ⟨p2, e2, g2, s2⟩ := readExact_ok p1 n g1 (by omega)
          rw [s1] at hl e2 s2
          have hl' : ¬ p.stream.length - 4 < n := by simpa using hl
          cases hb : blobSize first (List.take n (List.drop 4 p.stream)) with
          | none => simp [PbfIn.readFrame, e1, hz, e2, hb, specFrame, h4, hgt, hl', hn]
          | some bsize =>
            by_cases hbig : bsize > maxBlob
            · simp [PbfIn.readFrame, e1, hz, e2, hb, hbig, specFrame, h4, hgt, hl', hn]
            · by_cases hl2 : p2.stream.length < bsize
              · have hre := readExact_err p2 bsize g2 hl2
                rw [s2] at hl2
                have hl2' : p.stream.length - (4 + n) < bsize := by simpa [Nat.sub_sub] using hl2
                simp [PbfIn.readFrame, e1, hz, e2, hb, hbig, hre, specFrame, h4, hgt, hl', hl2', hn]
              · obtain ⟨p3, e3, g3, s3⟩ := readExact_ok p2 bsize g2 (by omega)
                rw [s2] at hl2 e3 s3
                have hl2' : ¬ p.stream.length - (4 + n) < bsize := by simpa [Nat.sub_sub] using hl2
                simp [PbfIn.readFrame, e1, hz, e2, hb, hbig, e3, specFrame, h4, hgt, hl', hl2', g3, s3, hn]

theorem readFrames_spec (maxHeader maxBlob : Nat) (blobSize : Bool → Bytes → Option Nat) :
    ∀ (fuel : Nat) (p : PbfIn) (acc : List (Bytes × Bytes)), p.src.Good →
    PbfIn.readFrames maxHeader maxBlob blobSize fuel p acc =
      specFrames maxHeader maxBlob blobSize fuel p.stream acc
  | 0, _, _, _ => rfl
  | fuel + 1, p, acc, hg => by
    have h := readFrame_spec maxHeader maxBlob blobSize acc.isEmpty p hg
    simp only [PbfIn.readFrames, specFrames]
    cases hr : p.readFrame maxHeader maxBlob blobSize acc.isEmpty with
    | error e => rw [hr] at h; simp [h]
    | ok v =>
      obtain ⟨r, p'⟩ := v
      rw [hr] at h
      obtain ⟨hs, hg'⟩ := h
      cases r with
      | none => simp [hs]
      | some f => simp [hs, readFrames_spec maxHeader maxBlob blobSize fuel p' (f :: acc) hg']

end Osmium.Chunks
