/-
C03 helper: the coordinate and integer parsers stop at the terminating NUL (used by Lemmas/HostileText.lean).
-/
import Osmium.Model.HostileText
import Osmium.Model.Conv

namespace Osmium.HostileText.Aux
open Osmium.Conv

theorem isDigit_zero : isDigit 0 = false := by decide

theorem peek_mem (s junk : Bytes) : peek (s ++ behind junk) = peek s := by
  cases s <;> rfl

theorem peek_ne_zero_ne_nil {s : Bytes} (h : peek s ≠ 0) : s ≠ [] := by
  rintro rfl; exact h rfl

theorem tail_mem {s : Bytes} (junk : Bytes) (h : s ≠ []) :
    (s ++ behind junk).tail = s.tail ++ behind junk :=
  List.tail_append_of_ne_nil h

theorem digitsLoop_mem (n acc : Nat) (s junk : Bytes) :
    digitsLoop n acc (s ++ behind junk) =
      ((digitsLoop n acc s).1, (digitsLoop n acc s).2.1, (digitsLoop n acc s).2.2 ++ behind junk) := by
  induction n generalizing acc s with
  | zero => simp [digitsLoop]
  | succ n ih =>
    cases s with
    | nil => simp [digitsLoop, behind, isDigit_zero]
    | cons c s =>
      simp only [List.cons_append, digitsLoop]
      split
      · exact ih _ _
      · rfl

theorem skipDigits_mem (n : Nat) (s junk : Bytes) :
    skipDigits n (s ++ behind junk) = ((skipDigits n s).1, (skipDigits n s).2 ++ behind junk) := by
  induction n generalizing s with
  | zero => simp [skipDigits]
  | succ n ih =>
    cases s with
    | nil => simp [skipDigits, behind, isDigit_zero]
    | cons c s =>
      simp only [List.cons_append, skipDigits]
      split
      · exact ih _
      · rfl

theorem skipDigits_len (n : Nat) (s : Bytes) :
    (skipDigits n s).1 ≤ n ∧ n - (skipDigits n s).1 ≤ s.length := by
  induction n generalizing s with
  | zero => simp [skipDigits]
  | succ n ih =>
    cases s with
    | nil => simp [skipDigits]
    | cons c s =>
      simp only [skipDigits]
      split
      · have := ih s; simp only [List.length_cons]; omega
      · simp

theorem intPart_mem (s junk : Bytes) :
    intPart (s ++ behind junk) = (intPart s).map (fun p => (p.1, p.2 ++ behind junk)) := by
  unfold intPart
  rw [peek_mem]
  by_cases h : (peek s != cDot) = true
  · simp only [h, if_true]
    cases s with
    | nil => simp [behind, isDigit_zero]
    | cons c s =>
      simp only [List.cons_append]
      by_cases hd : isDigit c = true
      · simp only [hd, if_true, digitsLoop_mem]
        generalize digitsLoop 10 (digitVal c) s = x
        rcases x with ⟨r, md, s''⟩
        simp only
        split <;> simp
      · simp [hd]
  · rw [if_neg h, if_neg h]
    have hne : s ≠ [] := by
      apply peek_ne_zero_ne_nil
      intro h0; rw [h0] at h; exact h (by decide)
    rw [tail_mem junk hne, peek_mem]
    split <;> simp

theorem fracPart_mem (r : Nat) (s junk : Bytes) :
    fracPart r (s ++ behind junk) =
      (fracPart r s).map (fun p => (p.1, p.2.1, p.2.2.1, p.2.2.2 ++ behind junk)) := by
  unfold fracPart
  rw [peek_mem]
  by_cases h : (peek s == cDot) = true
  · have hne : s ≠ [] := by
      apply peek_ne_zero_ne_nil
      intro h0; rw [h0] at h; exact absurd h (by decide)
    simp only [h, if_true]
    rw [tail_mem junk hne, digitsLoop_mem]
    generalize digitsLoop 8 r s.tail = x
    rcases x with ⟨r', sc, s2⟩
    simp only [skipDigits_mem]
    have hl := skipDigits_len 20 s2
    generalize skipDigits 20 s2 = y at hl
    rcases y with ⟨md, s3⟩
    simp only at hl ⊢
    split
    · simp
    · simp only [Option.map_some]
      rw [List.take_append_of_le_length hl.2]
  · simp [h]

theorem expPart_mem (s junk : Bytes) :
    expPart (s ++ behind junk) = (expPart s).map (fun p => (p.1, p.2 ++ behind junk)) := by
  unfold expPart
  rw [peek_mem]
  by_cases h : (peek s == ce || peek s == cE) = true
  · have hne : s ≠ [] := by
      apply peek_ne_zero_ne_nil
      intro h0; rw [h0] at h; exact absurd h (by decide)
    simp only [h, if_true]
    rw [tail_mem junk hne, peek_mem]
    by_cases hm : (peek s.tail == cMinus) = true
    · have hne2 : s.tail ≠ [] := by
        apply peek_ne_zero_ne_nil
        intro h0; rw [h0] at hm; exact absurd hm (by decide)
      simp only [hm, if_true]
      rw [tail_mem junk hne2]
      cases s.tail.tail with
      | nil => simp [behind, isDigit_zero]
      | cons c s3 =>
        simp only [List.cons_append]
        by_cases hd : isDigit c = true
        · simp only [hd, if_true, digitsLoop_mem]
          generalize digitsLoop 5 (digitVal c) s3 = x
          rcases x with ⟨er, md, s4⟩
          try simp only
          split <;> simp
        · simp [hd]
    · simp only [hm, Bool.false_eq_true, if_false]
      cases s.tail with
      | nil => simp [behind, isDigit_zero]
      | cons c s3 =>
        simp only [List.cons_append]
        by_cases hd : isDigit c = true
        · simp only [hd, if_true, digitsLoop_mem]
          generalize digitsLoop 5 (digitVal c) s3 = x
          rcases x with ⟨er, md, s4⟩
          try simp only
          split <;> simp
        · simp [hd]
  · simp [h]


theorem finishCoord_mem (r : Int) (o : Bool) (sign : Int) (rest junk : Bytes) :
    finishCoord r o sign (rest ++ behind junk) =
      (match finishCoord r o sign rest with
       | .ok o => .ok { o with rest := o.rest ++ behind junk }
       | .error e => .error e) := by
  unfold finishCoord
  simp only
  split <;> rfl

set_option linter.unusedVariables false in
theorem parseCoord_stops (v : Variant) (s junk : Bytes) (h : NoNul s) :
    parseCoord v (s ++ behind junk) =
      (match parseCoord v s with
       | .ok o => .ok { o with rest := o.rest ++ behind junk }
       | .error e => .error e) := by
  unfold parseCoord
  rw [peek_mem]
  have key : ∀ (sign : Int) (s1 : Bytes),
      (match intPart (s1 ++ behind junk) with
        | none => Except.error Err.invalidLocation
        | some (r1, s2) =>
          match fracPart r1 s2 with
          | none => Except.error Err.invalidLocation
          | some (r2, sc, extra, s3) =>
            match expPart s3 with
            | none => Except.error Err.invalidLocation
            | some (e, s4) =>
              if (sc : Int) + e < 0 then finishCoord (divLoop ((sc : Int) + e).natAbs r2) false sign s4
              else
                match mulLoop v ((sc : Int) + e).toNat r2 (if v.fixDigits = true then extra else []) false with
                | none => Except.error Err.invalidLocation
                | some (r3, o) => finishCoord r3 o sign s4) =
      (match
        (match intPart s1 with
        | none => Except.error Err.invalidLocation
        | some (r1, s2) =>
          match fracPart r1 s2 with
          | none => Except.error Err.invalidLocation
          | some (r2, sc, extra, s3) =>
            match expPart s3 with
            | none => Except.error Err.invalidLocation
            | some (e, s4) =>
              if (sc : Int) + e < 0 then finishCoord (divLoop ((sc : Int) + e).natAbs r2) false sign s4
              else
                match mulLoop v ((sc : Int) + e).toNat r2 (if v.fixDigits = true then extra else []) false with
                | none => Except.error Err.invalidLocation
                | some (r3, o) => finishCoord r3 o sign s4) with
       | .ok o => .ok { o with rest := o.rest ++ behind junk }
       | .error e => .error e) := by
    intro sign s1
    rw [intPart_mem]
    cases intPart s1 with
    | none => rfl
    | some p =>
      obtain ⟨r1, s2⟩ := p
      simp only [Option.map_some, fracPart_mem]
      cases fracPart r1 s2 with
      | none => rfl
      | some q =>
        obtain ⟨r2, sc, extra, s3⟩ := q
        simp only [Option.map_some, expPart_mem]
        cases expPart s3 with
        | none => rfl
        | some w =>
          obtain ⟨e, s4⟩ := w
          simp only [Option.map_some, finishCoord_mem]
          split
          · generalize finishCoord _ _ _ _ = x
            cases x <;> rfl
          · cases mulLoop v ((sc : Int) + e).toNat r2 (if v.fixDigits = true then extra else []) false with
            | none => rfl
            | some z =>
              simp only
  by_cases hm : (peek s == cMinus) = true
  · have hne : s ≠ [] := by
      apply peek_ne_zero_ne_nil
      intro h0; rw [h0] at hm; exact absurd hm (by decide)
    simp only [hm, if_true]
    rw [tail_mem junk hne]
    exact key _ _
  · simp only [hm, Bool.false_eq_true, if_false]
    exact key _ _


theorem parseCoordFull_ignores (v : Variant) (s junk : Bytes) (h : NoNul s) :
    (parseCoord v (s ++ behind junk)).toOption.map (·.value) = (parseCoord v s).toOption.map (·.value) := by
  rw [parseCoord_stops v s junk h]
  cases parseCoord v s <;> rfl

theorem oplDigits_mem (value : Int) (s junk : Bytes) :
    oplDigits value (s ++ behind junk) = onMem junk (oplDigits value s) := by
  induction s generalizing value with
  | nil => simp [oplDigits, behind, isDigit_zero, onMem]
  | cons c s ih =>
    simp only [List.cons_append, oplDigits]
    split
    · split
      · rfl
      · exact ih _
    · rfl

theorem oplParseInt_stops (tmin tmax : Int) : StopsAtNul (oplParseInt tmin tmax) := by
  intro s junk _
  unfold oplParseInt
  simp only [peek_mem]
  have key : ∀ (neg : Bool) (s1 : Bytes),
      (if (!isDigit (peek s1)) = true then Except.error Err.oplError
        else
          match oplDigits 0 (s1 ++ behind junk) with
          | Except.error e => Except.error e
          | Except.ok (value, rest) =>
            if neg = true then if value < tmin then Except.error Err.oplError else Except.ok (value, rest)
            else
              if (value == int64Min) = true then Except.error Err.oplError
              else if -value > tmax then Except.error Err.oplError else Except.ok (-value, rest)) =
      onMem junk (if (!isDigit (peek s1)) = true then Except.error Err.oplError
        else
          match oplDigits 0 s1 with
          | Except.error e => Except.error e
          | Except.ok (value, rest) =>
            if neg = true then if value < tmin then Except.error Err.oplError else Except.ok (value, rest)
            else
              if (value == int64Min) = true then Except.error Err.oplError
              else if -value > tmax then Except.error Err.oplError else Except.ok (-value, rest)) := by
    intro neg s1
    split
    · rfl
    · rw [oplDigits_mem]
      cases oplDigits 0 s1 with
      | error e => rfl
      | ok p =>
        obtain ⟨value, rest⟩ := p
        simp only [onMem]
        split
        · split <;> rfl
        · split
          · rfl
          · split <;> rfl
  by_cases hm : (peek s == cMinus) = true
  · have hne : s ≠ [] := by
      apply peek_ne_zero_ne_nil
      intro h0; rw [h0] at hm; exact absurd hm (by decide)
    simp only [hm, if_true]
    rw [tail_mem junk hne, peek_mem]
    exact key true _
  · simp only [hm, Bool.false_eq_true, if_false]
    rw [peek_mem]
    exact key false _

end Osmium.HostileText.Aux
