/-
Reader half of `xml_decode_spec` (C02), part 1: the attribute loops of the XML reader do not depend
on the ORDER of the attributes.

`OplSpec.pick ks` is a permutation; every `check_attributes` loop of the reader is — on attribute
lists whose values all parse — a left fold of a pure setter, and setters of different attribute
names commute; so on lists with pairwise distinct names the loop gives the same result for every
permutation (`*_pick` theorems).
-/
import Osmium.Lemmas.XmlSpecDefs
import Osmium.Lemmas.XmlFmtCsDefs

namespace Osmium.XmlFmt.XmlSpec
open Osmium.Osm Osmium.TextFmt Osmium.Conv Osmium.XmlFmt

/-! ### `pick` is a permutation (same proof as in Lemmas/OplSpecLine.lean; repeated here to keep the
XML files independent of the OPL ones) -/

theorem xgetElem_cons_eraseIdx_perm {α : Type} : ∀ (l : List α) (i : Nat) (h : i < l.length),
    (l[i] :: l.eraseIdx i).Perm l
  | [], i, h => by simp at h
  | x :: l, 0, _ => by simp
  | x :: l, i + 1, h => by
    have ih := xgetElem_cons_eraseIdx_perm l i (by simpa using h)
    simp only [List.getElem_cons_succ, List.eraseIdx_cons_succ]
    exact (List.Perm.swap _ _ _).trans (List.Perm.cons x ih)

theorem xpickGo_perm {α : Type} : ∀ (f : Nat) (ks : List Nat) (xs : List α), (OplFmt.OplSpec.pickGo f ks xs).Perm xs := by
  intro f
  induction f with
  | zero => intro ks xs; simp [OplFmt.OplSpec.pickGo]
  | succ f ih =>
    intro ks xs
    cases xs with
    | nil => simp [OplFmt.OplSpec.pickGo]
    | cons x xs =>
      cases ks with
      | nil => simp [OplFmt.OplSpec.pickGo]
      | cons k ks =>
        have hi : k % (x :: xs).length < (x :: xs).length := Nat.mod_lt _ (by simp)
        simp only [OplFmt.OplSpec.pickGo, List.getElem?_eq_getElem hi]
        exact (List.Perm.cons _ (ih ks _)).trans (xgetElem_cons_eraseIdx_perm _ _ hi)

theorem xpick_perm {α : Type} (ks : List Nat) (xs : List α) : (OplFmt.OplSpec.pick ks xs).Perm xs :=
  xpickGo_perm _ _ _

theorem xpick_nil {α : Type} (ks : List Nat) : OplFmt.OplSpec.pick ks ([] : List α) = [] := by
  simp [OplFmt.OplSpec.pick, OplFmt.OplSpec.pickGo]

/-! ### folds of commuting setters -/

abbrev Attr := String × Bytes

theorem nodup_map_inj {α β : Type} (f : α → β) : ∀ (l : List α), (l.map f).Nodup → ∀ x ∈ l, ∀ y ∈ l, f x = f y → x = y := by
  intro l
  induction l with
  | nil => intro _ x hx; cases hx
  | cons a l ih =>
    intro hnd x hx y hy hxy
    simp only [List.map_cons, List.nodup_cons, List.mem_map, not_exists, not_and] at hnd
    rcases List.mem_cons.1 hx with rfl | hx' <;> rcases List.mem_cons.1 hy with rfl | hy'
    · rfl
    · exact absurd hxy.symm (hnd.1 y hy')
    · exact absurd hxy (hnd.1 x hx')
    · exact ih hnd.2 x hx' y hy' hxy

/-- a fold of setters that commute for different names does not depend on the order of a list with
    pairwise distinct names -/
theorem foldl_pick {σ : Type} (f : σ → Attr → σ) (hc : ∀ a b s, a.1 ≠ b.1 → f (f s a) b = f (f s b) a)
    (ks : List Nat) (as : List Attr) (hnd : (as.map Prod.fst).Nodup) (s : σ) :
    (OplFmt.OplSpec.pick ks as).foldl f s = as.foldl f s := by
  have hp := xpick_perm ks as
  have hnd' : ((OplFmt.OplSpec.pick ks as).map Prod.fst).Nodup := ((hp.map Prod.fst).nodup_iff).2 hnd
  refine hp.foldl_eq' ?_ s
  intro x hx y hy z
  by_cases hxy : x.1 = y.1
  · rw [nodup_map_inj Prod.fst _ hnd' x hx y hy hxy]
  · exact hc x y z hxy

theorem pick_mem {α : Type} (ks : List Nat) (as : List α) (a : α) : a ∈ OplFmt.OplSpec.pick ks as ↔ a ∈ as :=
  (xpick_perm ks as).mem_iff

def okD {α : Type} (d : α) : Except XErr α → α
  | .ok a => a
  | .error _ => d

@[simp] theorem okD_ok {α : Type} (d a : α) : okD d (.ok a) = a := rfl

/-! ### `init_object` -/

def objStep (s : Object × Location × Bytes) (a : Attr) : Object × Location × Bytes :=
  if a.1 = "lon" then (s.1, { s.2.1 with x := okD 0 (rCoord a.2) }, s.2.2)
  else if a.1 = "lat" then (s.1, { s.2.1 with y := okD 0 (rCoord a.2) }, s.2.2)
  else if a.1 = "user" then (s.1, s.2.1, a.2)
  else if a.1 = "id" then (mapMeta (fun m => { m with id := okD 0 (rId a.2) }) s.1, s.2.1, s.2.2)
  else if a.1 = "version" then (mapMeta (fun m => { m with version := okD 0 (rUlong a.2) % 2147483648 }) s.1, s.2.1, s.2.2)
  else if a.1 = "changeset" then (mapMeta (fun m => { m with changeset := okD 0 (rUlong a.2) }) s.1, s.2.1, s.2.2)
  else if a.1 = "timestamp" then (mapMeta (fun m => { m with timestamp := okD 0 (rTimestampStrict a.2) }) s.1, s.2.1, s.2.2)
  else if a.1 = "uid" then (mapMeta (fun m => { m with uid := okD 0 (rUlong a.2) }) s.1, s.2.1, s.2.2)
  else if a.1 = "visible" then (mapMeta (fun m => { m with visible := decide (a.2 = bTrue) }) s.1, s.2.1, s.2.2)
  else s

/-- the value of the attribute is accepted by `init_object` -/
def objGood (a : Attr) : Prop :=
  if a.1 = "lon" then ∃ x, rCoord a.2 = .ok x
  else if a.1 = "lat" then ∃ x, rCoord a.2 = .ok x
  else if a.1 = "user" then True
  else if a.1 = "id" then ∃ x, rId a.2 = .ok x
  else if a.1 = "version" then ∃ x, rUlong a.2 = .ok x
  else if a.1 = "changeset" then ∃ x, rUlong a.2 = .ok x
  else if a.1 = "timestamp" then ∃ x, rTimestampStrict a.2 = .ok x
  else if a.1 = "uid" then ∃ x, rUlong a.2 = .ok x
  else if a.1 = "visible" then a.2 = bTrue ∨ a.2 = bFalse
  else True

-- one branch of an attribute loop: the name is a literal, `h0` says that the value parses
set_option hygiene false in
local macro "loop_case" g:ident l:ident s:ident : tactic =>
  `(tactic| (simp (config := { decide := true }) only [$g:ident, if_true, if_false] at h0
             first
               | (obtain ⟨x, hx⟩ := h0
                  simp (config := { decide := true }) [$l:ident, $s:ident, hx, ih'])
               | simp (config := { decide := true }) [$l:ident, $s:ident, ih']))

theorem initObjectAttrs_foldl : ∀ (as : List Attr) (_ : ∀ a ∈ as, objGood a) (obj : Object) (loc : Location) (user : Bytes),
    initObjectAttrs as obj loc user = .ok (as.foldl objStep (obj, loc, user)) := by
  intro as
  induction as with
  | nil => intro _ obj loc user; rfl
  | cons a as ih =>
    intro hg obj loc user
    obtain ⟨n, v⟩ := a
    have h0 := hg (n, v) (by simp)
    have ih' := ih (fun a ha => hg a (by simp [ha]))
    rcases Classical.em (n = "lon") with rfl | h1
    · loop_case objGood initObjectAttrs objStep
    rcases Classical.em (n = "lat") with rfl | h2
    · loop_case objGood initObjectAttrs objStep
    rcases Classical.em (n = "user") with rfl | h3
    · loop_case objGood initObjectAttrs objStep
    rcases Classical.em (n = "id") with rfl | h4
    · loop_case objGood initObjectAttrs objStep
    rcases Classical.em (n = "version") with rfl | h5
    · loop_case objGood initObjectAttrs objStep
    rcases Classical.em (n = "changeset") with rfl | h6
    · loop_case objGood initObjectAttrs objStep
    rcases Classical.em (n = "timestamp") with rfl | h7
    · loop_case objGood initObjectAttrs objStep
    rcases Classical.em (n = "uid") with rfl | h8
    · loop_case objGood initObjectAttrs objStep
    rcases Classical.em (n = "visible") with rfl | h9
    · simp (config := { decide := true }) only [objGood, if_true, if_false] at h0
      rcases h0 with rfl | rfl <;>
        simp (config := { decide := true }) [initObjectAttrs, objStep, ih']
    · simp only [initObjectAttrs, List.foldl_cons, objStep, if_false, h1, h2, h3, h4, h5, h6, h7, h8, h9, ih']

theorem mapMeta_comp (f g : Meta → Meta) (o : Object) : mapMeta f (mapMeta g o) = mapMeta (fun m => f (g m)) o := by
  cases o <;> rfl

theorem objName_cases (n : String) :
    n = "lon" ∨ n = "lat" ∨ n = "user" ∨ n = "id" ∨ n = "version" ∨ n = "changeset" ∨ n = "timestamp" ∨ n = "uid" ∨
    n = "visible" ∨ (n ≠ "lon" ∧ n ≠ "lat" ∧ n ≠ "user" ∧ n ≠ "id" ∧ n ≠ "version" ∧ n ≠ "changeset" ∧ n ≠ "timestamp" ∧
      n ≠ "uid" ∧ n ≠ "visible") := by
  tauto

theorem objStep_comm (a b : Attr) (s : Object × Location × Bytes) (h : a.1 ≠ b.1) :
    objStep (objStep s a) b = objStep (objStep s b) a := by
  obtain ⟨n1, v1⟩ := a
  obtain ⟨n2, v2⟩ := b
  obtain ⟨o, l, u⟩ := s
  simp only at h
  rcases objName_cases n1 with rfl | rfl | rfl | rfl | rfl | rfl | rfl | rfl | rfl | ⟨a1, a2, a3, a4, a5, a6, a7, a8, a9⟩ <;>
  rcases objName_cases n2 with rfl | rfl | rfl | rfl | rfl | rfl | rfl | rfl | rfl | ⟨b1, b2, b3, b4, b5, b6, b7, b8, b9⟩ <;>
  first
    | exact absurd rfl h
    | simp (config := { decide := true }) [objStep, mapMeta_comp, *]

/-- `init_object`'s attribute loop on a permuted list -/
theorem initObjectAttrs_pick (ks : List Nat) (as : List Attr) (hnd : (as.map Prod.fst).Nodup) (hg : ∀ a ∈ as, objGood a)
    (obj : Object) (loc : Location) (user : Bytes) :
    initObjectAttrs (OplFmt.OplSpec.pick ks as) obj loc user = initObjectAttrs as obj loc user := by
  rw [initObjectAttrs_foldl _ (fun a ha => hg a ((pick_mem ks as a).1 ha)), initObjectAttrs_foldl _ hg,
    foldl_pick objStep (fun a b s h => objStep_comm a b s h) ks as hnd]

/-! ### `init_changeset` -/

def csStep (a : CsAcc) (p : Attr) : CsAcc :=
  if p.1 = "min_lon" then { a with bl := { a.bl with x := okD 0 (rCoord p.2) } }
  else if p.1 = "min_lat" then { a with bl := { a.bl with y := okD 0 (rCoord p.2) } }
  else if p.1 = "max_lon" then { a with tr := { a.tr with x := okD 0 (rCoord p.2) } }
  else if p.1 = "max_lat" then { a with tr := { a.tr with y := okD 0 (rCoord p.2) } }
  else if p.1 = "user" then { a with user := p.2 }
  else if p.1 = "id" then { a with id := okD 0 (rUlong p.2) }
  else if p.1 = "num_changes" then { a with numChanges := okD 0 (rUlong p.2) }
  else if p.1 = "comments_count" then { a with numComments := okD 0 (rUlong p.2) }
  else if p.1 = "created_at" then { a with createdAt := okD 0 (rTimestamp p.2) }
  else if p.1 = "closed_at" then { a with closedAt := okD 0 (rTimestamp p.2) }
  else if p.1 = "uid" then { a with uid := okD 0 (rUlong p.2) }
  else a

def csGood (p : Attr) : Prop :=
  if p.1 = "min_lon" then ∃ x, rCoord p.2 = .ok x
  else if p.1 = "min_lat" then ∃ x, rCoord p.2 = .ok x
  else if p.1 = "max_lon" then ∃ x, rCoord p.2 = .ok x
  else if p.1 = "max_lat" then ∃ x, rCoord p.2 = .ok x
  else if p.1 = "user" then p.2.length ≤ 1024
  else if p.1 = "id" then ∃ x, rUlong p.2 = .ok x
  else if p.1 = "num_changes" then ∃ x, rUlong p.2 = .ok x
  else if p.1 = "comments_count" then ∃ x, rUlong p.2 = .ok x
  else if p.1 = "created_at" then ∃ x, rTimestamp p.2 = .ok x
  else if p.1 = "closed_at" then ∃ x, rTimestamp p.2 = .ok x
  else if p.1 = "uid" then ∃ x, rUlong p.2 = .ok x
  else True

theorem initChangesetAttrs_foldl : ∀ (as : List Attr) (_ : ∀ a ∈ as, csGood a) (acc : CsAcc),
    initChangesetAttrs as acc = .ok (as.foldl csStep acc) := by
  intro as
  induction as with
  | nil => intro _ acc; rfl
  | cons a as ih =>
    intro hg acc
    obtain ⟨n, v⟩ := a
    have h0 := hg (n, v) (by simp)
    have ih' := ih (fun a ha => hg a (by simp [ha]))
    rcases Classical.em (n = "min_lon") with rfl | h1
    · loop_case csGood initChangesetAttrs csStep
    rcases Classical.em (n = "min_lat") with rfl | h2
    · loop_case csGood initChangesetAttrs csStep
    rcases Classical.em (n = "max_lon") with rfl | h3
    · loop_case csGood initChangesetAttrs csStep
    rcases Classical.em (n = "max_lat") with rfl | h4
    · loop_case csGood initChangesetAttrs csStep
    rcases Classical.em (n = "user") with rfl | h5
    · simp (config := { decide := true }) only [csGood, if_true, if_false] at h0
      have hlen : ¬ (1024 < v.length) := by omega
      simp (config := { decide := true }) [initChangesetAttrs, csStep, ih', OplFmt.maxString, hlen]
    rcases Classical.em (n = "id") with rfl | h6
    · loop_case csGood initChangesetAttrs csStep
    rcases Classical.em (n = "num_changes") with rfl | h7
    · loop_case csGood initChangesetAttrs csStep
    rcases Classical.em (n = "comments_count") with rfl | h8
    · loop_case csGood initChangesetAttrs csStep
    rcases Classical.em (n = "created_at") with rfl | h9
    · loop_case csGood initChangesetAttrs csStep
    rcases Classical.em (n = "closed_at") with rfl | h10
    · loop_case csGood initChangesetAttrs csStep
    rcases Classical.em (n = "uid") with rfl | h11
    · loop_case csGood initChangesetAttrs csStep
    · simp only [initChangesetAttrs, List.foldl_cons, csStep, if_false, h1, h2, h3, h4, h5, h6, h7, h8, h9, h10, h11, ih']

theorem csName_cases (n : String) :
    n = "min_lon" ∨ n = "min_lat" ∨ n = "max_lon" ∨ n = "max_lat" ∨ n = "user" ∨ n = "id" ∨ n = "num_changes" ∨
    n = "comments_count" ∨ n = "created_at" ∨ n = "closed_at" ∨ n = "uid" ∨
    (n ≠ "min_lon" ∧ n ≠ "min_lat" ∧ n ≠ "max_lon" ∧ n ≠ "max_lat" ∧ n ≠ "user" ∧ n ≠ "id" ∧ n ≠ "num_changes" ∧
      n ≠ "comments_count" ∧ n ≠ "created_at" ∧ n ≠ "closed_at" ∧ n ≠ "uid") := by
  tauto

theorem csStep_comm (a b : Attr) (s : CsAcc) (h : a.1 ≠ b.1) : csStep (csStep s a) b = csStep (csStep s b) a := by
  obtain ⟨n1, v1⟩ := a
  obtain ⟨n2, v2⟩ := b
  simp only at h
  rcases csName_cases n1 with rfl | rfl | rfl | rfl | rfl | rfl | rfl | rfl | rfl | rfl | rfl |
      ⟨a1, a2, a3, a4, a5, a6, a7, a8, a9, a10, a11⟩ <;>
  rcases csName_cases n2 with rfl | rfl | rfl | rfl | rfl | rfl | rfl | rfl | rfl | rfl | rfl |
      ⟨b1, b2, b3, b4, b5, b6, b7, b8, b9, b10, b11⟩ <;>
  first
    | exact absurd rfl h
    | simp (config := { decide := true }) [csStep, *]

theorem initChangesetAttrs_pick (ks : List Nat) (as : List Attr) (hnd : (as.map Prod.fst).Nodup) (hg : ∀ a ∈ as, csGood a)
    (acc : CsAcc) : initChangesetAttrs (OplFmt.OplSpec.pick ks as) acc = initChangesetAttrs as acc := by
  rw [initChangesetAttrs_foldl _ (fun a ha => hg a ((pick_mem ks as a).1 ha)), initChangesetAttrs_foldl _ hg,
    foldl_pick csStep (fun a b s h => csStep_comm a b s h) ks as hnd]

/-! ### `<nd>` -/

def ndStep (nr : NodeRef) (p : Attr) : NodeRef :=
  if p.1 = "ref" then { nr with ref := okD 0 (rId p.2) }
  else if p.1 = "lon" then { nr with location := { nr.location with x := okD 0 (rCoord p.2) } }
  else if p.1 = "lat" then { nr with location := { nr.location with y := okD 0 (rCoord p.2) } }
  else nr

def ndGood (p : Attr) : Prop :=
  if p.1 = "ref" then ∃ x, rId p.2 = .ok x
  else if p.1 = "lon" then ∃ x, rCoord p.2 = .ok x
  else if p.1 = "lat" then ∃ x, rCoord p.2 = .ok x
  else True

theorem ndAttrs_foldl : ∀ (as : List Attr) (_ : ∀ a ∈ as, ndGood a) (nr : NodeRef),
    ndAttrs as nr = .ok (as.foldl ndStep nr) := by
  intro as
  induction as with
  | nil => intro _ acc; rfl
  | cons a as ih =>
    intro hg acc
    obtain ⟨n, v⟩ := a
    have h0 := hg (n, v) (by simp)
    have ih' := ih (fun a ha => hg a (by simp [ha]))
    rcases Classical.em (n = "ref") with rfl | h1
    · loop_case ndGood ndAttrs ndStep
    rcases Classical.em (n = "lon") with rfl | h2
    · loop_case ndGood ndAttrs ndStep
    rcases Classical.em (n = "lat") with rfl | h3
    · loop_case ndGood ndAttrs ndStep
    · simp only [ndAttrs, List.foldl_cons, ndStep, if_false, h1, h2, h3, ih']

theorem ndName_cases (n : String) :
    n = "ref" ∨ n = "lon" ∨ n = "lat" ∨ (n ≠ "ref" ∧ n ≠ "lon" ∧ n ≠ "lat") := by
  tauto

theorem ndStep_comm (a b : Attr) (s : NodeRef) (h : a.1 ≠ b.1) : ndStep (ndStep s a) b = ndStep (ndStep s b) a := by
  obtain ⟨n1, v1⟩ := a
  obtain ⟨n2, v2⟩ := b
  simp only at h
  rcases ndName_cases n1 with rfl | rfl | rfl | ⟨a1, a2, a3⟩ <;>
  rcases ndName_cases n2 with rfl | rfl | rfl | ⟨b1, b2, b3⟩ <;>
  first
    | exact absurd rfl h
    | simp (config := { decide := true }) [ndStep, *]

theorem ndAttrs_pick (ks : List Nat) (as : List Attr) (hnd : (as.map Prod.fst).Nodup) (hg : ∀ a ∈ as, ndGood a)
    (nr : NodeRef) : ndAttrs (OplFmt.OplSpec.pick ks as) nr = ndAttrs as nr := by
  rw [ndAttrs_foldl _ (fun a ha => hg a ((pick_mem ks as a).1 ha)), ndAttrs_foldl _ hg,
    foldl_pick ndStep (fun a b s h => ndStep_comm a b s h) ks as hnd]

/-! ### `<member>` -/

def memStep (s : Nat × Int × Bool × Bytes) (p : Attr) : Nat × Int × Bool × Bytes :=
  if p.1 = "type" then (charType (peek p.2), s.2.1, s.2.2.1, s.2.2.2)
  else if p.1 = "ref" then (s.1, okD 0 (rId p.2), true, s.2.2.2)
  else if p.1 = "role" then (s.1, s.2.1, s.2.2.1, p.2)
  else s

def memGood (p : Attr) : Prop :=
  if p.1 = "type" then True
  else if p.1 = "ref" then ∃ x, rId p.2 = .ok x
  else True

theorem memberAttrs_foldl : ∀ (as : List Attr) (_ : ∀ a ∈ as, memGood a) (t : Nat) (r : Int) (s : Bool) (role : Bytes),
    memberAttrs as t r s role = .ok (as.foldl memStep (t, r, s, role)) := by
  intro as
  induction as with
  | nil => intro _ t r s role; rfl
  | cons a as ih =>
    intro hg t r s role
    obtain ⟨n, v⟩ := a
    have h0 := hg (n, v) (by simp)
    have ih' := ih (fun a ha => hg a (by simp [ha]))
    rcases Classical.em (n = "type") with rfl | h1
    · simp (config := { decide := true }) [memberAttrs, memStep, ih']
    rcases Classical.em (n = "ref") with rfl | h2
    · loop_case memGood memberAttrs memStep
    rcases Classical.em (n = "role") with rfl | h3
    · simp (config := { decide := true }) [memberAttrs, memStep, ih']
    · simp only [memberAttrs, List.foldl_cons, memStep, if_false, h1, h2, h3, ih']

theorem memName_cases (n : String) :
    n = "type" ∨ n = "ref" ∨ n = "role" ∨ (n ≠ "type" ∧ n ≠ "ref" ∧ n ≠ "role") := by
  tauto

theorem memStep_comm (a b : Attr) (s : Nat × Int × Bool × Bytes) (h : a.1 ≠ b.1) :
    memStep (memStep s a) b = memStep (memStep s b) a := by
  obtain ⟨n1, v1⟩ := a
  obtain ⟨n2, v2⟩ := b
  simp only at h
  rcases memName_cases n1 with rfl | rfl | rfl | ⟨a1, a2, a3⟩ <;>
  rcases memName_cases n2 with rfl | rfl | rfl | ⟨b1, b2, b3⟩ <;>
  first
    | exact absurd rfl h
    | simp (config := { decide := true }) [memStep, *]

theorem memberAttrs_pick (ks : List Nat) (as : List Attr) (hnd : (as.map Prod.fst).Nodup) (hg : ∀ a ∈ as, memGood a)
    (t : Nat) (r : Int) (s : Bool) (role : Bytes) :
    memberAttrs (OplFmt.OplSpec.pick ks as) t r s role = memberAttrs as t r s role := by
  rw [memberAttrs_foldl _ (fun a ha => hg a ((pick_mem ks as a).1 ha)), memberAttrs_foldl _ hg,
    foldl_pick memStep (fun a b s h => memStep_comm a b s h) ks as hnd]

/-! ### `<comment>` -/

def comStep (c : Comment) (p : Attr) : Comment :=
  if p.1 = "date" then { c with date := okD 0 (rTimestamp p.2) }
  else if p.1 = "uid" then { c with uid := okD 0 (rUlong p.2) }
  else if p.1 = "user" then { c with user := p.2 }
  else c

def comGood (p : Attr) : Prop :=
  if p.1 = "date" then ∃ x, rTimestamp p.2 = .ok x
  else if p.1 = "uid" then ∃ x, rUlong p.2 = .ok x
  else True

theorem commentAttrs_foldl : ∀ (as : List Attr) (_ : ∀ a ∈ as, comGood a) (c : Comment),
    commentAttrs as c = .ok (as.foldl comStep c) := by
  intro as
  induction as with
  | nil => intro _ acc; rfl
  | cons a as ih =>
    intro hg acc
    obtain ⟨n, v⟩ := a
    have h0 := hg (n, v) (by simp)
    have ih' := ih (fun a ha => hg a (by simp [ha]))
    rcases Classical.em (n = "date") with rfl | h1
    · loop_case comGood commentAttrs comStep
    rcases Classical.em (n = "uid") with rfl | h2
    · loop_case comGood commentAttrs comStep
    rcases Classical.em (n = "user") with rfl | h3
    · simp (config := { decide := true }) [commentAttrs, comStep, ih']
    · simp only [commentAttrs, List.foldl_cons, comStep, if_false, h1, h2, h3, ih']

theorem comName_cases (n : String) :
    n = "date" ∨ n = "uid" ∨ n = "user" ∨ (n ≠ "date" ∧ n ≠ "uid" ∧ n ≠ "user") := by
  tauto

theorem comStep_comm (a b : Attr) (s : Comment) (h : a.1 ≠ b.1) : comStep (comStep s a) b = comStep (comStep s b) a := by
  obtain ⟨n1, v1⟩ := a
  obtain ⟨n2, v2⟩ := b
  simp only at h
  rcases comName_cases n1 with rfl | rfl | rfl | ⟨a1, a2, a3⟩ <;>
  rcases comName_cases n2 with rfl | rfl | rfl | ⟨b1, b2, b3⟩ <;>
  first
    | exact absurd rfl h
    | simp (config := { decide := true }) [comStep, *]

theorem commentAttrs_pick (ks : List Nat) (as : List Attr) (hnd : (as.map Prod.fst).Nodup) (hg : ∀ a ∈ as, comGood a)
    (c : Comment) : commentAttrs (OplFmt.OplSpec.pick ks as) c = commentAttrs as c := by
  rw [commentAttrs_foldl _ (fun a ha => hg a ((pick_mem ks as a).1 ha)), commentAttrs_foldl _ hg,
    foldl_pick comStep (fun a b s h => comStep_comm a b s h) ks as hnd]

/-! ### `<bounds>` -/

def bndStep (s : Location × Location) (p : Attr) : Location × Location :=
  if p.1 = "minlon" then ({ s.1 with x := okD 0 (rCoord p.2) }, s.2)
  else if p.1 = "minlat" then ({ s.1 with y := okD 0 (rCoord p.2) }, s.2)
  else if p.1 = "maxlon" then (s.1, { s.2 with x := okD 0 (rCoord p.2) })
  else if p.1 = "maxlat" then (s.1, { s.2 with y := okD 0 (rCoord p.2) })
  else s

def bndGood (p : Attr) : Prop :=
  if p.1 = "minlon" then ∃ x, rCoord p.2 = .ok x
  else if p.1 = "minlat" then ∃ x, rCoord p.2 = .ok x
  else if p.1 = "maxlon" then ∃ x, rCoord p.2 = .ok x
  else if p.1 = "maxlat" then ∃ x, rCoord p.2 = .ok x
  else True

theorem boundsAttrs_foldl : ∀ (as : List Attr) (_ : ∀ a ∈ as, bndGood a) (mn mx : Location),
    boundsAttrs as mn mx = .ok (as.foldl bndStep (mn, mx)) := by
  intro as
  induction as with
  | nil => intro _ mn mx; rfl
  | cons a as ih =>
    intro hg mn mx
    obtain ⟨n, v⟩ := a
    have h0 := hg (n, v) (by simp)
    have ih' := ih (fun a ha => hg a (by simp [ha]))
    rcases Classical.em (n = "minlon") with rfl | h1
    · loop_case bndGood boundsAttrs bndStep
    rcases Classical.em (n = "minlat") with rfl | h2
    · loop_case bndGood boundsAttrs bndStep
    rcases Classical.em (n = "maxlon") with rfl | h3
    · loop_case bndGood boundsAttrs bndStep
    rcases Classical.em (n = "maxlat") with rfl | h4
    · loop_case bndGood boundsAttrs bndStep
    · simp only [boundsAttrs, List.foldl_cons, bndStep, if_false, h1, h2, h3, h4, ih']

theorem bndName_cases (n : String) :
    n = "minlon" ∨ n = "minlat" ∨ n = "maxlon" ∨ n = "maxlat" ∨ (n ≠ "minlon" ∧ n ≠ "minlat" ∧ n ≠ "maxlon" ∧ n ≠ "maxlat") := by
  tauto

theorem bndStep_comm (a b : Attr) (s : Location × Location) (h : a.1 ≠ b.1) :
    bndStep (bndStep s a) b = bndStep (bndStep s b) a := by
  obtain ⟨n1, v1⟩ := a
  obtain ⟨n2, v2⟩ := b
  simp only at h
  rcases bndName_cases n1 with rfl | rfl | rfl | rfl | ⟨a1, a2, a3, a4⟩ <;>
  rcases bndName_cases n2 with rfl | rfl | rfl | rfl | ⟨b1, b2, b3, b4⟩ <;>
  first
    | exact absurd rfl h
    | simp (config := { decide := true }) [bndStep, *]

theorem boundsAttrs_pick (ks : List Nat) (as : List Attr) (hnd : (as.map Prod.fst).Nodup) (hg : ∀ a ∈ as, bndGood a)
    (mn mx : Location) : boundsAttrs (OplFmt.OplSpec.pick ks as) mn mx = boundsAttrs as mn mx := by
  rw [boundsAttrs_foldl _ (fun a ha => hg a ((pick_mem ks as a).1 ha)), boundsAttrs_foldl _ hg,
    foldl_pick bndStep (fun a b s h => bndStep_comm a b s h) ks as hnd]

/-! ### the root element -/

def topStep (st : RSt) (p : Attr) : RSt :=
  if p.1 = "version" then { st with version := p.2 }
  else if p.1 = "generator" then { st with header := { st.header with generator := p.2 } }
  else st

def topGood (p : Attr) : Prop := if p.1 = "version" then p.2 = bVersion else True

theorem topAttrs_foldl : ∀ (as : List Attr) (_ : ∀ a ∈ as, topGood a) (st : RSt),
    topAttrs as st = .ok (as.foldl topStep st) := by
  intro as
  induction as with
  | nil => intro _ acc; rfl
  | cons a as ih =>
    intro hg acc
    obtain ⟨n, v⟩ := a
    have h0 := hg (n, v) (by simp)
    have ih' := ih (fun a ha => hg a (by simp [ha]))
    rcases Classical.em (n = "version") with rfl | h1
    · simp (config := { decide := true }) only [topGood, if_true] at h0
      subst h0
      simp (config := { decide := true }) [topAttrs, topStep, ih']
    rcases Classical.em (n = "generator") with rfl | h2
    · simp (config := { decide := true }) [topAttrs, topStep, ih']
    · simp only [topAttrs, List.foldl_cons, topStep, if_false, h1, h2, ih']

theorem topName_cases (n : String) : n = "version" ∨ n = "generator" ∨ (n ≠ "version" ∧ n ≠ "generator") := by
  tauto

theorem topStep_comm (a b : Attr) (s : RSt) (h : a.1 ≠ b.1) : topStep (topStep s a) b = topStep (topStep s b) a := by
  obtain ⟨n1, v1⟩ := a
  obtain ⟨n2, v2⟩ := b
  simp only at h
  rcases topName_cases n1 with rfl | rfl | ⟨a1, a2⟩ <;>
  rcases topName_cases n2 with rfl | rfl | ⟨b1, b2⟩ <;>
  first
    | exact absurd rfl h
    | simp (config := { decide := true }) [topStep, *]

theorem topAttrs_pick (ks : List Nat) (as : List Attr) (hnd : (as.map Prod.fst).Nodup) (hg : ∀ a ∈ as, topGood a)
    (st : RSt) : topAttrs (OplFmt.OplSpec.pick ks as) st = topAttrs as st := by
  rw [topAttrs_foldl _ (fun a ha => hg a ((pick_mem ks as a).1 ha)), topAttrs_foldl _ hg,
    foldl_pick topStep (fun a b s h => topStep_comm a b s h) ks as hnd]

/-! ### `get_tag` -/

theorem lastAttr_pick (name : String) (ks : List Nat) (as : List Attr) (hnd : (as.map Prod.fst).Nodup) (d : Bytes) :
    lastAttr name (OplFmt.OplSpec.pick ks as) d = lastAttr name as d := by
  unfold lastAttr
  refine foldl_pick (fun acc (a : Attr) => if a.1 = name then a.2 else acc) ?_ ks as hnd d
  intro a b s h
  by_cases h1 : a.1 = name <;> by_cases h2 : b.1 = name <;> simp [h1, h2]
  exact absurd (h1.trans h2.symm) h

theorem getTag_pick (c : Cur) (ks : List Nat) (as : List Attr) (hnd : (as.map Prod.fst).Nodup) :
    getTag c (OplFmt.OplSpec.pick ks as) = getTag c as := by
  unfold getTag
  simp only [lastAttr_pick _ ks as hnd]

end Osmium.XmlFmt.XmlSpec
