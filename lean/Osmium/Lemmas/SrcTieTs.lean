/-
`src_tie_*` lemmas for the timestamp parser (osm/timestamp.hpp): `detail::fractional_seconds(const char**)` as a whole
and the digit arithmetic of `detail::parse_timestamp(const char**)` (the right-hand sides of the assignments to the
`std::tm` fields; `std::tm` and `timegm` themselves are outside the translated subset), TRANSLATED by
tools/cxx2lean.py, against `Conv.fractionalSeconds` / the field formulas of `Conv.parseTimestamp`
(Osmium/Model/Conv.lean).  Array and cursor as in Lemmas/Cursor.lean; proof style as in Lemmas/SrcTieCoord.lean.
-/
import Osmium.Lemmas.SrcTieCoord

set_option Elab.async false
set_option linter.unusedSimpArgs false

namespace Osmium.SrcTie.Ts

open Osmium.Generated Osmium.CxxSem Osmium.Conv Osmium.Cursor Osmium.SrcTie.Coord
open Src.Timestamp

/-- a read at a constant offset from the cursor -/
theorem rdS_off (s t : List UInt8) (i : Nat) (kI : Int) (h0 : 0 ≤ kI) (h : i + kI.toNat ≤ s.length) :
    rdS (s ++ 0 :: t) ((i : Int) + kI) = sc (peek (s.drop (i + kI.toNat))) := by
  have e : (i : Int) + kI = ((i + kI.toNat : Nat) : Int) := by omega
  rw [e]; exact rdS_cbuf s t _ h

theorem inB_off (s t : List UInt8) (i : Nat) (kI : Int) (h0 : 0 ≤ kI) (h : i + kI.toNat ≤ s.length) :
    inB (s ++ 0 :: t) ((i : Int) + kI) = true := by
  have e : (i : Int) + kI = ((i + kI.toNat : Nat) : Int) := by omega
  rw [e]; exact inB_cbuf s t _ h

theorem sc_digit (c : UInt8) (h : isDigit c = true) : sc c = (digitVal c : Int) + 48 := by
  have := sc_cases c; have := (isDigit_iff c).mp h; have := digitVal_eq c h; omega

theorem digitVal_lt (c : UInt8) (h : isDigit c = true) : digitVal c < 10 := by
  have := (isDigit_iff c).mp h; unfold digitVal; omega

/-! ### `fractional_seconds` -/

/-- the `do { ++str; } while (digit)` loop: `dropWhile isDigit` -/
theorem src_tie_fractional_seconds_loop (s t : List UInt8) : ∀ (k i fuel : Nat) (iI : Int), iI = (i : Int) → i + k = s.length → k < fuel →
    ∃ j, i ≤ j ∧ j ≤ s.length ∧ (s.drop i).dropWhile isDigit = s.drop j ∧
      fractional_seconds.loop_1 fuel (s ++ 0 :: t) iI = .next (j : Int) ∧
      fractional_seconds.loop_1_defined fuel (s ++ 0 :: t) iI = true := by
  intro k
  induction k with
  | zero =>
    intro i fuel iI hiI hik hf
    subst hiI
    obtain ⟨f, rfl⟩ : ∃ f, fuel = f + 1 := ⟨fuel - 1, by omega⟩
    have hi : i ≤ s.length := by omega
    have hrd := rdS_cbuf s t i hi
    have hnil : s.drop i = [] := List.drop_eq_nil_of_le (by omega)
    rw [hnil, peek_nil] at hrd
    have hsc := sc_cases (0 : UInt8)
    simp only [zero_toNat] at hsc
    refine ⟨i, Nat.le_refl _, hi, by rw [hnil]; rfl, ?_, ?_⟩
    · unfold fractional_seconds.loop_1
      simp only [hrd]
      split_ok
      rfl
    · unfold fractional_seconds.loop_1_defined
      simp only [hrd, inB_cbuf s t i hi]
      split_ok
      all_goals simp only [Bool.true_and, Bool.and_true, Bool.or_true, Bool.true_or, Bool.and_self, Bool.not_true, Bool.not_false]
  | succ k ih =>
    intro i fuel iI hiI hik hf
    subst hiI
    obtain ⟨f, rfl⟩ : ∃ f, fuel = f + 1 := ⟨fuel - 1, by omega⟩
    have hi : i ≤ s.length := by omega
    have hrd := rdS_cbuf s t i hi
    have hin := inB_cbuf s t i hi
    have hp1 := ptrOk_cbuf s t (i + 1) (by omega)
    obtain ⟨c, u, hd⟩ : ∃ c u, s.drop i = c :: u := by
      cases h : s.drop i with
      | nil => have := List.drop_eq_nil_iff.mp h; omega
      | cons c u => exact ⟨c, u, rfl⟩
    obtain ⟨hlt, hu⟩ := drop_cons s i c u hd
    rw [hd, peek_cons] at hrd
    have hsc := sc_cases c
    by_cases hdig : isDigit c = true
    · have hdg := (isDigit_iff c).mp hdig
      have ih' := fun iI h1 => ih (i + 1) f iI h1 (by omega) (by omega)
      obtain ⟨j, hj1, hj2, hdw, -, -⟩ := ih' _ rfl
      refine ⟨j, by omega, hj2, by rw [hd, List.dropWhile_cons_of_pos hdig, ← hu]; exact hdw, ?_, ?_⟩
      · unfold fractional_seconds.loop_1
        simp only [hrd]
        split_ok
        obtain ⟨j', _, _, hdw', hv, -⟩ := ih' (↑i + 1) (idx_succ i)
        have : j' = j := by
          have h1 := congrArg List.length hdw'; have h2 := congrArg List.length hdw
          rw [List.length_drop] at h1 h2; omega
        subst this; exact hv
      · unfold fractional_seconds.loop_1_defined
        simp only [hrd, hin]
        split_ok
        all_goals defined_split
        all_goals first
          | exact (ih' _ (idx_succ i)).choose_spec.2.2.2.2
          | (rw [idx_succ]; exact hp1)
          | omega
    · have hdg := (isDigit_false_iff c).mp (by simpa using hdig)
      refine ⟨i, Nat.le_refl _, hi, by rw [hd, List.dropWhile_cons_of_neg hdig], ?_, ?_⟩
      · unfold fractional_seconds.loop_1
        simp only [hrd]
        split_ok
        rfl
      · unfold fractional_seconds.loop_1_defined
        simp only [hrd, hin]
        split_ok
        all_goals simp only [Bool.true_and, Bool.and_true, Bool.or_true, Bool.true_or, Bool.and_self, Bool.not_true, Bool.not_false]

/-- `fractional_seconds(const char** s)` (noexcept): for EVERY NUL-terminated byte string and start position the translated
    function returns the model's flag and leaves `*s` at the model's rest (unchanged when there are no fractional
    seconds), without undefined behaviour -/
theorem src_tie_fractional_seconds_main (s t : List UInt8) (i fuel : Nat) (hi : i ≤ s.length) (hf : s.length - i + 2 ≤ fuel) :
    ∃ j, i ≤ j ∧ j ≤ s.length ∧ (fractionalSeconds (s.drop i)).2 = s.drop j ∧
      fractional_seconds fuel (s ++ 0 :: t) i = .normal (j : Int) (fractionalSeconds (s.drop i)).1 ∧
      fractional_seconds_defined fuel (s ++ 0 :: t) i = true := by
  have hrd0 := rdS_cbuf s t i hi
  have hin0 := inB_cbuf s t i hi
  have hsc0 := sc_cases (peek (s.drop i))
  by_cases hsep : (peek (s.drop i)).toNat = 46 ∨ (peek (s.drop i)).toNat = 44
  · have hilt : i < s.length := lt_of_peek_ne_zero s i (by intro h; rw [h] at hsep; simp at hsep)
    have hrd1 := rdS_cbuf s t (i + 1) (by omega)
    have hin1 := inB_cbuf s t (i + 1) (by omega)
    have hp1 := ptrOk_cbuf s t (i + 1) (by omega)
    have hsc1 := sc_cases (peek (s.drop (i + 1)))
    have hc : (peek (s.drop i) != cDot && peek (s.drop i) != cComma) = false := by
      rcases hsep with h | h <;> simp [bne_char, cComma, h]
    by_cases hdig : isDigit (peek (s.drop (i + 1))) = true
    · have hdg := (isDigit_iff _).mp hdig
      have hilt1 : i + 1 < s.length := lt_of_peek_ne_zero s (i + 1) (by intro h; rw [h] at hdg; simp at hdg)
      have hp2 := ptrOk_cbuf s t (i + 2) (by omega)
      obtain ⟨j, hj1, hj2, hdw, hv, hdf⟩ := src_tie_fractional_seconds_loop s t (s.length - (i + 2)) (i + 2) fuel _ rfl (by omega) (by omega)
      have hrdj := rdS_cbuf s t j hj2
      have hinj := inB_cbuf s t j hj2
      have hscj := sc_cases (peek (s.drop j))
      have hv' : ∀ a : Int, a = ((i + 2 : Nat) : Int) → fractional_seconds.loop_1 fuel (s ++ 0 :: t) a = .next (j : Int) := by
        intro a h; subst h; exact hv
      have hdf' : ∀ a : Int, a = ((i + 2 : Nat) : Int) → fractional_seconds.loop_1_defined fuel (s ++ 0 :: t) a = true := by
        intro a h; subst h; exact hdf
      have hmod : fractionalSeconds (s.drop i) = (peek (s.drop j) == cZ, s.drop j) := by
        unfold fractionalSeconds
        have hd1 : s.drop (i + 1) = peek (s.drop (i + 1)) :: s.drop (i + 2) := by
          cases h : s.drop (i + 1) with
          | nil => have := List.drop_eq_nil_iff.mp h; omega
          | cons c u => rw [peek_cons, ← (drop_cons s (i + 1) c u h).2]
        simp only [hc, Bool.false_eq_true, if_false, tail_drop, hdig, Bool.not_true]
        rw [hd1, List.dropWhile_cons_of_pos hdig, hdw]
      rw [hmod]
      refine ⟨j, by omega, hj2, rfl, ?_, ?_⟩
      · unfold fractional_seconds
        simp only [hrd0]
        split_ok
        idx_norm; simp only [hrd1]
        split_ok
        idx_norm; simp (disch := omega) only [hv']
        simp only [Flow.seq_next, hrdj]
        refine congrArg (Outcome.normal (j : Int)) ?_
        rw [beq_char, Bool.eq_iff_iff]
        simp only [eq_iff, decide_eq_true_eq]
        have : cZ.toNat = 90 := rfl
        omega
      · unfold fractional_seconds_defined
        simp only [hrd0, hin0]
        split_ok
        all_goals (idx_norm; simp only [hrd1, hin1, hp1])
        all_goals split_ok
        all_goals (idx_norm; simp (disch := omega) only [hv', hdf', hp2])
        all_goals simp only [Flow.andThen_next, hinj, Bool.true_and, Bool.and_true, Bool.or_true, Bool.true_or, Bool.and_self, Bool.not_true, Bool.not_false]
    · have hdg := (isDigit_false_iff _).mp (by simpa using hdig)
      have hmod : fractionalSeconds (s.drop i) = (false, s.drop i) := by
        unfold fractionalSeconds
        simp only [hc, Bool.false_eq_true, if_false, tail_drop, hdig, Bool.not_false, if_true]
      rw [hmod]
      refine ⟨i, Nat.le_refl _, hi, rfl, ?_, ?_⟩
      · unfold fractional_seconds
        simp only [hrd0]
        split_ok
        idx_norm; simp only [hrd1]
        split_ok
        rfl
      · unfold fractional_seconds_defined
        simp only [hrd0, hin0]
        split_ok
        all_goals (idx_norm; simp only [hrd1, hin1, hp1])
        all_goals split_ok
        all_goals simp only [Bool.true_and, Bool.and_true, Bool.or_true, Bool.true_or, Bool.and_self, Bool.not_true, Bool.not_false]
  · have hc : (peek (s.drop i) != cDot && peek (s.drop i) != cComma) = true := by
      have h1 : ¬ (peek (s.drop i)).toNat = 46 := by omega
      have h2 : ¬ (peek (s.drop i)).toNat = 44 := by omega
      simp [bne_char, cComma, h1, h2]
    have hmod : fractionalSeconds (s.drop i) = (false, s.drop i) := by
      unfold fractionalSeconds
      simp only [hc, if_true]
    rw [hmod]
    refine ⟨i, Nat.le_refl _, hi, rfl, ?_, ?_⟩
    · unfold fractional_seconds
      simp only [hrd0]
      split_ok
      rfl
    · unfold fractional_seconds_defined
      simp only [hrd0, hin0]
      split_ok
      all_goals simp only [Bool.true_and, Bool.and_true, Bool.or_true, Bool.true_or, Bool.and_self, Bool.not_true, Bool.not_false]

/-! ### the digit arithmetic of `parse_timestamp` -/

/-- the character `k` positions behind the cursor -/
def chr (s : List UInt8) (i k : Nat) : UInt8 := peek (s.drop (i + k))

theorem chr_def (s : List UInt8) (i k : Nat) : peek (s.drop (i + k)) = chr s i k := rfl

/-- evaluates one translated field formula: reads → `sc (chr …)` → `digitVal` -/
macro "ts_field" s:ident t:ident i:ident hlen:ident : tactic => `(tactic| (
  simp (disch := omega) only [rdS_off $s $t $i, inB_off $s $t $i, Int.reduceToNat]
  simp only [chr_def]))

/-- The right-hand sides of `tm.tm_year = …`, `tm.tm_mon = …`, …, `tm.tm_sec = …` in `parse_timestamp`, for a cursor with
    at least 19 characters in front of the NUL whose date / time positions hold digits (what the 37 leading conjuncts
    of the big condition establish): the translated expressions are the model's `year - 1900`, `mon - 1`, `mday`,
    `hour`, `min`, `sec` (Model/Conv.lean `parseTimestamp`), and evaluating them has no undefined behaviour. -/
theorem src_tie_parse_timestamp_fields (s t : List UInt8) (i : Nat) (hlen : i + 19 ≤ s.length)
    (hd : ∀ k, k ∈ [0, 1, 2, 3, 5, 6, 8, 9, 11, 12, 14, 15, 17, 18] → isDigit (chr s i k) = true) :
    let dv := fun k => (digitVal (chr s i k) : Int)
    parse_timestamp_year (s ++ 0 :: t) i = dv 0 * 1000 + dv 1 * 100 + dv 2 * 10 + dv 3 - 1900 ∧
    parse_timestamp_mon (s ++ 0 :: t) i = dv 5 * 10 + dv 6 - 1 ∧
    parse_timestamp_mday (s ++ 0 :: t) i = dv 8 * 10 + dv 9 ∧
    parse_timestamp_hour (s ++ 0 :: t) i = dv 11 * 10 + dv 12 ∧
    parse_timestamp_min (s ++ 0 :: t) i = dv 14 * 10 + dv 15 ∧
    parse_timestamp_sec (s ++ 0 :: t) i = dv 17 * 10 + dv 18 ∧
    parse_timestamp_year_defined (s ++ 0 :: t) i = true ∧ parse_timestamp_mon_defined (s ++ 0 :: t) i = true ∧
    parse_timestamp_mday_defined (s ++ 0 :: t) i = true ∧ parse_timestamp_hour_defined (s ++ 0 :: t) i = true ∧
    parse_timestamp_min_defined (s ++ 0 :: t) i = true ∧ parse_timestamp_sec_defined (s ++ 0 :: t) i = true := by
  intro dv
  have e : ∀ k, k ∈ [0, 1, 2, 3, 5, 6, 8, 9, 11, 12, 14, 15, 17, 18] → sc (chr s i k) = dv k + 48 ∧ 0 ≤ dv k ∧ dv k < 10 := by
    intro k hk
    have h1 := sc_digit _ (hd k hk); have h2 := digitVal_lt _ (hd k hk)
    exact ⟨h1, by simp only [dv]; omega, by simp only [dv]; omega⟩
  have e0 := e 0 (by simp); have e1 := e 1 (by simp); have e2 := e 2 (by simp); have e3 := e 3 (by simp)
  have e5 := e 5 (by simp); have e6 := e 6 (by simp); have e8 := e 8 (by simp); have e9 := e 9 (by simp)
  have e11 := e 11 (by simp); have e12 := e 12 (by simp); have e14 := e 14 (by simp); have e15 := e 15 (by simp)
  have e17 := e 17 (by simp); have e18 := e 18 (by simp)
  clear e
  refine ⟨?_, ?_, ?_, ?_, ?_, ?_, ?_, ?_, ?_, ?_, ?_, ?_⟩
  · unfold parse_timestamp_year; ts_field s t i hlen; omega
  · unfold parse_timestamp_mon; ts_field s t i hlen; omega
  · unfold parse_timestamp_mday; ts_field s t i hlen; omega
  · unfold parse_timestamp_hour; ts_field s t i hlen; omega
  · unfold parse_timestamp_min; ts_field s t i hlen; omega
  · unfold parse_timestamp_sec; ts_field s t i hlen; omega
  · unfold parse_timestamp_year_defined; ts_field s t i hlen; defined_split; all_goals omega
  · unfold parse_timestamp_mon_defined; ts_field s t i hlen; defined_split; all_goals omega
  · unfold parse_timestamp_mday_defined; ts_field s t i hlen; defined_split; all_goals omega
  · unfold parse_timestamp_hour_defined; ts_field s t i hlen; defined_split; all_goals omega
  · unfold parse_timestamp_min_defined; ts_field s t i hlen; defined_split; all_goals omega
  · unfold parse_timestamp_sec_defined; ts_field s t i hlen; defined_split; all_goals omega

end Osmium.SrcTie.Ts
