/-
Helper lemmas and specification machine for the id-set part of C15.
(The C15 property theorems in Osmium/Props/C15.lean are thin wrappers around the results
proved here.)
-/
import Osmium.Model.IdSet

namespace Osmium.IdSet


/-! ### sparse arrays -/
theorem aget_aset_same {α : Type} (d : α) (k : Nat) (v : α) (l : List (Nat × α)) :
    aget d k (aset k v l) = v := by
  induction l with
  | nil => simp [aset, aget]
  | cons p r ih =>
    obtain ⟨k', v'⟩ := p
    by_cases h : k' = k <;> simp [aset, aget, h, ih]

theorem aget_aset_ne {α : Type} (d : α) (k k' : Nat) (v : α) (l : List (Nat × α)) (hne : k ≠ k') :
    aget d k' (aset k v l) = aget d k' l := by
  induction l with
  | nil => simp [aset, aget, hne]
  | cons p r ih =>
    obtain ⟨k2, v2⟩ := p
    by_cases h : k2 = k
    · subst h; simp [aset, aget, hne]
    · by_cases h2 : k2 = k'
      · subst h2; simp [aset, aget, h]
      · simp [aset, aget, h, h2, ih]

theorem aget_aset {α : Type} (d : α) (k k' : Nat) (v : α) (l : List (Nat × α)) :
    aget d k' (aset k v l) = if k' = k then v else aget d k' l := by
  by_cases h : k' = k
  · subst h; simp [aget_aset_same]
  · simp [h, aget_aset_ne d k k' v l (fun e => h e.symm)]

/-! ### arithmetic of chunk id / offset / bit -/
theorem chunkId_eq (cb id : Nat) : chunkId cb id = id / 8 / 2 ^ cb := by
  unfold chunkId
  rw [Nat.shiftRight_eq_div_pow, Nat.div_div_eq_div_mul, Nat.pow_add, Nat.mul_comm]

theorem chunkId_eq' (cb id : Nat) : chunkId cb id = id / 2 ^ (cb + 3) := by
  unfold chunkId
  rw [Nat.shiftRight_eq_div_pow]

theorem offset_eq (cb id : Nat) : offset cb id = id / 8 % 2 ^ cb := by
  unfold offset
  rw [Nat.one_shiftLeft, Nat.and_two_pow_sub_one_eq_mod, Nat.shiftRight_eq_div_pow]

theorem and7 (id : Nat) : id &&& 7 = id % 8 := Nat.and_two_pow_sub_one_eq_mod id 3

theorem id_determined (cb x id : Nat) (h1 : chunkId cb x = chunkId cb id)
    (h2 : offset cb x = offset cb id) (h3 : x % 8 = id % 8) : x = id := by
  rw [chunkId_eq, chunkId_eq] at h1
  rw [offset_eq, offset_eq] at h2
  have hx := Nat.div_add_mod (x / 8) (2 ^ cb)
  have hi := Nat.div_add_mod (id / 8) (2 ^ cb)
  rw [h1, h2] at hx
  have : x / 8 = id / 8 := by omega
  omega

/-! ### bytes and bits -/

theorem bit_test : ∀ i : Fin 8, ∀ e : BitVec 8, (e &&& 1#8 <<< i.val != 0#8) = e.getLsbD i.val := by
  decide +kernel
theorem bm_bit : ∀ i j : Fin 8, (1#8 <<< i.val).getLsbD j.val = decide (i = j) := by decide

theorem bitmask_test (e : BitVec 8) (id : Nat) : (e &&& bitmask id != 0#8) = e.getLsbD (id % 8) := by
  unfold bitmask; rw [and7]; exact bit_test ⟨id % 8, Nat.mod_lt _ (by omega)⟩ e

theorem bitmask_bit (id x : Nat) : (bitmask id).getLsbD (x % 8) = decide (x % 8 = id % 8) := by
  unfold bitmask; rw [and7]
  have := bm_bit ⟨id % 8, Nat.mod_lt _ (by omega)⟩ ⟨x % 8, Nat.mod_lt _ (by omega)⟩
  simp only [Fin.mk.injEq] at this
  rw [this]
  by_cases h : x % 8 = id % 8 <;> simp [h] <;> omega

/-- the byte `m_data[cid][off]`, reading null chunks as zero -/
def byteAt (s : Dense) (cid off : Nat) : BitVec 8 :=
  match chunkAt s cid with
  | none => 0#8
  | some c => aget 0#8 off c

/-- no chunk is allocated beyond `m_data.size()` -/
def WF (s : Dense) : Prop := ∀ c, s.nchunks ≤ c → chunkAt s c = none

theorem wf_empty : WF {} := by intro c _; rfl

theorem byteAt_of_ge {s : Dense} (hwf : WF s) {c : Nat} (h : s.nchunks ≤ c) (o : Nat) :
    byteAt s c o = 0#8 := by
  unfold byteAt; rw [hwf c h]

theorem get_eq (cb : Nat) (s : Dense) (id : Nat) :
    get cb s id = (decide (chunkId cb id < s.nchunks) &&
      (byteAt s (chunkId cb id) (offset cb id)).getLsbD (id % 8)) := by
  unfold get byteAt
  by_cases h : chunkId cb id ≥ s.nchunks
  · have : ¬ chunkId cb id < s.nchunks := by omega
    simp [h, this]
  · have h' : chunkId cb id < s.nchunks := by omega
    simp only [h, if_false, h', decide_true, Bool.true_and]
    cases chunkAt s (chunkId cb id) with
    | none => simp
    | some c => simp only [bitmask_test]

theorem get_eq_wf (cb : Nat) {s : Dense} (hwf : WF s) (id : Nat) :
    get cb s id = (byteAt s (chunkId cb id) (offset cb id)).getLsbD (id % 8) := by
  rw [get_eq]
  by_cases h : chunkId cb id < s.nchunks
  · simp [h]
  · rw [byteAt_of_ge hwf (by omega)]; simp [h]

theorem getElement_spec (cb : Nat) (s : Dense) (id : Nat) :
    (getElement cb s id).1.nchunks = max s.nchunks (chunkId cb id + 1) ∧
    (getElement cb s id).1.size = s.size ∧
    (∀ k, chunkAt (getElement cb s id).1 k =
      if k = chunkId cb id then some (getElement cb s id).2 else chunkAt s k) ∧
    (∀ o, aget 0#8 o (getElement cb s id).2 = byteAt s (chunkId cb id) o) := by
  cases h : chunkAt s (chunkId cb id) with
  | none =>
    have e : getElement cb s id = ({ s with
        nchunks := if chunkId cb id ≥ s.nchunks then chunkId cb id + 1 else s.nchunks,
        chunks := aset (chunkId cb id) (some []) s.chunks }, []) := by
      simp only [getElement, h]
    rw [e]
    refine ⟨?_, rfl, ?_, ?_⟩
    · simp only []; split <;> omega
    · intro k; simp only [chunkAt, aget_aset]
    · intro o; simp only [byteAt, h]; rfl
  | some c =>
    have e : getElement cb s id = ({ s with
        nchunks := if chunkId cb id ≥ s.nchunks then chunkId cb id + 1 else s.nchunks }, c) := by
      simp only [getElement, h]
    rw [e]
    refine ⟨?_, rfl, ?_, ?_⟩
    · simp only []; split <;> omega
    · intro k; simp only [chunkAt]; split
      · next hk => subst hk; exact h
      · rfl
    · intro o; simp only [byteAt, h]

/-- `get_element(id) = e` -/
def store (cb : Nat) (s : Dense) (id : Nat) (e : BitVec 8) : Dense :=
  putElement cb (getElement cb s id).1 id (getElement cb s id).2 e

theorem store_spec (cb : Nat) (s : Dense) (id : Nat) (e : BitVec 8) :
    (store cb s id e).nchunks = max s.nchunks (chunkId cb id + 1) ∧
    (store cb s id e).size = s.size ∧
    (∀ k, chunkAt (store cb s id e) k = none ↔ (k ≠ chunkId cb id ∧ chunkAt s k = none)) ∧
    (∀ k o, byteAt (store cb s id e) k o =
      if k = chunkId cb id ∧ o = offset cb id then e else byteAt s k o) := by
  obtain ⟨h1, h2, h3, h4⟩ := getElement_spec cb s id
  have hc : ∀ k, chunkAt (store cb s id e) k =
      if k = chunkId cb id then some (aset (offset cb id) e (getElement cb s id).2)
      else chunkAt s k := by
    intro k
    have := h3 k
    simp only [store, putElement, chunkAt, aget_aset] at this ⊢
    split
    · rfl
    · next hk => simpa [hk] using this
  refine ⟨h1, h2, ?_, ?_⟩
  · intro k; rw [hc]; split <;> simp [*]
  · intro k o
    unfold byteAt; rw [hc]
    by_cases hk : k = chunkId cb id
    · subst hk
      simp only [if_true, aget_aset, true_and]
      split
      · rfl
      · rw [h4]; rfl
    · simp [hk]

theorem getElement_byteAt (cb : Nat) (s : Dense) (id k o : Nat) :
    byteAt (getElement cb s id).1 k o = byteAt s k o := by
  obtain ⟨_, _, h3, h4⟩ := getElement_spec cb s id
  unfold byteAt; rw [h3]
  by_cases hk : k = chunkId cb id
  · subst hk; simp only [if_true]; rw [h4]; rfl
  · simp [hk]

theorem getElement_wf {cb : Nat} {s : Dense} (id : Nat) (hwf : WF s) : WF (getElement cb s id).1 := by
  obtain ⟨h1, _, h3, _⟩ := getElement_spec cb s id
  intro c hc
  rw [h1] at hc
  rw [h3]
  have : c ≠ chunkId cb id := by omega
  simp only [this, if_false]
  exact hwf c (by omega)

theorem store_wf {cb : Nat} {s : Dense} (id : Nat) (e : BitVec 8) (hwf : WF s) :
    WF (store cb s id e) := by
  obtain ⟨h1, _, h3, _⟩ := store_spec cb s id e
  intro c hc
  rw [h1] at hc
  rw [h3]
  exact ⟨by omega, hwf c (by omega)⟩

theorem get_getElement {cb : Nat} {s : Dense} (hwf : WF s) (id x : Nat) :
    get cb (getElement cb s id).1 x = get cb s x := by
  rw [get_eq_wf cb (getElement_wf id hwf), get_eq_wf cb hwf, getElement_byteAt]

theorem get_store {cb : Nat} {s : Dense} (hwf : WF s) (id : Nat) (e : BitVec 8) (x : Nat) :
    get cb (store cb s id e) x =
      if chunkId cb x = chunkId cb id ∧ offset cb x = offset cb id then e.getLsbD (x % 8)
      else get cb s x := by
  rw [get_eq_wf cb (store_wf id e hwf), get_eq_wf cb hwf, (store_spec cb s id e).2.2.2]
  split <;> rfl


theorem checkAndSet_eq (w cb : Nat) (s : Dense) (id : Nat) :
    checkAndSet w cb s id =
      if (byteAt s (chunkId cb id) (offset cb id)).getLsbD (id % 8) = false then
        ({ store cb s id (byteAt s (chunkId cb id) (offset cb id) ||| bitmask id) with
            size := (s.size + 1) % 2 ^ w }, true)
      else ((getElement cb s id).1, false) := by
  obtain ⟨_, h2, _, h4⟩ := getElement_spec cb s id
  have h4 := h4 (offset cb id)
  have hb := bitmask_test (byteAt s (chunkId cb id) (offset cb id)) id
  unfold checkAndSet store
  rcases hg : getElement cb s id with ⟨s1, c⟩
  rw [hg] at h2 h4
  simp only [] at h2 h4 ⊢
  rw [h4]
  cases hbit : (byteAt s (chunkId cb id) (offset cb id)).getLsbD (id % 8)
  · rw [hbit] at hb
    have : (byteAt s (chunkId cb id) (offset cb id) &&& bitmask id) = 0#8 := by simpa using hb
    simp [this, putElement, h2]
  · rw [hbit] at hb
    have : (byteAt s (chunkId cb id) (offset cb id) &&& bitmask id) ≠ 0#8 := by simpa using hb
    simp [this]

theorem unset_eq (w cb : Nat) (s : Dense) (id : Nat) :
    unset w cb s id =
      if (byteAt s (chunkId cb id) (offset cb id)).getLsbD (id % 8) = true then
        { store cb s id (byteAt s (chunkId cb id) (offset cb id) &&& ~~~ bitmask id) with
            size := (s.size + 2 ^ w - 1) % 2 ^ w }
      else (getElement cb s id).1 := by
  obtain ⟨_, h2, _, h4⟩ := getElement_spec cb s id
  have h4 := h4 (offset cb id)
  have hb := bitmask_test (byteAt s (chunkId cb id) (offset cb id)) id
  unfold unset store
  rcases hg : getElement cb s id with ⟨s1, c⟩
  rw [hg] at h2 h4
  simp only [] at h2 h4 ⊢
  rw [h4, hb]
  cases hbit : (byteAt s (chunkId cb id) (offset cb id)).getLsbD (id % 8)
  · simp
  · simp [putElement, h2]


theorem get_size_irrel (cb : Nat) (s : Dense) (n x : Nat) :
    get cb { s with size := n } x = get cb s x := rfl

theorem wf_size_irrel {s : Dense} (n : Nat) (h : WF s) : WF { s with size := n } := h

theorem same_byte_iff (cb x id : Nat)
    (h : chunkId cb x = chunkId cb id ∧ offset cb x = offset cb id) :
    x % 8 = id % 8 ↔ x = id :=
  ⟨fun h3 => id_determined cb x id h.1 h.2 h3, fun e => by rw [e]⟩

theorem checkAndSet_spec (w cb : Nat) {s : Dense} (hwf : WF s) (id : Nat) :
    WF (checkAndSet w cb s id).1 ∧
    (checkAndSet w cb s id).2 = (!get cb s id) ∧
    (∀ x, get cb (checkAndSet w cb s id).1 x = (decide (x = id) || get cb s x)) ∧
    (checkAndSet w cb s id).1.size = (if get cb s id then s.size else (s.size + 1) % 2 ^ w) ∧
    (checkAndSet w cb s id).1.nchunks = max s.nchunks (chunkId cb id + 1) := by
  rw [checkAndSet_eq, get_eq_wf cb hwf id]
  cases hbit : (byteAt s (chunkId cb id) (offset cb id)).getLsbD (id % 8)
  · simp only [if_true, Bool.not_false, Bool.false_eq_true, if_false]
    refine ⟨wf_size_irrel _ (store_wf id _ hwf), trivial, ?_, trivial, (store_spec cb s id _).1⟩
    intro x
    rw [get_size_irrel, get_store hwf]
    split
    · next hsb =>
      rw [BitVec.getLsbD_or, bitmask_bit, get_eq_wf cb hwf x, hsb.1, hsb.2, Bool.or_comm]
      congr 1
      exact decide_eq_decide.mpr (same_byte_iff cb x id hsb)
    · next hsb =>
      have : x ≠ id := by intro e; subst e; exact hsb ⟨rfl, rfl⟩
      simp [this]
  · simp only [Bool.true_eq_false, if_false, Bool.not_true, if_true]
    refine ⟨getElement_wf id hwf, trivial, ?_, (getElement_spec cb s id).2.1,
      (getElement_spec cb s id).1⟩
    intro x
    rw [get_getElement hwf]
    by_cases hx : x = id
    · subst hx; rw [get_eq_wf cb hwf x, hbit]; simp
    · simp [hx]

theorem unset_spec (w cb : Nat) {s : Dense} (hwf : WF s) (id : Nat) :
    WF (unset w cb s id) ∧
    (∀ x, get cb (unset w cb s id) x = (decide (x ≠ id) && get cb s x)) ∧
    (unset w cb s id).size = (if get cb s id then (s.size + 2 ^ w - 1) % 2 ^ w else s.size) ∧
    (unset w cb s id).nchunks = max s.nchunks (chunkId cb id + 1) := by
  rw [unset_eq, get_eq_wf cb hwf id]
  cases hbit : (byteAt s (chunkId cb id) (offset cb id)).getLsbD (id % 8)
  · simp only [Bool.false_eq_true, if_false]
    refine ⟨getElement_wf id hwf, ?_, (getElement_spec cb s id).2.1,
      (getElement_spec cb s id).1⟩
    intro x
    rw [get_getElement hwf]
    by_cases hx : x = id
    · subst hx; rw [get_eq_wf cb hwf x, hbit]; simp
    · simp [hx]
  · simp only [if_true]
    refine ⟨wf_size_irrel _ (store_wf id _ hwf), ?_, trivial, (store_spec cb s id _).1⟩
    intro x
    rw [get_size_irrel, get_store hwf]
    split
    · next hsb =>
      have h8 : x % 8 < 8 := Nat.mod_lt _ (by omega)
      rw [BitVec.getLsbD_and, BitVec.getLsbD_not, bitmask_bit, get_eq_wf cb hwf x, hsb.1, hsb.2,
        Bool.and_comm]
      congr 1
      simp only [h8, decide_true, Bool.true_and]
      rw [← decide_not]
      exact decide_eq_decide.mpr (not_congr (same_byte_iff cb x id hsb))
    · next hsb =>
      have : x ≠ id := by intro e; subst e; exact hsb ⟨rfl, rfl⟩
      simp [this]


/-! ### the mathematical model: a finite set of ids, as a duplicate-free list -/

abbrev Spec := List Nat

/-- one call on the mathematical set; `size` is reported in the arithmetic of `T` -/
def specStep (w : Nat) (t : Spec) : Op → Spec × Out
  | .set id => (if id ∈ t then t else id :: t, .unit)
  | .unset id => (t.filter (· ≠ id), .unit)
  | .checkAndSet id => (if id ∈ t then t else id :: t, .bool (decide (id ∉ t)))
  | .get id => (t, .bool (decide (id ∈ t)))
  | .size => (t, .nat (t.length % 2 ^ w))
  | .empty => (t, .bool (t.length % 2 ^ w == 0))
  | .clear => ([], .unit)
  | .copy => (t, .unit)

def specRun (w : Nat) : Spec → List Op → Spec × List Out
  | t, [] => (t, [])
  | t, op :: ops =>
    let (t1, o) := specStep w t op
    let (t2, os) := specRun w t1 ops
    (t2, o :: os)

/-- the iterator delivers exactly the elements, ascending, each once -/
def IterExact (w cb : Nat) (s : Dense) : Prop :=
  ∃ l, toList w cb s = some l ∧ l.Pairwise (· < ·) ∧ ∀ id, id ∈ l ↔ (id < 2 ^ w ∧ get cb s id = true)

/-! ### simulation -/

/-- simulation relation between an `IdSetDense` state and the mathematical set -/
def Sim (w cb : Nat) (s : Dense) (t : List Nat) : Prop :=
  WF s ∧ (∀ id, get cb s id = decide (id ∈ t)) ∧ t.Nodup ∧ (∀ id ∈ t, id < 2 ^ w) ∧
    s.size = t.length % 2 ^ w

theorem sim_empty (w cb : Nat) : Sim w cb {} [] := by
  refine ⟨wf_empty, ?_, List.nodup_nil, ?_, ?_⟩
  · intro id; simp [get]
  · intro id h; cases h
  · simp

theorem filter_ne_self {t : List Nat} {id : Nat} (hm : id ∉ t) :
    t.filter (fun x => decide (x ≠ id)) = t := by
  rw [List.filter_eq_self]
  intro x hx
  have : x ≠ id := by intro e; subst e; exact hm hx
  simp [this]

theorem length_filter_ne {t : List Nat} (hn : t.Nodup) {id : Nat} (hm : id ∈ t) :
    (t.filter (fun x => decide (x ≠ id))).length + 1 = t.length := by
  induction t with
  | nil => cases hm
  | cons a r ih =>
    rw [List.nodup_cons] at hn
    by_cases ha : a = id
    · subst ha
      rw [List.filter_cons]
      simp only [ne_eq, not_true_eq_false, decide_false, Bool.false_eq_true, if_false]
      rw [filter_ne_self hn.1]; rfl
    · have hm' : id ∈ r := by
        rcases List.mem_cons.mp hm with e | h
        · exact absurd e.symm ha
        · exact h
      rw [List.filter_cons]
      simp only [ne_eq, ha, not_false_eq_true, decide_true, if_true, List.length_cons]
      rw [ih hn.2 hm']

theorem pred_mod (a M : Nat) (hM : 0 < M) : ((a + 1) % M + M - 1) % M = a % M := by
  have : (a + 1) % M + M - 1 = (a + 1) % M + (M - 1) := by omega
  rw [this, Nat.mod_add_mod]
  have : a + 1 + (M - 1) = a + M := by omega
  rw [this, Nat.add_mod_right]

theorem sim_step (w cb : Nat) {s : Dense} {t : List Nat} (hs : Sim w cb s t) (op : Op)
    (hop : op.inRange w) :
    Sim w cb (step w cb s op).1 (specStep w t op).1 ∧ (step w cb s op).2 = (specStep w t op).2 := by
  obtain ⟨hwf, hget, hnd, hrng, hsz⟩ := hs
  have hcas : ∀ id, id < 2 ^ w →
      Sim w cb (checkAndSet w cb s id).1 (if id ∈ t then t else id :: t) := by
    intro id hid
    obtain ⟨h1, _, h3, h4, _⟩ := checkAndSet_spec w cb hwf id
    rw [hget id] at h4
    by_cases hm : id ∈ t
    · simp only [hm, if_true, decide_true] at h4 ⊢
      refine ⟨h1, ?_, hnd, hrng, h4.trans hsz⟩
      intro x; rw [h3, hget]
      by_cases hx : x = id
      · subst hx; simp [hm]
      · simp [hx]
    · simp only [hm, if_false, decide_false, Bool.false_eq_true] at h4 ⊢
      refine ⟨h1, ?_, List.nodup_cons.mpr ⟨hm, hnd⟩, ?_, ?_⟩
      · intro x; rw [h3, hget]; simp
      · intro x hx
        rcases List.mem_cons.mp hx with e | h
        · rw [e]; exact hid
        · exact hrng x h
      · rw [h4, hsz, List.length_cons, Nat.mod_add_mod]
  cases op with
  | set id => exact ⟨hcas id hop, rfl⟩
  | checkAndSet id =>
    refine ⟨hcas id hop, ?_⟩
    simp only [step, specStep, (checkAndSet_spec w cb hwf id).2.1, hget]
    by_cases hm : id ∈ t <;> simp [hm]
  | unset id =>
    refine ⟨?_, rfl⟩
    simp only [step, specStep]
    obtain ⟨h1, h3, h4, _⟩ := unset_spec w cb hwf id
    rw [hget id] at h4
    refine ⟨h1, ?_, hnd.filter _, ?_, ?_⟩
    · intro x; rw [h3, hget]; simp [List.mem_filter, and_comm]
    · intro x hx; exact hrng x (List.mem_filter.mp hx).1
    · by_cases hm : id ∈ t
      · simp only [hm, decide_true, if_true] at h4
        have hl := length_filter_ne hnd hm
        rw [h4, hsz, ← hl]
        exact pred_mod _ _ (Nat.pow_pos (by omega))
      · simp only [hm, decide_false, Bool.false_eq_true, if_false] at h4
        rw [filter_ne_self hm, h4, hsz]
  | get id => exact ⟨⟨hwf, hget, hnd, hrng, hsz⟩, by simp [step, specStep, hget]⟩
  | size => exact ⟨⟨hwf, hget, hnd, hrng, hsz⟩, by simp [step, specStep, hsz]⟩
  | empty => exact ⟨⟨hwf, hget, hnd, hrng, hsz⟩, by simp [step, specStep, empty, hsz]⟩
  | clear => exact ⟨sim_empty w cb, rfl⟩
  | copy => exact ⟨⟨hwf, hget, hnd, hrng, hsz⟩, rfl⟩

theorem sim_run (w cb : Nat) (ops : List Op) : ∀ {s : Dense} {t : List Nat}, Sim w cb s t →
    (∀ op ∈ ops, op.inRange w) →
    Sim w cb (run w cb s ops).1 (specRun w t ops).1 ∧ (run w cb s ops).2 = (specRun w t ops).2 := by
  induction ops with
  | nil => intro s t hs _; exact ⟨hs, rfl⟩
  | cons op ops ih =>
    intro s t hs h
    obtain ⟨h1, h2⟩ := sim_step w cb hs op (h op (List.mem_cons_self ..))
    obtain ⟨h3, h4⟩ := ih h1 (fun o ho => h o (List.mem_cons_of_mem _ ho))
    simp only [run, specRun]
    exact ⟨h3, by rw [h2, h4]⟩

/-! ### iterator -/

theorem le_posBits (w : Nat) : w ≤ posBits w := by
  unfold posBits; split <;> omega

theorem pow_cb3 (cb : Nat) : 2 ^ (cb + 3) = 8 * 2 ^ cb := by
  rw [Nat.pow_add, Nat.mul_comm]

theorem get_false_of_ge (cb : Nat) (s : Dense) (x : Nat) (h : s.nchunks * 2 ^ (cb + 3) ≤ x) :
    get cb s x = false := by
  have : ¬ chunkId cb x < s.nchunks := by
    rw [chunkId_eq', Nat.div_lt_iff_lt_mul (Nat.pow_pos (by omega))]; omega
  rw [get_eq]; simp [this]

theorem get_false_of_null (cb : Nat) (s : Dense) (x : Nat) (h : chunkAt s (chunkId cb x) = none) :
    get cb s x = false := by
  rw [get_eq]; simp [byteAt, h]

theorem get_false_of_zero (cb : Nat) (s : Dense) (x : Nat)
    (h : byteAt s (chunkId cb x) (offset cb x) = 0#8) : get cb s x = false := by
  rw [get_eq, h]; simp

theorem next_spec (M cb : Nat) (s : Dense) (lst : Nat) (hl : lst = s.nchunks * 2 ^ (cb + 3))
    (hlt : lst < M) (m : Nat) (hm : M = 8 * m) :
    ∀ fuel v, v ≤ lst → lst - v + 1 ≤ fuel →
      ∃ v', next M cb s lst fuel v = some v' ∧ v ≤ v' ∧ v' ≤ lst ∧
        (∀ x, v ≤ x → x < v' → get cb s x = false) ∧ (v' = lst ∨ get cb s v' = true) := by
  have hP : 0 < 2 ^ (cb + 3) := Nat.pow_pos (by omega)
  have hl8 : lst = 8 * (s.nchunks * 2 ^ cb) := by
    rw [hl, pow_cb3, Nat.mul_left_comm]
  intro fuel
  induction fuel with
  | zero => intro v _ hf; omega
  | succ fuel ih =>
    intro v hv hf
    unfold next
    by_cases h1 : v = lst
    · exact ⟨v, by simp [h1], Nat.le_refl _, hv, fun x a b => by omega, Or.inl h1⟩
    by_cases h2 : get cb s v = true
    · exact ⟨v, by simp [h1, h2], Nat.le_refl _, hv, fun x a b => by omega, Or.inr h2⟩
    have hvl : v < lst := by omega
    have hcid : chunkId cb v < s.nchunks := by
      rw [chunkId_eq', Nat.div_lt_iff_lt_mul hP]; omega
    have hcid' : ¬ chunkId cb v ≥ s.nchunks := by omega
    simp only [h1, h2, hcid', if_false, Bool.false_eq_true]
    -- common continuation
    have cont : ∀ v1, v < v1 → v1 ≤ lst → (∀ x, v ≤ x → x < v1 → get cb s x = false) →
        ∃ v', next M cb s lst fuel v1 = some v' ∧ v ≤ v' ∧ v' ≤ lst ∧
        (∀ x, v ≤ x → x < v' → get cb s x = false) ∧ (v' = lst ∨ get cb s v' = true) := by
      intro v1 hlt1 hle1 hskip
      obtain ⟨v', e, a, b, c, d⟩ := ih v1 hle1 (by omega)
      refine ⟨v', e, by omega, b, ?_, d⟩
      intro x hx1 hx2
      by_cases hx : x < v1
      · exact hskip x hx1 hx
      · exact c x (by omega) hx2
    cases hc : chunkAt s (chunkId cb v) with
    | none =>
      simp only []
      have hdm := Nat.div_add_mod v (2 ^ (cb + 3))
      have hml := Nat.mod_lt v hP
      have hsm : (chunkId cb v + 1) * 2 ^ (cb + 3) = 2 ^ (cb + 3) * (v / 2 ^ (cb + 3)) + 2 ^ (cb + 3) := by
        rw [chunkId_eq', Nat.add_mul, Nat.mul_comm]; simp
      have hle : (chunkId cb v + 1) * 2 ^ (cb + 3) ≤ lst := by
        rw [hl]; exact Nat.mul_le_mul_right _ hcid
      rw [Nat.shiftLeft_eq, Nat.mod_eq_of_lt (by omega : (chunkId cb v + 1) * 2 ^ (cb + 3) < M)]
      apply cont _ (by omega) hle
      intro x hx1 hx2
      apply get_false_of_null
      have : chunkId cb x = chunkId cb v := by
        rw [chunkId_eq' cb x]
        apply Nat.div_eq_of_lt_le
        · rw [chunkId_eq', Nat.mul_comm]; omega
        · exact hx2
      rw [this, hc]
    | some c =>
      simp only []
      have hbyte : byteAt s (chunkId cb v) (offset cb v) = aget 0#8 (offset cb v) c := by
        simp [byteAt, hc]
      by_cases hz : aget 0#8 (offset cb v) c = 0#8
      · simp only [hz, beq_self_eq_true, if_true]
        rw [Nat.mod_eq_of_lt (by omega : v + 8 < M)]
        apply cont _ (by omega) (by omega)
        intro x hx1 hx2
        apply get_false_of_zero
        have h8 : x / 8 = v / 8 := by omega
        rw [chunkId_eq, offset_eq, h8, ← chunkId_eq, ← offset_eq, hbyte, hz]
      · have : (aget 0#8 (offset cb v) c == 0#8) = false := by simpa using hz
        simp only [this, Bool.false_eq_true, if_false]
        rw [Nat.mod_eq_of_lt (by omega : v + 1 < M)]
        apply cont _ (by omega) (by omega)
        intro x hx1 hx2
        have : x = v := by omega
        rw [this]; simpa using h2


theorem iterFrom_spec (M cb : Nat) (s : Dense) (lst : Nat) (hl : lst = s.nchunks * 2 ^ (cb + 3))
    (hlt : lst < M) (m : Nat) (hm : M = 8 * m) :
    ∀ fuel v acc, v ≤ lst → (v = lst ∨ get cb s v = true) → lst - v + 1 ≤ fuel →
      ∃ l, iterFrom M cb s lst fuel v acc = some (acc.reverse ++ l) ∧ l.Pairwise (· < ·) ∧
        ∀ x, x ∈ l ↔ (v ≤ x ∧ x < lst ∧ get cb s x = true) := by
  have hfuel : lst + 1 ≤ fuelOf cb s := by
    unfold fuelOf
    rw [hl, pow_cb3, Nat.one_shiftLeft]
    have : s.nchunks * (8 * 2 ^ cb) = s.nchunks * 2 ^ cb * 8 := by
      rw [Nat.mul_comm 8, Nat.mul_assoc]
    omega
  intro fuel
  induction fuel with
  | zero => intro v _ _ _ hf; omega
  | succ fuel ih =>
    intro v acc hv hgv hf
    unfold iterFrom
    by_cases h1 : v = lst
    · refine ⟨[], by simp [h1], List.Pairwise.nil, ?_⟩
      intro x; simp; omega
    have hg : get cb s v = true := by
      rcases hgv with e | e
      · exact absurd e h1
      · exact e
    simp only [h1, if_false]
    rw [Nat.mod_eq_of_lt (by omega : v + 1 < M)]
    obtain ⟨v', e, a, b, c, d⟩ :=
      next_spec M cb s lst hl hlt m hm (fuelOf cb s) (v + 1) (by omega) (by omega)
    rw [e]
    simp only []
    obtain ⟨l, e2, p, q⟩ := ih v' (v :: acc) b d (by omega)
    refine ⟨v :: l, ?_, ?_, ?_⟩
    · rw [e2]; simp
    · rw [List.pairwise_cons]
      refine ⟨?_, p⟩
      intro x hx
      have := (q x).mp hx
      omega
    · intro x
      rw [List.mem_cons, q]
      constructor
      · rintro (hx | ⟨hx1, hx2, hx3⟩)
        · subst hx; exact ⟨Nat.le_refl _, by omega, hg⟩
        · exact ⟨by omega, hx2, hx3⟩
      · rintro ⟨hx1, hx2, hx3⟩
        by_cases hx : x = v
        · exact Or.inl hx
        · refine Or.inr ⟨?_, hx2, hx3⟩
          apply Nat.le_of_not_lt
          intro hlt'
          have := c x (by omega) hlt'
          rw [this] at hx3; cases hx3

/-- the iterator is exact for every state (reachable or not) whose `last()` does not wrap in the
    arithmetic of the iterator positions and whose chunk vector stays inside the id space -/
theorem iterExact_of_lt_pos (w cb : Nat) (hcb : cb + 3 ≤ w) (s : Dense)
    (hn : s.nchunks * 2 ^ (cb + 3) < 2 ^ posBits w)
    (hle : s.nchunks * 2 ^ (cb + 3) ≤ 2 ^ w) : IterExact w cb s := by
  have hw := le_posBits w
  obtain ⟨m, hm⟩ : ∃ m, 2 ^ posBits w = 8 * m := by
    refine ⟨2 ^ (posBits w - 3), ?_⟩
    have : posBits w = 3 + (posBits w - 3) := by omega
    rw [this, Nat.pow_add]; simp
  have hlast : last w cb s = s.nchunks * 2 ^ (cb + 3) := by
    unfold last
    have : s.nchunks * 1 <<< cb * 8 = s.nchunks * 2 ^ (cb + 3) := by
      rw [Nat.one_shiftLeft, pow_cb3, Nat.mul_comm 8, Nat.mul_assoc]
    rw [this, Nat.mod_eq_of_lt (by omega)]
  have hlt : last w cb s < 2 ^ posBits w := by omega
  have hlw : last w cb s ≤ 2 ^ w := by omega
  obtain ⟨v0, e, _, b, c, d⟩ :=
    next_spec (2 ^ posBits w) cb s (last w cb s) hlast hlt m hm (fuelOf cb s) 0 (Nat.zero_le _) (by
      unfold fuelOf
      rw [hlast, pow_cb3, Nat.one_shiftLeft]
      have : s.nchunks * (8 * 2 ^ cb) = s.nchunks * 2 ^ cb * 8 := by
        rw [Nat.mul_comm 8, Nat.mul_assoc]
      omega)
  obtain ⟨l, e2, p, q⟩ :=
    iterFrom_spec (2 ^ posBits w) cb s (last w cb s) hlast hlt m hm (fuelOf cb s) v0 [] b d (by
      unfold fuelOf
      rw [hlast, pow_cb3, Nat.one_shiftLeft]
      have : s.nchunks * (8 * 2 ^ cb) = s.nchunks * 2 ^ cb * 8 := by
        rw [Nat.mul_comm 8, Nat.mul_assoc]
      omega)
  refine ⟨l, ?_, p, ?_⟩
  · unfold toList
    simp only [e, e2]; simp
  · intro x
    rw [q]
    constructor
    · rintro ⟨_, h2, h3⟩; exact ⟨by omega, h3⟩
    · rintro ⟨h1, h2⟩
      have hx : x < last w cb s := by
        apply Nat.lt_of_not_le
        intro hge
        rw [hlast] at hge
        rw [get_false_of_ge cb s x hge] at h2; cases h2
      refine ⟨?_, hx, h2⟩
      apply Nat.le_of_not_lt
      intro hlt'
      rw [c x (Nat.zero_le _) hlt'] at h2; cases h2

/-- the iterator is exact for every state (reachable or not) whose `last()` does not wrap -/
theorem iterExact_of_lt (w cb : Nat) (hcb : cb + 3 ≤ w) (s : Dense)
    (hn : s.nchunks * 2 ^ (cb + 3) < 2 ^ w) : IterExact w cb s :=
  iterExact_of_lt_pos w cb hcb s
    (Nat.lt_of_lt_of_le hn (Nat.pow_le_pow_right (by omega) (le_posBits w))) (Nat.le_of_lt hn)

/-! ### growth of the chunk vector -/

theorem checkAndSet_nchunks (w cb : Nat) (s : Dense) (id : Nat) :
    (checkAndSet w cb s id).1.nchunks = max s.nchunks (chunkId cb id + 1) := by
  rw [checkAndSet_eq]
  split
  · exact (store_spec cb s id (byteAt s (chunkId cb id) (offset cb id) ||| bitmask id)).1
  · exact (getElement_spec cb s id).1

theorem unset_nchunks (w cb : Nat) (s : Dense) (id : Nat) :
    (unset w cb s id).nchunks = max s.nchunks (chunkId cb id + 1) := by
  rw [unset_eq]
  split
  · exact (store_spec cb s id (byteAt s (chunkId cb id) (offset cb id) &&& ~~~ bitmask id)).1
  · exact (getElement_spec cb s id).1

/-- an id below the top chunk has a chunk id that leaves room for one more chunk -/
theorem chunkId_below_top (w cb : Nat) (hcb : cb + 3 ≤ w) (id : Nat)
    (h : id < 2 ^ w - 2 ^ (cb + 3)) : (chunkId cb id + 1 + 1) * 2 ^ (cb + 3) ≤ 2 ^ w := by
  have hP : 0 < 2 ^ (cb + 3) := Nat.pow_pos (by omega)
  have hw : 2 ^ w = 2 ^ (w - (cb + 3)) * 2 ^ (cb + 3) := by
    rw [← Nat.pow_add]; congr 1; omega
  have h1 : id / 2 ^ (cb + 3) < 2 ^ (w - (cb + 3)) - 1 := by
    rw [Nat.div_lt_iff_lt_mul hP, Nat.sub_mul, Nat.one_mul, ← hw]; exact h
  have h2 : ∀ a M : Nat, a < M - 1 → a + 1 + 1 ≤ M := by intro a M h; omega
  rw [chunkId_eq', hw]
  exact Nat.mul_le_mul_right _ (h2 _ _ h1)

theorem nchunks_step (w cb : Nat) (hcb : cb + 3 ≤ w) (s : Dense) (op : Op)
    (hs : (s.nchunks + 1) * 2 ^ (cb + 3) ≤ 2 ^ w)
    (h : match op with
      | .set id | .unset id | .checkAndSet id => id < 2 ^ w - 2 ^ (cb + 3)
      | _ => True) :
    ((step w cb s op).1.nchunks + 1) * 2 ^ (cb + 3) ≤ 2 ^ w := by
  have key : ∀ id, id < 2 ^ w - 2 ^ (cb + 3) →
      (max s.nchunks (chunkId cb id + 1) + 1) * 2 ^ (cb + 3) ≤ 2 ^ w := by
    intro id hid
    have := chunkId_below_top w cb hcb id hid
    rcases Nat.le_total s.nchunks (chunkId cb id + 1) with hle | hle
    · rw [Nat.max_eq_right hle]; exact this
    · rw [Nat.max_eq_left hle]; exact hs
  cases op with
  | set id => simp only [step, set, checkAndSet_nchunks]; exact key id h
  | checkAndSet id => simp only [step, checkAndSet_nchunks]; exact key id h
  | unset id => simp only [step, unset_nchunks]; exact key id h
  | get id => exact hs
  | size => exact hs
  | empty => exact hs
  | clear =>
    simp only [step, clear, Nat.zero_add, Nat.one_mul]
    exact Nat.pow_le_pow_right (by omega) hcb
  | copy => exact hs

theorem nchunks_run (w cb : Nat) (hcb : cb + 3 ≤ w) (ops : List Op) : ∀ (s : Dense),
    (s.nchunks + 1) * 2 ^ (cb + 3) ≤ 2 ^ w →
    (∀ op ∈ ops, match op with
      | .set id | .unset id | .checkAndSet id => id < 2 ^ w - 2 ^ (cb + 3)
      | _ => True) →
    ((run w cb s ops).1.nchunks + 1) * 2 ^ (cb + 3) ≤ 2 ^ w := by
  induction ops with
  | nil => intro s hs _; exact hs
  | cons op ops ih =>
    intro s hs h
    simp only [run]
    exact ih _ (nchunks_step w cb hcb s op hs (h op (List.mem_cons_self ..)))
      (fun o ho => h o (List.mem_cons_of_mem _ ho))

/-- the chunk of an id of type `T` lies inside the id space -/
theorem chunkId_in_space (w cb : Nat) (hcb : cb + 3 ≤ w) (id : Nat) (h : id < 2 ^ w) :
    (chunkId cb id + 1) * 2 ^ (cb + 3) ≤ 2 ^ w := by
  have hP : 0 < 2 ^ (cb + 3) := Nat.pow_pos (by omega)
  have hw : 2 ^ w = 2 ^ (w - (cb + 3)) * 2 ^ (cb + 3) := by
    rw [← Nat.pow_add]; congr 1; omega
  have h1 : id / 2 ^ (cb + 3) < 2 ^ (w - (cb + 3)) := by
    rw [Nat.div_lt_iff_lt_mul hP, ← hw]; exact h
  rw [chunkId_eq', hw]
  exact Nat.mul_le_mul_right _ h1

theorem nchunks_le_step (w cb : Nat) (hcb : cb + 3 ≤ w) (s : Dense) (op : Op)
    (hs : s.nchunks * 2 ^ (cb + 3) ≤ 2 ^ w) (h : op.inRange w) :
    (step w cb s op).1.nchunks * 2 ^ (cb + 3) ≤ 2 ^ w := by
  have key : ∀ id, id < 2 ^ w →
      max s.nchunks (chunkId cb id + 1) * 2 ^ (cb + 3) ≤ 2 ^ w := by
    intro id hid
    have := chunkId_in_space w cb hcb id hid
    rcases Nat.le_total s.nchunks (chunkId cb id + 1) with hle | hle
    · rw [Nat.max_eq_right hle]; exact this
    · rw [Nat.max_eq_left hle]; exact hs
  cases op with
  | set id => simp only [step, set, checkAndSet_nchunks]; exact key id h
  | checkAndSet id => simp only [step, checkAndSet_nchunks]; exact key id h
  | unset id => simp only [step, unset_nchunks]; exact key id h
  | get id => exact hs
  | size => exact hs
  | empty => exact hs
  | clear => simp [step, clear]
  | copy => exact hs

/-- reachable states: the chunk vector never extends beyond the id space -/
theorem nchunks_le_run (w cb : Nat) (hcb : cb + 3 ≤ w) (ops : List Op) : ∀ (s : Dense),
    s.nchunks * 2 ^ (cb + 3) ≤ 2 ^ w → (∀ op ∈ ops, op.inRange w) →
    (run w cb s ops).1.nchunks * 2 ^ (cb + 3) ≤ 2 ^ w := by
  induction ops with
  | nil => intro s hs _; exact hs
  | cons op ops ih =>
    intro s hs h
    simp only [run]
    exact ih _ (nchunks_le_step w cb hcb s op hs (h op (List.mem_cons_self ..)))
      (fun o ho => h o (List.mem_cons_of_mem _ ho))

theorem posBits_of_lt (w : Nat) (hw : w < 64) : posBits w = 64 := by
  simp [posBits, FIXED_F2]; omega

-- TARGETS (to be proved; statements must not be weakened):

/-- outputs of every history agree with the mathematical set, and the final states are related
    (membership of every id, no duplicates in the spec list) -/
theorem refines (w cb : Nat) (ops : List Op) (h : ∀ op ∈ ops, op.inRange w) :
    (run w cb {} ops).2 = (specRun w [] ops).2 ∧
    (∀ id, id < 2 ^ w → get cb (run w cb {} ops).1 id = decide (id ∈ (specRun w [] ops).1)) ∧
    (specRun w [] ops).1.Nodup ∧ (∀ id ∈ (specRun w [] ops).1, id < 2 ^ w) := by
  obtain ⟨⟨_, h2, h3, h4, _⟩, h5⟩ := sim_run w cb ops (sim_empty w cb) h
  exact ⟨h5, fun id _ => h2 id, h3, h4⟩

/-- `size()` of the final state is the cardinality of the mathematical set, in the arithmetic of `T` -/
theorem size_eq (w cb : Nat) (ops : List Op) (h : ∀ op ∈ ops, op.inRange w) :
    (run w cb {} ops).1.size = (specRun w [] ops).1.length % 2 ^ w :=
  (sim_run w cb ops (sim_empty w cb) h).1.2.2.2.2

/-- iteration is exact whenever `last()` does not wrap, i.e. the chunk vector does not reach
    the top of the id space -/
theorem iter_exact_of_no_wrap (w cb : Nat) (hcb : cb + 3 ≤ w) (ops : List Op)
    (h : ∀ op ∈ ops, op.inRange w)
    (hn : (run w cb {} ops).1.nchunks * 2 ^ (cb + 3) < 2 ^ w) :
    IterExact w cb (run w cb {} ops).1 :=
  have _ := h
  iterExact_of_lt w cb hcb _ hn

/-- sufficient condition on the history for the no-wrap hypothesis: no id of the top chunk is
    ever mentioned by set/unset/check_and_set -/
theorem no_wrap_of_ids_below_top (w cb : Nat) (hcb : cb + 3 ≤ w) (ops : List Op)
    (h : ∀ op ∈ ops, match op with
      | .set id | .unset id | .checkAndSet id => id < 2 ^ w - 2 ^ (cb + 3)
      | _ => True) :
    (run w cb {} ops).1.nchunks * 2 ^ (cb + 3) < 2 ^ w := by
  have hP : 0 < 2 ^ (cb + 3) := Nat.pow_pos (by omega)
  have := nchunks_run w cb hcb ops {} (by
    simp only [Nat.zero_add, Nat.one_mul]
    exact Nat.pow_le_pow_right (by omega) hcb) h
  rw [Nat.add_mul, Nat.one_mul] at this
  omega

/-- FULL statement (holds after the F2 fix, for every id type narrower than 64 bits): iteration
    is exact after every history -/
theorem iter_exact_full (w cb : Nat) (hcb : cb + 3 ≤ w) (hw : w < 64) (ops : List Op)
    (h : ∀ op ∈ ops, op.inRange w) : IterExact w cb (run w cb {} ops).1 := by
  have hle := nchunks_le_run w cb hcb ops {} (by simp) h
  refine iterExact_of_lt_pos w cb hcb _ ?_ hle
  rw [posBits_of_lt w hw]
  exact Nat.lt_of_le_of_lt hle (Nat.pow_lt_pow_right (by omega) hw)

/-! ### IdSetSmall (lower priority) -/

theorem small_get_set (s : Small) (id x : Nat) :
    Small.get (Small.set s id) x = (decide (x = id) || Small.get s x) := by
  unfold Small.get Small.set
  cases hl : s.getLast? with
  | none =>
    simp only [List.contains_append, List.contains_cons, List.contains_nil, Bool.or_false]
    rw [Bool.or_comm]
    by_cases hx : x = id <;> simp [hx]
  | some b =>
    by_cases hb : b = id
    · subst hb
      have hm : b ∈ s := List.mem_of_getLast? hl
      by_cases hx : x = b
      · subst hx; simp [hm]
      · simp [hx]
    · have : (b != id) = true := by simpa using hb
      simp only [this, if_true, List.contains_append, List.contains_cons, List.contains_nil,
        Bool.or_false]
      rw [Bool.or_comm]
      by_cases hx : x = id <;> simp [hx]

theorem uniq_spec : ∀ l : List Nat, l.Pairwise (· ≤ ·) →
    (Small.uniq l).Pairwise (· < ·) ∧ ∀ x, x ∈ Small.uniq l ↔ x ∈ l := by
  intro l
  fun_induction Small.uniq l with
  | case1 => intro _; simp
  | case2 a => intro _; simp
  | case3 b r ih =>
    intro hp
    rw [List.pairwise_cons] at hp
    obtain ⟨h1, h2⟩ := ih hp.2
    refine ⟨h1, ?_⟩
    intro x; rw [h2]; simp
  | case4 a b r hab ih =>
    intro hp
    rw [List.pairwise_cons] at hp
    obtain ⟨h1, h2⟩ := ih hp.2
    refine ⟨?_, ?_⟩
    · rw [List.pairwise_cons]
      refine ⟨?_, h1⟩
      intro x hx
      rw [h2] at hx
      have hbx : b ≤ x := by
        rcases List.mem_cons.mp hx with e | h
        · omega
        · exact (List.pairwise_cons.mp hp.2).1 x h
      have := hp.1 b (List.mem_cons_self ..)
      omega
    · intro x; simp only [List.mem_cons]; rw [h2]; simp

theorem small_sortUnique (s : Small) :
    (Small.sortUnique s).Pairwise (· < ·) ∧ ∀ x, x ∈ Small.sortUnique s ↔ x ∈ s := by
  unfold Small.sortUnique
  have hs : (s.mergeSort (fun a b => decide (a ≤ b))).Pairwise (· ≤ ·) := by
    have := List.pairwise_mergeSort (le := fun a b : Nat => decide (a ≤ b))
      (by intro a b c; simp; omega) (by intro a b; simp; omega) s
    simpa using this
  obtain ⟨h1, h2⟩ := uniq_spec _ hs
  exact ⟨h1, fun x => by rw [h2, List.mem_mergeSort]⟩

theorem setUnion_spec : ∀ s o : List Nat, s.Pairwise (· < ·) → o.Pairwise (· < ·) →
    (Small.setUnion s o).Pairwise (· < ·) ∧ ∀ x, x ∈ Small.setUnion s o ↔ (x ∈ s ∨ x ∈ o) := by
  intro s o
  fun_induction Small.setUnion s o with
  | case1 ys => intro _ ho; exact ⟨ho, by simp⟩
  | case2 xs _ => intro hs _; exact ⟨hs, by simp⟩
  | case3 x xs y ys hxy ih =>
    intro hs ho
    rw [List.pairwise_cons] at hs
    obtain ⟨h1, h2⟩ := ih hs.2 ho
    refine ⟨?_, ?_⟩
    · rw [List.pairwise_cons]
      refine ⟨?_, h1⟩
      intro z hz
      rcases (h2 z).mp hz with h | h
      · exact hs.1 z h
      · rcases List.mem_cons.mp h with e | h'
        · omega
        · have := (List.pairwise_cons.mp ho).1 z h'; omega
    · intro z; simp only [List.mem_cons]; rw [h2]; simp only [List.mem_cons]
      grind
  | case4 x xs y ys hxy hyx ih =>
    intro hs ho
    rw [List.pairwise_cons] at ho
    obtain ⟨h1, h2⟩ := ih hs ho.2
    refine ⟨?_, ?_⟩
    · rw [List.pairwise_cons]
      refine ⟨?_, h1⟩
      intro z hz
      rcases (h2 z).mp hz with h | h
      · rcases List.mem_cons.mp h with e | h'
        · omega
        · have := (List.pairwise_cons.mp hs).1 z h'; omega
      · exact ho.1 z h
    · intro z; simp only [List.mem_cons]; rw [h2]; simp only [List.mem_cons]
      grind
  | case5 x xs y ys hxy hyx ih =>
    intro hs ho
    have : x = y := by omega
    subst this
    rw [List.pairwise_cons] at hs ho
    obtain ⟨h1, h2⟩ := ih hs.2 ho.2
    refine ⟨?_, ?_⟩
    · rw [List.pairwise_cons]
      refine ⟨?_, h1⟩
      intro z hz
      rcases (h2 z).mp hz with h | h
      · exact hs.1 z h
      · exact ho.1 z h
    · intro z; simp only [List.mem_cons]; rw [h2]
      grind

theorem small_mergeSorted (s o : Small) (hs : s.Pairwise (· < ·)) (ho : o.Pairwise (· < ·)) :
    (Small.mergeSorted s o).Pairwise (· < ·) ∧ ∀ x, x ∈ Small.mergeSorted s o ↔ (x ∈ s ∨ x ∈ o) :=
  setUnion_spec s o hs ho

end Osmium.IdSet
