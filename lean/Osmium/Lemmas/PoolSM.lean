/-
Helper lemmas for PoolSM (C19): every pool step either leaves the work queue alone or is a
step of the work-queue machine.
-/
import Osmium.Model.PoolSM
import Osmium.Lemmas.QueueSM

namespace Osmium.PoolSM

open Osmium.Mon

theorem step_q (c : Cfg) (s s' : State) (e : Ev) (h : step? c s e = some s') :
    s'.q = s.q ∨ ∃ qe, QueueSM.step? c.qc s.q qe = some s'.q := by
  cases e with
  | q e =>
    right
    refine ⟨e, ?_⟩
    cases e <;> (try (rename_i x; cases x)) <;> simp only [step?] at h <;> (repeat' split at h) <;>
      simp only [Option.map_eq_some_iff, reduceCtorEq] at h <;>
      (try (obtain ⟨a, ha, rfl⟩ := h; exact ha))
  | _ =>
    left
    simp only [step?] at h
    repeat' split at h
    all_goals (simp only [Option.some.injEq, reduceCtorEq] at h)
    all_goals (try subst h)
    all_goals rfl

/-- The work queue of a pool run is a run of the queue machine: every QueueSM invariant
    (FIFO, conservation, soft bound, no lost wake-up) holds for `m_work_queue`. -/
theorem reachable_q (c : Cfg) (s : State) (h : (machine c).Reachable s) :
    (QueueSM.machine Task c.qc).Reachable s.q := by
  induction h with
  | init => exact .init
  | step hr hst ih =>
    rcases step_q c _ _ _ hst with h | ⟨qe, h⟩
    · rw [h]; exact ih
    · exact .step ih h

end Osmium.PoolSM
