/-
C03 — from "every string a reader hands to a builder is short and NUL-free" to `Guards`, block by
block, for the builder-call sequences of the four readers (Model/HostilePbf.lean `toObjS`: PBF and
o5m; Model/HostileReaders.lean `oplObjS`, `xmlObjS`), and from `Guards` to the well-formed item.

Also: the comment-text bound `t.length + 1 < 2^32` that `add_text` checks follows from the item
size bound (a comment text is part of the item), so readers whose model does not carry that check
need no separate premise.
-/
import Osmium.Lemmas.HostileLayout
import Osmium.Lemmas.BufBridgeSeq
import Osmium.Model.HostilePbf

namespace Osmium.HostileLayout

open Osmium.Layout Osmium.HostilePbf
open Osmium.Osm (Tag NodeRef Member)

abbrev Str := List UInt8

/-- short (≤ max_osm_string_length) and NUL-free: what every reader establishes for each string it
    hands to a builder -/
def StrOk (s : Str) : Prop := s.length ≤ maxStr ∧ noNul s = true

theorem strOk_nil : StrOk [] := ⟨by simp, by decide⟩

/-- a block whose strings are all `StrOk` (comment texts: NUL-free, any length) -/
def SubStrOk : SubS → Prop
  | .tags kvs => ∀ kv ∈ kvs, StrOk kv.1 ∧ StrOk kv.2
  | .nodes t _ => t = tyWayNodeList
  | .members ms => ∀ m ∈ ms, StrOk m.role
  | .discussion cs => ∀ c ∈ cs, StrOk c.user ∧ ∃ t, c.text = some t ∧ noNul t = true

theorem finishLast_all_some : ∀ (cs : List CommentS), (∀ c ∈ cs, ∃ t, c.text = some t) → finishLast cs = cs
  | [], _ => rfl
  | [c], h => by
    obtain ⟨t, ht⟩ := h c (List.mem_singleton.mpr rfl)
    simp [finishLast, ht]
  | c :: d :: r, h => by
    simp only [finishLast]
    rw [finishLast_all_some (d :: r) (fun x hx => h x (List.mem_cons_of_mem _ hx))]

theorem length_le_flatten_map {α : Type} (f : α → Str) : ∀ (l : List α) (x : α), x ∈ l →
    (f x).length ≤ ((l.map f).flatten).length
  | [], x, h => by cases h
  | a :: l, x, h => by
    simp only [List.map_cons, List.flatten_cons, List.length_append]
    rcases List.mem_cons.mp h with rfl | h
    · omega
    · have := length_le_flatten_map f l x h; omega

theorem commentBytes_text_le (fill : UInt8) (c : CommentS) (t : Str) (h : c.text = some t) :
    t.length + 1 ≤ (commentBytes fill c).length := by
  unfold commentBytes
  rw [h]
  simp only [List.length_append, List.length_cons, List.length_nil]
  omega

/-- a comment text is part of the item: its length is bounded by the item size -/
theorem text_le_objSize (fill : UInt8) (o : ObjS) (cs : List CommentS) (hs : SubS.discussion cs ∈ o.subs)
    (c : CommentS) (hc : c ∈ finishLast cs) (t : Str) (ht : c.text = some t) :
    t.length + 1 ≤ objSize fill o := by
  have h1 := commentBytes_text_le fill c t ht
  have h2 := length_le_flatten_map (commentBytes fill) (finishLast cs) c hc
  have h3 : (commentsBodyRaw fill (finishLast cs)).length ≤ (subBytes fill (.discussion cs)).length := by
    unfold subBytes
    simp only [SubS.body, commentsBody, List.length_append]
    omega
  have h4 := length_le_flatten_map (subBytes fill) o.subs _ hs
  unfold objSize subsBytes
  unfold commentsBodyRaw at h3
  omega

/-- `Guards` from per-block string facts -/
theorem guards_of_subs (fill : UInt8) (o : ObjS)
    (hf : o.fixed.length = o.kind.sizeT - 8) (hu : StrOk o.user)
    (hsub : ∀ s ∈ o.subs, SubStrOk s) (hs : objSize fill o < 2 ^ 32) : Guards fill o := by
  refine ⟨hf, ?_, ?_, hu.2, ?_, hs⟩
  · intro s hsm
    have hk := hsub s hsm
    cases s with
    | tags kvs =>
      simp only [SubS.lengthsOk, List.all_eq_true, Bool.and_eq_true, decide_eq_true_eq]
      intro kv hkv
      exact ⟨(hk kv hkv).1.1, (hk kv hkv).2.1⟩
    | nodes t ns => rfl
    | members ms =>
      simp only [SubS.lengthsOk, List.all_eq_true, decide_eq_true_eq]
      intro m hm
      exact (hk m hm).1
    | discussion cs =>
      have hall : ∀ c ∈ cs, ∃ t, c.text = some t := fun c hc => by
        obtain ⟨_, t, ht, _⟩ := hk c hc; exact ⟨t, ht⟩
      simp only [SubS.lengthsOk, List.all_eq_true, Bool.and_eq_true, decide_eq_true_eq]
      intro c hc
      have hc' : c ∈ cs := by rw [finishLast_all_some cs hall] at hc; exact hc
      obtain ⟨hu', t, ht, _⟩ := hk c hc'
      refine ⟨hu'.1, ?_⟩
      rw [ht]
      simp only [decide_eq_true_eq]
      have := text_le_objSize fill o cs hsm c hc t ht
      omega
  · have := hu.1
    simp only [maxStr] at this
    omega
  · intro s hsm
    have hk := hsub s hsm
    cases s with
    | tags kvs =>
      simp only [SubS.extraOk, List.all_eq_true, Bool.and_eq_true]
      intro kv hkv
      exact ⟨(hk kv hkv).1.2, (hk kv hkv).2.2⟩
    | nodes t ns =>
      have : t = tyWayNodeList := hk
      subst this
      rfl
    | members ms =>
      simp only [SubS.extraOk, List.all_eq_true]
      intro m hm
      exact (hk m hm).2
    | discussion cs =>
      have hall : ∀ c ∈ cs, ∃ t, c.text = some t := fun c hc => by
        obtain ⟨_, t, ht, _⟩ := hk c hc; exact ⟨t, ht⟩
      simp only [SubS.extraOk, List.all_eq_true, Bool.and_eq_true]
      intro c hc
      have hc' : c ∈ cs := by rw [finishLast_all_some cs hall] at hc; exact hc
      obtain ⟨hu', t, ht, hn⟩ := hk c hc'
      refine ⟨hu'.2, ?_⟩
      rw [ht]; exact hn

/-- … and what `Guards` gives: the item the builders write is well-formed and its complete traversal
    (user, tags, node refs, members with roles, comments with user and text) stays in bounds and
    returns exactly what was put in -/
theorem guards_wf (fill : UInt8) (o : ObjS) (g : Guards fill o) :
    WF (build fill o) = true ∧
    ∃ fields, decodeAll (build fill o) = .ok [.mk o.kind.ty false fields [o.user] (o.subs.map subTree)] := by
  obtain ⟨fields, hd⟩ := decodeAll_build fill o g
  refine ⟨?_, fields, hd⟩
  unfold WF
  rw [hd]
  simpa using build_length_mod fill o g

/-! ### the blocks the readers create -/

theorem tagsSub_strOk (ts : List Tag) (h : ∀ t ∈ ts, StrOk t.key ∧ StrOk t.value) :
    ∀ s ∈ tagsSub ts, SubStrOk s := by
  intro s hs
  unfold tagsSub at hs
  split at hs
  · cases hs
  · simp only [List.mem_singleton] at hs
    subst hs
    simp only [SubStrOk, List.mem_map]
    rintro kv ⟨t, ht, rfl⟩
    exact h t ht

/-- the same from the flat string list -/
theorem tags_of_tagStrings (ts : List Tag) (h : ∀ s ∈ tagStrings ts, StrOk s) :
    ∀ t ∈ ts, StrOk t.key ∧ StrOk t.value := by
  intro t ht
  have hk : t.key ∈ tagStrings ts := by unfold tagStrings; exact List.mem_flatMap.mpr ⟨t, ht, by simp⟩
  have hv : t.value ∈ tagStrings ts := by unfold tagStrings; exact List.mem_flatMap.mpr ⟨t, ht, by simp⟩
  exact ⟨h _ hk, h _ hv⟩

theorem nodesSub_strOk (ns : List NodeRef) :
    ∀ s ∈ (if ns.isEmpty then [] else [SubS.nodes tyWayNodeList (ns.map fun n => ⟨n.ref, n.location.x, n.location.y⟩)]),
      SubStrOk s := by
  intro s hs
  split at hs
  · cases hs
  · simp only [List.mem_singleton] at hs; subst hs; rfl

theorem membersSub_strOk (ms : List Member) (h : ∀ m ∈ ms, StrOk m.role) :
    ∀ s ∈ (if ms.isEmpty then [] else [SubS.members (ms.map fun x => ⟨x.type, x.ref, x.role⟩)]), SubStrOk s := by
  intro s hs
  split at hs
  · cases hs
  · simp only [List.mem_singleton] at hs
    subst hs
    simp only [SubStrOk, List.mem_map]
    rintro m ⟨x, hx, rfl⟩
    exact h x hx

/-- the builder calls of the PBF decoder and of the o5m decoder (`HostilePbf.toObjS`: set_user, then
    node refs / members, then tags — neither format has changesets) satisfy `Guards` when every
    string is short and NUL-free -/
theorem toObjS_guards (fill : UInt8) (fixed : Str) (o : Osm.Object) (hok : ∀ s ∈ strsOf o, StrOk s)
    (hnc : ∀ a b c d e f g i j k l, o ≠ .changeset a b c d e f g i j k l)
    (hf : fixed.length = (toObjS fixed o).kind.sizeT - 8)
    (hs : objSize fill (toObjS fixed o) < 2 ^ 32) : Guards fill (toObjS fixed o) := by
  cases o with
  | node m l =>
    refine guards_of_subs fill _ hf (hok m.user (List.mem_cons_self ..)) ?_ hs
    exact tagsSub_strOk _ (tags_of_tagStrings _ fun s hs' => hok s (List.mem_cons_of_mem _ hs'))
  | way m ns =>
    refine guards_of_subs fill _ hf (hok m.user (List.mem_cons_self ..)) ?_ hs
    intro s hs'
    simp only [toObjS, List.mem_append] at hs'
    rcases hs' with hs' | hs'
    · exact nodesSub_strOk ns s hs'
    · exact tagsSub_strOk _ (tags_of_tagStrings _ fun s hs'' => hok s (List.mem_cons_of_mem _ hs'')) s hs'
  | relation m ms =>
    refine guards_of_subs fill _ hf (hok m.user (List.mem_cons_self ..)) ?_ hs
    intro s hs'
    simp only [toObjS, List.mem_append] at hs'
    rcases hs' with hs' | hs'
    · refine membersSub_strOk ms (fun x hx => hok _ ?_) s hs'
      simp only [strsOf, List.mem_cons, List.mem_append, List.mem_map]
      exact Or.inr ⟨x, hx, rfl⟩
    · refine tagsSub_strOk _ (tags_of_tagStrings _ fun s hs'' => hok s ?_) s hs'
      simp only [strsOf, List.mem_cons, List.mem_append]
      exact Or.inl (Or.inr hs'')
  | changeset a b c d e f g i j k l => exact absurd rfl (hnc a b c d e f g i j k l)

/-! ### the C04 bridge: the script of builder calls commits exactly `build` -/

open Osmium.Buf in
theorem subOK_of_guards' {fill : UInt8} {o : ObjS} (g : Guards fill o) : ∀ s ∈ o.subs, SubOK s := by
  intro s hs
  have he := g.extra s hs
  cases s with
  | tags kvs => trivial
  | members ms => trivial
  | nodes t ns =>
    simp only [SubS.extraOk, Bool.or_eq_true, beq_iff_eq] at he
    rcases he with (h | h) | h
    · exact Or.inl h
    · exact Or.inr (Or.inl h)
    · exact Or.inr (Or.inr h)
  | discussion cs =>
    simp only [SubS.extraOk] at he
    show lastPendingOnly cs = true
    -- every comment of `finishLast cs` has a text; only the last one of `cs` may lack it
    have key : ∀ (cs : List CommentS),
        ((finishLast cs).all fun c => noNul c.user && (match c.text with | some t => noNul t | none => false)) = true →
        lastPendingOnly cs = true := by
      intro cs
      induction cs with
      | nil => intro _; rfl
      | cons c r ih =>
        cases r with
        | nil => intro _; rfl
        | cons d r' =>
          intro h
          simp only [finishLast, List.all_cons, Bool.and_eq_true] at h
          simp only [lastPendingOnly, Bool.and_eq_true]
          refine ⟨?_, ih (by simpa [List.all_cons, Bool.and_eq_true] using h.2)⟩
          cases hc : c.text with
          | none => rw [hc] at h; simp at h
          | some t => rfl
    exact key cs he

end Osmium.HostileLayout

namespace Osmium.HostileLayout

open Osmium.Buf in
/-- C04's bridge (`Lemmas/BufBridge.lean: run_script`) under C03's `Guards`: whatever the initial
    capacity and the auto-grow mode (yes / internal) — i.e. wherever the buffer has to grow or move
    while the builders run — the script of builder calls does not die and commits exactly
    `build fill o`. -/
theorem guards_script_commits (o : ObjS) (fill : UInt8) (g : Guards fill o) (hf : o.fixed = ctorFixed o.kind)
    (c c1 : Nat) (m m1 : Mode) (hm : m ≠ .no) :
    (run (St.init c m c1 m1 fill true) (script o)).dead = none ∧
    (run (St.init c m c1 m1 fill true) (script o)).b0.done = build fill o := by
  have h := run_script (St.init c m c1 m1 fill true) ⟨hm, rfl, ⟨bounds_mk _ _ _, bounds_mk _ _ _⟩⟩ rfl rfl rfl rfl
    o hf (subOK_of_guards' g)
  obtain ⟨_, h2, _, _, _, _, _, h8⟩ := h
  refine ⟨h2, ?_⟩
  rw [h8]
  simp [St.init, Buf.mk', Buf.done, Buf.comm]

end Osmium.HostileLayout
