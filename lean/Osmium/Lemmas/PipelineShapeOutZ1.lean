/-
Invariant Z (every fault is on its way to the consumer), helper part: `InExc` and `EvP` are
monotone along every step of a reachable state.
-/
import Osmium.Lemmas.PipelineCompleteN

set_option linter.unusedSimpArgs false
set_option linter.unusedVariables false

namespace Osmium.Pipeline
open Osmium.Mon
variable {α : Type} [DecidableEq α]
namespace Complete

theorem want_keep {π : Type} (f : Nat → π) (x u : Nat) (p : π) (h : u ≠ x) : setPc f x p u = f u := by
  simp [setPc_apply, h]

omit [DecidableEq α] in
theorem inExc_of (s s' : State α)
    (hc : ∀ y ∈ s.inq.called, y ∈ s'.inq.called)
    (hw : ∀ y ∈ s.inq.called, s'.want y.2 = s.want y.2)
    (hh : ∀ v, rHeld s.rpc = some v → isExc v → rHeld s'.rpc = some v ∨ ∃ y ∈ s'.inq.called, s'.want y.2 = v) :
    InExc s → InExc s' := by
  rintro (⟨v, h1, h2⟩ | ⟨y, hy, h⟩)
  · rcases hh v h1 h2 with h | ⟨y, hy, h⟩
    · exact Or.inl ⟨v, h, h2⟩
    · exact Or.inr ⟨y, hy, h ▸ h2⟩
  · exact Or.inr ⟨y, hc y hy, (hw y hy).symm ▸ h⟩

set_option maxHeartbeats 1600000 in
theorem inExc_mono (c : Cfg α) (s : State α) (e : Ev α) (s' : State α) (hr : (machine c).Reachable s)
    (hst : (machine c).Step s e s') : InExc s → InExc s' := by
  have h1 := (invN c s hr).n_rpc
  have h2 := (invN c s hr).n_ic
  have h3 := (invN c s hr).n_rin
  pc_cases e with hst
  all_goals try exact id
  all_goals (apply inExc_of)
  all_goals try (intro y hy; exact hy)
  all_goals try (intro y hy; simp only [QueueSM.take_called]; exact hy)
  all_goals try (intro y hy; exact List.mem_append_left _ hy)
  all_goals try (intro y hy; rfl)
  all_goals try (intro v h hv; exact Or.inl h)
  all_goals try (intro y hy; have := h2 y hy; exact want_keep _ _ _ _ (by omega))
  all_goals try (intro v h hv; left; simp_all [rHeld]; done)
  all_goals try (intro v h hv; left; simp_all [rHeld]; split <;> rfl)
  all_goals try (intro v h hv; exfalso; simp_all [rHeld]; done)
  all_goals (
    intro v h hv; right; rename_i heq; obtain ⟨y, hy, hy2⟩ := h3 _ _ _ (Or.inr heq)
    refine ⟨y, hy, ?_⟩; rw [heq] at h; simp only [rHeld, Option.some.injEq] at h
    show s.want y.2 = v
    rw [hy2, ← h]; exact (h1 _ _ _ (Or.inr heq)).2.2)

omit [DecidableEq α] in
theorem evP_of (s s' : State α)
    (hc : ∀ y ∈ s.outq.called, y ∈ s'.outq.called)
    (hw : ∀ y ∈ s.outq.called, s'.want y.2 = s.want y.2)
    (h1 : ∀ code, s.ppc = .caught code → s'.ppc = .caught code ∨ pVal s'.ppc = some (.exc code))
    (h2 : ∀ v, pVal s.ppc = some v → isExc v → pVal s'.ppc = some v ∨ ∃ y ∈ s'.outq.called, s'.want y.2 = v)
    (h3 : ∀ id k, s.ppc = .pushFut id k → isExc (s.want id) →
      (s'.ppc = .pushFut id k ∧ s'.want id = s.want id) ∨ ∃ y ∈ s'.outq.called, s'.want y.2 = s.want id) :
    EvP s → EvP s' := by
  rintro (⟨code, h⟩ | ⟨v, h, hv⟩ | ⟨id, k, h, hv⟩ | ⟨y, hy, h⟩)
  · rcases h1 code h with h | h
    · exact Or.inl ⟨code, h⟩
    · exact Or.inr (Or.inl ⟨_, h, trivial⟩)
  · rcases h2 v h hv with h | ⟨y, hy, h⟩
    · exact Or.inr (Or.inl ⟨_, h, hv⟩)
    · exact Or.inr (Or.inr (Or.inr ⟨y, hy, h ▸ hv⟩))
  · rcases h3 id k h hv with ⟨h, h'⟩ | ⟨y, hy, h⟩
    · exact Or.inr (Or.inr (Or.inl ⟨id, k, h, h'.symm ▸ hv⟩))
    · exact Or.inr (Or.inr (Or.inr ⟨y, hy, h ▸ hv⟩))
  · exact Or.inr (Or.inr (Or.inr ⟨y, hc y hy, (hw y hy).symm ▸ h⟩))

set_option maxHeartbeats 1600000 in
theorem evP_mono (c : Cfg α) (s : State α) (e : Ev α) (s' : State α) (hr : (machine c).Reachable s)
    (hst : (machine c).Step s e s') : EvP s → EvP s' := by
  have n1 := (invN c s hr).n_ppc
  have n2 := (invN c s hr).n_ppcf
  have n3 := (invN c s hr).n_oc
  have n4 := (invN c s hr).n_pin2
  pc_cases e with hst
  all_goals try exact id
  all_goals (apply evP_of)
  all_goals try (intro y hy; exact hy)
  all_goals try (intro y hy; simp only [QueueSM.take_called]; exact hy)
  all_goals try (intro y hy; exact List.mem_append_left _ hy)
  all_goals try (intro y hy; rfl)
  all_goals try (intro y hy; have := n3 y hy; exact want_keep _ _ _ _ (by omega))
  all_goals try (intro v h; exact Or.inl h)
  all_goals try (intro v h hv; exact Or.inl h)
  all_goals try (intro id k h hv; exact Or.inl ⟨h, rfl⟩)
  all_goals try (intro id k h hv; have := n2 id k (Or.inl h); exact Or.inl ⟨h, want_keep _ _ _ _ (by omega)⟩)
  all_goals try (intros; exfalso; simp_all [pVal]; done)
  all_goals try (intro v h hv; left; simp_all [pVal]; done)
  all_goals try (intro code h; right; simp_all [pVal]; done)
  all_goals try (intro id k h hv; right; refine ⟨(_, _), List.mem_append_right _ (List.mem_singleton.2 rfl), ?_⟩; simp_all; done)
  all_goals (
    intro v h hv; right; rename_i heq; obtain ⟨y, hy, hy2⟩ := n4 _ _ _ heq
    refine ⟨y, hy, ?_⟩; rw [heq] at h; simp only [pVal, Option.some.injEq] at h
    show s.want y.2 = v
    rw [hy2, ← h]; exact (n1 _ _ _ (Or.inr heq)).2.2)

end Complete
end Osmium.Pipeline
