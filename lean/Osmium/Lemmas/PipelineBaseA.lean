/-
Pipeline base lemmas, part A (common): `afterPop`/`afterClose` projections, the definitions of the
status and buffer invariants with their helper lemmas, the `pl_cases` macro and the frame lemmas of
the queue machine.  (Split of PipelineBase.lean; every name/statement/proof unchanged.)
-/
import Osmium.Lemmas.PipelineDefs

namespace Osmium.Pipeline

open Osmium.Mon

set_option linter.unusedSimpArgs false

variable {α : Type}

/-! ## `afterPop` / `afterClose` field by field -/

section proj
variable (s : State α) (lv : List (List α)) (k : CK)

@[simp] theorem afterPop_inq : (afterPop s lv).inq = s.inq := by
  unfold afterPop; split <;> (try split) <;> rfl
@[simp] theorem afterPop_outq : (afterPop s lv).outq = s.outq := by
  unfold afterPop; split <;> (try split) <;> rfl
@[simp] theorem afterPop_fut : (afterPop s lv).fut = s.fut := by
  unfold afterPop; split <;> (try split) <;> rfl
@[simp] theorem afterPop_want : (afterPop s lv).want = s.want := by
  unfold afterPop; split <;> (try split) <;> rfl
@[simp] theorem afterPop_nIn : (afterPop s lv).nIn = s.nIn := by
  unfold afterPop; split <;> (try split) <;> rfl
@[simp] theorem afterPop_nOut : (afterPop s lv).nOut = s.nOut := by
  unfold afterPop; split <;> (try split) <;> rfl
@[simp] theorem afterPop_rpc : (afterPop s lv).rpc = s.rpc := by
  unfold afterPop; split <;> (try split) <;> rfl
@[simp] theorem afterPop_stop : (afterPop s lv).stop = s.stop := by
  unfold afterPop; split <;> (try split) <;> rfl
@[simp] theorem afterPop_reads : (afterPop s lv).reads = s.reads := by
  unfold afterPop; split <;> (try split) <;> rfl
@[simp] theorem afterPop_ppc : (afterPop s lv).ppc = s.ppc := by
  unfold afterPop; split <;> (try split) <;> rfl
@[simp] theorem afterPop_avail : (afterPop s lv).avail = s.avail := by
  unfold afterPop; split <;> (try split) <;> rfl
@[simp] theorem afterPop_next : (afterPop s lv).next = s.next := by
  unfold afterPop; split <;> (try split) <;> rfl
@[simp] theorem afterPop_inputDone : (afterPop s lv).inputDone = s.inputDone := by
  unfold afterPop; split <;> (try split) <;> rfl
@[simp] theorem afterPop_hdr : (afterPop s lv).hdr = s.hdr := by
  unfold afterPop; split <;> (try split) <;> rfl
@[simp] theorem afterPop_hdrSets : (afterPop s lv).hdrSets = s.hdrSets := by
  unfold afterPop; split <;> (try split) <;> rfl
@[simp] theorem afterPop_nested : (afterPop s lv).nested = s.nested := by
  unfold afterPop; split <;> (try split) <;> rfl
@[simp] theorem afterPop_cur : (afterPop s lv).cur = s.cur := by
  unfold afterPop; split <;> (try split) <;> rfl
@[simp] theorem afterPop_blob : (afterPop s lv).blob = s.blob := by
  unfold afterPop; split <;> (try split) <;> rfl
@[simp] theorem afterPop_work : (afterPop s lv).work = s.work := by
  unfold afterPop; split <;> (try split) <;> rfl
@[simp] theorem afterPop_wpc : (afterPop s lv).wpc = s.wpc := by
  unfold afterPop; split <;> (try split) <;> rfl
@[simp] theorem afterPop_status : (afterPop s lv).status = s.status := by
  unfold afterPop; split <;> (try split) <;> rfl
@[simp] theorem afterPop_hdrGot : (afterPop s lv).hdrGot = s.hdrGot := by
  unfold afterPop; split <;> (try split) <;> rfl
@[simp] theorem afterPop_results : (afterPop s lv).results = s.results := by
  unfold afterPop; split <;> (try split) <;> rfl
@[simp] theorem afterPop_faulted : (afterPop s lv).faulted = s.faulted := by
  unfold afterPop; split <;> (try split) <;> rfl
@[simp] theorem afterPop_sawEod : (afterPop s lv).sawEod = s.sawEod := by
  unfold afterPop; split <;> (try split) <;> rfl
@[simp] theorem afterPop_readsAtClose : (afterPop s lv).readsAtClose = s.readsAtClose := by
  unfold afterPop; split <;> (try split) <;> rfl
@[simp] theorem afterPop_destroyed : (afterPop s lv).destroyed = s.destroyed := by
  unfold afterPop; split <;> (try split) <;> rfl

/-- the three fields `afterPop` changes: with `l` the first (oldest) level -/
theorem afterPop_nil : afterPop s [] = { s with cpc := .readPop } := rfl

@[simp] theorem afterPop_back : (afterPop s lv).back = if lv.length ≤ 1 then s.back else lv.tail := by
  unfold afterPop; split <;> (try split) <;> simp_all
  all_goals (rename_i h _; cases ‹List (List α)› <;> simp_all)

@[simp] theorem afterPop_cpc : (afterPop s lv).cpc =
    if (lv.headD []).isEmpty then .readPop else .ret (.data (lv.headD [])) := by
  unfold afterPop; split <;> (try split) <;> simp_all

@[simp] theorem afterPop_delivered : (afterPop s lv).delivered = s.delivered ++ lv.headD [] := by
  unfold afterPop; split <;> (try split) <;> simp_all

@[simp] theorem afterClose_inq : (afterClose s k).inq = s.inq := by cases k <;> rfl
@[simp] theorem afterClose_outq : (afterClose s k).outq = s.outq := by cases k <;> rfl
@[simp] theorem afterClose_fut : (afterClose s k).fut = s.fut := by cases k <;> rfl
@[simp] theorem afterClose_want : (afterClose s k).want = s.want := by cases k <;> rfl
@[simp] theorem afterClose_nIn : (afterClose s k).nIn = s.nIn := by cases k <;> rfl
@[simp] theorem afterClose_nOut : (afterClose s k).nOut = s.nOut := by cases k <;> rfl
@[simp] theorem afterClose_rpc : (afterClose s k).rpc = s.rpc := by cases k <;> rfl
@[simp] theorem afterClose_stop : (afterClose s k).stop = s.stop := by cases k <;> rfl
@[simp] theorem afterClose_reads : (afterClose s k).reads = s.reads := by cases k <;> rfl
@[simp] theorem afterClose_ppc : (afterClose s k).ppc = s.ppc := by cases k <;> rfl
@[simp] theorem afterClose_avail : (afterClose s k).avail = s.avail := by cases k <;> rfl
@[simp] theorem afterClose_next : (afterClose s k).next = s.next := by cases k <;> rfl
@[simp] theorem afterClose_inputDone : (afterClose s k).inputDone = s.inputDone := by cases k <;> rfl
@[simp] theorem afterClose_hdr : (afterClose s k).hdr = s.hdr := by cases k <;> rfl
@[simp] theorem afterClose_hdrSets : (afterClose s k).hdrSets = s.hdrSets := by cases k <;> rfl
@[simp] theorem afterClose_nested : (afterClose s k).nested = s.nested := by cases k <;> rfl
@[simp] theorem afterClose_cur : (afterClose s k).cur = s.cur := by cases k <;> rfl
@[simp] theorem afterClose_blob : (afterClose s k).blob = s.blob := by cases k <;> rfl
@[simp] theorem afterClose_work : (afterClose s k).work = s.work := by cases k <;> rfl
@[simp] theorem afterClose_wpc : (afterClose s k).wpc = s.wpc := by cases k <;> rfl
@[simp] theorem afterClose_back : (afterClose s k).back = s.back := by cases k <;> rfl
@[simp] theorem afterClose_hdrGot : (afterClose s k).hdrGot = s.hdrGot := by cases k <;> rfl
@[simp] theorem afterClose_delivered : (afterClose s k).delivered = s.delivered := by cases k <;> rfl
@[simp] theorem afterClose_results : (afterClose s k).results = s.results := by cases k <;> rfl
@[simp] theorem afterClose_faulted : (afterClose s k).faulted = s.faulted := by cases k <;> rfl
@[simp] theorem afterClose_sawEod : (afterClose s k).sawEod = s.sawEod := by cases k <;> rfl
@[simp] theorem afterClose_destroyed : (afterClose s k).destroyed = s.destroyed := by cases k <;> rfl
@[simp] theorem afterClose_readsAtClose :
    (afterClose s k).readsAtClose = s.readsAtClose.or (some s.reads) := by cases k <;> rfl
@[simp] theorem afterClose_status :
    (afterClose s k).status = match k with | .rethrow _ => .error | _ => s.status := by cases k <;> rfl
@[simp] theorem afterClose_cpc :
    (afterClose s k).cpc = match k with | .ret => .ret .ok | .rethrow c => .ret (.exc c) | .dtor => .dtorJoinP := by
  cases k <;> rfl

end proj

/-! ## definitions for the status invariant -/

/-- consumer program counters in which the Reader has not started to close -/
def cpcLive : CPc α → Bool
  | .idle | .hdrWait | .readPop | .readWaitPop | .readGot _ | .eodSd | .eodSdRun | .ret _ => true
  | _ => false

/-- consumer program counters inside `m_osmdata_queue.shutdown()` -/
def cpcSdRun : CPc α → Bool
  | .closeSdRun _ | .eodSdRun | .dtorSdRun => true
  | _ => false

/-- the invariant of the consumer's status machine -/
def StatusInv (s : State α) : Prop :=
  (s.status = .okay → s.stop = false ∧ cpcLive s.cpc = true ∧ (s.outq.inUse = true ∨ s.cpc = .eodSdRun)) ∧
  ((s.outq.pc tC = .sdEntered ∨ s.outq.pc tC = .sdFlagged) → cpcSdRun s.cpc = true) ∧
  (s.status = .error → s.cpc = .idle ∨ ∃ r, s.cpc = .ret r)

theorem cpcLive_sdRun (p : CPc α) (h1 : cpcLive p = true) (h2 : cpcSdRun p = true) : p = .eodSdRun := by
  cases p <;> simp_all [cpcLive, cpcSdRun]


/-! ## definitions and helper lemmas for the buffer invariant -/

def isBuf : Val α → Bool
  | .buf _ => true
  | _ => false

def wfVal : Val α → Bool
  | .buf lv => wfLevels lv
  | _ => true

/-- the value the read thread is handing to the input queue -/
def rpcVal : RPc α → Option (Val α)
  | .push v _ | .pushing _ v _ | .pushed _ v _ => some v
  | _ => none

/-- the value the parser thread is handing to the osmdata queue -/
def ppcVal : PPc α → Option (Val α)
  | .push v _ | .pushing _ (some v) _ | .pushed _ v _ => some v
  | _ => none

/-- parser program counters after the catch block of Parser::parse (never back to run()) -/
def ppcPost : PPc α → Bool
  | .push _ k | .pushing _ (some _) k | .pushed _ _ k | .sdIn k | .sdInRun k => k != .run
  | .done => true
  | _ => false

/-- consumer program counters in which `m_back_buffers` is empty: inside read() before a buffer was
    unpacked, and inside the close() of a catch block -/
def cpcBackNil : CPc α → Bool
  | .readPop | .readWaitPop | .readGot _ | .eodSd | .eodSdRun
  | .closeSd (.rethrow _) | .closeSdRun (.rethrow _) | .closeJoin (.rethrow _) => true
  | _ => false

def NoBuf (s : State α) : Prop :=
  (∀ id, isBuf (s.want id) = false) ∧ (∀ id v, s.fut id = some v → isBuf v = false) ∧
  (∀ v, ppcVal s.ppc = some v → isBuf v = false) ∧ s.nested = [] ∧ s.cur = [] ∧ s.back = []

def BufInv (s : State α) : Prop :=
  (∀ v, rpcVal s.rpc = some v → isBuf v = false) ∧
  (∀ l ∈ s.nested, l ≠ []) ∧
  (∀ id, wfVal (s.want id) = true) ∧
  (∀ id v, s.fut id = some v → wfVal v = true) ∧
  (∀ v, ppcVal s.ppc = some v → wfVal v = true) ∧
  (cpcBackNil s.cpc = true → s.back = []) ∧
  (s.status = .error → s.back = []) ∧
  (s.hdr ≠ some none → NoBuf s) ∧
  (∀ code, s.hdr = some (some code) → ppcPost s.ppc = true)

theorem wfLevels_append_singleton (n : List (List α)) (cur : List α) (h : ∀ l ∈ n, l ≠ []) :
    wfLevels (n ++ [cur]) = true := by
  induction n with
  | nil => simp [wfLevels]
  | cons a n ih =>
    cases n with
    | nil => simp_all [wfLevels]
    | cons b n => simp_all [wfLevels]

theorem isBuf_false_wfVal (v : Val α) (h : isBuf v = false) : wfVal v = true := by
  cases v <;> simp_all [isBuf, wfVal]

theorem afterPop_backNil (s : State α) (lv : List (List α)) (hw : wfLevels lv = true) (hb : s.back = [])
    (hc : cpcBackNil (afterPop s lv).cpc = true) : (afterPop s lv).back = [] := by
  unfold afterPop at hc ⊢
  split at hc <;> (try split at hc) <;> simp_all [wfLevels, cpcBackNil]

theorem hdr_cases (h : Option (Option Nat)) : h = none ∨ h = some none ∨ ∃ c, h = some (some c) := by
  rcases h with _ | _ | c <;> simp

theorem ppcVal_pCont (k : PK) (v : Val α) (h : ppcVal (pCont k : PPc α) = some v) : v = .eod := by
  cases k <;> simp_all [pCont, ppcVal]

theorem rpcVal_rCont (k : RK) (v : Val α) (h : rpcVal (rCont k : RPc α) = some v) : v = .eod := by
  cases k <;> simp_all [rCont, rpcVal]

theorem ppcVal_pCont_iff (k : PK) (v : Val α) : ppcVal (pCont k : PPc α) = some v ↔ (k = .eodNext ∧ v = .eod) := by
  cases k <;> simp [pCont, ppcVal, eq_comm]

theorem rpcVal_rCont_iff (k : RK) (v : Val α) : rpcVal (rCont k : RPc α) = some v ↔ (k = .eodNext ∧ v = .eod) := by
  cases k <;> simp [rCont, rpcVal, eq_comm]

theorem ppcPost_pCont (k : PK) (h : (k != .run) = true) : ppcPost (pCont k : PPc α) = true := by
  cases k <;> simp_all [pCont, ppcPost]

theorem cpcBackNil_closeSdRun (k : CK) : cpcBackNil (.closeSdRun k : CPc α) = cpcBackNil (.closeSd k : CPc α) := by
  cases k <;> rfl
theorem cpcBackNil_closeJoin (k : CK) : cpcBackNil (.closeJoin k : CPc α) = cpcBackNil (.closeSd k : CPc α) := by
  cases k <;> rfl

theorem wfLevels_single (b : List α) : wfLevels [b] = true := rfl

variable [DecidableEq α]

/-- Case split of one pipeline step over all events (queue events split into the thirteen QueueSM
    events).  In every goal `s'` is replaced by the successor state; for a queue event the new
    queue state is `q` and `hq : QueueSM.step? _ _ _ = some q`; the guards are anonymous
    hypotheses. -/
syntax "pl_cases " ident " with " ident ident ident : tactic
macro_rules
  | `(tactic| pl_cases $e:ident with $h:ident $q:ident $hq:ident) => `(tactic|
      ((try simp only [Machine.Step, machine] at $h:ident)
       cases $e:ident <;> (try (rename_i qe; cases qe)) <;>
         simp only [step?] at $h:ident <;> (repeat' split at $h:ident) <;>
         simp only [Option.map_eq_some_iff, Option.some.injEq, reduceCtorEq, false_and, exists_false] at $h:ident <;>
         first
           | (obtain ⟨$q:ident, $hq:ident, $h:ident⟩ := $h:ident; (repeat' split at $h:ident) <;> subst $h:ident)
           | subst $h:ident))

/-! ## frame lemmas of the queue machine (who can change what) -/

section qframe
variable {β : Type} [DecidableEq β]

theorem q_producers (c : QueueSM.Cfg) (s s' : QueueSM.State β) (e : QueueSM.Ev β)
    (h : QueueSM.step? c s e = some s') :
    ∀ t, t ∈ s'.producers → t ∈ s.producers ∨ ∃ x, e = .pushEnter t x := by
  replace h : (QueueSM.machine β c).Step s e s' := h
  qsm_cases e with h tid t <;> intro u hu <;> simp only [QueueSM.take_producers] at hu <;>
    first | grind | (simp_all; done) | (simp_all <;> grind)

theorem q_called (c : QueueSM.Cfg) (s s' : QueueSM.State β) (e : QueueSM.Ev β)
    (h : QueueSM.step? c s e = some s') :
    ∀ x, x ∈ s'.called → x ∈ s.called ∨ e = .pushEnter x.1 x.2 := by
  replace h : (QueueSM.machine β c).Step s e s' := h
  qsm_cases e with h tid t <;> intro u hu <;> simp only [QueueSM.take_called] at hu <;> grind

/-- a thread is inside shutdown() only after it called it, and leaves it with `sdLocked` -/
theorem q_pc_sd (c : QueueSM.Cfg) (s s' : QueueSM.State β) (e : QueueSM.Ev β)
    (h : QueueSM.step? c s e = some s') (u : Tid) :
    (s'.pc u = .sdEntered ∨ s'.pc u = .sdFlagged) →
      ((s.pc u = .sdEntered ∨ s.pc u = .sdFlagged) ∧ e ≠ .sdLocked u) ∨ e = .sdEnter u := by
  replace h : (QueueSM.machine β c).Step s e s' := h
  qsm_cases e with h tid t <;> simp only [QueueSM.take_pc, setPc_apply] <;> grind

theorem q_pc_pop (c : QueueSM.Cfg) (s s' : QueueSM.State β) (e : QueueSM.Ev β)
    (h : QueueSM.step? c s e = some s') (u : Tid) :
    s'.pc u = .popWaiting → s.pc u = .popWaiting ∨ e = .popBlock u := by
  replace h : (QueueSM.machine β c).Step s e s' := h
  qsm_cases e with h tid t <;> simp only [QueueSM.take_pc, setPc_apply] <;> grind

/-- `m_in_use` is only cleared by the store of a thread inside shutdown() -/
theorem q_inUse (c : QueueSM.Cfg) (s s' : QueueSM.State β) (e : QueueSM.Ev β)
    (h : QueueSM.step? c s e = some s') :
    s'.inUse = false → s.inUse = false ∨ ∃ t, e = .sdFlag t ∧ s.pc t = .sdEntered := by
  replace h : (QueueSM.machine β c).Step s e s' := h
  qsm_cases e with h tid t <;> simp only [QueueSM.take_inUse] <;> grind

end qframe

end Osmium.Pipeline
