/-
Queue-of-futures order (C05), part B: invariant A (future ids).
-/
import Osmium.Lemmas.PipelineOrderB1
import Osmium.Lemmas.PipelineOrderB2

namespace Osmium.Pipeline.Order

open Osmium.Mon Osmium.Pipeline

variable {α : Type} [DecidableEq α]

theorem invA (c : Cfg α) : ∀ s, (machine c).Reachable s → InvA s := by
  apply Machine.invariant
  · constructor <;> simp [machine, init, QueueSM.init]
  · intro s e s' hr ih hst
    by_cases he : e.ctorIdx < 2
    · exact invA_step_lo c s e s' hr ih hst he
    · exact invA_step_hi c s e s' hr ih hst he

end Osmium.Pipeline.Order
