/-
C03 — lemmas: every string the PBF decoder passes to a builder comes out of the (length-checked)
string table.

Helper files: HostilePbfBase.lean (fold invariants, string table, info/tags/members) and
HostilePbfObj.lean (node/way/relation/dense nodes, groups, blocks, files).  The invariant carried
through every loop is `ObjOk o` = all strings of `o` are ≤ 1024 bytes and NUL-free ∧ `o` is not a changeset.
-/
import Osmium.Model.HostilePbf
import Osmium.Lemmas.HostilePbfObj

namespace Osmium.HostilePbf

open Osmium.Osm Osmium.Pbf Osmium.PbfMsg Osmium.Wire

/-- MAIN TARGET: every string of every object decoded from ANY field list of a PrimitiveBlock is at
    most `max_osm_string_length` (1024) bytes long: it is an entry of the string table (entries
    longer than that make `decode_stringtable` throw) or the empty default. -/
theorem decodeBlock_strings_le (r : ROpts) (fs : List Field) (objs : List Object)
    (h : decodeBlock r fs = some objs) :
    ∀ o ∈ objs, ∀ s ∈ strsOf o, s.length ≤ maxOsmStringLength :=
  fun o ho s hs => ((decodeBlock_ok r fs objs h o ho).1 s hs).1

/-- … and contains no NUL byte: `decode_stringtable` rejects entries with an embedded NUL
    (repair da64936), the empty default has none -/
theorem decodeBlock_strings_nulfree (r : ROpts) (fs : List Field) (objs : List Object)
    (h : decodeBlock r fs = some objs) : ∀ o ∈ objs, NulFree o :=
  fun o ho s hs => ((decodeBlock_ok r fs objs h o ho).1 s hs).2

theorem decodeFile_allOk (r : ROpts) (bs : Bytes) (h : Header) (objs : List Object)
    (hd : decodeFile noInflate r bs = some (h, objs)) : AllOk objs :=
  decodeFile_inv AllOk (by intro o ho; cases ho) (fun _ _ => allOk_append)
    (fun inflate r blob objs => decodeDataBlob_ok inflate r blob objs) noInflate r bs h objs hd

/-- the same for a whole file (any byte string): blobs → blocks → objects -/
theorem decodeFile_strings_le (r : ROpts) (bs : Bytes) (h : Header) (objs : List Object)
    (hd : decodeFile noInflate r bs = some (h, objs)) :
    ∀ o ∈ objs, ∀ s ∈ strsOf o, s.length ≤ maxOsmStringLength :=
  fun o ho s hs => ((decodeFile_allOk r bs h objs hd o ho).1 s hs).1

/-- no string of any object decoded from ANY byte string contains a NUL byte (repair da64936) -/
theorem decodeFile_strings_nulfree (r : ROpts) (bs : Bytes) (h : Header) (objs : List Object)
    (hd : decodeFile noInflate r bs = some (h, objs)) : ∀ o ∈ objs, NulFree o :=
  fun o ho s hs => ((decodeFile_allOk r bs h objs hd o ho).1 s hs).2

/-- the decoder never produces changesets -/
theorem decodeFile_no_changeset (r : ROpts) (bs : Bytes) (h : Header) (objs : List Object)
    (hd : decodeFile noInflate r bs = some (h, objs)) :
    ∀ o ∈ objs, ∀ a b c d e f g i j k l, o ≠ .changeset a b c d e f g i j k l := by
  intro o ho a b c d e f g i j k l heq
  have := (decodeFile_allOk r bs h objs hd o ho).2
  rw [heq] at this
  exact this

end Osmium.HostilePbf
