/-
Complete reads (C05 exactly-once corollary, C07 first-error clause) — shared base of the
PipelineComplete*/PipelineShapeOut* files: the closed forms of `afterPop`/`afterClose`, the
event case-split tactic `pc_cases`, and the STATEMENTS (structures) of all invariants of the
output side.  No heavy proofs here.
-/
import Osmium.Lemmas.PipelineOrder
import Osmium.Lemmas.PipelineShapeIn

set_option linter.unusedSimpArgs false
set_option linter.unusedVariables false

namespace Osmium.Pipeline
open Osmium.Mon
variable {α : Type} [DecidableEq α]

namespace Complete

def apBack (s : State α) (lv : List (List α)) : List (List α) := if lv.length ≤ 1 then s.back else lv.tail
def apCpc (lv : List (List α)) : CPc α := if (lv.headD []).isEmpty then .readPop else .ret (.data (lv.headD []))

omit [DecidableEq α] in
theorem cx_afterPop (s : State α) (lv : List (List α)) :
    afterPop s lv = { s with back := apBack s lv, cpc := apCpc lv, delivered := s.delivered ++ lv.headD [] } := by
  unfold afterPop apBack apCpc
  split <;> (try split) <;> simp_all
  all_goals (rename_i h; cases ‹List (List α)› <;> simp_all)

def acStatus (s : State α) : CK → Status
  | .rethrow _ => .error
  | _ => s.status
def acCpc : CK → CPc α
  | .ret => .ret .ok
  | .rethrow c => .ret (.exc c)
  | .dtor => .dtorJoinP

omit [DecidableEq α] in
theorem cx_afterClose (s : State α) (k : CK) :
    afterClose s k = { s with readsAtClose := s.readsAtClose.or (some s.reads), status := acStatus s k, cpc := acCpc k } := by
  cases k <;> rfl

syntax "pc_cases " ident " with " ident : tactic
macro_rules
  | `(tactic| pc_cases $e:ident with $h:ident) => `(tactic|
      ((try simp only [Machine.Step, machine] at $h:ident)
       cases $e:ident <;> (try (rename_i qe; cases qe)) <;>
         simp only [step?] at $h:ident <;> (repeat' split at $h:ident) <;>
         simp only [Option.map_eq_some_iff, Option.some.injEq, reduceCtorEq, false_and, exists_false] at $h:ident <;>
         first
           | (obtain ⟨q, hq, $h:ident⟩ := $h:ident
              simp only [QueueSM.step?] at hq
              (repeat' split at hq) <;> simp only [Option.some.injEq, reduceCtorEq] at hq <;> subst hq <;>
              (repeat' split at $h:ident) <;> subst $h:ident)
           | (subst $h:ident; try simp only [cx_afterPop, cx_afterClose])))

omit [DecidableEq α] in
theorem wf_snoc (l : List (List α)) (x : List α) (h : ∀ y ∈ l, y ≠ []) : wfLevels (l ++ [x]) = true := by
  induction l with
  | nil => rfl
  | cons a l ih =>
    have := ih (fun y hy => h y (List.mem_cons_of_mem _ hy))
    cases l with
    | nil => simp_all [wfLevels]
    | cons b l => simp_all [wfLevels]

omit [DecidableEq α] in
theorem wf_head (lv : List (List α)) (h : wfLevels lv = true) (he : (lv.headD []).isEmpty = true) : lv.length ≤ 1 := by
  match lv with
  | [] => simp
  | [_] => simp
  | a :: b :: r => simp_all [wfLevels]

/-- the value the parser thread is about to push / is pushing / has pushed and not yet set -/
def pVal : PPc α → Option (Val α)
  | .push v _ | .pushing _ (some v) _ | .pushed _ v _ => some v
  | _ => none

def okVal : Val α → Prop
  | .buf lv => wfLevels lv = true
  | _ => True

/-! ### A: buffer values -/
structure InvA (s : State α) : Prop where
  nested_ne : ∀ l ∈ s.nested, l ≠ []
  cur_ne : s.nested ≠ [] → s.cur ≠ []
  want_ok : ∀ id, okVal (s.want id)
  fut_ok : ∀ id v, s.fut id = some v → okVal v
  p_ok : ∀ v, pVal s.ppc = some v → okVal v
  r_ok : ∀ v, rHeld s.rpc = some v → okVal v

/-! ### B: consumer discipline (status / back buffers) -/
def inR : CPc α → Prop
  | .readPop | .readWaitPop | .readGot _ | .eodSd | .eodSdRun => True
  | _ => False

def inClose : CPc α → Prop
  | .closeSd _ | .closeSdRun _ | .closeJoin _ | .dtorJoinP | .dtorSd | .dtorSdRun | .dead | .eofJoin => True
  | _ => False

structure InvB (c : Cfg α) (s : State α) : Prop where
  b_R : inR s.cpc → s.back = [] ∧ s.status = .okay ∧ c.nothing = false
  b_saw : s.sawEod = true → s.status ≠ .okay ∧ s.back = [] ∧ c.nothing = false
  b_close : inClose s.cpc → s.status ≠ .okay

/-! ### N: future ids -/
/-- read-thread side -/
structure InvN1 (s : State α) : Prop where
  n_rpc : ∀ id v k, s.rpc = .pushing id v k ∨ s.rpc = .pushed id v k → id % 2 = 0 ∧ id < 2 * s.nIn ∧ s.want id = v
  n_ic : ∀ y ∈ s.inq.called, y.2 % 2 = 0 ∧ y.2 < 2 * s.nIn
  n_rin : ∀ id v k, s.rpc = .pushing id v k ∨ s.rpc = .pushed id v k → ∃ y ∈ s.inq.called, y.2 = id

/-- parser side: thread pcs and pool -/
structure InvN2 (s : State α) : Prop where
  n_ppc : ∀ id v k, s.ppc = .pushing id (some v) k ∨ s.ppc = .pushed id v k → id % 2 = 1 ∧ id < 2 * s.nOut ∧ s.want id = v
  n_ppcf : ∀ id k, s.ppc = .pushFut id k ∨ s.ppc = .pushing id none k → id % 2 = 1 ∧ id < 2 * s.nOut
  n_work : ∀ id, id ∈ s.work → id % 2 = 1 ∧ id < 2 * s.nOut
  n_wpc : ∀ w id, s.wpc w = some id → id % 2 = 1 ∧ id < 2 * s.nOut

/-- parser side: the osmdata queue -/
structure InvN3 (s : State α) : Prop where
  n_oc : ∀ y ∈ s.outq.called, y.2 % 2 = 1 ∧ y.2 < 2 * s.nOut ∧ y.1 = tP
  n_pin : ∀ id ov k, s.ppc = .pushing id ov k → ∃ y ∈ s.outq.called, y.2 = id
  n_pin2 : ∀ id v k, s.ppc = .pushed id v k → ∃ y ∈ s.outq.called, y.2 = id

/-- futures -/
structure InvN4 (s : State α) : Prop where
  n_fut : ∀ id v, s.fut id = some v → v = s.want id ∧ (id % 2 = 0 → id < 2 * s.nIn) ∧ (id % 2 = 1 → id < 2 * s.nOut)

structure InvN (s : State α) : Prop extends InvN1 s, InvN2 s, InvN3 s, InvN4 s

/-! ### J: only the consumer shuts the osmdata queue down -/
structure InvJ (s : State α) : Prop where
  j_pc : s.outq.pc tC = .sdEntered ∨ s.outq.pc tC = .sdFlagged →
    (∃ k, s.cpc = .closeSdRun k) ∨ s.cpc = .eodSdRun ∨ s.cpc = .dtorSdRun
  j_use : s.outq.inUse = false → s.status ≠ .okay ∨ s.cpc = .eodSdRun
  j_stop : s.stop = true → s.status ≠ .okay

/-! ### O: shape of what the parser hands to push() of the osmdata queue -/
/-- the parser is past the push() call of its end marker -/
def pFin : PPc α → Prop
  | .pushing _ _ .dtor | .pushed _ _ .dtor | .sdIn .exit | .sdInRun .exit | .done => True
  | _ => False

/-- a future with an exception was handed to push() of the osmdata queue -/
def OutExc (s : State α) : Prop := ∃ y ∈ s.outq.called, isExc (s.want y.2)
/-- the end marker was handed to push() of the osmdata queue -/
def OutEod (s : State α) : Prop := ∃ y ∈ s.outq.called, s.want y.2 = .eod

/-- an exception is on its way from the parser to the consumer -/
def EvP (s : State α) : Prop :=
  (∃ code, s.ppc = .caught code) ∨ (∃ v, pVal s.ppc = some v ∧ isExc v) ∨
  (∃ id k, s.ppc = .pushFut id k ∧ isExc (s.want id)) ∨ OutExc s

/-- `Parser::run()` returned normally -/
def CleanEnd (c : Cfg α) (s : State α) : Prop :=
  s.cur = [] ∧ s.nested = [] ∧
    (c.nothing = true ∨ s.outq.inUse = false ∨ (s.inputDone = true ∧ s.next = s.avail))

structure InvO (c : Cfg α) (s : State α) : Prop where
  /-- the end marker is the LAST future handed to push() -/
  o_last : ∀ y ∈ s.outq.called.dropLast, s.want y.2 ≠ .eod
  o_fin : OutEod s → pFin s.ppc
  /-- an end marker is preceded by an exception or run() returned normally -/
  o_clean : OutEod s → OutExc s ∨ CleanEnd c s
  o_push : ∀ k, s.ppc = .push .eod k → OutExc s ∨ CleanEnd c s
  /-- continuation `eodNext` only after an exception, the end marker only with continuation `dtor` -/
  o_next : ∀ v k,
    (s.ppc = .push v k ∨ (∃ id, s.ppc = .pushing id (some v) k) ∨ (∃ id, s.ppc = .pushed id v k)) →
    (k = .eodNext → isExc v) ∧ (v = .eod → k = .dtor)
  o_futv : ∀ id k, s.ppc = .pushFut id k ∨ s.ppc = .pushing id none k → s.want id ≠ .eod ∧ k = .run

/-! ### D: consumer discipline w.r.t. the osmdata queue -/
structure InvD (s : State α) : Prop where
  /-- read() stops popping at an exception / at the end marker -/
  d_end : s.status = .okay → ∀ p ∈ s.outq.popped, (isExc (s.want p.2.2) ∨ s.want p.2.2 = .eod) →
    s.cpc = .readGot p.2.2 ∨ s.cpc = .eodSd ∨ s.cpc = .eodSdRun
  /-- the future read() holds is the one popped last -/
  d_got : ∀ id, s.cpc = .readGot id → ∃ l p, s.outq.popped = l ++ [p] ∧ p.2.2 = id
  d_pop : ∀ p ∈ s.outq.popped, p.2.2 % 2 = 1 ∧ p.2.2 < 2 * s.nOut
  d_items : ∀ y ∈ s.outq.items, y.2 % 2 = 1 ∧ y.2 < 2 * s.nOut
  d_fl : ∀ y ∈ QueueSM.inflight s.outq tP, y.2 % 2 = 1 ∧ y.2 < 2 * s.nOut

/-! ### Z: every fault is on its way to the consumer -/
structure InvZ (s : State α) : Prop where
  z : s.faulted = true → InExc s ∨ EvP s

end Complete

end Osmium.Pipeline
