/-
C02, PBF: the DenseNodes message of the specification encoder, taken apart: its DenseInfo field list and the
arrays the decoder loop walks over.
-/
import Osmium.Lemmas.PbfSpecGrid

namespace Osmium.Pbf

open Osmium.Wire Osmium.Osm Osmium.PbfMsg
open Osmium.PbfSpec (Choices)

/-- version as written: 0 may be written as the .proto default -1 -/
def specVersion (ch : Choices) (m : Meta) : Int := if m.version == 0 && ch.versionMinusOne then -1 else m.version

/-- the DenseInfo fields (the `info` of `PbfSpec.denseMsg`) -/
def specDenseInfo (ch : Choices) (table : List Bytes) (hist : Bool) (ns : List (Meta × Location)) : List Field :=
  let ms := ns.map (·.1)
  let od := ch.omitDefaults
  (if od && ms.all (·.version == 0) then [] else
    [PbfSpec.fBytes 1 (pack (ms.map fun m => PbfSpec.u64 (if m.version == 0 && ch.versionMinusOne then -1 else m.version)))]) ++
  (if od && ms.all (·.timestamp == 0) then [] else
    [PbfSpec.fBytes 2 (pack ((PbfSpec.delta 0 (ms.map fun m => PbfSpec.stamp ch.dateGranularity m.timestamp)).map zigzag64))]) ++
  (if od && ms.all (·.changeset == 0) then [] else
    [PbfSpec.fBytes 3 (pack ((PbfSpec.delta 0 (ms.map fun m => (m.changeset : Int))).map zigzag64))]) ++
  (if od && ms.all (·.uid == 0) then [] else
    [PbfSpec.fBytes 4 (pack ((PbfSpec.delta 0 (ms.map fun m => (m.uid : Int))).map PbfSpec.zigzag32))]) ++
  (if od && ms.all (·.user.isEmpty) then [] else
    [PbfSpec.fBytes 5 (pack ((PbfSpec.delta 0 (ms.map fun m => (PbfSpec.idx table m.user : Int))).map PbfSpec.zigzag32))]) ++
  (if (od || !hist) && ms.all (·.visible) then [] else
    [PbfSpec.fBytes 6 (pack (ms.map fun m => if m.visible then 1 else 0))])

/-- the canonical field list of the DenseNodes message -/
def specDenseFields (ch : Choices) (table : List Bytes) (hist : Bool) (ns : List (Meta × Location)) : List Field :=
  [PbfSpec.fBytes 1 (pack ((PbfSpec.delta 0 ((ns.map (·.1)).map (·.id))).map zigzag64))] ++
  (if (specDenseInfo ch table hist ns).isEmpty then [] else
    [PbfSpec.fBytes 5 (PbfSpec.msg ch PbfSpec.kDenseInfo (specDenseInfo ch table hist ns))]) ++
  [PbfSpec.fBytes 8 (pack ((PbfSpec.delta 0 (ns.map fun n => PbfSpec.coord ch.granularity ch.latOffset n.2.y)).map zigzag64)),
   PbfSpec.fBytes 9 (pack ((PbfSpec.delta 0 (ns.map fun n => PbfSpec.coord ch.granularity ch.lonOffset n.2.x)).map zigzag64))] ++
  (if ch.omitDefaults && (ns.map (·.1)).all (·.tags.isEmpty) then [] else
    [PbfSpec.fBytes 10 (pack ((ns.map (·.1)).flatMap fun m =>
      (m.tags.flatMap fun t => [PbfSpec.idx table t.key, PbfSpec.idx table t.value]) ++ [0]))])

theorem spec_denseMsg_eq (ch : Choices) (table : List Bytes) (hist : Bool) (ns : List (Meta × Location)) :
    PbfSpec.denseMsg ch table hist ns = PbfSpec.msg ch PbfSpec.kDense (specDenseFields ch table hist ns) := rfl

/-- the arrays as the decoder loop sees them after `unpack` (array omitted = empty) -/
def specDenseCur (ch : Choices) (table : List Bytes) (hist : Bool) (ns : List (Meta × Location)) : DenseCur :=
  let ms := ns.map (·.1)
  let od := ch.omitDefaults
  { ids := (PbfSpec.delta 0 (ms.map (·.id))).map zigzag64,
    lats := (PbfSpec.delta 0 (ns.map fun n => PbfSpec.coord ch.granularity ch.latOffset n.2.y)).map zigzag64,
    lons := (PbfSpec.delta 0 (ns.map fun n => PbfSpec.coord ch.granularity ch.lonOffset n.2.x)).map zigzag64,
    tags := if od && ms.all (·.tags.isEmpty) then [] else
      ms.flatMap fun m => (m.tags.flatMap fun t => [PbfSpec.idx table t.key, PbfSpec.idx table t.value]) ++ [0],
    versions := if od && ms.all (·.version == 0) then [] else
      ms.map fun m => PbfSpec.u64 (if m.version == 0 && ch.versionMinusOne then -1 else m.version),
    timestamps := if od && ms.all (·.timestamp == 0) then [] else
      (PbfSpec.delta 0 (ms.map fun m => PbfSpec.stamp ch.dateGranularity m.timestamp)).map zigzag64,
    changesets := if od && ms.all (·.changeset == 0) then [] else
      (PbfSpec.delta 0 (ms.map fun m => (m.changeset : Int))).map zigzag64,
    uids := if od && ms.all (·.uid == 0) then [] else
      (PbfSpec.delta 0 (ms.map fun m => (m.uid : Int))).map PbfSpec.zigzag32,
    userSids := if od && ms.all (·.user.isEmpty) then [] else
      (PbfSpec.delta 0 (ms.map fun m => (PbfSpec.idx table m.user : Int))).map PbfSpec.zigzag32,
    visibles := if (od || !hist) && ms.all (·.visible) then [] else ms.map fun m => if m.visible then 1 else 0 }

/-- every array entry is a uint64 (so that `unpack (pack a) = a`) -/
def CurLt64 (c : DenseCur) : Prop :=
  (∀ v ∈ c.ids, v < 2 ^ 64) ∧ (∀ v ∈ c.lats, v < 2 ^ 64) ∧ (∀ v ∈ c.lons, v < 2 ^ 64) ∧ (∀ v ∈ c.tags, v < 2 ^ 64) ∧
  (∀ v ∈ c.versions, v < 2 ^ 64) ∧ (∀ v ∈ c.timestamps, v < 2 ^ 64) ∧ (∀ v ∈ c.changesets, v < 2 ^ 64) ∧
  (∀ v ∈ c.uids, v < 2 ^ 64) ∧ (∀ v ∈ c.userSids, v < 2 ^ 64) ∧ (∀ v ∈ c.visibles, v < 2 ^ 64)

/-- a dense group is expressible: every node is, and the ids form a sint64 delta chain -/
def DenseRep (ch : Choices) (ns : List (Meta × Location)) : Prop :=
  (∀ n ∈ ns, ObjRep ch (.node n.1 n.2)) ∧ DeltaRep 0 (ns.map (·.1.id))

end Osmium.Pbf
