/-
C02, PBF: `decode_way` on the specification encoder's Way message.
-/
import Osmium.Lemmas.PbfSpecMeta

namespace Osmium.Pbf

open Osmium.Wire Osmium.Osm Osmium.PbfMsg
open Osmium.PbfSpec (Choices)

/-- the cases of `decode_way`'s `switch` for different (tag, wire type) commute: 1 / 8 / 9 / 10 set id / refs / lats /
    lons, 2 / 3 / 4 set keys / vals / (info, user), and `decode_info` reads the info slot only -/
theorem spec_way_commutes (p : Params) (r : ROpts) : CommutesOn (wayStep p r) (fun _ => True) := by
  intro s f g _ _ hk
  obtain ⟨t1, w1, v1, p1⟩ := f
  obtain ⟨t2, w2, v2, p2⟩ := g
  simp only [key, ne_eq, Prod.mk.injEq, not_and] at hk
  unfold wayStep metaStep
  dsimp only
  split <;> split <;> (try (simp_all; done)) <;> (try simp only [Option.bind_some])
  all_goals (repeat' split)
  all_goals (try (simp_all; done))
  all_goals (first
    | (rcases h : decodeInfo p s.info p2 with _ | x <;> simp_all <;> done)
    | (rcases h : decodeInfo p s.info p1 with _ | x <;> simp_all <;> done))

/-- the canonical field list of the spec's Way message -/
def specWayFields (ch : Choices) (table : List Bytes) (hist : Bool) (m : Meta) (ns : List NodeRef) : List Field :=
  [PbfSpec.fInt 1 m.id] ++ PbfSpec.metaFields ch table hist m ++
    PbfSpec.fPacked ch.omitDefaults 8 ((PbfSpec.delta 0 (ns.map (·.ref))).map zigzag64) ++
    (if ns.any (fun n => n.location != Location.undefined) then
      PbfSpec.fPacked false 9
        ((PbfSpec.delta 0 (ns.map fun n => PbfSpec.coord ch.granularity ch.latOffset n.location.y)).map zigzag64) ++
      PbfSpec.fPacked false 10
        ((PbfSpec.delta 0 (ns.map fun n => PbfSpec.coord ch.granularity ch.lonOffset n.location.x)).map zigzag64)
     else [])

theorem spec_way_msg_eq (ch : Choices) (table : List Bytes) (hist : Bool) (m : Meta) (ns : List NodeRef) :
    PbfSpec.wayMsg ch table hist m ns = PbfSpec.msg ch PbfSpec.kWay (specWayFields ch table hist m ns) := rfl

theorem spec_way_fPacked_shape (od : Bool) (tag : Nat) (vs : List Nat) :
    ∀ f ∈ PbfSpec.fPacked od tag vs, f.wt = .lengthDelimited ∧ f.tag = tag ∧ f.val = 0 := by
  intro f hf
  unfold PbfSpec.fPacked at hf
  split at hf <;> simp only [List.mem_nil_iff, List.mem_singleton] at hf
  subst hf
  simp [PbfSpec.fBytes]

/-- shape of the canonical fields: the id, or a length-delimited field with a small tag -/
theorem spec_way_fields_shape (ch : Choices) (table : List Bytes) (hist : Bool) (m : Meta) (ns : List NodeRef) :
    ∀ f ∈ specWayFields ch table hist m ns,
      f = PbfSpec.fInt 1 m.id ∨ (f.wt = .lengthDelimited ∧ 0 < f.tag ∧ f.tag ≤ 10 ∧ f.val = 0) := by
  intro f hf
  unfold specWayFields at hf
  simp only [List.mem_append, List.mem_singleton] at hf
  rcases hf with ((hf | hf) | hf) | hf
  · exact Or.inl hf
  · obtain ⟨hw, ht, hv⟩ := spec_metaFields_shape ch table hist m f hf
    exact Or.inr ⟨hw, by omega, by omega, hv⟩
  · obtain ⟨hw, ht, hv⟩ := spec_way_fPacked_shape _ _ _ f hf
    exact Or.inr ⟨hw, by omega, by omega, hv⟩
  · split at hf
    · rcases List.mem_append.mp hf with hf | hf
      · obtain ⟨hw, ht, hv⟩ := spec_way_fPacked_shape _ _ _ f hf
        exact Or.inr ⟨hw, by omega, by omega, hv⟩
      · obtain ⟨hw, ht, hv⟩ := spec_way_fPacked_shape _ _ _ f hf
        exact Or.inr ⟨hw, by omega, by omega, hv⟩
    · simp at hf

theorem spec_way_fields_wf (ch : Choices) (table : List Bytes) (hist : Bool) (m : Meta) (ns : List NodeRef)
    (hlen : (PbfSpec.wayMsg ch table hist m ns).length < 2 ^ 32) :
    ∀ f ∈ specWayFields ch table hist m ns, f.WF := by
  intro f hf
  rcases spec_way_fields_shape ch table hist m ns f hf with h | ⟨hw, ht0, ht, hv⟩
  · subst h
    exact wf_varint 1 _ (by decide) (by decide) (u64_lt _)
  · have hp := payload_le_msg ch PbfSpec.kWay _ f hf hw
    rw [← spec_way_msg_eq] at hp
    obtain ⟨tag, wt, val, payload⟩ := f
    simp only at hw ht0 ht hv hp
    subst hw hv
    refine ⟨ht0, by simp only [Nat.reducePow]; omega, by simp only; omega, rfl, ?_⟩
    exact Nat.lt_of_le_of_lt hp hlen

/-! ### DELTA arrays of the spec through `DeltaDecode` -/

theorem spec_way_decGo_delta : ∀ (xs : List Int) (p : Int), (∀ x ∈ xs, IdOk x) →
    Delta.decGo p (PbfSpec.delta p xs) = xs
  | [], _, _ => rfl
  | x :: xs, p, h => by
    have hx := h x List.mem_cons_self
    have e : p + (x - p) = x := by omega
    simp only [PbfSpec.delta, Delta.decGo]
    rw [e, Delta.swrap64_id x hx.1 hx.2, spec_way_decGo_delta xs x (fun y hy => h y (List.mem_cons_of_mem _ hy))]

theorem spec_way_dec_delta (xs : List Int) (h : ∀ x ∈ xs, IdOk x) : Delta.dec (PbfSpec.delta 0 xs) = xs :=
  spec_way_decGo_delta xs 0 h

theorem spec_way_delta_lt : ∀ (xs : List Int) (p : Int), DeltaRep p xs →
    ∀ v ∈ (PbfSpec.delta p xs).map zigzag64, v < 2 ^ 64
  | [], _, _ => by simp [PbfSpec.delta]
  | x :: xs, p, h => by
    intro v hv
    simp only [PbfSpec.delta, List.map_cons, List.mem_cons] at hv
    rcases hv with rfl | hv
    · exact zigzag_lt _ h.1.1 h.1.2
    · exact spec_way_delta_lt xs x h.2 v hv

/-- values within ±2^62 form a delta chain within int64 -/
theorem spec_way_deltaRep_of_bound : ∀ (xs : List Int) (p : Int), (-(2:Int) ^ 62 < p ∧ p < (2:Int) ^ 62) →
    (∀ x ∈ xs, -(2:Int) ^ 62 < x ∧ x < (2:Int) ^ 62) → DeltaRep p xs
  | [], _, _, _ => trivial
  | x :: xs, p, hp, h => by
    have hx := h x List.mem_cons_self
    refine ⟨?_, spec_way_deltaRep_of_bound xs x hx (fun y hy => h y (List.mem_cons_of_mem _ hy))⟩
    unfold IdOk
    simp only [Int.reducePow] at *
    omega

/-- a delta-coded sint64 array as the spec packs it and the reader unpacks it -/
theorem spec_way_packed_delta (xs : List Int) (hd : DeltaRep 0 xs) (h : ∀ x ∈ xs, IdOk x) :
    unpack (pack ((PbfSpec.delta 0 xs).map zigzag64)) = some ((PbfSpec.delta 0 xs).map zigzag64) ∧
    Delta.dec (((PbfSpec.delta 0 xs).map zigzag64).map unzigzag64) = xs := by
  refine ⟨unpack_pack _ (spec_way_delta_lt xs 0 hd), ?_⟩
  rw [List.map_map]
  have : (unzigzag64 ∘ zigzag64) = id := by funext x; simp [unzigzag_zigzag]
  rw [this, List.map_id, spec_way_dec_delta xs h]

/-- the packed arrays after the meta fields through `wayStep` -/
theorem spec_way_tail (p : Params) (r : ROpts) (s : ObjAcc) (od : Bool) (A B C : List Nat) (withLoc : Bool)
    (ha : s.a = []) (hb : s.b = []) (hc : s.c = []) :
    decodeMsg (wayStep p r) s (PbfSpec.fPacked od 8 A ++
        (if withLoc then PbfSpec.fPacked false 9 B ++ PbfSpec.fPacked false 10 C else [])) =
      some { s with a := pack A, b := if withLoc then pack B else [], c := if withLoc then pack C else [] } := by
  have pk : ∀ (l : List Nat), l.isEmpty = true → pack l = [] := fun l h => by
    have : l = [] := List.isEmpty_iff.mp h
    subst this; rfl
  cases withLoc <;> cases od <;> cases h1 : A.isEmpty <;>
    simp [PbfSpec.fPacked, PbfSpec.fBytes, h1, decodeMsg, wayStep, pk, ha, hb, hc] <;> (try (cases s; simp_all))

theorem spec_way (ch : Choices) (hch : ChoicesOk ch) (table : List Bytes) (hist : Bool) (m : Meta) (ns : List NodeRef)
    (hrep : ObjRep ch (.way m ns)) (htab : ∀ s ∈ PbfSpec.stringsOf (.way m ns), TableOk table s)
    (hlen : (PbfSpec.wayMsg ch table hist m ns).length < 2 ^ 32) :
    withFields (PbfSpec.wayMsg ch table hist m ns) (decodeWay (specParams ch table) {}) = some (.way m ns) := by
  obtain ⟨⟨hmd, hid, hts, hstr⟩, hn, hdr, hloc⟩ := hrep
  have hwf := spec_way_fields_wf ch table hist m ns hlen
  unfold withFields
  rw [spec_way_msg_eq, readFields_msg ch _ _ hwf (hch.extrasWF PbfSpec.kWay)]
  simp only
  unfold decodeWay
  rw [decodeMsg_arrange' (wayStep (specParams ch table) {}) wayKnown (wayStep_unknown _ _)
    (spec_way_commutes _ _) ch PbfSpec.kWay _ _ (hch.extrasUnknown PbfSpec.kWay)]
  have hstep : decodeMsg (wayStep (specParams ch table) {}) { id := m.id } (PbfSpec.metaFields ch table hist m) =
      decodeMsg (metaStep (specParams ch table) {}) { id := m.id } (PbfSpec.metaFields ch table hist m) :=
    decodeMsg_congr_step _ _ _ _ (fun f hf s => wayStep_ld_meta _ _ s f (by
      obtain ⟨hw, ht, _⟩ := spec_metaFields_shape ch table hist m f hf
      exact ⟨hw, ht⟩))
  have hmeta := spec_meta ch hch table hist m (specParams ch table) rfl rfl hmd hts
    (htab m.user (by simp [PbfSpec.stringsOf])) { id := m.id } ⟨rfl, rfl, rfl, rfl⟩
  have h0 : decodeMsg (wayStep (specParams ch table) {}) {} [PbfSpec.fInt 1 m.id] = some { id := m.id } := by
    simp [decodeMsg, wayStep, spec_fInt, fVarint, toInt64_u64 m.id hid]
  unfold specWayFields
  rw [List.append_assoc, decodeMsg_append, decodeMsg_append, h0, Option.bind_some, hstep, hmeta, Option.bind_some,
    spec_way_tail _ _ _ _ _ _ _ _ rfl rfl rfl]
  have ir : ∀ x ∈ ns.map (·.ref), IdOk x := fun x hx => by
    obtain ⟨n, hn', rfl⟩ := List.mem_map.mp hx; exact (hn n hn').1
  obtain ⟨hur, edr⟩ := spec_way_packed_delta _ hdr ir
  have u0 : unpack ([] : Bytes) = some [] := rfl
  have htags : ∀ s : ObjAcc, s.keys = pack (m.tags.map fun t => PbfSpec.idx table t.key) →
      s.vals = pack (m.tags.map fun t => PbfSpec.idx table t.value) →
      finishTags (specParams ch table) s = some m.tags := fun s hk hv =>
    spec_finishTags table _ rfl m s hk hv (fun t ht =>
      ⟨htab _ (by simp only [PbfSpec.stringsOf, List.mem_cons, List.mem_flatMap]; exact Or.inr ⟨t, ht, by simp⟩),
       htab _ (by simp only [PbfSpec.stringsOf, List.mem_cons, List.mem_flatMap]; exact Or.inr ⟨t, ht, by simp⟩)⟩)
  cases hw : ns.any (fun n => n.location != Location.undefined)
  · simp only [Bool.false_eq_true, ↓reduceIte, bind, Option.bind, hur, u0, List.isEmpty_nil, edr,
      pure, mkMeta, infoOf]
    rw [htags _ rfl rfl]
    simp only [List.map_map]
    have hall : ∀ n ∈ ns, n.location = Location.undefined := by
      intro n hn'
      have := (List.any_eq_false.mp hw) n hn'
      simpa using this
    have hl : List.map ((fun i => ({ ref := i } : NodeRef)) ∘ fun x => x.ref) ns = ns := by
      conv => rhs; rw [← List.map_id ns]
      apply List.map_congr_left
      intro n hn'
      have := hall n hn'
      obtain ⟨r, l⟩ := n
      simp only at this
      subst this
      rfl
    rw [hl]
  · obtain ⟨n0, hn0, hn0u⟩ := List.any_eq_true.mp hw
    have hrepl := hloc ⟨n0, hn0, by simpa using hn0u⟩
    have blat : ∀ x ∈ ns.map (fun n => PbfSpec.coord ch.granularity ch.latOffset n.location.y),
        -(2:Int) ^ 62 < x ∧ x < (2:Int) ^ 62 := fun x hx => by
      obtain ⟨n, hn', rfl⟩ := List.mem_map.mp hx
      exact spec_coord_bound _ _ _ hch.gran.1 hch.latOff (hn n hn').2.2
    have blon : ∀ x ∈ ns.map (fun n => PbfSpec.coord ch.granularity ch.lonOffset n.location.x),
        -(2:Int) ^ 62 < x ∧ x < (2:Int) ^ 62 := fun x hx => by
      obtain ⟨n, hn', rfl⟩ := List.mem_map.mp hx
      exact spec_coord_bound _ _ _ hch.gran.1 hch.lonOff (hn n hn').2.1
    have idok : ∀ x : Int, (-(2:Int) ^ 62 < x ∧ x < (2:Int) ^ 62) → IdOk x := fun x hx => by
      unfold IdOk; simp only [Int.reducePow] at *; omega
    obtain ⟨hul, edl⟩ := spec_way_packed_delta _
      (spec_way_deltaRep_of_bound _ 0 (by decide) blat) (fun x hx => idok x (blat x hx))
    obtain ⟨huo, edo⟩ := spec_way_packed_delta _
      (spec_way_deltaRep_of_bound _ 0 (by decide) blon) (fun x hx => idok x (blon x hx))
    have hne : (List.map zigzag64 (PbfSpec.delta 0
        (ns.map fun n => PbfSpec.coord ch.granularity ch.latOffset n.location.y))).isEmpty = false := by
      cases ns with
      | nil => simp at hn0
      | cons a l => simp [PbfSpec.delta]
    simp only [↓reduceIte, bind, Option.bind, hur, hul, huo, hne, Bool.false_eq_true, edr, edl, edo,
      pure, mkMeta, infoOf]
    rw [htags _ rfl rfl]
    simp only [zip3With_map, specParams]
    have hl : List.map (fun n : NodeRef => ({ ref := n.ref, location :=
        { x := convCoord ch.granularity ch.lonOffset (PbfSpec.coord ch.granularity ch.lonOffset n.location.x),
          y := convCoord ch.granularity ch.latOffset (PbfSpec.coord ch.granularity ch.latOffset n.location.y) } } : NodeRef))
        ns = ns := by
      conv => rhs; rw [← List.map_id ns]
      apply List.map_congr_left
      intro n hn'
      obtain ⟨hlo, hrx, hry⟩ := hrepl n hn'
      rw [spec_convCoord_coord _ _ _ hch.gran.1 hch.lonOff hlo.1 hrx,
        spec_convCoord_coord _ _ _ hch.gran.1 hch.latOff hlo.2 hry]
      rfl
    rw [hl]

end Osmium.Pbf
