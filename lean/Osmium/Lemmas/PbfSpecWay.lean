/-
C02, PBF: `decode_way` on the specification encoder's Way message.
-/
import Osmium.Lemmas.PbfSpecMeta

namespace Osmium.Pbf

open Osmium.Wire Osmium.Osm Osmium.PbfMsg
open Osmium.PbfSpec (Choices)

theorem spec_way (ch : Choices) (hch : ChoicesOk ch) (table : List Bytes) (hist : Bool) (m : Meta) (ns : List NodeRef)
    (hrep : ObjRep ch (.way m ns)) (htab : ∀ s ∈ PbfSpec.stringsOf (.way m ns), TableOk table s)
    (hlen : (PbfSpec.wayMsg ch table hist m ns).length < 2 ^ 32) :
    withFields (PbfSpec.wayMsg ch table hist m ns) (decodeWay (specParams ch table) {}) = some (.way m ns) := by
  sorry

end Osmium.Pbf
