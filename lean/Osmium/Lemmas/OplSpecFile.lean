/-
File level of the OPL text format (C01 `opl_file_roundtrip`, C02 `opl_decode_spec`): how
`OPLParser::run` (= `Chunks.specLines` then `Chunks.cstr`, Props/C06) cuts a byte stream back into
the lines that were written.

* generic splitting lemmas about `Chunks.segs` / `Chunks.specLines` / `Chunks.cstr`;
* (A1) `parseFile_lf_lines`: lines joined with LF are read back as these lines;
* (A2) `specLines_render` / `parseFile_render`: the file the specification renderer `OplSpec.render`
  produces — any mix of LF / CR / CRLF endings, empty lines, comment lines, a missing final
  ending — is cut into the rendered lines interleaved with the comment lines, and `parseLines`
  skips the comment lines;
* (C) `opl_render_file`: the file-level decode theorem given the line-level one.

Core-only.  The writer side (B) is in OplSpecFile2.lean.
-/
import Osmium.Model.OplFmt
import Osmium.Lemmas.ChunksOpl

namespace Osmium.OplFmt
open Osmium.Osm Osmium.TextFmt Osmium.Chunks

/-! ## clean lines -/

/-- no LF, no CR, no NUL: the bytes a line can consist of without being cut by the reader -/
def Clean (s : Bytes) : Prop := ∀ b ∈ s, b ≠ 0x0a ∧ b ≠ 0x0d ∧ b ≠ 0

instance (s : Bytes) : Decidable (Clean s) := by unfold Clean; infer_instance

theorem Clean.nil : Clean [] := by intro b hb; cases hb

theorem Clean.append {a b : Bytes} (ha : Clean a) (hb : Clean b) : Clean (a ++ b) := by
  intro x hx
  rcases List.mem_append.1 hx with h | h
  · exact ha x h
  · exact hb x h

theorem Clean.cons {c : UInt8} {a : Bytes} (hc : c ≠ 0x0a ∧ c ≠ 0x0d ∧ c ≠ 0) (ha : Clean a) : Clean (c :: a) := by
  intro x hx
  rcases List.mem_cons.1 hx with rfl | h
  · exact hc
  · exact ha x h

theorem Clean.of_append_left {a b : Bytes} (h : Clean (a ++ b)) : Clean a :=
  fun x hx => h x (List.mem_append_left _ hx)

theorem Clean.of_append_right {a b : Bytes} (h : Clean (a ++ b)) : Clean b :=
  fun x hx => h x (List.mem_append_right _ hx)

theorem Clean.tail {c : UInt8} {a : Bytes} (h : Clean (c :: a)) : Clean a :=
  fun x hx => h x (List.mem_cons_of_mem _ hx)

theorem Clean.noNul {s : Bytes} (h : Clean s) : NoNul s := fun b hb => (h b hb).2.2

theorem Clean.notBreak {s : Bytes} (h : Clean s) : ∀ b ∈ s, isBreak b = false := by
  intro b hb
  obtain ⟨h1, h2, _⟩ := h b hb
  simp [isBreak, h1, h2]

theorem Clean.cstr {s : Bytes} (h : Clean s) : cstr s = s := cstr_of_noNul s h.noNul

/-! ## generic splitting lemmas -/

/-- a run of non-break bytes is appended to the segment under construction -/
theorem segs_noBreak : ∀ (l rest cur : Bytes), (∀ b ∈ l, isBreak b = false) →
    segs (l ++ rest) cur = segs rest (cur ++ l)
  | [], rest, cur, _ => by simp
  | b :: l, rest, cur, h => by
    have hb : isBreak b = false := h b (by simp)
    have ih := segs_noBreak l rest (cur ++ [b]) (fun x hx => h x (by simp [hx]))
    simp only [List.cons_append, segs, hb, Bool.false_eq_true, if_false]
    rw [ih]; simp

/-- all segments of a stream, the unterminated last one included -/
def allSegs (bs cur : Bytes) : List Bytes := (segs bs cur).1 ++ [(segs bs cur).2]

theorem specLines_eq (bs : Bytes) : specLines bs = (allSegs bs []).filter ne := rfl

theorem allSegs_nil (cur : Bytes) : allSegs [] cur = [cur] := rfl

theorem allSegs_break (b : UInt8) (hb : isBreak b = true) (bs cur : Bytes) :
    allSegs (b :: bs) cur = cur :: allSegs bs [] := by
  simp [allSegs, segs, hb]

theorem allSegs_noBreak (l rest cur : Bytes) (h : ∀ b ∈ l, isBreak b = false) :
    allSegs (l ++ rest) cur = allSegs rest (cur ++ l) := by
  simp only [allSegs, segs_noBreak l rest cur h]

/-- a stream that is empty or ends with a line break leaves nothing under construction -/
def Closed (a : Bytes) : Prop := (segs a []).2 = []

/-- **splitting at a closed prefix**: the lines of `a ++ b` are the lines of `a` followed by the
    lines of `b` whenever `a` is empty or ends with LF or CR. -/
theorem specLines_append (a b : Bytes) (h : Closed a) : specLines (a ++ b) = specLines a ++ specLines b := by
  unfold Closed at h
  simp only [specLines, segs_append a b [], h, List.filter_append, List.append_assoc]
  simp

theorem Closed.append {a b : Bytes} (ha : Closed a) (hb : Closed b) : Closed (a ++ b) := by
  unfold Closed at *
  simp only [segs_append a b [], ha, hb]

theorem Closed.nil : Closed [] := rfl

theorem ne_of_ne_nil {l : Bytes} (h : l ≠ []) : ne l = true := by
  cases l with
  | nil => exact absurd rfl h
  | cons a l => rfl

/-- a clean non-empty line followed by LF, CR or CRLF is one line, and the stream is closed -/
theorem specLines_line_lf (l : Bytes) (hc : Clean l) (hne : l ≠ []) :
    specLines (l ++ [0x0a]) = [l] ∧ Closed (l ++ [0x0a]) := by
  have hb : isBreak 0x0a = true := by decide
  constructor
  · rw [specLines_eq, allSegs_noBreak l _ [] hc.notBreak, allSegs_break _ hb, allSegs_nil]
    simp [List.filter_cons, ne, hne]
  · simp [Closed, segs_noBreak l _ [] hc.notBreak, segs, hb]

theorem specLines_line_cr (l : Bytes) (hc : Clean l) (hne : l ≠ []) :
    specLines (l ++ [0x0d]) = [l] ∧ Closed (l ++ [0x0d]) := by
  have hb : isBreak 0x0d = true := by decide
  constructor
  · rw [specLines_eq, allSegs_noBreak l _ [] hc.notBreak, allSegs_break _ hb, allSegs_nil]
    simp [List.filter_cons, ne, hne]
  · simp [Closed, segs_noBreak l _ [] hc.notBreak, segs, hb]

theorem specLines_line_crlf (l : Bytes) (hc : Clean l) (hne : l ≠ []) :
    specLines (l ++ [0x0d, 0x0a]) = [l] ∧ Closed (l ++ [0x0d, 0x0a]) := by
  have hb : isBreak 0x0a = true := by decide
  have hb' : isBreak 0x0d = true := by decide
  constructor
  · rw [specLines_eq, allSegs_noBreak l _ [] hc.notBreak, allSegs_break _ hb', allSegs_break _ hb, allSegs_nil]
    simp [List.filter_cons, ne, hne]
  · simp [Closed, segs_noBreak l _ [] hc.notBreak, segs, hb, hb']

/-- a clean non-empty line without any ending (the last line of a file) is one line -/
theorem specLines_line_bare (l : Bytes) (hc : Clean l) (hne : l ≠ []) : specLines l = [l] := by
  have := allSegs_noBreak l [] [] hc.notBreak
  rw [List.append_nil] at this
  rw [specLines_eq, this, allSegs_nil]
  simp [ne_of_ne_nil hne]

/-- a run of line terminators (any mix of LF and CR) contains no line and is closed -/
theorem specLines_breaks : ∀ (g : Bytes), (∀ b ∈ g, isBreak b = true) → specLines g = [] ∧ Closed g
  | [], _ => ⟨rfl, rfl⟩
  | b :: g, h => by
    have hb : isBreak b = true := h b (by simp)
    obtain ⟨ih1, ih2⟩ := specLines_breaks g (fun x hx => h x (by simp [hx]))
    constructor
    · rw [specLines_eq, allSegs_break b hb, List.filter_cons]
      simpa [ne, specLines_eq] using ih1
    · unfold Closed at *
      simp [segs, hb, ih2]

/-- a clean non-empty line followed by ANY non-empty run of line terminators is one line -/
theorem specLines_line_gap (l g : Bytes) (hc : Clean l) (hne : l ≠ []) (hg : g ≠ [])
    (hb : ∀ b ∈ g, isBreak b = true) : specLines (l ++ g) = [l] ∧ Closed (l ++ g) := by
  cases g with
  | nil => exact absurd rfl hg
  | cons b g =>
    have hb0 : isBreak b = true := hb b (by simp)
    obtain ⟨h1, h2⟩ := specLines_breaks g (fun x hx => hb x (by simp [hx]))
    constructor
    · rw [specLines_eq, allSegs_noBreak l _ [] hc.notBreak, allSegs_break _ hb0, List.filter_cons]
      rw [specLines_eq] at h1
      simp [h1, ne, hne]
    · unfold Closed at *
      simp [segs_noBreak l _ [] hc.notBreak, segs, hb0, h2]

/-- **generic splitting lemma**: clean non-empty lines, each followed by an arbitrary non-empty
    gap of line terminators, are cut back into exactly these lines. -/
theorem specLines_gapped : ∀ (ps : List (Bytes × Bytes)),
    (∀ p ∈ ps, Clean p.1 ∧ p.1 ≠ [] ∧ p.2 ≠ [] ∧ ∀ b ∈ p.2, isBreak b = true) →
    (specLines ((ps.map fun p => p.1 ++ p.2).flatten)).map cstr = ps.map (·.1) ∧
      Closed ((ps.map fun p => p.1 ++ p.2).flatten)
  | [], _ => ⟨rfl, rfl⟩
  | p :: ps, h => by
    obtain ⟨hc, hne, hg, hb⟩ := h p (by simp)
    obtain ⟨ih, ihc⟩ := specLines_gapped ps (fun x hx => h x (by simp [hx]))
    obtain ⟨h1, h2⟩ := specLines_line_gap p.1 p.2 hc hne hg hb
    simp only [List.map_cons, List.flatten_cons]
    refine ⟨?_, h2.append ihc⟩
    rw [specLines_append _ _ h2, h1, List.map_append, ih]
    simp [hc.cstr]

/-! ## `parseLines` over concatenations, skipped lines -/

theorem parseLines_append (types : Types) : ∀ (a b : List Bytes),
    parseLines types (a ++ b) =
      bindE (parseLines types a) fun x => bindE (parseLines types b) fun y => .ok (x ++ y)
  | [], b => by
    simp only [List.nil_append, parseLines, bindE_ok]
    cases parseLines types b <;> rfl
  | l :: a, b => by
    simp only [List.cons_append, parseLines, parseLines_append types a b]
    cases parseLine types l with
    | error e => rfl
    | ok o =>
      simp only [bindE_ok]
      cases parseLines types a with
      | error e => rfl
      | ok x =>
        simp only [bindE_ok]
        cases parseLines types b with
        | error e => rfl
        | ok y => cases o <;> rfl

/-- comment lines (first byte '#') decode to nothing and do not disturb the lines around them -/
theorem parseLines_comment (types : Types) (c : Bytes) (ls : List Bytes) :
    parseLines types ((0x23 :: c) :: ls) = parseLines types ls := by
  have : parseLine types (0x23 :: c) = .ok none := by simp [parseLine]
  simp only [parseLines, this, bindE_ok]
  cases parseLines types ls <;> rfl

/-- a list of lines that all decode to nothing decodes to nothing -/
theorem parseLines_skip (types : Types) (a b : List Bytes) (h : parseLines types a = .ok []) :
    parseLines types (a ++ b) = parseLines types b := by
  rw [parseLines_append, h]
  simp only [bindE_ok, List.nil_append]
  cases parseLines types b <;> rfl

/-! ## (A1) LF-terminated lines -/

/-- the reader's line splitter on lines joined with LF gives back these lines -/
theorem specLines_lf_lines : ∀ (ls : List Bytes), (∀ l ∈ ls, Clean l ∧ l ≠ []) →
    (specLines ((ls.map (· ++ [0x0a])).flatten)).map cstr = ls ∧ Closed ((ls.map (· ++ [0x0a])).flatten)
  | [], _ => ⟨rfl, rfl⟩
  | l :: ls, h => by
    obtain ⟨hc, hne⟩ := h l (by simp)
    obtain ⟨ih, ihc⟩ := specLines_lf_lines ls (fun x hx => h x (by simp [hx]))
    obtain ⟨h1, h2⟩ := specLines_line_lf l hc hne
    simp only [List.map_cons, List.flatten_cons]
    refine ⟨?_, h2.append ihc⟩
    rw [specLines_append _ _ h2, h1, List.map_append, ih]
    simp [hc.cstr]

/-- **(A1)** a file that consists of clean non-empty lines, each terminated by LF, is parsed as
    the list of these lines. -/
theorem parseFile_lf_lines (types : Types) (ls : List Bytes) (h : ∀ l ∈ ls, Clean l ∧ l ≠ []) :
    parseFile types ((ls.map (· ++ [0x0a])).flatten) = parseLines types ls := by
  rw [parseFile, (specLines_lf_lines ls h).1]

/-! ## (A2) the specification renderer -/

namespace OplSpec

/-- the comment lines among the junk in front of a line (empty lines are dropped by the splitter) -/
def junkComments (k : Nat) : List Bytes :=
  match k % 4 with
  | 0 => []
  | 1 => []
  | 2 => [[0x23, 0x20, 0x63]]
  | _ => [[0x23]]

theorem junkLines_spec (k : Nat) :
    (specLines (junkLines k)).map cstr = junkComments k ∧ Closed (junkLines k) := by
  have hk : k % 4 < 4 := Nat.mod_lt _ (by decide)
  unfold junkLines junkComments
  rcases hk' : k % 4 with _ | _ | _ | _ | n
  · exact ⟨by decide, rfl⟩
  · exact ⟨by decide, rfl⟩
  · exact ⟨by decide, rfl⟩
  · exact ⟨by decide, rfl⟩
  · omega

theorem ending_spec (k : Nat) (l : Bytes) (hc : Clean l) (hne : l ≠ []) :
    specLines (l ++ ending k) = [l] ∧ Closed (l ++ ending k) := by
  unfold ending
  split
  · exact specLines_line_lf l hc hne
  · exact specLines_line_cr l hc hne
  · exact specLines_line_crlf l hc hne

/-- the lines `OPLParser::run` hands to `opl_parse_line` for a spec-rendered file -/
def expectedLines (ch : Choices) : List Object → Nat → List Bytes
  | [], _ => []
  | o :: os, i => junkComments (ch.junk.getD i 0) ++ renderLine ch o :: expectedLines ch os (i + 1)

/-- **line splitting of a spec-rendered file**: whatever the line endings (LF, CR, CRLF, none
    after the last line) and the junk (empty lines, comment lines) chosen, the reader sees the
    rendered lines, in order, interleaved with the comment lines. -/
theorem specLines_renderGo (ch : Choices) : ∀ (objs : List Object) (i : Nat),
    (∀ obj ∈ objs, Clean (renderLine ch obj) ∧ renderLine ch obj ≠ []) →
    (specLines (renderGo ch objs i)).map cstr = expectedLines ch objs i
  | [], _, _ => rfl
  | [o], i, h => by
    obtain ⟨hc, hne⟩ := h o (by simp)
    obtain ⟨j1, j2⟩ := junkLines_spec (ch.junk.getD i 0)
    simp only [renderGo, expectedLines, List.append_assoc]
    rw [specLines_append _ _ j2, List.map_append, j1]
    by_cases hf : ch.noFinalEnding = true
    · simp [hf, specLines_line_bare _ hc hne, hc.cstr]
    · simp [hf, (ending_spec _ _ hc hne).1, hc.cstr]
  | o :: o' :: os, i, h => by
    obtain ⟨hc, hne⟩ := h o (by simp)
    obtain ⟨j1, j2⟩ := junkLines_spec (ch.junk.getD i 0)
    obtain ⟨e1, e2⟩ := ending_spec (ch.endings.getD i 0) _ hc hne
    have ih := specLines_renderGo ch (o' :: os) (i + 1) (fun x hx => h x (by simp [hx]))
    have e : renderGo ch (o :: o' :: os) i =
        junkLines (ch.junk.getD i 0) ++ ((renderLine ch o ++ ending (ch.endings.getD i 0)) ++ renderGo ch (o' :: os) (i + 1)) := by
      simp [renderGo]
    rw [e, specLines_append _ _ j2, specLines_append _ _ e2, e1, List.map_append, List.map_append, j1, ih]
    simp [expectedLines, hc.cstr]

theorem specLines_render (ch : Choices) (objs : List Object)
    (h : ∀ obj ∈ objs, Clean (renderLine ch obj) ∧ renderLine ch obj ≠ []) :
    (specLines (render ch objs)).map cstr = expectedLines ch objs 0 :=
  specLines_renderGo ch objs 0 h

theorem parseLines_junkComments (types : Types) (k : Nat) (ls : List Bytes) :
    parseLines types (junkComments k ++ ls) = parseLines types ls := by
  unfold junkComments
  split <;> simp [parseLines_comment]

/-- `parseLines` drops the comment lines again -/
theorem parseLines_expected (types : Types) (ch : Choices) : ∀ (objs : List Object) (i : Nat),
    parseLines types (expectedLines ch objs i) = parseLines types (objs.map (renderLine ch))
  | [], _ => rfl
  | o :: os, i => by
    rw [expectedLines, parseLines_junkComments, List.map_cons, parseLines, parseLines,
      parseLines_expected types ch os (i + 1)]

end OplSpec

/-- **(A2)** junk lines (nothing / an empty line / a comment line / CRLF + comment), the three
    line endings LF / CR / CRLF and a missing final ending change nothing: a spec-rendered file is
    parsed as the list of its rendered object lines, for every choice vector and every type filter. -/
theorem parseFile_render (types : Types) (ch : OplSpec.Choices) (objs : List Object)
    (h : ∀ obj ∈ objs, (∀ b ∈ OplSpec.renderLine ch obj, b ≠ 0x0a ∧ b ≠ 0x0d ∧ b ≠ 0) ∧ OplSpec.renderLine ch obj ≠ []) :
    parseFile types (OplSpec.render ch objs) = parseLines types (objs.map (OplSpec.renderLine ch)) := by
  rw [parseFile, OplSpec.specLines_render ch objs h, OplSpec.parseLines_expected]

/-! ## (C) file-level decode theorem from the line-level one -/

theorem parseLines_map_some {α : Type} (types : Types) (g : α → Bytes) (f : α → Object) : ∀ (xs : List α),
    (∀ x ∈ xs, parseLine types (g x) = .ok (some (f x))) → parseLines types (xs.map g) = .ok (xs.map f)
  | [], _ => rfl
  | x :: xs, h => by
    have h1 := h x (by simp)
    have ih := parseLines_map_some types g f xs (fun y hy => h y (by simp [hy]))
    simp only [List.map_cons, parseLines, h1, ih, bindE_ok]

/-- **(C)** if every rendered line decodes to `f obj` (and is a clean non-empty line), the
    rendered file decodes to `objs.map f` — for every choice of endings, junk lines and final
    ending. -/
theorem opl_render_file (ch : OplSpec.Choices) (objs : List Object) (f : Object → Object)
    (h : ∀ obj ∈ objs, parseLine {} (OplSpec.renderLine ch obj) = .ok (some (f obj)) ∧
         (∀ b ∈ OplSpec.renderLine ch obj, b ≠ 0x0a ∧ b ≠ 0x0d ∧ b ≠ 0) ∧ OplSpec.renderLine ch obj ≠ []) :
    parseFile {} (OplSpec.render ch objs) = .ok (objs.map f) := by
  rw [parseFile_render {} ch objs (fun obj ho => (h obj ho).2)]
  exact parseLines_map_some {} (OplSpec.renderLine ch) f objs (fun obj ho => (h obj ho).1)

/-- a line that decodes to an object is not empty (so the non-emptiness hypothesis of
    `opl_render_file` follows from the decoding one) -/
theorem ne_nil_of_parseLine_some {types : Types} {l : Bytes} {x : Object}
    (h : parseLine types l = .ok (some x)) : l ≠ [] := by
  rintro rfl
  simp [parseLine] at h

end Osmium.OplFmt
