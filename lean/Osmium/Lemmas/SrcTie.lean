/-
Abstraction functions from the records that tools/cxx2lean.py generates (Osmium/Generated/Src.lean:
the members of the C++ classes that are in the translated subset) to the hand-written model types, and
the helper lemmas the `src_tie_*` theorems in Osmium/Props/{C10,C15,C16}.lean share.
Core-only.
-/
import Osmium.Generated.Src
import Osmium.Lemmas.CxxSem
import Osmium.Model.Order
import Osmium.Model.Area
import Osmium.Model.Stash

set_option Elab.async false

namespace Osmium.SrcTie

open Osmium.Generated Osmium.CxxSem

/-! ### C16: `OSMObject` -/

/-- the attributes of a translated `OSMObject` the orderings look at (Model/Order.lean `Obj`) -/
def objOfSrc (o : Src.Object.OSMObject) : Order.Obj :=
  { type := o.toBase_OSMEntity.toBase_Item.m_type.toNat, id := o.m_id, version := o.m_version.toNat,
    ts := o.m_timestamp.m_timestamp.toNat, visible := !o.m_deleted }

/-- what `typed` says about the members the orderings read -/
theorem obj_typed_facts (o : Src.Object.OSMObject) (h : Src.Object.OSMObject.typed o = true) :
    0 ≤ o.toBase_OSMEntity.toBase_Item.m_type ∧ 0 ≤ o.m_version ∧ 0 ≤ o.m_timestamp.m_timestamp ∧
    -9223372036854775808 ≤ o.m_id ∧ o.m_id < 9223372036854775808 := by
  simp only [Src.Object.OSMObject.typed, Src.Entity.OSMEntity.typed, Src.Item.Item.typed, Src.Timestamp.Timestamp.typed,
    Bool.and_eq_true, inU_iff, inS_iff] at h
  omega

/-- `positive_id()` = `static_cast<uint64_t>(std::abs(m_id))` is the mathematical absolute value -/
theorem positive_id_eq (o : Src.Object.OSMObject) (h : Src.Object.OSMObject.typed o = true) :
    Src.Object.OSMObject.positive_id o = (o.m_id.natAbs : Int) := by
  have f := obj_typed_facts o h
  unfold Src.Object.OSMObject.positive_id
  apply wrapU_eq <;> omega

/-! ### C10: `Location`, `vec`, `NodeRefSegment` -/

def vecOfLoc (l : Src.Location.Location) : Area.Vec := ⟨l.m_x, l.m_y⟩

def vecOfSrc (v : Src.Vector.vec) : Area.Vec := ⟨v.x, v.y⟩

/-- `NodeRefSegment` reduced to the two locations (Model/Area.lean `Seg`) -/
def segOfSrc (s : Src.NodeRefSegment.NodeRefSegment) : Area.Seg :=
  ⟨vecOfLoc s.m_first.m_location, vecOfLoc s.m_second.m_location⟩

/-! ### C15: `ItemStash` -/

/-- the members of a translated `ItemStash` that `should_gc()` reads, as a model state -/
def stashOfSrc (s : Src.ItemStash.ItemStash) : Stash.State :=
  { capacity := s.m_buffer.m_capacity.toNat, written := s.m_buffer.m_committed.toNat,
    countItems := s.m_count_items.toNat, countRemoved := s.m_count_removed.toNat }

end Osmium.SrcTie
