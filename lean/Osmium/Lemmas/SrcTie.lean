/-
Abstraction functions from the records that tools/cxx2lean.py generates (Osmium/Generated/Src.lean:
the members of the C++ classes that are in the translated subset) to the hand-written model types, and
the helper lemmas the `src_tie_*` theorems in Osmium/Props/{C10,C15,C16}.lean share.
Core-only.
-/
import Osmium.Generated.Src
import Osmium.Lemmas.CxxSem
import Osmium.Model.Order
import Osmium.Model.Area
import Osmium.Model.Stash
import Osmium.Model.Buf
import Osmium.Model.RelMgr

set_option Elab.async false

namespace Osmium.SrcTie

open Osmium.Generated Osmium.CxxSem

/-! ### C16: `OSMObject` -/

/-- the attributes of a translated `OSMObject` the orderings look at (Model/Order.lean `Obj`) -/
def objOfSrc (o : Src.Object.OSMObject) : Order.Obj :=
  { type := o.toBase_OSMEntity.toBase_Item.m_type.toNat, id := o.m_id, version := o.m_version.toNat,
    ts := o.m_timestamp.m_timestamp.toNat, visible := !o.m_deleted }

/-- what `typed` says about the members the orderings read -/
theorem obj_typed_facts (o : Src.Object.OSMObject) (h : Src.Object.OSMObject.typed o = true) :
    0 ≤ o.toBase_OSMEntity.toBase_Item.m_type ∧ 0 ≤ o.m_version ∧ 0 ≤ o.m_timestamp.m_timestamp ∧
    -9223372036854775808 ≤ o.m_id ∧ o.m_id < 9223372036854775808 := by
  simp only [Src.Object.OSMObject.typed, Src.Entity.OSMEntity.typed, Src.Item.Item.typed, Src.Timestamp.Timestamp.typed,
    Bool.and_eq_true, inU_iff, inS_iff] at h
  omega

/-- `positive_id()` = `static_cast<uint64_t>(std::abs(m_id))` is the mathematical absolute value -/
theorem positive_id_eq (o : Src.Object.OSMObject) (h : Src.Object.OSMObject.typed o = true) :
    Src.Object.OSMObject.positive_id o = (o.m_id.natAbs : Int) := by
  have f := obj_typed_facts o h
  unfold Src.Object.OSMObject.positive_id
  apply wrapU_eq <;> omega

/-! ### C16: `CheckOrder` (a translated state transformer, tools/x2l_st.py) -/

/-- the six members of a translated `handler::CheckOrder` as the model's state -/
def checkOfSrc (s : Src.CheckOrder.CheckOrder) : Order.CheckState :=
  { maxNode := s.m_max_node_id, maxWay := s.m_max_way_id, maxRel := s.m_max_relation_id,
    hasNode := s.m_has_node, hasWay := s.m_has_way, hasRel := s.m_has_relation }

/-- outcome of a translated `CheckOrder::node/way/relation` call in the model's terms:
    a normal return is `some` new state, an exception is `none` -/
def checkResult (o : Outcome Src.CheckOrder.CheckOrder Unit) : Option Order.CheckState :=
  match o with
  | .normal s _ => some (checkOfSrc s)
  | _ => none

/-- the only way such a call ends abnormally: `out_of_order_error` with the object left as it was -/
def ThrowsOutOfOrder (o : Outcome Src.CheckOrder.CheckOrder Unit) (s : Src.CheckOrder.CheckOrder) : Prop :=
  o ≠ .nofuel ∧ ∀ e s', o = .thrown e s' → e = "osmium::out_of_order_error" ∧ s' = s

/-! ### C10: `Location`, `vec`, `NodeRefSegment` -/

def vecOfLoc (l : Src.Location.Location) : Area.Vec := ⟨l.m_x, l.m_y⟩

def vecOfSrc (v : Src.Vector.vec) : Area.Vec := ⟨v.x, v.y⟩

/-- `NodeRefSegment` reduced to the two locations (Model/Area.lean `Seg`) -/
def segOfSrc (s : Src.NodeRefSegment.NodeRefSegment) : Area.Seg :=
  ⟨vecOfLoc s.m_first.m_location, vecOfLoc s.m_second.m_location⟩

/-! ### C04: the counters of `memory::Buffer` -/

/-- numeric value of `Buffer::auto_grow` (the enumerator the translated code compares with is the generated one) -/
def modeCode : Buf.Mode → Int
  | .no => 0
  | .yes => 1
  | .internal => Src.Buffer.Buffer.auto_grow.internal

/-- a translated `Buffer` object (capacity / written / committed counters and the growth mode — the members in
    the translated subset; the memory itself is not) represents the model buffer `b` -/
def BufRep (s : Src.Buffer.Buffer) (b : Buf.Buf) : Prop :=
  s.m_capacity = (b.cap : Int) ∧ s.m_written = (b.written : Int) ∧ s.m_committed = (b.committed : Int) ∧
  s.m_auto_grow = modeCode b.mode

/-! ### C11: `MembersDatabaseCommon::element` -/

/-- a translated `element` as the model's `Elem`: `member_num == removed_value` (SIZE_MAX) is `num = none` -/
def elemOfSrc (e : Src.MembersDatabase.MembersDatabaseCommon.element) : RelMgr.Elem :=
  { mid := e.member_id,
    num := if e.member_num = Src.MembersDatabase.MembersDatabaseCommon.element.removed_value then none else some e.member_num.toNat,
    rpos := e.relation_pos.toNat, h := e.object_handle.value.toNat }

/-! ### C01/C04: scalar representations -/

/-- the value of a byte as a C++ `char` (signed on the platforms the library is checked on) -/
def charOfByte (c : Nat) : Int := if c < 128 then (c : Int) else (c : Int) - 256

/-- the 32-bit word that holds the bit-fields `m_deleted : 1` (bit 0) and `m_version : 31` of an `OSMObject`
    (Itanium ABI layout on little-endian targets; the differential harness of C04 reads the real bytes) -/
def versionWord (o : Src.Object.OSMObject) : Int := ofBool o.m_deleted + 2 * o.m_version

/-! ### C15: `ItemStash` -/

/-- the members of a translated `ItemStash` that `should_gc()` reads, as a model state -/
def stashOfSrc (s : Src.ItemStash.ItemStash) : Stash.State :=
  { capacity := s.m_buffer.m_capacity.toNat, written := s.m_buffer.m_committed.toNat,
    countItems := s.m_count_items.toNat, countRemoved := s.m_count_removed.toNat }

end Osmium.SrcTie
