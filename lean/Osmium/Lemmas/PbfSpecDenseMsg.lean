/-
C02, PBF: `decode_dense_nodes` on the specification encoder's DenseNodes message, down to the loop
(field order, unknown extras, DenseInfo present or not, arrays omitted).
-/
import Osmium.Lemmas.PbfSpecDenseDefs

namespace Osmium.Pbf

open Osmium.Wire Osmium.Osm Osmium.PbfMsg
open Osmium.PbfSpec (Choices)

theorem spec_decodeDense (ch : Choices) (hch : ChoicesOk ch) (table : List Bytes) (hist : Bool) (ns : List (Meta × Location))
    (hb : CurLt64 (specDenseCur ch table hist ns)) (hlen : (PbfSpec.denseMsg ch table hist ns).length < 2 ^ 32) (p : Params) :
    withFields (PbfSpec.denseMsg ch table hist ns) (decodeDense p {}) =
      denseLoop p (!(specDenseInfo ch table hist ns).isEmpty) (ns.length + 1) (specDenseCur ch table hist ns) [] := by
  sorry

end Osmium.Pbf
