/-
C02, PBF: `decode_dense_nodes` on the specification encoder's DenseNodes message, down to the loop
(field order, unknown extras, DenseInfo present or not, arrays omitted).
-/
import Osmium.Lemmas.PbfSpecDenseDefs

namespace Osmium.Pbf

open Osmium.Wire Osmium.Osm Osmium.PbfMsg
open Osmium.PbfSpec (Choices)

/-! ### small helpers -/

theorem spec_dm_single {σ : Type} (step : σ → Field → Option σ) (s : σ) (f : Field) :
    decodeMsg step s [f] = step s f := by
  unfold decodeMsg
  rw [foldlM_cons']
  cases step s f <;> rfl

theorem spec_dm_opt {σ : Type} (step : σ → Field → Option σ) (s : σ) (c : Prop) [Decidable c] (f : Field) :
    decodeMsg step s (if c then [] else [f]) = if c then some s else step s f := by
  split
  · rfl
  · exact spec_dm_single step s f

theorem spec_dm_mem_opt (c : Prop) [Decidable c] (x f : Field) (h : f ∈ (if c then [] else [x])) : f = x := by
  split at h
  · simp at h
  · simpa using h

theorem spec_dm_unpack_if (c : Bool) (a : List Nat) (h : ∀ v ∈ (if c then [] else a), v < 2 ^ 64) :
    unpack (if c then [] else pack a) = some (if c then [] else a) := by
  cases c
  · simp only [Bool.false_eq_true, ↓reduceIte] at h ⊢
    exact unpack_pack a h
  · rfl

/-! ### the outer `switch`: unknown fields, commutation -/

theorem spec_dm_unknown (r : ROpts) (s : DenseAcc) (f : Field) (h : denseKnown f = false) : denseStep r s f = some s := by
  obtain ⟨tag, wt, val, payload⟩ := f
  unfold denseStep
  simp only [denseKnown] at h
  split <;> simp_all

/-- the DenseInfo case of `denseStep` -/
def spec_dm_sub (r : ROpts) (pl : Bytes) (s : DenseAcc) : Option DenseAcc :=
  if r.readMeta then
    match readFields pl with
    | .error _ => none
    | .ok fs => decodeMsg denseInfoStep { s with hasInfo := true } fs
  else some s

theorem spec_dm_step_eq (r : ROpts) (s : DenseAcc) (f : Field) : denseStep r s f =
    match f.tag, f.wt with
    | 1, .lengthDelimited => some { s with ids := f.payload }
    | 5, .lengthDelimited => spec_dm_sub r f.payload s
    | 8, .lengthDelimited => some { s with lats := f.payload }
    | 9, .lengthDelimited => some { s with lons := f.payload }
    | 10, .lengthDelimited => some { s with tags := f.payload }
    | _, _ => some s := rfl

theorem spec_dm_frame (upd : DenseAcc → DenseAcc)
    (h : ∀ s f, denseInfoStep (upd s) f = (denseInfoStep s f).map upd) :
    ∀ (fs : List Field) (s : DenseAcc), decodeMsg denseInfoStep (upd s) fs = (decodeMsg denseInfoStep s fs).map upd
  | [], _ => rfl
  | f :: fs, s => by
    unfold decodeMsg
    rw [foldlM_cons', foldlM_cons', h s f]
    cases hh : denseInfoStep s f with
    | none => rfl
    | some s' =>
      simp only [Option.map_some, Option.bind_some]
      exact spec_dm_frame upd h fs s'

theorem spec_dm_sub_frame (upd : DenseAcc → DenseAcc)
    (h : ∀ s f, denseInfoStep (upd s) f = (denseInfoStep s f).map upd)
    (h2 : ∀ s : DenseAcc, { upd s with hasInfo := true } = upd { s with hasInfo := true })
    (r : ROpts) (pl : Bytes) (s : DenseAcc) : spec_dm_sub r pl (upd s) = (spec_dm_sub r pl s).map upd := by
  unfold spec_dm_sub
  split
  · split
    · rfl
    · rw [h2, spec_dm_frame upd h]
  · rfl

theorem spec_dm_sub_ids (r : ROpts) (pl x : Bytes) (s : DenseAcc) :
    spec_dm_sub r pl { s with ids := x } = (spec_dm_sub r pl s).map fun s => { s with ids := x } :=
  spec_dm_sub_frame (fun s => { s with ids := x }) (fun s f => by unfold denseInfoStep; split <;> rfl) (fun _ => rfl) r pl s

theorem spec_dm_sub_lats (r : ROpts) (pl x : Bytes) (s : DenseAcc) :
    spec_dm_sub r pl { s with lats := x } = (spec_dm_sub r pl s).map fun s => { s with lats := x } :=
  spec_dm_sub_frame (fun s => { s with lats := x }) (fun s f => by unfold denseInfoStep; split <;> rfl) (fun _ => rfl) r pl s

theorem spec_dm_sub_lons (r : ROpts) (pl x : Bytes) (s : DenseAcc) :
    spec_dm_sub r pl { s with lons := x } = (spec_dm_sub r pl s).map fun s => { s with lons := x } :=
  spec_dm_sub_frame (fun s => { s with lons := x }) (fun s f => by unfold denseInfoStep; split <;> rfl) (fun _ => rfl) r pl s

theorem spec_dm_sub_tags (r : ROpts) (pl x : Bytes) (s : DenseAcc) :
    spec_dm_sub r pl { s with tags := x } = (spec_dm_sub r pl s).map fun s => { s with tags := x } :=
  spec_dm_sub_frame (fun s => { s with tags := x }) (fun s f => by unfold denseInfoStep; split <;> rfl) (fun _ => rfl) r pl s

theorem spec_dm_map_bind {α : Type} (o : Option α) (f : α → α) : (o.bind fun a => some (f a)) = o.map f := by
  cases o <;> rfl

theorem spec_dm_commutes (r : ROpts) : CommutesOn (denseStep r) (fun _ => True) := by
  intro s f g _ _ hk
  obtain ⟨t1, w1, v1, p1⟩ := f
  obtain ⟨t2, w2, v2, p2⟩ := g
  simp only [key, ne_eq, Prod.mk.injEq, not_and] at hk
  simp only [spec_dm_step_eq]
  split <;> split <;>
    simp_all [spec_dm_sub_ids, spec_dm_sub_lats, spec_dm_sub_lons, spec_dm_sub_tags, spec_dm_map_bind]

/-! ### the DenseInfo message -/

theorem spec_dm_i1 (s : DenseAcc) (c : Prop) [Decidable c] (x : Bytes) :
    decodeMsg denseInfoStep s (if c then [] else [fBytes 1 x]) = some { s with versions := if c then s.versions else x } := by
  rw [spec_dm_opt]
  by_cases h : c
  · simp only [if_pos h]
  · simp only [if_neg h]; rfl

theorem spec_dm_i2 (s : DenseAcc) (c : Prop) [Decidable c] (x : Bytes) :
    decodeMsg denseInfoStep s (if c then [] else [fBytes 2 x]) = some { s with timestamps := if c then s.timestamps else x } := by
  rw [spec_dm_opt]
  by_cases h : c
  · simp only [if_pos h]
  · simp only [if_neg h]; rfl

theorem spec_dm_i3 (s : DenseAcc) (c : Prop) [Decidable c] (x : Bytes) :
    decodeMsg denseInfoStep s (if c then [] else [fBytes 3 x]) = some { s with changesets := if c then s.changesets else x } := by
  rw [spec_dm_opt]
  by_cases h : c
  · simp only [if_pos h]
  · simp only [if_neg h]; rfl

theorem spec_dm_i4 (s : DenseAcc) (c : Prop) [Decidable c] (x : Bytes) :
    decodeMsg denseInfoStep s (if c then [] else [fBytes 4 x]) = some { s with uids := if c then s.uids else x } := by
  rw [spec_dm_opt]
  by_cases h : c
  · simp only [if_pos h]
  · simp only [if_neg h]; rfl

theorem spec_dm_i5 (s : DenseAcc) (c : Prop) [Decidable c] (x : Bytes) :
    decodeMsg denseInfoStep s (if c then [] else [fBytes 5 x]) = some { s with userSids := if c then s.userSids else x } := by
  rw [spec_dm_opt]
  by_cases h : c
  · simp only [if_pos h]
  · simp only [if_neg h]; rfl

theorem spec_dm_i6 (s : DenseAcc) (c : Prop) [Decidable c] (x : Bytes) :
    decodeMsg denseInfoStep s (if c then [] else [fBytes 6 x]) = some { s with visibles := if c then s.visibles else x } := by
  rw [spec_dm_opt]
  by_cases h : c
  · simp only [if_pos h]
  · simp only [if_neg h]; rfl

/-- the DenseInfo field list, abstractly: six optional packed arrays -/
def spec_dm_info (c1 c2 c3 c4 c5 c6 : Bool) (a1 a2 a3 a4 a5 a6 : List Nat) : List Field :=
  (if c1 then [] else [fBytes 1 (pack a1)]) ++ (if c2 then [] else [fBytes 2 (pack a2)]) ++
  (if c3 then [] else [fBytes 3 (pack a3)]) ++ (if c4 then [] else [fBytes 4 (pack a4)]) ++
  (if c5 then [] else [fBytes 5 (pack a5)]) ++ (if c6 then [] else [fBytes 6 (pack a6)])

theorem spec_dm_info_eval (s : DenseAcc) (c1 c2 c3 c4 c5 c6 : Bool) (a1 a2 a3 a4 a5 a6 : List Nat) :
    decodeMsg denseInfoStep s (spec_dm_info c1 c2 c3 c4 c5 c6 a1 a2 a3 a4 a5 a6) =
      some { s with versions := if c1 then s.versions else pack a1, timestamps := if c2 then s.timestamps else pack a2,
                    changesets := if c3 then s.changesets else pack a3, uids := if c4 then s.uids else pack a4,
                    userSids := if c5 then s.userSids else pack a5, visibles := if c6 then s.visibles else pack a6 } := by
  unfold spec_dm_info
  rw [decodeMsg_append, decodeMsg_append, decodeMsg_append, decodeMsg_append, decodeMsg_append,
    spec_dm_i1, Option.bind_some, spec_dm_i2, Option.bind_some, spec_dm_i3, Option.bind_some, spec_dm_i4, Option.bind_some,
    spec_dm_i5, Option.bind_some, spec_dm_i6]

theorem spec_dm_info_empty (c1 c2 c3 c4 c5 c6 : Bool) (a1 a2 a3 a4 a5 a6 : List Nat)
    (h : (spec_dm_info c1 c2 c3 c4 c5 c6 a1 a2 a3 a4 a5 a6).isEmpty = true) :
    c1 = true ∧ c2 = true ∧ c3 = true ∧ c4 = true ∧ c5 = true ∧ c6 = true := by
  unfold spec_dm_info at h
  cases c1 <;> cases c2 <;> cases c3 <;> cases c4 <;> cases c5 <;> cases c6 <;> simp at h ⊢

theorem spec_dm_info_shape (c1 c2 c3 c4 c5 c6 : Bool) (a1 a2 a3 a4 a5 a6 : List Nat) :
    ∀ f ∈ spec_dm_info c1 c2 c3 c4 c5 c6 a1 a2 a3 a4 a5 a6, ∃ t pl, f = fBytes t pl ∧ 0 < t ∧ t < 17 := by
  intro f hf
  unfold spec_dm_info at hf
  simp only [List.mem_append] at hf
  rcases hf with ((((hf | hf) | hf) | hf) | hf) | hf
  · exact ⟨1, _, spec_dm_mem_opt _ _ _ hf, by decide, by decide⟩
  · exact ⟨2, _, spec_dm_mem_opt _ _ _ hf, by decide, by decide⟩
  · exact ⟨3, _, spec_dm_mem_opt _ _ _ hf, by decide, by decide⟩
  · exact ⟨4, _, spec_dm_mem_opt _ _ _ hf, by decide, by decide⟩
  · exact ⟨5, _, spec_dm_mem_opt _ _ _ hf, by decide, by decide⟩
  · exact ⟨6, _, spec_dm_mem_opt _ _ _ hf, by decide, by decide⟩

/-! ### the DenseNodes message -/

/-- the DenseNodes field list, abstractly -/
def spec_dm_fields (ch : Choices) (ids lats lons : List Nat) (c10 : Bool) (a10 : List Nat) (info : List Field) : List Field :=
  [fBytes 1 (pack ids)] ++
  (if info.isEmpty then [] else [fBytes 5 (PbfSpec.msg ch PbfSpec.kDenseInfo info)]) ++
  [fBytes 8 (pack lats), fBytes 9 (pack lons)] ++
  (if c10 then [] else [fBytes 10 (pack a10)])

theorem spec_dm_fields_shape (ch : Choices) (ids lats lons : List Nat) (c10 : Bool) (a10 : List Nat) (info : List Field) :
    ∀ f ∈ spec_dm_fields ch ids lats lons c10 a10 info, ∃ t pl, f = fBytes t pl ∧ 0 < t ∧ t < 17 := by
  intro f hf
  unfold spec_dm_fields at hf
  simp only [List.mem_append, List.mem_cons, List.not_mem_nil, or_false] at hf
  rcases hf with ((hf | hf) | hf | hf) | hf
  · exact ⟨1, _, hf, by decide, by decide⟩
  · exact ⟨5, _, spec_dm_mem_opt _ _ _ hf, by decide, by decide⟩
  · exact ⟨8, _, hf, by decide, by decide⟩
  · exact ⟨9, _, hf, by decide, by decide⟩
  · exact ⟨10, _, spec_dm_mem_opt _ _ _ hf, by decide, by decide⟩

theorem spec_dm_cons {σ : Type} (step : σ → Field → Option σ) (s : σ) (f : Field) (fs : List Field) :
    decodeMsg step s (f :: fs) = (step s f).bind fun s' => decodeMsg step s' fs := by
  unfold decodeMsg
  rw [foldlM_cons']

theorem spec_dm_tail (s : DenseAcc) (lats lons : Bytes) (c10 : Bool) (x10 : Bytes) :
    ((decodeMsg (denseStep {}) s [fBytes 8 lats, fBytes 9 lons]).bind fun s' =>
        decodeMsg (denseStep {}) s' (if c10 then [] else [fBytes 10 x10])) =
      some { s with lats := lats, lons := lons, tags := if c10 then s.tags else x10 } := by
  have h8 : ∀ (s : DenseAcc) x, denseStep {} s (fBytes 8 x) = some { s with lats := x } := fun _ _ => rfl
  have h9 : ∀ (s : DenseAcc) x, denseStep {} s (fBytes 9 x) = some { s with lons := x } := fun _ _ => rfl
  have h10 : ∀ (s : DenseAcc) x, denseStep {} s (fBytes 10 x) = some { s with tags := x } := fun _ _ => rfl
  rw [spec_dm_cons, h8, Option.bind_some, spec_dm_single, h9, Option.bind_some, spec_dm_opt, h10]
  cases c10 <;> rfl

theorem spec_dm_decode (ch : Choices) (hch : ChoicesOk ch) (ids lats lons : List Nat) (c10 c1 c2 c3 c4 c5 c6 : Bool)
    (a10 a1 a2 a3 a4 a5 a6 : List Nat)
    (hr : ¬ (spec_dm_info c1 c2 c3 c4 c5 c6 a1 a2 a3 a4 a5 a6).isEmpty = true →
      readFields (PbfSpec.msg ch PbfSpec.kDenseInfo (spec_dm_info c1 c2 c3 c4 c5 c6 a1 a2 a3 a4 a5 a6)) =
        .ok (PbfSpec.arrange ch PbfSpec.kDenseInfo (spec_dm_info c1 c2 c3 c4 c5 c6 a1 a2 a3 a4 a5 a6))) :
    decodeMsg (denseStep {}) {} (spec_dm_fields ch ids lats lons c10 a10 (spec_dm_info c1 c2 c3 c4 c5 c6 a1 a2 a3 a4 a5 a6)) =
      some { hasInfo := !(spec_dm_info c1 c2 c3 c4 c5 c6 a1 a2 a3 a4 a5 a6).isEmpty,
             ids := pack ids, lats := pack lats, lons := pack lons, tags := if c10 then [] else pack a10,
             versions := if c1 then [] else pack a1, timestamps := if c2 then [] else pack a2,
             changesets := if c3 then [] else pack a3, uids := if c4 then [] else pack a4,
             userSids := if c5 then [] else pack a5, visibles := if c6 then [] else pack a6 } := by
  unfold spec_dm_fields
  have h1 : denseStep {} {} (fBytes 1 (pack ids)) = some { ids := pack ids } := rfl
  rw [decodeMsg_append, decodeMsg_append, decodeMsg_append, spec_dm_single, h1, Option.bind_some, spec_dm_opt]
  by_cases hE : (spec_dm_info c1 c2 c3 c4 c5 c6 a1 a2 a3 a4 a5 a6).isEmpty = true
  · obtain ⟨e1, e2, e3, e4, e5, e6⟩ := spec_dm_info_empty _ _ _ _ _ _ _ _ _ _ _ _ hE
    rw [if_pos hE, Option.bind_some, spec_dm_tail, hE]
    subst e1 e2 e3 e4 e5 e6
    rfl
  · have h5 : ∀ (s : DenseAcc) pl, denseStep {} s (fBytes 5 pl) =
        match readFields pl with
        | .error _ => none
        | .ok fs => decodeMsg denseInfoStep { s with hasInfo := true } fs := fun _ _ => rfl
    rw [if_neg hE, h5, hr hE]
    simp only []
    rw [decodeMsg_arrange' denseInfoStep denseInfoKnown denseInfoStep_unknown denseInfoStep_commutes ch PbfSpec.kDenseInfo _ _
      (hch.extrasUnknown PbfSpec.kDenseInfo), spec_dm_info_eval, Option.bind_some, spec_dm_tail]
    have hE' : (spec_dm_info c1 c2 c3 c4 c5 c6 a1 a2 a3 a4 a5 a6).isEmpty = false := by simpa using hE
    rw [hE']
    rfl

theorem spec_dm_core (ch : Choices) (hch : ChoicesOk ch) (ids lats lons : List Nat) (c10 c1 c2 c3 c4 c5 c6 : Bool)
    (a10 a1 a2 a3 a4 a5 a6 : List Nat)
    (hb : CurLt64 { ids := ids, lats := lats, lons := lons, tags := if c10 then [] else a10,
                    versions := if c1 then [] else a1, timestamps := if c2 then [] else a2,
                    changesets := if c3 then [] else a3, uids := if c4 then [] else a4,
                    userSids := if c5 then [] else a5, visibles := if c6 then [] else a6 })
    (hlen : (PbfSpec.msg ch PbfSpec.kDense
      (spec_dm_fields ch ids lats lons c10 a10 (spec_dm_info c1 c2 c3 c4 c5 c6 a1 a2 a3 a4 a5 a6))).length < 2 ^ 32)
    (p : Params) :
    withFields (PbfSpec.msg ch PbfSpec.kDense
        (spec_dm_fields ch ids lats lons c10 a10 (spec_dm_info c1 c2 c3 c4 c5 c6 a1 a2 a3 a4 a5 a6))) (decodeDense p {}) =
      denseLoop p (!(spec_dm_info c1 c2 c3 c4 c5 c6 a1 a2 a3 a4 a5 a6).isEmpty) (ids.length + 1)
        { ids := ids, lats := lats, lons := lons, tags := if c10 then [] else a10,
          versions := if c1 then [] else a1, timestamps := if c2 then [] else a2,
          changesets := if c3 then [] else a3, uids := if c4 then [] else a4,
          userSids := if c5 then [] else a5, visibles := if c6 then [] else a6 } [] := by
  have hwf : ∀ f ∈ spec_dm_fields ch ids lats lons c10 a10 (spec_dm_info c1 c2 c3 c4 c5 c6 a1 a2 a3 a4 a5 a6), f.WF := by
    intro f hf
    obtain ⟨t, pl, rfl, h0, h1⟩ := spec_dm_fields_shape _ _ _ _ _ _ _ f hf
    exact wf_bytes t pl h0 h1 (Nat.lt_of_le_of_lt (payload_le_msg ch PbfSpec.kDense _ _ hf rfl) hlen)
  have hr : ¬ (spec_dm_info c1 c2 c3 c4 c5 c6 a1 a2 a3 a4 a5 a6).isEmpty = true →
      readFields (PbfSpec.msg ch PbfSpec.kDenseInfo (spec_dm_info c1 c2 c3 c4 c5 c6 a1 a2 a3 a4 a5 a6)) =
        .ok (PbfSpec.arrange ch PbfSpec.kDenseInfo (spec_dm_info c1 c2 c3 c4 c5 c6 a1 a2 a3 a4 a5 a6)) := by
    intro hE
    apply readFields_msg _ _ _ ?_ (hch.extrasWF _)
    intro f hf
    obtain ⟨t, pl, rfl, h0, h1⟩ := spec_dm_info_shape _ _ _ _ _ _ _ _ _ _ _ _ f hf
    have hin : fBytes 5 (PbfSpec.msg ch PbfSpec.kDenseInfo (spec_dm_info c1 c2 c3 c4 c5 c6 a1 a2 a3 a4 a5 a6)) ∈
        spec_dm_fields ch ids lats lons c10 a10 (spec_dm_info c1 c2 c3 c4 c5 c6 a1 a2 a3 a4 a5 a6) := by
      unfold spec_dm_fields
      simp [hE]
    have l1 := payload_le_msg ch PbfSpec.kDenseInfo _ _ hf rfl
    have l2 := payload_le_msg ch PbfSpec.kDense _ _ hin rfl
    exact wf_bytes t pl h0 h1 (Nat.lt_of_le_of_lt (Nat.le_trans l1 l2) hlen)
  unfold withFields
  rw [readFields_msg ch PbfSpec.kDense _ hwf (hch.extrasWF _)]
  simp only []
  unfold decodeDense
  rw [decodeMsg_arrange' (denseStep {}) denseKnown (spec_dm_unknown {}) (spec_dm_commutes {}) ch PbfSpec.kDense _ _
    (hch.extrasUnknown PbfSpec.kDense), spec_dm_decode ch hch ids lats lons c10 c1 c2 c3 c4 c5 c6 a10 a1 a2 a3 a4 a5 a6 hr]
  obtain ⟨b1, b2, b3, b4, b5, b6, b7, b8, b9, b10⟩ := hb
  simp only [Option.bind_eq_bind, Option.bind_some, unpack_pack _ b1, unpack_pack _ b2, unpack_pack _ b3,
    spec_dm_unpack_if _ _ b4, spec_dm_unpack_if _ _ b5, spec_dm_unpack_if _ _ b6, spec_dm_unpack_if _ _ b7,
    spec_dm_unpack_if _ _ b8, spec_dm_unpack_if _ _ b9, spec_dm_unpack_if _ _ b10]

theorem spec_decodeDense (ch : Choices) (hch : ChoicesOk ch) (table : List Bytes) (hist : Bool) (ns : List (Meta × Location))
    (hb : CurLt64 (specDenseCur ch table hist ns)) (hlen : (PbfSpec.denseMsg ch table hist ns).length < 2 ^ 32) (p : Params) :
    withFields (PbfSpec.denseMsg ch table hist ns) (decodeDense p {}) =
      denseLoop p (!(specDenseInfo ch table hist ns).isEmpty) (ns.length + 1) (specDenseCur ch table hist ns) [] := by
  have hl : ((PbfSpec.delta 0 ((ns.map (fun (x : Meta × Location) => x.1)).map (fun (x : Meta) => x.id))).map zigzag64).length = ns.length := by
    rw [List.length_map, delta_length, List.length_map, List.length_map]
  have h := spec_dm_core ch hch
    ((PbfSpec.delta 0 ((ns.map (fun (x : Meta × Location) => x.1)).map (fun (x : Meta) => x.id))).map zigzag64)
    ((PbfSpec.delta 0 (ns.map fun (n : Meta × Location) => PbfSpec.coord ch.granularity ch.latOffset n.2.y)).map zigzag64)
    ((PbfSpec.delta 0 (ns.map fun (n : Meta × Location) => PbfSpec.coord ch.granularity ch.lonOffset n.2.x)).map zigzag64)
    (ch.omitDefaults && (ns.map (fun (x : Meta × Location) => x.1)).all (fun (x : Meta) => x.tags.isEmpty))
    (ch.omitDefaults && (ns.map (fun (x : Meta × Location) => x.1)).all (fun (x : Meta) => x.version == 0))
    (ch.omitDefaults && (ns.map (fun (x : Meta × Location) => x.1)).all (fun (x : Meta) => x.timestamp == 0))
    (ch.omitDefaults && (ns.map (fun (x : Meta × Location) => x.1)).all (fun (x : Meta) => x.changeset == 0))
    (ch.omitDefaults && (ns.map (fun (x : Meta × Location) => x.1)).all (fun (x : Meta) => x.uid == 0))
    (ch.omitDefaults && (ns.map (fun (x : Meta × Location) => x.1)).all (fun (x : Meta) => x.user.isEmpty))
    ((ch.omitDefaults || !hist) && (ns.map (fun (x : Meta × Location) => x.1)).all (fun (x : Meta) => x.visible))
    ((ns.map (fun (x : Meta × Location) => x.1)).flatMap fun (m : Meta) => (m.tags.flatMap fun (t : Tag) => [PbfSpec.idx table t.key, PbfSpec.idx table t.value]) ++ [0])
    ((ns.map (fun (x : Meta × Location) => x.1)).map fun (m : Meta) => PbfSpec.u64 (if m.version == 0 && ch.versionMinusOne then -1 else m.version))
    ((PbfSpec.delta 0 ((ns.map (fun (x : Meta × Location) => x.1)).map fun (m : Meta) => PbfSpec.stamp ch.dateGranularity m.timestamp)).map zigzag64)
    ((PbfSpec.delta 0 ((ns.map (fun (x : Meta × Location) => x.1)).map fun (m : Meta) => (m.changeset : Int))).map zigzag64)
    ((PbfSpec.delta 0 ((ns.map (fun (x : Meta × Location) => x.1)).map fun (m : Meta) => (m.uid : Int))).map PbfSpec.zigzag32)
    ((PbfSpec.delta 0 ((ns.map (fun (x : Meta × Location) => x.1)).map fun (m : Meta) => (PbfSpec.idx table m.user : Int))).map PbfSpec.zigzag32)
    ((ns.map (fun (x : Meta × Location) => x.1)).map fun (m : Meta) => if m.visible then 1 else 0)
    hb hlen p
  rw [hl] at h
  exact h

end Osmium.Pbf
