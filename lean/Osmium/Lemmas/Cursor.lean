/-
Character cursors of the translated C++ (Osmium/Model/CxxSem.lean: `Buf`, `rdS`, `rdU`, `inB`, `ptrOk`, `cstrOk`)
against the suffix-list view of the hand-written models (Osmium/Model/Conv.lean: a `const char*` is the remaining
suffix, `peek [] = 0` is the terminating NUL):

  the byte array is `s ++ 0 :: t` (the string `s`, its NUL, anything behind it — `s` may contain NULs itself);
  the pointer with index `i ≤ s.length` is the suffix `s.drop i`.

Used by the `src_tie_*` theorems about translated parsers (Lemmas/SrcTieCoord.lean, …).  Core-only.
-/
import Osmium.Model.Conv
import Osmium.Lemmas.CxxSem

set_option Elab.async false

namespace Osmium.Cursor

open Osmium.CxxSem Osmium.Conv

/-- the value of a byte read through a `const char*` (`char` is signed) -/
def sc (c : UInt8) : Int := if c.toNat < 128 then (c.toNat : Int) else (c.toNat : Int) - 256

/-- everything linear arithmetic needs to know about `sc c` -/
theorem sc_cases (c : UInt8) :
    (c.toNat < 128 ∧ sc c = (c.toNat : Int)) ∨ (128 ≤ c.toNat ∧ c.toNat < 256 ∧ sc c = (c.toNat : Int) - 256) := by
  have := c.toNat_lt
  unfold sc
  by_cases h : c.toNat < 128
  · left; simp [h]
  · right; simp [h]; omega

/-- a character read through a `const char*` and appended to an output string is the byte itself -/
theorem byteOf_sc (c : UInt8) : byteOf (sc c) = c := by
  unfold byteOf
  have h := sc_cases c
  have : (sc c % 256).toNat = c.toNat := by omega
  rw [this]
  exact UInt8.ofNat_toNat

theorem push_sc (out : Buf) (c : UInt8) : push out (sc c) = out ++ [c] := by
  unfold push; rw [byteOf_sc]

theorem getD_cbuf (s t : List UInt8) (i : Nat) (h : i ≤ s.length) : (s ++ 0 :: t).getD i 0 = peek (s.drop i) := by
  induction s generalizing i with
  | nil => have : i = 0 := by simpa using h
           subst this; rfl
  | cons a s ih =>
    cases i with
    | zero => rfl
    | succ i => simpa using ih i (by simpa using h)

theorem rdU_cbuf (s t : List UInt8) (i : Nat) (h : i ≤ s.length) :
    rdU (s ++ 0 :: t) (i : Int) = ((peek (s.drop i)).toNat : Int) := by
  unfold rdU; rw [Int.toNat_natCast, getD_cbuf s t i h]

theorem rdS_cbuf (s t : List UInt8) (i : Nat) (h : i ≤ s.length) :
    rdS (s ++ 0 :: t) (i : Int) = sc (peek (s.drop i)) := by
  unfold rdS sc; rw [rdU_cbuf s t i h]
  by_cases h1 : (peek (s.drop i)).toNat < 128
  · have : ((peek (s.drop i)).toNat : Int) < 128 := by omega
    simp [h1, this]
  · have : ¬ ((peek (s.drop i)).toNat : Int) < 128 := by omega
    simp [h1, this]

theorem inB_cbuf (s t : List UInt8) (i : Nat) (h : i ≤ s.length) : inB (s ++ 0 :: t) (i : Int) = true := by
  simp [inB]; omega

theorem ptrOk_cbuf (s t : List UInt8) (i : Nat) (h : i ≤ s.length + 1) : ptrOk (s ++ 0 :: t) (i : Int) = true := by
  simp [ptrOk]; omega

theorem cstrOk_cbuf (s t : List UInt8) (i : Nat) (h : i ≤ s.length) : cstrOk (s ++ 0 :: t) (i : Int) = true := by
  unfold cstrOk
  rw [inB_cbuf s t i h, Int.toNat_natCast, List.drop_append_of_le_length h]
  simp

/-- a non-NUL character under the cursor: the cursor is inside the string and can advance -/
theorem lt_of_peek_ne_zero (s : List UInt8) (i : Nat) (h : peek (s.drop i) ≠ 0) : i < s.length := by
  by_cases hl : i < s.length
  · exact hl
  · rw [List.drop_eq_nil_of_le (by omega)] at h; exact absurd rfl h

theorem drop_cons (s : List UInt8) (i : Nat) (c : UInt8) (u : List UInt8) (h : s.drop i = c :: u) :
    i < s.length ∧ s.drop (i + 1) = u := by
  constructor
  · by_cases hl : i < s.length
    · exact hl
    · rw [List.drop_eq_nil_of_le (by omega)] at h; cases h
  · rw [← List.tail_drop, h]; rfl

theorem tail_drop (s : List UInt8) (i : Nat) : (s.drop i).tail = s.drop (i + 1) := List.tail_drop

theorem peek_cons (c : UInt8) (u : List UInt8) : peek (c :: u) = c := rfl
theorem peek_nil : peek ([] : List UInt8) = 0 := rfl

/-- `isDigit` in linear arithmetic -/
theorem isDigit_iff (c : UInt8) : isDigit c = true ↔ 48 ≤ c.toNat ∧ c.toNat ≤ 57 := by
  simp [isDigit]

theorem isDigit_false_iff (c : UInt8) : isDigit c = false ↔ c.toNat < 48 ∨ 57 < c.toNat := by
  rw [← Bool.not_eq_true, isDigit_iff]; omega

theorem digitVal_eq (c : UInt8) (h : isDigit c = true) : (digitVal c : Int) = (c.toNat : Int) - 48 := by
  rw [isDigit_iff] at h; unfold digitVal; omega

/-- comparison of a byte with an ASCII character constant -/
theorem eq_char_iff (c k : UInt8) : c = k ↔ c.toNat = k.toNat := by
  constructor
  · intro h; rw [h]
  · intro h; exact UInt8.toNat_inj.mp h

theorem beq_char (c k : UInt8) : (c == k) = decide (c.toNat = k.toNat) := by
  by_cases h : c = k
  · simp [h]
  · have : ¬ c.toNat = k.toNat := fun e => h ((eq_char_iff c k).mpr e)
    simp [h, this]

theorem bne_char (c k : UInt8) : (c != k) = decide (c.toNat ≠ k.toNat) := by
  rw [bne, beq_char]; by_cases h : c.toNat = k.toNat <;> simp [h]

@[simp] theorem cMinus_toNat : cMinus.toNat = 45 := rfl
@[simp] theorem cDot_toNat : cDot.toNat = 46 := rfl
@[simp] theorem ce_toNat : ce.toNat = 101 := rfl
@[simp] theorem cE_toNat : cE.toNat = 69 := rfl
@[simp] theorem zero_toNat : (0 : UInt8).toNat = 0 := rfl

end Osmium.Cursor
