/-
C11, member-handle invariant: the first pass establishes it; statements about whole runs.
Core-only.
-/
import Osmium.Lemmas.RelMgrHandlesRun
import Osmium.Lemmas.RelMgrSpec

namespace Osmium.RelMgr

open Osmium.Order (Kind CheckState checkStep accepts checkRun)

/-! ### the first pass -/

theorem addRelation_num (c : Cfg) (s : State) (r : Rel) (h : ∀ k, ∀ e ∈ s.getDb k, e.num.isSome = true) :
    ∀ k, ∀ e ∈ (addRelation c s r).getDb k, e.num.isSome = true := by
  unfold addRelation
  split
  · intro k e he
    have : e ∈ s.getDb k ∨ e ∈ trackElems c r s.rdb.size k := by
      cases k <;> exact List.mem_append.mp he
    rcases this with h1 | h1
    · exact h k e h1
    · simp only [trackElems, List.mem_map] at h1
      obtain ⟨x, _, rfl⟩ := h1
      rfl
  · exact h

theorem foldl_addRelation_num (c : Cfg) (rels : List Rel) :
    ∀ s : State, (∀ k, ∀ e ∈ s.getDb k, e.num.isSome = true) →
      ∀ k, ∀ e ∈ (rels.foldl (addRelation c) s).getDb k, e.num.isSome = true := by
  induction rels with
  | nil => intro s h; exact h
  | cons r rels ih => intro s h; simp only [List.foldl_cons]; exact ih _ (addRelation_num c s r h)

theorem firstPass_num (c : Cfg) (rels : List Rel) : ∀ k, ∀ e ∈ (firstPass c rels).getDb k, e.num.isSome = true := by
  intro k e he
  unfold firstPass at he
  rw [(prepare_fields _).2.2.2 k] at he
  have he' := (sortElems_perm _).mem_iff.mp he
  exact foldl_addRelation_num c rels {} (fun k e he => by cases k <;> simp [State.getDb] at he) k e he'

theorem firstPass_rinv (c : Cfg) (rels : List Rel) (fixed : Bool) :
    RInv (RmOf c (interestingRels c rels)) (interestingRels c rels).length (baseOf (firstPass c rels)) fixed []
      (firstPass c rels) := by
  have i3 := firstPass_inv3 c rels
  obtain ⟨s', f, heq⟩ := firstPass_fp c rels
  have hlog : (firstPass c rels).log = [] := by rw [heq, (prepare_fields s').2.2.1, f.log]
  have hh : ∀ k, ∀ e ∈ (firstPass c rels).getDb k, e.h = 0 := by
    intro k e he
    rw [heq, (prepare_fields s').2.2.2 k] at he
    exact (f.elems k e ((sortElems_perm _).mem_iff.mp he)).2
  have hdead : ∀ p, deadB (firstPass c rels) p = false := by
    intro p
    by_cases hp : p < (interestingRels c rels).length
    · have := i3.inv2.fired p hp
      rw [hlog] at this
      cases hd : deadB (firstPass c rels) p with
      | false => rfl
      | true => rw [hd] at this; simp [firedCount] at this
    · have : (firstPass c rels).rdb[p]? = none := by
        apply Array.getElem?_eq_none
        rw [i3.inv2.wf.rsize]; omega
      simp [deadB, this]
  refine ⟨i3, ⟨?_, ?_, ?_⟩, ⟨?_, ?_⟩, ?_, ?_⟩
  · intro k e he hpos o ho; cases ho
  · intro k e he _; exact hh k e he
  · intro _ k e he _; exact hh k e he
  · intro k e he e' he' _; rw [hh k e he, hh k e' he']
  · -- the stash holds only the relations
    intro h o hg
    exfalso
    rw [heq, (prepare_fields s').2.1] at hg
    unfold stashGet at hg
    split at hg
    · cases hg
    · rw [← Array.getElem?_toList, f.stash, List.getElem?_map] at hg
      cases hL : (interestingRels c rels)[h - 1]? with
      | none => rw [hL] at hg; simp at hg
      | some r => rw [hL] at hg; simp at hg
  · intro k e he
    rw [firstPass_num c rels k e he, hdead]; simp
  · rw [hlog]; intro e he; cases he

/-! ### the static context -/

/-- members with `ref ≠ 0` of the stash copy = wanted members with `ref ≠ 0` -/
theorem markMembers_countP (c : Cfg) (r : Rel) (k : Kind) (id : Int) (hid : id ≠ 0) :
    (markMembers c r).countP (fun m => m.kind == k && m.ref == id) =
      (wantedRefs c r).countP (fun w => w.1 == k && w.2 == id) := by
  unfold markMembers wantedRefs
  rw [List.mapIdx_eq_zipIdx_map, List.countP_map, List.countP_map, List.countP_filter]
  apply List.countP_congr
  intro x _
  obtain ⟨m, j⟩ := x
  have h0 : ¬ (0 : Int) = id := fun h => hid h.symm
  by_cases hw : wantedAt c r j m = true <;> simp [hw, h0]

theorem markMembers_filter (c : Cfg) (r : Rel) :
    ((markMembers c r).filter (fun m => m.ref ≠ 0)).map (fun m => (m.kind, m.ref)) =
      (wantedRefs c r).filter (fun w => w.2 ≠ 0) := by
  unfold markMembers wantedRefs
  rw [List.mapIdx_eq_zipIdx_map]
  generalize r.members.zipIdx = l
  induction l with
  | nil => rfl
  | cons x l ih =>
    obtain ⟨m, j⟩ := x
    by_cases hw : wantedAt c r j m = true <;> by_cases h0 : m.ref = 0 <;>
      simp_all

theorem refCount_base {c : Cfg} {L : List Rel} {s' : State} (f : FP c L s') (k : Kind) (id : Int) (p : Nat) (r : Rel)
    (hp : L[p]? = some r) :
    refCount (baseOf (prepare s')) k id p = (wantedRefs c r).countP (fun w => w.1 == k && w.2 == id) := by
  unfold refCount baseOf skel
  rw [List.countP_map, (prepare_fields s').2.2.2 k, (sortElems_perm (s'.getDb k)).countP_eq]
  rw [← f.counts k p (fun m => m == id) r hp]
  apply List.countP_congr
  intro e _
  simp [Bool.and_comm]

theorem ctx_of_firstPass (c : Cfg) (rels : List Rel) (hn : ((interestingRels c rels).map (·.id)).Nodup) :
    Ctx (RmOf c (interestingRels c rels)) (interestingRels c rels).length (baseOf (firstPass c rels)) := by
  have i3 := firstPass_inv3 c rels
  obtain ⟨s', f, heq⟩ := firstPass_fp c rels
  refine ⟨?_, ?_, i3.sorted0, i3.rposlt⟩
  · intro p q hp hq hid
    have hp' : (interestingRels c rels)[p]? = some (interestingRels c rels)[p] := by simp [hp]
    have hq' : (interestingRels c rels)[q]? = some (interestingRels c rels)[q] := by simp [hq]
    have h1 := RmOf_id c _ p _ hp'
    have h2 := RmOf_id c _ q _ hq'
    exact nodup_ids_index hn q p _ _ hq' hp' (by rw [← h1.1, hid, h2.1])
  · intro q hq k id hid
    have hq' : (interestingRels c rels)[q]? = some (interestingRels c rels)[q] := by simp [hq]
    rw [heq, refCount_base f k id q _ hq', ← markMembers_countP c _ k id hid]
    simp [RmOf, hq, markRel]

/-! ### whole runs -/

/-- the invariant (with the member handles) holds at the end of every run in the domain -/
theorem final_rinv (c : Cfg) (rels : List Rel) (ops : List Op) (d : Dom c rels ops) :
    RInv (RmOf c (interestingRels c rels)) (interestingRels c rels).length (baseOf (firstPass c rels)) c.fixed
      ((seenObjs c ops).reverse) (runOps c (firstPass c rels) ops) := by
  have i0 := firstPass_rinv c rels c.fixed
  have cx := ctx_of_firstPass c rels d.relIds
  have hchk : checkRun (firstPass c rels).chk (seenIds c ops) ≠ none := by
    rw [firstPass_chk]
    have := d.ordered
    unfold accepts at this
    intro h; rw [h] at this; simp at this
  have := rinv_runOps cx c ops i0 hchk d.nodup (fun x _ h => by simp at h)
  simpa using this

theorem run_lookup (c : Cfg) (rels : List Rel) (ops : List Op) (k : Kind) (id : Int) :
    (run c rels ops).lookup k id = (runOps c (firstPass c rels) ops).lookup k id := by
  have hf := run_fields c rels ops
  simp [State.lookup, hf.2.2.1, hf.2.2.2 k]

/-- an element tracks (k, id) for the relation at position `p` iff that relation wants (k, id) -/
theorem base_mem_iff {c : Cfg} {L : List Rel} {s' : State} (f : FP c L s') (k : Kind) (id : Int) (p : Nat) (r : Rel)
    (hp : L[p]? = some r) : (id, p) ∈ baseOf (prepare s') k ↔ (k, id) ∈ wantedRefs c r := by
  have h := refCount_base f k id p r hp
  have h1 : (id, p) ∈ baseOf (prepare s') k ↔ 0 < refCount (baseOf (prepare s')) k id p := by
    unfold refCount
    rw [List.countP_pos_iff]
    constructor
    · intro hm; exact ⟨_, hm, by simp⟩
    · rintro ⟨x, hx, hpx⟩
      simp only [Bool.and_eq_true, beq_iff_eq] at hpx
      have : x = (id, p) := Prod.ext hpx.1 hpx.2
      rw [← this]; exact hx
  have h2 : (k, id) ∈ wantedRefs c r ↔ 0 < (wantedRefs c r).countP (fun w => w.1 == k && w.2 == id) := by
    rw [List.countP_pos_iff]
    constructor
    · intro hm; exact ⟨_, hm, by simp⟩
    · rintro ⟨x, hx, hpx⟩
      simp only [Bool.and_eq_true, beq_iff_eq] at hpx
      have : x = (k, id) := Prod.ext hpx.1 hpx.2
      rw [← this]; exact hx
  rw [h1, h2, h]

/-- the lookups of every completion callback: one per wanted member with `ref ≠ 0`, in member
    order, each returning the input object of that type and id -/
theorem callback_lookups (c : Cfg) (rels : List Rel) (ops : List Op) (d : Dom c rels ops)
    (pos : Nat) (rid : Int) (cont : Nat) (looks : List (Member × Lookup))
    (h : Event.complete pos rid cont looks ∈ (run c rels ops).events) :
    ∃ r, (interestingRels c rels)[pos]? = some r ∧
      looks.map (fun ml => (ml.1.kind, ml.1.ref)) = (wantedRefs c r).filter (fun w => w.2 ≠ 0) ∧
      ∀ ml ∈ looks, ∃ o ∈ seenObjs c ops, o.kind = ml.1.kind ∧ o.id = ml.1.ref ∧ ml.2 = .found o := by
  have i := final_rinv c rels ops d
  rw [State.events, List.mem_reverse, (run_fields c rels ops).1] at h
  obtain ⟨hp, _, _⟩ := i.inv3.inv2.logok _ h
  obtain ⟨h1, h2⟩ := i.looks _ h
  refine ⟨(interestingRels c rels)[pos], by simp [hp], ?_, ?_⟩
  · have : looks.map (fun ml => (ml.1.kind, ml.1.ref)) = (looks.map (·.1)).map (fun m => (m.kind, m.ref)) := by
      rw [List.map_map]; rfl
    rw [this, h1, ← markMembers_filter]
    simp [RmOf, hp, markRel]
  · intro ml hml
    obtain ⟨o, ho, h3⟩ := h2 ml hml
    exact ⟨o, List.mem_reverse.mp ho, h3⟩

/-- an arrived object that an interesting relation not yet completed wants is found by the lookup
    (whatever else has been completed, however often it is referenced) -/
theorem lookup_kept (c : Cfg) (rels : List Rel) (ops : List Op) (d : Dom c rels ops)
    (o : Obj) (ho : o ∈ seenObjs c ops) (hid : o.id ≠ 0)
    (r : Rel) (hr : r ∈ interestingRels c rels) (hw : (o.kind, o.id) ∈ wantedRefs c r)
    (hnc : r.id ∉ callbacks (run c rels ops).events) :
    (run c rels ops).lookup o.kind o.id = .found o := by
  have i := final_rinv c rels ops d
  obtain ⟨p, hp⟩ := List.getElem?_of_mem hr
  obtain ⟨h1, h2, _, _⟩ := final_facts c rels ops d p r hp
  have hdead : deadB (runOps c (firstPass c rels) ops) p = false := by
    cases hd : deadB (runOps c (firstPass c rels) ops) p with
    | false => rfl
    | true =>
      exfalso
      apply hnc
      apply List.count_pos_iff.mp
      rw [h1, h2, hd]; simp
  obtain ⟨s', f, heq⟩ := firstPass_fp c rels
  have hmem : (o.id, p) ∈ baseOf (firstPass c rels) o.kind := by
    rw [heq]; exact (base_mem_iff f o.kind o.id p r hp).mpr hw
  rw [← i.inv3.skelEq o.kind] at hmem
  obtain ⟨e, he, hee⟩ := List.mem_map.mp hmem
  simp only [Prod.mk.injEq] at hee
  have henum : e.num.isSome = true := by
    rw [i.num o.kind e he, hee.2, hdead]; simp
  have hpos : 0 < liveRefs ((runOps c (firstPass c rels) ops).getDb o.kind) o.id :=
    List.countP_pos_iff.mpr ⟨e, he, by simp [hee.1, henum]⟩
  rw [run_lookup]
  exact lookup_found i.hinv o.kind o.id (i.inv3.sorted o.kind) hid hpos o (List.mem_reverse.mpr ho) rfl rfl

/-- repaired `remove()`: once every interesting relation that wants (k, id) has been completed
    (in particular: if none wants it), the lookup returns nullptr -/
theorem lookup_released (c : Cfg) (hfix : c.fixed = true) (rels : List Rel) (ops : List Op) (d : Dom c rels ops)
    (k : Kind) (id : Int)
    (hall : ∀ r ∈ interestingRels c rels, (k, id) ∈ wantedRefs c r → r.id ∈ callbacks (run c rels ops).events) :
    (run c rels ops).lookup k id = .absent := by
  have i := final_rinv c rels ops d
  have hi : HInv true ((seenObjs c ops).reverse) (runOps c (firstPass c rels) ops) := hfix ▸ i.hinv
  rw [run_lookup]
  rcases lookup_not_wild hi k id (i.inv3.sorted k) with h | ⟨o, _, _, _, hpos, hfound⟩
  · exact h
  · exfalso
    have hid : id ≠ 0 := by
      intro h0
      rw [h0] at hfound
      simp [State.lookup] at hfound
    obtain ⟨e, he, hpe⟩ := List.countP_pos_iff.mp hpos
    simp only [Bool.and_eq_true, beq_iff_eq] at hpe
    have hnum := i.num k e he
    rw [hpe.2] at hnum
    have hne : ¬ e.mid = 0 := by rw [hpe.1]; exact hid
    have hdead : deadB (runOps c (firstPass c rels) ops) e.rpos = false := by
      simpa [hne] using hnum.symm
    have hlt := rpos_lt_of_skel i.inv3.skelEq i.inv3.rposlt k e he
    have hp : (interestingRels c rels)[e.rpos]? = some (interestingRels c rels)[e.rpos] := by simp [hlt]
    obtain ⟨s', f, heq⟩ := firstPass_fp c rels
    have hmem := mem_base_of_mem i.inv3.skelEq k e he
    rw [heq, hpe.1] at hmem
    have hw := (base_mem_iff f k id e.rpos _ hp).mp hmem
    have hcb := hall _ (List.mem_of_getElem? hp) hw
    obtain ⟨h1, h2, _, _⟩ := final_facts c rels ops d e.rpos _ hp
    have := List.count_pos_iff.mpr hcb
    rw [h1, h2, hdead] at this
    simp at this

/-- repaired `remove()`: no query made between two objects ever got a pointer computed from a
    released stash entry -/
theorem no_wild_queries (c : Cfg) (hfix : c.fixed = true) (rels : List Rel) (ops : List Op) (d : Dom c rels ops)
    (k : Kind) (id : Int) : Event.query k id .wild ∉ (run c rels ops).events := by
  have i := final_rinv c rels ops d
  intro h
  rw [State.events, List.mem_reverse, (run_fields c rels ops).1] at h
  exact i.looks _ h hfix rfl

/-- an object that has not arrived (yet) is not found, whatever wants it -/
theorem lookup_not_arrived (c : Cfg) (rels : List Rel) (ops : List Op) (d : Dom c rels ops)
    (k : Kind) (id : Int) (hns : (k, id) ∉ seenIds c ops) :
    (run c rels ops).lookup k id = .absent := by
  have i := final_rinv c rels ops d
  rw [run_lookup]
  unfold State.lookup
  split
  · rfl
  · rw [dbLookup_sorted _ _ _ (i.inv3.sorted k)]
    cases hf : ((runOps c (firstPass c rels) ops).getDb k).filter (fun e => e.mid == id) with
    | nil => rfl
    | cons e0 rest =>
      have hmem : e0 ∈ ((runOps c (firstPass c rels) ops).getDb k).filter (fun e => e.mid == id) := by
        rw [hf]; exact List.mem_cons_self ..
      obtain ⟨h1, h2⟩ := List.mem_filter.mp hmem
      have h2' : e0.mid = id := by simpa using h2
      have := i.hinv.fresh k e0 h1 (by
        rw [h2']
        intro hm
        apply hns
        rw [seenIds_eq]
        obtain ⟨o, ho, hk⟩ := List.mem_map.mp hm
        exact List.mem_map.mpr ⟨o, List.mem_reverse.mp ho, hk⟩)
      simp [this]

/-! ### every point of a history in the domain is the end of a history in the domain -/

theorem seenObjs_take (c : Cfg) : ∀ (ops : List Op) (n : Nat), ∃ m, seenObjs c (ops.take n) = (seenObjs c ops).take m := by
  intro ops
  induction ops with
  | nil => intro n; exact ⟨0, by simp [seenObjs]⟩
  | cons op ops ih =>
    intro n
    cases n with
    | zero => exact ⟨0, by simp [seenObjs]⟩
    | succ n =>
      obtain ⟨m, hm⟩ := ih n
      simp only [List.take_succ_cons]
      cases op with
      | query k id => exact ⟨m, by simpa [seenObjs] using hm⟩
      | flush => exact ⟨m, by simpa [seenObjs] using hm⟩
      | obj o =>
        by_cases hen : c.enabled o.kind = true
        · refine ⟨m + 1, ?_⟩
          have h1 : seenObjs c (Op.obj o :: ops) = o :: seenObjs c ops := by simp [seenObjs, hen]
          have h2 : seenObjs c (Op.obj o :: ops.take n) = o :: seenObjs c (ops.take n) := by simp [seenObjs, hen]
          rw [h1, h2, hm]; rfl
        · refine ⟨m, ?_⟩
          have h1 : seenObjs c (Op.obj o :: ops) = seenObjs c ops := by simp [seenObjs, hen]
          have h2 : seenObjs c (Op.obj o :: ops.take n) = seenObjs c (ops.take n) := by simp [seenObjs, hen]
          rw [h1, h2, hm]

theorem checkRun_take : ∀ (l : List (Kind × Int)) (s : CheckState) (m : Nat),
    checkRun s l ≠ none → checkRun s (l.take m) ≠ none := by
  intro l
  induction l with
  | nil => intro s m h; simpa using h
  | cons x l ih =>
    intro s m h
    cases m with
    | zero => simp [checkRun]
    | succ m =>
      obtain ⟨k, id⟩ := x
      obtain ⟨s', hs, hr⟩ := checkRun_cons_some h
      simp only [List.take_succ_cons, checkRun, hs]
      exact ih s' m hr

theorem Dom.take {c : Cfg} {rels : List Rel} {ops : List Op} (d : Dom c rels ops) (n : Nat) :
    Dom c rels (ops.take n) := by
  obtain ⟨m, hm⟩ := seenObjs_take c ops n
  have hids : seenIds c (ops.take n) = (seenIds c ops).take m := by
    simp only [seenIds, hm, List.map_take]
  refine ⟨d.relIds, ?_, ?_⟩
  · rw [hids]
    have := d.ordered
    unfold accepts at this ⊢
    have h1 : checkRun {} (seenIds c ops) ≠ none := by
      intro h; rw [h] at this; simp at this
    have h2 := checkRun_take _ {} m h1
    cases h3 : checkRun {} ((seenIds c ops).take m) with
    | none => exact absurd h3 h2
    | some _ => rfl
  · rw [hids]
    exact List.Nodup.sublist (List.take_sublist m _) d.nodup

theorem seenObjs_take_subset (c : Cfg) (ops : List Op) (n : Nat) : ∀ o ∈ seenObjs c (ops.take n), o ∈ seenObjs c ops := by
  intro o ho
  obtain ⟨m, hm⟩ := seenObjs_take c ops n
  rw [hm] at ho
  exact List.mem_of_mem_take ho

/-! ### logged queries are the lookups at that point of the history -/

def isQuery : Event → Bool
  | .query .. => true
  | _ => false

theorem handleComplete_queries (c : Cfg) (s : State) (pos : Nat) :
    (handleComplete c s pos).log.filter isQuery = s.log.filter isQuery := by
  unfold handleComplete
  split
  · simp [isQuery]
  · rw [relRemove_log, (removeMembers_frame c _ _ _).2, (possiblyFlush_frame c _).2]
    simp [announce, isQuery]

theorem completeStep_queries (c : Cfg) (s : State) (pos : Nat) :
    (completeStep c s pos).log.filter isQuery = s.log.filter isQuery := by
  unfold completeStep
  split
  · rfl
  · split
    · rfl
    · split
      · rw [handleComplete_queries]
      · rfl

theorem completeLoop_queries (c : Cfg) (ps : List Nat) : ∀ s : State,
    (completeLoop c s ps).log.filter isQuery = s.log.filter isQuery := by
  induction ps with
  | nil => intro s; rfl
  | cons p ps ih => intro s; simp only [completeLoop]; rw [ih, completeStep_queries]

theorem memberAdd_queries (c : Cfg) (s : State) (o : Obj) :
    (memberAdd c s o).log.filter isQuery = s.log.filter isQuery := by
  unfold memberAdd
  split
  split
  · rw [(possiblyFlush_frame c _).2]; simp [isQuery]
  · rw [(possiblyFlush_frame c _).2, completeLoop_queries, (setDb_fields _ _ _).2.2.1]

theorem handleObj_queries (c : Cfg) (s s' : State) (o : Obj) (h : handleObj c s o = some s') :
    s'.log.filter isQuery = s.log.filter isQuery := by
  unfold handleObj at h
  split at h
  · cases h; rfl
  · split at h
    · cases h
    · cases h; rw [memberAdd_queries]

theorem query_event_lookup (c : Cfg) : ∀ (ops : List Op) (s : State) (k : Kind) (id : Int) (res : Lookup),
    Event.query k id res ∈ (runOps c s ops).log →
      Event.query k id res ∈ s.log ∨
      ∃ n, ops[n]? = some (.query k id) ∧ res = (runOps c s (ops.take n)).lookup k id := by
  intro ops
  induction ops with
  | nil => intro s k id res h; exact Or.inl h
  | cons op ops ih =>
    intro s k id res h
    cases op with
    | query k' id' =>
      simp only [runOps] at h
      rcases ih _ k id res h with h1 | ⟨n, hn, hres⟩
      · rcases List.mem_cons.mp h1 with heq | h1
        · cases heq
          exact Or.inr ⟨0, rfl, rfl⟩
        · exact Or.inl h1
      · exact Or.inr ⟨n + 1, by simpa using hn, by simpa [runOps] using hres⟩
    | flush =>
      simp only [runOps] at h
      rcases ih _ k id res h with h1 | ⟨n, hn, hres⟩
      · left
        have : (s.flushOutput c).log = s.log := by unfold State.flushOutput; split <;> rfl
        rwa [this] at h1
      · exact Or.inr ⟨n + 1, by simpa using hn, by simpa [runOps] using hres⟩
    | obj o =>
      simp only [runOps] at h
      cases ho : handleObj c s o with
      | none =>
        rw [ho] at h
        rcases List.mem_cons.mp h with heq | h1
        · cases heq
        · exact Or.inl h1
      | some s' =>
        rw [ho] at h
        rcases ih _ k id res h with h1 | ⟨n, hn, hres⟩
        · -- the member handlers log no queries
          left
          have h2 : Event.query k id res ∈ s'.log.filter isQuery := List.mem_filter.mpr ⟨h1, rfl⟩
          rw [handleObj_queries c s s' o ho] at h2
          exact (List.mem_filter.mp h2).1
        · exact Or.inr ⟨n + 1, by simpa using hn, by simpa [runOps, ho] using hres⟩

theorem firstPass_log (c : Cfg) (rels : List Rel) : (firstPass c rels).log = [] := by
  obtain ⟨s', f, heq⟩ := firstPass_fp c rels
  rw [heq, (prepare_fields s').2.2.1, f.log]

/-- every logged query is the lookup in the state the run had reached at that op -/
theorem query_events_are_lookups (c : Cfg) (rels : List Rel) (ops : List Op) (k : Kind) (id : Int) (res : Lookup)
    (h : Event.query k id res ∈ (run c rels ops).events) :
    ∃ n, ops[n]? = some (.query k id) ∧ res = (run c rels (ops.take n)).lookup k id := by
  rw [State.events, List.mem_reverse, (run_fields c rels ops).1] at h
  rcases query_event_lookup c ops (firstPass c rels) k id res h with h1 | ⟨n, hn, hres⟩
  · rw [firstPass_log] at h1; cases h1
  · exact ⟨n, hn, by rw [run_lookup]; exact hres⟩

/-! ### nothing leaks -/

/-- every object item that is live in the stash at the end of a history in the domain is the
    copy of an arrived object that an interesting relation wants and that is still needed: the
    relation is not completed (or the object has id 0, which `remove_members` skips); and all
    elements of one range carry the same handle -/
theorem object_items_needed (c : Cfg) (rels : List Rel) (ops : List Op) (d : Dom c rels ops)
    (h : Nat) (o : Obj) (hg : stashGet (run c rels ops).stash h = some (.obj o)) :
    o ∈ seenObjs c ops ∧ ∃ r ∈ interestingRels c rels, (o.kind, o.id) ∈ wantedRefs c r ∧
      (o.id = 0 ∨ r.id ∉ callbacks (run c rels ops).events) := by
  have i := final_rinv c rels ops d
  rw [(run_fields c rels ops).2.2.1] at hg
  obtain ⟨k, e, he, heh, henum⟩ := i.xinv.noleak h o hg
  have hh0 : e.h ≠ 0 := by
    intro h0; rw [heh] at h0; rw [h0] at hg; simp [stashGet] at hg
  -- the element's object has arrived, and it is this one
  have hkey : (k, e.mid) ∈ ((seenObjs c ops).reverse).map okey := by
    apply Classical.byContradiction
    intro hnot; exact hh0 (i.hinv.fresh k e he hnot)
  obtain ⟨o', ho', hk', hi'⟩ := exists_obj_of_key hkey
  have hpos : 0 < liveRefs ((runOps c (firstPass c rels) ops).getDb k) e.mid :=
    List.countP_pos_iff.mpr ⟨e, he, by simp [henum]⟩
  have hlive := (i.hinv.live k e he hpos o' ho' hk' hi').2
  rw [heh, hg] at hlive
  have hoo : o = o' := by simpa using hlive
  subst hoo
  refine ⟨List.mem_reverse.mp ho', ?_⟩
  -- the relation the element belongs to
  have hlt := rpos_lt_of_skel i.inv3.skelEq i.inv3.rposlt k e he
  have hp : (interestingRels c rels)[e.rpos]? = some (interestingRels c rels)[e.rpos] := by simp [hlt]
  obtain ⟨s', f, heq⟩ := firstPass_fp c rels
  have hmem := mem_base_of_mem i.inv3.skelEq k e he
  rw [heq] at hmem
  have hw := (base_mem_iff f k e.mid e.rpos _ hp).mp hmem
  refine ⟨_, List.mem_of_getElem? hp, by rw [hk', hi']; exact hw, ?_⟩
  by_cases h0 : e.mid = 0
  · exact Or.inl (hi'.trans h0)
  · right
    have hnum := i.num k e he
    rw [henum] at hnum
    have hdead : deadB (runOps c (firstPass c rels) ops) e.rpos = false := by
      simpa [h0] using hnum.symm
    obtain ⟨h1, h2, _, _⟩ := final_facts c rels ops d e.rpos _ hp
    intro hcb
    have := List.count_pos_iff.mpr hcb
    rw [h1, h2, hdead] at this
    simp at this

theorem handles_uniform (c : Cfg) (rels : List Rel) (ops : List Op) (d : Dom c rels ops) (k : Kind) :
    ∀ e ∈ (run c rels ops).getDb k, ∀ e' ∈ (run c rels ops).getDb k, e.mid = e'.mid → e.h = e'.h := by
  have i := final_rinv c rels ops d
  rw [(run_fields c rels ops).2.2.2 k]
  exact i.xinv.uniform k

end Osmium.RelMgr
