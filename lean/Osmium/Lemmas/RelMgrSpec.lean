/-
C11: from the run-long invariant (Lemmas/RelMgrInv.lean) to statements about whole runs.
Core-only.
-/
import Osmium.Lemmas.RelMgrInv

namespace Osmium.RelMgr

open Osmium.Order (Kind CheckState checkStep accepts checkRun)

/-- ids handed to `complete_relation`, in order -/
def callbacks (evs : List Event) : List Int :=
  evs.filterMap (fun e => match e with | .complete _ rid _ _ => some rid | _ => none)

theorem addRelation_chk (c : Cfg) (s : State) (r : Rel) : (addRelation c s r).chk = s.chk := by
  unfold addRelation; split <;> rfl

theorem firstPass_chk (c : Cfg) (rels : List Rel) : (firstPass c rels).chk = {} := by
  have : ∀ (l : List Rel) (s : State), (l.foldl (addRelation c) s).chk = s.chk := by
    intro l
    induction l with
    | nil => intro s; rfl
    | cons r l ih => intro s; simp only [List.foldl_cons]; rw [ih, addRelation_chk]
  show (prepare _).chk = _
  exact this rels {}

/-- the hypotheses on a history the theorems need: relation ids unique, the stream of enabled
    objects accepted by CheckOrder and duplicate-free -/
structure Dom (c : Cfg) (rels : List Rel) (ops : List Op) : Prop where
  relIds : ((interestingRels c rels).map (·.id)).Nodup
  ordered : accepts (seenIds c ops) = true
  nodup : (seenIds c ops).Nodup

theorem run_fields (c : Cfg) (rels : List Rel) (ops : List Op) :
    (run c rels ops).log = (runOps c (firstPass c rels) ops).log ∧
    (run c rels ops).rdb = (runOps c (firstPass c rels) ops).rdb ∧
    (run c rels ops).stash = (runOps c (firstPass c rels) ops).stash ∧
    ∀ k, (run c rels ops).getDb k = (runOps c (firstPass c rels) ops).getDb k := by
  unfold run State.flushOutput
  split
  · exact ⟨rfl, rfl, rfl, fun k => by cases k <;> rfl⟩
  · exact ⟨rfl, rfl, rfl, fun _ => rfl⟩

/-- the invariant holds at the end of every run in the domain -/
theorem final_inv3 (c : Cfg) (rels : List Rel) (ops : List Op) (d : Dom c rels ops) :
    Inv3 (RmOf c (interestingRels c rels)) (interestingRels c rels).length (baseOf (firstPass c rels))
      ((seenIds c ops).reverse) (runOps c (firstPass c rels) ops) := by
  have i0 := firstPass_inv3 c rels
  have hchk : checkRun (firstPass c rels).chk (seenIds c ops) ≠ none := by
    rw [firstPass_chk]
    have := d.ordered
    unfold accepts at this
    intro h; rw [h] at this; simp at this
  have := inv3_runOps c ops i0 hchk d.nodup (fun x _ h => by simp at h)
  simpa using this

theorem callbacks_reverse (l : List Event) : callbacks l.reverse = (callbacks l).reverse := by
  simp [callbacks, List.filterMap_reverse]

/-- with unique relation ids the callbacks for an id are the completions at its position -/
theorem callbacks_count {Rm : Nat → Rel} {n : Nat} (p : Nat)
    (huniq : ∀ q, q < n → (Rm q).id = (Rm p).id → q = p) :
    ∀ l : List Event, LogOK Rm n l → (callbacks l).count (Rm p).id = firedCount p l := by
  intro l
  induction l with
  | nil => intro _; rfl
  | cons e l ih =>
    intro hl
    have hl' : LogOK Rm n l := fun e' he' => hl e' (List.mem_cons_of_mem _ he')
    have he := hl e (List.mem_cons_self ..)
    have ih' := ih hl'
    cases e with
    | complete q rid cont looks =>
      obtain ⟨hq, hrid, _⟩ := he
      subst hrid
      by_cases hqp : q = p
      · subst hqp
        simp [callbacks, firedCount, List.count_cons] at ih' ⊢
        omega
      · have hne : ¬ (Rm q).id = (Rm p).id := fun h => hqp (huniq q hq h)
        simp [callbacks, firedCount, List.count_cons, hne, hqp] at ih' ⊢
        omega
    | completeWild q => exact absurd he (by simp)
    | notIn k id => simpa [callbacks, firedCount] using ih'
    | query k id r => simpa [callbacks, firedCount] using ih'
    | thrown => simpa [callbacks, firedCount] using ih'

theorem RmOf_id (c : Cfg) (L : List Rel) (p : Nat) (r : Rel) (h : L[p]? = some r) :
    (RmOf c L p).id = r.id ∧ (RmOf c L p).content = r.content := by
  simp [RmOf, h, markRel]

theorem nodup_ids_index {L : List Rel} (hn : (L.map (·.id)).Nodup) (p q : Nat) (r r' : Rel)
    (hp : L[p]? = some r) (hq : L[q]? = some r') (hid : r'.id = r.id) : q = p := by
  have h1 : (L.map (·.id))[p]? = some r.id := by simp [hp]
  have h2 : (L.map (·.id))[q]? = some r.id := by simp [hq, hid]
  have hpl : p < (L.map (·.id)).length := by
    rcases Nat.lt_or_ge p (L.map (·.id)).length with h | h
    · exact h
    · rw [List.getElem?_eq_none h] at h1; cases h1
  have hql : q < (L.map (·.id)).length := by
    rcases Nat.lt_or_ge q (L.map (·.id)).length with h | h
    · exact h
    · rw [List.getElem?_eq_none h] at h2; cases h2
  rw [List.getElem?_eq_getElem hpl] at h1
  rw [List.getElem?_eq_getElem hql] at h2
  have : (L.map (·.id))[q] = (L.map (·.id))[p] := by
    have a := Option.some.inj h1; have b := Option.some.inj h2; rw [a, b]
  exact (List.getElem_inj hn).mp this

/-- position-level facts at the end of a run, in terms of the relation's wanted members -/
theorem final_facts (c : Cfg) (rels : List Rel) (ops : List Op) (d : Dom c rels ops) (p : Nat) (r : Rel)
    (hp : (interestingRels c rels)[p]? = some r) :
    let s := runOps c (firstPass c rels) ops
    (callbacks (run c rels ops).events).count r.id = firedCount p s.log ∧
    firedCount p s.log = (if deadB s p then 1 else 0) ∧
    (firedCount p s.log = 1 ↔ ((∀ w ∈ wantedRefs c r, w ∈ seenIds c ops) ∧ wantedRefs c r ≠ [])) ∧
    (firedCount p s.log = 0 ∨ firedCount p s.log = 1) := by
  intro s
  have i := final_inv3 c rels ops d
  have hpn : p < (interestingRels c rels).length := by
    rcases Nat.lt_or_ge p (interestingRels c rels).length with h | h
    · exact h
    · rw [List.getElem?_eq_none h] at hp; cases hp
  have hidp := RmOf_id c _ p r hp
  have hcb : (callbacks (run c rels ops).events).count r.id = firedCount p s.log := by
    rw [State.events, (run_fields c rels ops).1, callbacks_reverse, List.count_reverse, ← hidp.1]
    apply callbacks_count p _ _ i.inv2.logok
    intro q hq hid
    have hq' : (interestingRels c rels)[q]? = some (interestingRels c rels)[q] := by simp [hq]
    have h1 := RmOf_id c _ q _ hq'
    exact nodup_ids_index d.relIds p q r _ hp hq' (by rw [← h1.1, hid, hidp.1])
  obtain ⟨s', f, heq⟩ := firstPass_fp c rels
  have hJ := i.firedJ p hpn
  have hb : baseOf (firstPass c rels) = baseOf (prepare s') := by rw [heq]
  rw [hb, pending_eq f _ p r hp, pending_eq f [] p r hp] at hJ
  have htot : (wantedRefs c r).countP (fun w => decide (w ∉ ([] : List (Kind × Int)))) = (wantedRefs c r).length := by
    rw [List.countP_eq_length]; intro w _; simp
  rw [htot] at hJ
  have hzero : (wantedRefs c r).countP (fun w => decide (w ∉ (seenIds c ops).reverse)) = 0 ↔
      ∀ w ∈ wantedRefs c r, w ∈ seenIds c ops := by
    rw [List.countP_eq_zero]
    constructor
    · intro h w hw
      have := h w hw
      simpa using this
    · intro h w hw
      simpa using h w hw
  have hlen : 1 ≤ (wantedRefs c r).length ↔ wantedRefs c r ≠ [] := by
    cases wantedRefs c r <;> simp
  refine ⟨hcb, i.inv2.fired p hpn, ?_, ?_⟩
  · show firedCount p (runOps c (firstPass c rels) ops).log = 1 ↔ _
    rw [hJ, ← hzero, ← hlen]
    split <;> simp_all
  · show firedCount p (runOps c (firstPass c rels) ops).log = 0 ∨ firedCount p (runOps c (firstPass c rels) ops).log = 1
    rw [hJ]; split <;> simp

theorem filterMap_congr_index {α β γ : Type} (g : α → Option γ) (h : β → Option γ) :
    ∀ (xs : List α) (ys : List β), xs.length = ys.length →
      (∀ (i : Nat) (x : α) (y : β), xs[i]? = some x → ys[i]? = some y → g x = h y) → xs.filterMap g = ys.filterMap h := by
  intro xs
  induction xs with
  | nil => intro ys hl _; cases ys <;> simp_all
  | cons x xs ih =>
    intro ys hl hpt
    cases ys with
    | nil => simp at hl
    | cons y ys =>
      have h0 := hpt 0 x y rfl rfl
      have ht := ih ys (by simpa using hl) (fun i a b ha hb => hpt (i + 1) a b (by simpa using ha) (by simpa using hb))
      simp only [List.filterMap_cons, h0, ht]

theorem filterMap_ite_eq (L : List Rel) (P : Rel → Bool) :
    L.filterMap (fun r => if P r then some r.id else none) = (L.filter P).map (·.id) := by
  induction L with
  | nil => rfl
  | cons r L ih =>
    by_cases h : P r = true <;> simp [List.filterMap_cons, List.filter_cons, h, ih]

/-- `for_each_incomplete_relation` lists exactly the interesting relations that were never
    handed to the completion callback, in input order. -/
theorem incomplete_eq (c : Cfg) (rels : List Rel) (ops : List Op) (d : Dom c rels ops) :
    (run c rels ops).incomplete =
      ((interestingRels c rels).filter (fun r => decide (r.id ∉ callbacks (run c rels ops).events))).map (·.id) := by
  have i := final_inv3 c rels ops d
  have hf := run_fields c rels ops
  rw [← filterMap_ite_eq]
  unfold State.incomplete
  rw [hf.2.1, hf.2.2.1]
  apply filterMap_congr_index
  · rw [Array.length_toList, i.inv2.wf.rsize]
  · intro p x r hx hr
    rw [Array.getElem?_toList] at hx
    have hpn : p < (interestingRels c rels).length := by
      rcases Nat.lt_or_ge p (interestingRels c rels).length with h | h
      · exact h
      · rw [List.getElem?_eq_none h] at hr; cases hr
    obtain ⟨h1, h2, _, _⟩ := final_facts c rels ops d p r hr
    have hid := (RmOf_id c _ p r hr).1
    rcases i.inv2.wf.slot p hpn with ⟨⟨m, hm⟩, hst⟩ | ⟨m, hm⟩
    · rw [hm] at hx
      have hx' : x = ⟨p + 1, m⟩ := (Option.some.inj hx).symm
      subst hx'
      have hd : deadB (runOps c (firstPass c rels) ops) p = false := by simp [deadB, hm]
      rw [hd] at h2
      have hnot : r.id ∉ callbacks (run c rels ops).events := by
        intro hmem
        have := List.count_pos_iff.mpr hmem
        rw [h1, h2] at this; simp at this
      simp [stashGet, hst, hid, hnot]
    · rw [hm] at hx
      have hx' : x = ⟨0, m⟩ := (Option.some.inj hx).symm
      subst hx'
      have hd : deadB (runOps c (firstPass c rels) ops) p = true := by simp [deadB, hm]
      rw [hd] at h2
      have hmem : r.id ∈ callbacks (run c rels ops).events := by
        apply List.count_pos_iff.mp
        rw [h1, h2]; simp
      simp [hmem]

/-- `*_not_in_any_relation` is called exactly for the objects (of enabled types) that no
    interesting relation wants. -/
theorem notIn_iff (c : Cfg) (rels : List Rel) (ops : List Op) (d : Dom c rels ops) (k : Kind) (id : Int) :
    Event.notIn k id ∈ (run c rels ops).events ↔
      ((k, id) ∈ seenIds c ops ∧ ∀ r ∈ interestingRels c rels, (k, id) ∉ wantedRefs c r) := by
  have i := final_inv3 c rels ops d
  obtain ⟨s', f, heq⟩ := firstPass_fp c rels
  have hb : baseOf (firstPass c rels) = baseOf (prepare s') := by rw [heq]
  have hn := i.notin k id
  rw [hb, untracked_iff f k id] at hn
  rw [State.events, List.mem_reverse, (run_fields c rels ops).1]
  have : Event.notIn k id ∈ otherEvents (runOps c (firstPass c rels) ops).log ↔
      Event.notIn k id ∈ (runOps c (firstPass c rels) ops).log := by
    simp [otherEvents, List.mem_filter]
  rw [← this, hn, List.mem_reverse]

end Osmium.RelMgr
