/-
Lexical half of `xml_decode_spec` (C02), part 4: the document level — XML declaration (three modes),
root element, `<bounds>`, change-file sections, the final line end, and `tokenize`'s removal of the
character data outside the root element:

  tokenize (XmlSpec.render ch h objs) = some (XmlSpec.renderEvs ch (XmlSpec.wsOf ch) h objs)

for every choice vector.
-/
import Osmium.Lemmas.XmlSpecTok3

namespace Osmium.XmlFmt.XmlSpec
open Osmium.Osm Osmium.TextFmt Osmium.Conv Osmium.Utf8 Osmium.XmlFmt
open Osmium.OplFmt.OplSpec (pick pickGo)

/-! ### the XML declaration -/

theorem dropWhile_gt (s0 : Bytes) (h : s0.all (· != 0x3e) = true) (rest : Bytes) :
    ((s0 ++ 0x3e :: rest).dropWhile (· != 0x3e)).tail = rest := by
  have h' : ∀ a ∈ s0, (a != 0x3e) = true := by simpa using h
  rw [List.dropWhile_append_of_pos h']
  simp [List.dropWhile]

theorem steps_pi (s0 : Bytes) (h : s0.all (· != 0x3e) = true) (rest : Bytes) :
    Steps (0x3c :: 0x3f :: (s0 ++ 0x3e :: rest)) rest [] := by
  intro acc f hf
  obtain ⟨g, rfl⟩ : ∃ g, f = g + 1 := ⟨f - 1, by omega⟩
  refine ⟨g, ?_, ?_⟩
  · simp only [List.length_cons, List.length_append] at hf ⊢; omega
  · rw [tokLoop_pi]
    have : (0x3f :: (s0 ++ 0x3e :: rest)) = (0x3f :: s0) ++ 0x3e :: rest := rfl
    rw [this, dropWhile_gt (0x3f :: s0) (by simp only [List.all_cons, h, Bool.and_true]; decide) rest]
    rfl

theorem decl_shape (ch : Choices) (h : ch.declMode = 0 ∨ ch.declMode = 1) :
    ∃ s0, decl ch = 0x3c :: 0x3f :: (s0 ++ [0x3e]) ∧ s0.all (· != 0x3e) = true := by
  unfold decl
  rcases h with h | h
  · rw [if_pos h]
    exact ⟨((str "<?xml version='1.0' encoding='UTF-8'?>").drop 2).dropLast, by decide +kernel, by decide +kernel⟩
  · rw [if_neg (by omega), if_pos h]
    exact ⟨((str "<?xml version=\"1.0\" encoding=\"UTF-8\"?>").drop 2).dropLast, by decide +kernel, by decide +kernel⟩

theorem steps_decl (ch : Choices) (h : ch.declMode = 0 ∨ ch.declMode = 1) (rest : Bytes) :
    Steps (decl ch ++ rest) rest [] := by
  obtain ⟨s0, e, hs⟩ := decl_shape ch h
  rw [e]
  exact (steps_pi s0 hs rest).cast (by simp [List.append_assoc]) rfl

theorem decl_nil (ch : Choices) (h0 : ch.declMode ≠ 0) (h1 : ch.declMode ≠ 1) : decl ch = [] := by
  unfold decl; rw [if_neg h0, if_neg h1]

/-! ### the final line end -/

theorem steps_final : Steps [0x0a] [] [Ev.chars [0x0a]] := by
  intro acc f hf
  obtain ⟨g, rfl⟩ : ∃ g, f = g + 1 := ⟨f - 1, by omega⟩
  refine ⟨g, by simp only [List.length_cons, List.length_nil] at hf ⊢; omega, ?_⟩
  rw [tokLoop_text _ _ _ _ (by decide)]
  unfold textBody
  have : tokText (([0x0a] : Bytes).length + 1) [0x0a] = some ([0x0a], []) := by decide +kernel
  rw [this]
  rfl

/-! ### leading white space of the document -/

theorem indent_ws (ch : Choices) (level : Nat) : ∀ b ∈ indent ch level, isWs b = true := by
  unfold indent
  intro b hb
  split at hb
  · rcases List.mem_cons.1 hb with rfl | hb
    · decide
    · rw [List.eq_of_mem_replicate hb]; decide
  · split at hb
    · cases hb
    · rcases List.mem_cons.1 hb with rfl | hb
      · decide
      · rcases List.mem_cons.1 hb with rfl | hb
        · decide
        · rw [List.eq_of_mem_replicate hb]; decide

theorem dropWhile_indent (ch : Choices) (level : Nat) (t : Bytes) :
    (indent ch level ++ 0x3c :: t).dropWhile isWs = 0x3c :: t := by
  rw [List.dropWhile_append_of_pos (indent_ws ch level)]
  exact dropWhile_ws_stop _ _ (by decide)

/-! ### change-file sections -/

theorem mem_sections : ∀ (objs : List Object) (p : Nat × List Object), p ∈ sections objs → ∀ o ∈ p.2, o ∈ objs := by
  intro objs
  induction objs with
  | nil => intro p hp; simp [sections] at hp
  | cons o os ih =>
    intro p hp x hx
    rw [sections] at hp
    cases hs : sections os with
    | nil =>
      rw [hs] at hp
      simp only [List.mem_singleton] at hp
      subst hp
      simp only [List.mem_singleton] at hx
      subst hx
      exact List.mem_cons_self
    | cons q rest =>
      obtain ⟨op, grp⟩ := q
      rw [hs] at hp ih
      simp only at hp
      split at hp
      · rcases List.mem_cons.1 hp with rfl | hp
        · rcases List.mem_cons.1 hx with rfl | hx
          · exact List.mem_cons_self
          · exact List.mem_cons_of_mem _ (ih (op, grp) List.mem_cons_self x hx)
        · exact List.mem_cons_of_mem _ (ih p (List.mem_cons_of_mem _ hp) x hx)
      · rcases List.mem_cons.1 hp with rfl | hp
        · simp only [List.mem_singleton] at hx
          subst hx
          exact List.mem_cons_self
        · exact List.mem_cons_of_mem _ (ih p hp x hx)

theorem opName_good (op : Nat) : GoodName (opName op) := by
  unfold opName
  split
  · gn
  · split
    · gn
    · gn

/-! ### outside the root element -/

def isChars : Ev → Bool
  | .chars _ => true
  | _ => false

theorem strip_outer (pre : List Ev) (hpre : ∀ e ∈ pre, isChars e = true) (a b : String) (as : List (String × Bytes))
    (mid : List Ev) (t : Bytes) :
    (((pre ++ (Ev.start a as :: (mid ++ [Ev.stop b])) ++ [Ev.chars t]).dropWhile isChars).reverse.dropWhile isChars).reverse =
      Ev.start a as :: (mid ++ [Ev.stop b]) := by
  rw [List.append_assoc, List.dropWhile_append_of_pos hpre]
  have h1 : isChars (Ev.start a as) = false := rfl
  rw [List.cons_append, List.dropWhile_cons_of_neg (by simp [h1])]
  have h2 : (Ev.start a as :: ((mid ++ [Ev.stop b]) ++ [Ev.chars t])).reverse =
      Ev.chars t :: Ev.stop b :: (mid.reverse ++ [Ev.start a as]) := by simp
  rw [h2, List.dropWhile_cons_of_pos (by rfl), List.dropWhile_cons_of_neg (by simp [isChars])]
  simp

theorem tokenize_eq (doc : Bytes) (evs : List Ev) (h : tokLoop (doc.length + 1) doc [] = some evs) :
    tokenize doc = some ((evs.dropWhile isChars).reverse.dropWhile isChars).reverse := by
  unfold tokenize
  rw [h]
  rfl

theorem wsOf_chars (ch : Choices) (level : Nat) : ∀ e ∈ wsOf ch level, isChars e = true := by
  unfold wsOf
  intro e he
  split at he
  · simp only [List.mem_singleton] at he; subst he; rfl
  · split at he
    · cases he
    · simp only [List.mem_singleton] at he; subst he; rfl

/-! ### the document -/

def specRoot (ch : Choices) : String := if ch.osc then "osmChange" else "osm"

def rootAttrs (h : Header) : List (String × Bytes) := [("version", bVersion), ("generator", h.generator)]

/-- the children of the root element -/
def kids (ch : Choices) (h : Header) (objs : List Object) : List Bytes :=
  (h.boxes.map fun (bl, tr) => element ch 1 "bounds" (latLon "minlat" "minlon" bl ++ latLon "maxlat" "maxlon" tr) []) ++
    (if ch.osc then (sections objs).map fun (op, grp) => element ch 1 (opName op) [] (grp.map (objectEl ch 2))
     else objs.map (objectEl ch 1))

def kidEvs (ch : Choices) (h : Header) (objs : List Object) : List (List Ev) :=
  (h.boxes.map fun (bl, tr) => elEvs ch (wsOf ch) 1 "bounds" (latLon "minlat" "minlon" bl ++ latLon "maxlat" "maxlon" tr) []) ++
    (if ch.osc then (sections objs).map fun (op, grp) => elEvs ch (wsOf ch) 1 (opName op) [] (grp.map (objectEvs ch (wsOf ch) 2))
     else objs.map (objectEvs ch (wsOf ch) 1))

theorem render_eq (ch : Choices) (h : Header) (objs : List Object) :
    render ch h objs = decl ch ++
      (if ch.declMode = 2 then (element ch 0 (specRoot ch) (rootAttrs h) (kids ch h objs)).dropWhile isWs
       else element ch 0 (specRoot ch) (rootAttrs h) (kids ch h objs)) ++ [0x0a] := rfl

theorem renderEvs_eq (ch : Choices) (h : Header) (objs : List Object) :
    renderEvs ch (wsOf ch) h objs = coreEvs ch (wsOf ch) 0 (specRoot ch) (rootAttrs h) (kidEvs ch h objs) := rfl

theorem kids_steps (ch : Choices) (h : Header) (objs : List Object) (hh : XHeaderOK h) (hall : ∀ obj ∈ objs, XObjOK2 obj) :
    List.Forall₂ ElSteps (kids ch h objs) (kidEvs ch h objs) := by
  unfold kids kidEvs
  refine forall₂_append ?_ ?_
  · refine forall₂_map h.boxes _ _ fun b hb => ?_
    obtain ⟨bl, tr⟩ := b
    have hbox := hh.2 _ hb
    exact element_steps ch 1 "bounds" _ [] [] (by gn)
      (GoodAttrs.append (goodAttrs_latLon _ _ bl (by gn) (by gn) hbox.1) (goodAttrs_latLon _ _ tr (by gn) (by gn) hbox.2))
      List.Forall₂.nil
  · cases ch.osc
    · simp only [Bool.false_eq_true, if_false]
      exact forall₂_map objs _ _ fun o ho => object_steps ch 1 o (hall o ho)
    · simp only [if_true]
      refine forall₂_map (sections objs) _ _ fun p hp => ?_
      obtain ⟨op, grp⟩ := p
      refine element_steps ch 1 (opName op) [] _ _ (opName_good op) GoodAttrs.nil ?_
      exact forall₂_map grp _ _ fun o ho => object_steps ch 2 o (hall o (mem_sections objs _ hp o ho))

theorem root_good (ch : Choices) : GoodName (specRoot ch) := by
  unfold specRoot
  cases ch.osc
  · simp only [Bool.false_eq_true, if_false]; gn
  · simp only [if_true]; gn

theorem tokenize_render (ch : Choices) (h : Header) (objs : List Object)
    (hh : XHeaderOK h) (hall : ∀ obj ∈ objs, XObjOK2 obj) :
    tokenize (render ch h objs) = some (renderEvs ch (wsOf ch) h objs) := by
  have hb := kids_steps ch h objs hh hall
  have hroot := root_good ch
  have hattrs : GoodAttrs (rootAttrs h) :=
    GoodAttrs.cons' (by gn) (XChars_of_plain bVersion_plain) (GoodAttrs.one (by gn) (XChars_of_xstrOK hh.1))
  have hcore := elementCore_steps ch 0 _ _ _ _ hroot hattrs hb
  have hel := element_steps ch 0 _ _ _ _ hroot hattrs hb
  obtain ⟨t, ht⟩ := elementCore_head ch 0 (specRoot ch) (rootAttrs h) (kids ch h objs)
  -- the run of the main loop: optional leading white space, the root element, the final line end
  have hrun : ∃ pre, (∀ e ∈ pre, isChars e = true) ∧
      Steps (render ch h objs) [] (pre ++ renderEvs ch (wsOf ch) h objs ++ [Ev.chars [0x0a]]) := by
    rw [render_eq, renderEvs_eq]
    by_cases h2 : ch.declMode = 2
    · refine ⟨[], (by intro e he; cases he), ?_⟩
      rw [if_pos h2, decl_nil ch (by omega) (by omega), element_eq, ht, dropWhile_indent, ← ht]
      exact ((hcore [0x0a]).trans steps_final).cast (by simp) (by simp)
    · rw [if_neg h2]
      by_cases h01 : ch.declMode = 0 ∨ ch.declMode = 1
      · refine ⟨wsOf ch 0, wsOf_chars ch 0, ?_⟩
        rw [← elEvs_eq]
        exact ((steps_decl ch h01 _).trans ((hel [0x0a]).trans steps_final)).cast (by simp [List.append_assoc]) (by simp)
      · refine ⟨wsOf ch 0, wsOf_chars ch 0, ?_⟩
        rw [← elEvs_eq, decl_nil ch (by omega) (by omega)]
        exact ((hel [0x0a]).trans steps_final).cast (by simp) (by simp)
  obtain ⟨pre, hpre, hsteps⟩ := hrun
  rw [tokenize_eq _ _ (hsteps.run _ (Nat.le_refl _)), renderEvs_eq]
  unfold coreEvs
  rw [strip_outer pre hpre]

end Osmium.XmlFmt.XmlSpec
