/-
Base lemmas for the PBF models: delta coding round trip, string-table resolution, packed arrays,
and the irrelevance of field order and of unknown fields of a protozero `switch` loop (`PbfMsg.decodeMsg`).
-/
import Osmium.Model.Delta
import Osmium.Model.StringTable
import Osmium.Model.PbfMsg
import Osmium.Lemmas.Wire

namespace Osmium.Delta

theorem swrap64_id (x : Int) (h1 : -(2:Int)^63 ≤ x) (h2 : x < (2:Int)^63) : swrap 64 x = x := by
  simp only [swrap, Int.reducePow, Nat.reduceSub] at *
  split <;> omega

theorem swrap32_id (x : Int) (h1 : -(2:Int)^31 ≤ x) (h2 : x < (2:Int)^31) : swrap 32 x = x := by
  simp only [swrap, Int.reducePow, Nat.reduceSub] at *
  split <;> omega

theorem swrap64_range (x : Int) : -(2:Int)^63 ≤ swrap 64 x ∧ swrap 64 x < (2:Int)^63 := by
  simp only [swrap, Int.reducePow, Nat.reduceSub]
  split <;> omega

/-- one decoder step undoes one encoder step, for any in-range previous value (64-bit instances) -/
theorem step64 (prev x : Int) (hx1 : -(2:Int)^63 ≤ x) (hx2 : x < (2:Int)^63)
    (hp1 : -(2:Int)^63 ≤ prev) (hp2 : prev < (2:Int)^63) :
    swrap 64 (prev + swrap 64 (swrap 64 x - swrap 64 prev)) = x := by
  rw [swrap64_id x hx1 hx2, swrap64_id prev hp1 hp2]
  simp only [swrap, Int.reducePow, Nat.reduceSub] at *
  split <;> split <;> omega

/-- the same for the `<uint32_t,int32_t>` / `<int32_t,int32_t>` instances on values in [0, 2^31) -/
theorem step32 (prev x : Int) (hx1 : 0 ≤ x) (hx2 : x < (2:Int)^31) (hp1 : 0 ≤ prev) (hp2 : prev < (2:Int)^31) :
    swrap 64 (prev + swrap 32 (swrap 32 x - swrap 32 prev)) = x := by
  rw [swrap32_id x (by omega) hx2, swrap32_id prev (by omega) hp2]
  rw [swrap32_id (x - prev) (by simp only [Int.reducePow] at *; omega) (by simp only [Int.reducePow] at *; omega)]
  simp only [swrap, Int.reducePow, Nat.reduceSub] at *
  split <;> omega

theorem decGo_encGo64 : ∀ (xs : List Int) (prev : Int), -(2:Int)^63 ≤ prev → prev < (2:Int)^63 →
    (∀ x ∈ xs, -(2:Int)^63 ≤ x ∧ x < (2:Int)^63) → decGo prev (encGo 64 prev xs) = xs
  | [], _, _, _, _ => rfl
  | x :: xs, prev, hp1, hp2, h => by
    have hx := h x (List.mem_cons_self)
    simp only [encGo, decGo, step64 prev x hx.1 hx.2 hp1 hp2]
    rw [decGo_encGo64 xs x hx.1 hx.2 (fun y hy => h y (List.mem_cons_of_mem _ hy))]

theorem decGo_encGo32 : ∀ (xs : List Int) (prev : Int), 0 ≤ prev → prev < (2:Int)^31 →
    (∀ x ∈ xs, 0 ≤ x ∧ x < (2:Int)^31) → decGo prev (encGo 32 prev xs) = xs
  | [], _, _, _, _ => rfl
  | x :: xs, prev, hp1, hp2, h => by
    have hx := h x (List.mem_cons_self)
    simp only [encGo, decGo, step32 prev x hx.1 hx.2 hp1 hp2]
    rw [decGo_encGo32 xs x hx.1 hx.2 (fun y hy => h y (List.mem_cons_of_mem _ hy))]

theorem dec_enc64 (xs : List Int) (h : ∀ x ∈ xs, -(2:Int)^63 ≤ x ∧ x < (2:Int)^63) : dec (enc 64 xs) = xs :=
  decGo_encGo64 xs 0 (by simp) (by simp) h

theorem dec_enc32 (xs : List Int) (h : ∀ x ∈ xs, (0:Int) ≤ x ∧ x < (2:Int)^31) : dec (enc 32 xs) = xs :=
  decGo_encGo32 xs 0 (by simp) (by simp) h

theorem encGo_length (bits : Nat) : ∀ (xs : List Int) (p : Int), (encGo bits p xs).length = xs.length
  | [], _ => rfl
  | _ :: xs, _ => by simp [encGo, encGo_length bits xs]

theorem enc_length (bits : Nat) (xs : List Int) : (enc bits xs).length = xs.length := encGo_length bits xs 0

end Osmium.Delta

namespace Osmium.StringTable

theorem findIdx_some : ∀ (l : List Bytes) (s : Bytes) (i : Nat), findIdx s l = some i → l[i]? = some s
  | [], _, _, h => by simp [findIdx] at h
  | x :: xs, s, i, h => by
    unfold findIdx at h
    by_cases hx : x = s
    · simp [hx] at h; subst h; simp [hx]
    · simp only [hx, ↓reduceIte, Option.map_eq_some_iff] at h
      obtain ⟨j, hj, rfl⟩ := h
      simpa using findIdx_some xs s j hj

/-- the index `add` returns resolves to the string in the table `add` leaves behind -/
theorem add_lookup (t : Table) (s : Bytes) : (t.add s).2.strings[(t.add s).1]? = some s := by
  unfold Table.add
  cases h : findIdx s t.added with
  | some i => simpa [Table.strings] using findIdx_some _ _ _ h
  | none => simp [Table.strings]

/-- the table only grows at the end: earlier indices keep their meaning -/
theorem add_mono (t : Table) (s : Bytes) (i : Nat) (x : Bytes) (h : t.strings[i]? = some x) :
    (t.add s).2.strings[i]? = some x := by
  unfold Table.add
  cases hf : findIdx s t.added with
  | some j => simpa using h
  | none =>
    simp only [Table.strings] at *
    cases i with
    | zero => simpa using h
    | succ n =>
      simp only [List.getElem?_cons_succ] at *
      rw [List.getElem?_append_left]
      · exact h
      · exact (List.getElem?_eq_some_iff.mp h).1

theorem add_pos (t : Table) (s : Bytes) : 0 < (t.add s).1 := by
  unfold Table.add; split <;> simp

theorem addAll_mono : ∀ (ss : List Bytes) (t : Table) (i : Nat) (x : Bytes), t.strings[i]? = some x →
    (t.addAll ss).2.strings[i]? = some x
  | [], _, _, _, h => by simpa [Table.addAll] using h
  | s :: ss, t, i, x, h => by
    simp only [Table.addAll]
    exact addAll_mono ss _ i x (add_mono t s i x h)

/-- every index returned by a run of adds resolves, in the final table, to the string that was added -/
theorem addAll_lookup : ∀ (ss : List Bytes) (t : Table),
    (t.addAll ss).1.map (fun i => (t.addAll ss).2.strings[i]?) = ss.map some
  | [], _ => by simp [Table.addAll]
  | s :: ss, t => by
    simp only [Table.addAll, List.map_cons]
    rw [addAll_lookup ss _, addAll_mono ss _ _ _ (add_lookup t s)]

theorem addAll_length : ∀ (ss : List Bytes) (t : Table), (t.addAll ss).1.length = ss.length
  | [], _ => by simp [Table.addAll]
  | s :: ss, t => by simp [Table.addAll, addAll_length ss]

end Osmium.StringTable

namespace Osmium.PbfMsg

open Osmium.Wire

theorem encodeVarint_ne_nil (v : Nat) : encodeVarint v ≠ [] := by
  unfold encodeVarint encodeVarintGo
  split <;> simp

theorem unpackGo_pack : ∀ (vs : List Nat) (fuel : Nat) (acc : List Nat), (∀ v ∈ vs, v < 2 ^ 64) → vs.length ≤ fuel →
    unpackGo fuel (pack vs) acc = some (acc.reverse ++ vs)
  | [], fuel, acc, _, _ => by cases fuel <;> simp [pack, unpackGo]
  | v :: vs, fuel, acc, hv, hl => by
    obtain ⟨fu, rfl⟩ : ∃ fu, fuel = fu + 1 := ⟨fuel - 1, by simp at hl; omega⟩
    have he : pack (v :: vs) = encodeVarint v ++ pack vs := by simp [pack]
    rw [he]
    cases hc : encodeVarint v ++ pack vs with
    | nil => simp at hc; exact absurd hc.1 (encodeVarint_ne_nil v)
    | cons b bs =>
      have hd := decodeVarint_encodeVarint v (hv v List.mem_cons_self) (pack vs)
      rw [hc] at hd
      simp only [unpackGo, hd]
      rw [unpackGo_pack vs fu (v :: acc) (fun x hx => hv x (List.mem_cons_of_mem _ hx)) (by simp at hl; omega)]
      simp

/-- reading back a packed array -/
theorem unpack_pack (vs : List Nat) (h : ∀ v ∈ vs, v < 2 ^ 64) : unpack (pack vs) = some vs := by
  have hl : vs.length ≤ (pack vs).length := by
    induction vs with
    | nil => simp
    | cons v vs ih =>
      have : 1 ≤ (encodeVarint v).length := by
        cases hh : encodeVarint v with
        | nil => exact absurd hh (encodeVarint_ne_nil v)
        | cons _ _ => simp
      have := ih (fun x hx => h x (List.mem_cons_of_mem _ hx))
      simp only [pack, List.flatMap_cons, List.length_append, List.length_cons] at *
      omega
  simpa [unpack] using unpackGo_pack vs _ [] h hl

/-! ### a `switch` loop does not care about the order of fields with different keys -/

/-- steps for fields of different keys commute (on the fields satisfying `P`) -/
def CommutesOn {σ : Type} (step : σ → Field → Option σ) (P : Field → Prop) : Prop :=
  ∀ s f g, P f → P g → key f ≠ key g →
    (step s f).bind (fun s' => step s' g) = (step s g).bind (fun s' => step s' f)

theorem foldlM_cons' {σ : Type} (step : σ → Field → Option σ) (f : Field) (l : List Field) (s : σ) :
    (f :: l).foldlM step s = (step s f).bind (fun s' => l.foldlM step s') := by
  simp [List.foldlM_cons]

theorem fold_move {σ : Type} (step : σ → Field → Option σ) (P : Field → Prop) (hc : CommutesOn step P)
    (f : Field) (hf : P f) : ∀ (A B : List Field) (s : σ), (∀ a ∈ A, P a ∧ key a ≠ key f) →
    (f :: (A ++ B)).foldlM step s = (A ++ f :: B).foldlM step s
  | [], _, _, _ => rfl
  | a :: A, B, s, h => by
    have ha := h a List.mem_cons_self
    have ih := fun s' => fold_move step P hc f hf A B s' (fun x hx => h x (List.mem_cons_of_mem _ hx))
    have ih' : ∀ s', List.foldlM step s' (A ++ f :: B) = (step s' f).bind fun s'' => List.foldlM step s'' (A ++ B) :=
      fun s' => by rw [← ih s', foldlM_cons']
    simp only [List.cons_append, foldlM_cons', ih']
    have := hc s f a hf ha.1 (Ne.symm ha.2)
    rw [← Option.bind_assoc, ← Option.bind_assoc, this]

theorem fold_partition {σ : Type} (step : σ → Field → Option σ) (P : Field → Prop) (hc : CommutesOn step P)
    (k : Nat × WireType) : ∀ (fs : List Field) (s : σ), (∀ f ∈ fs, P f) →
    fs.foldlM step s = (fs.filter (fun f => key f = k) ++ fs.filter (fun f => key f ≠ k)).foldlM step s
  | [], _, _ => rfl
  | f :: fs, s, h => by
    have hP := h f List.mem_cons_self
    have ih := fun s' => fold_partition step P hc k fs s' (fun x hx => h x (List.mem_cons_of_mem _ hx))
    by_cases hk : key f = k
    · simp only [List.filter_cons, hk, decide_true, ↓reduceIte, ne_eq, not_true_eq_false, decide_false,
        Bool.false_eq_true, List.cons_append, foldlM_cons']
      congr 1; funext s'; exact ih s'
    · have hk' : decide (key f = k) = false := by simp [hk]
      have hk'' : decide (key f ≠ k) = true := by simp [hk]
      simp only [List.filter_cons, hk', hk'', Bool.false_eq_true, ↓reduceIte]
      rw [← fold_move step P hc f hP]
      · rw [foldlM_cons', foldlM_cons']
        congr 1; funext s'; exact ih s'
      · intro a ha
        have := List.mem_filter.mp ha
        refine ⟨h a (List.mem_cons_of_mem _ this.1), ?_⟩
        have hak : key a = k := by simpa using this.2
        rw [hak]; exact Ne.symm hk

theorem filter_filter_ne (k k' : Nat × WireType) (hne : k' ≠ k) (l : List Field) :
    (l.filter (fun f => key f ≠ k)).filter (fun f => key f = k') = l.filter (fun f => key f = k') := by
  rw [List.filter_filter]
  apply List.filter_congr
  intro a _
  by_cases h : key a = k'
  · subst h; simp [hne]
  · simp [h]

theorem filter_filter_same (k : Nat × WireType) (l : List Field) :
    (l.filter (fun f => key f ≠ k)).filter (fun f => key f = k) = [] := by
  rw [List.filter_eq_nil_iff]
  intro a ha
  have := (List.mem_filter.mp ha).2
  simpa using this

theorem fold_congr_aux {σ : Type} (step : σ → Field → Option σ) (P : Field → Prop) (hc : CommutesOn step P) :
    ∀ (n : Nat) (fs fs' : List Field) (s : σ), fs.length ≤ n → (∀ f ∈ fs, P f) → (∀ f ∈ fs', P f) →
    (∀ k, fs.filter (fun f => key f = k) = fs'.filter (fun f => key f = k)) →
    fs.foldlM step s = fs'.foldlM step s := by
  intro n
  induction n with
  | zero =>
    intro fs fs' s hl _ _ h
    have : fs = [] := List.eq_nil_of_length_eq_zero (by omega)
    subst this
    cases fs' with
    | nil => rfl
    | cons g gs =>
      have := h (key g)
      simp [List.filter_cons] at this
  | succ n ih =>
    intro fs fs' s hl hP hP' h
    cases fs with
    | nil =>
      cases fs' with
      | nil => rfl
      | cons g gs =>
        have := h (key g)
        simp [List.filter_cons] at this
    | cons f t =>
      rw [fold_partition step P hc (key f) (f :: t) s hP, fold_partition step P hc (key f) fs' s hP']
      rw [h (key f), List.foldlM_append, List.foldlM_append]
      congr 1; funext s'
      apply ih
      · have : ((f :: t).filter (fun g => key g ≠ key f)) = t.filter (fun g => key g ≠ key f) := by
          simp [List.filter_cons]
        rw [this]
        have := List.length_filter_le (fun g => decide (key g ≠ key f)) t
        simp at hl; omega
      · intro x hx; exact hP x (List.mem_filter.mp hx).1
      · intro x hx; exact hP' x (List.mem_filter.mp hx).1
      · intro k
        by_cases hk : k = key f
        · subst hk; rw [filter_filter_same, filter_filter_same]
        · rw [filter_filter_ne _ _ hk, filter_filter_ne _ _ hk]; exact h k

/-- Two field lists with the same per-key subsequences (i.e. any reordering that keeps the relative
    order of fields with the same tag and wire type) decode alike. -/
theorem decodeMsg_congr_of_filters {σ : Type} (step : σ → Field → Option σ) (P : Field → Prop)
    (hc : CommutesOn step P) (s : σ) (fs fs' : List Field) (hP : ∀ f ∈ fs, P f) (hP' : ∀ f ∈ fs', P f)
    (h : ∀ k, fs.filter (fun f => key f = k) = fs'.filter (fun f => key f = k)) :
    decodeMsg step s fs = decodeMsg step s fs' :=
  fold_congr_aux step P hc fs.length fs fs' s (Nat.le_refl _) hP hP' h

/-- fields the `switch` does not know (`default: skip()`) can be dropped -/
theorem decodeMsg_filter_known {σ : Type} (step : σ → Field → Option σ) (known : Field → Bool)
    (hs : ∀ s f, known f = false → step s f = some s) : ∀ (fs : List Field) (s : σ),
    decodeMsg step s (fs.filter known) = decodeMsg step s fs
  | [], _ => rfl
  | f :: fs, s => by
    unfold decodeMsg at *
    cases hk : known f with
    | true =>
      simp only [List.filter_cons, hk, ↓reduceIte, foldlM_cons']
      congr 1; funext s'; exact decodeMsg_filter_known step known hs fs s'
    | false =>
      simp only [List.filter_cons, hk, Bool.false_eq_true, ↓reduceIte, foldlM_cons', hs s f hk, Option.bind_some]
      exact decodeMsg_filter_known step known hs fs s

theorem mem_insertByRank (rank : Nat × WireType → Nat) (f g : Field) : ∀ (l : List Field),
    g ∈ insertByRank rank f l ↔ g = f ∨ g ∈ l
  | [] => by simp [insertByRank]
  | a :: l => by
    unfold insertByRank
    split
    · simp
    · simp only [List.mem_cons, mem_insertByRank rank f g l]
      constructor <;> (intro h; rcases h with h | h | h <;> simp [h])

theorem mem_sortByRank (rank : Nat × WireType → Nat) (g : Field) : ∀ (fs : List Field),
    g ∈ sortByRank rank fs ↔ g ∈ fs
  | [] => by simp [sortByRank]
  | f :: fs => by simp [sortByRank, mem_insertByRank, mem_sortByRank rank g fs]

theorem insertByRank_filter (rank : Nat × WireType → Nat) (f : Field) (k : Nat × WireType) : ∀ (l : List Field),
    (insertByRank rank f l).filter (fun g => key g = k) = (f :: l).filter (fun g => key g = k)
  | [] => by simp [insertByRank]
  | a :: l => by
    unfold insertByRank
    split
    · rfl
    · rename_i hr
      have hne : key a ≠ key f := by
        intro he; rw [he] at hr; omega
      have ih := insertByRank_filter rank f k l
      by_cases h1 : key f = k
      · have h2 : key a ≠ k := by rw [← h1]; exact hne
        simp [List.filter_cons, h1, h2] at ih ⊢
        exact ih
      · by_cases h2 : key a = k
        · simp [List.filter_cons, h1, h2] at ih ⊢
          exact ih
        · simp [List.filter_cons, h1, h2] at ih ⊢
          exact ih

theorem sortByRank_filter (rank : Nat × WireType → Nat) (k : Nat × WireType) : ∀ (fs : List Field),
    (sortByRank rank fs).filter (fun g => key g = k) = fs.filter (fun g => key g = k)
  | [] => rfl
  | f :: fs => by
    simp only [sortByRank, insertByRank_filter]
    simp only [List.filter_cons, sortByRank_filter rank k fs]

/-- sorting the fields of a message by ANY rank of (tag, wire type) does not change what is decoded -/
theorem decodeMsg_sortByRank {σ : Type} (step : σ → Field → Option σ) (P : Field → Prop) (hc : CommutesOn step P)
    (rank : Nat × WireType → Nat) (s : σ) (fs : List Field) (hP : ∀ f ∈ fs, P f) :
    decodeMsg step s (sortByRank rank fs) = decodeMsg step s fs :=
  decodeMsg_congr_of_filters step P hc s _ _ (fun f hf => hP f ((mem_sortByRank rank f fs).mp hf)) hP
    (fun k => sortByRank_filter rank k fs)

end Osmium.PbfMsg
